(* C15: the 1-D fixer dem._adjust_elevation returns a non-increasing profile, keeps the most downstream value and
   stays within the range of its input -- for EVERY profile.  Part 1: one pit repair. *)
From Coq Require Import List Arith ZArith Lia Bool Sorting.Sorted.
Import ListNotations.
From PF Require Import Arr Net Elev ElevSpec DigSpec.
Local Open Scope Z_scope.

Section C.
Variable cost : list Z -> mods -> Z.


Definition ninc (e : list Z) (a b : nat) : Prop := forall k, (a <= k)%nat -> (S k < b)%nat -> zn e (S k) <= zn e k.
Definition ndec (e : list Z) (a b : nat) : Prop := forall k, (a <= k)%nat -> (S k < b)%nat -> zn e k <= zn e (S k).

Lemma ninc_le e a b x y : ninc e a b -> (a <= x)%nat -> (x <= y)%nat -> (y < b)%nat -> zn e y <= zn e x.
Proof. intros H Hx Hxy Hy. induction y as [|y IH]; [assert (x = 0)%nat by lia; subst; lia|].
  destruct (Nat.eq_dec x (S y)) as [->|Hne]; [lia|]. assert (zn e y <= zn e x) by (apply IH; lia).
  assert (zn e (S y) <= zn e y) by (apply H; lia). lia. Qed.

Lemma ndec_le e a b x y : ndec e a b -> (a <= x)%nat -> (x <= y)%nat -> (y < b)%nat -> zn e x <= zn e y.
Proof. intros H Hx Hxy Hy. induction y as [|y IH]; [assert (x = 0)%nat by lia; subst; lia|].
  destruct (Nat.eq_dec x (S y)) as [->|Hne]; [lia|]. assert (zn e x <= zn e y) by (apply IH; lia).
  assert (zn e y <= zn e (S y)) by (apply H; lia). lia. Qed.

Lemma ninc_sub e a b a' b' : ninc e a b -> (a <= a')%nat -> (b' <= b)%nat -> ninc e a' b'.
Proof. intros H Ha Hb k Hk1 Hk2. apply H; lia. Qed.

(* ---------- assigning a function over a range ---------- *)
Lemma apply_range (f : nat -> Z) : forall len a e k, (a + len <= length e)%nat ->
  zn (apply_mods e (map (fun j => (j, f j)) (seq a len))) k = if (a <=? k)%nat && (k <? a + len)%nat then f k else zn e k.
Proof.
  unfold apply_mods. induction len as [|len IH]; intros a e k Hl; simpl.
  - destruct (a <=? k)%nat eqn:E1; simpl; auto. destruct (Nat.ltb_spec k (a + 0)); auto. apply Nat.leb_le in E1. lia.
  - rewrite IH by (rewrite upd_length; lia). unfold zn. rewrite nth_upd.
    destruct (Nat.leb_spec (S a) k), (Nat.ltb_spec k (S a + len)), (Nat.leb_spec a k), (Nat.ltb_spec k (a + S len)),
             (Nat.eqb_spec k a), (Nat.ltb_spec a (length e)); simpl; auto; try lia; subst; auto; lia.
Qed.

Lemma apply_range_rng f a b e k : (b <= length e)%nat ->
  zn (apply_mods e (map (fun j => (j, f j)) (rng a b))) k = if (a <=? k)%nat && (k <? b)%nat then f k else zn e k.
Proof.
  intros Hb. unfold rng. destruct (Nat.le_gt_cases a b) as [Hab|Hab].
  - rewrite apply_range by lia. replace (a + (b - a))%nat with b by lia. reflexivity.
  - replace (b - a)%nat with 0%nat by lia. simpl. destruct (Nat.leb_spec a k), (Nat.ltb_spec k b); simpl; auto; lia.
Qed.

(* a range assignment keeps [0, i) non-increasing under five local conditions *)
Lemma range_ninc (e : list Z) (f : nat -> Z) (a b i : nat) (e' : list Z) : (a <= b)%nat -> (b <= S i)%nat ->
  (forall k, zn e' k = if (a <=? k)%nat && (k <? b)%nat then f k else zn e k) ->
  ninc e 0 a -> (forall k, (a <= k)%nat -> (S k < b)%nat -> f (S k) <= f k) ->
  ((0 < a)%nat -> (a < b)%nat -> f a <= zn e (a - 1)%nat) ->
  ((a < b)%nat -> (b < i)%nat -> zn e b <= f (b - 1)%nat) ->
  ((b <= a)%nat -> (0 < a)%nat -> (a < i)%nat -> zn e a <= zn e (a - 1)%nat) ->
  ninc e b i -> ninc e' 0 i.
Proof.
  intros Hab Hbi He' H1 H2 H3 H4 H5 H6 k _ Hk. rewrite !He'.
  destruct (Nat.leb_spec a (S k)), (Nat.ltb_spec (S k) b), (Nat.leb_spec a k), (Nat.ltb_spec k b); simpl; try lia.
  - apply H2; lia.
  - assert (Ek : S k = a) by lia. rewrite Ek. assert (Ek2 : k = (a - 1)%nat) by lia. rewrite Ek2. apply H3; lia.
  - assert (Ek : S k = b) by lia. rewrite Ek. assert (Ek2 : k = (b - 1)%nat) by lia. rewrite Ek2. apply H4; lia.
  - apply H6; lia.
  - destruct (Nat.eq_dec (S k) a) as [E|E]; [|apply H6; lia].
    rewrite E. assert (Ek2 : k = (a - 1)%nat) by lia. rewrite Ek2. apply H5; lia.
  - apply H1; lia.
Qed.

(* ---------- np.unique(...)[::-1] ---------- *)
Lemma ins_desc_In z l x : In x (ins_desc z l) <-> x = z \/ In x l.
Proof. induction l as [|h t IH]; simpl; [intuition|].
  destruct (h <? z); [simpl; intuition|]. destruct (Z.eqb_spec h z) as [->|Hne]; [simpl; intuition|].
  simpl. rewrite IH. intuition. Qed.

Lemma uniq_desc_In l x : In x (uniq_desc l) <-> In x l.
Proof. unfold uniq_desc. induction l as [|h t IH]; simpl; [tauto|]. rewrite ins_desc_In, IH. intuition. Qed.

Lemma ins_desc_sorted z l : StronglySorted (fun a b => a > b) l -> StronglySorted (fun a b => a > b) (ins_desc z l).
Proof.
  induction l as [|h t IH]; intros Hs; simpl; [constructor; [constructor|constructor]|].
  inversion Hs as [|? ? Hst Hall]; subst.
  destruct (Z.ltb_spec h z).
  - constructor; auto. constructor; [lia|]. rewrite Forall_forall in *. intros x Hx. specialize (Hall x Hx). lia.
  - destruct (Z.eqb_spec h z); [exact Hs|].
    constructor; [apply IH; auto|]. rewrite Forall_forall in *. intros x Hx. apply ins_desc_In in Hx.
    destruct Hx as [->|Hx]; [lia|auto].
Qed.

Lemma uniq_desc_sorted l : StronglySorted (fun a b => a > b) (uniq_desc l).
Proof. unfold uniq_desc. induction l as [|h t IH]; simpl; [constructor|apply ins_desc_sorted; auto]. Qed.

(* ---------- the scan `for j in range(a, a+len): if e[j] <= z: break` ---------- *)
Lemma first_le_spec e z : forall len a, (0 < len)%nat ->
  let r := first_le e z a len in
  (a <= r)%nat /\ (r < a + len)%nat /\ (forall k, (a <= k)%nat -> (k < r)%nat -> z < zn e k) /\
  (zn e r <= z \/ r = (a + len - 1)%nat).
Proof.
  induction len as [|len IH]; intros a Hl; [lia|]. cbn [first_le].
  destruct (Z.leb_spec (zn e a) z) as [Hle|Hgt].
  - split; [lia|]. split; [lia|]. split; [intros; lia|left; auto].
  - destruct len as [|len'].
    + split; [lia|]. split; [lia|]. split; [intros; lia|right; lia].
    + destruct (IH (S a) ltac:(lia)) as (H1 & H2 & H3 & H4). split; [lia|]. split; [lia|]. split.
      * intros k Hk1 Hk2. destruct (Nat.eq_dec k a) as [->|Hne]; [lia|apply H3; lia].
      * destruct H4 as [H4|H4]; [left; auto|right; lia].
Qed.

(* ---------- what a pit repair must deliver ---------- *)
Record pitres (e : list Z) (i : nat) (e' : list Z) : Prop := {
  pr_len : length e' = length e;
  pr_ninc : ninc e' 0 i;
  pr_after : forall k, (i < k)%nat -> zn e' k = zn e k;
  pr_i : zn e' i <= zn e i;
  pr_rise : zn e (i - 1) < zn e i -> zn e' (i - 1) <= zn e' i;
  pr_lo : forall lo, (forall k, (k < length e)%nat -> lo <= zn e k) -> forall k, (k < length e)%nat -> lo <= zn e' k;
  pr_hi : forall hi, (forall k, (k < length e)%nat -> zn e k <= hi) -> forall k, (k < length e)%nat -> zn e' k <= hi;
  pr_min : (forall k, (k < length e)%nat -> zn e i <= zn e k) -> zn e' i = zn e i }.

(* the situation in which a pit is repaired: a non-increasing prefix up to im, then a hump im .. ip .. i *)
Record shape (e : list Z) (im ip imx i : nat) (zmin zmx : Z) : Prop := {
  sh_i : (im < i)%nat /\ (i < length e)%nat;
  sh_pre : ninc e 0 (S im);
  sh_zmin : zn e im = zmin;
  sh_ip : (im <= ip)%nat /\ (ip < i)%nat;
  sh_nd : ndec e im (S ip);
  sh_ni : ninc e ip i;
  sh_imx : (imx = i /\ zmx = zn e i /\ zn e ip <= zn e i) \/ (imx = ip /\ zmx = zn e ip /\ zn e i < zn e ip) }.

Lemma shape_peak e im ip imx i zmin zmx : shape e im ip imx i zmin zmx ->
  forall k, (im <= k)%nat -> (k < i)%nat -> zn e k <= zn e ip.
Proof. intros [Hi Hp Hz [Hip1 Hip2] Hnd Hni _] k Hk1 Hk2.
  destruct (Nat.le_gt_cases k ip); [apply (ndec_le e im (S ip)); auto; lia|apply (ninc_le e ip i); auto; lia]. Qed.

Lemma shape_zmx e im ip imx i zmin zmx : shape e im ip imx i zmin zmx ->
  zn e imx = zmx /\ (im <= imx)%nat /\ (imx <= i)%nat /\ (forall k, (im <= k)%nat -> (k <= i)%nat -> zn e k <= zmx).
Proof.
  intros H. pose proof (shape_peak _ _ _ _ _ _ _ H) as Hpk. destruct H as [Hi Hp Hz [Hip1 Hip2] Hnd Hni Hx].
  destruct Hx as [(-> & -> & Hle)|(-> & -> & Hlt)].
  - split; auto. split; [lia|]. split; [lia|]. intros k Hk1 Hk2. destruct (Nat.eq_dec k i) as [->|]; [lia|]. specialize (Hpk k Hk1 ltac:(lia)). lia.
  - split; auto. split; [lia|]. split; [lia|]. intros k Hk1 Hk2. destruct (Nat.eq_dec k i) as [->|]; [lia|]. apply Hpk; lia.
Qed.

(* generic: a range assignment with values between existing values gives a pitres, given the monotonicity conditions *)
Lemma range_pitres (e : list Z) (f : nat -> Z) (a b i : nat) (e' : list Z) :
  (a <= b)%nat -> (b <= S i)%nat -> (i < length e)%nat -> length e' = length e ->
  (forall k, zn e' k = if (a <=? k)%nat && (k <? b)%nat then f k else zn e k) ->
  ninc e' 0 i ->
  (forall k, (a <= k)%nat -> (k < b)%nat -> exists j1 j2, (j1 < length e)%nat /\ (j2 < length e)%nat /\ zn e j1 <= f k <= zn e j2) ->
  ((b = S i)%nat -> (a <= i)%nat -> f i <= zn e i /\ ((forall k, (k < length e)%nat -> zn e i <= zn e k) -> f i = zn e i)) ->
  (zn e (i - 1) < zn e i -> zn e' (i - 1) <= zn e' i) ->
  pitres e i e'.
Proof.
  intros Hab Hb Hi Hlen He' Hn Hbnd Hfi Hrise. constructor; auto.
  - intros k Hk. rewrite He'. destruct (Nat.leb_spec a k), (Nat.ltb_spec k b); simpl; auto; lia.
  - rewrite He'. destruct (Nat.leb_spec a i), (Nat.ltb_spec i b); simpl; try lia; try (apply Hfi; lia).
  - intros lo Hlo k Hk. rewrite He'. destruct (Nat.leb_spec a k), (Nat.ltb_spec k b); simpl; auto.
    destruct (Hbnd k) as (j1 & j2 & H1 & H2 & H3); auto. specialize (Hlo j1 H1). lia.
  - intros hi Hhi k Hk. rewrite He'. destruct (Nat.leb_spec a k), (Nat.ltb_spec k b); simpl; auto.
    destruct (Hbnd k) as (j1 & j2 & H1 & H2 & H3); auto. specialize (Hhi j2 H2). lia.
  - intros Hmin. rewrite He'. destruct (Nat.leb_spec a i), (Nat.ltb_spec i b); simpl; auto. apply Hfi; auto; lia.
Qed.

(* ---------- the three repairs ---------- *)
Section Pit.
Variable e : list Z.
Variables im ip imx i : nat.
Variables zmin zmx : Z.
Hypothesis Hsh : shape e im ip imx i zmin zmx.

Lemma opt1_ok : pitres e i (apply_mods e (map (fun k => (k, Z.min zmin (zn e k))) (rng im i))).
Proof.
  pose proof (shape_peak _ _ _ _ _ _ _ Hsh) as Hpk. destruct Hsh as [[Hi1 Hi2] Hp Hz [Hip1 Hip2] Hnd Hni Hx].
  set (f := fun k => Z.min zmin (zn e k)). set (e' := apply_mods e _).
  assert (He' : forall k, zn e' k = if (im <=? k)%nat && (k <? i)%nat then f k else zn e k)
    by (intros k; unfold e'; apply (apply_range_rng f); lia).
  assert (Hge : forall k, (im <= k)%nat -> (k <= ip)%nat -> zmin <= zn e k).
  { intros k Hk1 Hk2. rewrite <- Hz. apply (ndec_le e im (S ip)); auto; lia. }
  apply (range_pitres e f im i i e'); auto; try lia.
  - unfold e'. apply apply_mods_length.
  - apply (range_ninc e f im i i e'); auto; try lia.
    + apply (ninc_sub e 0 (S im)); auto; lia.
    + intros k Hk1 Hk2. unfold f. destruct (Nat.le_gt_cases (S k) ip).
      * pose proof (Hge (S k) ltac:(lia) ltac:(lia)). pose proof (Hge k ltac:(lia) ltac:(lia)). lia.
      * assert (zn e (S k) <= zn e k) by (apply Hni; lia). lia.
    + intros Ha _. unfold f. rewrite Hz. assert (zn e im <= zn e (im - 1)).
      { replace im with (S (im - 1)) at 1 by lia. apply Hp; lia. }
      lia.
    + intros k Hk1 Hk2; lia.
  - intros k Hk1 Hk2. unfold f. destruct (Z.le_ge_cases zmin (zn e k)).
    + exists im, k. split; [lia|]. split; [lia|]. rewrite Hz. lia.
    + exists k, k. split; [lia|]. split; [lia|]. lia.
  - intros Hr. rewrite !He'.
    destruct (Nat.leb_spec im (i - 1)), (Nat.ltb_spec (i - 1) i), (Nat.leb_spec im i), (Nat.ltb_spec i i); simpl; try lia.
    unfold f. lia.
Qed.

Lemma opt2_ok : pitres e i (apply_mods e (map (fun k => (k, Z.max zmx (zn e k))) (rng 0 imx))).
Proof.
  destruct (shape_zmx _ _ _ _ _ _ _ Hsh) as (Hzx & Hx1 & Hx2 & Hxb).
  destruct Hsh as [[Hi1 Hi2] Hp Hz [Hip1 Hip2] Hnd Hni Hx].
  set (f := fun k => Z.max zmx (zn e k)). set (e' := apply_mods e _).
  assert (He' : forall k, zn e' k = if (0 <=? k)%nat && (k <? imx)%nat then f k else zn e k)
    by (intros k; unfold e'; apply (apply_range_rng f); lia).
  apply (range_pitres e f 0 imx i e'); auto; try lia.
  - unfold e'. apply apply_mods_length.
  - apply (range_ninc e f 0 imx i e'); auto; try lia.
    + intros k Hk1 Hk2. lia.
    + intros k _ Hk2. unfold f. destruct (Nat.le_gt_cases (S k) im).
      * assert (zn e (S k) <= zn e k) by (apply Hp; lia). lia.
      * assert (zn e (S k) <= zmx) by (apply Hxb; lia). lia.
    + intros Ha Hb. unfold f. rewrite <- Hzx. lia.
    + destruct Hx as [(-> & _)|(-> & _)]; [intros k Hk1 Hk2; lia|exact Hni].
  - intros k Hk1 Hk2. unfold f. destruct (Z.le_ge_cases zmx (zn e k)).
    + exists k, k. split; [lia|]. split; [lia|]. lia.
    + exists k, imx. split; [lia|]. split; [lia|]. rewrite Hzx. lia.
  - intros Hr. rewrite !He'.
    destruct (Nat.ltb_spec (i - 1) imx), (Nat.ltb_spec i imx); simpl; try lia.
    assert (imx = i) by lia. subst imx. unfold f. rewrite <- Hzx. lia.
Qed.

(* option 3 with level z: cells j0 .. max(imx+1, j1) - 1 are set to z *)
Record opt3ok (z : Z) (j0 j1 : nat) : Prop := {
  o_j0 : (j0 <= im)%nat;
  o_pre : forall k, (k < j0)%nat -> z < zn e k;
  o_j1 : (imx <= j1)%nat /\ (j1 <= i)%nat;
  o_mid : forall k, (imx <= k)%nat -> (k < j1)%nat -> z < zn e k;
  o_end : (j1 < i)%nat -> zn e j1 <= z;
  o_z : z < zmx;
  o_src : exists js, (im < js)%nat /\ (js < i)%nat /\ zn e js = z }.

Lemma opt3_ok z j0 j1 : opt3ok z j0 j1 ->
  pitres e i (apply_mods e (map (fun k => (k, z)) (rng j0 (Nat.max (imx + 1) j1)))).
Proof.
  intros [Hj0 Hpre [Hj1a Hj1b] Hmid Hend Hzlt [js (Hjs1 & Hjs2 & Hjs3)]].
  destruct (shape_zmx _ _ _ _ _ _ _ Hsh) as (Hzx & Hx1 & Hx2 & Hxb).
  destruct Hsh as [[Hi1 Hi2] Hp Hz [Hip1 Hip2] Hnd Hni Hx].
  set (b := Nat.max (imx + 1) j1). set (f := fun _ : nat => z). set (e' := apply_mods e _).
  assert (Hb : (b <= S i)%nat) by (unfold b; lia).
  assert (He' : forall k, zn e' k = if (j0 <=? k)%nat && (k <? b)%nat then f k else zn e k)
    by (intros k; unfold e'; apply (apply_range_rng f); lia).
  assert (Hbcase : (imx = i /\ b = S i) \/ ((imx < i)%nat /\ imx = ip /\ b = j1 /\ (imx < j1)%nat)).
  { destruct Hx as [(-> & Hzm & _)|(-> & Hzm & Hlt)]; [left; split; auto; unfold b; lia|right].
    assert (Hne : j1 <> ip). { intros ->. specialize (Hend Hip2). lia. }
    split; [lia|]. split; auto. unfold b. split; lia. }
  apply (range_pitres e f j0 b i e'); auto; try lia.
  - unfold e'. apply apply_mods_length.
  - apply (range_ninc e f j0 b i e'); auto; try (unfold b; lia).
    + apply (ninc_sub e 0 (S im)); auto; lia.
    + intros k _ _. unfold f. lia.
    + intros Ha _. unfold f. specialize (Hpre (j0 - 1)%nat ltac:(lia)). lia.
    + intros _ Hbi. unfold f. destruct Hbcase as [(_ & Hb')|(_ & _ & Hb' & _)]; [lia|]. rewrite Hb'. apply Hend. lia.
    + destruct Hbcase as [(_ & Hb')|(_ & Hipx & Hb' & Hlt)]; [intros k Hk1 Hk2; lia|].
      rewrite Hb'. apply (ninc_sub e ip i); auto; lia.
  - intros k Hk1 Hk2. exists js, js. unfold f. rewrite Hjs3. split; [lia|]. split; [lia|]. lia.
  - intros Hbi Hai. unfold f. destruct Hbcase as [(Hxi & _)|(_ & _ & Hb' & _)]; [|lia].
    subst imx. split; [lia|]. intros Hmin. specialize (Hmin js ltac:(lia)). lia.
  - intros Hr. rewrite !He'. unfold f.
    destruct (Nat.leb_spec j0 (i - 1)), (Nat.ltb_spec (i - 1) b), (Nat.leb_spec j0 i), (Nat.ltb_spec i b); simpl; try lia.
    destruct Hbcase as [(_ & Hb')|(Hlt & _ & Hb' & _)]; [lia|].
    specialize (Hmid (i - 1)%nat ltac:(lia) ltac:(lia)). lia.
Qed.
End Pit.

Section PitFold.
Variable e : list Z.
Variables im ip imx i : nat.
Variables zmin zmx : Z.
Hypothesis Hsh : shape e im ip imx i zmin zmx.

Definition finv (st : nat * nat * Z * mods) (rest : list Z) : Prop :=
  let '(i0, i1, c, m) := st in
  pitres e i (apply_mods e m) /\ (i0 <= im)%nat /\ (imx <= i1)%nat /\ (i1 <= i)%nat /\
  forall z, In z rest -> (forall k, (k < i0)%nat -> z < zn e k) /\ (forall k, (imx <= k)%nat -> (k < i1)%nat -> z < zn e k).

Lemma fold_opt3 : forall rest st, StronglySorted (fun a b => a > b) rest ->
  (forall z, In z rest -> z < zmx /\ exists js, (im < js)%nat /\ (js < i)%nat /\ zn e js = z) ->
  finv st rest ->
  let '(_, _, _, mb) := fold_left (opt3_step cost e im imx i) rest st in pitres e i (apply_mods e mb).
Proof.
  induction rest as [|z rest IH]; intros [[[i0 i1] c] m] Hs Hsrc Hf; cbn [fold_left].
  - destruct Hf as (H & _). exact H.
  - destruct Hf as (Hcand & H0 & H1a & H1b & Hz).
    destruct (Hz z (or_introl eq_refl)) as [Hz0 Hz1]. destruct (Hsrc z (or_introl eq_refl)) as [Hzlt Hjs].
    inversion Hs as [|? ? Hs' Hall]; subst. rewrite Forall_forall in Hall.
    destruct (first_le_spec e z (im + 1 - i0) i0 ltac:(lia)) as (A1 & A2 & A3 & A4).
    destruct (first_le_spec e z (i + 1 - i1) i1 ltac:(lia)) as (B1 & B2 & B3 & B4).
    set (j0 := first_le e z i0 (im + 1 - i0)) in *. set (j1 := first_le e z i1 (i + 1 - i1)) in *.
    assert (Hok : opt3ok e im imx i zmx z j0 j1).
    { constructor.
      - lia.
      - intros k Hk. destruct (Nat.lt_ge_cases k i0); [apply Hz0; auto|apply A3; lia].
      - lia.
      - intros k Hk1 Hk2. destruct (Nat.lt_ge_cases k i1); [apply Hz1; auto|apply B3; lia].
      - intros Hlt. destruct B4 as [B4|B4]; [exact B4|lia].
      - exact Hzlt.
      - exact Hjs. }
    pose proof (opt3_ok e im ip imx i zmin zmx Hsh z j0 j1 Hok) as Hc3.
    assert (Hnext : forall c' m', pitres e i (apply_mods e m') -> finv (j0, j1, c', m') rest).
    { intros c' m' Hcm. split; auto. split; [lia|]. split; [lia|]. split; [lia|].
      intros z' Hz'. specialize (Hall z' Hz'). split.
      - intros k Hk. assert (z < zn e k); [|lia]. destruct (Nat.lt_ge_cases k i0); [apply Hz0; auto|apply A3; lia].
      - intros k Hk1 Hk2. assert (z < zn e k); [|lia]. destruct (Nat.lt_ge_cases k i1); [apply Hz1; auto|apply B3; lia]. }
    unfold opt3_step at 2. fold j0. fold j1.
    destruct (cost e (map (fun k => (k, z)) (rng j0 (Nat.max (imx + 1) j1))) <? c);
      apply IH; auto; intros z' Hz'; apply Hsrc; right; exact Hz'.
Qed.

Theorem fix_pit_ok : pitres e i (fix_pit cost e im imx i zmin zmx).
Proof.
  destruct (shape_zmx _ _ _ _ _ _ _ Hsh) as (Hzx & Hx1 & Hx2 & Hxb).
  unfold fix_pit.
  set (m1 := map (fun k => (k, Z.min zmin (zn e k))) (rng im i)).
  set (m2 := map (fun k => (k, Z.max zmx (zn e k))) (rng 0 imx)).
  set (zs := uniq_desc (map (zn e) (rng (im + 1) i))).
  assert (Hzs : StronglySorted (fun a b => a > b) zs) by apply uniq_desc_sorted.
  assert (Hsl : forall z, In z zs -> z <= zmx /\ exists js, (im < js)%nat /\ (js < i)%nat /\ zn e js = z).
  { intros z Hz. unfold zs in Hz. apply (proj1 (uniq_desc_In _ _)) in Hz. apply in_map_iff in Hz. destruct Hz as [js [<- Hjs]].
    unfold rng in Hjs. apply in_seq in Hjs. split; [apply Hxb; lia|]. exists js. split; [lia|]. split; [lia|reflexivity]. }
  assert (Htl : StronglySorted (fun a b => a > b) (tl zs) /\
                forall z, In z (tl zs) -> z < zmx /\ exists js, (im < js)%nat /\ (js < i)%nat /\ zn e js = z).
  { destruct zs as [|h t]; simpl; [split; [constructor|intros z []]|].
    inversion Hzs as [|? ? Hs' Hall]; subst. split; auto. rewrite Forall_forall in Hall.
    intros z Hz. destruct (Hsl z (or_intror Hz)) as [_ Hjs]. split; auto.
    specialize (Hall z Hz). destruct (Hsl h (or_introl eq_refl)) as [Hh _]. lia. }
  destruct Htl as [Hts Htsrc].
  assert (Hstart : forall c m, pitres e i (apply_mods e m) -> finv (0%nat, imx, c, m) (tl zs)).
  { intros c m Hc. split; auto. split; [lia|]. split; [lia|]. split; [lia|]. intros z _. split; intros k Hk; lia. }
  pose proof (opt1_ok e im ip imx i zmin zmx Hsh) as H1. fold m1 in H1.
  pose proof (opt2_ok e im ip imx i zmin zmx Hsh) as H2. fold m2 in H2.
  destruct (cost e m2 <? cost e m1).
  - pose proof (fold_opt3 (tl zs) (0%nat, imx, cost e m2, m2) Hts Htsrc (Hstart _ _ H2)) as HF.
    destruct (fold_left (opt3_step cost e im imx i) (tl zs) (0%nat, imx, cost e m2, m2)) as [[[a b] c] mb]. exact HF.
  - pose proof (fold_opt3 (tl zs) (0%nat, imx, cost e m1, m1) Hts Htsrc (Hstart _ _ H1)) as HF.
    destruct (fold_left (opt3_step cost e im imx i) (tl zs) (0%nat, imx, cost e m1, m1)) as [[[a b] c] mb]. exact HF.
Qed.
End PitFold.

(* ---------- the loop ---------- *)
Section Loop.
Variable n : nat.
Variable L lo hi : Z.

Definition common (s : fst1) : Prop :=
  length (fe s) = n /\ (forall k, (k < n)%nat -> L <= zn (fe s) k) /\ zn (fe s) (n - 1) = L /\
  (forall k, (k < n)%nat -> lo <= zn (fe s) k <= hi).

Definition inv (i : nat) (s : fst1) : Prop :=
  common s /\
  match fimin s with
  | None => ninc (fe s) 0 i /\ fz1 s <= fz2 s /\ ((1 <= i)%nat -> fz1 s = zn (fe s) (i - 1)) /\ (i = 0%nat -> fz1 s <= zn (fe s) 0)
  | Some im =>
    (im < i)%nat /\ ninc (fe s) 0 (S im) /\ zn (fe s) im = fzmin s /\
    (im <= fimax s)%nat /\ (fimax s < i)%nat /\ zn (fe s) (fimax s) = fzmax s /\
    ndec (fe s) im (S (fimax s)) /\ ninc (fe s) (fimax s) i /\
    zn (fe s) (i - 1) <= fz1 s /\ (fimax s <> (i - 1)%nat -> fz1 s = zn (fe s) (i - 1)) /\
    ((fimax s < i - 1)%nat -> zn (fe s) (i - 2) <= fz2 s)
  end.

Lemma step_inv i s : (S i < n)%nat -> inv i s -> inv (S i) (fix_step cost n s i).
Proof.
  intros Hi [Hc Hph]. destruct Hc as (C0 & C1 & C2 & C3).
  unfold fix_step. set (e := fe s) in *. set (zi := zn e i).
  destruct (fimin s) as [im|] eqn:Emin.
  - (* a pit was seen before *)
    destruct Hph as (T1 & Tpre & Tzmin & Tip1 & Tip2 & Tzmax & Tnd & Tni & Tz1 & Tz1eq & Tz2).
    assert (Hsh : shape e im (fimax s) (if zi >=? fzmax s then i else fimax s) i (fzmin s) (if zi >=? fzmax s then zi else fzmax s)).
    { constructor; auto; try lia. unfold zi. destruct (Z.geb_spec (zn e i) (fzmax s)); [left|right]; repeat split; auto; lia. }
    (* no rise inside the descending part goes unnoticed *)
    assert (Hnorise : ((zi >? fz1 s) && (fz2 s >=? fz1 s)) = false -> (fimax s < i - 1)%nat -> zi <= zn e (i - 1)).
    { intros Hcond Hlt. rewrite (Tz1eq ltac:(lia)) in Hcond. specialize (Tz2 Hlt).
      assert (zn e (i - 1) <= zn e (i - 2)). { replace (i - 1)%nat with (S (i - 2)) by lia. apply Tni; lia. }
      apply andb_false_iff in Hcond. destruct Hcond as [Hcond|Hcond].
      - unfold zi in *. destruct (Z.gtb_spec (zn e i) (zn e (i - 1))); [discriminate|lia].
      - destruct (Z.geb_spec (fz2 s) (zn e (i - 1))); [discriminate|lia]. }
    replace (match Some im with Some _ => (i + 1 =? n)%nat | None => false end) with false
      by (symmetry; apply Nat.eqb_neq; lia). rewrite orb_false_r.
    destruct (zi >=? fzmax s) eqn:Ege.
    + destruct ((zi >? fz1 s) && (fz2 s >=? fz1 s)) eqn:Econd.
      * (* pit *)
        pose proof (fix_pit_ok e im (fimax s) i i (fzmin s) zi Hsh) as HR. set (e' := fix_pit cost e im i i (fzmin s) zi) in *.
        destruct HR as [R1 R2 R3 R4 R5 R6 R7 R8].
        assert (Hrise : zn e (i - 1) < zn e i).
        { apply andb_true_iff in Econd. destruct Econd as [Ec _]. apply Z.gtb_lt in Ec. unfold zi in Ec. lia. }
        split; [|cbn [fimin fe fimax fzmax fzmin fz1 fz2]].
        -- unfold common. cbn [fe]. split; [congruence|]. split; [intros k Hk; apply R6; [intros k' Hk'; apply C1; lia|lia]|].
           split; [rewrite R3 by lia; exact C2|]. intros k Hk. split; [apply R6; [intros k' Hk'; apply C3; lia|lia]|apply R7; [intros k' Hk'; apply C3; lia|lia]].
        -- replace (S i - 1)%nat with i by lia. replace (S (i - 1)) with i by lia.
           split; [lia|]. split; [exact R2|]. split; [reflexivity|]. split; [lia|]. split; [lia|]. split; [reflexivity|].
           split; [intros k Hk1 Hk2; assert (k = (i - 1)%nat) by lia; subst k; replace (S (i - 1)) with i by lia; apply R5; exact Hrise|].
           split; [intros k Hk1 Hk2; lia|]. split; [unfold zi; exact R4|]. split; [intros H; lia|intros H; lia].
      * (* no pit, new maximum *)
        split; [repeat split; auto; apply C3; auto|]. cbn [fimin fe fimax fzmax fzmin fz1 fz2].
        replace (S i - 1)%nat with i by lia.
        assert (Hz : zn e (fimax s) <= zi) by (apply Z.geb_le in Ege; lia).
        split; [lia|]. split; [exact Tpre|]. split; [exact Tzmin|]. split; [lia|]. split; [lia|]. split; [reflexivity|].
        split; [|split; [intros k Hk1 Hk2; lia|split; [unfold zi; lia|split; [intros _; reflexivity|intros H; lia]]]].
        intros k Hk1 Hk2. destruct (Nat.lt_ge_cases k (fimax s)) as [Hk|Hk]; [apply Tnd; lia|].
        destruct (Nat.eq_dec (fimax s) (i - 1)) as [Eip|Eip].
        -- assert (k = fimax s) by lia. subst k. replace (S (fimax s)) with i by lia. exact Hz.
        -- pose proof (Hnorise eq_refl ltac:(lia)) as Hn.
           assert (Ha : forall x, (fimax s <= x)%nat -> (x <= i - 1)%nat -> zn e x = zi).
           { intros x Hx1 Hx2. assert (zn e x <= zn e (fimax s)) by (apply (ninc_le e (fimax s) i); auto; lia).
             assert (zn e (i - 1) <= zn e x) by (apply (ninc_le e (fimax s) i); auto; lia). lia. }
           destruct (Nat.eq_dec (S k) i) as [Ek|Ek]; [rewrite Ek, (Ha k) by lia; unfold zi; lia|rewrite (Ha k), (Ha (S k)) by lia; lia].
    + destruct ((zi >? fz1 s) && (fz2 s >=? fz1 s)) eqn:Econd.
      * pose proof (fix_pit_ok e im (fimax s) (fimax s) i (fzmin s) (fzmax s) Hsh) as HR. set (e' := fix_pit cost e im (fimax s) i (fzmin s) (fzmax s)) in *.
        destruct HR as [R1 R2 R3 R4 R5 R6 R7 R8].
        assert (Hrise : zn e (i - 1) < zn e i).
        { apply andb_true_iff in Econd. destruct Econd as [Ec _]. apply Z.gtb_lt in Ec. unfold zi in Ec. lia. }
        split; [|cbn [fimin fe fimax fzmax fzmin fz1 fz2]].
        -- unfold common. cbn [fe]. split; [congruence|]. split; [intros k Hk; apply R6; [intros k' Hk'; apply C1; lia|lia]|].
           split; [rewrite R3 by lia; exact C2|]. intros k Hk. split; [apply R6; [intros k' Hk'; apply C3; lia|lia]|apply R7; [intros k' Hk'; apply C3; lia|lia]].
        -- replace (S i - 1)%nat with i by lia. replace (S (i - 1)) with i by lia.
           split; [lia|]. split; [exact R2|]. split; [reflexivity|]. split; [lia|]. split; [lia|]. split; [reflexivity|].
           split; [intros k Hk1 Hk2; assert (k = (i - 1)%nat) by lia; subst k; replace (S (i - 1)) with i by lia; apply R5; exact Hrise|].
           split; [intros k Hk1 Hk2; lia|]. split; [unfold zi; exact R4|]. split; [intros H; lia|intros H; lia].
      * (* no pit, descending *)
        split; [repeat split; auto; apply C3; auto|]. cbn [fimin fe fimax fzmax fzmin fz1 fz2].
        replace (S i - 1)%nat with i by lia.
        assert (Hz : zi < zn e (fimax s)) by (destruct (Z.geb_spec zi (fzmax s)); [discriminate|lia]).
        split; [lia|]. split; [exact Tpre|]. split; [exact Tzmin|]. split; [lia|]. split; [lia|]. split; [exact Tzmax|].
        split; [exact Tnd|]. split; [|split; [unfold zi; lia|split; [intros _; reflexivity|intros H; replace (S i - 2)%nat with (i - 1)%nat by lia; exact Tz1]]].
        intros k Hk1 Hk2. destruct (Nat.eq_dec (S k) i) as [Ek|Ek]; [|apply Tni; lia].
        rewrite Ek. assert (k = (i - 1)%nat) by lia. subst k.
        destruct (Nat.eq_dec (fimax s) (i - 1)) as [Eip|Eip]; [rewrite <- Eip; unfold zi in Hz; lia|].
        apply (Hnorise eq_refl). lia.
  - (* no pit so far *)
    destruct Hph as (Nn & Nz & Nz1 & Nz0). rewrite orb_false_r.
    destruct (zi >=? fzmax s).
    +
      destruct ((zi >? fz1 s) && (fz2 s >=? fz1 s)) eqn:Econd.
      * (* the first pit: nothing is modified *)
        apply andb_true_iff in Econd. destruct Econd as [Ec _]. apply Z.gtb_lt in Ec.
        split; [repeat split; auto; apply C3; auto|]. cbn [fimin fe fimax fzmax fzmin fz1 fz2].
        replace (S i - 1)%nat with i by lia.
        destruct i as [|i'].
        -- simpl. split; [lia|]. split; [intros k Hk1 Hk2; lia|]. split; [reflexivity|]. split; [lia|]. split; [lia|]. split; [reflexivity|].
          split; [intros k Hk1 Hk2; lia|]. split; [intros k Hk1 Hk2; lia|]. split; [unfold zi; lia|]. split; [intros H; lia|intros H; lia].
        -- replace (S i' - 1)%nat with i' by lia. rewrite (Nz1 ltac:(lia)) in Ec. replace (S i' - 1)%nat with i' in Ec by lia.
          split; [lia|]. split; [exact Nn|]. split; [reflexivity|]. split; [lia|]. split; [lia|]. split; [reflexivity|].
          split; [intros k Hk1 Hk2; assert (k = i') by lia; subst k; unfold zi in Ec; lia|].
          split; [intros k Hk1 Hk2; lia|]. split; [unfold zi; lia|]. split; [intros H; lia|intros H; lia].
      * split; [repeat split; auto; apply C3; auto|]. cbn [fimin fe fimax fzmax fzmin fz1 fz2].
        replace (S i - 1)%nat with i by lia.
        assert (Hle : zi <= fz1 s).
        { apply andb_false_iff in Econd. destruct Econd as [Ec|Ec]; [destruct (Z.gtb_spec zi (fz1 s)); [discriminate|lia]|destruct (Z.geb_spec (fz2 s) (fz1 s)); [discriminate|lia]]. }
        split; [|split; [lia|split; [intros _; reflexivity|intros H; lia]]].
        intros k _ Hk2. destruct (Nat.eq_dec (S k) i) as [Ek|Ek]; [|apply Nn; lia].
        rewrite Ek. assert (k = (i - 1)%nat) by lia. subst k. rewrite <- (Nz1 ltac:(lia)). unfold zi in Hle. exact Hle.

    +
      destruct ((zi >? fz1 s) && (fz2 s >=? fz1 s)) eqn:Econd.
      * (* the first pit: nothing is modified *)
        apply andb_true_iff in Econd. destruct Econd as [Ec _]. apply Z.gtb_lt in Ec.
        split; [repeat split; auto; apply C3; auto|]. cbn [fimin fe fimax fzmax fzmin fz1 fz2].
        replace (S i - 1)%nat with i by lia.
        destruct i as [|i'].
        -- simpl. split; [lia|]. split; [intros k Hk1 Hk2; lia|]. split; [reflexivity|]. split; [lia|]. split; [lia|]. split; [reflexivity|].
          split; [intros k Hk1 Hk2; lia|]. split; [intros k Hk1 Hk2; lia|]. split; [unfold zi; lia|]. split; [intros H; lia|intros H; lia].
        -- replace (S i' - 1)%nat with i' by lia. rewrite (Nz1 ltac:(lia)) in Ec. replace (S i' - 1)%nat with i' in Ec by lia.
          split; [lia|]. split; [exact Nn|]. split; [reflexivity|]. split; [lia|]. split; [lia|]. split; [reflexivity|].
          split; [intros k Hk1 Hk2; assert (k = i') by lia; subst k; unfold zi in Ec; lia|].
          split; [intros k Hk1 Hk2; lia|]. split; [unfold zi; lia|]. split; [intros H; lia|intros H; lia].
      * split; [repeat split; auto; apply C3; auto|]. cbn [fimin fe fimax fzmax fzmin fz1 fz2].
        replace (S i - 1)%nat with i by lia.
        assert (Hle : zi <= fz1 s).
        { apply andb_false_iff in Econd. destruct Econd as [Ec|Ec]; [destruct (Z.gtb_spec zi (fz1 s)); [discriminate|lia]|destruct (Z.geb_spec (fz2 s) (fz1 s)); [discriminate|lia]]. }
        split; [|split; [lia|split; [intros _; reflexivity|intros H; lia]]].
        intros k _ Hk2. destruct (Nat.eq_dec (S k) i) as [Ek|Ek]; [|apply Nn; lia].
        rewrite Ek. assert (k = (i - 1)%nat) by lia. subst k. rewrite <- (Nz1 ltac:(lia)). unfold zi in Hle. exact Hle.

Qed.

Lemma last_step s : (1 <= n)%nat -> inv (n - 1) s ->
  let e' := fe (fix_step cost n s (n - 1)) in
  length e' = n /\ ninc e' 0 n /\ zn e' (n - 1) = L /\ (forall k, (k < n)%nat -> lo <= zn e' k <= hi).
Proof.
  intros Hn [Hc Hph]. destruct Hc as (C0 & C1 & C2 & C3).
  set (i := (n - 1)%nat) in *. unfold fix_step. set (e := fe s) in *. set (zi := zn e i).
  assert (Hfin : forall e', length e' = n -> ninc e' 0 i -> zn e' i = L -> (forall k, (k < n)%nat -> L <= zn e' k) -> ninc e' 0 n).
  { intros e' Hl Hni Hli Hlow k _ Hk. destruct (Nat.eq_dec (S k) i) as [Ek|Ek]; [rewrite Ek, Hli; apply Hlow; lia|apply Hni; unfold i; lia]. }
  destruct (fimin s) as [im|] eqn:Emin.
  - destruct Hph as (T1 & Tpre & Tzmin & Tip1 & Tip2 & Tzmax & Tnd & Tni & Tz1 & Tz1eq & Tz2).
    assert (Hsh : shape e im (fimax s) (if zi >=? fzmax s then i else fimax s) i (fzmin s) (if zi >=? fzmax s then zi else fzmax s)).
    { constructor; auto; try (unfold i; lia). unfold zi. destruct (Z.geb_spec (zn e i) (fzmax s)); [left|right]; repeat split; auto; lia. }
    replace (match Some im with Some _ => (i + 1 =? n)%nat | None => false end) with true
      by (symmetry; apply Nat.eqb_eq; unfold i; lia). rewrite orb_true_r.
    assert (Hmin : forall k, (k < length e)%nat -> zn e i <= zn e k) by (intros k Hk; rewrite C2; apply C1; lia).
    destruct (zi >=? fzmax s).
    + pose proof (fix_pit_ok e im (fimax s) i i (fzmin s) zi Hsh) as [R1 R2 R3 R4 R5 R6 R7 R8]. cbn [fe].
      split; [congruence|]. assert (Hl : zn (fix_pit cost e im i i (fzmin s) zi) i = L) by (rewrite (R8 Hmin); exact C2).
      assert (Hlow : forall k, (k < n)%nat -> L <= zn (fix_pit cost e im i i (fzmin s) zi) k) by (intros k Hk; apply R6; [intros k' Hk'; apply C1; lia|lia]).
      split; [apply Hfin; auto; congruence|]. split; [exact Hl|].
      intros k Hk. split; [apply R6; [intros k' Hk'; apply C3; lia|lia]|apply R7; [intros k' Hk'; apply C3; lia|lia]].
    + pose proof (fix_pit_ok e im (fimax s) (fimax s) i (fzmin s) (fzmax s) Hsh) as [R1 R2 R3 R4 R5 R6 R7 R8]. cbn [fe].
      split; [congruence|]. assert (Hl : zn (fix_pit cost e im (fimax s) i (fzmin s) (fzmax s)) i = L) by (rewrite (R8 Hmin); exact C2).
      assert (Hlow : forall k, (k < n)%nat -> L <= zn (fix_pit cost e im (fimax s) i (fzmin s) (fzmax s)) k) by (intros k Hk; apply R6; [intros k' Hk'; apply C1; lia|lia]).
      split; [apply Hfin; auto; congruence|]. split; [exact Hl|].
      intros k Hk. split; [apply R6; [intros k' Hk'; apply C3; lia|lia]|apply R7; [intros k' Hk'; apply C3; lia|lia]].
  - destruct Hph as (Nn & _). rewrite orb_false_r.
    assert (G : length e = n /\ ninc e 0 n /\ zn e i = L /\ (forall k, (k < n)%nat -> lo <= zn e k <= hi)).
    { split; [exact C0|]. split; [apply Hfin; auto|]. split; [exact C2|exact C3]. }
    destruct (zi >=? fzmax s); destruct ((zi >? fz1 s) && (fz2 s >=? fz1 s)); cbn [fe]; exact G.
Qed.
End Loop.

(* ---------- the theorem ---------- *)
Lemma fold_inv n L lo hi : forall len a s, (a + len < n)%nat -> inv n L lo hi a s ->
  inv n L lo hi (a + len) (fold_left (fix_step cost n) (seq a len) s).
Proof.
  induction len as [|len IH]; intros a s Hb Hi; simpl; [rewrite Nat.add_0_r; exact Hi|].
  replace (a + S len)%nat with (S a + len)%nat by lia. apply IH; [lia|]. apply step_inv; auto. lia.
Qed.

Theorem fix1d_contract_all l lo hi : l <> [] -> (forall x, In x l -> lo <= x <= hi) ->
  length (fix1d cost l) = length l /\ ninc (fix1d cost l) 0 (length l) /\
  zn (fix1d cost l) (length l - 1) = zn l (length l - 1) /\ (forall k, (k < length l)%nat -> lo <= zn (fix1d cost l) k <= hi).
Proof.
  intros Hne Hr. unfold fix1d. destruct l as [|e0 t] eqn:El; [congruence|]. rewrite <- El in *.
  set (n := length l). set (L := zn l (n - 1)). set (e1 := map (Z.max L) l).
  assert (Hn : (1 <= n)%nat) by (unfold n; rewrite El; simpl; lia).
  assert (Hin : forall k, (k < n)%nat -> In (zn l k) l) by (intros k Hk; unfold zn; apply nth_In; exact Hk).
  assert (He1 : forall k, (k < n)%nat -> zn e1 k = Z.max L (zn l k)).
  { intros k Hk. assert (Hl1 : length e1 = n) by (unfold e1; apply map_length).
    unfold zn. rewrite (nth_indep e1 0 (Z.max L 0)) by (rewrite Hl1; exact Hk). unfold e1. apply (map_nth (Z.max L)). }
  set (s0 := {| fe := e1; fimax := 0; fimin := None; fzmax := e0; fzmin := e0; fz1 := e0; fz2 := e0 |}).
  assert (He0 : e0 = zn l 0) by (rewrite El; reflexivity).
  assert (H0 : inv n L lo hi 0 s0).
  { split.
    - unfold common, s0. cbn [fe]. split; [unfold e1; rewrite map_length; reflexivity|].
      split; [intros k Hk; rewrite He1 by auto; lia|]. split; [rewrite He1 by lia; unfold L; lia|].
      intros k Hk. rewrite He1 by auto. pose proof (Hr _ (Hin k Hk)). pose proof (Hr _ (Hin (n - 1)%nat ltac:(lia))). fold L in H0. lia.
    - unfold s0. cbn [fimin fe fz1 fz2]. split; [intros k Hk1 Hk2; lia|]. split; [lia|]. split; [intros H; lia|].
      intros _. rewrite He1 by lia. rewrite He0. lia. }
  replace (seq 0 n) with (seq 0 (n - 1) ++ [(n - 1)%nat]).
  2:{ replace n with (S (n - 1)) at 3 by lia. rewrite seq_S. reflexivity. }
  rewrite fold_left_app. cbn [fold_left].
  pose proof (fold_inv n L lo hi (n - 1) 0 s0 ltac:(lia) H0) as H1. rewrite Nat.add_0_l in H1.
  destruct (last_step n L lo hi _ Hn H1) as (A & B & C & D).
  split; [exact A|]. split; [exact B|]. split; [exact C|exact D].
Qed.
End C.
