(* ihu_relocate_outlets: loops @4C (the tributaries of a relocated outlet) and @4D (the walk of one tributary) of the generated
   text (GenIhu.v: gen_ihu_ihu_relocate_outlets_step11, _walk12) are equal to the hand model (Ihu.v: rl_main_tribs, rl_trib). *)
From Coq Require Import List Arith ZArith Bool Lia.
Import ListNotations.
From PF Require Import Arr Upscale D8Idx Ihu GenUpscaleBaseEq GenIhuBaseEq GenIhuOptEq GenIhuRelDefs.
From PFG Require Import GenUpscale GenIhu.

Lemma memb_rev x l : memb x (rev l) = memb x l.
Proof. apply eq_true_iff_eq. rewrite !memb_In. symmetry. apply in_rev. Qed.

(* ---------- (0) frame: the scalar fields are untouched, the error flag is sticky ---------- *)
Definition fr (s s' : S4) : Prop :=
  s_idx0 s' = s_idx0 s /\ s_j0 s' = s_j0 s /\ s_k0 s' = s_k0 s /\ s_idx1 s' = s_idx1 s /\ (s_ok s = false -> s_ok s' = false).

Lemma fr_refl s : fr s s.
Proof. unfold fr; tauto. Qed.
Lemma fr_trans s1 s2 s3 : fr s1 s2 -> fr s2 s3 -> fr s1 s3.
Proof. unfold fr; intros (A1 & A2 & A3 & A4 & A5) (B1 & B2 & B3 & B4 & B5). repeat split; try congruence. auto. Qed.
Lemma fr_fail s : fr s (s4_fail s).
Proof. unfold fr, s4_fail; cbn. tauto. Qed.
Lemma fr_bott s b : fr s (s4_bottleneck s b).
Proof. unfold fr, s4_bottleneck; cbn. tauto. Qed.
Lemma fr_set_ds nrow ncol s i v : fr s (s4_set_ds nrow ncol s i v).
Proof. unfold s4_set_ds. destruct (_ =? _)%nat; [apply fr_refl|]. unfold fr; cbn. tauto. Qed.
Lemma fr_set_out sds s i v : fr s (s4_set_out sds s i v).
Proof. unfold s4_set_out. destruct (_ =? _)%nat; [apply fr_refl|]. unfold fr; cbn. tauto. Qed.

Lemma rl_trib_fr sds subncol cs nrow ncol : forall fuel s idx0 subidx_ds0 subidx idx_ds0 path,
  fr s (rl_trib sds subncol cs nrow ncol fuel s idx0 subidx_ds0 subidx idx_ds0 path).
Proof.
  induction fuel as [|f IH]; intros; cbn [rl_trib]; cbv zeta; [apply fr_fail|].
  repeat first
    [ apply fr_refl | apply fr_fail | apply fr_bott | apply fr_set_ds | apply IH
    | eapply fr_trans; [eapply fr_trans; [apply fr_set_ds | apply fr_set_ds] | apply fr_set_out]
    | match goal with
      | |- fr _ (if ?b then _ else _) => destruct b
      | |- fr _ (match (if ?b then _ else _) with Some _ => _ | None => _ end) => destruct b
      | |- fr _ (match (match ?m with Some _ => _ | None => _ end) with Some _ => _ | None => _ end) =>
          destruct m as [[[? ?] ?]|]
      end; cbv beta iota ].
Qed.

Lemma rl_main_tribs_fr sds subncol cs nrow ncol us0 sds0 : forall ks s,
  fr s (rl_main_tribs sds subncol cs nrow ncol us0 sds0 s ks).
Proof.
  unfold rl_main_tribs. induction ks as [|k ks IH]; intros s; cbn [fold_left]; [apply fr_refl|].
  eapply fr_trans; [|apply IH].
  destruct (in_out _ _); [apply fr_refl|apply rl_trib_fr].
Qed.

Theorem rl_trib_frame : forall sds subncol cs nrow ncol fuel s idx0 subidx_ds0 subidx idx_ds0 path,
  let s' := rl_trib sds subncol cs nrow ncol fuel s idx0 subidx_ds0 subidx idx_ds0 path in
  s_idx0 s' = s_idx0 s /\ s_j0 s' = s_j0 s /\ s_k0 s' = s_k0 s /\ s_idx1 s' = s_idx1 s /\ (s_ok s = false -> s_ok s' = false).
Proof. intros. apply rl_trib_fr. Qed.

Theorem rl_main_tribs_frame : forall sds subncol cs nrow ncol us0 sds0 s ks,
  let s' := rl_main_tribs sds subncol cs nrow ncol us0 sds0 s ks in
  s_idx0 s' = s_idx0 s /\ s_j0 s' = s_j0 s /\ s_k0 s' = s_k0 s /\ s_idx1 s' = s_idx1 s /\ (s_ok s = false -> s_ok s' = false).
Proof. intros. apply rl_main_tribs_fr. Qed.

(* ---------- (1) @4D ---------- *)
Ltac fin := unfold core; cbn [s_ok option_map prj12 s_cds s_out s_bott s_next s_chg_ds s_chg_out]; rewrite ?map_app; reflexivity.
Theorem rel_trib_eq : forall sds subncol cs nrow ncol fuel_ s idx0 subidx_ds0 subidx idx_ds0 pathm dsl,
  s_ok s = true ->
  option_map prj12
    (gen_ihu_ihu_relocate_outlets_walk12 (S (length sds)) sds (Z.of_nat nrow, Z.of_nat ncol) (Z.of_nat cs) (length sds)
       (nrow * ncol) (Z.of_nat subncol) (Z.of_nat ncol) (Z.of_nat idx0) subidx_ds0 fuel_
       (enc12 s (Z.of_nat idx_ds0) subidx dsl (rev pathm)))
  = (let s' := rl_trib sds subncol cs nrow ncol fuel_ s idx0 subidx_ds0 subidx idx_ds0 pathm in
     if s_ok s' then Some (core s') else None).
Proof.
  intros sds subncol cs nrow ncol fuel_.
  induction fuel_ as [|f IH]; intros s idx0 subidx_ds0 subidx idx_ds0 pathm dsl Hok;
    cbn [gen_ihu_ihu_relocate_outlets_walk12 rl_trib]; [reflexivity|].
  destruct s as [cds out bott next chd cho i0 j0 k0 i1 ok]. cbn [s_ok] in Hok. subst ok.
  unfold enc12. cbn [s_cds s_out s_bott s_next s_chg_ds s_chg_out].
  cbv beta iota zeta.
  unfold gen_ihu_ihu_relocate_outlets_walk12_body. cbv beta iota zeta.
  unfold in_out, in_ds. cbn [s_cds s_out s_bott s_next s_chg_ds s_chg_out].
  unfold sd.
  rewrite gen_up_subidx_2_idx_eq, !Nat2Z.id, !zeqb_nat, !gen_up_in_d8_eq, gen_ihu_upstream_d8_idx_eq, gen_ihu_next_outlet_eq,
    memb_rev.
  set (s1 := nth subidx sds (length sds)).
  set (idx_ds := sub2idx s1 subncol cs ncol).
  set (outlet := (s1 =? nth idx_ds out (length sds))%nat).
  set (pit := (s1 =? subidx)%nat).
  destruct (outlet || pit) eqn:EOP.
  - (* the next outlet pixel (or a pit) is reached *)
    match goal with |- context [if ?b then if negb (memb _ bott) then _ else _ else _] => destruct b eqn:EB end.
    + unfold s4_bottleneck. cbn [s_cds s_out s_bott s_next s_chg_ds s_chg_out s_ok].
      destruct (memb (nth idx0 cds (nrow * ncol)) bott); reflexivity.
    + destruct (in_d8 idx0 idx_ds ncol); cbn [andb]; [|reflexivity].
      unfold s4_set_ds. cbn [s_cds s_out s_bott s_next s_chg_ds s_chg_out s_ok].
      destruct (nth idx0 cds (nrow * ncol) =? idx_ds)%nat; cbn [negb]; [reflexivity|].
      fin.
  - (* the walk goes on, or the outlet pixel of the headwater cell idx_ds0 is moved *)
    match goal with |- context [if ?b then match next_outlet _ _ _ _ _ _ _ with _ => _ end else None] => destruct b eqn:EM end.
    + destruct (next_outlet sds subncol cs ncol (S (length sds)) out subidx) as [[[s0 idx_ds00] outlet0]|] eqn:ENO;
        [|reflexivity].
      cbv beta iota. rewrite !Nat2Z.id, !zeqb_nat, !gen_up_in_d8_eq. change 0%Z with (Z.of_nat 0). rewrite zeqb_nat.
      match goal with |- context [if ?b then Some (s4_set_out _ _ _ _) else None] => destruct b eqn:EM2 end.
      * unfold s4_set_out, s4_set_ds. cbn [s_cds s_out s_bott s_next s_chg_ds s_chg_out s_ok].
        destruct (nth idx0 cds (nrow * ncol) =? idx_ds0)%nat; cbn [negb s_cds s_out s_bott s_next s_chg_ds s_chg_out s_ok];
        match goal with |- context [(nth idx_ds0 ?l (nrow * ncol) =? idx_ds00)%nat] =>
          destruct (nth idx_ds0 l (nrow * ncol) =? idx_ds00)%nat end;
        cbn [negb s_cds s_out s_bott s_next s_chg_ds s_chg_out s_ok];
        destruct (subidx =? nth idx_ds0 out (length sds))%nat; cbn [negb]; fin.
      * cbv beta iota.
        exact (IH (mkS4 cds out bott next chd cho i0 j0 k0 i1 true) idx0 subidx_ds0 s1 idx_ds (s1 :: pathm) dsl eq_refl).
    + cbv beta iota.
      exact (IH (mkS4 cds out bott next chd cho i0 j0 k0 i1 true) idx0 subidx_ds0 s1 idx_ds (s1 :: pathm) dsl eq_refl).
Qed.

(* ---------- (2) @4C ---------- *)
Lemma rl_main_tribs_cons sds subncol cs nrow ncol us0 sds0 s k ks :
  rl_main_tribs sds subncol cs nrow ncol us0 sds0 s (k :: ks)
  = rl_main_tribs sds subncol cs nrow ncol us0 sds0
      (let idx0 := nth k us0 (nrow * ncol) in
       if in_out s idx0 then s
       else rl_trib sds subncol cs nrow ncol (S (length sds)) s idx0 (nth k sds0 (length sds)) (nth idx0 (s_out s) (length sds)) idx0 [])
      ks.
Proof. reflexivity. Qed.

Theorem rel_main_tribs_eq : forall sds subncol cs nrow ncol us0 sds0 ks s (g1 : Z) (g2 : nat) dsl (iz : Z),
  s_ok s = true ->
  option_map prj11
    (ofold (gen_ihu_ihu_relocate_outlets_step11 (S (length sds)) sds (Z.of_nat nrow, Z.of_nat ncol) (Z.of_nat cs) (length sds)
              (nrow * ncol) (Z.of_nat subncol) (Z.of_nat ncol) us0 sds0) ks (enc11 s g1 g2 dsl iz))
  = (let s' := rl_main_tribs sds subncol cs nrow ncol us0 sds0 s ks in if s_ok s' then Some (core s') else None).
Proof.
  intros sds subncol cs nrow ncol us0 sds0.
  induction ks as [|k ks IH]; intros s g1 g2 dsl iz Hok.
  - rewrite ofold_nil. unfold rl_main_tribs. cbn [fold_left option_map]. cbv zeta. rewrite Hok.
    destruct s; reflexivity.
  - rewrite ofold_cons, rl_main_tribs_cons. cbv zeta.
    unfold gen_ihu_ihu_relocate_outlets_step11 at 1. unfold enc11 at 1. cbv beta iota zeta.
    rewrite !Nat2Z.id. fold (in_out s (nth k us0 (nrow * ncol))).
    destruct (in_out s (nth k us0 (nrow * ncol))) eqn:EIO.
    + exact (IH s g1 g2 dsl _ Hok).
    + pose proof (rel_trib_eq sds subncol cs nrow ncol (S (length sds)) s (nth k us0 (nrow * ncol)) (nth k sds0 (length sds))
                    (nth (nth k us0 (nrow * ncol)) (s_out s) (length sds)) (nth k us0 (nrow * ncol)) [] dsl Hok) as HT.
      cbv zeta in HT. cbn [rev] in HT. unfold enc12 in HT.
      set (s' := rl_trib sds subncol cs nrow ncol (S (length sds)) s (nth k us0 (nrow * ncol)) (nth k sds0 (length sds))
                   (nth (nth k us0 (nrow * ncol)) (s_out s) (length sds)) (nth k us0 (nrow * ncol)) []) in *.
      destruct (gen_ihu_ihu_relocate_outlets_walk12 _ _ _ _ _ _ _ _ _ _ _ _) as [t|] eqn:EW.
      * destruct t as [[[[[[[[[[[c o] n] i] sb] b] so] io] dl] dd] d0] p].
        cbn [option_map prj12] in HT.
        destruct (s_ok s') eqn:Hok'; [|discriminate HT].
        unfold core in HT. injection HT as -> -> -> -> -> -> -> ->.
        exact (IH s' i sb dl _ Hok').
      * cbn [option_map] in HT. destruct (s_ok s') eqn:Hok'; [discriminate HT|].
        destruct (rl_main_tribs_fr sds subncol cs nrow ncol us0 sds0 ks s') as (_ & _ & _ & _ & Hst).
        rewrite (Hst Hok'). reflexivity.
Qed.

Print Assumptions rl_trib_frame.
Print Assumptions rl_main_tribs_frame.
Print Assumptions rel_trib_eq.
Print Assumptions rel_main_tribs_eq.
