(* Pfafstetter closure, part B: the structural invariant of the labelling state and the two climbs. *)
From Coq Require Import List Arith ZArith Bool Lia.
Import ListNotations.
From PF Require Import Arr Net SweepDown Fill FillSpec Rank Stream Subbas PfafClosureA.
Local Open Scope Z_scope.

Notation lab b c := (nth c b 0).

Lemma lab_upd_eq (b : list Z) u v : (u < length b)%nat -> lab (upd b u v) u = v.
Proof. intros H. apply nth_upd_eq. exact H. Qed.
Lemma lab_upd_neq (b : list Z) u v c : c <> u -> lab (upd b u v) c = lab b c.
Proof. intros H. apply nth_upd_neq. exact H. Qed.
Lemma lab_upd_nz (b : list Z) u v c : v <> 0 -> lab b c <> 0 -> lab (upd b u v) c <> 0.
Proof.
  intros Hv Hc. rewrite nth_upd. destruct ((c =? u)%nat && (u <? length b)%nat); assumption.
Qed.
Lemma lab_lt (b : list Z) c : lab b c <> 0 -> (c < length b)%nat.
Proof.
  intros H. destruct (Nat.lt_ge_cases c (length b)) as [Hlt|Hge]; [exact Hlt|].
  exfalso. apply H. apply nth_overflow. exact Hge.
Qed.

Section PfafStruct.
Variable ds : list nat.
Variable main : list nat.
Let n := length ds.
Variable rk : nat -> nat.
Notation mn x := (nth x main n).
Notation dsf := (dsf ds).
Hypothesis Hrk : forall c, (c < n)%nat -> (dsf c < n)%nat -> dsf c <> c -> (rk (dsf c) < rk c)%nat.
Hypothesis Hrkn : forall c, (c < n)%nat -> (dsf c < n)%nat -> (rk c < n)%nat.
Hypothesis HM : forall x, (mn x < n)%nat -> dsf (mn x) = x /\ mn x <> x.

Record INV (b : list Z) (idxs : list nat) : Prop := {
  inv_len : length b = n;
  inv1 : forall c, (c < n)%nat -> lab b c <> 0 -> ~ In c idxs ->
           mn (dsf c) = c /\ dsf c <> c /\ lab b (dsf c) = lab b c;
  inv2 : forall o, In o idxs -> (o < n)%nat /\ lab b o <> 0 /\ lab b (dsf o) <> 0;
  inv4 : forall o, In o idxs -> dsf o <> o -> lab b (dsf o) <> lab b o;
  inv5 : forall o1 o2, In o1 idxs -> In o2 idxs -> lab b o1 = lab b o2 -> o1 = o2
}.

(* K: everything directly upstream of an unlabelled cell is unlabelled *)
Lemma inv_K b idxs c u : INV b idxs -> lab b c = 0 -> (u < n)%nat -> dsf u = c -> lab b u = 0.
Proof.
  intros HI Hc Hu Hd. destruct (Z.eq_dec (lab b u) 0) as [E|E]; [exact E|exfalso].
  destruct (in_dec Nat.eq_dec u idxs) as [Y|N].
  - destruct (inv2 _ _ HI u Y) as (_ & _ & H). rewrite Hd in H. contradiction.
  - destruct (inv1 _ _ HI u Hu E N) as (_ & _ & H). rewrite Hd in H. congruence.
Qed.

Lemma inv_notin b idxs c : INV b idxs -> lab b c = 0 -> ~ In c idxs.
Proof. intros HI Hc Hin. destruct (inv2 _ _ HI c Hin) as (_ & H & _). contradiction. Qed.

(* ---------- climb that only writes unlabelled cells (pit chains and sub-basin chains) ---------- *)
Lemma climb_sub stop v idxs : v <> 0 -> forall fuel b cur,
  INV b idxs -> (cur < n)%nat -> lab b cur = v ->
  (forall u, (u < n)%nat -> dsf u = cur -> u <> cur -> lab b u = 0) ->
  let b' := climb fuel n main stop v b cur in
  INV b' idxs /\ (forall c, lab b' c = lab b c \/ (lab b c = 0 /\ lab b' c = v)).
Proof.
  intros Hv. induction fuel as [|f IH]; intros b cur HI Hcur Hlc Hup; cbn [climb].
  - split; [exact HI|]. intros c. left. reflexivity.
  - destruct ((n <=? mn cur)%nat || stop b (mn cur)) eqn:Estop.
    + split; [exact HI|]. intros c. left. reflexivity.
    + apply orb_false_iff in Estop. destruct Estop as [Eu _]. apply Nat.leb_gt in Eu.
      set (u := mn cur) in *.
      destruct (HM cur Eu) as [Hdu Hne]. fold u in Hdu, Hne.
      assert (Hu0 : lab b u = 0) by (apply Hup; assumption).
      assert (Hlen : length b = n) by (apply (inv_len _ _ HI)).
      assert (Hun : ~ In u idxs) by (apply (inv_notin b); assumption).
      assert (HK : forall c, (c < n)%nat -> dsf c = u -> lab b c = 0)
        by (intros c Hc Hd; apply (inv_K b idxs u c); assumption).
      set (b1 := upd b u v).
      assert (HI1 : INV b1 idxs).
      { constructor.
        - unfold b1. rewrite upd_length. exact Hlen.
        - intros c Hc Hl Hn. destruct (Nat.eq_dec c u) as [->|Hcu].
          + rewrite Hdu. split; [reflexivity|]. split; [congruence|].
            unfold b1. rewrite lab_upd_eq by lia. rewrite lab_upd_neq by congruence. exact Hlc.
          + unfold b1 in Hl. rewrite lab_upd_neq in Hl by exact Hcu.
            destruct (inv1 _ _ HI c Hc Hl Hn) as (A1 & A2 & A3).
            split; [exact A1|]. split; [exact A2|].
            assert (Hdc : dsf c <> u) by (intros E; apply Hl; apply HK; assumption).
            unfold b1. rewrite !lab_upd_neq by assumption. exact A3.
        - intros o Ho. destruct (inv2 _ _ HI o Ho) as (A1 & A2 & A3).
          split; [exact A1|]. split; unfold b1; apply lab_upd_nz; assumption.
        - intros o Ho Hnp. destruct (inv2 _ _ HI o Ho) as (A1 & A2 & A3).
          assert (Hou : o <> u) by (intros ->; contradiction).
          assert (Hdo : dsf o <> u) by (intros E; apply A2; apply HK; assumption).
          unfold b1. rewrite !lab_upd_neq by assumption. apply (inv4 _ _ HI); assumption.
        - intros o1 o2 H1 H2 E.
          assert (Ho1 : o1 <> u) by (intros ->; contradiction).
          assert (Ho2 : o2 <> u) by (intros ->; contradiction).
          unfold b1 in E. rewrite !lab_upd_neq in E by assumption. apply (inv5 _ _ HI); assumption. }
      assert (Hl1 : lab b1 u = v) by (unfold b1; apply lab_upd_eq; lia).
      assert (Hup1 : forall c, (c < n)%nat -> dsf c = u -> c <> u -> lab b1 c = 0).
      { intros c Hc Hd Hcu. unfold b1. rewrite lab_upd_neq by exact Hcu. apply HK; assumption. }
      destruct (IH b1 u HI1 Eu Hl1 Hup1) as [R1 R2]. split; [exact R1|].
      intros c. destruct (R2 c) as [E|[E1 E2]].
      * destruct (Nat.eq_dec c u) as [->|Hcu].
        -- right. split; [exact Hu0|]. rewrite E. exact Hl1.
        -- left. rewrite E. unfold b1. apply lab_upd_neq. exact Hcu.
      * destruct (Nat.eq_dec c u) as [->|Hcu]; [congruence|].
        right. split; [|exact E2]. unfold b1 in E1. rewrite lab_upd_neq in E1 by exact Hcu. exact E1.
Qed.

(* a new outlet x (unlabelled so far) gets the fresh label v, then the chain above it is labelled *)
Lemma outlet_sub stop v idxs b x fuel : INV b idxs -> v <> 0 -> (x < n)%nat -> lab b x = 0 ->
  (dsf x = x \/ lab b (dsf x) <> 0) -> (forall c, lab b c <> v) ->
  let b' := climb fuel n main stop v (upd b x v) x in
  INV b' (idxs ++ [x]) /\ (forall c, lab b' c = lab b c \/ (lab b c = 0 /\ lab b' c = v)).
Proof.
  intros HI Hv Hx Hx0 Hdx Hfresh.
  assert (Hlen : length b = n) by (apply (inv_len _ _ HI)).
  assert (Hxn : ~ In x idxs) by (apply (inv_notin b); assumption).
  assert (HK : forall c, (c < n)%nat -> dsf c = x -> lab b c = 0)
    by (intros c Hc Hd; apply (inv_K b idxs x c); assumption).
  set (b1 := upd b x v).
  assert (HI1 : INV b1 (idxs ++ [x])).
  { constructor.
    - unfold b1. rewrite upd_length. exact Hlen.
    - intros c Hc Hl Hn.
      assert (Hcx : c <> x) by (intros ->; apply Hn; apply in_or_app; right; left; reflexivity).
      assert (Hci : ~ In c idxs) by (intros H; apply Hn; apply in_or_app; left; exact H).
      unfold b1 in Hl. rewrite lab_upd_neq in Hl by exact Hcx.
      destruct (inv1 _ _ HI c Hc Hl Hci) as (A1 & A2 & A3).
      split; [exact A1|]. split; [exact A2|].
      assert (Hdc : dsf c <> x) by (intros E; apply Hl; apply HK; assumption).
      unfold b1. rewrite !lab_upd_neq by assumption. exact A3.
    - intros o Ho. apply in_app_or in Ho. destruct Ho as [Ho|[<-|[]]].
      + destruct (inv2 _ _ HI o Ho) as (A1 & A2 & A3).
        split; [exact A1|]. split; unfold b1; apply lab_upd_nz; assumption.
      + split; [exact Hx|]. split; [unfold b1; rewrite lab_upd_eq by lia; exact Hv|].
        destruct Hdx as [E|E]; [rewrite E; unfold b1; rewrite lab_upd_eq by lia; exact Hv|].
        unfold b1. apply lab_upd_nz; assumption.
    - intros o Ho Hnp. apply in_app_or in Ho. destruct Ho as [Ho|[<-|[]]].
      + destruct (inv2 _ _ HI o Ho) as (A1 & A2 & A3).
        assert (Hox : o <> x) by (intros ->; contradiction).
        assert (Hdo : dsf o <> x) by (intros E; apply A2; apply HK; assumption).
        unfold b1. rewrite !lab_upd_neq by assumption. apply (inv4 _ _ HI); assumption.
      + unfold b1. rewrite lab_upd_eq by lia. rewrite lab_upd_neq by exact Hnp. apply Hfresh.
    - intros o1 o2 H1 H2 E. apply in_app_or in H1. apply in_app_or in H2.
      destruct H1 as [H1|[<-|[]]]; destruct H2 as [H2|[<-|[]]]; [| | |reflexivity].
      + assert (Ho1 : o1 <> x) by (intros ->; contradiction).
        assert (Ho2 : o2 <> x) by (intros ->; contradiction).
        unfold b1 in E. rewrite !lab_upd_neq in E by assumption. apply (inv5 _ _ HI); assumption.
      + exfalso. assert (Ho1 : o1 <> x) by (intros ->; contradiction).
        unfold b1 in E. rewrite lab_upd_eq in E by lia. rewrite lab_upd_neq in E by assumption.
        apply (Hfresh o1). exact E.
      + exfalso. assert (Ho2 : o2 <> x) by (intros ->; contradiction).
        unfold b1 in E. rewrite lab_upd_eq in E by lia. rewrite lab_upd_neq in E by assumption.
        apply (Hfresh o2). symmetry. exact E. }
  assert (Hl1 : lab b1 x = v) by (unfold b1; apply lab_upd_eq; lia).
  assert (Hup1 : forall c, (c < n)%nat -> dsf c = x -> c <> x -> lab b1 c = 0).
  { intros c Hc Hd Hcx. unfold b1. rewrite lab_upd_neq by exact Hcx. apply HK; assumption. }
  destruct (climb_sub stop v (idxs ++ [x]) Hv fuel b1 x HI1 Hx Hl1 Hup1) as [R1 R2].
  split; [exact R1|].
  intros c. destruct (R2 c) as [E|[E1 E2]].
  - destruct (Nat.eq_dec c x) as [->|Hcx].
    + right. split; [exact Hx0|]. rewrite E. exact Hl1.
    + left. rewrite E. unfold b1. apply lab_upd_neq. exact Hcx.
  - destruct (Nat.eq_dec c x) as [->|Hcx]; [congruence|].
    right. split; [|exact E2]. unfold b1 in E1. rewrite lab_upd_neq in E1 by exact Hcx. exact E1.
Qed.


(* ---------- the interbasin climb: relabels the cells carrying X above the new outlet ---------- *)
Record JINV (X pint : Z) (b : list Z) (idxs : list nat) (cur : nat) : Prop := {
  j_len : length b = n;
  j_cur : (cur < n)%nat /\ (dsf cur < n)%nat /\ lab b cur = pint;
  j1 : forall c, (c < n)%nat -> lab b c <> 0 -> ~ In c idxs -> dsf c <> cur ->
         mn (dsf c) = c /\ dsf c <> c /\ lab b (dsf c) = lab b c;
  j1' : forall c, (c < n)%nat -> lab b c <> 0 -> ~ In c idxs -> dsf c = cur ->
         mn cur = c /\ c <> cur /\ lab b c = X;
  j2 : forall o, In o idxs -> (o < n)%nat /\ lab b o <> 0 /\ lab b (dsf o) <> 0;
  j4 : forall o, In o idxs -> dsf o <> o -> dsf o <> cur -> lab b (dsf o) <> lab b o;
  j4' : forall o, In o idxs -> dsf o <> o -> dsf o = cur -> lab b o <> X /\ lab b o <> pint;
  j5 : forall o1 o2, In o1 idxs -> In o2 idxs -> lab b o1 = lab b o2 -> o1 = o2;
  jpw : forall o, In o idxs -> lab b o = pint -> (rk (dsf o) < rk cur)%nat
}.

Definition stopX (X : Z) (br : list Z) (u : nat) : bool := negb (nth u br 0 =? X).

Lemma climb_inter X pint idxs : X <> 0 -> pint <> 0 -> X <> pint -> forall fuel b cur,
  JINV X pint b idxs cur -> (n <= rk cur + fuel)%nat ->
  let b' := climb fuel n main (stopX X) pint b cur in
  INV b' idxs /\ (forall c, lab b' c = lab b c \/ (lab b c = X /\ lab b' c = pint)).
Proof.
  intros HX Hp HXp. induction fuel as [|f IH]; intros b cur HJ Hfuel; cbn [climb].
  - exfalso. destruct (j_cur _ _ _ _ _ HJ) as (C1 & C2 & _). pose proof (Hrkn cur C1 C2). lia.
  - destruct (j_cur _ _ _ _ _ HJ) as (C1 & C2 & C3).
    destruct ((n <=? mn cur)%nat || stopX X b (mn cur)) eqn:Estop.
    + (* the climb stops: nothing labelled X is left directly above cur *)
      split; [|intros c; left; reflexivity].
      assert (Hno : forall c, (c < n)%nat -> lab b c <> 0 -> ~ In c idxs -> dsf c = cur -> False).
      { intros c Hc Hl Hn Hd. destruct (j1' _ _ _ _ _ HJ c Hc Hl Hn Hd) as (A1 & A2 & A3).
        apply orb_true_iff in Estop. destruct Estop as [E|E].
        - apply Nat.leb_le in E. rewrite A1 in E. lia.
        - unfold stopX in E. rewrite A1, A3, Z.eqb_refl in E. discriminate. }
      constructor.
      * apply (j_len _ _ _ _ _ HJ).
      * intros c Hc Hl Hn. destruct (Nat.eq_dec (dsf c) cur) as [E|E]; [exfalso; apply (Hno c); assumption|].
        apply (j1 _ _ _ _ _ HJ); assumption.
      * apply (j2 _ _ _ _ _ HJ).
      * intros o Ho Hnp. destruct (Nat.eq_dec (dsf o) cur) as [E|E]; [|apply (j4 _ _ _ _ _ HJ); assumption].
        destruct (j4' _ _ _ _ _ HJ o Ho Hnp E) as [_ A]. rewrite E, C3. congruence.
      * apply (j5 _ _ _ _ _ HJ).
    + apply orb_false_iff in Estop. destruct Estop as [Eu EX]. apply Nat.leb_gt in Eu.
      unfold stopX in EX. apply negb_false_iff in EX. apply Z.eqb_eq in EX.
      set (u := mn cur) in *.
      destruct (HM cur Eu) as [Hdu Hne]. fold u in Hdu, Hne.
      assert (Hlen : length b = n) by (apply (j_len _ _ _ _ _ HJ)).
      assert (Hun : ~ In u idxs).
      { intros Hin. destruct (j4' _ _ _ _ _ HJ u Hin ltac:(congruence) Hdu) as [A _]. contradiction. }
      assert (Hrku : (rk cur < rk u)%nat) by (rewrite <- Hdu; apply Hrk; [exact Eu|rewrite Hdu; exact C1|congruence]).
      set (b1 := upd b u pint).
      assert (Hcu : cur <> u) by congruence.
      assert (HJ1 : JINV X pint b1 idxs u).
      { constructor.
        - unfold b1. rewrite upd_length. exact Hlen.
        - split; [exact Eu|]. split; [rewrite Hdu; exact C1|]. unfold b1. apply lab_upd_eq. lia.
        - intros c Hc Hl Hn Hd. destruct (Nat.eq_dec c u) as [->|Hc'].
          + rewrite Hdu. split; [reflexivity|]. split; [congruence|].
            unfold b1. rewrite lab_upd_eq by lia. rewrite lab_upd_neq by exact Hcu. exact C3.
          + unfold b1 in Hl. rewrite lab_upd_neq in Hl by exact Hc'.
            assert (Hdc : dsf c <> cur).
            { intros E. destruct (j1' _ _ _ _ _ HJ c Hc Hl Hn E) as (A1 & _). apply Hc'. symmetry. exact A1. }
            destruct (j1 _ _ _ _ _ HJ c Hc Hl Hn Hdc) as (A1 & A2 & A3).
            split; [exact A1|]. split; [exact A2|]. unfold b1. rewrite !lab_upd_neq by assumption. exact A3.
        - intros c Hc Hl Hn Hd.
          assert (Hc' : c <> u) by (intros ->; congruence).
          unfold b1 in Hl. rewrite lab_upd_neq in Hl by exact Hc'.
          assert (Hdc : dsf c <> cur) by congruence.
          destruct (j1 _ _ _ _ _ HJ c Hc Hl Hn Hdc) as (A1 & A2 & A3).
          split; [rewrite <- Hd; exact A1|]. split; [exact Hc'|].
          unfold b1. rewrite lab_upd_neq by exact Hc'. rewrite <- A3, Hd. exact EX.
        - intros o Ho. destruct (j2 _ _ _ _ _ HJ o Ho) as (A1 & A2 & A3).
          split; [exact A1|]. split; unfold b1; apply lab_upd_nz; assumption.
        - intros o Ho Hnp Hd.
          assert (Hou : o <> u) by (intros ->; contradiction).
          unfold b1. rewrite !lab_upd_neq by assumption.
          destruct (Nat.eq_dec (dsf o) cur) as [E|E]; [|apply (j4 _ _ _ _ _ HJ); assumption].
          destruct (j4' _ _ _ _ _ HJ o Ho Hnp E) as [_ A]. rewrite E, C3. congruence.
        - intros o Ho Hnp Hd.
          assert (Hou : o <> u) by (intros ->; contradiction).
          unfold b1. rewrite lab_upd_neq by exact Hou.
          assert (Hdc : dsf o <> cur) by congruence.
          pose proof (j4 _ _ _ _ _ HJ o Ho Hnp Hdc) as A. rewrite Hd, EX in A.
          split; [congruence|]. intros E. pose proof (jpw _ _ _ _ _ HJ o Ho E) as R. rewrite Hd in R. lia.
        - intros o1 o2 H1 H2 E.
          assert (Ho1 : o1 <> u) by (intros ->; contradiction).
          assert (Ho2 : o2 <> u) by (intros ->; contradiction).
          unfold b1 in E. rewrite !lab_upd_neq in E by assumption. apply (j5 _ _ _ _ _ HJ); assumption.
        - intros o Ho E.
          assert (Hou : o <> u) by (intros ->; contradiction).
          unfold b1 in E. rewrite lab_upd_neq in E by exact Hou.
          pose proof (jpw _ _ _ _ _ HJ o Ho E). lia. }
      destruct (IH b1 u HJ1 ltac:(lia)) as [R1 R2]. split; [exact R1|].
      intros c. destruct (R2 c) as [E|[E1 E2]].
      * destruct (Nat.eq_dec c u) as [->|Hc'].
        -- right. split; [exact EX|]. rewrite E. unfold b1. apply lab_upd_eq. lia.
        -- left. rewrite E. unfold b1. apply lab_upd_neq. exact Hc'.
      * destruct (Nat.eq_dec c u) as [->|Hc'].
        -- exfalso. unfold b1 in E1. rewrite lab_upd_eq in E1 by lia. congruence.
        -- right. split; [|exact E2]. unfold b1 in E1. rewrite lab_upd_neq in E1 by exact Hc'. exact E1.
Qed.


(* the interbasin outlet c1 = main(w0) gets the fresh label pint; the cells labelled X above it follow *)
Lemma outlet_inter X pint idxs b w0 : INV b idxs -> X <> 0 -> pint <> 0 -> X <> pint ->
  (w0 < n)%nat -> (mn w0 < n)%nat -> ~ In (mn w0) idxs -> lab b w0 <> 0 ->
  (forall c, lab b c <> pint) -> (lab b (mn w0) <> 0 -> lab b (mn w0) = X) ->
  let b' := climb n n main (stopX X) pint (upd b (mn w0) pint) (mn w0) in
  INV b' (idxs ++ [mn w0]) /\
  (forall c, lab b' c = lab b c \/ ((lab b c = X \/ c = mn w0) /\ lab b' c = pint)) /\
  lab b' (mn w0) = pint.
Proof.
  intros HI HX Hp HXp Hw0 Hc1 Hc1n Hlw Hfresh HN.
  set (c1 := mn w0) in *.
  destruct (HM w0 Hc1) as [Hd1 Hne1]. fold c1 in Hd1, Hne1.
  assert (Hlen : length b = n) by (apply (inv_len _ _ HI)).
  set (b1 := upd b c1 pint).
  assert (HJ : JINV X pint b1 (idxs ++ [c1]) c1).
  { constructor.
    - unfold b1. rewrite upd_length. exact Hlen.
    - split; [exact Hc1|]. split; [rewrite Hd1; exact Hw0|]. unfold b1. apply lab_upd_eq. lia.
    - intros c Hc Hl Hn Hd.
      assert (Hcx : c <> c1) by (intros ->; apply Hn; apply in_or_app; right; left; reflexivity).
      assert (Hci : ~ In c idxs) by (intros H; apply Hn; apply in_or_app; left; exact H).
      unfold b1 in Hl. rewrite lab_upd_neq in Hl by exact Hcx.
      destruct (inv1 _ _ HI c Hc Hl Hci) as (A1 & A2 & A3).
      split; [exact A1|]. split; [exact A2|]. unfold b1. rewrite !lab_upd_neq by assumption. exact A3.
    - intros c Hc Hl Hn Hd.
      assert (Hcx : c <> c1) by (intros ->; apply Hn; apply in_or_app; right; left; reflexivity).
      assert (Hci : ~ In c idxs) by (intros H; apply Hn; apply in_or_app; left; exact H).
      unfold b1 in Hl. rewrite lab_upd_neq in Hl by exact Hcx.
      destruct (inv1 _ _ HI c Hc Hl Hci) as (A1 & A2 & A3).
      split; [rewrite <- Hd; exact A1|]. split; [exact Hcx|].
      unfold b1. rewrite lab_upd_neq by exact Hcx. rewrite Hd in A3. rewrite <- A3. apply HN. rewrite A3. exact Hl.
    - intros o Ho. apply in_app_or in Ho. destruct Ho as [Ho|[<-|[]]].
      + destruct (inv2 _ _ HI o Ho) as (A1 & A2 & A3).
        split; [exact A1|]. split; unfold b1; apply lab_upd_nz; assumption.
      + split; [exact Hc1|]. split; [unfold b1; rewrite lab_upd_eq by lia; exact Hp|].
        rewrite Hd1. unfold b1. apply lab_upd_nz; assumption.
    - intros o Ho Hnp Hd. apply in_app_or in Ho. destruct Ho as [Ho|[<-|[]]].
      + assert (Hox : o <> c1) by (intros ->; contradiction).
        unfold b1. rewrite !lab_upd_neq by assumption. apply (inv4 _ _ HI); assumption.
      + rewrite Hd1. unfold b1. rewrite lab_upd_eq by lia. rewrite lab_upd_neq by congruence. apply Hfresh.
    - intros o Ho Hnp Hd. apply in_app_or in Ho. destruct Ho as [Ho|[<-|[]]]; [|congruence].
      assert (Hox : o <> c1) by (intros ->; contradiction).
      unfold b1. rewrite lab_upd_neq by exact Hox. split; [|apply Hfresh].
      destruct (inv2 _ _ HI o Ho) as (_ & _ & A3). rewrite Hd in A3.
      pose proof (inv4 _ _ HI o Ho Hnp) as A4. rewrite Hd in A4. rewrite (HN A3) in A4. congruence.
    - intros o1 o2 H1 H2 E. apply in_app_or in H1. apply in_app_or in H2.
      destruct H1 as [H1|[<-|[]]]; destruct H2 as [H2|[<-|[]]]; [| | |reflexivity].
      + assert (Ho1 : o1 <> c1) by (intros ->; contradiction).
        assert (Ho2 : o2 <> c1) by (intros ->; contradiction).
        unfold b1 in E. rewrite !lab_upd_neq in E by assumption. apply (inv5 _ _ HI); assumption.
      + exfalso. assert (Ho1 : o1 <> c1) by (intros ->; contradiction).
        unfold b1 in E. rewrite lab_upd_eq in E by lia. rewrite lab_upd_neq in E by assumption.
        apply (Hfresh o1). exact E.
      + exfalso. assert (Ho2 : o2 <> c1) by (intros ->; contradiction).
        unfold b1 in E. rewrite lab_upd_eq in E by lia. rewrite lab_upd_neq in E by assumption.
        apply (Hfresh o2). symmetry. exact E.
    - intros o Ho E. apply in_app_or in Ho. destruct Ho as [Ho|[<-|[]]].
      + exfalso. assert (Hox : o <> c1) by (intros ->; contradiction).
        unfold b1 in E. rewrite lab_upd_neq in E by exact Hox. apply (Hfresh o). exact E.
      + apply Hrk; [exact Hc1|rewrite Hd1; exact Hw0|congruence]. }
  destruct (climb_inter X pint (idxs ++ [c1]) HX Hp HXp n b1 c1 HJ ltac:(lia)) as [R1 R2].
  split; [exact R1|]. split; [|destruct (R2 c1) as [E|[_ E]]; [rewrite E; unfold b1; apply lab_upd_eq; lia|exact E]].
  intros c. destruct (R2 c) as [E|[E1 E2]].
  - destruct (Nat.eq_dec c c1) as [->|Hcx].
    + right. split; [right; reflexivity|]. rewrite E. unfold b1. apply lab_upd_eq. lia.
    + left. rewrite E. unfold b1. apply lab_upd_neq. exact Hcx.
  - destruct (Nat.eq_dec c c1) as [->|Hcx].
    + right. split; [right; reflexivity|exact E2].
    + right. split; [left|exact E2]. unfold b1 in E1. rewrite lab_upd_neq in E1 by exact Hcx. exact E1.
Qed.


(* ---------- the cells carrying one label form one chain ---------- *)
Variable uparea : list Z.
Notation ua c := (nth c uparea 0).
Hypothesis Hua : forall c, (c < n)%nat -> (dsf c < n)%nat -> dsf c <> c -> ua c < ua (dsf c).

Definition onchain (b : list Z) (idxs : list nat) (v : Z) (c : nat) : Prop :=
  ~ In c idxs /\ (c < n)%nat /\ lab b c = v.

Lemma inv_walk b idxs : INV b idxs -> forall (r : nat) c, (rk c < r)%nat -> (c < n)%nat -> lab b c <> 0 ->
  exists k, In (iter ds k c) idxs /\ lab b (iter ds k c) = lab b c /\
    forall j, (j < k)%nat -> onchain b idxs (lab b c) (iter ds j c).
Proof.
  intros HI. induction r as [|r IH]; intros c Hr Hc Hl; [lia|].
  destruct (in_dec Nat.eq_dec c idxs) as [Y|N].
  - exists 0%nat. cbn [iter]. split; [exact Y|]. split; [reflexivity|]. intros j Hj. lia.
  - destruct (inv1 _ _ HI c Hc Hl N) as (A1 & A2 & A3).
    assert (Hdn : (dsf c < n)%nat) by (rewrite <- (inv_len _ _ HI); apply lab_lt; rewrite A3; exact Hl).
    pose proof (Hrk c Hc Hdn A2) as Hlt.
    destruct (IH (dsf c) ltac:(lia) Hdn ltac:(rewrite A3; exact Hl)) as (k & K1 & K2 & K3).
    exists (S k). cbn [iter]. split; [exact K1|]. split; [rewrite K2; exact A3|].
    intros [|j] Hj; cbn [iter]; [split; [exact N|split; [exact Hc|reflexivity]]|].
    rewrite <- A3. apply K3. lia.
Qed.

Lemma iter_main_inj b idxs v : INV b idxs -> v <> 0 -> forall k x y, iter ds k x = iter ds k y ->
  (forall j, (j < k)%nat -> onchain b idxs v (iter ds j x)) ->
  (forall j, (j < k)%nat -> onchain b idxs v (iter ds j y)) -> x = y.
Proof.
  intros HI Hv. induction k as [|k IH]; intros x y E Hx Hy; [exact E|].
  cbn [iter] in E.
  assert (Ed : dsf x = dsf y).
  { apply IH; [exact E| |].
    - intros j Hj. apply (Hx (S j)). lia.
    - intros j Hj. apply (Hy (S j)). lia. }
  destruct (Hx 0%nat ltac:(lia)) as (X1 & X2 & X3). destruct (Hy 0%nat ltac:(lia)) as (Y1 & Y2 & Y3).
  cbn [iter] in *.
  destruct (inv1 _ _ HI x X2 ltac:(congruence) X1) as (A1 & _).
  destruct (inv1 _ _ HI y Y2 ltac:(congruence) Y1) as (B1 & _).
  rewrite <- A1, <- B1, Ed. reflexivity.
Qed.

Lemma ua_iter_le b idxs v : INV b idxs -> v <> 0 -> forall k x,
  (forall j, (j < k)%nat -> onchain b idxs v (iter ds j x)) -> ua x + Z.of_nat k <= ua (iter ds k x).
Proof.
  intros HI Hv. induction k as [|k IH]; intros x Hx; [cbn [iter]; lia|].
  destruct (Hx 0%nat ltac:(lia)) as (X1 & X2 & X3). cbn [iter] in X1, X2, X3.
  destruct (inv1 _ _ HI x X2 ltac:(congruence) X1) as (A1 & A2 & A3).
  assert (Hdn : (dsf x < n)%nat) by (rewrite <- (inv_len _ _ HI); apply lab_lt; rewrite A3; congruence).
  pose proof (Hua x X2 Hdn A2) as Hlt.
  cbn [iter]. specialize (IH (dsf x) ltac:(intros j Hj; apply (Hx (S j)); lia)). lia.
Qed.

Lemma inv_chain b idxs a c : INV b idxs -> (a < n)%nat -> (c < n)%nat -> lab b a <> 0 ->
  lab b a = lab b c -> ua a <= ua c ->
  exists k, iter ds k a = c /\ forall j, (j < k)%nat -> onchain b idxs (lab b a) (iter ds j a).
Proof.
  intros HI Ha Hc Hla Hlc Hle.
  destruct (inv_walk b idxs HI (S (rk a)) a ltac:(lia) Ha Hla) as (ka & A1 & A2 & A3).
  destruct (inv_walk b idxs HI (S (rk c)) c ltac:(lia) Hc ltac:(congruence)) as (kc & C1 & C2 & C3).
  rewrite <- Hlc in C2, C3.
  assert (Eo : iter ds ka a = iter ds kc c) by (apply (inv5 _ _ HI); [exact A1|exact C1|congruence]).
  destruct (Nat.le_gt_cases kc ka) as [Hk|Hk].
  - exists (ka - kc)%nat. split.
    + apply (iter_main_inj b idxs (lab b a) HI Hla kc).
      * rewrite <- iter_add. replace (ka - kc + kc)%nat with ka by lia. exact Eo.
      * intros j Hj. rewrite <- iter_add. apply A3. lia.
      * exact C3.
    + intros j Hj. apply A3. lia.
  - exfalso.
    assert (E : iter ds (kc - ka) c = a).
    { apply (iter_main_inj b idxs (lab b a) HI Hla ka).
      * rewrite <- iter_add. replace (kc - ka + ka)%nat with kc by lia. symmetry. exact Eo.
      * intros j Hj. rewrite <- iter_add. apply C3. lia.
      * exact A3. }
    pose proof (ua_iter_le b idxs (lab b a) HI Hla (kc - ka) c ltac:(intros j Hj; apply C3; lia)) as Hm.
    rewrite E in Hm. lia.
Qed.

End PfafStruct.
