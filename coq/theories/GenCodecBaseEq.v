(* Generic facts about the loop shapes of the raster codecs regenerated from the Python source (generated/GenCodec.v):
   a pass over the cell numbers 0 .. n-1 that fills arrays cell by cell, appends the selected cells to a list and counts,
   possibly stopping with an error, computes a `map` / `filter` / `sequence_opt` over the cell numbers.  Used by
   GenCodecFromEq.v, GenCodecToEq.v and GenCodecXYEq.v.  No axioms. *)
From Coq Require Import List Arith ZArith Bool Lia.
Import ListNotations.
From PF Require Import Arr Codec.
Local Open Scope Z_scope.

Lemma upd_app_len {A} (pre : list A) x t y : upd (pre ++ x :: t) (length pre) y = pre ++ y :: t.
Proof. induction pre as [|h pre IH]; simpl; [reflexivity|]. rewrite IH. reflexivity. Qed.

Lemma upd_app_len' {A} (pre : list A) k x t y : length pre = k -> upd (pre ++ x :: t) k y = pre ++ y :: t.
Proof. intros <-. apply upd_app_len. Qed.

Lemma snoc_app {A} (pre : list A) x t : pre ++ x :: t = (pre ++ [x]) ++ t.
Proof. rewrite <- app_assoc. reflexivity. Qed.

Lemma fold_ext_seq {A} (f g : A -> nat -> A) n : (forall a i, (i < n)%nat -> f a i = g a i) ->
  forall a, fold_left f (seq 0 n) a = fold_left g (seq 0 n) a.
Proof.
  intros H. assert (G : forall l, (forall i, In i l -> (i < n)%nat) -> forall a, fold_left f l a = fold_left g l a).
  { induction l as [|x l IH]; intros Hl a; cbn [fold_left]; [reflexivity|].
    rewrite H by (apply Hl; left; reflexivity). apply IH. intros i Hi. apply Hl. right. exact Hi. }
  apply G. intros i Hi. apply in_seq in Hi. lia.
Qed.

(* ---------- decoders: (pits, downstream cells, count) ---------- *)
Section Build.
Variables (isnd pitb : nat -> bool) (v : nat -> nat) (d : nat).

Definition bstep (st : list nat * list nat * Z) (i : nat) : list nat * list nat * Z :=
  let '(p, a, c) := st in
  if isnd i then (p, a, c) else ((if pitb i then p ++ [i] else p), upd a i (v i), c + 1).

Lemma bfold : forall m k pre p c, length pre = k ->
  fold_left bstep (seq k m) (p, pre ++ repeat d m, c) =
  (p ++ filter (fun i => negb (isnd i) && pitb i) (seq k m),
   pre ++ map (fun i => if isnd i then d else v i) (seq k m),
   c + Z.of_nat (length (filter (fun i => negb (isnd i)) (seq k m)))).
Proof.
  induction m as [|m IH]; intros k pre p c Hk.
  - cbn. rewrite !app_nil_r, Z.add_0_r. reflexivity.
  - cbn [seq fold_left repeat map filter].
    change (bstep (p, pre ++ d :: repeat d m, c) k) with
      (if isnd k then (p, pre ++ d :: repeat d m, c)
       else ((if pitb k then p ++ [k] else p), upd (pre ++ d :: repeat d m) k (v k), c + 1)).
    destruct (isnd k) eqn:E; cbn [negb andb].
    + rewrite (snoc_app pre d (repeat d m)). rewrite (IH (S k) (pre ++ [d]) p c) by (rewrite app_length; simpl; lia).
      rewrite <- app_assoc. reflexivity.
    + subst k. rewrite upd_app_len, (snoc_app pre (v (length pre)) (repeat d m)).
      rewrite IH by (rewrite app_length; simpl; lia).
      rewrite <- !app_assoc. cbn [app].
      destruct (pitb (length pre)); cbn [length]; rewrite <- ?app_assoc; cbn [app]; f_equal; try lia.
Qed.

Lemma bfold0 n : fold_left bstep (seq 0 n) ([], repeat d n, 0) =
  (filter (fun i => negb (isnd i) && pitb i) (seq 0 n), map (fun i => if isnd i then d else v i) (seq 0 n),
   Z.of_nat (length (filter (fun i => negb (isnd i)) (seq 0 n)))).
Proof. apply (bfold n 0%nat [] [] 0). reflexivity. Qed.
End Build.

(* the three results of a decoder: the downstream cells, the pits and the number of cells of the network *)
Section Result.
Variables (n : nat) (isnd : nat -> bool) (cf : nat -> nat).
Hypothesis Hnd : forall i, (i < n)%nat -> isnd i = true -> cf i = n.
Hypothesis Hv : forall i, (i < n)%nat -> isnd i = false -> (cf i < n)%nat.
Let ds := map cf (seq 0 n).

Lemma res_length : length ds = n.
Proof. unfold ds. rewrite map_length, seq_length. reflexivity. Qed.

Lemma res_nth i : (i < n)%nat -> nth i ds n = cf i.
Proof. intros H. unfold ds. rewrite (nth_indep _ n (cf 0%nat)) by (rewrite map_length, seq_length; exact H).
  rewrite (map_nth cf (seq 0 n) 0%nat i), seq_nth by exact H. reflexivity. Qed.

Lemma res_cells : map (fun i => if isnd i then n else cf i) (seq 0 n) = ds.
Proof. unfold ds. apply map_ext_in. intros i Hi. apply in_seq in Hi.
  destruct (isnd i) eqn:E; [symmetry; apply Hnd; [lia|exact E]|reflexivity]. Qed.

Lemma res_pits : filter (fun i => negb (isnd i) && (cf i =? i)%nat) (seq 0 n) = pits_of ds.
Proof. unfold pits_of. rewrite res_length. apply filter_ext_in. intros i Hi. apply in_seq in Hi.
  rewrite res_nth by lia. destruct (isnd i) eqn:E; cbn [negb andb]; [|reflexivity].
  rewrite (Hnd i) by (lia || exact E). symmetry. apply Nat.eqb_neq. lia. Qed.

Lemma res_count : length (filter (fun i => negb (isnd i)) (seq 0 n)) = nvalid_of ds.
Proof. unfold nvalid_of. rewrite res_length. f_equal. apply filter_ext_in. intros i Hi. apply in_seq in Hi.
  rewrite res_nth by lia. destruct (isnd i) eqn:E; cbn [negb]; symmetry.
  - rewrite (Hnd i) by (lia || exact E). apply Nat.ltb_irrefl.
  - apply Nat.ltb_lt. apply Hv; [lia|exact E]. Qed.
End Result.

(* ---------- encoders with an error exit: option (array) ---------- *)
Section OBuild.
Variables (isnd : nat -> bool) (f : nat -> option Z) (d : Z).

Definition ostep (a : list Z) (i : nat) : option (list Z) :=
  if isnd i then Some a else match f i with Some x => Some (upd a i x) | None => None end.
Definition obind (o : option (list Z)) (i : nat) : option (list Z) :=
  match o with Some st => ostep st i | None => None end.

Lemma ofold_none l : fold_left obind l None = None.
Proof. induction l as [|x l IH]; cbn [fold_left obind]; auto. Qed.

Lemma ofold : forall m k pre, length pre = k ->
  fold_left obind (seq k m) (Some (pre ++ repeat d m)) =
  match sequence_opt (map (fun i => if isnd i then Some d else f i) (seq k m)) with
  | Some l => Some (pre ++ l) | None => None end.
Proof.
  induction m as [|m IH]; intros k pre Hk.
  - cbn. reflexivity.
  - cbn [seq fold_left repeat map sequence_opt].
    change (obind (Some (pre ++ d :: repeat d m)) k) with
      (if isnd k then Some (pre ++ d :: repeat d m)
       else match f k with Some x => Some (upd (pre ++ d :: repeat d m) k x) | None => None end).
    destruct (isnd k) eqn:E.
    + rewrite (snoc_app pre d (repeat d m)), IH by (rewrite app_length; simpl; lia).
      destruct (sequence_opt _); [rewrite <- app_assoc|]; reflexivity.
    + destruct (f k) as [x|].
      * subst k. rewrite upd_app_len, (snoc_app pre x (repeat d m)), IH by (rewrite app_length; simpl; lia).
        destruct (sequence_opt _); [rewrite <- app_assoc|]; reflexivity.
      * apply ofold_none.
Qed.

Lemma ofold0 n : fold_left obind (seq 0 n) (Some (repeat d n)) =
  sequence_opt (map (fun i => if isnd i then Some d else f i) (seq 0 n)).
Proof. change (repeat d n) with ([] ++ repeat d n). rewrite (ofold n 0%nat [] eq_refl). destruct (sequence_opt _); reflexivity. Qed.
End OBuild.

(* ---------- two arrays filled together ---------- *)
Section PBuild.
Variables (isnd : nat -> bool) (fx fy : nat -> Z) (d : Z).
Definition pstep (st : list Z * list Z) (i : nat) : list Z * list Z :=
  let '(a, b) := st in if isnd i then (a, b) else (upd a i (fx i), upd b i (fy i)).

Lemma pfold : forall m k pa pb, length pa = k -> length pb = k ->
  fold_left pstep (seq k m) (pa ++ repeat d m, pb ++ repeat d m) =
  (pa ++ map (fun i => if isnd i then d else fx i) (seq k m), pb ++ map (fun i => if isnd i then d else fy i) (seq k m)).
Proof.
  induction m as [|m IH]; intros k pa pb Ha Hb.
  - cbn. reflexivity.
  - cbn [seq fold_left repeat map].
    change (pstep (pa ++ d :: repeat d m, pb ++ d :: repeat d m) k) with
      (if isnd k then (pa ++ d :: repeat d m, pb ++ d :: repeat d m)
       else (upd (pa ++ d :: repeat d m) k (fx k), upd (pb ++ d :: repeat d m) k (fy k))).
    destruct (isnd k) eqn:E.
    + rewrite (snoc_app pa d (repeat d m)), (snoc_app pb d (repeat d m)), IH by (rewrite app_length; simpl; lia).
      rewrite <- !app_assoc. reflexivity.
    + rewrite (upd_app_len' pa k) by exact Ha. rewrite (upd_app_len' pb k) by exact Hb. rewrite (snoc_app pa (fx k) (repeat d m)), (snoc_app pb (fy k) (repeat d m)).
      rewrite IH by (rewrite app_length; simpl; lia). rewrite <- !app_assoc. reflexivity.
Qed.

Lemma pfold0 n : fold_left pstep (seq 0 n) (repeat d n, repeat d n) =
  (map (fun i => if isnd i then d else fx i) (seq 0 n), map (fun i => if isnd i then d else fy i) (seq 0 n)).
Proof. apply (pfold n 0%nat [] []); reflexivity. Qed.
End PBuild.

(* ---------- cell numbers as integers ---------- *)
Lemma zdiv_nat a b : Z.of_nat a / Z.of_nat b = Z.of_nat (a / b).
Proof. symmetry. apply Nat2Z.inj_div. Qed.
Lemma zmod_nat a b : Z.of_nat a mod Z.of_nat b = Z.of_nat (a mod b).
Proof. symmetry. apply Nat2Z.inj_mod. Qed.

Print Assumptions bfold0.
Print Assumptions ofold0.
Print Assumptions pfold0.
