(* One entry point for the extracted model: kernel id + arguments -> result lines. *)
From Coq Require Import List ZArith Bool.
Import ListNotations.
From PF Require Import RunC01 RunC03 RunC04 RunC05 RunC06 RunC08 RunC09 RunC10 RunC11 RunC12 RunC13 RunC14 RunC15 RunC16 RunC17 RunC18 RunC19 RunC20.
Open Scope Z_scope.

Definition run (k : Z) (args : list (list Z)) : list (list Z) :=
  if k <? 300 then run_c01 k args
  else if (300 <=? k) && (k <? 400) then run_c03 k args
  else if (400 <=? k) && (k <? 500) then run_c04 k args
  else if (500 <=? k) && (k <? 600) then run_c05 k args
  else if (600 <=? k) && (k <? 700) then run_c06 k args
  else if (800 <=? k) && (k <? 900) then run_c08 k args
  else if (900 <=? k) && (k <? 1000) then run_c09 k args
  else if (1000 <=? k) && (k <? 1100) then run_c10 k args
  else if (1100 <=? k) && (k <? 1200) then run_c11 k args
  else if (1200 <=? k) && (k <? 1300) then run_c12 k args
  else if (1300 <=? k) && (k <? 1400) then run_c13 k args
  else if (1400 <=? k) && (k <? 1500) then run_c14 k args
  else if (1500 <=? k) && (k <? 1600) then run_c15 k args
  else if (1600 <=? k) && (k <? 1700) then run_c16 k args
  else if (1700 <=? k) && (k <? 1800) then run_c17 k args
  else if (1800 <=? k) && (k <? 1900) then run_c18 k args
  else if (1900 <=? k) && (k <? 2000) then run_c19 k args
  else if (2000 <=? k) && (k <? 2100) then run_c20 k args
  else [[-999]].
