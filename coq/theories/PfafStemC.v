(* Pfafstetter main stem, part C: the digit relation between an outlet and its downstream cell is kept by one
   tributary step of the work loop. *)
From Coq Require Import List Arith ZArith Bool Lia.
Import ListNotations.
From PF Require Import Arr Net SweepDown Fill FillSpec Rank Stream Subbas PfafDigits.
From PF Require Import PfafClosureA PfafClosureB PfafClosureC PfafStemA PfafStemB.
Local Open Scope Z_scope.

Section Pair.
Variable ds : list nat.
Variable main : list nat.
Variable strord : list Z.
Let n := length ds.
Variable rk : nat -> nat.
Notation mn x := (nth x main n).
Notation dsf := (dsf ds).
Hypothesis Hrk : forall c, (c < n)%nat -> (dsf c < n)%nat -> dsf c <> c -> (rk (dsf c) < rk c)%nat.
Hypothesis Hrkn : forall c, (c < n)%nat -> (dsf c < n)%nat -> (rk c < n)%nat.
Hypothesis HM : forall x, (mn x < n)%nat -> dsf (mn x) = x /\ mn x <> x.
Variable uparea : list Z.
Notation ua c := (nth c uparea 0).
Hypothesis Hua : forall c, (c < n)%nat -> (dsf c < n)%nat -> dsf c <> c -> ua c < ua (dsf c).
Variable trib : list nat.
Hypothesis HT : forall t, In t trib ->
  (t < n)%nat /\ (dsf t < n)%nat /\ dsf t <> t /\ mn (dsf t) <> t /\ (mn (dsf t) < n)%nat.
Variable depth : Z.
Variables (b0 : list Z) (idxs0 : list nat) (pfaf0 d0 : Z).
Hypothesis HI0 : INV ds main b0 idxs0.
Hypothesis Hp0 : 0 < pfaf0.
Hypothesis Hd0 : 1 <= d0 <= depth.
Let q0 := depth - d0.
Let qq := pow10 q0.
Hypothesis Hdig : digit q0 pfaf0 = 1.

Notation SINV' := (SINV ds main uparea trib b0 idxs0 pfaf0).

Lemma qq_pos : 0 < qq.
Proof. unfold qq, pow10. apply Z.pow_pos_nonneg; unfold q0; lia. Qed.

Lemma hiP q k : q0 <= q -> 0 <= k <= 8 -> hi q (pfaf0 + k * qq) = hi q pfaf0.
Proof. intros Hq Hk. unfold qq, pow10. apply hi_add; [unfold q0 in *; lia|exact Hdig|exact Hk]. Qed.
Lemma digP0 k : 0 <= k <= 8 -> digit q0 (pfaf0 + k * qq) = 1 + k.
Proof. intros Hk. unfold qq, pow10. apply digit_add_at; [unfold q0; lia|exact Hdig|exact Hk]. Qed.
Lemma digP q k : q0 < q -> 0 <= k <= 8 -> digit q (pfaf0 + k * qq) = digit q pfaf0.
Proof. intros Hq Hk. unfold qq, pow10. apply digit_add_high; [unfold q0 in *; lia|exact Hdig|exact Hk]. Qed.

(* why the relation at position q will not be disturbed by the rest of the fold: x is the downstream label *)
Definition side (m : bool) (q x X : Z) : Prop :=
  q0 < q \/ x < X \/ pfaf0 + 10 * qq <= x \/ (q = q0 /\ m = false).

Record GINV (b : list Z) (idxs : list nat) (X : Z) : Prop := {
  g_x : exists j, 0 <= j <= 4 /\ X = pfaf0 + 2 * j * qq;
  g1 : forall c, lab b0 c = pfaf0 -> exists j, 0 <= j /\ lab b c = pfaf0 + 2 * j * qq /\ lab b c <= X;
  g2 : forall o, In o idxs -> dsf o <> o -> exists q, 0 <= q < depth /\
         Rel (mn (dsf o) =? o)%nat q (lab b (dsf o)) (lab b o) /\
         side (mn (dsf o) =? o)%nat q (lab b (dsf o)) X
}.

Lemma trib_core_pair iz t0 rest b idxs X :
  SINV' (t0 :: rest) b idxs X -> (forall t, In t rest -> ua (dsf t) <= ua (dsf t0)) -> ~ In t0 rest ->
  0 <= iz <= 3 ->
  let psub := pfaf0 + (iz * 2 + 1) * qq in
  let pint := pfaf0 + (iz + 1) * 2 * qq in
  X <= pfaf0 + 2 * iz * qq ->
  (forall c, lab b c <> psub) -> (forall c, lab b c <> pint) ->
  GINV b idxs X ->
  let r := trib_core ds main strord psub pint b idxs X t0 in
  GINV (fst (fst (fst r))) (snd (fst (fst r))) (snd (fst r)).
Proof.
  intros HS Hsort Hnd Hiz psub pint HXle Hf1 Hf2 HG.
  pose proof qq_pos as Hqq.
  pose proof (s_inv _ _ _ _ _ _ _ _ _ _ _ HS) as HI.
  destruct (g_x _ _ _ HG) as (jX & HjX & EX).
  assert (HXge : pfaf0 <= X) by (rewrite EX; nia).
  pose proof (trib_core_facts ds main strord rk Hrk Hrkn HM uparea trib HT b0 idxs0 pfaf0 HI0 ltac:(lia)
                psub pint t0 rest b idxs X HS Hsort Hnd ltac:(unfold psub; nia) ltac:(unfold pint; nia)
                ltac:(unfold pint; nia) ltac:(unfold psub, pint; nia) ltac:(unfold psub; nia) Hf1 Hf2) as HF.
  cbv zeta in HF |- *.
  destruct (trib_core ds main strord psub pint b idxs X t0) as [[[b' idxs'] X'] cr]. cbn [fst snd] in HF |- *.
  destruct HF as (F1 & F2 & F3 & F4 & F5 & F6 & Hlw & Hw0 & Hd1 & T4 & T3 & Hne1).
  fold n in F4, F6, Hd1, T4, Hne1.
  set (w0 := dsf t0) in *. set (c1 := mn w0) in *.
  assert (HXX : X <= X') by (rewrite F5; destruct cr; [unfold pint; nia|lia]).
  assert (HX8 : X' <= pfaf0 + 8 * qq) by (rewrite F5; destruct cr; [unfold pint; nia|nia]).
  (* cells of the basin being subdivided *)
  assert (G1 : forall c, lab b0 c = pfaf0 -> exists j, 0 <= j /\ lab b' c = pfaf0 + 2 * j * qq /\ lab b' c <= X').
  { intros c Hc. destruct (g1 _ _ _ HG c Hc) as (j & J1 & J2 & J3).
    destruct (F1 c ltac:(rewrite J2; nia)) as [E|(Ecr & _ & E)].
    - exists j. rewrite E. split; [exact J1|]. split; [exact J2|lia].
    - exists (iz + 1). rewrite E. split; [lia|]. split; [unfold pint; ring|]. rewrite F5, Ecr. lia. }
  (* the outlets that were there before the step *)
  assert (Gold : forall o, In o idxs -> dsf o <> o -> exists q, 0 <= q < depth /\
            Rel (mn (dsf o) =? o)%nat q (lab b' (dsf o)) (lab b' o) /\ side (mn (dsf o) =? o)%nat q (lab b' (dsf o)) X').
  { intros o Ho Hnp. destruct (g2 _ _ _ HG o Ho Hnp) as (q & Hq & HR & Hside).
    rewrite (F2 o Ho).
    destruct (inv2 _ _ _ _ HI o Ho) as (_ & _ & Hlw').
    destruct (F1 (dsf o) Hlw') as [E|(Ecr & E1 & E2)].
    - rewrite E. exists q. split; [exact Hq|]. split; [exact HR|].
      destruct Hside as [S|[S|[S|S]]]; [left; exact S|right; left; lia|right; right; left; exact S|right; right; right; exact S].
    - rewrite E2. rewrite E1 in HR, Hside. exists q. split; [exact Hq|].
      destruct Hside as [S|[S|[S|[S1 S2]]]]; [| lia | nia |].
      + split; [|left; exact S]. apply (rel_change_x _ q X); [| |exact HR].
        * rewrite EX. unfold pint. rewrite !hiP by lia. reflexivity.
        * rewrite EX. unfold pint. rewrite !digP by lia. reflexivity.
      + split; [|right; right; right; split; assumption]. rewrite S2 in HR |- *. subst q.
        destruct HR as (R1 & R2 & R3). split; [|split; [|exact R3]].
        * rewrite <- R1. rewrite EX. unfold pint. rewrite !hiP by lia. reflexivity.
        * unfold pint. rewrite digP0 by lia. replace (1 + (iz + 1) * 2) with (1 + 2 * (iz + 1)) by ring. apply Zodd_1_2j. }
  (* the label of the junction cell *)
  destruct (G1 w0 Hw0) as (jw & Jw1 & Jw2 & Jw3).
  assert (Hjw : jw <= 4) by nia.
  (* the new tributary outlet *)
  assert (Gt0 : exists q, 0 <= q < depth /\
            Rel (mn (dsf t0) =? t0)%nat q (lab b' (dsf t0)) (lab b' t0) /\ side (mn (dsf t0) =? t0)%nat q (lab b' (dsf t0)) X').
  { assert (Em : (mn (dsf t0) =? t0)%nat = false) by (apply Nat.eqb_neq; exact T4).
    rewrite Em. exists q0. split; [unfold q0; lia|]. split; [|right; right; right; split; reflexivity].
    fold w0. rewrite F3, Jw2. split; [|split].
    - unfold psub. rewrite !hiP by lia. reflexivity.
    - rewrite digP0 by lia. apply Zodd_1_2j.
    - unfold psub. rewrite digP0 by lia. replace (1 + (iz * 2 + 1)) with (2 * (iz + 1)) by ring. apply Zeven_2j. }
  constructor.
  - rewrite F5. destruct cr; [exists (iz + 1); split; [lia|unfold pint; ring]|exists jX; split; assumption].
  - exact G1.
  - intros o Ho Hnp. rewrite F4 in Ho. destruct cr.
    + apply in_app_or in Ho. destruct Ho as [Ho|[<-|[]]]; [apply in_app_or in Ho; destruct Ho as [Ho|[<-|[]]]|].
      * apply Gold; assumption.
      * exact Gt0.
      * destruct (F6 eq_refl) as [Vc1 Vw0]. fold w0 in Vw0.
        assert (Em : (mn (dsf c1) =? c1)%nat = true) by (apply Nat.eqb_eq; rewrite Hd1; reflexivity).
        rewrite Em, Hd1, Vc1. exists q0. split; [unfold q0; lia|].
        destruct (g1 _ _ _ HG w0 Hw0) as (j & J1 & J2 & J3).
        assert (Hj : j <= iz) by nia.
        rewrite Vw0, J2. split; [split; [|split; [|split]]|].
        -- unfold pint. rewrite !hiP by lia. reflexivity.
        -- rewrite digP0 by lia. apply Zodd_1_2j.
        -- unfold pint. rewrite digP0 by lia. replace (1 + (iz + 1) * 2) with (1 + 2 * (iz + 1)) by ring. apply Zodd_1_2j.
        -- unfold pint. rewrite !digP0 by lia. lia.
        -- right. left. rewrite F5. unfold pint. nia.
    + apply in_app_or in Ho. destruct Ho as [Ho|[<-|[]]]; [apply Gold; assumption|exact Gt0].
Qed.

End Pair.
