(* C17, affine part over Q. *)
From Coq Require Import ZArith QArith Qround Lia Lqa List Bool.
Import ListNotations.
From PF Require Import Geo.
Local Open Scope Q_scope.

(* the returned coordinates are the centre of the cell: the midpoint of its corners *)
Theorem xy_is_centre t row col :
  fst (xy t row col) == (fst (xy_ul t row col) + fst (xy_lr t row col)) / 2 /\
  snd (xy t row col) == (snd (xy_ul t row col) + snd (xy_lr t row col)) / 2.
Proof. unfold xy, xy_ul, xy_lr, half; simpl. split; field. Qed.

Lemma Qfloor_plus_half z : Qfloor (inject_Z z + half) = z.
Proof.
  unfold half, Qfloor, Qplus, inject_Z. simpl.
  replace (z * 2 + 1)%Z with (1 + z * 2)%Z by lia.
  rewrite Z.div_add by lia. reflexivity.
Qed.

(* mapping the centre back gives the same cell: for every axis-aligned transform with non-zero
   resolutions of either sign, every cell *)
Theorem index_xy_roundtrip t row col : ~ ta t == 0 -> ~ te t == 0 ->
  rowcol t (fst (xy t row col)) (snd (xy t row col)) = (row, col).
Proof.
  intros Ha He. unfold rowcol, xy. cbn [fst snd]. f_equal.
  - transitivity (Qfloor (inject_Z row + half)); [apply Qfloor_comp; field; exact He|apply Qfloor_plus_half].
  - transitivity (Qfloor (inject_Z col + half)); [apply Qfloor_comp; field; exact Ha|apply Qfloor_plus_half].
Qed.

Lemma in_raster_spec nrow ncol r c :
  in_raster nrow ncol r c = true <-> (0 <= r < nrow /\ 0 <= c < ncol)%Z.
Proof. unfold in_raster. rewrite !andb_true_iff, !Z.leb_le, !Z.ltb_lt. lia. Qed.

(* coordinates outside the raster raise IndexError; inside, the linear index of the cell *)
Theorem coords_to_idx_spec t nrow ncol x y :
  let '(r, c) := rowcol t x y in
  ((0 <= r < nrow /\ 0 <= c < ncol)%Z -> coords_to_idx t nrow ncol x y = Some (r * ncol + c)%Z) /\
  (~ (0 <= r < nrow /\ 0 <= c < ncol)%Z -> coords_to_idx t nrow ncol x y = None).
Proof.
  unfold coords_to_idx. destruct (rowcol t x y) as [r c]. split; intros H.
  - apply in_raster_spec in H. rewrite H. reflexivity.
  - destruct (in_raster nrow ncol r c) eqn:E; auto. apply in_raster_spec in E. contradiction.
Qed.

(* full round trip through linear indices *)
Theorem idx_coords_roundtrip t nrow ncol idx : ~ ta t == 0 -> ~ te t == 0 -> (0 < ncol)%Z ->
  (0 <= idx < nrow * ncol)%Z ->
  exists x y, idx_to_coords t nrow ncol idx = Some (x, y) /\ coords_to_idx t nrow ncol x y = Some idx.
Proof.
  intros Ha He Hn Hi. unfold idx_to_coords.
  assert (E : ((0 <=? idx) && (idx <? nrow * ncol))%Z = true) by (rewrite andb_true_iff, Z.leb_le, Z.ltb_lt; lia).
  rewrite E.
  destruct (xy t (idx / ncol) (idx mod ncol)) as [x y] eqn:Exy.
  exists x, y. split; [reflexivity|].
  unfold coords_to_idx.
  pose proof (index_xy_roundtrip t (idx / ncol)%Z (idx mod ncol)%Z Ha He) as R.
  rewrite Exy in R. cbn [fst snd] in R. rewrite R.
  assert (Hin : in_raster nrow ncol (idx / ncol) (idx mod ncol) = true).
  { apply in_raster_spec. pose proof (Z.mod_pos_bound idx ncol Hn). split; [|lia].
    split; [apply Z.div_pos; lia|]. apply Z.div_lt_upper_bound; lia. }
  rewrite Hin. f_equal. rewrite Z.mul_comm. symmetry. apply Z.div_mod. lia.
Qed.

Theorem idx_outside_raises t nrow ncol idx : ~ (0 <= idx < nrow * ncol)%Z -> idx_to_coords t nrow ncol idx = None.
Proof. intros H. unfold idx_to_coords.
  destruct ((0 <=? idx) && (idx <? nrow * ncol))%Z eqn:E; auto.
  rewrite andb_true_iff, Z.leb_le, Z.ltb_lt in E. contradiction. Qed.

(* north-up rasters: every cell centre lies strictly inside the reported bounds *)
Theorem centres_inside_bounds t height width row col : 0 < ta t -> te t < 0 ->
  (0 <= row < height)%Z -> (0 <= col < width)%Z ->
  let '(w, s, e, n) := array_bounds t height width in
  w < fst (xy t row col) /\ fst (xy t row col) < e /\ s < snd (xy t row col) /\ snd (xy t row col) < n.
Proof.
  intros Ha He Hr Hc. unfold array_bounds, xy, half. simpl.
  assert (H1 : 0 <= inject_Z col) by (rewrite <- (Zle_Qle 0); lia).
  assert (H2 : inject_Z col + 1 <= inject_Z width).
  { setoid_replace 1 with (inject_Z 1) by reflexivity. rewrite <- inject_Z_plus. rewrite <- Zle_Qle. lia. }
  assert (H3 : 0 <= inject_Z row) by (rewrite <- (Zle_Qle 0); lia).
  assert (H4 : inject_Z row + 1 <= inject_Z height).
  { setoid_replace 1 with (inject_Z 1) by reflexivity. rewrite <- inject_Z_plus. rewrite <- Zle_Qle. lia. }
  repeat split; nra.
Qed.
