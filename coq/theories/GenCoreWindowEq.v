(* core._window REGENERATED from the Python source (generated/GenCore.v: gen__window, two `for` loops with `break`, each a
   Fixpoint over its range) IS the hand-written model Ops.window that the theorems of C14 are about.  The source fills an
   array of 2n+1 cells that initially holds the missing value (the number of cells) everywhere; the model is the list of the
   cells found, upstream-most first.  The array is exactly the model's list, padded on both sides with the missing value up
   to n cells on either side of the centre.  No hypothesis, no axiom. *)
From Coq Require Import List Arith ZArith Bool Lia.
Import ListNotations.
From PF Require Import Arr Net Ops GenCoreBaseEq.
From PFG Require Import GenCore.
Local Open Scope Z_scope.

Section WindowEq.
Variables (k : nat) (ds main : list nat) (strord : option (list Z)) (so0 : Z).
Notation NMV := (size ds).

(* the downstream half: the loop over seq j m writes the cells found after the k + j + 1 cells filled so far *)
Lemma loop1_down : forall m j cur A, length A = (k + j + 1)%nat ->
  snd (gen__window_loop1 k ds main strord so0 (seq j m) (cur, A ++ repeat NMV m)) =
  A ++ window_down ds strord so0 m cur ++ repeat NMV (m - length (window_down ds strord so0 m cur)).
Proof.
  induction m as [|m IH]; intros j cur A HA; [reflexivity|].
  cbn [seq gen__window_loop1 window_down]. cbv zeta. change (nth cur ds (length ds)) with (dsf ds cur).
  change (length ds) with NMV. rewrite orb_assoc.
  destruct ((dsf ds cur =? cur)%nat || (NMV <=? dsf ds cur)%nat || _); [reflexivity|].
  replace (Z.to_nat (Z.of_nat k + Z.of_nat j + 1)) with (length A + 0)%nat by lia.
  rewrite upd_app_r. cbn [repeat upd].
  change (A ++ dsf ds cur :: repeat NMV m) with (A ++ [dsf ds cur] ++ repeat NMV m). rewrite app_assoc.
  rewrite (IH (S j) (dsf ds cur) (A ++ [dsf ds cur])) by (rewrite app_length; cbn [length]; lia).
  rewrite <- app_assoc. reflexivity.
Qed.

(* the upstream half: the loop over seq j m writes the cells found, last first, before the cells filled so far *)
Lemma loop2_up : forall m j cur B, (j + m = k)%nat ->
  snd (gen__window_loop2 k ds main strord (seq j m) (cur, repeat NMV m ++ B)) =
  repeat NMV (m - length (window_up NMV main m cur)) ++ rev (window_up NMV main m cur) ++ B.
Proof.
  induction m as [|m IH]; intros j cur B Hj; [reflexivity|].
  cbn [seq gen__window_loop2 window_up]. cbv zeta. change (length ds) with NMV.
  destruct (NMV <=? nth cur main NMV)%nat; [reflexivity|].
  replace (Z.to_nat (Z.of_nat k - Z.of_nat j - 1)) with (length (repeat NMV m) + 0)%nat by (rewrite repeat_length; lia).
  rewrite repeat_snoc, <- app_assoc, upd_app_r. cbn [app upd].
  rewrite (IH (S j) (nth cur main NMV) (nth cur main NMV :: B)) by lia.
  cbn [length rev Nat.sub]. rewrite <- !app_assoc. reflexivity.
Qed.
End WindowEq.

Theorem gen__window_eq : forall idx0 k ds main strord,
  let so0 := match strord with None => 0 | Some s => nth idx0 s 0 end in
  gen__window idx0 k ds main strord =
  repeat (size ds) (k - length (window_up (size ds) main k idx0)) ++ window ds main strord k idx0 ++
  repeat (size ds) (k - length (window_down ds strord so0 k idx0)).
Proof.
  intros idx0 k ds main strord so0. unfold gen__window, window. cbv zeta. fold so0. change (length ds) with (size ds).
  replace (Z.to_nat (Z.of_nat k * 2 + 1)) with (k + S k)%nat by lia.
  rewrite repeat_app.
  assert (E : upd (repeat (size ds) k ++ repeat (size ds) (S k)) k idx0 = repeat (size ds) k ++ idx0 :: repeat (size ds) k).
  { pose proof (upd_app_r (repeat (size ds) k) (repeat (size ds) (S k)) 0 idx0) as E.
    rewrite repeat_length, Nat.add_0_r in E. exact E. }
  rewrite E. clear E.
  pose proof (loop1_down k ds main strord so0 k 0%nat idx0 (repeat (size ds) k ++ [idx0])) as H1.
  rewrite <- app_assoc in H1. cbn [app] in H1.
  destruct (gen__window_loop1 k ds main strord so0 (seq 0 k) _) as [c1 a1]. cbn [snd] in H1.
  rewrite H1 by (rewrite app_length, repeat_length; cbn [length]; lia). clear H1.
  rewrite <- app_assoc. cbn [app].
  replace (nth k _ (size ds)) with idx0.
  2:{ rewrite app_nth2 by (rewrite repeat_length; lia). rewrite repeat_length, Nat.sub_diag. reflexivity. }
  pose proof (loop2_up k ds main strord k 0%nat idx0
                (idx0 :: window_down ds strord so0 k idx0 ++ repeat (size ds) (k - length (window_down ds strord so0 k idx0)))) as H2.
  destruct (gen__window_loop2 k ds main strord (seq 0 k) _) as [c2 a2]. cbn [snd] in H2.
  rewrite H2 by lia. rewrite <- !app_assoc. reflexivity.
Qed.

(* the cells of the array that are cells of the raster are the model's window, when the centre is a cell of the raster *)
Corollary gen__window_cells : forall idx0 k ds main strord, (idx0 < size ds)%nat ->
  filter (fun x => x <? size ds)%nat (gen__window idx0 k ds main strord) = window ds main strord k idx0.
Proof.
  intros idx0 k ds main strord Hi. rewrite gen__window_eq. cbv zeta.
  assert (Hrep : forall m, filter (fun x => x <? size ds)%nat (repeat (size ds) m) = []).
  { induction m as [|m IH]; cbn [repeat filter]; [reflexivity|]. rewrite Nat.ltb_irrefl. exact IH. }
  assert (Hall : forall l : list nat, (forall x, In x l -> (x < size ds)%nat) -> filter (fun x => x <? size ds)%nat l = l).
  { induction l as [|x l IH]; intros H; cbn [filter]; [reflexivity|].
    replace (x <? size ds)%nat with true by (symmetry; apply Nat.ltb_lt; apply H; left; auto).
    rewrite IH; auto. intros; apply H; right; auto. }
  rewrite !filter_app, !Hrep, app_nil_r. cbn [app]. apply Hall.
  unfold window. set (so0 := match strord with Some s => nth idx0 s 0 | None => 0 end). clearbody so0.
  cbn [app]. intros x Hx. apply in_app_or in Hx. destruct Hx as [Hx|[<-|Hx]]; auto.
  - apply in_rev in Hx. revert Hx. generalize idx0. induction k as [|k IH]; intros c Hx; [destruct Hx|].
    cbn [window_up] in Hx. destruct (Nat.leb_spec (size ds) (nth c main (size ds))); [destruct Hx|].
    destruct Hx as [<-|Hx]; auto. apply (IH _ Hx).
  - revert Hx. generalize idx0. induction k as [|k IH]; intros c Hx; [destruct Hx|].
    cbn [window_down] in Hx. destruct (Nat.leb_spec (size ds) (dsf ds c)) as [Hge|Hlt].
    + rewrite orb_true_r in Hx. destruct Hx.
    + destruct ((dsf ds c =? c)%nat || false || _); [destruct Hx|]. destruct Hx as [<-|Hx]; auto. apply (IH _ Hx).
Qed.

Print Assumptions gen__window_eq.
Print Assumptions gen__window_cells.

(* non-vacuity: 4 -> 3 -> 2 -> 1 -> 0 (pit), main upstream = the only upstream cell; window of 2 around cell 1 *)
Example gen__window_example :
  gen__window 1 2 [0;0;1;2;3]%nat [1;2;3;4;5]%nat None = [3;2;1;0;5]%nat /\
  window [0;0;1;2;3]%nat [1;2;3;4;5]%nat None 2 1 = [3;2;1;0]%nat.
Proof. vm_compute. auto. Qed.
