From Coq Require Import List Arith ZArith Bool Lia.
Import ListNotations.
From PF Require Import Arr Net Elev Upscale D8Idx.

Lemma divmod_unique q r ncol j : (r < ncol)%nat -> j = (q * ncol + r)%nat -> (j / ncol = q /\ j mod ncol = r)%nat.
Proof.
  intros Hr ->. split.
  - rewrite Nat.div_add_l by lia. rewrite Nat.div_small by lia. lia.
  - rewrite Nat.add_comm, Nat.mod_add by lia. apply Nat.mod_small. lia.
Qed.

(* one offset contributes the neighbour with that offset, when it lies inside the raster *)
Lemma one_offset idx0 nrow ncol dr dc j : (0 < ncol)%nat ->
  let r := Z.of_nat (idx0 / ncol) in let c := Z.of_nat (idx0 mod ncol) in
  In j (let r1 := (r + dr)%Z in let c1 := (c + dc)%Z in
        if ((0 <=? r1) && (r1 <? Z.of_nat nrow) && (0 <=? c1) && (c1 <? Z.of_nat ncol))%Z
        then [Z.to_nat (r1 * Z.of_nat ncol + c1)] else []) <->
  (Z.of_nat (j / ncol) = r + dr /\ Z.of_nat (j mod ncol) = c + dc /\ (j / ncol < nrow)%nat)%Z.
Proof.
  intros Hn r c. cbv zeta.
  destruct ((0 <=? r + dr) && (r + dr <? Z.of_nat nrow) && (0 <=? c + dc) && (c + dc <? Z.of_nat ncol))%Z eqn:E.
  - apply andb_true_iff in E. destruct E as [E E4]. apply andb_true_iff in E. destruct E as [E E3].
    apply andb_true_iff in E. destruct E as [E1 E2].
    apply Z.leb_le in E1. apply Z.ltb_lt in E2. apply Z.leb_le in E3. apply Z.ltb_lt in E4.
    assert (Hj : Z.to_nat ((r + dr) * Z.of_nat ncol + (c + dc)) = (Z.to_nat (r + dr) * ncol + Z.to_nat (c + dc))%nat) by nia.
    destruct (divmod_unique (Z.to_nat (r + dr)) (Z.to_nat (c + dc)) ncol _ ltac:(lia) Hj) as [D M].
    split.
    + intros [<-|[]]. rewrite D, M. lia.
    + intros (A & B & C). left.
      rewrite Hj. rewrite (Nat.div_mod j ncol) by lia. f_equal; [|lia]. rewrite Nat.mul_comm. f_equal. lia.
  - split; [intros []|]. intros (A & B & C). exfalso.
    pose proof (Nat.mod_upper_bound j ncol ltac:(lia)).
    assert ((0 <=? r + dr) && (r + dr <? Z.of_nat nrow) && (0 <=? c + dc) && (c + dc <? Z.of_nat ncol) = true)%Z; [|congruence].
    rewrite !andb_true_iff. repeat split; try apply Z.leb_le; try apply Z.ltb_lt; lia.
Qed.

(* core._d8_idx returns exactly the cells of the raster whose row and column differ by at most one from idx0's, idx0 excluded *)
Theorem d8_idx_spec idx0 nrow ncol j : (0 < ncol)%nat ->
  In j (d8_idx idx0 nrow ncol) <->
  ((j < nrow * ncol)%nat /\ j <> idx0 /\ in_d8 idx0 j ncol = true).
Proof.
  intros Hn. unfold d8_idx, offsets8. cbn [flat_map]. rewrite !in_app_iff.
  rewrite !(one_offset idx0 nrow ncol _ _ j Hn). cbn [fst snd In].
  unfold in_d8, absdiff.
  pose proof (Nat.div_mod j ncol ltac:(lia)) as Dj. pose proof (Nat.div_mod idx0 ncol ltac:(lia)) as D0.
  pose proof (Nat.mod_upper_bound j ncol ltac:(lia)) as Mj. pose proof (Nat.mod_upper_bound idx0 ncol ltac:(lia)) as M0.
  set (rj := (j / ncol)%nat) in *. set (cj := (j mod ncol)%nat) in *.
  set (r0 := (idx0 / ncol)%nat) in *. set (c0 := (idx0 mod ncol)%nat) in *.
  rewrite andb_true_iff, !Nat.leb_le.
  split.
  - intros H. assert (Hr : (rj < nrow)%nat) by (repeat destruct H as [H|H]; try tauto; lia).
    split; [nia|]. split; [|repeat destruct H as [H|H]; try tauto; lia].
    intros ->. subst rj cj r0 c0. repeat destruct H as [H|H]; try tauto; lia.
  - intros (Hlt & Hne & Hc & Hr).
    assert (Hrn : (rj < nrow)%nat) by nia.
    assert (Hdiff : rj <> r0 \/ cj <> c0) by (destruct (Nat.eq_dec rj r0), (Nat.eq_dec cj c0); try tauto; exfalso; apply Hne; nia).
    assert (A : (Z.of_nat rj = Z.of_nat r0 + -1 \/ Z.of_nat rj = Z.of_nat r0 + 0 \/ Z.of_nat rj = Z.of_nat r0 + 1)%Z) by lia.
    assert (B : (Z.of_nat cj = Z.of_nat c0 + -1 \/ Z.of_nat cj = Z.of_nat c0 + 0 \/ Z.of_nat cj = Z.of_nat c0 + 1)%Z) by lia.
    destruct A as [A|[A|A]], B as [B|[B|B]]; try (exfalso; lia); tauto.
Qed.

Theorem upstream_d8_idx_spec ds idx0 nrow ncol j : (0 < ncol)%nat ->
  In j (upstream_d8_idx ds idx0 nrow ncol) <->
  ((j < nrow * ncol)%nat /\ j <> idx0 /\ in_d8 idx0 j ncol = true /\ dsf ds j = idx0).
Proof.
  intros Hn. unfold upstream_d8_idx. rewrite filter_In, (d8_idx_spec idx0 nrow ncol j Hn), Nat.eqb_eq. tauto.
Qed.
