(* upscale.next_outlet and upscale.outlet_pix, REGENERATED from the Python source (generated/GenIhu.v by tools/gen_ihu.py), equal
   the hand models Ihu.next_outlet and Ihu.outlet_pix.
   next_outlet: for every fuel, no hypothesis (the generated function and the model both return None when the walk is not left
   within `fuel` steps); the coarse cell is an integer in the generated text and a natural number in the model.
   outlet_pix (all = False): under the hypothesis that no pixel OF THE CELL idx whose downstream pixel is missing has the cell
   of the stand-in (a number >= nsub) of the missing value equal to idx - Python computes subidx_2_idx(-1) < 0 there, the model
   says `different from idx`, the generated text computes the cell of the stand-in (see the docstring of tools/gen_ihu.py).
   For all cells at once this is `nomv_cell`: a pixel with a missing downstream pixel does not lie in the cell of the stand-in
   (true for every raster without missing values, and for every raster whose number of rows is a multiple of the cell size and
   whose missing value is the number nsub, see nomv_cell_full).
   Also: the pixels of outlet_pix are pixels of the fine raster.  No axioms. *)
From Coq Require Import List Arith ZArith Bool Lia.
Import ListNotations.
From PF Require Import Arr Net Elev Upscale D8Idx Ihu GenCodecBaseEq GenUpscaleBaseEq.
From PFG Require Import GenUpscale GenIhu.

(* ---------- ofold: None is absorbing ---------- *)
Lemma ofold_from_none {S X : Type} (f : S -> X -> option S) (l : list X) :
  fold_left (fun st_ x_ => match st_ with None => None | Some s_ => f s_ x_ end) l None = None.
Proof. induction l as [|x l IH]; cbn [fold_left]; [reflexivity|exact IH]. Qed.

Lemma ofold_nil {S X : Type} (f : S -> X -> option S) (s : S) : GenIhu.ofold f [] s = Some s.
Proof. reflexivity. Qed.

Lemma ofold_cons {S X : Type} (f : S -> X -> option S) (x : X) (l : list X) (s : S) :
  GenIhu.ofold f (x :: l) s = match f s x with None => None | Some s' => GenIhu.ofold f l s' end.
Proof.
  unfold GenIhu.ofold. cbn [fold_left]. destruct (f s x); [reflexivity|apply ofold_from_none].
Qed.

(* ---------- next_outlet ---------- *)
Theorem gen_ihu_next_outlet_eq : forall (sds out : list nat) (subncol cs ncol fuel subidx : nat),
  gen_ihu_next_outlet fuel subidx sds out (Z.of_nat subncol) (Z.of_nat cs) (Z.of_nat ncol)
  = match next_outlet sds subncol cs ncol fuel out subidx with
    | Some (s1, idx1, o) => Some (s1, Z.of_nat idx1, o)
    | None => None
    end.
Proof.
  intros sds out subncol cs ncol fuel. unfold gen_ihu_next_outlet. cbv zeta.
  induction fuel as [|f IH]; intros subidx; cbn [gen_ihu_next_outlet_walk1 next_outlet]; cbv beta iota zeta; [reflexivity|].
  fold (sd sds subidx). rewrite gen_up_subidx_2_idx_eq, Nat2Z.id.
  destruct (_ || _) eqn:E; [reflexivity|].
  specialize (IH (sd sds subidx)). exact IH.
Qed.

(* ---------- outlet_pix ---------- *)
Section OutletPix.
Variable sds : list nat.
Variables subncol cs ncol idx : nat.
Notation nsub := (length sds).
Hypothesis Hmv : forall s, (s < nsub)%nat -> (nsub <= sd sds s)%nat -> sub2idx s subncol cs ncol = idx ->
  sub2idx (sd sds s) subncol cs ncol <> idx.

Let c_ul := ((idx mod ncol) * cs)%nat.
Let r_ul := ((idx / ncol) * cs)%nat.
Let subnrow := (nsub / subncol)%nat.

(* a pixel in a row below subnrow and a column below subncol is a pixel of the raster *)
Lemma window_lt r c : (r < subnrow)%nat -> (c < subncol)%nat -> (r * subncol + c < nsub)%nat.
Proof.
  intros Hr Hc. unfold subnrow in Hr.
  assert (H : (nsub / subncol * subncol <= nsub)%nat) by (rewrite Nat.mul_comm; apply Nat.mul_div_le; lia).
  nia.
Qed.

(* a pixel of the window of the cell idx lies in the cell idx *)
Lemma window_cell ri ci : (ri < cs)%nat -> (ci < cs)%nat -> (c_ul + ci < subncol)%nat ->
  sub2idx ((r_ul + ri) * subncol + c_ul + ci) subncol cs ncol = idx.
Proof.
  intros Hri Hci Hc. unfold sub2idx.
  assert (E1 : (((r_ul + ri) * subncol + c_ul + ci) / subncol = r_ul + ri)%nat).
  { rewrite <- Nat.add_assoc, Nat.div_add_l by lia. rewrite Nat.div_small by lia. lia. }
  assert (E2 : (((r_ul + ri) * subncol + c_ul + ci) mod subncol = c_ul + ci)%nat).
  { rewrite <- Nat.add_assoc, Nat.add_comm, Nat.mod_add by lia. apply Nat.mod_small; lia. }
  rewrite E1, E2. unfold r_ul, c_ul.
  rewrite Nat.div_add_l by lia. rewrite (Nat.div_small ri) by lia.
  rewrite Nat.div_add_l by lia. rewrite (Nat.div_small ci) by lia. rewrite !Nat.add_0_r.
  destruct ncol as [|n]; [cbn; lia|].
  rewrite (Nat.mul_comm (idx / S n)). symmetry. apply Nat.div_mod. lia.
Qed.

Definition pix_inner (ci : nat) (ri : nat) : list nat :=
  if (subnrow <=? r_ul + ri)%nat then [] else
  let ns := (ri =? 0)%nat || (ri + 1 =? cs)%nat in
  let we := (ci =? 0)%nat || (ci + 1 =? cs)%nat in
  let s := ((r_ul + ri) * subncol + c_ul + ci)%nat in
  let s1 := sd sds s in
  if (s =? s1)%nat then [s]
  else if (we || ns) && (if (nsub <=? s1)%nat then true else negb (sub2idx s1 subncol cs ncol =? idx)%nat) then [s]
  else [].

Lemma step2_eq ci acc ri : (ci < cs)%nat -> (ri < cs)%nat -> (c_ul + ci < subncol)%nat ->
  gen_ihu_outlet_pix_step2 idx sds (Z.of_nat ncol) (Z.of_nat subncol) (Z.of_nat cs) false nsub (Z.of_nat subnrow) (Z.of_nat c_ul)
    (Z.of_nat r_ul) ci ((ci =? 0)%nat || (ci + 1 =? cs)%nat) acc ri
  = acc ++ pix_inner ci ri.
Proof.
  intros Hci Hri Hc. unfold gen_ihu_outlet_pix_step2, pix_inner. cbv zeta.
  rewrite <- Nat2Z.inj_add, Z.geb_leb, zleb_nat.
  destruct (Nat.leb_spec subnrow (r_ul + ri)) as [Hr|Hr]; [rewrite app_nil_r; reflexivity|].
  rewrite <- Nat2Z.inj_mul, <- !Nat2Z.inj_add, Nat2Z.id.
  change 0%Z with (Z.of_nat 0). change 1%Z with (Z.of_nat 1). rewrite <- Nat2Z.inj_add, !zeqb_nat.
  fold (sd sds ((r_ul + ri) * subncol + c_ul + ci)).
  set (s := ((r_ul + ri) * subncol + c_ul + ci)%nat).
  destruct (s =? sd sds s)%nat; [reflexivity|].
  rewrite gen_up_subidx_2_idx_eq, zeqb_nat. cbn [orb].
  destruct (Nat.leb_spec nsub (sd sds s)) as [Hs|Hs].
  - assert (Hlt : (s < nsub)%nat).
    { unfold s. rewrite <- Nat.add_assoc. apply window_lt; [exact Hr|exact Hc]. }
    pose proof (Hmv s Hlt Hs (window_cell ri ci Hri Hci Hc)) as Hne. apply Nat.eqb_neq in Hne. rewrite Hne. cbn [negb].
    destruct (_ || _); cbn [andb]; [reflexivity|rewrite app_nil_r; reflexivity].
  - destruct (_ && _); [reflexivity|rewrite app_nil_r; reflexivity].
Qed.

Lemma fold_app_flat (f : nat -> list nat) : forall l acc,
  fold_left (fun a x => a ++ f x) l acc = acc ++ flat_map f l.
Proof.
  induction l as [|x l IH]; intros acc; cbn [fold_left flat_map]; [rewrite app_nil_r; reflexivity|].
  rewrite IH, app_assoc. reflexivity.
Qed.

Lemma step1_eq acc ci : (ci < cs)%nat ->
  gen_ihu_outlet_pix_step1 idx sds (Z.of_nat ncol) (Z.of_nat subncol) (Z.of_nat cs) false nsub (Z.of_nat subnrow) (Z.of_nat c_ul)
    (Z.of_nat r_ul) acc ci
  = acc ++ (if (subncol <=? c_ul + ci)%nat then [] else flat_map (pix_inner ci) (seq 0 cs)).
Proof.
  intros Hci. unfold gen_ihu_outlet_pix_step1. cbv zeta.
  rewrite <- Nat2Z.inj_add, Z.geb_leb, zleb_nat.
  destruct (Nat.leb_spec subncol (c_ul + ci)) as [Hc|Hc]; [rewrite app_nil_r; reflexivity|].
  change 0%Z with (Z.of_nat 0). change 1%Z with (Z.of_nat 1). rewrite <- Nat2Z.inj_add, !zeqb_nat, Nat2Z.id.
  rewrite (fold_ext_in _ (fun a x => a ++ pix_inner ci x)).
  - apply fold_app_flat.
  - intros a x Hx. apply in_seq in Hx. apply step2_eq; [exact Hci|lia|exact Hc].
Qed.

Theorem gen_ihu_outlet_pix_eq :
  gen_ihu_outlet_pix idx sds (Z.of_nat ncol) (Z.of_nat subncol) (Z.of_nat cs) false = outlet_pix sds subncol cs ncol idx.
Proof.
  unfold gen_ihu_outlet_pix. cbv zeta.
  rewrite zdiv_nat, zmod_nat, zdiv_nat, <- !Nat2Z.inj_mul, Nat2Z.id.
  fold subnrow c_ul r_ul.
  rewrite (fold_ext_in _ (fun a ci => a ++ (if (subncol <=? c_ul + ci)%nat then [] else flat_map (pix_inner ci) (seq 0 cs)))).
  - rewrite fold_app_flat. cbn [app]. unfold outlet_pix. cbv zeta. fold subnrow c_ul r_ul.
    apply flat_map_ext. intros ci. destruct (_ <=? _)%nat; [reflexivity|].
    apply flat_map_ext. intros ri. unfold pix_inner. cbv zeta. reflexivity.
  - intros a x Hx. apply in_seq in Hx. apply step1_eq. lia.
Qed.

(* the pixels of outlet_pix are pixels of the raster *)
Lemma outlet_pix_lt s : In s (outlet_pix sds subncol cs ncol idx) -> (s < nsub)%nat.
Proof.
  unfold outlet_pix. cbv zeta. fold subnrow c_ul r_ul. intros H.
  apply in_flat_map in H. destruct H as [ci [_ H]].
  destruct (Nat.leb_spec subncol (c_ul + ci)) as [Hc|Hc]; [destruct H|].
  apply in_flat_map in H. destruct H as [ri [_ H]].
  destruct (Nat.leb_spec subnrow (r_ul + ri)) as [Hr|Hr]; [destruct H|].
  assert (Hlt : ((r_ul + ri) * subncol + c_ul + ci < nsub)%nat)
    by (rewrite <- Nat.add_assoc; apply window_lt; assumption).
  destruct (_ =? _)%nat; [destruct H as [<-|[]]; exact Hlt|].
  destruct (_ && _); [destruct H as [<-|[]]; exact Hlt|destruct H].
Qed.
End OutletPix.

(* the hypothesis for all cells at once *)
Definition nomv_cell (sds : list nat) (subncol cs ncol : nat) : Prop :=
  forall s, (s < length sds)%nat -> (length sds <= sd sds s)%nat ->
  sub2idx (sd sds s) subncol cs ncol <> sub2idx s subncol cs ncol.

Corollary gen_ihu_outlet_pix_eq_all : forall sds subncol cs ncol, nomv_cell sds subncol cs ncol -> forall idx,
  gen_ihu_outlet_pix idx sds (Z.of_nat ncol) (Z.of_nat subncol) (Z.of_nat cs) false = outlet_pix sds subncol cs ncol idx.
Proof.
  intros sds subncol cs ncol H idx. apply gen_ihu_outlet_pix_eq. intros s Hs Hmv Hc. rewrite <- Hc. apply H; assumption.
Qed.

(* no missing downstream pixel at all *)
Lemma nomv_cell_full sds subncol cs ncol : (forall s, (s < length sds)%nat -> (sd sds s < length sds)%nat) ->
  nomv_cell sds subncol cs ncol.
Proof. intros H s Hs Hmv. specialize (H s Hs). lia. Qed.

(* non-vacuity: a 2 x 4 fine raster draining east to the pit 3, cell size 2, coarse raster 1 x 2 *)
Example gen_ihu_next_outlet_ex :
  gen_ihu_next_outlet 9 0%nat [1; 2; 3; 3; 0; 1; 2; 3]%nat [1; 3]%nat 4%Z 2%Z 2%Z = Some (1%nat, 0%Z, true)
  /\ gen_ihu_next_outlet 1 0%nat [1; 2; 3; 3; 0; 1; 2; 3]%nat [5; 7]%nat 4%Z 2%Z 2%Z = None
  /\ gen_ihu_outlet_pix 0%nat [1; 2; 3; 3; 0; 1; 2; 3]%nat 2%Z 4%Z 2%Z false = [1]%nat
  /\ gen_ihu_outlet_pix 1%nat [1; 2; 3; 3; 0; 1; 2; 3]%nat 2%Z 4%Z 2%Z false = [3]%nat.
Proof. vm_compute. auto. Qed.

Print Assumptions gen_ihu_next_outlet_eq.
Print Assumptions gen_ihu_outlet_pix_eq.
Print Assumptions gen_ihu_outlet_pix_eq_all.
Print Assumptions outlet_pix_lt.
