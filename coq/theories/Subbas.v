(* Models: basins.subbasins_streamorder, basins.subbasins_area, basins.subbasins_pfafstetter. *)
From Coq Require Import List Arith ZArith Bool.
Import ListNotations.
From PF Require Import Arr Net SweepDown Fill Rank Stream.
Local Open Scope Z_scope.

(* ---- by stream order ----
   for idx0 in seq[::-1]: skip if (mask is not None and mask[idx0] == False) or strord[idx0] < min_sto
   (mask: consider only True cells; Stream.mget reads the optional mask, true when there is none)
   if strord[idx0] != strord[idx_ds] or idx_ds == idx0: idxs.append(idx0); subbas[idx0] = len(idxs) *)
Definition sto_step (ds : list nat) (strord : list Z) (mask : option (list bool)) (min_sto : Z) (st : list Z * list nat) (idx0 : nat) : list Z * list nat :=
  let '(sb, idxs) := st in
  if negb (mget mask idx0) || (nth idx0 strord 0 <? min_sto) then st
  else let d := dsf ds idx0 in
       if negb (nth idx0 strord 0 =? nth d strord 0) || (d =? idx0)%nat
       then (upd sb idx0 (Z.of_nat (length idxs) + 1), idxs ++ [idx0]) else st.
Definition subbasins_streamorder (ds : list nat) (sq : list nat) (strord : list Z) (mask : option (list bool)) (min_sto : Z) : list Z * list nat :=
  let ms := if min_sto <? 0 then fold_right Z.max 0 strord + min_sto else min_sto in
  let '(sb, idxs) := fold_left (sto_step ds strord mask ms) (rev sq) (repeat 0 (length ds), []) in
  (fillnodata_upstream ds sq sb 0, idxs).

(* ---- by minimum area ---- *)
Definition area_step (ds : list nat) (main : list nat) (uparea : list Z) (area_min : Z)
           (st : list Z * list Z * list nat) (idx : nat) : list Z * list Z * list nat :=
  let '(upa_out, sb, idxs) := st in
  let d := dsf ds idx in
  if (d =? idx)%nat then (upa_out, upd sb idx (Z.of_nat (length idxs) + 1), idxs ++ [idx])
  else
    let upa0 := nth d upa_out 0 in
    let upa := nth idx uparea 0 in
    if (upa0 - upa >? area_min) && (upa >? area_min) then
      let conf := nth d uparea 0 - upa >? area_min in
      let trib := negb (nth d main (length ds) =? idx)%nat in
      let '(upa_out1, sb1, idxs1) :=
        if negb conf || trib then (upd upa_out idx upa, upd sb idx (Z.of_nat (length idxs) + 1), idxs ++ [idx])
        else (upa_out, sb, idxs) in
      if trib then
        let idx1 := nth d main (length ds) in
        let u2 := upd upa_out1 d (nth d upa_out1 0 - upa) in
        (upd u2 idx1 (nth d u2 0), sb1, idxs1)
      else (upa_out1, sb1, idxs1)
    else (upd upa_out idx upa0, sb, idxs).
Definition subbasins_area (ds : list nat) (sq : list nat) (main : list nat) (uparea : list Z) (area_min : Z) : list Z * list nat :=
  let '(_, sb, idxs) := fold_left (area_step ds main uparea area_min) sq (uparea, repeat 0 (length ds), []) in
  (fillnodata_upstream ds sq sb 0, idxs).

(* ---- Pfafstetter ---- *)
(* stable descending sort by key *)
Fixpoint insert_desc (key : nat -> Z) (x : nat) (l : list nat) : list nat :=
  match l with
  | [] => [x]
  | h :: t => if key h <=? key x then x :: l else h :: insert_desc key x t
  end.
Definition sort_desc (key : nat -> Z) (l : list nat) : list nat := fold_right (insert_desc key) [] l.

(* while True: idx = main[idx]; if idx == mv or stop(idx): break; branch[idx] = lab *)
Fixpoint climb (fuel : nat) (n : nat) (main : list nat) (stop : list Z -> nat -> bool) (lab : Z) (branch : list Z) (cur : nat) : list Z :=
  match fuel with
  | O => branch
  | S f => let u := nth cur main n in
           if (n <=? u)%nat || stop branch u then branch else climb f n main stop lab (upd branch u lab) u
  end.

Definition pow10 (k : Z) : Z := 10 ^ k.

Section Pfaf.
Variable ds : list nat.
Variable main : list nat.
Variable uparea : list Z.
Variable strord : list Z.      (* classic order, already cut to 0 above depth + 1 *)
Variable trib : list nat.
Variable depth : Z.
Let n := length ds.
Definition stop_so (_ : list Z) (u : nat) : bool := nth u strord 0 =? 0.

(* one tributary of the current basin pfaf0 (the i-th of the at most four largest) *)
Definition pfaf_trib (d0 pfaf0 : Z) (st : list Z * list nat * list (Z * Z) * Z) (ix : nat * nat)
  : list Z * list nat * list (Z * Z) * Z :=
  let '(branch, idxs, labs, pfaf_int_ds) := st in
  let '(i, idx) := ix in
  let idxs1 := idxs ++ [idx] in
  let idx1 := nth (dsf ds idx) main n in
  let pfaf_sub := pfaf0 + (Z.of_nat i * 2 + 1) * pow10 (depth - d0) in
  let b1 := climb n n main stop_so pfaf_sub (upd branch idx pfaf_sub) idx in
  let labs1 := if d0 <? depth then labs ++ [(pfaf_sub, d0 + 1)] else labs in
  if negb (memb idx1 idxs1) then
    let pfaf_int := pfaf0 + (Z.of_nat i + 1) * 2 * pow10 (depth - d0) in
    let b2 := climb n n main (fun br u => negb (nth u br 0 =? pfaf_int_ds)) pfaf_int (upd b1 idx1 pfaf_int) idx1 in
    (b2, idxs1 ++ [idx1], (if d0 <? depth then labs1 ++ [(pfaf_int, d0 + 1)] else labs1), pfaf_int)
  else (b1, idxs1, labs1, pfaf_int_ds).

Fixpoint pfaf_loop (fuel : nat) (branch : list Z) (idxs : list nat) (labs : list (Z * Z)) : list Z * list nat :=
  match fuel with
  | O => (branch, idxs)
  | S f =>
    match labs with
    | [] => (branch, idxs)
    | (pfaf0, d0) :: labs' =>
      let idxs0 := filter (fun idx => (nth idx branch 0 =? 0) && (nth (dsf ds idx) branch 0 =? pfaf0)) trib in
      match idxs0 with
      | [] => pfaf_loop f branch idxs labs'
      | _ =>
        let top4 := firstn 4 (sort_desc (fun i => nth i uparea 0) idxs0) in
        let ordered := sort_desc (fun i => nth (dsf ds i) uparea 0) top4 in
        let '(b, ix, lb, _) := fold_left (pfaf_trib d0 pfaf0) (combine (seq 0 (length ordered)) ordered) (branch, idxs, labs', pfaf0) in
        pfaf_loop f b ix lb
      end
    end
  end.
End Pfaf.

Definition subbasins_pfafstetter (ds : list nat) (pits : list nat) (sq : list nat) (main : list nat) (uparea : list Z)
           (mask : option (list bool)) (depth : Z) : list Z * list nat :=
  let n := length ds in
  let so := map (fun v => if v <=? depth + 1 then v else 0) (stream_order ds sq main mask) in
  let trib := filter (fun i => (nth i so 0 >? 0) && (nth i so 0 >? nth (dsf ds i) so 0)) sq in
  let pfaf_base := fold_left (fun acc d0 => acc + pow10 (Z.of_nat d0)) (seq 1 (Z.to_nat depth - 1)) 1 in
  let init := fold_left (fun (st : list Z * list nat * list (Z * Z)) (ip : nat * nat) =>
                let '(branch, idxs, labs) := st in
                let '(i, idx) := ip in
                let pfaf1 := pfaf_base + (Z.of_nat i + 1) * pow10 depth in
                (climb n n main (stop_so so) pfaf1 (upd branch idx pfaf1) idx, idxs ++ [idx], labs ++ [(pfaf1, 1)]))
              (combine (seq 0 (length pits)) pits) (repeat 0 n, [], []) in
  let '(branch0, idxs0, labs0) := init in
  let '(branch, idxs) := pfaf_loop ds main uparea so trib depth (4 * n + 8) branch0 idxs0 labs0 in
  (map (fun v => v mod pow10 depth) (fillnodata_upstream ds sq branch 0), idxs).
