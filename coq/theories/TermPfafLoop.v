(* C13 / termination, extra target: the work-list loop of basins.subbasins_pfafstetter, `pfaf_loop` (Subbas.v), run by
   `subbasins_pfafstetter` with fuel 4 * n + 8.  Each iteration pops one label; an iteration that finds k >= 1 tributaries
   pushes at most 2 k labels and labels these k (so far unlabelled, distinct) cells for good.  Potential:
   |labs| + 2 * #{unlabelled cells} drops by at least one per iteration, and is <= |pits| + 2 n at the start:
   the loop ends because the work list is EMPTY, never because the fuel is used up. *)
From Coq Require Import List Arith ZArith Bool Lia Permutation.
Import ListNotations.
From PF Require Import Arr Net SweepDown Fill Rank RankSpec Stream Subbas.
Local Open Scope nat_scope.

(* ---------- counting unlabelled cells ---------- *)
Definition zc (n : nat) (b : list Z) : nat := length (filter (fun j => (nth j b 0 =? 0)%Z) (seq 0 n)).
Definition le_lab (b b' : list Z) : Prop := length b' = length b /\ forall j, nth j b 0%Z <> 0%Z -> nth j b' 0%Z <> 0%Z.

Lemma le_lab_refl b : le_lab b b.
Proof. split; auto. Qed.
Lemma le_lab_trans a b c : le_lab a b -> le_lab b c -> le_lab a c.
Proof. intros [L1 H1] [L2 H2]. split; [congruence|auto]. Qed.
Lemma le_lab_upd b i v : v <> 0%Z -> le_lab b (upd b i v).
Proof.
  intros Hv. split; [apply upd_length|]. intros j Hj. rewrite nth_upd.
  destruct ((j =? i) && (i <? length b)); auto.
Qed.

Lemma zc_le n b : zc n b <= n.
Proof.
  unfold zc. assert (G : forall (f : nat -> bool) l, length (filter f l) <= length l).
  { intros f l. induction l as [|a l IH]; simpl; auto. destruct (f a); simpl; lia. }
  pose proof (G (fun j => (nth j b 0 =? 0)%Z) (seq 0 n)) as H. rewrite seq_length in H. exact H.
Qed.

Lemma zc_drop n b b' S : le_lab b b' -> NoDup S ->
  (forall j, In j S -> j < n /\ nth j b 0%Z = 0%Z /\ nth j b' 0%Z <> 0%Z) -> zc n b' + length S <= zc n b.
Proof.
  intros [_ Hle] HS HSp. unfold zc. rewrite <- app_length. apply NoDup_incl_length.
  - apply NoDup_app_disj; [apply NoDup_filter, seq_NoDup|exact HS|].
    intros c Hc Hin. apply filter_In in Hin. destruct Hin as [_ Hz]. apply Z.eqb_eq in Hz.
    destruct (HSp c Hc) as (_ & _ & H). contradiction.
  - intros x Hx. apply in_app_or in Hx. apply filter_In. destruct Hx as [Hx|Hx].
    + apply filter_In in Hx. destruct Hx as [Hx Hz]. split; [exact Hx|]. apply Z.eqb_eq in Hz. apply Z.eqb_eq.
      destruct (Z.eq_dec (nth x b 0%Z) 0%Z) as [E|E]; [exact E|]. exfalso. apply (Hle x E). exact Hz.
    + destruct (HSp x Hx) as (H1 & H2 & _). split; [apply in_seq; lia|apply Z.eqb_eq; exact H2].
Qed.

(* ---------- the stable sort and the slice keep elements and distinctness ---------- *)
Lemma insert_desc_perm key x l : Permutation (insert_desc key x l) (x :: l).
Proof.
  induction l as [|h t IH]; cbn [insert_desc]; [apply Permutation_refl|].
  destruct (key h <=? key x)%Z; [apply Permutation_refl|].
  apply (Permutation_trans (l' := h :: x :: t)); [apply perm_skip; exact IH|apply perm_swap].
Qed.
Lemma sort_desc_perm key l : Permutation (sort_desc key l) l.
Proof.
  induction l as [|h t IH]; [apply Permutation_refl|]. unfold sort_desc. cbn [fold_right]. fold (sort_desc key t).
  apply (Permutation_trans (insert_desc_perm key h _)). apply perm_skip. exact IH.
Qed.
Lemma firstn_incl {A} k (l : list A) x : In x (firstn k l) -> In x l.
Proof. intros H. rewrite <- (firstn_skipn k l). apply in_or_app. left. exact H. Qed.
Lemma firstn_NoDup {A} k (l : list A) : NoDup l -> NoDup (firstn k l).
Proof.
  revert l. induction k as [|k IH]; intros [|h t] H; cbn [firstn]; try constructor.
  - inversion H; subst. intros Hin. apply firstn_incl in Hin. contradiction.
  - inversion H; subst. apply IH. assumption.
Qed.

Lemma combine_seq_snd {A} (l : list A) : forall a p, In p (combine (seq a (length l)) l) -> In (snd p) l.
Proof. intros a [i x] H. apply in_combine_r in H. exact H. Qed.
Lemma combine_seq_all {A} (l : list A) : forall a x, In x l -> exists i, In (i, x) (combine (seq a (length l)) l).
Proof.
  induction l as [|h t IH]; intros a x Hx; [destruct Hx|]. cbn [length seq combine].
  destruct Hx as [->|Hx]; [exists a; left; reflexivity|]. destruct (IH (S a) x Hx) as [i Hi]. exists i. right. exact Hi.
Qed.

Lemma pow10_nonneg k : (0 <= pow10 k)%Z.
Proof. unfold pow10. apply Z.pow_nonneg. lia. Qed.

Lemma climb_le stop lab n main : lab <> 0%Z -> forall fuel b cur, le_lab b (climb fuel n main stop lab b cur).
Proof.
  intros Hl. induction fuel as [|f IH]; intros b cur; cbn [climb]; [apply le_lab_refl|].
  destruct ((n <=? nth cur main n) || stop b (nth cur main n)); [apply le_lab_refl|].
  apply (le_lab_trans _ (upd b (nth cur main n) lab)); [apply le_lab_upd; exact Hl|apply IH].
Qed.

Definition allpos (lb : list (Z * Z)) : Prop := forall p d, In (p, d) lb -> (0 < p)%Z.

Section TermPfafLoop.
Variable ds : list nat.
Variable main : list nat.
Variable uparea : list Z.
Variable strord : list Z.
Variable trib : list nat.
Variable depth : Z.
Notation n := (length ds).
Hypothesis Htrib : forall idx, In idx trib -> idx < n.
Hypothesis Hnd : NoDup trib.
Notation ptrib := (pfaf_trib ds main strord depth).
Notation ploop := (pfaf_loop ds main uparea strord trib depth).

(* one tributary: labels only grow, the tributary cell is labelled, at most two positive labels are pushed *)
Lemma pfaf_trib_step d0 pfaf0 b ix lb pint i idx : (0 < pfaf0)%Z -> idx < n -> length b = n -> allpos lb ->
  forall b' ix' lb' pint', ptrib d0 pfaf0 (b, ix, lb, pint) (i, idx) = (b', ix', lb', pint') ->
  le_lab b b' /\ nth idx b' 0%Z <> 0%Z /\ length lb' <= length lb + 2 /\ allpos lb'.
Proof.
  intros Hp Hidx Hlen Hpos b' ix' lb' pint'. unfold pfaf_trib.
  set (psub := (pfaf0 + (Z.of_nat i * 2 + 1) * pow10 (depth - d0))%Z).
  set (pnt := (pfaf0 + (Z.of_nat i + 1) * 2 * pow10 (depth - d0))%Z).
  pose proof (pow10_nonneg (depth - d0)) as Hpw.
  assert (Hpsub : (0 < psub)%Z) by (unfold psub; nia).
  assert (Hpnt : (0 < pnt)%Z) by (unfold pnt; nia).
  set (b1 := climb n n main (stop_so strord) psub (upd b idx psub) idx).
  assert (H1 : le_lab (upd b idx psub) b1) by (apply climb_le; lia).
  assert (H01 : le_lab b b1) by (apply (le_lab_trans _ (upd b idx psub)); [apply le_lab_upd; lia|exact H1]).
  assert (Hi1 : nth idx b1 0%Z <> 0%Z) by (apply (proj2 H1); rewrite nth_upd_eq by lia; lia).
  set (lb1 := if (d0 <? depth)%Z then lb ++ [(psub, (d0 + 1)%Z)] else lb).
  assert (Hl1 : length lb1 <= length lb + 1 /\ allpos lb1).
  { unfold lb1. destruct (d0 <? depth)%Z; [|split; [lia|exact Hpos]]. split; [rewrite app_length; simpl; lia|].
    intros p d Hin. apply in_app_or in Hin. destruct Hin as [Hin|[Hin|[]]]; [apply (Hpos p d Hin)|inversion Hin; subst; exact Hpsub]. }
  destruct Hl1 as [Hl1 Hp1].
  destruct (negb (memb (nth (dsf ds idx) main n) (ix ++ [idx]))).
  - intros E. inversion E; subst b' ix' lb' pint'. clear E.
    set (b2 := climb n n main _ pnt (upd b1 (nth (dsf ds idx) main n) pnt) (nth (dsf ds idx) main n)).
    assert (H12 : le_lab b1 b2).
    { apply (le_lab_trans _ (upd b1 (nth (dsf ds idx) main n) pnt)); [apply le_lab_upd; lia|apply climb_le; lia]. }
    split; [apply (le_lab_trans _ b1); auto|]. split; [apply (proj2 H12); exact Hi1|].
    destruct (d0 <? depth)%Z; [|split; [lia|exact Hp1]]. split; [rewrite app_length; simpl; lia|].
    intros p d Hin. apply in_app_or in Hin. destruct Hin as [Hin|[Hin|[]]]; [apply (Hp1 p d Hin)|inversion Hin; subst; exact Hpnt].
  - intros E. inversion E; subst b' ix' lb' pint'. clear E.
    split; [exact H01|]. split; [exact Hi1|]. split; [lia|exact Hp1].
Qed.

Lemma pfaf_fold d0 pfaf0 : (0 < pfaf0)%Z -> forall l b ix lb pint, (forall p, In p l -> snd p < n) -> length b = n -> allpos lb ->
  forall b' ix' lb' pint', fold_left (ptrib d0 pfaf0) l (b, ix, lb, pint) = (b', ix', lb', pint') ->
  le_lab b b' /\ (forall p, In p l -> nth (snd p) b' 0%Z <> 0%Z) /\ length lb' <= length lb + 2 * length l /\ allpos lb'.
Proof.
  intros Hp. induction l as [|[i idx] l IH]; intros b ix lb pint Hl Hlen Hpos b' ix' lb' pint' E.
  - cbn [fold_left] in E. inversion E; subst. split; [apply le_lab_refl|]. split; [intros p []|]. split; [simpl; lia|exact Hpos].
  - cbn [fold_left] in E.
    destruct (ptrib d0 pfaf0 (b, ix, lb, pint) (i, idx)) as [[[b1 ix1] lb1] pint1] eqn:E1.
    assert (Hidx : idx < n) by (apply (Hl (i, idx)); left; reflexivity).
    destruct (pfaf_trib_step d0 pfaf0 b ix lb pint i idx Hp Hidx Hlen Hpos _ _ _ _ E1) as (A1 & A2 & A3 & A4).
    assert (Hlen1 : length b1 = n) by (destruct A1 as [A1 _]; lia).
    destruct (IH b1 ix1 lb1 pint1 (fun p H => Hl p (or_intror H)) Hlen1 A4 _ _ _ _ E) as (B1 & B2 & B3 & B4).
    split; [apply (le_lab_trans _ b1); auto|]. split; [|split; [cbn [length]; lia|exact B4]].
    intros p [<-|Hin]; [cbn [snd]; apply (proj2 B1); exact A2|apply B2; exact Hin].
Qed.

(* fuel >= potential: extra fuel changes nothing *)
Lemma pfaf_loop_fuel_gen : forall fuel b ix lb extra, length b = n -> allpos lb -> length lb + 2 * zc n b <= fuel ->
  ploop (fuel + extra) b ix lb = ploop fuel b ix lb.
Proof.
  induction fuel as [|f IH]; intros b ix lb extra Hlen Hpos Hm.
  - destruct lb as [|x lb]; [|simpl in Hm; lia]. cbn [Nat.add]. destruct extra; reflexivity.
  - cbn [Nat.add pfaf_loop]. destruct lb as [|[pfaf0 d0] lb]; [reflexivity|].
    assert (Hp0 : (0 < pfaf0)%Z) by (apply (Hpos pfaf0 d0); left; reflexivity).
    assert (Hpos' : allpos lb) by (intros p d H; apply (Hpos p d); right; exact H).
    cbn [length] in Hm.
    destruct (filter (fun idx => ((nth idx b 0 =? 0) && (nth (dsf ds idx) b 0 =? pfaf0))%Z) trib) as [|e0 rest] eqn:E0.
    + apply IH; auto. lia.
    + set (ordered := sort_desc (fun i => nth (dsf ds i) uparea 0%Z) (firstn 4 (sort_desc (fun i => nth i uparea 0%Z) (e0 :: rest)))).
      assert (Hin0 : forall x, In x ordered -> In x trib /\ nth x b 0%Z = 0%Z).
      { intros x Hx. unfold ordered in Hx. apply (Permutation_in _ (sort_desc_perm _ _)) in Hx.
        apply firstn_incl in Hx. apply (Permutation_in _ (sort_desc_perm _ _)) in Hx. rewrite <- E0 in Hx.
        apply filter_In in Hx. destruct Hx as [Hx Hb]. apply andb_true_iff in Hb. destruct Hb as [Hb _].
        apply Z.eqb_eq in Hb. split; auto. }
      assert (Hndo : NoDup ordered).
      { unfold ordered. apply (Permutation_NoDup (Permutation_sym (sort_desc_perm _ _))). apply firstn_NoDup.
        apply (Permutation_NoDup (Permutation_sym (sort_desc_perm _ _))). rewrite <- E0. apply NoDup_filter. exact Hnd. }
      destruct (fold_left (ptrib d0 pfaf0) (combine (seq 0 (length ordered)) ordered) (b, ix, lb, pfaf0))
        as [[[b' ix'] lb'] pint'] eqn:EF.
      destruct (pfaf_fold d0 pfaf0 Hp0 _ b ix lb pfaf0
                 (fun p H => Htrib _ (proj1 (Hin0 _ (combine_seq_snd ordered 0 p H)))) Hlen Hpos' _ _ _ _ EF) as (B1 & B2 & B3 & B4).
      assert (Hcl : length (combine (seq 0 (length ordered)) ordered) = length ordered)
        by (rewrite combine_length, seq_length; apply Nat.min_id).
      rewrite Hcl in B3.
      assert (Hz : zc n b' + length ordered <= zc n b).
      { apply zc_drop; auto. intros j Hj. destruct (Hin0 j Hj) as [Hjt Hjb]. split; [apply Htrib; exact Hjt|]. split; [exact Hjb|].
        destruct (combine_seq_all ordered 0 j Hj) as [i Hi]. apply (B2 (i, j) Hi). }
      apply IH; [destruct B1 as [B1 _]; lia|exact B4|lia].
Qed.

Lemma pfaf_loop_fuel b ix lb extra : length b = n -> allpos lb -> length lb <= 2 * n + 8 ->
  ploop (4 * n + 8 + extra) b ix lb = ploop (4 * n + 8) b ix lb.
Proof. intros Hlen Hpos Hl. apply pfaf_loop_fuel_gen; auto. pose proof (zc_le n b). lia. Qed.
End TermPfafLoop.

(* ---------- the public entry with a fuel parameter ---------- *)
Definition subbasins_pfafstetter_fuel (fuel : nat) (ds : list nat) (pits : list nat) (sq : list nat) (main : list nat)
           (uparea : list Z) (mask : option (list bool)) (depth : Z) : list Z * list nat :=
  let n := length ds in
  let so := map (fun v => if (v <=? depth + 1)%Z then v else 0%Z) (stream_order ds sq main mask) in
  let trib := filter (fun i => ((nth i so 0 >? 0) && (nth i so 0 >? nth (dsf ds i) so 0))%Z) sq in
  let pfaf_base := fold_left (fun acc d0 => (acc + pow10 (Z.of_nat d0))%Z) (seq 1 (Z.to_nat depth - 1)) 1%Z in
  let init := fold_left (fun (st : list Z * list nat * list (Z * Z)) (ip : nat * nat) =>
                let '(branch, idxs, labs) := st in
                let '(i, idx) := ip in
                let pfaf1 := (pfaf_base + (Z.of_nat i + 1) * pow10 depth)%Z in
                (climb n n main (stop_so so) pfaf1 (upd branch idx pfaf1) idx, idxs ++ [idx], labs ++ [(pfaf1, 1%Z)]))
              (combine (seq 0 (length pits)) pits) (repeat 0%Z n, [], []) in
  let '(branch0, idxs0, labs0) := init in
  let '(branch, idxs) := pfaf_loop ds main uparea so trib depth fuel branch0 idxs0 labs0 in
  (map (fun v => (v mod pow10 depth)%Z) (fillnodata_upstream ds sq branch 0%Z), idxs).

Lemma subbasins_pfafstetter_fuel_model ds pits sq main uparea mask depth :
  subbasins_pfafstetter_fuel (4 * length ds + 8) ds pits sq main uparea mask depth
  = subbasins_pfafstetter ds pits sq main uparea mask depth.
Proof. reflexivity. Qed.

Lemma base_pos l : forall acc, (0 < acc)%Z -> (0 < fold_left (fun acc d0 => (acc + pow10 (Z.of_nat d0))%Z) l acc)%Z.
Proof.
  induction l as [|d l IH]; intros acc Ha; cbn [fold_left]; [exact Ha|]. apply IH.
  pose proof (pow10_nonneg (Z.of_nat d)). lia.
Qed.

Lemma init_fold n main stop (g : list Z * list nat * list (Z * Z) -> nat * nat -> list Z * list nat * list (Z * Z)) :
  (forall b ix lb i idx, exists p, (0 < p)%Z /\
     g (b, ix, lb) (i, idx) = (climb n n main stop p (upd b idx p) idx, ix ++ [idx], lb ++ [(p, 1%Z)])) ->
  forall l b ix lb, length b = n -> allpos lb -> forall b' ix' lb', fold_left g l (b, ix, lb) = (b', ix', lb') ->
  length b' = n /\ allpos lb' /\ length lb' = length lb + length l.
Proof.
  intros Hg. induction l as [|[i idx] l IH]; intros b ix lb Hlen Hpos b' ix' lb' E; cbn [fold_left] in E.
  - inversion E; subst b' ix' lb'. split; [exact Hlen|]. split; [exact Hpos|simpl; lia].
  - destruct (Hg b ix lb i idx) as [p [Hp Eg]]. rewrite Eg in E.
    assert (Hl1 : length (climb n n main stop p (upd b idx p) idx) = n).
    { pose proof (climb_le stop p n main ltac:(lia) n (upd b idx p) idx) as [L _]. rewrite L, upd_length. exact Hlen. }
    assert (Hp1 : allpos (lb ++ [(p, 1%Z)])).
    { intros q d Hin. apply in_app_or in Hin. destruct Hin as [Hin|[Hin|[]]]; [apply (Hpos q d Hin)|inversion Hin; subst; exact Hp]. }
    destruct (IH _ _ _ Hl1 Hp1 _ _ _ E) as (A & B & C).
    split; [exact A|]. split; [exact B|]. rewrite C, app_length. simpl. lia.
Qed.

(* the fuel 4 n + 8 of subbasins_pfafstetter is never exhausted (sq a topological order, at most 2 n + 8 outlets given) *)
Theorem subbasins_pfafstetter_terminates ds sq : topo ds sq -> forall pits main uparea mask depth extra,
  length pits <= 2 * length ds + 8 ->
  subbasins_pfafstetter_fuel (4 * length ds + 8 + extra) ds pits sq main uparea mask depth
  = subbasins_pfafstetter ds pits sq main uparea mask depth.
Proof.
  intros Ht pits main uparea mask depth extra Hpits. rewrite <- subbasins_pfafstetter_fuel_model.
  unfold subbasins_pfafstetter_fuel. cbv zeta.
  match goal with |- context [fold_left ?g0 (combine (seq 0 (length pits)) pits) ?s0] => set (g := g0) end.
  destruct (fold_left g (combine (seq 0 (length pits)) pits) (repeat 0%Z (length ds), [], [])) as [[b0 ix0] lb0] eqn:EI.
  pose proof (init_fold (length ds) main (stop_so (map (fun v => if (v <=? depth + 1)%Z then v else 0%Z) (stream_order ds sq main mask))) g) as HI.
  assert (Hg : forall b ix lb i idx, exists p, (0 < p)%Z /\ g (b, ix, lb) (i, idx) =
            (climb (length ds) (length ds) main (stop_so (map (fun v => if (v <=? depth + 1)%Z then v else 0%Z) (stream_order ds sq main mask)))
                   p (upd b idx p) idx, ix ++ [idx], lb ++ [(p, 1%Z)])).
  { intros b ix lb i idx. eexists. split; [|reflexivity].
    pose proof (base_pos (seq 1 (Z.to_nat depth - 1)) 1%Z ltac:(lia)). pose proof (pow10_nonneg depth). nia. }
  destruct (HI Hg _ _ _ _ (repeat_length 0%Z (length ds)) (fun p d (H : In (p, d) []) => match H with end) _ _ _ EI) as (A & B & C).
  rewrite pfaf_loop_fuel; [reflexivity| | |exact A|exact B|].
  - intros idx Hin. apply filter_In in Hin. destruct Hin as [Hin _]. destruct (topo_valid ds sq idx Ht Hin) as [H _]. exact H.
  - apply NoDup_filter. apply (topo_NoDup ds sq Ht).
  - rewrite C, combine_length, seq_length, Nat.min_id. simpl. exact Hpits.
Qed.

(* satisfiable: 0 pit; 1 -> 0; 2 -> 1; 3 -> 1; 4 -> 3; main upstream 0 <- 1 <- 3 <- 4 *)
Example pfaf_example :
  topo [0;0;1;1;3] [0;1;2;3;4] /\
  subbasins_pfafstetter_fuel 1000 [0;0;1;1;3] [0] [0;1;2;3;4] [1;3;5;4;5] [5;4;1;2;1]%Z None 1
  = subbasins_pfafstetter [0;0;1;1;3] [0] [0;1;2;3;4] [1;3;5;4;5] [5;4;1;2;1]%Z None 1 /\
  fst (subbasins_pfafstetter [0;0;1;1;3] [0] [0;1;2;3;4] [1;3;5;4;5] [5;4;1;2;1]%Z None 1) <> [0;0;0;0;0]%Z.
Proof. split; [apply check_topo_sound; vm_compute; reflexivity|]. split; [vm_compute; reflexivity|vm_compute; discriminate]. Qed.

Print Assumptions pfaf_loop_fuel_gen.
Print Assumptions pfaf_loop_fuel.
Print Assumptions subbasins_pfafstetter_terminates.
