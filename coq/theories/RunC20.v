From Coq Require Import List Arith ZArith Bool.
Import ListNotations.
From PF Require Import Arr Spread Glue RunC03.
Local Open Scope Z_scope.
Definition run_c20 (k : Z) (args : list (list Z)) : list (list Z) :=
  if k =? 2000 then [[0]]
  else if k =? 2001 then
    let frc := if argz 6 args =? 0 then None else Some (arg 7 args) in
    let '(o, s, d) := spread2d (argn 0 args) (argn 1 args) (arg 2 args) (mask_opt (argz 3 args) (arg 4 args)) (argz 5 args) frc
                               (nth 0 (arg 8 args) 1) (nth 1 (arg 8 args) 1) (nth 2 (arg 8 args) 1) in [o; s; d]
  else if k =? 2002 then
    (* region_dissolve: nrow, ncol, regions, labels, has-locations, locations, (dx, dy, diagonal) *)
    [region_dissolve (argn 0 args) (argn 1 args) (arg 2 args) (arg 3 args)
                     (if argz 4 args =? 0 then None else Some (ns (arg 5 args)))
                     (nth 0 (arg 6 args) 1) (nth 1 (arg 6 args) 1) (nth 2 (arg 6 args) 1)]
  else [[-999]].
