(* Pfafstetter main stem, part A: arithmetic of the digit relation between the labels of neighbouring sub-basins. *)
From Coq Require Import List Arith ZArith Bool Lia.
Import ListNotations.
From PF Require Import Arr Net SweepDown Fill FillSpec Rank Stream Subbas PfafDigits.
Local Open Scope Z_scope.

(* the part of a label above digit position q *)
Definition hi (q v : Z) : Z := v / 10 ^ (q + 1).

(* x: label of the downstream cell, y: label of the outlet above it; they agree above position q, where the
   downstream digit is odd (an interbasin) and the outlet digit is a larger odd digit (next interbasin, main = true)
   or an even digit (a tributary sub-basin, main = false) *)
Definition Rel (m : bool) (q x y : Z) : Prop :=
  hi q x = hi q y /\ Z.odd (digit q x) = true /\
  (if m then Z.odd (digit q y) = true /\ digit q x < digit q y else Z.even (digit q y) = true).

Lemma hi_add q0 q v c : 0 <= q0 <= q -> digit q0 v = 1 -> 0 <= c <= 8 -> hi q (v + c * 10 ^ q0) = hi q v.
Proof.
  intros H Hd Hc. unfold hi, digit in *.
  assert (HA : 0 < 10 ^ q0) by (apply pow10_pos; lia).
  rewrite (pow10_split q0 (q + 1)) by lia. rewrite (Z.mul_comm (10 ^ (q + 1 - q0))).
  rewrite <- !Z.div_div by (try lia; apply pow10_pos; lia).
  rewrite Z.div_add by lia.
  set (w := v / 10 ^ q0) in *.
  replace (10 ^ (q + 1 - q0)) with (10 * 10 ^ (q - q0)) by (rewrite <- Z.pow_succ_r by lia; f_equal; lia).
  rewrite <- !Z.div_div by (try lia; apply pow10_pos; lia).
  f_equal.
  pose proof (Z.div_mod w 10 ltac:(lia)) as Hw. rewrite Hd in Hw.
  rewrite Hw at 1. replace (10 * (w / 10) + 1 + c) with ((1 + c) + (w / 10) * 10) by ring.
  rewrite Z.div_add by lia. rewrite (Z.div_small (1 + c)) by lia. lia.
Qed.

Lemma hi_digit q p x y : 0 <= q < p -> hi q x = hi q y -> digit p x = digit p y.
Proof.
  intros H E. unfold hi, digit in *.
  rewrite (pow10_split (q + 1) p) by lia. rewrite (Z.mul_comm (10 ^ (p - (q + 1)))).
  rewrite <- !Z.div_div by (try lia; apply pow10_pos; lia).
  rewrite E. reflexivity.
Qed.

(* x / 10^q = 10 * hi q x + digit q x *)
Lemma hi_digit_split q x : 0 <= q -> x / 10 ^ q = 10 * hi q x + digit q x.
Proof.
  intros Hq. unfold hi, digit. rewrite Z.pow_add_r by lia. rewrite Z.pow_1_r.
  rewrite <- Z.div_div by (try lia; apply pow10_pos; lia).
  apply Z.div_mod. lia.
Qed.

Lemma rel_range q x y : 0 <= q -> hi q x = hi q y -> digit q x < digit q y -> x < y < x + 10 ^ (q + 1).
Proof.
  intros Hq E Hlt.
  pose proof (pow10_pos q Hq) as HP.
  pose proof (hi_digit_split q x Hq) as Hx. pose proof (hi_digit_split q y Hq) as Hy.
  rewrite E in Hx.
  assert (Hdx : 0 <= digit q x < 10) by (unfold digit; apply Z.mod_pos_bound; lia).
  assert (Hdy : 0 <= digit q y < 10) by (unfold digit; apply Z.mod_pos_bound; lia).
  pose proof (Z.div_mod x (10 ^ q) ltac:(lia)) as Mx. pose proof (Z.mod_pos_bound x (10 ^ q) HP) as Bx.
  pose proof (Z.div_mod y (10 ^ q) ltac:(lia)) as My. pose proof (Z.mod_pos_bound y (10 ^ q) HP) as By.
  replace (10 ^ (q + 1)) with (10 * 10 ^ q) by (rewrite Z.pow_add_r by lia; rewrite Z.pow_1_r; ring).
  set (P := 10 ^ q) in *. set (h := hi q y) in *.
  set (dx := digit q x) in *. set (dy := digit q y) in *.
  rewrite Hx in Mx. rewrite Hy in My.
  split; nia.
Qed.

Lemma rel_change_x m q x x' y : hi q x = hi q x' -> digit q x = digit q x' -> Rel m q x y -> Rel m q x' y.
Proof.
  intros E1 E2 (R1 & R2 & R3). unfold Rel. rewrite <- E1, <- E2. split; [exact R1|]. split; [exact R2|exact R3].
Qed.

Lemma rel_lt m q x y depth : 0 <= q < depth -> good depth y -> Rel m q x y -> digit q x = 1 -> digit q x < digit q y.
Proof.
  intros Hq [_ Hg] (R1 & R2 & R3) Hd. destruct m; [apply R3|].
  specialize (Hg q Hq). rewrite Hd.
  destruct (Z.eq_dec (digit q y) 1) as [E|E]; [rewrite E in R3; discriminate|lia].
Qed.

(* digits of pfaf0 + k * 10^q0 *)
Lemma Zodd_1_2j j : Z.odd (1 + 2 * j) = true.
Proof. rewrite Z.odd_add_mul_2. reflexivity. Qed.
Lemma Zeven_2j j : Z.even (2 * j) = true.
Proof. rewrite Z.even_mul. reflexivity. Qed.

(* the filled value of an unseeded cell is the filled value of its downstream cell *)
Lemma fill_step ds sq (branch : list Z) i : topo ds sq -> length branch = length ds -> In i sq ->
  nth i branch 0 = 0 -> dsf ds i <> i ->
  nth i (fillnodata_upstream ds sq branch 0) 0 = nth (dsf ds i) (fillnodata_upstream ds sq branch 0) 0.
Proof.
  intros Ht Hlen Hi Hz Hnp.
  destruct (sweep_down_spec ds 0 (fill_f 0) sq branch Hlen Ht) as [H1 _].
  unfold fillnodata_upstream.
  pose proof (H1 i Hi) as Vi.
  destruct (val_inv_step ds 0 (fill_f 0) branch i _ Vi Hnp) as (v' & Vd & E).
  pose proof (H1 (dsf ds i) (topo_closed ds sq i Ht Hi)) as Vd'.
  rewrite (val_fun ds 0 (fill_f 0) branch (dsf ds i) _ _ Vd' Vd).
  rewrite E. unfold fill_f. rewrite Hz. cbn [Z.eqb andb].
  destruct (Z.eqb_spec v' 0) as [E0|E0]; cbn [negb]; [symmetry; exact E0|reflexivity].
Qed.
