(* subgrid.ucat_area, REGENERATED from the Python source (two loops: seeding the outlet pixels, then the sweep over the
   cell order), equals the hand-written model Ucat.ucat_area that the theorems of C10 are about. *)
From Coq Require Import List Arith ZArith Bool Lia.
Import ListNotations.
From PF Require Import Arr Net Ucat AccuSpec.
From PFG Require Import GenLoops.
Local Open Scope Z_scope.

Lemma firstn_snoc {A} (l : list A) k d : (k < length l)%nat -> firstn (S k) l = firstn k l ++ [nth k l d].
Proof.
  revert k. induction l as [|a l IH]; intros k Hk; [simpl in Hk; lia|].
  destruct k as [|k]; [reflexivity|]. cbn [firstn nth app]. f_equal. apply IH. simpl in Hk. lia.
Qed.

Lemma combine_snoc {A B} (l1 : list A) (l2 : list B) a b : length l1 = length l2 ->
  combine (l1 ++ [a]) (l2 ++ [b]) = combine l1 l2 ++ [(a, b)].
Proof.
  revert l2. induction l1 as [|x l1 IH]; intros [|y l2] H; try discriminate; [reflexivity|].
  cbn [app combine]. f_equal. apply IH. simpl in H. lia.
Qed.

Lemma upd_app_mid (l1 : list Z) v w l2 k : length l1 = k -> upd (l1 ++ w :: l2) k v = l1 ++ v :: l2.
Proof. intros <-. induction l1 as [|a l1 IH]; cbn [app length upd]; [reflexivity|]. f_equal. exact IH. Qed.

Section Seed.
Variable outs ds : list nat.
Variable sq : list nat.
Variable area : list Z.
Notation n := (length ds).
Notation L := (length outs).
Notation F := (fun (a : list Z) (p : nat * nat) => if (snd p <? n)%nat then upd a (snd p) (Z.of_nat (fst p) + 1) else a).
Notation f := (fun o : nat => if (o <? n)%nat then nth o area 0 else -9999).

Lemma seed_inv k : (k <= L)%nat ->
  fold_left (gen_ucat_area_step1 outs ds sq area) (seq 0 k) (repeat 0 n, repeat (-9999) L) =
  (fold_left F (combine (seq 0 k) (firstn k outs)) (repeat 0 n), map f (firstn k outs) ++ repeat (-9999) (L - k)).
Proof.
  induction k as [|k IH]; intros Hk.
  - cbn [seq fold_left firstn combine map app]. rewrite Nat.sub_0_r. reflexivity.
  - rewrite seq_S, fold_left_app, IH by lia. cbn [fold_left Nat.add].
    rewrite (firstn_snoc outs k n) by lia. rewrite combine_snoc by (rewrite seq_length, firstn_length; lia).
    rewrite fold_left_app. cbn [fold_left fst snd]. rewrite map_app. cbn [map].
    unfold gen_ucat_area_step1.
    replace (L - k)%nat with (S (L - S k)) by lia. cbn [repeat].
    destruct (Nat.ltb_spec (nth k outs n) n) as [Hv|Hm].
    + assert (Hl : (n <=? nth k outs n)%nat = false) by (apply Nat.leb_gt; exact Hv). rewrite Hl. cbn [negb].
      f_equal.
      rewrite upd_app_mid by (rewrite map_length, firstn_length; lia). rewrite <- app_assoc. reflexivity.
    + assert (Hl : (n <=? nth k outs n)%nat = true) by (apply Nat.leb_le; exact Hm). rewrite Hl. cbn [negb].
      rewrite <- app_assoc. reflexivity.
Qed.
End Seed.

Theorem gen_ucat_area_eq outs ds sq area : gen_ucat_area outs ds sq area = ucat_area ds outs sq area.
Proof.
  unfold gen_ucat_area, ucat_area. cbv zeta.
  rewrite (seed_inv outs ds sq area (length outs) (le_n _)).
  rewrite firstn_all, Nat.sub_diag. cbn [repeat]. rewrite app_nil_r.
  unfold ucat_seed, ucat_area0.
  apply fold_ext. intros [m a] i. unfold gen_ucat_area_step2, ucat_step.
  change (nth i ds (length ds)) with (dsf ds i). reflexivity.
Qed.
