(* C18: closure clause of the Pfafstetter sub-basin map (basins.subbasins_pfafstetter). *)
From Coq Require Import List Arith ZArith Bool Lia.
Import ListNotations.
From PF Require Import Arr Net SweepDown Fill FillSpec Rank Stream StreamSpec Subbas PfafDigits.
From PF Require Import PfafClosureA PfafClosureB PfafClosureC PfafClosureD PfafClosureE PfafClosureF.
Local Open Scope Z_scope.

(* ---------- the main upstream cell really is a direct upstream cell ---------- *)
Lemma main_upstream_length ds uparea upa_min : length (main_upstream ds uparea upa_min) = length ds.
Proof.
  unfold main_upstream. destruct (main_fold_ok ds uparea upa_min (length ds) (le_n _)) as (H & _). exact H.
Qed.

Lemma main_HM ds uparea upa_min : let main := main_upstream ds uparea upa_min in
  forall x, (nth x main (length ds) < length ds)%nat ->
  dsf ds (nth x main (length ds)) = x /\ nth x main (length ds) <> x.
Proof.
  intros main x Hlt.
  destruct (Nat.lt_ge_cases x (length ds)) as [Hx|Hx].
  - destruct (main_upstream_spec ds uparea upa_min x Hx) as [[E _]|(_ & H1 & H2 & _)].
    + fold main in E. unfold size in E. lia.
    + fold main in H1, H2. unfold size in H1, H2. split; assumption.
  - exfalso. unfold main in Hlt. rewrite nth_overflow in Hlt; [lia|]. rewrite main_upstream_length. exact Hx.
Qed.

(* a cell with an upstream cell of positive area has a main upstream cell *)
Lemma main_exists ds uparea t : (t < length ds)%nat -> (dsf ds t < length ds)%nat -> dsf ds t <> t ->
  0 < nth t uparea 0 -> (nth (dsf ds t) (main_upstream ds uparea 0) (length ds) < length ds)%nat.
Proof.
  intros Ht Hd Hnp Hpos.
  destruct (main_upstream_spec ds uparea 0 (dsf ds t) Hd) as [[_ H]|(H & _)].
  - exfalso. specialize (H t Ht eq_refl ltac:(congruence)). lia.
  - exact H.
Qed.

(* ---------- tributaries (by classic stream order) are never main upstream cells ---------- *)
Definition cut (depth v : Z) : Z := if v <=? depth + 1 then v else 0.

Lemma trib_not_main ds sq main mask depth t : topo ds sq ->
  let so := map (cut depth) (stream_order ds sq main mask) in
  In t sq -> nth t so 0 > 0 -> nth t so 0 > nth (dsf ds t) so 0 ->
  dsf ds t <> t /\ nth (dsf ds t) main (length ds) <> t.
Proof.
  intros Ht so Hin Hpos Hgt.
  assert (Hc0 : cut depth 0 = 0) by (unfold cut; destruct (0 <=? depth + 1); reflexivity).
  unfold so in Hpos, Hgt. rewrite !(nth_map0 (cut depth)) in * by exact Hc0.
  set (O := stream_order ds sq main mask) in *.
  assert (Hnp : dsf ds t <> t) by (intros E; rewrite E in Hgt; lia).
  split; [exact Hnp|]. intros Em.
  destruct (classic_spec ds sq mask main Ht t) as (_ & C2 & C3 & _). fold O in C2, C3.
  destruct (mget mask t) eqn:Emask.
  - specialize (C2 Hin eq_refl Hnp). rewrite Em, Nat.eqb_refl in C2. cbn [negb] in C2. rewrite andb_false_r in C2.
    rewrite C2 in Hgt. lia.
  - specialize (C3 Hin eq_refl). rewrite C3, Hc0 in Hpos. lia.
Qed.

(* ---------- the labels seeded at the pits have digits 1-9 (as in PfafDigits) ---------- *)
Lemma pit_fold_ok n main so depth : 1 <= depth ->
  forall (l : list (nat * nat)) st, allok depth (fst (fst st)) -> labsok depth (snd st) ->
  let r := fold_left (pit_step n main so depth (ones (Z.to_nat depth))) l st in
  allok depth (fst (fst r)) /\ labsok depth (snd r).
Proof.
  intros Hdepth. induction l as [|[i idx] l IH]; intros [[branch idxs] labs] Hb Hl; cbn [fold_left]; [split; auto|].
  cbn [fst snd] in Hb, Hl. apply IH; unfold pit_step; cbn [fst snd].
  - assert (G : good depth (ones (Z.to_nat depth) + (Z.of_nat i + 1) * pow10 depth)).
    { split; [pose proof (ones_bound (Z.to_nat depth)); pose proof (pow10_pos depth ltac:(lia)); unfold pow10; nia|].
      intros p Hp. unfold pow10. rewrite digit_add_low by lia. rewrite ones_digit by lia. lia. }
    apply climb_ok; [right; exact G|apply allok_upd; [exact Hb|right; exact G]].
  - apply labsok_app; [exact Hl|]. apply labsok_one; [lia|]. split.
    + split; [pose proof (ones_bound (Z.to_nat depth)); pose proof (pow10_pos depth ltac:(lia)); unfold pow10; nia|].
      intros p Hp. unfold pow10. rewrite digit_add_low by lia. rewrite ones_digit by lia. lia.
    + intros p Hp. unfold pow10. rewrite digit_add_low by lia. rewrite ones_digit by lia. reflexivity.
Qed.

Lemma good_mod_nz depth v : 1 <= depth -> good depth v -> v mod 10 ^ depth <> 0.
Proof.
  intros Hd [Hv Hg] E. specialize (Hg 0 ltac:(lia)).
  rewrite <- (digit_mod depth v 0) in Hg by lia. rewrite E in Hg. unfold digit in Hg. cbn in Hg. lia.
Qed.

(* ---------- the closure clause ---------- *)
Theorem pfaf_closure : forall ds pits sq uparea mask depth,
  topo ds sq -> (forall c, valid ds c -> In c sq) -> 1 <= depth -> NoDup pits ->
  (forall p, In p pits -> In p sq /\ dsf ds p = p) ->
  (forall c, In c sq -> 0 < nth c uparea 0) ->
  (forall c, In c sq -> dsf ds c <> c -> nth c uparea 0 < nth (dsf ds c) uparea 0) ->
  let main := main_upstream ds uparea 0 in
  let r := subbasins_pfafstetter ds pits sq main uparea mask depth in
  let L := fst r in let idxs := snd r in
  (forall o, In o idxs -> In o sq /\ nth o L 0 <> 0) /\
  (forall i, In i sq -> exists m,
     (forall j, (j < m)%nat -> ~ In (iter ds j i) idxs /\ dsf ds (iter ds j i) <> iter ds j i) /\
     ((In (iter ds m i) idxs /\ nth i L 0 = nth (iter ds m i) L 0) \/
      (~ In (iter ds m i) idxs /\ dsf ds (iter ds m i) = iter ds m i /\ nth i L 0 = 0))).
Proof.
  intros ds pits sq uparea mask depth Ht Hcomp Hdepth Hndp Hpits Hpos Hmono main r L idxs.
  unfold idxs, L, r, subbasins_pfafstetter. clear idxs L r.
  set (n := length ds).
  set (so := map (fun v => if v <=? depth + 1 then v else 0) (stream_order ds sq main mask)).
  set (trib := filter (fun i => (nth i so 0 >? 0) && (nth i so 0 >? nth (dsf ds i) so 0)) sq).
  set (pfaf_base := fold_left (fun acc d0 => acc + pow10 (Z.of_nat d0)) (seq 1 (Z.to_nat depth - 1)) 1).
  assert (Hbase : pfaf_base = ones (Z.to_nat depth)).
  { unfold pfaf_base. rewrite (fold_ones (Z.to_nat depth - 1) 1 1) by (cbn; reflexivity). f_equal. lia. }
  clearbody pfaf_base. subst pfaf_base.
  (* the hypotheses of the abstract development *)
  set (rk := fun c : nat => pos c sq).
  assert (Hval : forall c, (c < n)%nat -> (dsf ds c < n)%nat -> In c sq)
    by (intros c H1 H2; apply Hcomp; split; assumption).
  assert (Hrk : forall c, (c < n)%nat -> (dsf ds c < n)%nat -> dsf ds c <> c -> (rk (dsf ds c) < rk c)%nat).
  { intros c H1 H2 H3. unfold rk. apply (topo_pos ds sq c Ht); [apply Hval; assumption|exact H3]. }
  assert (Hrkn : forall c, (c < n)%nat -> (dsf ds c < n)%nat -> (rk c < n)%nat).
  { intros c H1 H2. unfold rk. pose proof (pos_lt c sq (Hval c H1 H2)). pose proof (topo_length ds sq Ht). unfold n. lia. }
  pose proof (main_HM ds uparea 0) as HM. cbv zeta in HM. fold main in HM. fold n in HM.
  assert (Hua : forall c, (c < n)%nat -> (dsf ds c < n)%nat -> dsf ds c <> c -> nth c uparea 0 < nth (dsf ds c) uparea 0).
  { intros c H1 H2 H3. apply Hmono; [apply Hval; assumption|exact H3]. }
  assert (HT : forall t, In t trib -> (t < n)%nat /\ (dsf ds t < n)%nat /\ dsf ds t <> t /\
                nth (dsf ds t) main n <> t /\ (nth (dsf ds t) main n < n)%nat).
  { intros t Hin. unfold trib in Hin. apply filter_In in Hin. destruct Hin as [Hs Hc].
    apply andb_true_iff in Hc. destruct Hc as [C1 C2]. apply Z.gtb_lt in C1. apply Z.gtb_lt in C2.
    destruct (topo_valid ds sq t Ht Hs) as [V1 V2]. unfold size in V1, V2.
    destruct (trib_not_main ds sq main mask depth t Ht Hs ltac:(apply Z.lt_gt; exact C1) ltac:(apply Z.lt_gt; exact C2)) as [N1 N2].
    split; [exact V1|]. split; [exact V2|]. split; [exact N1|]. split; [exact N2|].
    apply main_exists; [exact V1|exact V2|exact N1|apply Hpos; exact Hs]. }
  assert (HTnd : NoDup trib) by (unfold trib; apply NoDup_filter; apply (topo_NoDup ds); exact Ht).
  (* the pit loop *)
  set (init := fold_left _ (combine (seq 0 (length pits)) pits) (repeat 0 n, [], [])).
  assert (Einit : init = fold_left (pit_step n main so depth (ones (Z.to_nat depth)))
                           (combine (seq 0 (length pits)) pits) (repeat 0 n, [], [])) by reflexivity.
  assert (Hp' : forall p, In p pits -> (p < n)%nat /\ dsf ds p = p).
  { intros p Hp. destruct (Hpits p Hp) as [H1 H2]. split; [|exact H2].
    destruct (topo_valid ds sq p Ht H1) as [V1 _]. exact V1. }
  pose proof (pit_fold_inv ds main so HM depth Hdepth (ones (Z.to_nat depth)) (proj1 (ones_bound _))
                pits 0%nat (repeat 0 n) [] [] Hndp (pinv_init ds main depth _ pits Hp')) as HL.
  pose proof (pit_fold_ok n main so depth Hdepth (combine (seq 0 (length pits)) pits) (repeat 0 n, [], [])
                (allok_repeat depth n) ltac:(intros pf d0 [])) as HOK.
  cbv zeta in HL, HOK. fold n in HL. rewrite <- Einit in HL, HOK. clear Einit.
  destruct init as [[branch0 idxs0] labs0]. cbn [fst snd] in HL, HOK. destruct HOK as [Hb0 Hl0].
  (* the work loop *)
  pose proof (pfaf_loop_inv ds main so rk Hrk Hrkn HM uparea Hua trib HT HTnd depth (4 * n + 8) branch0 idxs0 labs0 HL) as HI.
  pose proof (pfaf_loop_ok ds main uparea so trib depth (4 * n + 8) branch0 idxs0 labs0 Hb0 Hl0) as Hgood.
  destruct (pfaf_loop ds main uparea so trib depth (4 * n + 8) branch0 idxs0 labs0) as [branch idxs].
  cbn [fst snd] in HI, Hgood |- *.
  (* from (A) and (B) to the closure statement *)
  assert (Hlen : length branch = length ds) by (apply (inv_len _ _ _ _ HI)).
  assert (HA : forall c, In c sq -> lab branch c <> 0 ->
            In c idxs \/ (dsf ds c <> c /\ lab branch (dsf ds c) = lab branch c)).
  { intros c Hc Hl. destruct (in_dec Nat.eq_dec c idxs) as [Y|N]; [left; exact Y|right].
    destruct (topo_valid ds sq c Ht Hc) as [V1 _].
    destruct (inv1 _ _ _ _ HI c V1 Hl N) as (_ & A2 & A3). split; assumption. }
  assert (HB : forall o, In o idxs -> In o sq /\ lab branch o <> 0).
  { intros o Ho. destruct (inv2 _ _ _ _ HI o Ho) as (B1 & B2 & B3). split; [|exact B2].
    apply Hval; [exact B1|]. pose proof (lab_lt branch (dsf ds o) B3) as H. rewrite Hlen in H. exact H. }
  pose proof (pow10_pos depth ltac:(lia)) as HD.
  assert (Hmod0 : (fun v : Z => v mod pow10 depth) 0 = 0) by (cbv beta; apply Z.mod_0_l; unfold pow10; lia).
  split.
  - intros o Ho. destruct (closure_AB_outlets ds sq branch idxs Ht Hlen HB o Ho) as (C1 & C2 & C3).
    split; [exact C1|]. rewrite (nth_map0 (fun v => v mod pow10 depth)) by exact Hmod0. cbv beta. rewrite C2.
    destruct (Hgood o) as [E|G]; [contradiction|]. unfold pow10. apply good_mod_nz; assumption.
  - intros i Hi. destruct (closure_AB ds sq branch idxs Ht Hlen HA HB i Hi) as (m & M1 & M2).
    exists m. split; [exact M1|]. rewrite !(nth_map0 (fun v => v mod pow10 depth)) by exact Hmod0. cbv beta.
    destruct M2 as [[M2 M3]|(M2 & M3 & M4)].
    + left. split; [exact M2|]. rewrite M3. reflexivity.
    + right. split; [exact M2|]. split; [exact M3|]. rewrite M4. apply Z.mod_0_l. unfold pow10. lia.
Qed.
Print Assumptions pfaf_closure.

(* non-vacuity: the hypotheses hold on the network with two nested confluences of props/C18.v *)
Example pfaf_closure_example :
  let ds := [0;0;0;1;1;2;2;3;3]%nat in let upa := [9;5;3;3;1;1;1;1;1] in let sq := seq 0 9 in
  let r := subbasins_pfafstetter ds [0%nat] sq (main_upstream ds upa 0) upa None 2 in
  r = ([11; 31; 21; 51; 41; 23; 22; 71; 61], [0; 2; 1; 4; 3; 8; 7; 6; 5]%nat) /\
  (forall o, In o (snd r) -> In o sq /\ nth o (fst r) 0 <> 0) /\
  (forall i, In i sq -> exists m,
     (forall j, (j < m)%nat -> ~ In (iter ds j i) (snd r) /\ dsf ds (iter ds j i) <> iter ds j i) /\
     ((In (iter ds m i) (snd r) /\ nth i (fst r) 0 = nth (iter ds m i) (fst r) 0) \/
      (~ In (iter ds m i) (snd r) /\ dsf ds (iter ds m i) = iter ds m i /\ nth i (fst r) 0 = 0))).
Proof.
  intros ds upa sq r. split; [vm_compute; reflexivity|].
  apply (pfaf_closure ds [0%nat] sq upa None 2).
  - apply check_topo_sound. vm_compute. reflexivity.
  - apply check_complete_sound. vm_compute. reflexivity.
  - lia.
  - constructor; [intros []|constructor].
  - intros p [<-|[]]. split; [left; reflexivity|reflexivity].
  - intros c Hc. unfold sq in Hc. cbn [seq] in Hc.
    repeat (destruct Hc as [<-|Hc]; [vm_compute; reflexivity|]). destruct Hc.
  - intros c Hc Hnp. unfold sq in Hc. cbn [seq] in Hc.
    repeat (destruct Hc as [<-|Hc]; [try (vm_compute; reflexivity); exfalso; apply Hnp; reflexivity|]). destruct Hc.
Qed.
