(* ihu: the generated driver gen_ihu_ihu with the GENERATED gen_ihu_ihu_relocate_outlets plugged in as its parameter `relocate`.

   1. Section Drv / gen_ihu_ihu_eq_len / gen_ihu_ihu_up_ihu_len are the theorems of GenIhuDrvEq.v with the hypothesis on `reloc`
      WEAKENED to index arrays of the right length (`length cds = nc ->`): the driver calls relocate only with such arrays
      (the proofs are those of GenIhuDrvEq.v, copied; one `rewrite Hreloc` takes the length proof).  This is needed because the
      generated relocate reads idxs_ds with the default `length idxs_ds` and the model with nc.
   2. gen_ihu_ihu_closed: the conclusion of gen_ihu_ihu_up_ihu for gen_ihu_ihu (...) (gen_ihu_ihu_relocate_outlets (S nsub)),
      WITHOUT a hypothesis on the generated relocate.  What remains is PassFuel, a statement about the MODEL alone: the model
      gives the loop `while len(bottleneck) > nbottlenecks` the fuel S (S (S nc)) (Ihu.rl_one), the generated function has one
      fuel parameter (S nsub for every loop), and the two agree when the number of passes stays below both bounds (the model
      then never sets its error flag for this reason; IhuFuel.rl_passes_OKB proves that for loop-free closed fine networks). *)
From Coq Require Import List Arith ZArith Bool Lia.
Import ListNotations.
From PF Require Import Arr Net Elev Upscale D8Idx Ihu GenCodecBaseEq GenUpscaleBaseEq GenUpscaleRepEq GenUpscaleWalkEq GenUpscaleIhuEq
        GenIhuBaseEq GenIhuCheckEq GenIhuNewEq GenIhuOptEq GenIhuMinA GenIhuMinB GenIhuMinC GenIhuMinEq GenIhuDrvA GenIhuDrvEq
        GenIhuRelModel GenIhuRelEq.
From PFG Require Import GenUpscale GenIhu.

Section Drv.
Variable sds : list nat.
Variable upa : list Z.
Variable subnrow : Z.
Variables subncol cs nrow ncol : nat.
Variable reloc : list nat -> list nat -> list nat -> list nat -> list Z -> Z * Z -> Z * Z -> Z -> option (list nat * list nat * list nat).
Variable rfix : list nat -> list nat -> list nat -> list nat.
Notation nc := (nrow * ncol).
Hypothesis Hnomv : nomv_cell sds subncol cs ncol.
Hypothesis Hnc : (Z.of_nat nc <= 2147483648)%Z.
Hypothesis Hreloc : forall fixl cds out, length cds = nc ->
  reloc fixl cds out sds upa (subnrow, Z.of_nat subncol) (Z.of_nat nrow, Z.of_nat ncol) (Z.of_nat cs)
  = (let a' := relocate sds upa subncol cs nrow ncol fixl (mkA cds out [] 0) in
     if (a_err a' =? 0)%nat then Some (a_cds a', a_out a', rfix fixl cds out) else None).

(* the body of one iteration of the model, after relocate *)
Definition ib_c (a1 : A) : Chk := upscale_check sds cs nrow ncol (a_out a1) (a_cds a1).
Definition ib_last (j : nat) (a1 : A) (fixl : list nat) : bool :=
  (length (c_fix (ib_c a1)) =? 0) || (length (c_fix (ib_c a1)) =? length fixl) || (j + 1 =? 5).
Definition ib_a2 (a1 : A) : A :=
  mkA (a_cds a1) (a_out a1) (c_st (ib_c a1))
      (if c_ok (ib_c a1) then a_err a1 else if a_err a1 =? 0 then 1 else a_err a1).
Definition ib_a4 (j : nat) (a1 : A) (fixl : list nat) : A :=
  minimize_error sds upa subncol cs nrow ncol (c_fix (ib_c a1)) (if ib_last j a1 fixl then 2 else 0)
    (optimize_rivlen sds upa subncol cs nrow ncol (c_valid (ib_c a1)) (c_short (ib_c a1)) (ib_a2 a1)).

Lemma ihu_iter_S n j a fixl :
  ihu_iter sds upa subncol cs nrow ncol (S n) j a fixl
  = (let a1 := relocate sds upa subncol cs nrow ncol fixl a in
     if ib_last j a1 fixl then ib_a4 j a1 fixl
     else ihu_iter sds upa subncol cs nrow ncol n (S j) (ib_a4 j a1 fixl) (c_fix (ib_c a1))).
Proof. reflexivity. Qed.

Lemma ib_a4_strip j st a1 fixl : ib_a4 j (strip st a1) fixl = ib_a4 j a1 fixl.
Proof. reflexivity. Qed.
Lemma ib_last_strip j st a1 fixl : ib_last j (strip st a1) fixl = ib_last j a1 fixl.
Proof. reflexivity. Qed.
Lemma ib_c_strip st a1 : ib_c (strip st a1) = ib_c a1.
Proof. reflexivity. Qed.

Lemma relocate_st0 fixl a : a_err a = 0 ->
  relocate sds upa subncol cs nrow ncol fixl a
  = strip (a_st a) (relocate sds upa subncol cs nrow ncol fixl (mkA (a_cds a) (a_out a) [] 0)).
Proof.
  intros E. rewrite <- relocate_strip. f_equal. destruct a as [c o s e]. cbn in *. subst e. reflexivity.
Qed.

(* stickiness of the error flag *)
Lemma om_sticky valid short fix1 poc a2 : a_err a2 <> 0 ->
  a_err (minimize_error sds upa subncol cs nrow ncol fix1 poc
           (optimize_rivlen sds upa subncol cs nrow ncol valid short a2)) <> 0.
Proof.
  intros H. rewrite GenIhuMinEq.minimize_error_unf. apply GenIhuMinEq.outer_sticky. rewrite GenIhuOptEq.optimize_rivlen_unf. apply GenIhuOptEq.ofold_sticky. exact H.
Qed.

Lemma ib_a4_sticky j a1 fixl : a_err a1 <> 0 -> a_err (ib_a4 j a1 fixl) <> 0.
Proof. intros H. unfold ib_a4. apply om_sticky. unfold ib_a2. cbn [a_err]. apply flag_ne. exact H. Qed.

Lemma ihu_iter_sticky n : forall j a fixl, a_err a <> 0 -> a_err (ihu_iter sds upa subncol cs nrow ncol n j a fixl) <> 0.
Proof.
  induction n as [|n IH]; intros j a fixl H; [exact H|]. rewrite ihu_iter_S. cbv zeta.
  assert (H4 : a_err (ib_a4 j (relocate sds upa subncol cs nrow ncol fixl a) fixl) <> 0)
    by (apply ib_a4_sticky, relocate_sticky, H).
  destruct (ib_last j (relocate sds upa subncol cs nrow ncol fixl a) fixl); [exact H4|]. apply IH. exact H4.
Qed.

Lemma ib_a4_AL j a1 fixl : AL nc nc a1 -> AL nc nc (ib_a4 j a1 fixl).
Proof. intros H. unfold ib_a4. apply minimize_error_AL, optimize_rivlen_AL. exact H. Qed.

(* ---------- one iteration ---------- *)
Definition STEP := gen_ihu_ihu_step1 (S (length sds)) sds upa (subnrow, Z.of_nat subncol) (Z.of_nat cs) 5 true true 2 reloc
                     (Z.of_nat nrow, Z.of_nat ncol) (Z.of_nat cs) (Z.of_nat (cs * cs)).

Lemma step1_eq j cds out fixl : length cds = nc -> length out = nc ->
  STEP (out, cds, fixl) j
  = (let a1 := relocate sds upa subncol cs nrow ncol fixl (mkA cds out [] 0) in
     let a4 := ib_a4 j a1 fixl in
     if a_err a4 =? 0
     then Some ((a_out a4, a_cds a4, if ib_last j a1 fixl then fixl else c_fix (ib_c a1)), ib_last j a1 fixl)
     else None).
Proof.
  intros Hc Ho. unfold STEP, gen_ihu_ihu_step1. cbv beta iota zeta. rewrite (Hreloc _ _ _ Hc). cbv zeta.
  set (a1 := relocate sds upa subncol cs nrow ncol fixl (mkA cds out [] 0)).
  assert (HL1 : AL nc nc a1) by (apply relocate_AL; split; assumption).
  destruct HL1 as [Hc1 Ho1].
  destruct (a_err a1 =? 0) eqn:E1.
  2:{ apply Nat.eqb_neq in E1. pose proof (ib_a4_sticky j a1 fixl E1) as H4. apply Nat.eqb_neq in H4.
      rewrite H4. reflexivity. }
  apply Nat.eqb_eq in E1. cbv beta iota.
  rewrite (gen_ihu_upscale_check_eq sds cs nrow ncol (a_out a1) (a_cds a1) Ho1 Hc1 Hnc). cbv zeta.
  change (upscale_check sds cs nrow ncol (a_out a1) (a_cds a1)) with (ib_c a1).
  destruct (c_ok (ib_c a1)) eqn:Eok.
  2:{ assert (H2 : a_err (ib_a2 a1) <> 0) by (unfold ib_a2; cbn [a_err]; rewrite Eok, E1; discriminate).
      pose proof (om_sticky (c_valid (ib_c a1)) (c_short (ib_c a1)) (c_fix (ib_c a1)) (if ib_last j a1 fixl then 2 else 0)
                    (ib_a2 a1) H2) as H4.
      apply Nat.eqb_neq in H4. unfold ib_a4. rewrite H4. reflexivity. }
  cbv beta iota. rewrite last_eq.
  change ((length (c_fix (ib_c a1)) =? 0) || (length (c_fix (ib_c a1)) =? length fixl) || (j + 1 =? 5))
    with (ib_last j a1 fixl).
  assert (Ha2 : ib_a2 a1 = mkA (a_cds a1) (a_out a1) (c_st (ib_c a1)) 0)
    by (unfold ib_a2; rewrite Eok, E1; reflexivity).
  unfold ib_a4. rewrite Ha2.
  set (a2 := mkA (a_cds a1) (a_out a1) (c_st (ib_c a1)) 0).
  pose proof (gen_ihu_optimize_rivlen_eq sds upa subnrow subncol cs nrow ncol (c_valid (ib_c a1)) (c_short (ib_c a1)) a2
                Hnomv eq_refl Hc1) as HO.
  change (a_st a2) with (c_st (ib_c a1)) in HO. change (a_cds a2) with (a_cds a1) in HO.
  change (a_out a2) with (a_out a1) in HO. cbv zeta in HO. rewrite HO. clear HO.
  set (a3 := optimize_rivlen sds upa subncol cs nrow ncol (c_valid (ib_c a1)) (c_short (ib_c a1)) a2).
  assert (HL3 : AL nc nc a3) by (apply optimize_rivlen_AL; split; assumption).
  destruct HL3 as [Hc3 Ho3].
  destruct (a_err a3 =? 0) eqn:E3.
  2:{ apply Nat.eqb_neq in E3.
      assert (H4 : a_err (minimize_error sds upa subncol cs nrow ncol (c_fix (ib_c a1))
                            (if ib_last j a1 fixl then 2 else 0) a3) <> 0)
        by (rewrite GenIhuMinEq.minimize_error_unf; apply GenIhuMinEq.outer_sticky; exact E3).
      apply Nat.eqb_neq in H4. rewrite H4. reflexivity. }
  apply Nat.eqb_eq in E3. cbv beta iota.
  assert (Hpoc : (if ib_last j a1 fixl then 2%Z else 0%Z) = Z.of_nat (if ib_last j a1 fixl then 2 else 0))
    by (destruct (ib_last j a1 fixl); reflexivity).
  rewrite Hpoc.
  rewrite (gen_ihu_minimize_error_eq sds upa subnrow subncol cs nrow ncol (c_valid (ib_c a1)) (c_fix (ib_c a1))
             (if ib_last j a1 fixl then 2 else 0) a3 Hnomv E3 Hc3).
  cbv zeta.
  destruct (a_err (minimize_error sds upa subncol cs nrow ncol (c_fix (ib_c a1)) (if ib_last j a1 fixl then 2 else 0) a3) =? 0);
    [|reflexivity].
  cbv beta iota. destruct (ib_last j a1 fixl); reflexivity.
Qed.

(* ---------- the loop ---------- *)
Lemma loop_eq n : forall j cds out st fixl, length cds = nc -> length out = nc ->
  match gen_ihu_obfold STEP (seq j n) (out, cds, fixl) with
  | None => None
  | Some (o, c, _) => Some (c, o)
  end
  = (let a' := ihu_iter sds upa subncol cs nrow ncol n j (mkA cds out st 0) fixl in
     if a_err a' =? 0 then Some (a_cds a', a_out a') else None).
Proof.
  induction n as [|n IH]; intros j cds out st fixl Hc Ho.
  - cbn [seq]. rewrite obfold_nil. reflexivity.
  - cbn [seq]. rewrite obfold_cons, step1_eq by assumption. rewrite ihu_iter_S. cbv zeta.
    rewrite (relocate_st0 fixl (mkA cds out st 0) eq_refl). cbn [a_cds a_out a_st].
    set (a1 := relocate sds upa subncol cs nrow ncol fixl (mkA cds out [] 0)).
    rewrite ib_a4_strip, ib_last_strip, ib_c_strip.
    assert (HL4 : AL nc nc (ib_a4 j a1 fixl)).
    { apply ib_a4_AL. apply relocate_AL. split; assumption. }
    destruct HL4 as [Hc4 Ho4].
    destruct (a_err (ib_a4 j a1 fixl) =? 0) eqn:E4.
    + apply Nat.eqb_eq in E4. destruct (ib_last j a1 fixl).
      * rewrite E4. reflexivity.
      * rewrite (IH (S j) _ _ (a_st (ib_a4 j a1 fixl)) (c_fix (ib_c a1)) Hc4 Ho4).
        rewrite (A_eta _ E4). reflexivity.
    + apply Nat.eqb_neq in E4. destruct (ib_last j a1 fixl).
      * apply Nat.eqb_neq in E4. rewrite E4. reflexivity.
      * pose proof (ihu_iter_sticky n (S j) _ (c_fix (ib_c a1)) E4) as H. apply Nat.eqb_neq in H. rewrite H. reflexivity.
Qed.
End Drv.

(* ---------- the driver ---------- *)
Lemma final_aux' (m : option (list nat * list nat * list nat)) (a : A) (sh : Z * Z) :
  match m with None => None | Some (o, c, _) => Some (c, o) end
  = (if a_err a =? 0 then Some (a_cds a, a_out a) else None) ->
  match m with None => None | Some (o, c, f) => Some (c, o, sh) end
  = (if a_err a =? 0 then Some (a_cds a, a_out a, sh) else None).
Proof. destruct (a_err a =? 0); destruct m as [[[o c] f]|]; intros H; inversion H; reflexivity. Qed.

Theorem gen_ihu_ihu_eq_len : forall (sds : list nat) (upa : list Z) (subnrow subncol cs : nat) (ea : list bool)
    (reloc : list nat -> list nat -> list nat -> list nat -> list Z -> Z * Z -> Z * Z -> Z -> option (list nat * list nat * list nat))
    (rfix : list nat -> list nat -> list nat -> list nat),
  let nrow := cdiv subnrow cs in
  let ncol := cdiv subncol cs in
  (length ea <= length sds)%nat ->
  nomv_cell sds subncol cs ncol ->
  (Z.of_nat (nrow * ncol) <= 2147483648)%Z ->
  (forall fixl cds out, length cds = (nrow * ncol)%nat ->
     reloc fixl cds out sds upa (Z.of_nat subnrow, Z.of_nat subncol) (Z.of_nat nrow, Z.of_nat ncol) (Z.of_nat cs)
     = (let a' := relocate sds upa subncol cs nrow ncol fixl (mkA cds out [] 0) in
        if (a_err a' =? 0)%nat then Some (a_cds a', a_out a', rfix fixl cds out) else None)) ->
  gen_ihu_ihu (S (length sds)) sds upa (Z.of_nat subnrow, Z.of_nat subncol) (Z.of_nat cs) 5 true true 2 (eaf ea) reloc
  = (let rep := repcell sds upa subncol cs nrow ncol (eaf ea) in
     let out := ihu_outlets sds subncol cs nrow ncol rep in
     let cds := ihu_nextidx sds subncol cs nrow ncol ea out in
     let fixl := ihu_fix sds subncol cs nrow ncol out in
     let a := ihu_iter sds upa subncol cs nrow ncol 5 0 (mkA cds out [] 0) fixl in
     if (a_err a =? 0)%nat then Some (a_cds a, a_out a, (Z.of_nat nrow, Z.of_nat ncol)) else None).
Proof.
  intros sds upa subnrow subncol cs ea reloc rfix nrow ncol Hea Hnomv Hnc Hreloc.
  unfold gen_ihu_ihu. cbv beta iota zeta.
  rewrite !zcdiv, zminupa, Z.mul_1_r.
  change (cdiv subnrow cs) with nrow. change (cdiv subncol cs) with ncol.
  rewrite gen_up_eam_repcell_eq, gen_up_ihu_outlets_eq.
  pose proof (ihu_outlets_length sds subncol cs nrow ncol (repcell sds upa subncol cs nrow ncol (eaf ea))) as Hol.
  set (out := ihu_outlets sds subncol cs nrow ncol (repcell sds upa subncol cs nrow ncol (eaf ea))) in *.
  clearbody out.
  pose proof (gen_up_ihu_nextidx_eq sds (Z.of_nat subnrow) subncol cs nrow ncol ea Hea out) as H1.
  pose proof (gen_up_ihu_nextidx_fix_eq sds (Z.of_nat subnrow) subncol cs nrow ncol ea Hea out ltac:(lia)) as H2.
  destruct (gen_up_ihu_nextidx out sds (Z.of_nat subnrow, Z.of_nat subncol) (Z.of_nat nrow, Z.of_nat ncol) (Z.of_nat cs) (eaf ea))
    as [r0 r1].
  cbn [fst snd] in H1, H2. subst r0 r1.
  change (Z.to_nat 5) with 5.
  apply final_aux'.
  exact (loop_eq sds upa (Z.of_nat subnrow) subncol cs nrow ncol reloc rfix Hnomv Hnc Hreloc 5 0
                (ihu_nextidx sds subncol cs nrow ncol ea out) out [] (ihu_fix sds subncol cs nrow ncol out)
                (ihu_nextidx_length _ _ _ _ _ _ _) Hol).
Qed.

Theorem gen_ihu_ihu_up_ihu_len : forall (sds : list nat) (upa : list Z) (subnrow subncol cs : nat) (ea : list bool)
    (reloc : list nat -> list nat -> list nat -> list nat -> list Z -> Z * Z -> Z * Z -> Z -> option (list nat * list nat * list nat))
    (rfix : list nat -> list nat -> list nat -> list nat),
  let nrow := cdiv subnrow cs in
  let ncol := cdiv subncol cs in
  (length ea <= length sds)%nat ->
  nomv_cell sds subncol cs ncol ->
  (Z.of_nat (nrow * ncol) <= 2147483648)%Z ->
  (forall fixl cds out, length cds = (nrow * ncol)%nat ->
     reloc fixl cds out sds upa (Z.of_nat subnrow, Z.of_nat subncol) (Z.of_nat nrow, Z.of_nat ncol) (Z.of_nat cs)
     = (let a' := relocate sds upa subncol cs nrow ncol fixl (mkA cds out [] 0) in
        if (a_err a' =? 0)%nat then Some (a_cds a', a_out a', rfix fixl cds out) else None)) ->
  forall cds out sh,
  gen_ihu_ihu (S (length sds)) sds upa (Z.of_nat subnrow, Z.of_nat subncol) (Z.of_nat cs) 5 true true 2 (eaf ea) reloc
  = Some (cds, out, sh) ->
  up_ihu sds upa subnrow subncol cs ea = (cds, out, (nrow, ncol)) /\ sh = (Z.of_nat nrow, Z.of_nat ncol).
Proof.
  intros sds upa subnrow subncol cs ea reloc rfix nrow ncol Hea Hnomv Hnc Hreloc cds out sh H.
  rewrite (gen_ihu_ihu_eq_len sds upa subnrow subncol cs ea reloc rfix Hea Hnomv Hnc Hreloc) in H.
  cbv zeta in H. unfold up_ihu. cbv zeta.
  unfold nrow, ncol in *. clear nrow ncol.
  match type of H with (if a_err ?a0 =? 0 then _ else _) = _ => set (a := a0) in * end.
  clearbody a.
  destruct (a_err a =? 0); [|discriminate]. 
  inversion H. split; reflexivity.
Qed.


(* the fuel of the passes loop makes no difference in the model (on index arrays of the right length) *)
Definition PassFuel (sds : list nat) (upa : list Z) (subncol cs nrow ncol : nat) : Prop :=
  forall fixl cds out, length cds = (nrow * ncol)%nat ->
  relocate_pf (S (length sds)) sds upa subncol cs nrow ncol fixl (mkA cds out [] 0)
  = relocate sds upa subncol cs nrow ncol fixl (mkA cds out [] 0).

Theorem gen_ihu_relocate_outlets_eq : forall sds upa (subnrow : Z) subncol cs nrow ncol,
  PassFuel sds upa subncol cs nrow ncol ->
  forall fixl cds out, length cds = (nrow * ncol)%nat ->
  gen_ihu_ihu_relocate_outlets (S (length sds)) fixl cds out sds upa (subnrow, Z.of_nat subncol) (Z.of_nat nrow, Z.of_nat ncol) (Z.of_nat cs)
  = (let a' := relocate sds upa subncol cs nrow ncol fixl (mkA cds out [] 0) in
     if (a_err a' =? 0)%nat then Some (a_cds a', a_out a', rel_fix3 sds upa subnrow subncol cs nrow ncol fixl cds out) else None).
Proof.
  intros sds upa subnrow subncol cs nrow ncol Hpf fixl cds out Hlen.
  rewrite (gen_ihu_relocate_outlets_pf_eq sds upa subnrow subncol cs nrow ncol fixl cds out Hlen). cbv zeta.
  rewrite (Hpf fixl cds out Hlen). reflexivity.
Qed.

Theorem gen_ihu_ihu_closed : forall (sds : list nat) (upa : list Z) (subnrow subncol cs : nat) (ea : list bool),
  let nrow := cdiv subnrow cs in
  let ncol := cdiv subncol cs in
  (length ea <= length sds)%nat ->
  nomv_cell sds subncol cs ncol ->
  (Z.of_nat (nrow * ncol) <= 2147483648)%Z ->
  PassFuel sds upa subncol cs nrow ncol ->
  forall cds out sh,
  gen_ihu_ihu (S (length sds)) sds upa (Z.of_nat subnrow, Z.of_nat subncol) (Z.of_nat cs) 5 true true 2 (eaf ea)
              (gen_ihu_ihu_relocate_outlets (S (length sds)))
  = Some (cds, out, sh) ->
  up_ihu sds upa subnrow subncol cs ea = (cds, out, (nrow, ncol)) /\ sh = (Z.of_nat nrow, Z.of_nat ncol).
Proof.
  intros sds upa subnrow subncol cs ea nrow ncol Hea Hnomv Hnc Hpf.
  apply (gen_ihu_ihu_up_ihu_len sds upa subnrow subncol cs ea (gen_ihu_ihu_relocate_outlets (S (length sds)))
           (rel_fix3 sds upa (Z.of_nat subnrow) subncol cs nrow ncol) Hea Hnomv Hnc).
  intros fixl cds out Hlen.
  exact (gen_ihu_relocate_outlets_eq sds upa (Z.of_nat subnrow) subncol cs nrow ncol Hpf fixl cds out Hlen).
Qed.

(* the whole driver as an equation (the form of gen_ihu_ihu_eq) *)
Theorem gen_ihu_ihu_closed_eq : forall (sds : list nat) (upa : list Z) (subnrow subncol cs : nat) (ea : list bool),
  let nrow := cdiv subnrow cs in
  let ncol := cdiv subncol cs in
  (length ea <= length sds)%nat ->
  nomv_cell sds subncol cs ncol ->
  (Z.of_nat (nrow * ncol) <= 2147483648)%Z ->
  PassFuel sds upa subncol cs nrow ncol ->
  gen_ihu_ihu (S (length sds)) sds upa (Z.of_nat subnrow, Z.of_nat subncol) (Z.of_nat cs) 5 true true 2 (eaf ea)
              (gen_ihu_ihu_relocate_outlets (S (length sds)))
  = (let rep := repcell sds upa subncol cs nrow ncol (eaf ea) in
     let out := ihu_outlets sds subncol cs nrow ncol rep in
     let cds := ihu_nextidx sds subncol cs nrow ncol ea out in
     let fixl := ihu_fix sds subncol cs nrow ncol out in
     let a := ihu_iter sds upa subncol cs nrow ncol 5 0 (mkA cds out [] 0) fixl in
     if (a_err a =? 0)%nat then Some (a_cds a, a_out a, (Z.of_nat nrow, Z.of_nat ncol)) else None).
Proof.
  intros sds upa subnrow subncol cs ea nrow ncol Hea Hnomv Hnc Hpf.
  apply (gen_ihu_ihu_eq_len sds upa subnrow subncol cs ea (gen_ihu_ihu_relocate_outlets (S (length sds)))
           (rel_fix3 sds upa (Z.of_nat subnrow) subncol cs nrow ncol) Hea Hnomv Hnc).
  intros fixl cds out Hlen.
  exact (gen_ihu_relocate_outlets_eq sds upa (Z.of_nat subnrow) subncol cs nrow ncol Hpf fixl cds out Hlen).
Qed.

Print Assumptions gen_ihu_relocate_outlets_eq.
Print Assumptions gen_ihu_ihu_closed.
Print Assumptions gen_ihu_ihu_closed_eq.
