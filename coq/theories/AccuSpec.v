(* Accumulation = sum over the upstream catchment (C04). *)
From Coq Require Import List Arith ZArith Lia Bool.
Import ListNotations.
From PF Require Import Arr Net SweepDown Accu.
Open Scope Z_scope.

(* ---------- sums with a point update ---------- *)
Lemma zsum_point (f g : nat -> Z) (d : nat) (delta : Z) (L : list nat) :
  NoDup L -> (forall x, x <> d -> g x = f x) -> g d = f d + delta ->
  zsum (map g L) = zsum (map f L) + (if in_dec Nat.eq_dec d L then delta else 0).
Proof.
  intros Hnd Hne Hd. induction Hnd as [|x L Hx Hnd IH]; simpl; [reflexivity|].
  rewrite IH. destruct (Nat.eq_dec x d) as [->|Hxd].
  - rewrite Hd. destruct (in_dec Nat.eq_dec d L); [contradiction|]. lia.
  - rewrite (Hne x Hxd).
    destruct (in_dec Nat.eq_dec d L) as [H1|H1]; [|lia]. lia.
Qed.

Section Blocked.
Variable ds : list nat.
Variable B : nat -> bool.            (* blocked cells: they neither receive nor pass on *)
Notation n := (size ds).
Notation dsf := (dsf ds).

(* x reaches j through non-blocked cells only (both ends included) *)
Definition breach (x j : nat) : Prop :=
  exists k, iter ds k x = j /\ forall m, (m <= k)%nat -> B (iter ds m x) = false.

Lemma breach_refl x : B x = false -> breach x x.
Proof. intros H. exists 0%nat. split; [reflexivity|]. intros m Hm. assert (m = 0)%nat by lia. subst. exact H. Qed.

Lemma breach_step x j : B x = false -> breach (dsf x) j -> breach x j.
Proof. intros Hx (k & Hk & Hb). exists (S k). split; [exact Hk|].
  intros [|m] Hm; [exact Hx|]. simpl. apply Hb. lia. Qed.

Lemma breach_inv x j : breach x j -> B x = false /\ (x = j \/ breach (dsf x) j).
Proof. intros ([|k] & Hk & Hb).
  - split; [apply (Hb 0%nat); lia|left; exact Hk].
  - split; [apply (Hb 0%nat); lia|right]. exists k. split; [exact Hk|].
    intros m Hm. apply (Hb (S m)). lia. Qed.

Lemma breach_reaches x j : breach x j -> reaches ds x j.
Proof. intros (k & Hk & _). exists k. exact Hk. Qed.

Lemma breach_target x j : breach x j -> B j = false.
Proof. intros (k & Hk & Hb). rewrite <- Hk. apply Hb. lia. Qed.

Definition bstep (a : list Z) (i : nat) : list Z :=
  let d := dsf i in
  if (d =? i)%nat || B i || B d then a else upd a d (nth d a 0 + nth i a 0).

Lemma bstep_length a i : length (bstep a i) = length a.
Proof. unfold bstep. destruct ((dsf i =? i)%nat || B i || B (dsf i)); auto. apply upd_length. Qed.

Lemma bfold_length P a : length (fold_left bstep P a) = length a.
Proof. revert a; induction P as [|i P IH]; intros a; simpl; auto. rewrite IH. apply bstep_length. Qed.

(* blocked cells are never written *)
Lemma bfold_blocked P a j : B j = true -> nth j (fold_left bstep P a) 0 = nth j a 0.
Proof.
  intros Hj. revert a; induction P as [|i P IH]; intros a; simpl; auto. rewrite IH.
  unfold bstep. destruct ((dsf i =? i)%nat || B i || B (dsf i)) eqn:E; auto.
  apply nth_upd_neq. intros ->. rewrite Hj in E. rewrite orb_true_r in E. discriminate.
Qed.

Theorem bfold_spec P : utopo ds P -> forall init, length init = n -> forall j, B j = false ->
  exists L, NoDup L /\ (forall x, In x L <-> In x P /\ x <> j /\ breach x j) /\
            nth j (fold_left bstep P init) 0 = nth j init 0 + zsum (map (fun x => nth x init 0) L).
Proof.
  intros HU. induction HU as [|i P Hu IH Hv Hni Hdd]; intros init Hlen j Hj.
  - exists []. simpl. split; [constructor|]. split; [intuition|lia].
  - assert (HU' : utopo ds (i :: P)) by (constructor; auto).
    simpl fold_left. set (init' := bstep init i).
    assert (Hlen' : length init' = n) by (unfold init'; rewrite bstep_length; auto).
    destruct (IH init' Hlen' j Hj) as (L & HndL & HL & Hsum).
    destruct Hv as [Hi Hdi].
    assert (HiL : ~ In i L) by (intros H; apply HL in H; tauto).
    unfold init', bstep in *.
    destruct ((dsf i =? i)%nat || B i || B (dsf i)) eqn:Egate.
    + (* nothing moves: i is a pit, or blocked, or flows into a blocked cell *)
      exists L. split; auto. split; auto.
      intros x. rewrite HL. simpl. split; [intuition|].
      intros ([<-|Hx] & Hne & Hb); [|intuition]. exfalso.
      apply breach_inv in Hb. destruct Hb as [Hbi [E|Hb]]; [congruence|].
      apply orb_true_iff in Egate. destruct Egate as [Egate|Egate].
      * apply orb_true_iff in Egate. destruct Egate as [Egate|Egate]; [|congruence].
        apply Nat.eqb_eq in Egate. apply breach_reaches in Hb. rewrite Egate in Hb.
        apply Hne. apply (reaches_pit ds i j); auto.
      * apply breach_inv in Hb. destruct Hb as [Hbd _]. congruence.
    + apply orb_false_iff in Egate. destruct Egate as [Egate Hbd].
      apply orb_false_iff in Egate. destruct Egate as [Hnp Hbi]. apply Nat.eqb_neq in Hnp.
      destruct Hdd as [Hdd|Hdd]; [contradiction|].
      set (d := dsf i) in *.
      assert (Hval : forall x, nth x (upd init d (nth d init 0 + nth i init 0)) 0 =
                               if Nat.eq_dec x d then nth d init 0 + nth i init 0 else nth x init 0).
      { intros x. destruct (Nat.eq_dec x d) as [->|Hxd]; [apply nth_upd_eq; lia|apply nth_upd_neq; auto]. }
      destruct (Nat.eq_dec d j) as [Edj|Edj].
      * (* i flows straight into j *)
        exists (i :: L). split; [constructor; auto|]. split.
        -- intros x. simpl. rewrite HL. split.
           ++ intros [<-|(Hx & Hne & Hb)]; [|auto]. split; [auto|]. split; [congruence|].
              apply breach_step; auto. fold d. rewrite Edj. apply breach_refl; auto.
           ++ intros ([<-|Hx] & Hne & Hb); auto.
        -- rewrite Hsum. rewrite Hval. destruct (Nat.eq_dec j d); [|congruence].
           simpl. rewrite (zsum_map_ext (fun x => nth x (upd init d (nth d init 0 + nth i init 0)) 0)
                                         (fun x => nth x init 0) L).
           ++ subst j. lia.
           ++ intros x Hx. rewrite Hval. destruct (Nat.eq_dec x d) as [->|]; auto.
              exfalso. apply HL in Hx. rewrite Edj in Hx. tauto.
      * destruct (in_dec Nat.eq_dec d L) as [HdL|HdL].
        -- (* d already counts for j: so does i now *)
           exists (i :: L). split; [constructor; auto|]. split.
           ++ intros x. simpl. rewrite HL. split.
              ** intros [<-|(Hx & Hne & Hb)]; [|auto]. apply HL in HdL. destruct HdL as (_ & _ & Hb).
                 split; [auto|]. split; [|apply breach_step; auto].
                 intros ->. apply breach_reaches in Hb. apply (utopo_head_unreached ds j P d HU' Hdd). exact Hb.
              ** intros ([<-|Hx] & Hne & Hb); auto.
           ++ rewrite Hsum. rewrite Hval. destruct (Nat.eq_dec j d); [congruence|].
              rewrite (zsum_point (fun x => nth x init 0) _ d (nth i init 0) L HndL).
              ** destruct (in_dec Nat.eq_dec d L); [|contradiction]. simpl. lia.
              ** intros x Hx. rewrite Hval. destruct (Nat.eq_dec x d); [contradiction|reflexivity].
              ** rewrite Hval. destruct (Nat.eq_dec d d); [reflexivity|contradiction].
        -- (* d does not reach j, hence neither does i *)
           exists L. split; auto. split.
           ++ intros x. rewrite HL. simpl. split; [intuition|].
              intros ([<-|Hx] & Hne & Hb); [|intuition]. exfalso.
              apply breach_inv in Hb. destruct Hb as [_ [E|Hb]]; [congruence|].
              apply HdL. apply HL. auto.
           ++ rewrite Hsum. rewrite Hval. destruct (Nat.eq_dec j d); [congruence|].
              f_equal. apply zsum_map_ext. intros x Hx. rewrite Hval.
              destruct (Nat.eq_dec x d) as [->|]; [contradiction|reflexivity].
Qed.
End Blocked.

(* ---------- the ungated kernel (streams.upstream_area) ---------- *)
Lemma plain_is_bstep ds a i : plain_step ds a i = bstep ds (fun _ => false) a i.
Proof. unfold plain_step, bstep. rewrite !orb_false_r. reflexivity. Qed.

Lemma fold_ext {A Bt} (f g : A -> Bt -> A) l a : (forall a x, f a x = g a x) -> fold_left f l a = fold_left g l a.
Proof. intros H. revert a; induction l as [|x l IH]; intros a; simpl; auto. rewrite H. apply IH. Qed.

Theorem plain_accu_spec ds P init : utopo ds P -> length init = size ds -> forall j,
  exists L, NoDup L /\ (forall x, In x L <-> In x P /\ x <> j /\ reaches ds x j) /\
            nth j (fold_left (plain_step ds) P init) 0 = nth j init 0 + zsum (map (fun x => nth x init 0) L).
Proof.
  intros Hu Hl j. rewrite (fold_ext _ (bstep ds (fun _ => false))) by (apply plain_is_bstep).
  destruct (bfold_spec ds (fun _ => false) P Hu init Hl j eq_refl) as (L & H1 & H2 & H3).
  exists L. split; auto. split; auto. intros x. rewrite H2.
  split; intros (Ha & Hb & Hc); repeat split; auto.
  - apply (breach_reaches ds (fun _ => false)); auto.
  - destruct Hc as [k Hk]. exists k. split; auto.
Qed.

(* ---------- the gated kernel (streams.accuflux) ---------- *)
Section Gated.
Variable ds : list nat.
Variable nodata : Z.
Variable data : list Z.
Hypothesis Hlen : length data = size ds.
Definition holds_nodata (x : nat) : bool := nth x data 0 =? nodata.
Notation B := holds_nodata.

Lemma gstep_eq a i : accu_step ds nodata data a i = bstep ds B a i.
Proof.
  unfold accu_step, bstep, holds_nodata.
  destruct (dsf ds i =? i)%nat, (nth i data 0 =? nodata), (nth (dsf ds i) data 0 =? nodata); reflexivity.
Qed.

(* accumulated value = own value + sum over all other cells whose flow path passes through j
   without meeting a cell that holds the nodata value; nodata cells stay nodata *)
Theorem accuflux_spec sq : topo ds sq -> forall j, (j < size ds)%nat ->
  let out := accuflux ds sq data nodata in
  (nth j data 0 = nodata -> nth j out 0 = nodata) /\
  (nth j data 0 <> nodata ->
     exists L, NoDup L /\ (forall x, In x L <-> In x sq /\ x <> j /\ breach ds B x j) /\
               nth j out 0 = nth j data 0 + zsum (map (fun x => nth x data 0) L)).
Proof.
  intros Ht j Hj out. unfold out, accuflux.
  assert (Hu : utopo ds (rev sq)) by (apply topo_utopo; auto).
  rewrite (fold_ext _ (bstep ds B)) by (apply gstep_eq).
  split.
  - intros E. rewrite bfold_blocked; auto. unfold holds_nodata. apply Z.eqb_eq; auto.
  - intros E. assert (HB : B j = false) by (unfold holds_nodata; apply Z.eqb_neq; auto).
    destruct (bfold_spec ds B (rev sq) Hu data Hlen j HB) as (L & H1 & H2 & H3).
    exists L. split; auto. split; auto. intros x. rewrite H2. rewrite <- in_rev. tauto.
Qed.

(* without nodata cells the blocked-path relation is plain reachability *)
Lemma breach_nonodata x j : (forall y, nth y data 0 <> nodata) -> (breach ds B x j <-> reaches ds x j).
Proof.
  intros H. split; [apply breach_reaches|]. intros [k Hk]. exists k. split; auto.
  intros m _. unfold holds_nodata. apply Z.eqb_neq. apply H.
Qed.
End Gated.

(* ---------- mass conservation ---------- *)
Lemma plain_untouched ds P a j : (forall x, In x P -> dsf ds x <> j) ->
  nth j (fold_left (plain_step ds) P a) 0 = nth j a 0.
Proof.
  revert a; induction P as [|i P IH]; intros a H; simpl; auto.
  rewrite IH by (intros x Hx; apply H; right; auto).
  unfold plain_step. destruct (dsf ds i =? i)%nat; auto. apply nth_upd_neq.
  intros E. apply (H i); [left; auto|auto].
Qed.

Theorem plain_mass_conserved ds P : utopo ds P -> forall init, length init = size ds ->
  zsum (map (fun p => nth p (fold_left (plain_step ds) P init) 0) (filter (fun p => (dsf ds p =? p)%nat) P))
  = zsum (map (fun x => nth x init 0) P).
Proof.
  intros HU. induction HU as [|i P Hu IH Hv Hni Hdd]; intros init Hlen; [reflexivity|].
  assert (HU' : utopo ds (i :: P)) by (constructor; auto).
  simpl fold_left. set (init' := plain_step ds init i).
  assert (Hlen' : length init' = size ds).
  { unfold init', plain_step. destruct (dsf ds i =? i)%nat; rewrite ?upd_length; auto. }
  specialize (IH init' Hlen'). destruct Hv as [Hi Hd].
  simpl filter. destruct (Nat.eqb_spec (dsf ds i) i) as [Hp|Hnp].
  - simpl map. simpl zsum. rewrite IH.
    rewrite (plain_untouched ds P init' i) by (apply (utopo_head_nokid ds i P HU')).
    unfold init', plain_step. rewrite Hp, Nat.eqb_refl. reflexivity.
  - rewrite IH. destruct Hdd as [Hdd|Hdd]; [contradiction|].
    simpl map. simpl zsum.
    rewrite (zsum_point (fun x => nth x init 0) (fun x => nth x init' 0) (dsf ds i) (nth i init 0) P).
    + destruct (in_dec Nat.eq_dec (dsf ds i) P); [lia|contradiction].
    + apply utopo_NoDup with (ds := ds); auto.
    + intros x Hx. unfold init', plain_step. apply Nat.eqb_neq in Hnp. rewrite Hnp. apply nth_upd_neq; auto.
    + unfold init', plain_step. apply Nat.eqb_neq in Hnp. rewrite Hnp. apply nth_upd_eq. lia.
Qed.

(* ---------- upstream_area kernel: nodata outside the order ---------- *)
Lemma area_init_nth (sq : list nat) : forall (area : list Z) (a : list Z) j, (forall i, In i sq -> (i < length a)%nat) ->
  nth j (fold_left (fun a i => upd a i (nth i area 0)) sq a) 0 = if in_dec Nat.eq_dec j sq then nth j area 0 else nth j a 0.
Proof.
  induction sq as [|i sq IH]; intros area a j Hb; simpl; auto.
  rewrite IH by (intros x Hx; rewrite upd_length; apply Hb; right; auto).
  destruct (in_dec Nat.eq_dec j sq) as [H|H].
  - destruct (Nat.eq_dec i j); reflexivity.
  - destruct (Nat.eq_dec i j) as [->|Hne].
    + apply nth_upd_eq. apply Hb. left; auto.
    + apply nth_upd_neq. auto.
Qed.

Lemma area_init_length (sq : list nat) (area a : list Z) :
  length (fold_left (fun a i => upd a i (nth i area 0)) sq a) = length a.
Proof. revert a; induction sq as [|i sq IH]; intros a; simpl; auto. rewrite IH. apply upd_length. Qed.

Theorem upstream_area_spec ds sq area nodata : topo ds sq -> forall j, (j < size ds)%nat ->
  let out := upstream_area ds sq area nodata in
  (~ In j sq -> nth j out 0 = nodata) /\
  (In j sq -> exists L, NoDup L /\ (forall x, In x L <-> In x sq /\ x <> j /\ reaches ds x j) /\
                        nth j out 0 = nth j area 0 + zsum (map (fun x => nth x area 0) L)).
Proof.
  intros Ht j Hj out. unfold out, upstream_area.
  set (init := fold_left (fun a i => upd a i (nth i area 0)) sq (repeat nodata (length ds))).
  assert (Hl : length init = size ds) by (unfold init; rewrite area_init_length, repeat_length; reflexivity).
  assert (Hu : utopo ds (rev sq)) by (apply topo_utopo; auto).
  assert (Hinit : forall x, nth x init 0 = if in_dec Nat.eq_dec x sq then nth x area 0 else nth x (repeat nodata (length ds)) 0).
  { intros x. unfold init. apply area_init_nth. intros i Hi. rewrite repeat_length.
    destruct (topo_valid ds sq i Ht Hi); auto. }
  destruct (plain_accu_spec ds (rev sq) init Hu Hl j) as (L & H1 & H2 & H3).
  assert (HL : forall x, In x L -> In x sq) by (intros x Hx; apply H2 in Hx; rewrite <- in_rev in Hx; tauto).
  assert (Hsum : zsum (map (fun x => nth x init 0) L) = zsum (map (fun x => nth x area 0) L)).
  { apply zsum_map_ext. intros x Hx. rewrite Hinit. destruct (in_dec Nat.eq_dec x sq); [reflexivity|]. exfalso; auto. }
  split.
  - intros Hn. rewrite H3. destruct L as [|x L].
    + simpl. rewrite Hinit. destruct (in_dec Nat.eq_dec j sq); [contradiction|].
      rewrite Z.add_0_r. clear -Hj. unfold size in Hj. revert j Hj. induction (length ds) as [|m IH]; intros [|j] Hj; simpl; try lia; auto.
      apply IH. lia.
    + exfalso. assert (Hx : In x (x :: L)) by (left; auto). apply H2 in Hx. destruct Hx as (Hx & _ & [k Hk]).
      rewrite <- in_rev in Hx. apply Hn. rewrite <- Hk. apply topo_closed_iter; auto.
  - intros Hin. exists L. split; auto. split.
    + intros x. rewrite H2, <- in_rev. tauto.
    + rewrite H3, Hsum, Hinit. destruct (in_dec Nat.eq_dec j sq); [reflexivity|contradiction].
Qed.

(* ---------- downstream accumulation = sum along the flow path ---------- *)
Section DownPath.
Variable ds : list nat.
Variable nodata : Z.
Variable data : list Z.
Hypothesis Hlen : length data = size ds.

Fixpoint pathsum (k : nat) (i : nat) : Z :=
  match k with 0%nat => nth i data 0 | S k' => nth i data 0 + pathsum k' (dsf ds i) end.

(* i reaches its pit in k steps through cells none of which holds nodata *)
Theorem accuflux_ds_spec sq : topo ds sq -> forall k i, In i sq ->
  (forall m, (m <= k)%nat -> nth (iter ds m i) data 0 <> nodata) ->
  (forall m, (m < k)%nat -> dsf ds (iter ds m i) <> iter ds m i) ->
  dsf ds (iter ds k i) = iter ds k i ->
  nth i (accuflux_ds ds sq data nodata) 0 = pathsum k i.
Proof.
  intros Ht. destruct (sweep_down_spec ds 0 (accu_ds_f ds nodata data) sq data Hlen Ht) as [H1 _].
  induction k as [|k IH]; intros i Hi Hnn Hnp Hp; simpl in *.
  - pose proof (H1 i Hi) as V.
    unfold accuflux_ds. rewrite (val_inv_pit ds 0 (accu_ds_f ds nodata data) data i _ V Hp).
    unfold accu_ds_f. rewrite Hp, Nat.eqb_refl. reflexivity.
  - assert (Hd : In (dsf ds i) sq) by (apply topo_closed; auto).
    assert (E1 : nth (dsf ds i) (accuflux_ds ds sq data nodata) 0 = pathsum k (dsf ds i)).
    { apply IH; auto.
      - intros m Hm. apply (Hnn (S m)). lia.
      - intros m Hm. apply (Hnp (S m)). lia. }
    pose proof (Hnn 0%nat ltac:(lia)) as H0. simpl in H0.
    pose proof (Hnn 1%nat ltac:(lia)) as H1'. simpl in H1'.
    pose proof (Hnp 0%nat ltac:(lia)) as Hn0. simpl in Hn0.
    pose proof (H1 i Hi) as V. pose proof (H1 _ Hd) as Vd.
    destruct (val_inv_step ds 0 (accu_ds_f ds nodata data) data i _ V Hn0) as (v & Hv & Ev).
    unfold accuflux_ds in *. rewrite Ev.
    rewrite (val_fun ds 0 (accu_ds_f ds nodata data) data _ _ _ Hv Vd). rewrite E1.
    unfold accu_ds_f. apply Nat.eqb_neq in Hn0. rewrite Hn0.
    destruct (Z.eqb_spec (nth (dsf ds i) data 0) nodata); [contradiction|].
    destruct (Z.eqb_spec (nth i data 0) nodata); [contradiction|]. reflexivity.
Qed.

(* a cell holding nodata, or flowing into one, keeps its own value *)
Theorem accuflux_ds_blocked sq : topo ds sq -> forall i, In i sq ->
  (nth i data 0 = nodata \/ nth (dsf ds i) data 0 = nodata) ->
  nth i (accuflux_ds ds sq data nodata) 0 = nth i data 0.
Proof.
  intros Ht i Hi Hb.
  destruct (sweep_down_spec ds 0 (accu_ds_f ds nodata data) sq data Hlen Ht) as [H1 _].
  pose proof (H1 i Hi) as V. unfold accuflux_ds.
  destruct (Nat.eq_dec (dsf ds i) i) as [Hp|Hn].
  - rewrite (val_inv_pit ds 0 (accu_ds_f ds nodata data) data i _ V Hp).
    unfold accu_ds_f. rewrite Hp, Nat.eqb_refl. reflexivity.
  - destruct (val_inv_step ds 0 (accu_ds_f ds nodata data) data i _ V Hn) as (v & Hv & Ev). rewrite Ev.
    unfold accu_ds_f. destruct Hb as [E|E]; rewrite E, Z.eqb_refl; cbn; rewrite ?andb_false_r; reflexivity.
Qed.
End DownPath.

(* ---------- Flwdir.upstream_area: cells outside the network are reported as nodata ---------- *)
Lemma flwdir_upstream_area_outside ds sq area j : (j < length ds)%nat -> ~ valid ds j ->
  nth j (flwdir_upstream_area ds sq area) 0 = -9999.
Proof.
  intros Hj Hv. unfold flwdir_upstream_area.
  rewrite (nth_indep _ 0 ((fun i => if validb ds i then nth i (accuflux ds sq area (-9999)) 0 else -9999) 0%nat))
    by (rewrite map_length, seq_length; auto).
  rewrite (map_nth (fun i => if validb ds i then nth i (accuflux ds sq area (-9999)) 0 else -9999)).
  rewrite seq_nth by auto. simpl. destruct (validb ds j) eqn:E; auto. apply validb_valid in E. contradiction.
Qed.

Lemma flwdir_upstream_area_inside ds sq area j : valid ds j ->
  nth j (flwdir_upstream_area ds sq area) 0 = nth j (accuflux ds sq area (-9999)) 0.
Proof.
  intros Hv. assert (Hj : (j < length ds)%nat) by (destruct Hv; auto). unfold flwdir_upstream_area.
  rewrite (nth_indep _ 0 ((fun i => if validb ds i then nth i (accuflux ds sq area (-9999)) 0 else -9999) 0%nat))
    by (rewrite map_length, seq_length; auto).
  rewrite (map_nth (fun i => if validb ds i then nth i (accuflux ds sq area (-9999)) 0 else -9999)).
  rewrite seq_nth by auto. simpl. apply validb_valid in Hv. rewrite Hv. reflexivity.
Qed.

(* ---------- corollaries for fields without nodata cells ---------- *)
Lemma accu_step_plain ds nodata data a i : (forall y, nth y data 0 <> nodata) ->
  accu_step ds nodata data a i = plain_step ds a i.
Proof. intros H. unfold accu_step, plain_step.
  destruct (Z.eqb_spec (nth (dsf ds i) data 0) nodata) as [E|E]; [exfalso; apply (H _ E)|].
  destruct (Z.eqb_spec (nth i data 0) nodata) as [E2|E2]; [exfalso; apply (H _ E2)|].
  destruct (dsf ds i =? i)%nat; reflexivity. Qed.

(* the totals at the pits add up to the total over all ordered cells *)
Theorem mass_conserved ds sq data nodata : topo ds sq -> length data = size ds ->
  (forall y, nth y data 0 <> nodata) ->
  zsum (map (fun p => nth p (accuflux ds sq data nodata) 0) (filter (fun p => (dsf ds p =? p)%nat) (rev sq)))
  = zsum (map (fun x => nth x data 0) (rev sq)).
Proof.
  intros Ht Hl Hn. unfold accuflux.
  rewrite (fold_ext _ (plain_step ds)) by (intros; apply accu_step_plain; auto).
  apply plain_mass_conserved; auto. apply topo_utopo; auto.
Qed.
