(* Wire-level entry points for the C01 / C02 kernels. *)
From Coq Require Import List Arith ZArith Bool.
Import ListNotations.
From PF Require Import Arr Net Codec Glue.
From PFG Require Import GenTables GenDrdc GenConv.
Open Scope Z_scope.

Definition out_net (ds : list nat) : list (list Z) :=
  [net_out ds; zs (pits_of ds); [Z.of_nat (nvalid_of ds)]].
(* Flwdir.__init__: size <= 1 or no pits -> ValueError *)
Definition api_net (ft : Z) (ds : list nat) : list (list Z) :=
  if (length ds <=? 1)%nat || (match pits_of ds with [] => true | _ => false end) then [[1]]
  else [0; ft] :: out_net ds.

(* pyflwdir.from_array(data, ftype, mask): ftype request 0 d8 / 1 ldd / 2 nextxy / 3 infer;
   tag: dtype/shape class of data (see Codec.infer_ftype); hasmask 0/1.
   result: [status; ftype] then network.  status 0 ok, 1 ValueError *)
Definition api_from_array (req tag : Z) (nrow ncol : nat) (a b : list Z) (hasmask : bool) (ma mb : list Z)
  : list (list Z) :=
  let ft := if req =? 3 then infer_ftype tag a b else req in
  if ft =? 3 then [[1]] else
  (* check_ftype (skipped after inference) *)
  let ok := if req =? 3 then true else
            if ft =? 0 then d8_isvalid tag a else if ft =? 1 then ldd_isvalid tag a
            else nextxy_isvalid tag a b in
  if negb ok then [[1]] else
  if ft =? 0 then
    let a' := if hasmask then apply_mask d8_mv ma a else a in
    api_net ft (d8_from_array nrow ncol a')
  else if ft =? 1 then
    let a' := if hasmask then apply_mask ldd_mv ma a else a in
    api_net ft (ldd_from_array nrow ncol a')
  else
    let a' := if hasmask then apply_mask nextxy_mv ma a else a in
    let b' := if hasmask then apply_mask nextxy_mv mb b else b in
    api_net ft (nextxy_from_array nrow ncol a' b').

Definition opt_out (o : option (list Z)) : list (list Z) :=
  match o with Some l => [[0]; l] | None => [[1]] end.

Definition run_c01 (k : Z) (args : list (list Z)) : list (list Z) :=
  if k =? 101 then out_net (d8_from_array (argn 0 args) (argn 1 args) (arg 2 args))
  else if k =? 102 then out_net (ldd_from_array (argn 0 args) (argn 1 args) (arg 2 args))
  else if k =? 103 then out_net (nextxy_from_array (argn 0 args) (argn 1 args) (arg 2 args) (arg 3 args))
  else if k =? 104 then
    api_from_array (argz 0 args) (argz 1 args) (argn 2 args) (argn 3 args) (arg 4 args) (arg 5 args)
                   (negb (argz 6 args =? 0)) (arg 7 args) (arg 8 args)
  else if k =? 105 then [let '(a, b) := d8_drdc (argz 0 args) in [a; b]]
  else if k =? 106 then [let '(a, b) := ldd_drdc (argz 0 args) in [a; b]]
  (* C02 *)
  else if k =? 201 then opt_out (d8_to_array (argn 0 args) (net_in (arg 1 args)))
  else if k =? 202 then opt_out (ldd_to_array (argn 0 args) (net_in (arg 1 args)))
  else if k =? 203 then let '(x, y) := nextxy_to_array (argn 0 args) (net_in (arg 1 args)) in [[0]; x; y]
  else if k =? 206 then
    (* from_array(src) then to_array(tgt) through the object *)
    let src := argz 0 args in let tgt := argz 1 args in
    let nrow := argn 2 args in let ncol := argn 3 args in
    let ds := if src =? 0 then d8_from_array nrow ncol (arg 4 args)
              else if src =? 1 then ldd_from_array nrow ncol (arg 4 args)
              else nextxy_from_array nrow ncol (arg 4 args) (arg 5 args) in
    if (length ds <=? 1)%nat || (match pits_of ds with [] => true | _ => false end) then [[1]]
    else if tgt =? 0 then opt_out (d8_to_array ncol ds)
    else if tgt =? 1 then opt_out (ldd_to_array ncol ds)
    else let '(x, y) := nextxy_to_array ncol ds in [[0]; x; y]
  else if k =? 204 then [map d8_to_ldd (arg 0 args)]
  else if k =? 205 then [map ldd_to_d8 (arg 0 args)]
  else [[-999]].
