(* C18: refinement clause of the Pfafstetter sub-basin map: the map at depth d + 1 refines the map at depth d
   (integer division of a label by 10 recovers the label one level up). *)
From Coq Require Import List Arith ZArith Bool Lia.
Import ListNotations.
From PF Require Import Arr Net SweepDown Fill FillSpec Rank Stream StreamSpec Subbas PfafDigits.
From PF Require Import PfafClosureA PfafClosureB PfafClosureC PfafClosureD PfafClosureE PfafClosureF PfafClosure.
From PF Require Import PfafRefineA PfafRefineB PfafRefineC PfafRefineD PfafRefineE.
Local Open Scope Z_scope.

Lemma pit_fold_labs n main so depth base : forall (l : list (nat * nat)) b idxs labs,
  exists ch, snd (fold_left (pit_step n main so depth base) l (b, idxs, labs)) = labs ++ ch /\
             forall e, In e ch -> snd e = 1.
Proof.
  induction l as [|[i p] l IH]; intros b idxs labs; cbn [fold_left].
  - exists []. split; [cbn [snd]; rewrite app_nil_r; reflexivity|intros e []].
  - unfold pit_step at 2.
    destruct (IH (climb n n main (stop_so so) (base + (Z.of_nat i + 1) * pow10 depth)
                   (upd b p (base + (Z.of_nat i + 1) * pow10 depth)) p) (idxs ++ [p])
                 (labs ++ [(base + (Z.of_nat i + 1) * pow10 depth, 1)])) as (ch & E & C).
    exists ((base + (Z.of_nat i + 1) * pow10 depth, 1) :: ch). split.
    + rewrite E, <- app_assoc. reflexivity.
    + intros e [<-|He]; [reflexivity|apply C; exact He].
Qed.

Lemma bfs_const l k : (forall e, In e l -> snd e = k) -> bfs l.
Proof.
  intros H. split.
  - induction l as [|h t IH]; [exact I|]. split.
    + intros e' He'. rewrite (H h (or_introl eq_refl)), (H e' (or_intror He')). lia.
    + apply IH. intros e He. apply H. right. exact He.
  - intros e e' He He'. rewrite (H e He), (H e' He'). lia.
Qed.

Theorem pfaf_refines : forall ds pits sq uparea mask depth,
  topo ds sq -> (forall c, valid ds c -> In c sq) -> 1 <= depth -> NoDup pits ->
  (forall p, In p pits -> In p sq /\ dsf ds p = p) ->
  (forall c, In c sq -> 0 < nth c uparea 0) ->
  (forall c, In c sq -> dsf ds c <> c -> nth c uparea 0 < nth (dsf ds c) uparea 0) ->
  let main := main_upstream ds uparea 0 in
  let L1 := fst (subbasins_pfafstetter ds pits sq main uparea mask depth) in
  let L2 := fst (subbasins_pfafstetter ds pits sq main uparea mask (depth + 1)) in
  forall i, In i sq -> nth i L2 0 / 10 = nth i L1 0.
Proof.
  intros ds pits sq uparea mask depth Ht Hcomp Hdepth Hndp Hpits Hpos Hmono main L1 L2 i Hi.
  unfold L2, L1, subbasins_pfafstetter. clear L1 L2.
  set (n := length ds).
  set (O := stream_order ds sq main mask).
  change (map (fun v : Z => if v <=? depth + 1 then v else 0) O) with (so1 O depth).
  change (map (fun v : Z => if v <=? depth + 1 + 1 then v else 0) O) with (so2 O depth).
  change (filter (fun i0 : nat => (nth i0 (so1 O depth) 0 >? 0) && (nth i0 (so1 O depth) 0 >? nth (dsf ds i0) (so1 O depth) 0)) sq)
    with (trib1 ds sq O depth).
  change (filter (fun i0 : nat => (nth i0 (so2 O depth) 0 >? 0) && (nth i0 (so2 O depth) 0 >? nth (dsf ds i0) (so2 O depth) 0)) sq)
    with (trib2 ds sq O depth).
  (* the two bases *)
  set (base1 := fold_left (fun acc d0 => acc + pow10 (Z.of_nat d0)) (seq 1 (Z.to_nat depth - 1)) 1).
  set (base2 := fold_left (fun acc d0 => acc + pow10 (Z.of_nat d0)) (seq 1 (Z.to_nat (depth + 1) - 1)) 1).
  assert (Hbase1 : base1 = ones (Z.to_nat depth)).
  { unfold base1. rewrite (fold_ones (Z.to_nat depth - 1) 1 1) by (cbn; reflexivity). f_equal. lia. }
  assert (Hbase2 : base2 = 10 * ones (Z.to_nat depth) + 1).
  { unfold base2. rewrite (fold_ones (Z.to_nat (depth + 1) - 1) 1 1) by (cbn; reflexivity).
    replace (1 + (Z.to_nat (depth + 1) - 1))%nat with (S (Z.to_nat depth)) by lia. apply ones_S. }
  clearbody base1 base2. subst base1 base2.
  (* the hypotheses of the abstract development *)
  set (rk := fun c : nat => pos c sq).
  assert (Hval : forall c, (c < n)%nat -> (dsf ds c < n)%nat -> In c sq)
    by (intros c H1 H2; apply Hcomp; split; assumption).
  assert (Hrk : forall c, (c < n)%nat -> (dsf ds c < n)%nat -> dsf ds c <> c -> (rk (dsf ds c) < rk c)%nat).
  { intros c H1 H2 H3. unfold rk. apply (topo_pos ds sq c Ht); [apply Hval; assumption|exact H3]. }
  assert (Hrkn : forall c, (c < n)%nat -> (dsf ds c < n)%nat -> (rk c < n)%nat).
  { intros c H1 H2. unfold rk. pose proof (pos_lt c sq (Hval c H1 H2)). pose proof (topo_length ds sq Ht). unfold n. lia. }
  pose proof (main_HM ds uparea 0) as HM. cbv zeta in HM. fold main in HM. fold n in HM.
  assert (Hua : forall c, (c < n)%nat -> (dsf ds c < n)%nat -> dsf ds c <> c -> nth c uparea 0 < nth (dsf ds c) uparea 0).
  { intros c H1 H2 H3. apply Hmono; [apply Hval; assumption|exact H3]. }
  assert (Hsqn : forall c, In c sq -> (c < n)%nat /\ (dsf ds c < n)%nat).
  { intros c Hc. destruct (topo_valid ds sq c Ht Hc) as [V1 V2]. unfold size in V1, V2. split; assumption. }
  (* the stream order *)
  assert (HO1 : forall c, nth (nth c main n) O 0 = 0 \/ nth (nth c main n) O 0 = nth c O 0).
  { intros c. set (u := nth c main n).
    destruct (classic_spec ds sq mask main Ht u) as (_ & C2 & C3 & C4). fold O in C2, C3, C4.
    destruct (Nat.lt_ge_cases u n) as [Hu|Hu].
    - destruct (HM c Hu) as [Hd Hne]. fold u in Hd, Hne.
      assert (Hc : (c < n)%nat).
      { destruct (Nat.lt_ge_cases c n) as [Y|N]; [exact Y|exfalso].
        unfold u, main in Hu. rewrite nth_overflow in Hu; [unfold n in Hu; lia|].
        rewrite main_upstream_length. exact N. }
      assert (Hus : In u sq) by (apply Hval; [exact Hu|rewrite Hd; exact Hc]).
      destruct (mget mask u) eqn:Em.
      + right. rewrite (C2 Hus eq_refl ltac:(congruence)). rewrite Hd. fold u. rewrite Nat.eqb_refl.
        cbn [negb]. rewrite andb_false_r. reflexivity.
      + left. apply C3; [exact Hus|reflexivity].
    - left. apply C4. intros Hin. destruct (Hsqn u Hin) as [A _]. lia. }
  assert (HO2 : forall t, In t sq -> dsf ds t <> t ->
            nth t O 0 = 0 \/ nth t O 0 = nth (dsf ds t) O 0 \/ nth t O 0 = nth (dsf ds t) O 0 + 1).
  { intros t Hts Hnp. destruct (classic_spec ds sq mask main Ht t) as (_ & C2 & C3 & _). fold O in C2, C3.
    destruct (mget mask t) eqn:Em.
    - rewrite (C2 Hts eq_refl Hnp). destruct (_ && _); [right; right|right; left]; reflexivity.
    - left. apply C3; [exact Hts|reflexivity]. }
  assert (HOp : forall p, In p pits -> nth p O 0 = 0 \/ nth p O 0 = 1).
  { intros p Hp. destruct (Hpits p Hp) as [Hps Hpp].
    destruct (classic_spec ds sq mask main Ht p) as (C1 & _ & C3 & _). fold O in C1, C3.
    destruct (mget mask p) eqn:Em; [right; apply C1; auto|left; apply C3; auto]. }
  (* tributaries of the deeper run *)
  assert (HT2 : forall t, In t (trib2 ds sq O depth) -> (t < n)%nat /\ (dsf ds t < n)%nat /\ dsf ds t <> t /\
                nth (dsf ds t) main n <> t /\ (nth (dsf ds t) main n < n)%nat).
  { intros t Hin. unfold trib2 in Hin. apply filter_In in Hin. destruct Hin as [Hs Hc]. unfold trib_test in Hc.
    apply andb_true_iff in Hc. destruct Hc as [C1 C2]. apply Z.gtb_lt in C1. apply Z.gtb_lt in C2.
    destruct (Hsqn t Hs) as [V1 V2].
    destruct (trib_not_main ds sq main mask (depth + 1) t Ht Hs ltac:(apply Z.lt_gt; exact C1) ltac:(apply Z.lt_gt; exact C2)) as [N1 N2].
    split; [exact V1|]. split; [exact V2|]. split; [exact N1|]. split; [exact N2|].
    apply main_exists; [exact V1|exact V2|exact N1|apply Hpos; exact Hs]. }
  (* the two pit loops *)
  set (init2 := fold_left _ (combine (seq 0 (length pits)) pits) (repeat 0 n, [], [])).
  set (init1 := fold_left _ (combine (seq 0 (length pits)) pits) (repeat 0 n, [], [])).
  assert (Einit1 : init1 = fold_left (pit_step n main (so1 O depth) depth (ones (Z.to_nat depth)))
                             (combine (seq 0 (length pits)) pits) (repeat 0 n, [], [])) by reflexivity.
  assert (Einit2 : init2 = fold_left (pit_step n main (so2 O depth) (depth + 1) (10 * ones (Z.to_nat depth) + 1))
                             (combine (seq 0 (length pits)) pits) (repeat 0 n, [], [])) by reflexivity.
  clearbody init1 init2.
  assert (Hp' : forall p, In p pits -> (p < n)%nat /\ dsf ds p = p).
  { intros p Hp. destruct (Hpits p Hp) as [H1 H2]. split; [|exact H2]. apply (Hsqn p H1). }
  assert (Hpl : forall i0 p, In (i0, p) (combine (seq 0 (length pits)) pits) -> In p pits)
    by (intros i0 p H; apply in_combine_r in H; exact H).
  pose proof (ones_bound (Z.to_nat depth)) as Hob.
  assert (Hrep : map fz (repeat 0 n) = repeat 0 n).
  { clear. induction n as [|k IH]; [reflexivity|]. cbn [repeat map]. rewrite IH. reflexivity. }
  pose proof (pit_fold_sim ds main O depth Hdepth HO1 (ones (Z.to_nat depth)) (proj1 Hob)
                (combine (seq 0 (length pits)) pits) (repeat 0 n) [] []
                ltac:(intros i0 p H; destruct (HOp p (Hpl i0 p H)) as [E|E]; rewrite E; lia)) as Esim.
  fold n in Esim. cbn [map] in Esim. rewrite Hrep, <- Einit1, <- Einit2 in Esim.
  (* invariants of the initial states *)
  pose proof (pit_fold_ok n main (so1 O depth) depth Hdepth (combine (seq 0 (length pits)) pits) (repeat 0 n, [], [])
                (allok_repeat depth n) ltac:(intros pf d0 [])) as HOK1.
  pose proof (pit_fold_Q2 ds main (so1 O depth) depth (HSO1_1 ds main O depth HO1) (so1 O depth) (ones (Z.to_nat depth)) eq_refl
                (combine (seq 0 (length pits)) pits) (repeat 0 n) [] []
                ltac:(intros i0 p H; rewrite so1_nth; destruct (HOp p (Hpl i0 p H)) as [E|E]; rewrite E;
                      [rewrite cut0; lia|unfold cut; destruct (1 <=? depth + 1); lia])
                (Q2_init (so1 O depth) depth n)) as HQ1.
  destruct (pit_fold_labs n main (so1 O depth) depth (ones (Z.to_nat depth))
              (combine (seq 0 (length pits)) pits) (repeat 0 n) [] []) as (chp & Hlabs1 & Hlev1).
  assert (Hd2 : 1 <= depth + 1) by lia.
  pose proof (pit_fold_inv ds main (so2 O depth) HM (depth + 1) Hd2 (10 * ones (Z.to_nat depth) + 1) ltac:(lia)
                pits 0%nat (repeat 0 n) [] [] Hndp (pinv_init ds main (depth + 1) _ pits Hp')) as HL2.
  assert (Eb2 : 10 * ones (Z.to_nat depth) + 1 = ones (Z.to_nat (depth + 1))).
  { replace (Z.to_nat (depth + 1)) with (S (Z.to_nat depth)) by lia. symmetry. apply ones_S. }
  pose proof (pit_fold_ok n main (so2 O depth) (depth + 1) Hd2 (combine (seq 0 (length pits)) pits) (repeat 0 n, [], [])
                (allok_repeat (depth + 1) n) ltac:(intros pf d0 [])) as HOK2.
  cbv zeta in HOK1, HOK2, HL2. fold n in HL2, HQ1. rewrite <- Eb2 in HOK2.
  rewrite <- Einit1 in HOK1, HQ1, Hlabs1. rewrite <- Einit2 in HOK2, HL2. clear Einit1 Einit2.
  destruct init1 as [[b01 idxs01] labs01]. rewrite Esim in *. clear Esim init2.
  cbn [fst snd] in *. destruct HOK1 as [Hb1 Hl1]. destruct HOK2 as [Hb2 Hl2].
  cbn [app] in Hlabs1. subst labs01.
  (* the work loops *)
  pose proof (phase1 ds main uparea sq O depth Hdepth HO1 HO2 rk Hrk Hrkn HM Hua HT2 Ht Hval (4 * n + 8)
                b01 idxs01 chp []) as HP.
  rewrite app_nil_r in HP.
  specialize (HP Hb1 Hl1 HQ1 (bfs_const chp 1 Hlev1) HL2 Hb2 Hl2 ltac:(intros e []) (or_introl eq_refl)).
  cbv zeta in HP. destruct HP as [Hlen1 HR].
  pose proof (pfaf_loop_inv ds main (so2 O depth) rk Hrk Hrkn HM uparea Hua (trib2 ds sq O depth) HT2
                (trib2_NoDup ds sq O depth Ht) (depth + 1) (4 * n + 8) (map fz b01) idxs01 (map FE chp) HL2) as HI2.
  destruct (pfaf_loop ds main uparea (so1 O depth) (trib1 ds sq O depth) depth (4 * n + 8) b01 idxs01 chp) as [B1 I1].
  destruct (pfaf_loop ds main uparea (so2 O depth) (trib2 ds sq O depth) (depth + 1) (4 * n + 8) (map fz b01) idxs01 (map FE chp))
    as [B2 I2].
  cbn [fst snd] in *.
  pose proof (REF_fill ds sq B1 Ht Hval Hlen1 B2 (inv_len _ _ _ _ HI2) HR i Hi) as HF.
  assert (HD : 0 < pow10 depth) by (unfold pow10; apply Z.pow_pos_nonneg; lia).
  rewrite (nth_map0 (fun v => v mod pow10 depth)) by (cbv beta; apply Z.mod_0_l; lia).
  rewrite (nth_map0 (fun v => v mod pow10 (depth + 1))) by (cbv beta; rewrite pow10_S by lia; apply Z.mod_0_l; lia).
  cbv beta. rewrite pow10_S by lia. rewrite mod_div10 by exact HD. rewrite HF. reflexivity.
Qed.
Print Assumptions pfaf_refines.

(* non-vacuity: the 9-cell network with two nested confluences of props/C18.v, depth 1 versus depth 2 *)
Example pfaf_refines_example :
  let ds := [0;0;0;1;1;2;2;3;3]%nat in let upa := [9;5;3;3;1;1;1;1;1] in let sq := seq 0 9 in
  let main := main_upstream ds upa 0 in
  let L1 := fst (subbasins_pfafstetter ds [0%nat] sq main upa None 1) in
  let L2 := fst (subbasins_pfafstetter ds [0%nat] sq main upa None 2) in
  L1 = [1; 3; 2; 5; 4; 2; 2; 7; 6] /\ L2 = [11; 31; 21; 51; 41; 23; 22; 71; 61] /\
  forall i, In i sq -> nth i L2 0 / 10 = nth i L1 0.
Proof.
  intros ds upa sq main L1 L2. split; [vm_compute; reflexivity|]. split; [vm_compute; reflexivity|].
  apply (pfaf_refines ds [0%nat] sq upa None 1).
  - apply check_topo_sound. vm_compute. reflexivity.
  - apply check_complete_sound. vm_compute. reflexivity.
  - lia.
  - constructor; [intros []|constructor].
  - intros p [<-|[]]. split; [left; reflexivity|reflexivity].
  - intros c Hc. unfold sq in Hc. cbn [seq] in Hc.
    repeat (destruct Hc as [<-|Hc]; [vm_compute; reflexivity|]). destruct Hc.
  - intros c Hc Hnp. unfold sq in Hc. cbn [seq] in Hc.
    repeat (destruct Hc as [<-|Hc]; [try (vm_compute; reflexivity); exfalso; apply Hnp; reflexivity|]). destruct Hc.
Qed.
