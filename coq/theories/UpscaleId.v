(* C09: a scale factor of 1 reproduces the input network (methods eam and eam_plus). *)
From Coq Require Import List Arith ZArith Lia Bool.
Import ListNotations.
From PF Require Import Arr Net Elev ElevSpec Upscale UpscaleSpec.

Lemma cdiv_1 x : cdiv x 1 = x.
Proof. unfold cdiv. replace (x + 1 - 1) with x by lia. apply Nat.div_1_r. Qed.

Section Scale1.
Variable sds : list nat.
Variable upa : list Z.
Variables subnrow subncol : nat.
Variable ea : list bool.
Notation nsub := (length sds).
Notation sd := (Upscale.sd sds).
Hypothesis Hncol : 0 < subncol.
Hypothesis Hsize : nsub = subnrow * subncol.
(* the fine network is closed; missing cells carry exactly the missing value *)
Hypothesis Hwf : forall t, t < nsub -> sd t < nsub -> sd (sd t) < nsub.
Hypothesis Hmv : forall t, t < nsub -> sd t <= nsub.
Hypothesis Hupa : forall t, t < nsub -> sd t < nsub -> (0 < nth t upa 0)%Z.
Hypothesis Hea : forall t, t < nsub -> sd t < nsub -> eaf ea t = true.

Notation cellof1 := (cellof subncol 1 subncol).

Lemma cellof_id s : cellof1 s = s.
Proof. unfold cellof, sub2idx. rewrite !Nat.div_1_r. pose proof (Nat.div_mod s subncol ltac:(lia)). lia. Qed.

Lemma rep_id sel : (forall t, t < nsub -> sd t < nsub -> sel t = true) -> forall idx, idx < nsub ->
  nth idx (repcell sds upa subncol 1 subnrow subncol sel) nsub = if sd idx <? nsub then idx else nsub.
Proof.
  intros Hsel idx Hidx.
  destruct (repcell_spec sds upa subncol 1 subnrow subncol sel) as (Hlen & Hin & Hex).
  rewrite <- Hsize in *.
  destruct (Nat.ltb_spec (sd idx) nsub) as [Hv|Hv].
  - assert (Hc : candidate sds sel idx) by (split; [auto|split; [auto|right; apply Hsel; auto]]).
    destruct (Hex idx Hc) as [Hlt _]; [rewrite cellof_id; auto|apply Hupa; auto|]. rewrite cellof_id in Hlt.
    destruct (Hin idx Hidx) as [E|[_ [E _]]]; [cbv zeta in E; lia|]. rewrite cellof_id in E. exact E.
  - destruct (Hin idx Hidx) as [E|[[_ [Hc _]] [E _]]]; [exact E|]. rewrite cellof_id in E. cbv zeta in *. rewrite E in Hc. lia.
Qed.

Lemma sds_as_map : map (fun i => sd i) (seq 0 nsub) = sds.
Proof.
  apply (nth_ext_len _ _ nsub); [rewrite map_length, seq_length; reflexivity|].
  intros i Hi. rewrite map_length, seq_length in Hi.
  rewrite (nth_indep _ nsub ((fun i => sd i) 0)) by (rewrite map_length, seq_length; auto).
  rewrite (map_nth (fun i => sd i)). rewrite seq_nth by auto. reflexivity.
Qed.

Theorem eam_scale1 : fst (fst (up_eam sds upa subnrow subncol 1 ea)) = sds.
Proof.
  unfold up_eam. rewrite !cdiv_1. cbn [fst]. unfold eam_nextidx, per_cell. rewrite <- Hsize.
  transitivity (map (fun i => sd i) (seq 0 nsub)); [|apply sds_as_map]. apply map_ext_in. intros idx0 Hin. apply in_seq in Hin.
  rewrite (rep_id (eaf ea) Hea idx0 ltac:(lia)).
  destruct (Nat.ltb_spec (sd idx0) nsub) as [Hv|Hv].
  - assert (Hl : (nsub <=? idx0) = false) by (apply Nat.leb_gt; lia). rewrite Hl.
    cbn [eam_walk]. rewrite !cellof_id.
    destruct (Nat.eqb_spec (sd idx0) idx0) as [E|E]; [auto|]. cbn [negb andb].
    rewrite (Hea (sd idx0) Hv (Hwf idx0 ltac:(lia) Hv)). reflexivity.
  - rewrite Nat.leb_refl. pose proof (Hmv idx0 ltac:(lia)). lia.
Qed.

(* eam_plus needs the fine links to join 8-neighbours (which D8 / LDD rasters guarantee) *)
Hypothesis Hd8 : forall t, t < nsub -> sd t < nsub -> in_d8 t (sd t) subncol = true.

Theorem eam_plus_scale1 : fst (fst (up_eam_plus sds upa subnrow subncol 1 ea)) = sds.
Proof.
  unfold up_eam_plus. rewrite !cdiv_1. cbn [fst].
  set (rep := repcell sds upa subncol 1 subnrow subncol (eaf ea)).
  assert (Hrep : forall idx, idx < nsub -> nth idx rep nsub = if sd idx <? nsub then idx else nsub) by (intros; apply rep_id; auto).
  (* the outlet pixel is the pixel itself *)
  set (out := ihu_outlets sds subncol 1 subnrow subncol rep).
  assert (Hout : forall idx, idx < nsub -> nth idx out nsub = if sd idx <? nsub then idx else nsub).
  { intros idx Hidx. unfold out, ihu_outlets. rewrite <- Hsize.
    rewrite (nth_indep _ nsub ((fun idx0 => let s := nth idx0 rep nsub in if nsub <=? s then nsub else out_walk sds subncol 1 subncol (S nsub) idx0 s) 0))
      by (rewrite map_length, seq_length; auto).
    rewrite (map_nth (fun idx0 => let s := nth idx0 rep nsub in if nsub <=? s then nsub else out_walk sds subncol 1 subncol (S nsub) idx0 s)).
    rewrite seq_nth by auto. cbv zeta. rewrite Nat.add_0_l. rewrite (Hrep idx Hidx).
    destruct (Nat.ltb_spec (sd idx) nsub) as [Hv|Hv]; [|rewrite Nat.leb_refl; reflexivity].
    assert (Hl : (nsub <=? idx) = false) by (apply Nat.leb_gt; lia). rewrite Hl.
    cbn [out_walk]. rewrite cellof_id.
    destruct (Nat.eqb_spec idx (sd idx)) as [E|E]; cbn [negb orb]; [rewrite <- E, Nat.eqb_refl; reflexivity|reflexivity]. }
  unfold ihu_nextidx, per_cell. rewrite <- Hsize. fold out.
  transitivity (map (fun i => sd i) (seq 0 nsub)); [|apply sds_as_map]. apply map_ext_in. intros idx0 Hin. apply in_seq in Hin.
  rewrite (Hout idx0 ltac:(lia)).
  destruct (Nat.ltb_spec (sd idx0) nsub) as [Hv|Hv].
  - assert (Hl : (nsub <=? idx0) = false) by (apply Nat.leb_gt; lia). rewrite Hl.
    cbn [ihu_walk]. rewrite !cellof_id.
    assert (Ho1 : nth (sd idx0) out nsub = sd idx0).
    { rewrite (Hout (sd idx0) Hv). assert (Hvv : (sd (sd idx0) <? nsub) = true) by (apply Nat.ltb_lt; apply Hwf; auto; lia). rewrite Hvv. reflexivity. }
    rewrite Ho1, Nat.eqb_refl. cbn [orb]. rewrite (Hd8 idx0 ltac:(lia) Hv). apply cellof_id.
  - rewrite Nat.leb_refl. pose proof (Hmv idx0 ltac:(lia)). lia.
Qed.
End Scale1.
