(* ihu_relocate_outlets, STEP 4: the small generated loops (np.where on idxs_us_conn, the nextd8 loop, the k0 loop and the
   two unroll loops) are equal to the corresponding parts of the hand model (Ihu.rl_step / rl_nextd8 / rl_drop / s4_unroll). *)
From Coq Require Import List Arith ZArith Bool Lia.
Import ListNotations.
From PF Require Import Arr Upscale D8Idx Ihu GenUpscaleBaseEq GenIhuBaseEq GenIhuOptEq GenIhuRelDefs.
From PFG Require Import GenUpscale GenIhu.

(* ---------- gen_ihu_bfold ---------- *)
Section Bfold.
Context {S X : Type} (f : S -> X -> S * bool).
Let G := fun (st_ : S * bool) (x_ : X) => if snd st_ then st_ else f (fst st_) x_.

Lemma rel_bfold_stuck l s : fold_left G l (s, true) = (s, true).
Proof. induction l as [|x l IH]; [reflexivity|]. cbn [fold_left]. unfold G at 2. cbn [snd]. exact IH. Qed.

Lemma rel_bfold_nil s : gen_ihu_bfold f [] s = s.
Proof. reflexivity. Qed.

Lemma rel_bfold_cons x l s :
  gen_ihu_bfold f (x :: l) s = if snd (f s x) then fst (f s x) else gen_ihu_bfold f l (fst (f s x)).
Proof.
  unfold gen_ihu_bfold. cbn [fold_left]. fold G. unfold G at 2. cbn [snd fst].
  destruct (f s x) as [s' b]. cbn [fst snd]. destruct b.
  - rewrite rel_bfold_stuck. reflexivity.
  - reflexivity.
Qed.
End Bfold.

(* ---------- list helpers ---------- *)
Lemma rel_filter_map {A B : Type} (p : B -> bool) (g : A -> B) (l : list A) :
  filter p (map g l) = map g (filter (fun x => p (g x)) l).
Proof. induction l as [|x l IH]; [reflexivity|]. cbn [map filter]. destruct (p (g x)); cbn [map]; rewrite IH; reflexivity. Qed.

Lemma rel_seq_add k n : seq k n = map (fun i => (i + k)%nat) (seq 0 n).
Proof.
  revert k. induction n as [|n IH]; intro k; [reflexivity|].
  cbn [seq map]. f_equal. rewrite (IH (Datatypes.S k)), <- seq_shift, map_map.
  apply map_ext. intro i. lia.
Qed.

Lemma rel_filter_none {A : Type} (p : A -> bool) (l : list A) :
  (forall x, In x l -> p x = false) -> filter p l = [].
Proof.
  induction l as [|x l IH]; intro H; [reflexivity|]. cbn [filter].
  rewrite (H x (or_introl eq_refl)). apply IH. intros y Hy. apply H. right. exact Hy.
Qed.

Lemma rel_nth_skipn {A : Type} (k i : nat) (l : list A) (d : A) : nth i (skipn k l) d = nth (k + i) l d.
Proof.
  revert l. induction k as [|k IH]; intro l; [reflexivity|].
  destruct l as [|x l]; [destruct i; reflexivity|]. cbn [skipn plus nth]. apply IH.
Qed.

Lemma rel_skipn_cons_nth {A : Type} (p : nat) (l : list A) (d : A) :
  p < length l -> skipn p l = nth p l d :: skipn (Datatypes.S p) l.
Proof.
  revert p. induction l as [|x l IH]; intros p H; [cbn in H; lia|].
  destruct p as [|p]; [reflexivity|]. cbn [length] in H.
  change (skipn p l = nth p l d :: skipn (Datatypes.S p) l). apply IH. lia.
Qed.

(* np.where on a tail of an array, shifted back *)
Lemma rel_where_skipn {A : Type} (f : A -> bool) (k : nat) (l : list A) (d : A) :
  map (fun i => (i + k)%nat) (gen_ihu_where (map f (skipn k l)))
  = filter (fun i => (k <=? i) && f (nth i l d)) (seq 0 (length l)).
Proof.
  unfold gen_ihu_where. rewrite map_length, skipn_length.
  destruct (le_lt_dec k (length l)) as [Hk|Hk].
  - replace (length l) with (k + (length l - k))%nat at 2 by lia.
    rewrite seq_app, filter_app. cbn [plus].
    rewrite (rel_filter_none _ (seq 0 k)).
    2:{ intros i Hi. apply in_seq in Hi. replace (k <=? i) with false; [reflexivity|].
        symmetry. apply Nat.leb_gt. lia. }
    cbn [app]. rewrite (rel_seq_add k), rel_filter_map. f_equal.
    apply filter_ext_in. intros i Hi. apply in_seq in Hi.
    replace (k <=? i + k) with true by (symmetry; apply Nat.leb_le; lia). cbn [andb].
    rewrite (nth_indep _ false (f d)) by (rewrite map_length, skipn_length; lia).
    rewrite map_nth, rel_nth_skipn. f_equal. f_equal. lia.
  - replace (length l - k)%nat with 0%nat by lia. cbn [seq filter map].
    symmetry. apply rel_filter_none. intros i Hi. apply in_seq in Hi.
    replace (k <=? i) with false; [reflexivity|]. symmetry. apply Nat.leb_gt. lia.
Qed.

Lemma rel_combine_map {A : Type} (f1 f2 : A -> bool) (l : list A) :
  map (fun p_ => (fst p_ && snd p_)) (combine (map f1 l) (map f2 l)) = map (fun x => f1 x && f2 x) l.
Proof. induction l as [|x l IH]; [reflexivity|]. cbn [map combine fst snd]. rewrite IH. reflexivity. Qed.

Lemma rel_zleb_nat a b : (Z.of_nat a <=? Z.of_nat b)%Z = (a <=? b).
Proof. destruct (Z.leb_spec (Z.of_nat a) (Z.of_nat b)), (Nat.leb_spec a b); try reflexivity; lia. Qed.

(* (1) ks = np.where(idxs_us_conn[k0:] >= j0 & idxs_us_conn[k0:] <= j)[0] + k0 *)
Theorem rel_ks_eq : forall (conn : list nat) (k0 j0 j : nat),
  map (fun i_ => (i_ + Z.to_nat (Z.of_nat k0))%nat)
      (gen_ihu_where (map (fun p_ => (fst p_ && snd p_))
         (combine (map (fun x_ => (x_ >=? Z.of_nat j0)%Z) (skipn (Z.to_nat (Z.of_nat k0)) (map Z.of_nat conn)))
                  (map (fun x_ => (x_ <=? Z.of_nat j)%Z) (skipn (Z.to_nat (Z.of_nat k0)) (map Z.of_nat conn))))))
  = filter (fun k => (k0 <=? k) && (j0 <=? nth k conn 0) && (nth k conn 0 <=? j)) (seq 0 (length conn)).
Proof.
  intros conn k0 j0 j. rewrite Nat2Z.id, rel_combine_map.
  rewrite (rel_where_skipn (fun x => (x >=? Z.of_nat j0)%Z && (x <=? Z.of_nat j)%Z) k0 (map Z.of_nat conn) (Z.of_nat 0)).
  rewrite map_length. apply filter_ext. intro i.
  rewrite map_nth, Z.geb_leb, !rel_zleb_nat, andb_assoc. reflexivity.
Qed.

(* (2) the nextd8 loop *)
Lemma rel_nextd8_gen : forall sds ncol (s : S4) (idx0 NCv : nat) (il sl : list nat), length il = length sl ->
  forall n p acc, n = (length sl - p)%nat ->
  gen_ihu_bfold (gen_ihu_ihu_relocate_outlets_step10 (s_out s) (length sds) NCv (Z.of_nat ncol) il sl (s_bott s)
                   (map fst (s_chg_out s)) (Z.of_nat idx0)) (List.seq p (length sl - p)) acc
  = rl_nextd8 sds ncol s idx0 p (skipn p il) (skipn p sl) acc.
Proof.
  intros sds ncol s idx0 NCv il sl Hlen n. induction n as [|n IH]; intros p acc Hn.
  - rewrite <- Hn. cbn [seq]. rewrite rel_bfold_nil.
    rewrite (skipn_all2 il) by lia. reflexivity.
  - rewrite <- Hn. cbn [seq]. rewrite rel_bfold_cons.
    rewrite (rel_skipn_cons_nth p il NCv) by lia.
    rewrite (rel_skipn_cons_nth p sl (length sds)) by lia.
    cbn [rl_nextd8]. unfold gen_ihu_ihu_relocate_outlets_step10. cbv zeta.
    rewrite Nat2Z.id, gen_up_in_d8_eq. unfold in_out.
    specialize (IH (Datatypes.S p)).
    replace (length sl - Datatypes.S p)%nat with n in IH by lia.
    destruct (memb (nth p il NCv) (map fst (s_chg_out s)) || memb (nth p il NCv) (s_bott s)).
    + cbn [snd fst]. apply IH. reflexivity.
    + destruct (in_d8 idx0 (nth p il NCv) ncol);
        destruct (nth (nth p il NCv) (s_out s) (length sds) =? nth p sl (length sds)); cbn [snd fst];
        rewrite ?orb_true_r, ?orb_false_r; try reflexivity; apply IH; reflexivity.
Qed.

Theorem rel_nextd8_eq : forall sds ncol (s : S4) (idx0 j NCv : nat) (il sl : list nat), length il = length sl ->
  gen_ihu_bfold (gen_ihu_ihu_relocate_outlets_step10 (s_out s) (length sds) NCv (Z.of_nat ncol) il sl (s_bott s)
                   (map fst (s_chg_out s)) (Z.of_nat idx0))
                (List.seq (Z.to_nat (Z.of_nat j + 1)%Z) (length sl - Z.to_nat (Z.of_nat j + 1)%Z)) false
  = rl_nextd8 sds ncol s idx0 (Datatypes.S j) (skipn (Datatypes.S j) il) (skipn (Datatypes.S j) sl) false.
Proof.
  intros sds ncol s idx0 j NCv il sl Hlen.
  replace (Z.to_nat (Z.of_nat j + 1)%Z) with (Datatypes.S j) by lia.
  apply (rel_nextd8_gen sds ncol s idx0 NCv il sl Hlen _ _ _ eq_refl).
Qed.

(* (3) the k0 loop *)
Theorem rel_drop_eq : forall nrow ncol il us0 (s : S4) j ks k0 (g : Z),
  snd (gen_ihu_bfold (gen_ihu_ihu_relocate_outlets_step13 (s_cds s) (nrow * ncol) il us0 (map fst (s_chg_out s)) j) ks
         (g, Z.of_nat k0))
  = Z.of_nat (rl_drop nrow ncol il us0 s j ks k0).
Proof.
  intros nrow ncol il us0 s j ks. induction ks as [|k ks IH]; intros k0 g.
  - rewrite rel_bfold_nil. reflexivity.
  - rewrite rel_bfold_cons. cbn [rl_drop].
    assert (E : gen_ihu_ihu_relocate_outlets_step13 (s_cds s) (nrow * ncol) il us0 (map fst (s_chg_out s)) j (g, Z.of_nat k0) k
                = let v := nth (nth k us0 (nrow * ncol)) (s_cds s) (nrow * ncol) in
                  if negb (memb v (skipn j il)) && negb (memb v (map fst (s_chg_out s)))
                  then ((Z.of_nat v, Z.of_nat k), false) else ((Z.of_nat v, Z.of_nat k0), true)).
    { unfold gen_ihu_ihu_relocate_outlets_step13. cbv beta iota zeta. rewrite Nat2Z.id. reflexivity. }
    rewrite E. clear E. cbv zeta. unfold in_out.
    destruct (negb (memb (nth (nth k us0 (nrow * ncol)) (s_cds s) (nrow * ncol)) (skipn j il))
              && negb (memb (nth (nth k us0 (nrow * ncol)) (s_cds s) (nrow * ncol)) (map fst (s_chg_out s)))).
    + cbn [snd fst]. apply IH.
    + reflexivity.
Qed.

(* (4) the unroll loops *)
Lemma rel_fold_left_map {A B C : Type} (F : A -> C -> A) (g : B -> C) (l : list B) (a : A) :
  fold_left F (map g l) a = fold_left (fun a x => F a (g x)) l a.
Proof. revert a. induction l as [|x l IH]; intro a; [reflexivity|]. cbn [map fold_left]. apply IH. Qed.

Lemma rel_fold_left_ext_in {A B : Type} (F G : A -> B -> A) (l : list B) (a : A) :
  (forall a x, In x l -> F a x = G a x) -> fold_left F l a = fold_left G l a.
Proof.
  revert a. induction l as [|x l IH]; intros a H; [reflexivity|]. cbn [fold_left].
  rewrite (H a x (or_introl eq_refl)). apply IH. intros a' y Hy. apply H. right. exact Hy.
Qed.

Lemma rel_fold_seq_nth {A B : Type} (F : A -> B -> A) (d : B) (L : list B) (a : A) :
  fold_left (fun st i => F st (nth i L d)) (seq 0 (length L)) a = fold_left F L a.
Proof.
  revert a. induction L as [|x L IH]; intro a; [reflexivity|].
  cbn [length seq fold_left nth]. rewrite <- seq_shift, rel_fold_left_map. cbn [nth]. apply IH.
Qed.

Lemma rel_unroll_rev_gen : forall (d : nat * nat) (chg : list (nat * nat)) (cds : list nat),
  fold_left (fun st i => upd st (nth (length (map fst chg) - 1 - i) (map fst chg) (fst d))
                                (nth (length (map snd chg) - 1 - i) (map snd chg) (snd d)))
            (List.seq 0 (length (map fst chg))) cds
  = fold_left (fun l p => upd l (fst p) (snd p)) (rev chg) cds.
Proof.
  intros d chg cds. rewrite <- (rel_fold_seq_nth (fun l p => upd l (fst p) (snd p)) d (rev chg)).
  rewrite rev_length, !map_length. apply rel_fold_left_ext_in. intros a i Hi. apply in_seq in Hi.
  rewrite !map_nth, rev_nth by lia. replace (length chg - Datatypes.S i)%nat with (length chg - 1 - i)%nat by lia.
  reflexivity.
Qed.

Lemma rel_unroll_fwd_gen : forall (d : nat * nat) (chg : list (nat * nat)) (out : list nat),
  fold_left (fun st i => upd st (nth i (map fst chg) (fst d)) (nth i (map snd chg) (snd d)))
            (List.seq 0 (length (map fst chg))) out
  = fold_left (fun l p => upd l (fst p) (snd p)) chg out.
Proof.
  intros d chg out. rewrite <- (rel_fold_seq_nth (fun l p => upd l (fst p) (snd p)) d chg).
  rewrite map_length. apply rel_fold_left_ext_in. intros a i Hi. rewrite !map_nth. reflexivity.
Qed.

Theorem rel_unroll_ds_eq : forall NCv (chg : list (nat * nat)) (cds : list nat),
  fold_left (gen_ihu_ihu_relocate_outlets_step14 NCv (map snd chg) (map fst chg)) (List.seq 0 (length (map fst chg))) cds
  = fold_left (fun l p => upd l (fst p) (snd p)) (rev chg) cds.
Proof. intros NCv chg cds. exact (rel_unroll_rev_gen (NCv, NCv) chg cds). Qed.

Theorem rel_unroll_out_eq : forall NSUBv NCv (chg : list (nat * nat)) (out : list nat),
  fold_left (gen_ihu_ihu_relocate_outlets_step15 NSUBv NCv (map snd chg) (map fst chg)) (List.seq 0 (length (map fst chg))) out
  = fold_left (fun l p => upd l (fst p) (snd p)) chg out.
Proof. intros NSUBv NCv chg out. exact (rel_unroll_fwd_gen (NCv, NSUBv) chg out). Qed.

Theorem rel_unroll_ds_eq16 : forall NCv (chg : list (nat * nat)) (cds : list nat),
  fold_left (gen_ihu_ihu_relocate_outlets_step16 NCv (map snd chg) (map fst chg)) (List.seq 0 (length (map fst chg))) cds
  = fold_left (fun l p => upd l (fst p) (snd p)) (rev chg) cds.
Proof. intros NCv chg cds. exact (rel_unroll_rev_gen (NCv, NCv) chg cds). Qed.

Theorem rel_unroll_out_eq17 : forall NSUBv NCv (chg : list (nat * nat)) (out : list nat),
  fold_left (gen_ihu_ihu_relocate_outlets_step17 NSUBv NCv (map snd chg) (map fst chg)) (List.seq 0 (length (map fst chg))) out
  = fold_left (fun l p => upd l (fst p) (snd p)) chg out.
Proof. intros NSUBv NCv chg out. exact (rel_unroll_fwd_gen (NCv, NSUBv) chg out). Qed.

(* the model's unroll, as the generated text computes it (lists as in `core`) *)
Theorem rel_unroll_core_eq : forall NSUBv NCv (s : S4),
  core (s4_unroll s)
  = (fold_left (gen_ihu_ihu_relocate_outlets_step14 NCv (map snd (s_chg_ds s)) (map fst (s_chg_ds s)))
       (List.seq 0 (length (map fst (s_chg_ds s)))) (s_cds s),
     fold_left (gen_ihu_ihu_relocate_outlets_step15 NSUBv NCv (map snd (s_chg_out s)) (map fst (s_chg_out s)))
       (List.seq 0 (length (map fst (s_chg_out s)))) (s_out s),
     s_next s, s_bott s, map snd (s_chg_out s), map fst (s_chg_out s), map snd (s_chg_ds s), map fst (s_chg_ds s)).
Proof. intros NSUBv NCv s. rewrite rel_unroll_ds_eq, rel_unroll_out_eq. reflexivity. Qed.

Theorem rel_unroll_core_eq' : forall NSUBv NCv (s : S4),
  core (s4_unroll s)
  = (fold_left (gen_ihu_ihu_relocate_outlets_step16 NCv (map snd (s_chg_ds s)) (map fst (s_chg_ds s)))
       (List.seq 0 (length (map fst (s_chg_ds s)))) (s_cds s),
     fold_left (gen_ihu_ihu_relocate_outlets_step17 NSUBv NCv (map snd (s_chg_out s)) (map fst (s_chg_out s)))
       (List.seq 0 (length (map fst (s_chg_out s)))) (s_out s),
     s_next s, s_bott s, map snd (s_chg_out s), map fst (s_chg_out s), map snd (s_chg_ds s), map fst (s_chg_ds s)).
Proof. intros NSUBv NCv s. rewrite rel_unroll_ds_eq16, rel_unroll_out_eq17. reflexivity. Qed.

Print Assumptions rel_ks_eq.
Print Assumptions rel_nextd8_eq.
Print Assumptions rel_drop_eq.
Print Assumptions rel_unroll_ds_eq.
Print Assumptions rel_unroll_out_eq.
Print Assumptions rel_unroll_ds_eq16.
Print Assumptions rel_unroll_out_eq17.
Print Assumptions rel_unroll_core_eq.
Print Assumptions rel_unroll_core_eq'.
