(* core._d8_idx, core._upstream_d8_idx and upscale.ihu_optimize_rivlen, REGENERATED from the Python source
   (generated/GenIhu.v by tools/gen_ihu.py), equal the hand models D8Idx.d8_idx, D8Idx.upstream_d8_idx and Ihu.optimize_rivlen.
   The generated ihu_optimize_rivlen returns None when a `while True` walk of new_outlet runs out of fuel or the assertion
   `idx != idx1` fails; the model sets its sticky error flag (1 / 2) and goes on: the two agree as Some (arrays) when the
   model's flag stays 0 and as None otherwise.  Hypotheses: nomv_cell (see GenIhuBaseEq.v), the flag is 0 at the start, the
   coarse array idxs_ds has nrow * ncol elements (the generated text reads it with the default idxs_ds.size, the model with
   nrow * ncol).  No axioms. *)
From Coq Require Import List Arith ZArith Bool Lia.
Import ListNotations.
From PF Require Import Arr Net Elev Upscale D8Idx Ihu GenCodecBaseEq GenUpscaleBaseEq GenIhuBaseEq GenIhuNewEq.
From PFG Require Import GenUpscale GenIhu.

(* ---------- _d8_idx ---------- *)
Lemma d8_step2_eq nrow ncol r c dr dc acc :
  ((dr =? 0)%Z && (dc =? 0)%Z) = false ->
  gen_ihu__d8_idx_step2 nrow ncol r c dr acc dc
  = acc ++ (if ((0 <=? r + dr) && (r + dr <? nrow) && (0 <=? c + dc) && (c + dc <? ncol))%Z
            then [Z.to_nat ((r + dr) * ncol + (c + dc))] else []).
Proof.
  intros H. unfold gen_ihu__d8_idx_step2. cbv zeta. rewrite H, !Z.geb_leb.
  destruct (_ && _ && _ && _); [reflexivity | rewrite app_nil_r; reflexivity].
Qed.

Lemma d8_step2_00 nrow ncol r c acc : gen_ihu__d8_idx_step2 nrow ncol r c 0 acc 0 = acc.
Proof. reflexivity. Qed.

Theorem gen_ihu_d8_idx_eq : forall idx0 nrow ncol : nat,
  gen_ihu__d8_idx idx0 (Z.of_nat nrow, Z.of_nat ncol) = d8_idx idx0 nrow ncol.
Proof.
  intros idx0 nrow ncol. unfold gen_ihu__d8_idx. rewrite zdiv_nat, zmod_nat. cbv zeta.
  unfold d8_idx. cbv zeta.
  set (r := Z.of_nat (idx0 / ncol)). set (c := Z.of_nat (idx0 mod ncol)).
  unfold gen_ihu__d8_idx_step1. cbn [fold_left].
  rewrite d8_step2_00. rewrite !d8_step2_eq by reflexivity.
  unfold offsets8. cbn [flat_map fst snd].
  rewrite <- !app_assoc. rewrite app_nil_r. reflexivity.
Qed.

(* ---------- _upstream_d8_idx ---------- *)
Theorem gen_ihu_upstream_d8_idx_eq : forall (cds : list nat) (idx0 nrow ncol : nat),
  gen_ihu__upstream_d8_idx idx0 cds (Z.of_nat nrow, Z.of_nat ncol) = upstream_d8_idx cds idx0 nrow ncol.
Proof.
  intros cds idx0 nrow ncol. unfold gen_ihu__upstream_d8_idx, upstream_d8_idx. cbv zeta.
  rewrite gen_ihu_d8_idx_eq.
  change (gen_ihu__upstream_d8_idx_step1 idx0 cds (length cds))
    with (fun (a : list nat) (i : nat) => if (fun i => (dsf cds i =? idx0)%nat) i then a ++ [i] else a).
  rewrite fold_filter. reflexivity.
Qed.

(* ---------- ihu_optimize_rivlen ---------- *)
Lemma forallb_id_map {X : Type} (f : X -> bool) : forall l, forallb (fun b => b) (map f l) = forallb f l.
Proof. induction l as [|x l IH]; cbn [map forallb]; [reflexivity|rewrite IH; reflexivity]. Qed.

Lemma forallb_ext' {X : Type} (f g : X -> bool) : (forall x, f x = g x) -> forall l, forallb f l = forallb g l.
Proof. intros H. induction l as [|x l IH]; cbn [forallb]; [reflexivity|rewrite H, IH; reflexivity]. Qed.

Definition enc (a : A) : option (list Z * list nat * list nat) :=
  if (a_err a =? 0)%nat then Some (a_st a, a_cds a, a_out a) else None.

Lemma enc_ok a : a_err a = 0%nat -> enc a = Some (a_st a, a_cds a, a_out a).
Proof. intros H. unfold enc. rewrite H. reflexivity. Qed.

Lemma enc_none a : a_err a <> 0%nat -> enc a = None.
Proof. intros H. unfold enc. apply Nat.eqb_neq in H. rewrite H. reflexivity. Qed.

Section Opt.
Variable sds : list nat.
Variable upa : list Z.
Variables subncol cs nrow ncol : nat.
Variable valid : list bool.
Hypothesis Hmv : nomv_cell sds subncol cs ncol.
Notation nsub := (length sds).
Notation nc := (nrow * ncol)%nat.
Notation shape := (Z.of_nat nrow, Z.of_nat ncol).

(* the function of the inner loop of the model *)
Definition istep (idx0 subidx0 idx1 : nat) (a : A) (idx : nat) : A :=
  if nth idx valid true then (if (idx =? idx1)%nat then set_err a 2 else set_cds a idx idx1)
  else if (nth idx0 (a_cds a) nc =? idx)%nat then
    let a := set_st a (nth idx0 (a_out a) nsub) (-1)%Z in
    let a := set_st a subidx0 (Z.of_nat idx0) in
    let a := set_out a idx0 subidx0 in
    set_cds a idx0 idx1
  else a.

Lemma opt_one_unf a idx0 :
  opt_one sds upa subncol cs nrow ncol valid a idx0
  = (let subidx0 := nth idx0 (a_out a) nsub in
     let idx1 := nth idx0 (a_cds a) nc in
     if (idx1 =? idx0)%nat || negb (nth idx1 valid true) || negb (nth idx0 valid true) then (a, false)
     else
       let us := upstream_d8_idx (a_cds a) idx0 nrow ncol in
       if forallb (fun idx => in_d8 idx idx1 ncol) (filter (fun idx => nth idx valid true) us) then
         let '(a1, success) := new_outlet sds upa subncol cs ncol a idx0 subidx0 None in
         if success then (fold_left (istep idx0 subidx0 idx1) us a1, true) else (a1, false)
       else (a, false)).
Proof. reflexivity. Qed.

Definition ostep (a : A) (i : nat) : A :=
  let second := nth i (a_cds a) nc in
  let '(a1, brk) := opt_one sds upa subncol cs nrow ncol valid a i in
  if brk then a1 else fst (opt_one sds upa subncol cs nrow ncol valid a1 second).

Lemma optimize_rivlen_unf short a :
  optimize_rivlen sds upa subncol cs nrow ncol valid short a = fold_left ostep short a.
Proof. reflexivity. Qed.

(* ----- the error flag is sticky ----- *)
Lemma istep_sticky idx0 subidx0 idx1 a idx : a_err a <> 0%nat -> a_err (istep idx0 subidx0 idx1 a idx) <> 0%nat.
Proof.
  intros H. unfold istep. cbv zeta.
  destruct (nth idx valid true).
  - destruct (idx =? idx1)%nat; [|exact H].
    unfold set_err. cbn [a_err]. apply Nat.eqb_neq in H. rewrite H. apply Nat.eqb_neq. exact H.
  - destruct (_ =? _)%nat; exact H.
Qed.

Lemma ifold_sticky idx0 subidx0 idx1 : forall l a, a_err a <> 0%nat ->
  a_err (fold_left (istep idx0 subidx0 idx1) l a) <> 0%nat.
Proof.
  induction l as [|x l IH]; intros a H; cbn [fold_left]; [exact H|]. apply IH, istep_sticky, H.
Qed.

Lemma new_outlet_sticky a idx0 subidx0 tgt : a_err a <> 0%nat ->
  a_err (fst (new_outlet sds upa subncol cs ncol a idx0 subidx0 tgt)) <> 0%nat.
Proof.
  intros H. rewrite new_outlet_unf. cbv zeta.
  destruct (fold_left _ _ _) as [[u b] ok].
  apply Nat.eqb_neq in H.
  destruct ok; destruct b as [[[so i1] p]|]; cbn [fst a_err]; rewrite ?H; apply Nat.eqb_neq; exact H.
Qed.

Lemma opt_one_sticky a idx0 : a_err a <> 0%nat ->
  a_err (fst (opt_one sds upa subncol cs nrow ncol valid a idx0)) <> 0%nat.
Proof.
  intros H. rewrite opt_one_unf. cbv zeta.
  destruct (_ || _ || _); [exact H|].
  destruct (forallb _ _); [|exact H].
  pose proof (new_outlet_sticky a idx0 (nth idx0 (a_out a) nsub) None H) as Hn.
  destruct (new_outlet _ _ _ _ _ _ _ _ _) as [a1 success]. cbn [fst] in Hn.
  destruct success; cbn [fst]; [apply ifold_sticky; exact Hn|exact Hn].
Qed.

Lemma ostep_sticky a i : a_err a <> 0%nat -> a_err (ostep a i) <> 0%nat.
Proof.
  intros H. unfold ostep. cbv zeta.
  pose proof (opt_one_sticky a i H) as H1.
  destruct (opt_one _ _ _ _ _ _ _ a i) as [a1 brk]. cbn [fst] in H1.
  destruct brk; [exact H1|apply opt_one_sticky; exact H1].
Qed.

Lemma ofold_sticky : forall l a, a_err a <> 0%nat -> a_err (fold_left ostep l a) <> 0%nat.
Proof.
  induction l as [|x l IH]; intros a H; cbn [fold_left]; [exact H|]. apply IH, ostep_sticky, H.
Qed.

(* ----- the inner loop ----- *)
Lemma step3_eq idx0 subidx0 idx1 a idx : a_err a = 0%nat ->
  gen_ihu_ihu_optimize_rivlen_step3 valid nsub nc idx0 subidx0 idx1 (a_st a, a_cds a, a_out a) idx
  = enc (istep idx0 subidx0 idx1 a idx).
Proof.
  intros H. unfold gen_ihu_ihu_optimize_rivlen_step3, istep. cbv zeta.
  destruct (nth idx valid true).
  - destruct (idx =? idx1)%nat; cbn [negb].
    + symmetry. apply enc_none. unfold set_err. cbn [a_err]. rewrite H. cbn [Nat.eqb]. discriminate.
    + rewrite enc_ok by exact H. reflexivity.
  - destruct (_ =? _)%nat; rewrite enc_ok by exact H; reflexivity.
Qed.

Lemma ifold_eq idx0 subidx0 idx1 : forall l a, a_err a = 0%nat ->
  GenIhu.ofold (gen_ihu_ihu_optimize_rivlen_step3 valid nsub nc idx0 subidx0 idx1) l (a_st a, a_cds a, a_out a)
  = enc (fold_left (istep idx0 subidx0 idx1) l a).
Proof.
  induction l as [|x l IH]; intros a H; [rewrite ofold_nil; cbn [fold_left]; symmetry; apply enc_ok, H|].
  rewrite ofold_cons, step3_eq by exact H. cbn [fold_left].
  destruct (Nat.eq_dec (a_err (istep idx0 subidx0 idx1 a x)) 0) as [E|E].
  - rewrite enc_ok by exact E. apply IH, E.
  - rewrite enc_none by exact E. symmetry. apply enc_none, ifold_sticky, E.
Qed.

(* ----- one element of the two-element loop ----- *)
Lemma step2_eq a idx0 : a_err a = 0%nat ->
  gen_ihu_ihu_optimize_rivlen_step2 (S nsub) valid sds upa shape (Z.of_nat cs) (Z.of_nat cs) (Z.of_nat (cs * cs)) nsub nc
    (Z.of_nat subncol) (Z.of_nat ncol) (a_st a, a_cds a, a_out a) idx0
  = (let r := opt_one sds upa subncol cs nrow ncol valid a idx0 in
     match enc (fst r) with Some s => Some (s, snd r) | None => None end).
Proof.
  intros H. unfold gen_ihu_ihu_optimize_rivlen_step2. cbv zeta. rewrite opt_one_unf. cbv zeta.
  set (idx1 := nth idx0 (a_cds a) nc). set (subidx0 := nth idx0 (a_out a) nsub).
  assert (En : forall b : bool, Bool.eqb b false = negb b) by (intros [|]; reflexivity).
  rewrite !En.
  destruct (_ || _ || _); [cbn [fst snd]; rewrite enc_ok by exact H; reflexivity|].
  rewrite gen_ihu_upstream_d8_idx_eq.
  set (us := upstream_d8_idx (a_cds a) idx0 nrow ncol).
  assert (Ec : ((Z.of_nat (length us) =? 0)%Z
                || forallb (fun b_ => b_) (map (fun idx => gen_up_in_d8 (Z.of_nat idx) (Z.of_nat idx1) (Z.of_nat ncol))
                                            (filter (fun idx => nth idx valid true) us)))
               = forallb (fun idx => in_d8 idx idx1 ncol) (filter (fun idx => nth idx valid true) us)).
  { rewrite forallb_id_map.
    rewrite (forallb_ext' _ (fun idx => in_d8 idx idx1 ncol)) by (intros x; apply gen_up_in_d8_eq).
    destruct us as [|u0 us']; [reflexivity|].
    cbn [length]. rewrite Nat2Z.inj_succ.
    destruct (Z.eqb_spec (Z.succ (Z.of_nat (length us'))) 0) as [E|_]; [lia|reflexivity]. }
  rewrite Ec. clear Ec.
  destruct (forallb _ _); [|cbn [fst snd]; rewrite enc_ok by exact H; reflexivity].
  rewrite gen_ihu_new_outlet_eq by
    (first [exact H | intros s Hs Hm Hc; rewrite <- Hc; apply Hmv; assumption]).
  cbv zeta.
  pose proof (fun E => ifold_sticky idx0 subidx0 idx1 us (fst (new_outlet sds upa subncol cs ncol a idx0 subidx0 None)) E) as Hst.
  destruct (new_outlet sds upa subncol cs ncol a idx0 subidx0 None) as [a1 success]. cbn [fst snd] in *.
  destruct (Nat.eq_dec (a_err a1) 0) as [E|E].
  - rewrite E. cbn [Nat.eqb].
    destruct success; cbn [fst snd].
    + rewrite ifold_eq by exact E.
      destruct (enc _) as [[[s c] o]|]; reflexivity.
    + rewrite enc_ok by exact E. reflexivity.
  - pose proof E as E'. apply Nat.eqb_neq in E'. rewrite E'.
    destruct success; cbn [fst snd].
    + rewrite enc_none by (apply Hst; exact E). reflexivity.
    + rewrite enc_none by exact E. reflexivity.
Qed.

(* ----- the two-element loop ----- *)
Lemma step1_eq short a i : a_err a = 0%nat ->
  gen_ihu_ihu_optimize_rivlen_step1 (S nsub) short valid sds upa shape (Z.of_nat cs) (Z.of_nat cs) (Z.of_nat (cs * cs)) nsub nc
    (Z.of_nat subncol) (Z.of_nat ncol) (a_st a, a_cds a, a_out a) i
  = enc (ostep a (nth i short nc)).
Proof.
  intros H. unfold gen_ihu_ihu_optimize_rivlen_step1, gen_ihu_obfold. cbn [fold_left].
  rewrite step2_eq by exact H. cbv zeta. unfold ostep. cbv zeta.
  set (x := nth i short nc).
  pose proof (opt_one_sticky a x) as Hst0.
  destruct (opt_one sds upa subncol cs nrow ncol valid a x) as [a1 brk]. cbn [fst snd] in *.
  destruct (Nat.eq_dec (a_err a1) 0) as [E|E].
  - rewrite (enc_ok a1) by exact E.
    destruct brk.
    + rewrite enc_ok by exact E. reflexivity.
    + rewrite step2_eq by exact E. cbv zeta.
      destruct (opt_one sds upa subncol cs nrow ncol valid a1 (nth x (a_cds a) nc)) as [a2 brk2]. cbn [fst snd].
      destruct (enc a2) as [[[s c] o]|]; reflexivity.
  - rewrite (enc_none a1) by exact E.
    destruct brk.
    + rewrite enc_none by exact E. reflexivity.
    + rewrite enc_none by (apply opt_one_sticky; exact E). reflexivity.
Qed.

Lemma ofold_eq : forall l a, a_err a = 0%nat ->
  GenIhu.ofold (fun st x => match st with (s, c, o) => enc (ostep (mkA c o s 0) x) end) l (a_st a, a_cds a, a_out a)
  = enc (fold_left ostep l a).
Proof.
  induction l as [|x l IH]; intros a H; [rewrite ofold_nil; cbn [fold_left]; symmetry; apply enc_ok, H|].
  rewrite ofold_cons. cbn [fold_left].
  assert (Ea : mkA (a_cds a) (a_out a) (a_st a) 0 = a) by (destruct a as [c o s e]; cbn [a_err] in H; subst e; reflexivity).
  rewrite Ea.
  destruct (Nat.eq_dec (a_err (ostep a x)) 0) as [E|E].
  - rewrite enc_ok by exact E. apply IH, E.
  - rewrite enc_none by exact E. symmetry. apply enc_none, ofold_sticky, E.
Qed.
End Opt.

Theorem gen_ihu_optimize_rivlen_eq : forall (sds : list nat) (upa : list Z) (subnrow : Z) (subncol cs nrow ncol : nat)
    (valid : list bool) (short : list nat) (a : A),
  nomv_cell sds subncol cs ncol ->
  a_err a = 0%nat ->
  length (a_cds a) = (nrow * ncol)%nat ->
  gen_ihu_ihu_optimize_rivlen (S (length sds)) short valid (a_st a) (a_cds a) (a_out a) sds upa (subnrow, Z.of_nat subncol)
      (Z.of_nat nrow, Z.of_nat ncol) (Z.of_nat cs) (Z.of_nat cs) (Z.of_nat (cs * cs))
  = (let a' := optimize_rivlen sds upa subncol cs nrow ncol valid short a in
     if (a_err a' =? 0)%nat then Some (a_cds a', a_out a', a_st a') else None).
Proof.
  intros sds upa subnrow subncol cs nrow ncol valid short a Hmv Herr Hlen.
  unfold gen_ihu_ihu_optimize_rivlen. cbv zeta. rewrite Hlen.
  rewrite (ofold_seq_nth _
     (fun st x => match st with (s, c, o) => enc (ostep sds upa subncol cs nrow ncol valid (mkA c o s 0) x) end)
     (nrow * ncol)%nat short 0).
  - rewrite ofold_eq by exact Herr. rewrite optimize_rivlen_unf.
    unfold enc. destruct (_ =? _)%nat; reflexivity.
  - intros [[s c] o] i _. cbn [Nat.add].
    apply (step1_eq sds upa subncol cs nrow ncol valid Hmv short (mkA c o s 0) i). reflexivity.
Qed.

Print Assumptions gen_ihu_d8_idx_eq.
Print Assumptions gen_ihu_upstream_d8_idx_eq.
Print Assumptions gen_ihu_optimize_rivlen_eq.
