From Coq Require Import List Arith ZArith Bool.
Import ListNotations.
From PF Require Import Arr Net Elev Glue.
Local Open Scope Z_scope.

Definition mask_opt15 (has : Z) (l : list Z) : option (list bool) := if has =? 0 then None else Some (bs l).
Fixpoint zlist_eqb (a b : list Z) : bool :=
  match a, b with
  | [], [] => true
  | x :: a', y :: b' => (x =? y) && zlist_eqb a' b'
  | _, _ => false
  end.

Definition run_dig (ds : list nat) (args : list (list Z)) : option (list Z) :=
  dig_d4 ds (argn 3 args) (argn 4 args) (mask_opt15 (argz 5 args) (arg 6 args)) (argz 7 args)
         (negb (argz 8 args =? 0)) (ns (arg 1 args)) (arg 2 args).

Definition run_c15 (k : Z) (args : list (list Z)) : list (list Z) :=
  if k =? 1500 then [[0]]
  else if k =? 1501 then [fix1d (cost_of (argz 1 args)) (arg 0 args)]   (* arg 1: modulus of an unsigned element type, 0 = exact *)
  else
  let ds := net_in (arg 0 args) in
  let sq := ns (arg 1 args) in
  if k =? 1502 then [adjust (fix1d (cost_of (argz 3 args))) ds sq (arg 2 args)]
  else if k =? 1503 then
    match run_dig ds args with Some e => [[1]; e] | None => [[0]] end
  else if k =? 1504 then
    (* the object's own order: it must be a complete topological order and the model run on it must
       give the implementation's result (arg 3) *)
    [[zb (check_topo ds sq); zb (check_complete ds sq); zb (zlist_eqb (adjust (fix1d (cost_of (argz 4 args))) ds sq (arg 2 args)) (arg 3 args))]]
  else if k =? 1507 then
    [[zb (check_topo ds sq); zb (check_complete ds sq);
      zb (match run_dig ds args with Some e => zlist_eqb e (arg 9 args) | None => false end)]]
  else [[-999]].
