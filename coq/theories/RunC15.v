From Coq Require Import List Arith ZArith Bool.
Import ListNotations.
From PF Require Import Arr Net Elev Glue.
Local Open Scope Z_scope.

Definition mask_opt15 (has : Z) (l : list Z) : option (list bool) := if has =? 0 then None else Some (bs l).

Definition run_c15 (k : Z) (args : list (list Z)) : list (list Z) :=
  if k =? 1501 then [fix1d (arg 0 args)]
  else
  let ds := net_in (arg 0 args) in
  if k =? 1502 then [adjust fix1d ds (ns (arg 1 args)) (arg 2 args)]
  else if k =? 1503 then
    match dig_d4 ds (argn 3 args) (argn 4 args) (mask_opt15 (argz 5 args) (arg 6 args)) (argz 7 args)
                 (negb (argz 8 args =? 0)) (ns (arg 1 args)) (arg 2 args) with
    | Some e => [[1]; e]
    | None => [[0]]
    end
  else [[-999]].
