(* Pfafstetter closure, part F: the loop over the pits establishes the invariants. *)
From Coq Require Import List Arith ZArith Bool Lia.
Import ListNotations.
From PF Require Import Arr Net SweepDown Fill FillSpec Rank Stream Subbas PfafDigits.
From PF Require Import PfafClosureA PfafClosureB PfafClosureC PfafClosureD PfafClosureE.
Local Open Scope Z_scope.

Definition pit_step (n : nat) (main : list nat) (so : list Z) (depth base : Z)
  (st : list Z * list nat * list (Z * Z)) (ip : nat * nat) : list Z * list nat * list (Z * Z) :=
  let '(branch, idxs, labs) := st in
  let '(i, idx) := ip in
  let pfaf1 := base + (Z.of_nat i + 1) * pow10 depth in
  (climb n n main (stop_so so) pfaf1 (upd branch idx pfaf1) idx, idxs ++ [idx], labs ++ [(pfaf1, 1)]).

Section Pits.
Variable ds : list nat.
Variable main : list nat.
Variable so : list Z.
Let n := length ds.
Notation mn x := (nth x main n).
Notation dsf := (dsf ds).
Hypothesis HM : forall x, (mn x < n)%nat -> dsf (mn x) = x /\ mn x <> x.
Variable depth : Z.
Hypothesis Hdepth : 1 <= depth.
Variable base : Z.
Hypothesis Hbase : 0 <= base.
Let D := pow10 depth.

Lemma D_pos : 0 < D.
Proof. unfold D, pow10. apply Z.pow_pos_nonneg; lia. Qed.
Lemma W_one : W depth 1 = D.
Proof. unfold W, D, pow10. f_equal. lia. Qed.

Record PINV (i : nat) (rem : list nat) (b : list Z) (idxs : list nat) (labs : list (Z * Z)) : Prop := {
  p_inv : INV ds main b idxs;
  p_rem : forall p, In p rem -> (p < n)%nat /\ dsf p = p /\ ~ In p idxs;
  p_vals : forall c, lab b c = 0 \/ exists j, 1 <= j <= Z.of_nat i /\ lab b c = base + j * D;
  p_labs : forall e, In e labs -> exists j, 1 <= j <= Z.of_nat i /\ e = (base + j * D, 1);
  p_disj : disj depth labs
}.

Lemma pit_fold_inv : forall rem i b idxs labs, NoDup rem -> PINV i rem b idxs labs ->
  let r := fold_left (pit_step n main so depth base) (combine (seq i (length rem)) rem) (b, idxs, labs) in
  LINV ds main depth (fst (fst r)) (snd (fst r)) (snd r).
Proof.
  pose proof D_pos as HD.
  induction rem as [|p0 rest IH]; intros i b idxs labs Hnd HP.
  - cbn [length seq combine fold_left fst snd]. split; [apply (p_inv _ _ _ _ _ HP)|].
    split; [|apply (p_disj _ _ _ _ _ HP)].
    intros e He. destruct (p_labs _ _ _ _ _ HP e He) as (j & J1 & ->).
    unfold entry_ok. cbn [fst snd]. split; [nia|]. split; [lia|]. rewrite W_one.
    intros c Hc. destruct (p_vals _ _ _ _ _ HP c) as [E|(j' & K1 & K2)].
    + rewrite E in Hc. nia.
    + rewrite K2 in Hc. assert (j < j') by nia. assert (j' < j + 1) by nia. lia.
  - cbn [length seq combine fold_left]. unfold pit_step at 2. fold D.
    set (iz := Z.of_nat i) in *.
    set (pfaf1 := base + (iz + 1) * D).
    inversion Hnd as [|x l Hni Hnd']; subst x l.
    pose proof (p_inv _ _ _ _ _ HP) as HI.
    destruct (p_rem _ _ _ _ _ HP p0 (or_introl eq_refl)) as (P1 & P2 & P3).
    assert (Hl0 : lab b p0 = 0).
    { destruct (Z.eq_dec (lab b p0) 0) as [E|E]; [exact E|exfalso].
      destruct (inv1 _ _ _ _ HI p0 P1 E P3) as (_ & A & _). contradiction. }
    assert (Hfresh : forall c, lab b c <> pfaf1).
    { intros c E. destruct (p_vals _ _ _ _ _ HP c) as [E0|(j & J1 & J2)].
      - rewrite E0 in E. unfold pfaf1 in E. nia.
      - rewrite J2 in E. unfold pfaf1 in E. nia. }
    destruct (outlet_sub ds main HM (stop_so so) pfaf1 idxs b p0 n HI ltac:(unfold pfaf1; nia) P1 Hl0 (or_introl P2) Hfresh)
      as [HI1 V1].
    fold n in HI1, V1.
    apply (IH (S i)); [exact Hnd'|]. constructor.
    + exact HI1.
    + intros p Hp. destruct (p_rem _ _ _ _ _ HP p (or_intror Hp)) as (Q1 & Q2 & Q3).
      split; [exact Q1|]. split; [exact Q2|]. intros H. apply in_app_or in H.
      destruct H as [H|[<-|[]]]; contradiction.
    + intros c. destruct (V1 c) as [E|[_ E]].
      * rewrite E. destruct (p_vals _ _ _ _ _ HP c) as [E0|(j & J1 & J2)]; [left; exact E0|right].
        exists j. split; [lia|exact J2].
      * right. exists (iz + 1). split; [unfold iz; lia|exact E].
    + intros e He. apply in_app_or in He. destruct He as [He|[<-|[]]].
      * destruct (p_labs _ _ _ _ _ HP e He) as (j & J1 & J2). exists j. split; [lia|exact J2].
      * exists (iz + 1). split; [unfold iz; lia|reflexivity].
    + apply disj_snoc; [apply (p_disj _ _ _ _ _ HP)|].
      intros e He. destruct (p_labs _ _ _ _ _ HP e He) as (j & J1 & ->).
      unfold edisj. cbn [fst snd]. rewrite W_one. left. unfold pfaf1. nia.
Qed.

Lemma pinv_init rem : (forall p, In p rem -> (p < n)%nat /\ dsf p = p) -> PINV 0 rem (repeat 0 n) [] [].
Proof.
  intros Hp. constructor.
  - constructor.
    + apply repeat_length.
    + intros c _ Hl. exfalso. apply Hl. apply nth_repeat0.
    + intros o [].
    + intros o [].
    + intros o1 o2 [].
  - intros p H. destruct (Hp p H) as [A B]. split; [exact A|]. split; [exact B|]. intros [].
  - intros c. left. apply nth_repeat0.
  - intros e [].
  - exact I.
Qed.
End Pits.
