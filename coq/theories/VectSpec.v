(* C19: stream vectorisation. *)
From Coq Require Import List Arith ZArith QArith Qround Lia Bool.
Import ListNotations.
From PF Require Import Arr Net Rank Stream Vect.
Local Open Scope Z_scope.

(* the links (consecutive vertex pairs) of a polyline *)
Definition pairs {A} (l : list A) : list (A * A) := combine l (tl l).

Lemma pairs_cons {A} (a b : A) l : pairs (a :: b :: l) = (a, b) :: pairs (b :: l).
Proof. reflexivity. Qed.

(* cutting a polyline after n links: the two parts share the cut vertex and lose no link *)
Lemma pairs_split {A} (l : list A) n : pairs (firstn (S n) l) ++ pairs (skipn n l) = pairs l.
Proof.
  revert l. induction n as [|n IH]; intros l.
  - destruct l as [|a l]; reflexivity.
  - destruct l as [|a l]; [reflexivity|]. destruct l as [|b l]; [destruct n; reflexivity|].
    change (firstn (S (S n)) (a :: b :: l)) with (a :: b :: firstn n l).
    change (skipn (S n) (a :: b :: l)) with (skipn n (b :: l)).
    rewrite pairs_cons. simpl app. rewrite pairs_cons. f_equal.
    change (b :: firstn n l) with (firstn (S n) (b :: l)). apply IH.
Qed.

(* the pieces produced by the cutting rule, written recursively *)
Fixpoint pieces (n : nat) (k : nat) (l : list nat) : list (list nat) :=
  match k with
  | O => []
  | S O => [l]
  | S k' => firstn (S n) l :: pieces n k' (skipn n l)
  end.

Lemma pieces_links n k l : (1 <= k)%nat -> concat (map pairs (pieces n k l)) = pairs l.
Proof.
  revert l. induction k as [|k IH]; intros l Hk; [lia|].
  destruct k as [|k]; [simpl; rewrite app_nil_r; reflexivity|].
  change (pieces n (S (S k)) l) with (firstn (S n) l :: pieces n (S k) (skipn n l)).
  cbn [map concat]. rewrite IH by lia. apply pairs_split.
Qed.

Lemma skipn_skipn {A} a b (l : list A) : skipn a (skipn b l) = skipn (b + a) l.
Proof. revert l; induction b as [|b IH]; intros l; simpl; auto. destruct l; [rewrite skipn_nil; reflexivity|]. apply IH. Qed.

Lemma cut_map_pieces n : forall k s l, (1 <= k)%nat ->
  map (fun i => if (Z.of_nat i + 1 =? Z.of_nat (s + k)) then skipn (i * n) l
                else slice l (i * n) (n * (i + 1) + 1)) (seq s k)
  = pieces n k (skipn (s * n) l).
Proof.
  induction k as [|k IH]; intros s l Hk; [lia|].
  destruct k as [|k].
  - simpl. replace (Z.of_nat s + 1 =? Z.of_nat (s + 1)) with true by (symmetry; apply Z.eqb_eq; lia). reflexivity.
  - change (seq s (S (S k))) with (s :: seq (S s) (S k)). cbn [map].
    replace (Z.of_nat s + 1 =? Z.of_nat (s + S (S k))) with false by (symmetry; apply Z.eqb_neq; lia).
    change (pieces n (S (S k)) (skipn (s * n) l)) with (firstn (S n) (skipn (s * n) l) :: pieces n (S k) (skipn n (skipn (s * n) l))).
    f_equal.
    + unfold slice. f_equal. lia.
    + rewrite skipn_skipn. replace (s * n + n)%nat with (S s * n)%nat by lia.
      rewrite <- IH by lia. apply map_ext_in. intros i Hi. replace (S s + S k)%nat with (s + S (S k))%nat by lia. reflexivity.
Qed.

Lemma py_round_ge_floor q : Qfloor q <= py_round q.
Proof. unfold py_round. destruct (Qcompare (q - inject_Z (Qfloor q)) (1 # 2)); try lia. destruct (Z.even (Qfloor q)); lia. Qed.

Lemma py_round_pos q : (1 <= q)%Q -> 1 <= py_round q.
Proof. intros H. pose proof (py_round_ge_floor q). assert (Qfloor 1 <= Qfloor q) by (apply Qfloor_resp_le; auto).
  change (Qfloor 1) with 1 in H1. lia. Qed.

(* cutting never loses, duplicates or reorders a link; consecutive pieces share their end vertex *)
Theorem split_chain idxs max_len : concat (map pairs (cut idxs max_len)) = pairs idxs.
Proof.
  unfold cut. destruct ((Z.of_nat (length idxs) >? max_len) && (max_len >? 0)); [|simpl; rewrite app_nil_r; reflexivity].
  set (l := Z.of_nat (length idxs)).
  assert (Hk1 : 1 <= fst (if Qlt_le_dec (3 # 2) (l # Z.to_pos max_len)
            then (py_round (l # Z.to_pos max_len), py_round (l # Z.to_pos (py_round (l # Z.to_pos max_len))))
            else (1, l))).
  { destruct (Qlt_le_dec (3 # 2) (l # Z.to_pos max_len)) as [H|H]; simpl; [|lia].
    apply py_round_pos. apply Qlt_le_weak. apply Qle_lt_trans with (y := (3 # 2)%Q); auto. unfold Qle; simpl; lia. }
  destruct (if Qlt_le_dec (3 # 2) (l # Z.to_pos max_len)
            then (py_round (l # Z.to_pos max_len), py_round (l # Z.to_pos (py_round (l # Z.to_pos max_len))))
            else (1, l)) as [k n]. simpl in Hk1.
  destruct (Z.to_nat k) as [|k'] eqn:Ek; [lia|].
  assert (Hk : k = Z.of_nat (0 + S k')) by lia. rewrite Hk.
  rewrite (cut_map_pieces (Z.to_nat n) (S k') 0 idxs) by lia.
  simpl skipn. apply pieces_links. lia.
Qed.

(* ---------- one stream: the walk from its first cell ---------- *)
Section Walk.
Variable ds : list nat.
Variable nup : list Z.

(* vertices after the start are ds(start), ds^2(start), ...; every cell before the last vertex is a
   non-pit whose downstream cell is not a confluence; the walk ends at the first confluence or pit *)
Theorem swalk_spec fuel : forall cur, let '(dn, vs, pit) := swalk ds nup fuel cur in
  (forall m, (m < length vs)%nat -> nth m vs 0%nat = iter ds (S m) cur) /\
  (forall m, (m < length vs)%nat -> dsf ds (iter ds m cur) <> iter ds m cur) /\
  (forall m, (S m < length vs)%nat -> nth (iter ds (S m) cur) nup 0 <= 1) /\
  (pit = true -> dsf ds (iter ds (length vs) cur) = iter ds (length vs) cur) /\
  (pit = false -> (length vs <= fuel)%nat -> nth (iter ds (length vs) cur) nup 0 > 1) /\
  (pit = false -> vs <> []) /\
  dn = (if pit then vs else removelast vs).
Proof.
  induction fuel as [|f IH]; intros cur; simpl.
  - destruct (Nat.eqb_spec (dsf ds cur) cur) as [Ep|Hnp].
    + simpl. repeat split; auto; try (intros; lia); discriminate.
    + destruct (Z.gtb_spec (nth (dsf ds cur) nup 0) 1) as [Hc|Hc]; simpl.
      * repeat split; try (intros [|m] Hm; simpl in *; try lia; auto); try discriminate; auto.
        intros _ _. lia.
      * repeat split; try (intros [|m] Hm; simpl in *; try lia; auto); try discriminate; auto.
        intros _ Hl. lia.
  - destruct (Nat.eqb_spec (dsf ds cur) cur) as [Ep|Hnp].
    + simpl. repeat split; auto; try (intros; lia); discriminate.
    + destruct (Z.gtb_spec (nth (dsf ds cur) nup 0) 1) as [Hc|Hc]; simpl.
      * repeat split; try (intros [|m] Hm; simpl in *; try lia; auto); try discriminate; auto.
        intros _ _. lia.
      * specialize (IH (dsf ds cur)). destruct (swalk ds nup f (dsf ds cur)) as [[dn vs] pit].
        destruct IH as (H1 & H2 & H3 & H4 & H5 & H7 & H6). simpl.
        split; [intros [|m] Hm; simpl in *; auto; apply H1; lia|].
        split; [intros [|m] Hm; simpl in *; auto; apply H2; lia|].
        split; [intros [|m] Hm; simpl in *; [exact Hc|apply H3; lia]|].
        split; [exact H4|].
        split; [intros Hp Hl; apply H5; auto; lia|].
        split; [discriminate|].
        subst dn. destruct pit; auto. destruct vs as [|v vs']; [exfalso; apply H7; auto|reflexivity].
Qed.
End Walk.

(* ---------- upper bound on the length of cut pieces ---------- *)
(* Python round() is within one half of its argument *)
Lemma py_round_spec a (b : positive) :
  2 * a - Zpos b <= 2 * py_round (a # b) * Zpos b <= 2 * a + Zpos b.
Proof.
  unfold py_round. set (f := Qfloor (a # b)).
  assert (Hf : f = a / Zpos b) by reflexivity.
  pose proof (Z.div_mod a (Zpos b) ltac:(lia)) as Hdm. pose proof (Z.mod_pos_bound a (Zpos b) ltac:(lia)) as Hmb.
  rewrite <- Hf in Hdm.
  destruct (Qcompare ((a # b) - inject_Z f) (1 # 2)) eqn:C; unfold Qcompare, Qminus, Qplus, Qopp, inject_Z in C; cbn [Qnum Qden] in C;
    rewrite Pos.mul_1_r in C.
  - apply Z.compare_eq in C. clear Hf; clearbody f; set (B := Zpos b) in *; clearbody B; set (r := a mod B) in *; clearbody r; subst a.
    destruct (Z.even f); nia.
  - rewrite Z.compare_lt_iff in C. clear Hf; clearbody f; set (B := Zpos b) in *; clearbody B; set (r := a mod B) in *; clearbody r; subst a. nia.
  - rewrite Z.compare_gt_iff in C. clear Hf; clearbody f; set (B := Zpos b) in *; clearbody B; set (r := a mod B) in *; clearbody r; subst a. nia.
Qed.

Theorem cut_piece_bound idxs m p : 0 < m -> In p (cut idxs m) -> 2 * Z.of_nat (length p) <= 3 * m + 3.
Proof.
  intros Hm. unfold cut. set (l := Z.of_nat (length idxs)).
  destruct ((l >? m) && (m >? 0)) eqn:Hc.
  2:{ intros [<-|[]]. fold l. apply andb_false_iff in Hc. destruct Hc as [Hc|Hc]; [|lia]. lia. }
  apply andb_true_iff in Hc. destruct Hc as [Hlm _]. assert (Hl : m < l) by lia. clear Hlm.
  assert (Hpm : Zpos (Z.to_pos m) = m) by (apply Z2Pos.id; lia).
  destruct (Qlt_le_dec (3 # 2) (l # Z.to_pos m)) as [Hr|Hr].
  - unfold Qlt in Hr. cbn [Qnum Qden] in Hr. rewrite Hpm in Hr.
    pose proof (py_round_spec l (Z.to_pos m)) as Hk. rewrite Hpm in Hk.
    set (k := py_round (l # Z.to_pos m)) in *.
    assert (Hk2 : 2 <= k) by nia.
    assert (Hpk : Zpos (Z.to_pos k) = k) by (apply Z2Pos.id; lia).
    pose proof (py_round_spec l (Z.to_pos k)) as Hn. rewrite Hpk in Hn.
    set (n := py_round (l # Z.to_pos k)) in *.
    assert (Hkl : k <= l) by nia.
    assert (Hn0 : 0 < n) by nia.
    clearbody k n. intros Hin. apply in_map_iff in Hin. destruct Hin as [i [Hp Hi]]. apply in_seq in Hi.
    destruct (Z.of_nat i + 1 =? k) eqn:Elast.
    + apply Z.eqb_eq in Elast. subst p. rewrite skipn_length.
      assert (Hlen : Z.of_nat (length idxs - i * Z.to_nat n) = Z.max 0 (l - (k - 1) * n)).
      { unfold l. rewrite Nat2Z.inj_sub_max, Nat2Z.inj_mul, Z2Nat.id by lia. replace (Z.of_nat i) with (k - 1) by lia. lia. }
      rewrite Hlen. clear Hlen Hi Elast.
      destruct (Z_le_gt_dec k m) as [Hkm|Hkm].
      * (* k <= m *)
        assert (H1 : 2 * k * (l - (k - 1) * n) <= 2 * l + k * (k - 1)) by nia.
        assert (H2 : 0 <= (k - 2) * (m - k)) by nia.
        nia.
      * (* k > m: the pieces have exactly m links *)
        assert (Hnm : n = m) by nia. subst n. nia.
    + apply Z.eqb_neq in Elast. subst p. unfold slice. rewrite firstn_length.
      assert (Hle : (Nat.min (Z.to_nat n * (i + 1) + 1 - i * Z.to_nat n) (length (skipn (i * Z.to_nat n) idxs)) <= S (Z.to_nat n))%nat).
      { etransitivity; [apply Nat.le_min_l|]. nia. }
      assert (H3 : 2 * n <= 3 * m + 1) by nia.
      lia.
  - unfold Qle in Hr. cbn [Qnum Qden] in Hr. rewrite Hpm in Hr.
    intros Hin. cbn in Hin. destruct Hin as [<-|[]]. change (Z.of_nat 0 + 1 =? 1) with true. cbv iota. cbn [Nat.mul skipn]. fold l. lia.
Qed.

(* every feature of a vectorisation with a positive maximum length has at most 1.5 * max_len + 1.5 vertices *)
Theorem streams_piece_bound ds sq mask m p : 0 < m -> In p (streams ds sq mask m) -> 2 * Z.of_nat (length p) <= 3 * m + 3.
Proof.
  intros Hm. unfold streams.
  assert (G : forall P st, (forall q, In q (snd st) -> 2 * Z.of_nat (length q) <= 3 * m + 3) ->
              forall q, In q (snd (fold_left (sstep ds (upstream_count ds mask) mask m) P st)) -> 2 * Z.of_nat (length q) <= 3 * m + 3).
  { induction P as [|i P IH]; intros st Hst; cbn [fold_left]; [exact Hst|].
    apply IH. intros q. unfold sstep. destruct st as [dn out].
    destruct (nth i dn false || negb (mget mask i)); [apply Hst|].
    destruct (swalk ds (upstream_count ds mask) (length ds) i) as [[dn' vs] pit]. cbn [snd].
    rewrite !in_app_iff. intros [Hq|[Hq|Hq]].
    - apply Hst. exact Hq.
    - apply (cut_piece_bound _ _ _ Hm Hq).
    - destruct pit; [|destruct Hq]. destruct Hq as [<-|[]]. cbn [length]. lia. }
  apply G. cbn [snd]. intros q [].
Qed.

(* ---------- per-cell vectorisation and feature properties ---------- *)
(* one two-vertex feature [i; downstream of i] per cell of the network inside the mask, in cell order, nothing else *)
Theorem flwdir_tuples_spec nxt mask :
  flwdir_tuples nxt mask =
  map (fun i => [i; nth i nxt (length nxt)])
      (filter (fun i => (nth i nxt (length nxt) <? length nxt)%nat && mget mask i) (seq 0 (length nxt))).
Proof.
  unfold flwdir_tuples. induction (seq 0 (length nxt)) as [|i l IH]; cbn [flat_map filter map]; [reflexivity|].
  destruct ((nth i nxt (length nxt) <? length nxt)%nat && mget mask i); cbn [map app]; rewrite IH; reflexivity.
Qed.

Corollary flwdir_tuples_mem nxt mask p : In p (flwdir_tuples nxt mask) <->
  exists i, (i < length nxt)%nat /\ (nth i nxt (length nxt) < length nxt)%nat /\ mget mask i = true /\ p = [i; nth i nxt (length nxt)].
Proof.
  rewrite flwdir_tuples_spec, in_map_iff. split.
  - intros [i [<- Hi]]. apply filter_In in Hi. destruct Hi as [Hs Hc]. apply in_seq in Hs. apply andb_true_iff in Hc.
    destruct Hc as [H1 H2]. apply Nat.ltb_lt in H1. exists i. repeat split; auto; lia.
  - intros [i (H1 & H2 & H3 & ->)]. exists i. split; [reflexivity|]. apply filter_In. split; [apply in_seq; lia|].
    apply andb_true_iff. split; [apply Nat.ltb_lt; exact H2|exact H3].
Qed.

(* the properties of a feature: its first vertex, its last vertex, and whether it is the zero-length feature of a pit *)
Theorem feature_props_spec paths : feature_props paths =
  map (fun p => (hd 0%nat p, last p (hd 0%nat p), (last p (hd 0%nat p) =? last (removelast p) (hd 0%nat p))%nat))
      (filter (fun p => (2 <=? length p)%nat) paths).
Proof.
  unfold feature_props. induction paths as [|p l IH]; cbn [flat_map filter map]; [reflexivity|].
  destruct p as [|a [|b t]]; cbn [length Nat.leb]; [exact IH|exact IH|].
  cbn [map app hd]. rewrite IH. reflexivity.
Qed.
