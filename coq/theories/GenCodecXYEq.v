(* core_nextxy.from_array / to_array (and their kernels _from_array / _to_array, and ispit), REGENERATED from the Python source
   (generated/GenCodec.v), equal the hand models of Codec.v that the theorems of C01 / C02 are about.
   Hypothesis for the decoder: both planes have nrow * ncol values; none for the encoder.  No axioms. *)
From Coq Require Import List Arith ZArith Bool Lia.
Import ListNotations.
From PF Require Import Arr Net Codec CodecSpec GenCodecBaseEq.
From PFG Require Import GenTables GenDrdc GenCodec.
Local Open Scope Z_scope.

(* core_nextxy.ispit *)
Theorem gen_nextxy_ispit_eq : forall v, gen_nextxy_ispit v = xy_ispit v.
Proof. intros v. unfold gen_nextxy_ispit, xy_ispit, zmem, nextxy_pv. cbn [nth existsb]. rewrite orb_false_r. reflexivity. Qed.

Section FromXY.
Variables nrow ncol : nat.
Variables nextx nexty : list Z.
Hypothesis Hlx : length nextx = (nrow * ncol)%nat.
Hypothesis Hly : length nexty = (nrow * ncol)%nat.
Let isnd (i : nat) : bool := nth i nextx 0 =? nextxy_mv.
Let cf := xy_decode_cell nrow ncol nextx nexty.

Lemma xcell0 i : (i < nrow * ncol)%nat -> nth i nextx nextxy_mv = nth i nextx 0.
Proof. intros H. apply nth_indep. lia. Qed.
Lemma ycell0 i : (i < nrow * ncol)%nat -> nth i nexty nextxy_mv = nth i nexty 0.
Proof. intros H. apply nth_indep. lia. Qed.

Lemma xcf_nodata i : (i < nrow * ncol)%nat -> isnd i = true -> cf i = (nrow * ncol)%nat.
Proof. intros Hi E. unfold cf, xy_decode_cell. cbv zeta. rewrite (xcell0 i Hi). unfold isnd in E. rewrite E. reflexivity. Qed.

Lemma xcf_valid i : (i < nrow * ncol)%nat -> isnd i = false -> (cf i < nrow * ncol)%nat.
Proof. intros Hi E. unfold cf. rewrite <- (xy_nth nrow ncol nextx nexty i Hi).
  apply xy_decode_valid; [exact Hi|]. rewrite (xcell0 i Hi). unfold isnd in E. apply Z.eqb_neq. exact E. Qed.

(* the cell of the hand model in the terms of the loop body of the source (which also tests `idx_ds == idx0`) *)
Lemma xy_decode_cell_char i : (i < nrow * ncol)%nat -> isnd i = false ->
  let c1 := nth i nextx 0 in
  let r1 := nth i nexty 0 in
  let r_ds := r1 - 1 in
  let c_ds := c1 - 1 in
  let idx_ds := c_ds + r_ds * Z.of_nat ncol in
  let b := (((gen_nextxy_ispit c1 || gen_nextxy_ispit r1)
             || ((((r_ds >=? Z.of_nat nrow) || (c_ds >=? Z.of_nat ncol)) || (r_ds <? 0)) || (c_ds <? 0)))
            || (nth (Z.to_nat idx_ds) nextx 0 =? nextxy_mv)) || (idx_ds =? Z.of_nat i) in
  cf i = (if b then i else Z.to_nat idx_ds) /\ (b = false -> Z.to_nat idx_ds <> i).
Proof.
  intros Hi E c1 r1 r_ds c_ds idx_ds b.
  assert (Hcf : cf i = if (xy_ispit c1 || xy_ispit r1) || outside nrow ncol r_ds c_ds
                          || (nth (Z.to_nat idx_ds) nextx nextxy_mv =? nextxy_mv) then i else Z.to_nat idx_ds).
  { unfold cf, xy_decode_cell. cbv zeta. rewrite (xcell0 i Hi), (ycell0 i Hi). unfold isnd in E. rewrite E. reflexivity. }
  subst b. rewrite !gen_nextxy_ispit_eq. fold (outside nrow ncol r_ds c_ds). rewrite Hcf. clear Hcf.
  destruct (xy_ispit c1 || xy_ispit r1) eqn:Epit; cbn [orb]; [split; [reflexivity|discriminate]|].
  destruct (outside nrow ncol r_ds c_ds) eqn:Eout; cbn [orb]; [split; [reflexivity|discriminate]|].
  apply outside_false in Eout. destruct Eout as [Hr Hc].
  destruct (lin_index nrow ncol r_ds c_ds Hr Hc) as (Ht1 & Ht2 & _). fold idx_ds in Ht1, Ht2.
  rewrite (xcell0 _ Ht1).
  destruct (nth (Z.to_nat idx_ds) nextx 0 =? nextxy_mv); cbn [orb]; [split; [reflexivity|discriminate]|].
  destruct (Z.eqb_spec idx_ds (Z.of_nat i)) as [Heq|Hne].
  - split; [|discriminate]. rewrite Heq. apply Nat2Z.id.
  - split; [reflexivity|]. intros _ Heq. apply Hne. rewrite <- Ht2, Heq. reflexivity.
Qed.
End FromXY.

Lemma xy_from_step nrow ncol nextx sh nexty : length nextx = (nrow * ncol)%nat -> length nexty = (nrow * ncol)%nat ->
  forall st i, (i < length nextx)%nat ->
  gen_nextxy__from_array_step (Z.of_nat nrow, Z.of_nat ncol) nextx sh nexty st i =
  bstep (fun i => nth i nextx 0 =? nextxy_mv) (fun i => (xy_decode_cell nrow ncol nextx nexty i =? i)%nat)
        (xy_decode_cell nrow ncol nextx nexty) st i.
Proof.
  intros Hlx Hly [[p a] c] i Hi. unfold gen_nextxy__from_array_step, bstep. cbn [fst snd]. cbv zeta.
  destruct (nth i nextx 0 =? nextxy_mv) eqn:E; [reflexivity|].
  destruct (xy_decode_cell_char nrow ncol nextx nexty Hlx Hly i) as [H1 H2]; [rewrite <- Hlx; exact Hi|exact E|].
  cbv zeta in H1, H2. rewrite H1.
  match type of H1 with _ = (if ?b then _ else _) => destruct b eqn:Eb end.
  - rewrite Nat.eqb_refl. reflexivity.
  - rewrite (proj2 (Nat.eqb_neq _ _) (H2 eq_refl)). reflexivity.
Qed.

(* core_nextxy._from_array(nextx, nexty) = (idxs_ds, pits, n); the shape of nexty is not used *)
Theorem gen_nextxy__from_array_eq : forall nrow ncol nextx nexty (sh : Z * Z),
  length nextx = (nrow * ncol)%nat -> length nexty = (nrow * ncol)%nat ->
  gen_nextxy__from_array (Z.of_nat nrow, Z.of_nat ncol) nextx sh nexty =
  (nextxy_from_array nrow ncol nextx nexty, pits_of (nextxy_from_array nrow ncol nextx nexty),
   Z.of_nat (nvalid_of (nextxy_from_array nrow ncol nextx nexty))).
Proof.
  intros nrow ncol nextx nexty sh Hlx Hly. unfold gen_nextxy__from_array, nextxy_from_array. cbv zeta.
  rewrite (fold_ext_seq _ _ _ (xy_from_step nrow ncol nextx sh nexty Hlx Hly)).
  rewrite bfold0, Hlx.
  rewrite (res_cells _ _ _ (xcf_nodata nrow ncol nextx nexty Hlx Hly)), (res_pits _ _ _ (xcf_nodata nrow ncol nextx nexty Hlx Hly)),
          (res_count _ _ _ (xcf_nodata nrow ncol nextx nexty Hlx Hly) (xcf_valid nrow ncol nextx nexty Hlx Hly)).
  reflexivity.
Qed.

(* core_nextxy.from_array(flwdir), flwdir = the two planes (nextx, nexty) of one shape *)
Theorem gen_nextxy_from_array_eq : forall nrow ncol nextx nexty,
  length nextx = (nrow * ncol)%nat -> length nexty = (nrow * ncol)%nat ->
  gen_nextxy_from_array (Z.of_nat nrow, Z.of_nat ncol) (nextx, nexty) =
  (nextxy_from_array nrow ncol nextx nexty, pits_of (nextxy_from_array nrow ncol nextx nexty),
   Z.of_nat (nvalid_of (nextxy_from_array nrow ncol nextx nexty))).
Proof. intros. unfold gen_nextxy_from_array. apply gen_nextxy__from_array_eq; assumption. Qed.

(* ---------- the encoder ---------- *)
Lemma xy_to_step nrow ncol ds st i :
  gen_nextxy__to_array_step ds (nrow, Z.of_nat ncol) st i =
  pstep (fun i => (length ds <=? nth i ds (length ds))%nat)
        (fun i => if (i =? nth i ds (length ds))%nat then nth 0 nextxy_pv 0 else Z.of_nat (nth i ds (length ds)) mod Z.of_nat ncol + 1)
        (fun i => if (i =? nth i ds (length ds))%nat then nth 0 nextxy_pv 0 else Z.of_nat (nth i ds (length ds)) / Z.of_nat ncol + 1)
        st i.
Proof. destruct st as [a b]. unfold gen_nextxy__to_array_step, pstep. cbn [snd]. cbv zeta.
  destruct (length ds <=? nth i ds (length ds))%nat; [reflexivity|]. destruct (i =? nth i ds (length ds))%nat; reflexivity. Qed.

(* core_nextxy._to_array(idxs_ds, shape) = (nextx, nexty): only shape[1] is used *)
Theorem gen_nextxy__to_array_eq : forall (nrow : Z) (ncol : nat) (ds : list nat),
  gen_nextxy__to_array ds (nrow, Z.of_nat ncol) = nextxy_to_array ncol ds.
Proof.
  intros nrow ncol ds. unfold gen_nextxy__to_array, nextxy_to_array. cbv zeta.
  rewrite (fold_ext_seq _ _ _ (fun st i _ => xy_to_step nrow ncol ds st i)).
  rewrite pfold0, !map_map. f_equal; apply map_ext; intros i; unfold xy_cell; cbv zeta;
    destruct (length ds <=? nth i ds (length ds))%nat; try reflexivity;
    destruct (i =? nth i ds (length ds))%nat; try reflexivity; cbn [fst snd]; rewrite ?zmod_nat, ?zdiv_nat; reflexivity.
Qed.

(* core_nextxy.to_array(idxs_ds, shape) = np.stack([nextx, nexty]) *)
Theorem gen_nextxy_to_array_eq : forall (nrow : Z) (ncol : nat) (ds : list nat),
  gen_nextxy_to_array ds (nrow, Z.of_nat ncol) = nextxy_to_array ncol ds.
Proof. intros. unfold gen_nextxy_to_array. cbv zeta. rewrite gen_nextxy__to_array_eq. destruct (nextxy_to_array ncol ds); reflexivity. Qed.

(* non-vacuity: 2x2, cell 0 -> (x 2, y 1) = cell 1 -> (x 2, y 2) = cell 3, cell 2 nodata, cell 3 the outlet code -9 *)
Example gen_nextxy_ex :
  gen_nextxy_from_array (2, 2) ([2; 2; -9999; -9], [1; 2; -9999; -9]) = ([1; 3; 4; 3]%nat, [3]%nat, 3)
  /\ gen_nextxy_to_array [1; 3; 4; 3]%nat (2, 2) = ([2; 2; -9999; -9], [1; 2; -9999; -9]).
Proof. vm_compute. auto. Qed.

Print Assumptions gen_nextxy_ispit_eq.
Print Assumptions gen_nextxy__from_array_eq.
Print Assumptions gen_nextxy_from_array_eq.
Print Assumptions gen_nextxy__to_array_eq.
Print Assumptions gen_nextxy_to_array_eq.
