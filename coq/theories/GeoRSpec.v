(* C17, lengths and areas: theorems about the formulas REGENERATED from gis_utils.py, read as
   real-number expressions (rounding is not modelled). *)
From Coq Require Import ZArith Reals Lra Lia List Bool.
Import ListNotations.
From PFG Require Import GenFormulas.
Local Open Scope R_scope.

Lemma sqrt_sq_abs x : sqrt (x * x) = Rabs x.
Proof. replace (x * x) with (Rsqr x) by (unfold Rsqr; ring). apply sqrt_Rsqr_abs. Qed.

Section Projected.
Variables t0 t1 t2 t3 t4 t5 : R.      (* xres = t0, yres = t4 *)
Variables idx0 idx1 ncol : Z.
Notation D := (gen_distance idx0 idx1 ncol false t0 t1 t2 t3 t4 t5).

(* same row, neighbouring columns: |xres| *)
Theorem distance_ew : (idx1 / ncol = idx0 / ncol)%Z -> (Z.abs (idx1 mod ncol - idx0 mod ncol) = 1)%Z ->
  D = Rabs t0.
Proof.
  intros Hr Hc. unfold gen_distance. rewrite Hr, Hc. rewrite Z.sub_diag. simpl Z.abs.
  replace (t4 * 0 * (t4 * 0) + t0 * 1 * (t0 * 1)) with (t0 * t0) by ring. apply sqrt_sq_abs.
Qed.

(* same column, neighbouring rows: |yres| *)
Theorem distance_ns : (Z.abs (idx1 / ncol - idx0 / ncol) = 1)%Z -> (idx1 mod ncol = idx0 mod ncol)%Z ->
  D = Rabs t4.
Proof.
  intros Hr Hc. unfold gen_distance. rewrite Hr, Hc. rewrite Z.sub_diag. simpl Z.abs.
  replace (t4 * 1 * (t4 * 1) + t0 * 0 * (t0 * 0)) with (t4 * t4) by ring. apply sqrt_sq_abs.
Qed.

(* diagonal neighbours: the hypotenuse *)
Theorem distance_diag : (Z.abs (idx1 / ncol - idx0 / ncol) = 1)%Z -> (Z.abs (idx1 mod ncol - idx0 mod ncol) = 1)%Z ->
  D = sqrt (t0 * t0 + t4 * t4).
Proof.
  intros Hr Hc. unfold gen_distance. rewrite Hr, Hc.
  f_equal. simpl. ring.
Qed.
End Projected.

(* symmetric in its arguments, projected and geographic *)
Theorem distance_symmetric idx0 idx1 ncol latlon t0 t1 t2 t3 t4 t5 :
  gen_distance idx0 idx1 ncol latlon t0 t1 t2 t3 t4 t5 = gen_distance idx1 idx0 ncol latlon t0 t1 t2 t3 t4 t5.
Proof.
  unfold gen_distance.
  replace (Z.abs (idx0 / ncol - idx1 / ncol)) with (Z.abs (idx1 / ncol - idx0 / ncol)) by lia.
  replace (Z.abs (idx0 mod ncol - idx1 mod ncol)) with (Z.abs (idx1 mod ncol - idx0 mod ncol)) by lia.
  replace (idx1 / ncol + idx0 / ncol)%Z with (idx0 / ncol + idx1 / ncol)%Z by lia.
  reflexivity.
Qed.

(* geographic grids: metric lengths at the mean latitude of the two cell centres *)
Section Geographic.
Variables t0 t1 t2 t3 t4 t5 : R.      (* xres = t0, yres = t4, north = t5 *)
Variables idx0 idx1 ncol : Z.
Notation D := (gen_distance idx0 idx1 ncol true t0 t1 t2 t3 t4 t5).
(* latitude of the centre of row r *)
Definition row_lat (r : Z) : R := t5 + (IZR r + 1 / 2) * t4.
Definition mean_lat : R := (row_lat (idx0 / ncol) + row_lat (idx1 / ncol)) / 2.

Lemma lat_is_mean : t5 + (IZR (idx0 / ncol + idx1 / ncol) / 2 + 1 / 2) * t4 = mean_lat.
Proof. unfold mean_lat, row_lat. rewrite plus_IZR. field. Qed.

Theorem geo_distance_ew : (idx1 / ncol = idx0 / ncol)%Z -> (Z.abs (idx1 mod ncol - idx0 mod ncol) = 1)%Z ->
  D = Rabs (gen_degree_metres_x mean_lat * t0).
Proof.
  intros Hr Hc. unfold gen_distance. change (IZR 2) with 2. change (IZR 1) with 1. rewrite lat_is_mean.
  replace (Z.abs (idx1 / ncol - idx0 / ncol)) with 0%Z by lia. rewrite Hc.
  cbn [Z.eqb]. change (IZR 1) with 1. change (IZR 0) with 0.
  set (X := gen_degree_metres_x mean_lat * t0).
  replace (0 * 0 * (0 * 0) + X * 1 * (X * 1)) with (X * X) by ring. apply sqrt_sq_abs.
Qed.

Theorem geo_distance_ns : (Z.abs (idx1 / ncol - idx0 / ncol) = 1)%Z -> (idx1 mod ncol = idx0 mod ncol)%Z ->
  D = Rabs (gen_degree_metres_y mean_lat * t4).
Proof.
  intros Hr Hc. unfold gen_distance. change (IZR 2) with 2. change (IZR 1) with 1. rewrite lat_is_mean.
  replace (Z.abs (idx1 mod ncol - idx0 mod ncol)) with 0%Z by lia. rewrite Hr.
  cbn [Z.eqb]. change (IZR 1) with 1. change (IZR 0) with 0.
  set (Y := gen_degree_metres_y mean_lat * t4).
  replace (Y * 1 * (Y * 1) + 0 * 0 * (0 * 0)) with (Y * Y) by ring. apply sqrt_sq_abs.
Qed.
End Geographic.

(* projected cell area = |xres * yres| / unit factor *)
Theorem area_projected t0 t1 t2 t3 t4 t5 : gen_area_projected t0 t1 t2 t3 t4 t5 area_factor_m2 = Rabs (t0 * t4).
Proof. unfold gen_area_projected, area_factor_m2. change (IZR 1) with 1. field. Qed.

Theorem area_factors : area_factor_m2 = 1 /\ area_factor_ha = 10000 /\ area_factor_km2 = 1000000 /\ area_factor_cell = 1.
Proof. unfold area_factor_m2, area_factor_ha, area_factor_km2, area_factor_cell. repeat split; reflexivity. Qed.

(* ---------- spherical cell areas add up to the sphere ---------- *)
(* generic telescoping sum *)
Fixpoint rsum (f : nat -> R) (n : nat) : R := match n with O => 0 | S k => rsum f k + f k end.

Lemma rsum_telescope (g : nat -> R) n : rsum (fun k => g k - g (S k)) n = g 0%nat - g n.
Proof. induction n as [|n IH]; simpl; [ring|rewrite IH; ring]. Qed.

Lemma rsum_scale c f n : rsum (fun k => c * f k) n = c * rsum f n.
Proof. induction n as [|n IH]; simpl; [ring|rewrite IH; ring]. Qed.

Lemma rsum_ext f g n : (forall k, (k < n)%nat -> f k = g k) -> rsum f n = rsum g n.
Proof. induction n as [|n IH]; intros H; simpl; auto. rewrite IH, H; auto. Qed.

Section Sphere.
Variables xres yres north : R.
Hypothesis Hy : yres < 0.                      (* north-up *)
Definition lat_of_row (k : nat) : R := north + (INR k + 1 / 2) * yres.
Definition edge (k : nat) : R := (north + INR k * yres) * PI / 180.

Lemma cellarea_row k : gen_cellarea (lat_of_row k) xres yres =
  earth_R * earth_R * (Rabs xres * PI / 180) * (sin (edge k) - sin (edge (S k))).
Proof.
  unfold gen_cellarea, lat_of_row, edge. rewrite (Rabs_left yres Hy). rewrite S_INR.
  change (IZR 180) with 180. change (IZR 2) with 2.
  f_equal. f_equal; f_equal; field.
Qed.

(* sum over one column of nrow cells *)
Theorem column_area_sum nrow :
  rsum (fun k => gen_cellarea (lat_of_row k) xres yres) nrow =
  earth_R * earth_R * (Rabs xres * PI / 180) * (sin (edge 0) - sin (edge nrow)).
Proof.
  rewrite (rsum_ext _ (fun k => earth_R * earth_R * (Rabs xres * PI / 180) * (sin (edge k) - sin (edge (S k))))).
  - rewrite rsum_scale. rewrite (rsum_telescope (fun k => sin (edge k))). reflexivity.
  - intros k _. apply cellarea_row.
Qed.

(* a global grid: rows span 90N..90S, columns span 360 degrees: the areas add up to 4 pi R^2 *)
Theorem area_global_sum nrow ncol : north = 90 -> INR nrow * yres = -180 -> INR ncol * Rabs xres = 360 ->
  INR ncol * rsum (fun k => gen_cellarea (lat_of_row k) xres yres) nrow = 4 * PI * (earth_R * earth_R).
Proof.
  intros Hn Hr Hc. rewrite column_area_sum. unfold edge. simpl INR. rewrite Rmult_0_l, Rplus_0_r, Hn, Hr.
  replace (90 * PI / 180) with (PI / 2) by field.
  replace ((90 + -180) * PI / 180) with (- (PI / 2)) by field.
  rewrite sin_neg, sin_PI2.
  replace (INR ncol * (earth_R * earth_R * (Rabs xres * PI / 180) * (1 - - (1))))
    with ((INR ncol * Rabs xres) * (earth_R * earth_R * PI / 180 * 2)) by field.
  rewrite Hc. field.
Qed.
End Sphere.
