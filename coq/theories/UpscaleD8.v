(* C09: the links of the effective-area method join 8-neighbouring coarse cells.  Geometry: the effective area of a cell
   contains the middle row(s) and column(s) of the cell, a D8 flow path moves one pixel at a time, so a path that leaves the
   cell of its start cannot get past the middle of a neighbouring cell without stepping on its effective area. *)
From Coq Require Import List Arith ZArith Bool Lia.
Import ListNotations.

Section Line.
Variable cs : nat.
Hypothesis Hcs : 0 < cs.

Definition band (x : nat) := x / cs.
Definition off (x : nat) := x mod cs.
Definition mid (x : nat) : Prop := cs <= 2 * off x + 2 /\ 2 * off x <= cs.
Definition near (B0 x : nat) : Prop := band x <= B0 + 1 /\ B0 <= band x + 1.
Definition side (B0 x : nat) : Prop :=
  band x = B0 \/ (band x = B0 + 1 /\ 2 * off x + 2 < cs) \/ (band x + 1 = B0 /\ cs < 2 * off x).

Lemma bo x : x = band x * cs + off x /\ off x < cs.
Proof. unfold band, off. pose proof (Nat.div_mod x cs ltac:(lia)). pose proof (Nat.mod_upper_bound x cs ltac:(lia)). lia. Qed.

Lemma bo_unique x q o : x = q * cs + o -> o < cs -> band x = q /\ off x = o.
Proof.
  intros Hx Ho. destruct (bo x) as [H1 H2].
  assert (band x = q) by nia. split; [auto|]. subst q. lia.
Qed.

Lemma side_step B0 x x' : side B0 x -> x' <= x + 1 -> x <= x' + 1 -> side B0 x' \/ (mid x' /\ near B0 x').
Proof.
  intros Hs H1 H2. destruct (bo x) as [Ex Hox].
  assert (Hcases : x' = x \/ x' = x + 1 \/ x' + 1 = x) by lia.
  destruct Hcases as [->|[->|Hm]]; [left; exact Hs| |].
  - (* one further *)
    destruct (Nat.lt_ge_cases (off x + 1) cs) as [Hin|Hout].
    + destruct (bo_unique (x + 1) (band x) (off x + 1) ltac:(lia) Hin) as [Eb Eo].
      unfold side, mid, near in *. rewrite Eb, Eo. lia.
    + destruct (bo_unique (x + 1) (band x + 1) 0 ltac:(nia) Hcs) as [Eb Eo].
      unfold side, mid, near in *. rewrite Eb, Eo. lia.
  - (* one back *)
    destruct (off x) as [|o] eqn:Eo0.
    + destruct (band x) as [|q] eqn:Eq0; [lia|].
      destruct (bo_unique x' q (cs - 1) ltac:(nia) ltac:(lia)) as [Eb Eo].
      unfold side, mid, near in *. rewrite Eb, Eo, ?Eq0, ?Eo0 in *. lia.
    + destruct (bo_unique x' (band x) o ltac:(lia) ltac:(lia)) as [Eb Eo].
      unfold side, mid, near in *. rewrite Eb, Eo, ?Eo0 in *. lia.
Qed.

Lemma side_near B0 x : side B0 x -> near B0 x.
Proof. unfold side, near. lia. Qed.
End Line.

From PF Require Import Arr Net Elev Upscale UpscaleSpec.

Section EamD8.
Variable sds : list nat.
Variable upa : list Z.
Variable subncol cs nrow ncol : nat.
Variable ea : list bool.
Notation nsub := (length sds).
Notation nc := (nrow * ncol)%nat.
Notation sd := (Upscale.sd sds).
Notation cellof := (cellof subncol cs ncol).
Notation prow t := (t / subncol).
Notation pcol t := (t mod subncol).

Hypothesis Hcs : 0 < cs.
Hypothesis HW : 0 < subncol.
Hypothesis Hnc : subncol <= ncol * cs.
Hypothesis Hwf : forall t, t < nsub -> sd t < nsub -> sd (sd t) < nsub.
(* the fine network is a D8 network: every link joins 8-neighbouring pixels *)
Hypothesis Hd8 : forall t, t < nsub -> sd t < nsub -> in_d8 t (sd t) subncol = true.
(* the effective area contains the middle rows and columns of every cell (`ri <= 0.5 or ci <= 0.5` in effective_area) *)
Hypothesis Hcross : forall t, t < nsub -> sd t < nsub -> mid cs (prow t) \/ mid cs (pcol t) -> eaf ea t = true.

Lemma cellof_eq t : cellof t = band cs (prow t) * ncol + band cs (pcol t).
Proof. reflexivity. Qed.

Lemma ccol_lt t : band cs (pcol t) < ncol.
Proof.
  unfold band. apply Nat.div_lt_upper_bound; [lia|]. pose proof (Nat.mod_upper_bound t subncol ltac:(lia)). nia.
Qed.

Lemma pixel_step t : t < nsub -> sd t < nsub ->
  prow (sd t) <= prow t + 1 /\ prow t <= prow (sd t) + 1 /\ pcol (sd t) <= pcol t + 1 /\ pcol t <= pcol (sd t) + 1.
Proof.
  intros Ht Hd. pose proof (Hd8 t Ht Hd) as H. unfold in_d8, absdiff in H.
  apply andb_true_iff in H. destruct H as [H1 H2]. apply Nat.leb_le in H1. apply Nat.leb_le in H2. lia.
Qed.

Section Walk.
Variables R0 C0 idx0 : nat.
Hypothesis Hidx : idx0 = R0 * ncol + C0.
Hypothesis HC0 : C0 < ncol.

Lemma cell_is_idx0 t : cellof t = idx0 -> band cs (prow t) = R0 /\ band cs (pcol t) = C0.
Proof. rewrite cellof_eq, Hidx. pose proof (ccol_lt t). intros E. assert (band cs (prow t) = R0) by nia. split; [auto|nia]. Qed.

Lemma eam_walk_near fuel : forall s r, s < nsub -> sd s < nsub -> side cs R0 (prow s) -> side cs C0 (pcol s) ->
  eam_walk sds subncol cs nrow ncol ea fuel idx0 s = r -> r < nc ->
  exists p, cellof p = r /\ near cs R0 (prow p) /\ near cs C0 (pcol p).
Proof.
  induction fuel as [|f IH]; intros s r Hs Hd Sr Sc Hw Hr; cbn [eam_walk] in Hw; [unfold ERR in Hw; lia|].
  destruct (pixel_step s Hs Hd) as (P1 & P2 & P3 & P4).
  destruct (side_step cs Hcs R0 (prow s) (prow (sd s)) Sr P1 P2) as [Sr'|[Mr Nr]];
  destruct (side_step cs Hcs C0 (pcol s) (pcol (sd s)) Sc P3 P4) as [Sc'|[Mc Ncn]].
  all: destruct (Nat.eqb_spec (sd s) s) as [Hpit|Hnp];
    [exists s; rewrite Hpit in Hw; split; [exact Hw|split; apply side_near; assumption]|].
  all: destruct (negb (cellof (sd s) =? idx0) && eaf ea (sd s)) eqn:Stop;
    [exists (sd s); split; [exact Hw|split; first [apply side_near; assumption|assumption]]|].
  - apply (IH (sd s) r Hd (Hwf s Hs Hd) Sr' Sc' Hw Hr).
  - (* on a middle column: in the effective area, so the pixel is back in the start cell *)
    assert (He : eaf ea (sd s) = true) by (apply Hcross; [exact Hd|apply Hwf; auto|right; exact Mc]).
    rewrite He, andb_true_r in Stop. apply negb_false_iff, Nat.eqb_eq in Stop. destruct (cell_is_idx0 _ Stop) as [E1 E2].
    apply (IH (sd s) r Hd (Hwf s Hs Hd) Sr' ltac:(left; exact E2) Hw Hr).
  - assert (He : eaf ea (sd s) = true) by (apply Hcross; [exact Hd|apply Hwf; auto|left; exact Mr]).
    rewrite He, andb_true_r in Stop. apply negb_false_iff, Nat.eqb_eq in Stop. destruct (cell_is_idx0 _ Stop) as [E1 E2].
    apply (IH (sd s) r Hd (Hwf s Hs Hd) ltac:(left; exact E1) Sc' Hw Hr).
  - assert (He : eaf ea (sd s) = true) by (apply Hcross; [exact Hd|apply Hwf; auto|left; exact Mr]).
    rewrite He, andb_true_r in Stop. apply negb_false_iff, Nat.eqb_eq in Stop. destruct (cell_is_idx0 _ Stop) as [E1 E2].
    apply (IH (sd s) r Hd (Hwf s Hs Hd) ltac:(left; exact E1) ltac:(left; exact E2) Hw Hr).
Qed.
End Walk.

(* every link of eam_nextidx joins a cell with itself or one of its eight neighbours *)
Theorem eam_links_d8 idx0 : idx0 < nc ->
  let s := nth idx0 (repcell sds upa subncol cs nrow ncol (eaf ea)) nsub in s < nsub ->
  let r := eam_walk sds subncol cs nrow ncol ea (S nsub) idx0 s in r < nc ->
  in_d8 idx0 r ncol = true.
Proof.
  intros Hi s Hs r Hr.
  destruct (repcell_spec sds upa subncol cs nrow ncol (eaf ea)) as (_ & Hin & _).
  destruct (Hin idx0 Hi) as [E|[[_ [Hds _]] [Hc _]]]; [fold s in E; lia|]. fold s in Hds, Hc.
  pose proof (ccol_lt s) as HC0. rewrite cellof_eq in Hc.
  destruct (eam_walk_near (band cs (prow s)) (band cs (pcol s)) idx0 (eq_sym Hc) HC0 (S nsub) s r Hs Hds
              ltac:(left; reflexivity) ltac:(left; reflexivity) eq_refl Hr) as (p & Hp & [N1 N2] & [N3 N4]).
  rewrite cellof_eq in Hp. pose proof (ccol_lt p) as HCp.
  assert (Hnz : ncol <> 0) by lia.
  assert (D1 : forall q c, c < ncol -> (q * ncol + c) / ncol = q /\ (q * ncol + c) mod ncol = c).
  { intros q c Hc'. split; [symmetry; apply (Nat.div_unique _ _ q c); lia|symmetry; apply (Nat.mod_unique _ _ q c); lia]. }
  destruct (D1 (band cs (prow p)) _ HCp) as [Dq Dm]. destruct (D1 (band cs (prow s)) _ HC0) as [Dq0 Dm0].
  unfold in_d8, absdiff. rewrite <- Hp, <- Hc. rewrite Dq, Dm, Dq0, Dm0.
  apply andb_true_iff. split; apply Nat.leb_le; lia.
Qed.

(* ---------- eam_plus / ihu: the fall-back link to the first effective-area pixel ---------- *)
Lemma near_in_d8 R0 C0 p : C0 < ncol -> near cs R0 (prow p) -> near cs C0 (pcol p) ->
  in_d8 (R0 * ncol + C0) (cellof p) ncol = true.
Proof.
  intros HC0 [N1 N2] [N3 N4]. rewrite cellof_eq. pose proof (ccol_lt p) as HCp.
  assert (D1 : forall q c, c < ncol -> (q * ncol + c) / ncol = q /\ (q * ncol + c) mod ncol = c).
  { intros q c Hc'. split; [symmetry; apply (Nat.div_unique _ _ q c); lia|symmetry; apply (Nat.mod_unique _ _ q c); lia]. }
  destruct (D1 (band cs (prow p)) _ HCp) as [Dq Dm]. destruct (D1 R0 _ HC0) as [Dq0 Dm0].
  unfold in_d8, absdiff. rewrite Dq, Dm, Dq0, Dm0. apply andb_true_iff. split; apply Nat.leb_le; lia.
Qed.

Section WalkPlus.
Variables R0 C0 idx0 : nat.
Variable out : list nat.
Hypothesis Hidx : idx0 = R0 * ncol + C0.
Hypothesis HC0 : C0 < ncol.

Lemma ihu_walk_d8 fuel : forall s fe t, s < nsub -> sd s < nsub ->
  (fe = None -> side cs R0 (prow s) /\ side cs C0 (pcol s)) ->
  (forall x, fe = Some x -> near cs R0 (prow x) /\ near cs C0 (pcol x)) ->
  ihu_walk sds subncol cs ncol ea fuel out idx0 s fe = Some t -> in_d8 idx0 (cellof t) ncol = true.
Proof.
  induction fuel as [|f IH]; intros s fe t Hs Hd Hside Hfe Hw; cbn [ihu_walk] in Hw; [discriminate|].
  destruct ((nth (cellof (sd s)) out nsub =? sd s) || (sd s =? s)).
  - destruct (in_d8 idx0 (cellof (sd s)) ncol) eqn:E8; [inversion Hw; subst t; exact E8|].
    destruct (Hfe t Hw) as [N1 N2]. rewrite Hidx. apply near_in_d8; auto.
  - apply (IH (sd s) _ t Hd (Hwf s Hs Hd)) in Hw; [exact Hw| |].
    + (* no effective-area pixel so far: still on the near side of the middle lines *)
      intros Hnone. destruct fe as [y|]; [discriminate|].
      destruct (eaf ea (sd s)) eqn:Ee; [discriminate|].
      destruct (Hside eq_refl) as [Sr Sc]. destruct (pixel_step s Hs Hd) as (P1 & P2 & P3 & P4).
      destruct (side_step cs Hcs R0 (prow s) (prow (sd s)) Sr P1 P2) as [Sr'|[Mr _]];
        [|rewrite (Hcross (sd s) Hd (Hwf s Hs Hd) (or_introl Mr)) in Ee; discriminate].
      destruct (side_step cs Hcs C0 (pcol s) (pcol (sd s)) Sc P3 P4) as [Sc'|[Mc _]];
        [|rewrite (Hcross (sd s) Hd (Hwf s Hs Hd) (or_intror Mc)) in Ee; discriminate].
      split; assumption.
    + intros x Hx. destruct fe as [y|]; [apply Hfe; exact Hx|].
      destruct (eaf ea (sd s)) eqn:Ee; [|discriminate]. inversion Hx; subst x.
      destruct (Hside eq_refl) as [Sr Sc]. destruct (pixel_step s Hs Hd) as (P1 & P2 & P3 & P4).
      split.
      * destruct (side_step cs Hcs R0 (prow s) (prow (sd s)) Sr P1 P2) as [Sr'|[_ Nr]]; [apply side_near; assumption|exact Nr].
      * destruct (side_step cs Hcs C0 (pcol s) (pcol (sd s)) Sc P3 P4) as [Sc'|[_ Ncn]]; [apply side_near; assumption|exact Ncn].
Qed.
End WalkPlus.

(* every link of ihu_nextidx (eam_plus) joins a cell with itself or one of its eight neighbours, whichever branch
   produced it: the next outlet pixel / pit (tested explicitly by the code) or the first effective-area pixel *)
Theorem eam_plus_links_d8 out idx0 s t : s < nsub -> sd s < nsub -> cellof s = idx0 ->
  ihu_walk sds subncol cs ncol ea (S nsub) out idx0 s None = Some t -> in_d8 idx0 (cellof t) ncol = true.
Proof.
  intros Hs Hd Hc Hw. pose proof (ccol_lt s) as HC0. rewrite cellof_eq in Hc.
  apply (ihu_walk_d8 (band cs (prow s)) (band cs (pcol s)) idx0 out (eq_sym Hc) HC0 (S nsub) s None t Hs Hd); auto.
  - intros _. split; left; reflexivity.
  - intros x Hx. discriminate.
Qed.
End EamD8.

(* the hypothesis on the effective area as a boolean check (run on the effective-area map of the implementation) *)
Definition midb (cs x : nat) : bool := (cs <=? 2 * (x mod cs) + 2) && (2 * (x mod cs) <=? cs).
Definition check_cross (sds : list nat) (ea : list bool) (subncol cs : nat) : bool :=
  forallb (fun t => (length sds <=? Upscale.sd sds t) || negb (midb cs (t / subncol) || midb cs (t mod subncol)) || eaf ea t)
          (seq 0 (length sds)).

Lemma check_cross_sound sds ea subncol cs : check_cross sds ea subncol cs = true ->
  forall t, t < length sds -> Upscale.sd sds t < length sds -> mid cs (t / subncol) \/ mid cs (t mod subncol) -> eaf ea t = true.
Proof.
  unfold check_cross. intros H t Ht Hd Hm. rewrite forallb_forall in H. specialize (H t ltac:(apply in_seq; lia)).
  assert (E1 : (length sds <=? Upscale.sd sds t) = false) by (apply Nat.leb_gt; exact Hd). rewrite E1 in H. cbn [orb] in H.
  assert (E2 : midb cs (t / subncol) || midb cs (t mod subncol) = true).
  { apply orb_true_iff. unfold midb, mid, off in *. destruct Hm as [[A B]|[A B]]; [left|right]; apply andb_true_iff; split; apply Nat.leb_le; lia. }
  rewrite E2 in H. exact H.
Qed.

Theorem eam_links_d8_checked sds upa subncol cs nrow ncol ea : 0 < cs -> 0 < subncol -> subncol <= ncol * cs ->
  (forall t, t < length sds -> Upscale.sd sds t < length sds -> Upscale.sd sds (Upscale.sd sds t) < length sds) ->
  (forall t, t < length sds -> Upscale.sd sds t < length sds -> in_d8 t (Upscale.sd sds t) subncol = true) ->
  check_cross sds ea subncol cs = true ->
  forall idx0, idx0 < nrow * ncol ->
  let s := nth idx0 (repcell sds upa subncol cs nrow ncol (eaf ea)) (length sds) in s < length sds ->
  let r := eam_walk sds subncol cs nrow ncol ea (S (length sds)) idx0 s in r < nrow * ncol ->
  in_d8 idx0 r ncol = true.
Proof.
  intros Hcs HW Hnc Hwf Hd8 Hck. apply (eam_links_d8 sds upa subncol cs nrow ncol ea Hcs HW Hnc Hwf Hd8).
  apply check_cross_sound. exact Hck.
Qed.

Theorem eam_plus_links_d8_checked sds subncol cs ncol ea : 0 < cs -> 0 < subncol -> subncol <= ncol * cs ->
  (forall t, t < length sds -> Upscale.sd sds t < length sds -> Upscale.sd sds (Upscale.sd sds t) < length sds) ->
  (forall t, t < length sds -> Upscale.sd sds t < length sds -> in_d8 t (Upscale.sd sds t) subncol = true) ->
  check_cross sds ea subncol cs = true ->
  forall out idx0 s t, s < length sds -> Upscale.sd sds s < length sds -> cellof subncol cs ncol s = idx0 ->
  ihu_walk sds subncol cs ncol ea (S (length sds)) out idx0 s None = Some t -> in_d8 idx0 (cellof subncol cs ncol t) ncol = true.
Proof.
  intros Hcs HW Hnc Hwf Hd8 Hck. apply (eam_plus_links_d8 sds subncol cs ncol ea Hcs HW Hnc Hwf Hd8).
  apply check_cross_sound. exact Hck.
Qed.

(* ---------- dmm: the trace stops next to a window centred on a corner of the start cell ---------- *)
Section DmmD8.
Variable sds : list nat.
Variable subncol cs nrow ncol : nat.
Notation nsub := (length sds).
Notation nc := (nrow * ncol)%nat.
Notation sd := (Upscale.sd sds).
Notation cellof := (cellof subncol cs ncol).
Notation prow t := (t / subncol).
Notation pcol t := (t mod subncol).

Hypothesis Hcs : 2 <= cs.
Hypothesis HW : 0 < subncol.
Hypothesis Hnc : subncol <= ncol * cs.
Hypothesis Hwf : forall t, t < nsub -> sd t < nsub -> sd (sd t) < nsub.
Hypothesis Hd8 : forall t, t < nsub -> sd t < nsub -> in_d8 t (sd t) subncol = true.

(* one coordinate: the window of half-width cs / 2 around the corner (B0 + d) * cs - 1/2, in doubled coordinates *)
Definition win1 (B0 d x : nat) : Prop := (Z.abs (2 * Z.of_nat x - (2 * Z.of_nat ((B0 + d) * cs) - 1)) <= Z.of_nat cs)%Z.
Definition win1x (B0 d x : nat) : Prop := (Z.abs (2 * Z.of_nat x - (2 * Z.of_nat ((B0 + d) * cs) - 1)) <= Z.of_nat cs + 2)%Z.

Lemma win1_step B0 d x x' : win1 B0 d x -> x' <= x + 1 -> x <= x' + 1 -> win1x B0 d x'.
Proof. unfold win1, win1x. lia. Qed.

Lemma win1x_near B0 d x : d <= 1 -> win1x B0 d x -> near cs B0 x.
Proof.
  intros Hd H. unfold win1x in H. unfold near, band.
  pose proof (Nat.div_mod x cs ltac:(lia)) as E. pose proof (Nat.mod_upper_bound x cs ltac:(lia)) as Hm.
  set (q := x / cs) in *. set (o := x mod cs) in *. clearbody q o.
  destruct d as [|[|d]]; [| |lia].
  - split; nia.
  - split; nia.
Qed.

Lemma Hcs0 : 0 < cs.
Proof. lia. Qed.

Section WalkD.
Variables R0 C0 idx0 s0 : nat.
Hypothesis Hidx : idx0 = R0 * ncol + C0.
Hypothesis HC0 : C0 < ncol.
Notation dr := (2 * (prow s0 mod cs) / cs).
Notation dc := (2 * (pcol s0 mod cs) / cs).

Lemma d_le1 x : 2 * (x mod cs) / cs <= 1.
Proof. pose proof (Nat.mod_upper_bound x cs ltac:(lia)). assert (2 * (x mod cs) / cs < 2) by (apply Nat.div_lt_upper_bound; lia). lia. Qed.

Lemma not_outside cur : dmm_outside subncol cs ncol idx0 s0 cur = false ->
  win1 R0 dr (prow cur) /\ win1 C0 dc (pcol cur).
Proof.
  unfold dmm_outside, win1. intros H. apply orb_false_iff in H. destruct H as [H1 H2].
  assert (D1 : idx0 / ncol = R0 /\ idx0 mod ncol = C0).
  { rewrite Hidx. split; [symmetry; apply (Nat.div_unique _ _ R0 C0); lia|symmetry; apply (Nat.mod_unique _ _ R0 C0); lia]. }
  destruct D1 as [D1 D2]. rewrite D1 in H1. rewrite D2 in H2.
  rewrite Z.gtb_ltb in H1, H2. apply Z.ltb_ge in H1. apply Z.ltb_ge in H2. split; assumption.
Qed.

Lemma dmm_walk_near fuel : forall cur idx r, cur < nsub -> sd cur < nsub -> idx = cellof cur ->
  (cellof cur = idx0 \/ (win1x R0 dr (prow cur) /\ win1x C0 dc (pcol cur))) ->
  dmm_walk sds subncol cs nrow ncol fuel idx0 s0 cur idx = r -> r < nc ->
  exists p, cellof p = r /\ near cs R0 (prow p) /\ near cs C0 (pcol p).
Proof.
  induction fuel as [|f IH]; intros cur idx r Hc Hd Hidx' Hinv Hw Hr; cbn [dmm_walk] in Hw; [unfold ERR in Hw; lia|].
  assert (Hnear : near cs R0 (prow cur) /\ near cs C0 (pcol cur)).
  { destruct Hinv as [E|[W1 W2]].
    - destruct (cell_is_idx0 subncol cs ncol Hcs0 HW Hnc R0 C0 idx0 Hidx HC0 cur E) as [E1 E2].
      unfold near. rewrite E1, E2. lia.
    - split; [apply (win1x_near R0 dr); [apply d_le1|exact W1]|apply (win1x_near C0 dc); [apply d_le1|exact W2]]. }
  destruct (Nat.eqb_spec (sd cur) cur) as [Hpit|Hnp]; [exists cur; subst idx; split; [exact Hw|exact Hnear]|].
  destruct (negb (cellof (sd cur) =? idx0) && dmm_outside subncol cs ncol idx0 s0 cur) eqn:Stop;
    [exists cur; subst idx; split; [exact Hw|exact Hnear]|].
  apply (IH (sd cur) (cellof (sd cur)) r Hd (Hwf cur Hc Hd) eq_refl); [|exact Hw|exact Hr].
  apply andb_false_iff in Stop. destruct Stop as [S1|S2].
  - left. apply negb_false_iff, Nat.eqb_eq in S1. exact S1.
  - right. destruct (not_outside cur S2) as [W1 W2].
    destruct (pixel_step sds subncol cs ncol Hcs0 HW Hnc Hd8 cur Hc Hd) as (P1 & P2 & P3 & P4).
    split; [apply (win1_step R0 dr (prow cur)); assumption|apply (win1_step C0 dc (pcol cur)); assumption].
Qed.
End WalkD.

(* every link of dmm_nextidx joins a cell with itself or one of its eight neighbours when the scale factor is at least 2
   (with scale factor 1 it does not: known finding F9) *)
Theorem dmm_links_d8 idx0 s : s < nsub -> sd s < nsub -> cellof s = idx0 ->
  let r := dmm_walk sds subncol cs nrow ncol (S nsub) idx0 s s idx0 in r < nc -> in_d8 idx0 r ncol = true.
Proof.
  intros Hs Hd Hc r Hr. pose proof (ccol_lt subncol cs ncol Hcs0 HW Hnc s) as HC0. rewrite cellof_eq in Hc.
  destruct (dmm_walk_near (band cs (prow s)) (band cs (pcol s)) idx0 s (eq_sym Hc) HC0 (S nsub) s idx0 r Hs Hd
              ltac:(rewrite cellof_eq; auto) ltac:(left; rewrite cellof_eq; exact Hc) eq_refl Hr) as (p & Hp & N1 & N2).
  rewrite <- Hp, <- Hc. apply (near_in_d8 subncol cs ncol Hcs0 HW Hnc); assumption.
Qed.
End DmmD8.
