(* C09 / ihu, structural fact 1: EVERY LINK OF THE ITERATIVE METHOD JOINS 8-NEIGHBOURING COARSE CELLS.
   Invariant of the state `A` (Ihu.v):  Inv (a_cds a) := every entry of a_cds that is a cell index (< nc) is the cell
   itself or one of its eight neighbours.  Every stage preserves it, because every value the stages store into idxs_ds is
   - the cell itself (a pit: new_outlet's `pit` case, ihu_minimize_error's pit branch),
   - a cell that the code tested with in_d8 (new_outlet, opt_one, rl_trib, rl_step) or took from _d8_idx (me_scan),
   - or a value saved earlier (the undo of opt_one, the unroll log of ihu_relocate_outlets).
   No hypothesis on the fine network is needed for the preservation; the hypotheses of the final theorem are those of
   UpscaleNoErr.up_eam_plus_entry and are used for the first stage (eam_plus) only. *)
From Coq Require Import List Arith ZArith Bool Lia.
Import ListNotations.
From PF Require Import Arr Net Elev Upscale UpscaleSpec UpscaleD8 UpscaleNoErr D8Idx D8IdxSpec Ihu.

Lemma fold_left_inv {S X : Type} (P : S -> Prop) (f : S -> X -> S) (l : list X) :
  forall a, P a -> (forall a x, In x l -> P a -> P (f a x)) -> P (fold_left f l a).
Proof.
  induction l as [|h t IH]; intros a Ha Hstep; cbn [fold_left]; [exact Ha|].
  apply IH; [apply Hstep; [left; reflexivity|exact Ha]|].
  intros a' x Hx Ha'. apply Hstep; [right; exact Hx|exact Ha'].
Qed.

Lemma in_d8_refl i n : in_d8 i i n = true.
Proof. unfold in_d8, absdiff. rewrite !Nat.sub_diag. reflexivity. Qed.

Section IhuD8.
Variable sds : list nat.
Variable upa : list Z.
Variables subncol cs nrow ncol : nat.
Notation nsub := (length sds).
Notation nc := (nrow * ncol).

Definition Inv (cds : list nat) : Prop :=
  forall i, nth i cds nc < nc -> in_d8 i (nth i cds nc) ncol = true.

(* the one way the invariant is re-established: the stored value is a tested neighbour (or not a cell index) *)
Lemma Inv_upd cds j v : Inv cds -> (v < nc -> in_d8 j v ncol = true) -> Inv (upd cds j v).
Proof.
  intros H Hv i. rewrite nth_upd. destruct (Nat.eqb i j && Nat.ltb j (length cds)) eqn:E; [|apply H].
  apply andb_true_iff in E. destruct E as [E _]. apply Nat.eqb_eq in E. subst i. exact Hv.
Qed.

(* ---------- new_outlet ---------- *)
Lemma new_outlet_inv a idx0 subidx0 tgt : Inv (a_cds a) ->
  Inv (a_cds (fst (new_outlet sds upa subncol cs ncol a idx0 subidx0 tgt))).
Proof.
  intros H. unfold new_outlet. cbv zeta.
  match goal with |- context [fold_left ?f ?l ?i] => set (F := f); set (R := fold_left F l i) end.
  assert (HQ : match snd (fst R) with Some (_, idx1, _) => in_d8 idx0 idx1 ncol = true | None => True end).
  { apply fold_left_inv; [exact I|]. intros [[u b] ok] s _ Hb. unfold F. cbv beta iota. cbn [fst snd] in Hb.
    match goal with |- context [if ?c then _ else _] => destruct c end; [exact Hb|].
    destruct (no_walk sds (S nsub) _ s []) as [[[slast s1] rpath]|]; [|exact Hb].
    match goal with |- context [if ?c then _ else _] => destruct c eqn:E end; [|exact Hb].
    cbn [fst snd]. apply andb_true_iff in E. destruct E as [_ E]. apply orb_true_iff in E. destruct E as [E|E].
    - apply andb_true_iff in E. destruct E as [E _]. apply andb_true_iff in E. destruct E as [_ E]. exact E.
    - apply andb_true_iff in E. destruct E as [_ E]. apply Nat.eqb_eq in E. rewrite <- E. apply in_d8_refl. }
  destruct R as [[u b] ok]. cbn [fst snd] in HQ. destruct b as [[[so idx_ds] p]|]; cbn [fst a_cds]; [|exact H].
  apply Inv_upd; [exact H|]. intros _. exact HQ.
Qed.

(* ---------- ihu_optimize_rivlen ---------- *)
Lemma opt_one_inv valid a idx0 : Inv (a_cds a) ->
  Inv (a_cds (fst (opt_one sds upa subncol cs nrow ncol valid a idx0))).
Proof.
  intros H. unfold opt_one. cbv zeta.
  match goal with |- context [if ?c then _ else _] => destruct c end; [exact H|].
  match goal with |- context [if ?c then _ else _] => destruct c eqn:Hall end; [|exact H].
  pose proof (new_outlet_inv a idx0 (nth idx0 (a_out a) nsub) None H) as H1.
  destruct (new_outlet sds upa subncol cs ncol a idx0 (nth idx0 (a_out a) nsub) None) as [a1 success].
  cbn [fst] in H1. destruct success; [|exact H1]. cbn [fst].
  apply fold_left_inv; [exact H1|]. intros a' idx Hidx Ha'.
  destruct (nth idx valid true) eqn:Ev.
  - destruct (idx =? nth idx0 (a_cds a) nc); [exact Ha'|]. cbn [set_cds a_cds].
    apply Inv_upd; [exact Ha'|]. intros _.
    rewrite forallb_forall in Hall. apply Hall. apply filter_In. split; [exact Hidx|exact Ev].
  - destruct (nth idx0 (a_cds a') nc =? idx); [|exact Ha']. cbn [set_cds set_out set_st a_cds].
    apply Inv_upd; [exact Ha'|]. apply H.
Qed.

Lemma optimize_rivlen_inv valid short a : Inv (a_cds a) ->
  Inv (a_cds (optimize_rivlen sds upa subncol cs nrow ncol valid short a)).
Proof.
  intros H. unfold optimize_rivlen. apply fold_left_inv; [exact H|]. intros a' i _ Ha'. cbv zeta.
  pose proof (opt_one_inv valid a' i Ha') as H1.
  destruct (opt_one sds upa subncol cs nrow ncol valid a' i) as [a1 brk]. cbn [fst] in H1.
  destruct brk; [exact H1|]. apply opt_one_inv. exact H1.
Qed.

(* ---------- ihu_minimize_error ---------- *)
Lemma me_scan_inv cds out idxs idx0 nb : Inv cds -> (forall x, In x nb -> in_d8 idx0 x ncol = true) ->
  Inv (sc_cds (me_scan sds upa nrow ncol cds out idxs idx0 nb)).
Proof.
  intros H Hnb. unfold me_scan. apply fold_left_inv; [exact H|]. intros s idx1 Hin Hs. cbv zeta.
  destruct (nsub <=? nth idx1 out nsub); [exact Hs|].
  destruct (me_chain nrow ncol (S (S nc)) (sc_cds s) idxs idx0 idx1 0 (sc_dist s)) as [d0| |]; [| |exact Hs].
  - match goal with |- context [if ?c then _ else _] => destruct c end; [|exact Hs].
    match goal with |- context [if ?c then _ else _] => destruct c end; [exact Hs|].
    cbn [sc_cds]. apply Inv_upd; [exact Hs|]. intros _. apply Hnb. exact Hin.
  - match goal with |- context [if ?c then _ else _] => destruct c end; exact Hs.
Qed.

Lemma me_hw_inv idxs hw : forall a, Inv (a_cds a) -> Inv (a_cds (me_hw sds upa subncol cs nrow ncol a idxs hw)).
Proof.
  induction hw as [|idx t IH]; intros a H; cbn [me_hw]; [exact H|].
  pose proof (new_outlet_inv a idx (nth idx (a_out a) nsub) (Some (nth (nth 0 idxs nc) (a_out a) nsub)) H) as H1.
  destruct (new_outlet sds upa subncol cs ncol a idx (nth idx (a_out a) nsub) (Some (nth (nth 0 idxs nc) (a_out a) nsub)))
    as [a1 fixed1].
  cbn [fst] in H1. destruct fixed1; [exact H1|]. apply IH. exact H1.
Qed.

Lemma me_rounds_inv idxs idx0 nb n : (forall x, In x nb -> in_d8 idx0 x ncol = true) ->
  forall a, Inv (a_cds a) -> Inv (a_cds (me_rounds sds upa subncol cs nrow ncol n a idxs idx0 nb)).
Proof.
  intros Hnb. induction n as [|n IH]; intros a H; cbn [me_rounds]; [exact H|]. cbv zeta.
  pose proof (me_scan_inv (a_cds a) (a_out a) idxs idx0 nb H Hnb) as Hs.
  match goal with |- context [if ?c then _ else _] => destruct c end; [|exact Hs].
  apply IH. apply me_hw_inv. exact Hs.
Qed.

Lemma d8_idx_in_d8 idx0 x : In x (d8_idx idx0 nrow ncol) -> in_d8 idx0 x ncol = true.
Proof.
  intros Hx. destruct ncol as [|n] eqn:En.
  - (* no column: _d8_idx returns nothing *)
    exfalso. unfold d8_idx, offsets8 in Hx. cbn [flat_map] in Hx. rewrite !in_app_iff in Hx.
    assert (F : forall z : Z, (z <? Z.of_nat 0)%Z = true -> (0 <=? z)%Z = true -> False)
      by (intros z A B; apply Z.ltb_lt in A; apply Z.leb_le in B; lia).
    repeat (destruct Hx as [Hx|Hx];
            [match type of Hx with In _ (if ?c then _ else _) => destruct c eqn:E end;
             [apply andb_true_iff in E; destruct E as [E E4]; apply andb_true_iff in E; destruct E as [_ E3];
              exact (F _ E4 E3)|destruct Hx]|]).
    destruct Hx.
  - rewrite <- En in *. apply (d8_idx_spec idx0 nrow ncol x ltac:(lia)) in Hx. tauto.
Qed.

Lemma me_one_inv poc a idx0 : Inv (a_cds a) -> Inv (a_cds (me_one sds upa subncol cs nrow ncol poc a idx0)).
Proof.
  intros H. unfold me_one. cbv zeta.
  destruct (me_path sds ncol (S nsub) (a_st a) idx0 (nth idx0 (a_out a) nsub) []) as [[[idxs subidx] subidx_ds]|];
    [|exact H].
  match goal with |- context [if ?c then _ else _] => destruct c end.
  - cbn [set_out set_cds set_st a_cds]. apply Inv_upd; [exact H|]. intros _. apply in_d8_refl.
  - match goal with |- context [if ?c then new_outlet _ _ _ _ _ _ _ _ _ else _] => destruct c end.
    + pose proof (new_outlet_inv a idx0 (nth idx0 (a_out a) nsub) None H) as H1.
      destruct (new_outlet sds upa subncol cs ncol a idx0 (nth idx0 (a_out a) nsub) None) as [a1 fixed].
      cbn [fst] in H1. destruct fixed; [exact H1|]. apply me_rounds_inv; [apply d8_idx_in_d8|exact H1].
    + apply me_rounds_inv; [apply d8_idx_in_d8|exact H].
Qed.

Lemma minimize_error_inv fixl poc a : Inv (a_cds a) ->
  Inv (a_cds (minimize_error sds upa subncol cs nrow ncol fixl poc a)).
Proof.
  intros H. unfold minimize_error. cbv zeta. apply fold_left_inv; [exact H|]. intros a' i0 _ Ha'. apply me_one_inv. exact Ha'.
Qed.

(* ---------- ihu_relocate_outlets: the arrays and the log from which they are restored ---------- *)
Definition LogOk (log : list (nat * nat)) : Prop :=
  Forall (fun p => snd p < nc -> in_d8 (fst p) (snd p) ncol = true) log.
Definition SInv (s : S4) : Prop := Inv (s_cds s) /\ LogOk (s_chg_ds s).

Lemma s4_set_ds_inv s i v : SInv s -> (v < nc -> in_d8 i v ncol = true) -> SInv (s4_set_ds nrow ncol s i v).
Proof.
  intros [H1 H2] Hv. unfold s4_set_ds. destruct (nth i (s_cds s) nc =? v); [split; assumption|].
  split; cbn [s_cds s_chg_ds].
  - apply Inv_upd; assumption.
  - apply Forall_app. split; [exact H2|]. constructor; [|constructor]. cbn [fst snd]. apply H1.
Qed.

Lemma s4_set_out_inv s i v : SInv s -> SInv (s4_set_out sds s i v).
Proof. intros H. unfold s4_set_out. destruct (v =? nth i (s_out s) nsub); exact H. Qed.

Lemma s4_unroll_inv s : SInv s -> SInv (s4_unroll s).
Proof.
  intros [H1 H2]. unfold s4_unroll. cbv zeta. split; cbn [s_cds s_chg_ds]; [|exact H2].
  apply fold_left_inv; [exact H1|]. intros l p Hp Hl. apply Inv_upd; [exact Hl|].
  unfold LogOk in H2. rewrite Forall_forall in H2. apply H2. apply in_rev. exact Hp.
Qed.

Lemma s4_bottleneck_inv s b : SInv s -> SInv (s4_bottleneck s b).
Proof. intros H. exact H. Qed.

Lemma s4_fail_inv s : SInv s -> SInv (s4_fail s).
Proof. intros H. exact H. Qed.

Lemma rl_trib_inv fuel : forall s idx0 subidx_ds0 subidx idx_ds0 path, SInv s ->
  SInv (rl_trib sds subncol cs nrow ncol fuel s idx0 subidx_ds0 subidx idx_ds0 path).
Proof.
  induction fuel as [|f IH]; intros s idx0 subidx_ds0 subidx idx_ds0 path H; cbn [rl_trib]; [exact H|]. cbv zeta.
  match goal with |- context [if ?c then _ else _] => destruct c end.
  - match goal with |- context [if ?c then _ else _] => destruct c end; [exact H|].
    destruct (in_d8 idx0 (sub2idx (sd sds subidx) subncol cs ncol) ncol) eqn:E8; [|exact H].
    apply s4_set_ds_inv; [exact H|]. intros _. exact E8.
  - match goal with |- context [match ?m with Some s' => s' | None => _ end] => destruct m as [s'|] eqn:Em end;
      [|apply IH; exact H].
    match type of Em with (if ?c then _ else _) = _ => destruct c eqn:Ec end; [|discriminate].
    destruct (next_outlet sds subncol cs ncol (S nsub) (s_out s) subidx) as [[[x idx_ds00] outlet0]|];
      [|inversion Em; exact H].
    match type of Em with (if ?c then _ else _) = _ => destruct c eqn:Ec2 end; [|discriminate].
    inversion Em. apply s4_set_out_inv. apply s4_set_ds_inv; [apply s4_set_ds_inv; [exact H|]|].
    + intros _. apply andb_true_iff in Ec. destruct Ec as [_ Ec]. exact Ec.
    + intros _. apply andb_true_iff in Ec2. destruct Ec2 as [_ Ec2]. exact Ec2.
Qed.

Lemma rl_main_tribs_inv us0 sds0 s ks : SInv s -> SInv (rl_main_tribs sds subncol cs nrow ncol us0 sds0 s ks).
Proof.
  intros H. unfold rl_main_tribs. apply fold_left_inv; [exact H|]. intros s' k _ Hs'. cbv zeta.
  destruct (in_out s' (nth k us0 nc)); [exact Hs'|]. apply rl_trib_inv. exact Hs'.
Qed.

Lemma rl_step_inv il sl us0 sds0 conn conn1 s j : SInv s ->
  SInv (rl_step sds subncol cs nrow ncol il sl us0 sds0 conn conn1 s j).
Proof.
  intros H. unfold rl_step. destruct (s_next s); [exact H|]. cbv zeta.
  match goal with |- context [if ?c then s4_unroll _ else _] => destruct c end.
  - apply s4_unroll_inv. exact H.
  - match goal with |- context [if ?c then _ else _] => destruct c end; [exact H|].
    match goal with |- context [if ?c then _ else _] => destruct c eqn:E end.
    + assert (E8 : in_d8 (s_idx0 s) (nth j il nc) ncol = true).
      { cbn [s_out s_bott s_chg_out s_idx0 in_out] in E.
        assert (E' : (if in_out s (nth j il nc) || memb (nth j il nc) (s_bott s) then false
                      else in_d8 (s_idx0 s) (nth j il nc) ncol) = true).
        { unfold in_out. cbn [s_chg_out s_bott s_idx0] in *.
          apply orb_true_iff in E. destruct E as [E|E]; apply andb_true_iff in E; destruct E as [E _]; exact E. }
        destruct (in_out s (nth j il nc) || memb (nth j il nc) (s_bott s)); [discriminate|exact E']. }
      match goal with |- context [rl_main_tribs _ _ _ _ _ _ _ ?s0 ?ks] =>
        assert (Hm : SInv (rl_main_tribs sds subncol cs nrow ncol us0 sds0 s0 ks)) end.
      { apply rl_main_tribs_inv. apply s4_set_out_inv. apply s4_set_ds_inv; [exact H|]. intros _. exact E8. }
      match goal with |- context [if ?c then s4_unroll _ else _] => destruct c end; [apply s4_unroll_inv|]; exact Hm.
    + match goal with |- context [if ?c then _ else _] => destruct c end; exact H.
Qed.

Lemma rl_passes_inv il sl us0 sds0 conn conn1 fuel : forall cds out bott idx00 idx1 ok, Inv cds ->
  SInv (rl_passes sds subncol cs nrow ncol il sl us0 sds0 conn conn1 fuel cds out bott idx00 idx1 ok).
Proof.
  assert (Hfold : forall cds out bott idx00 idx1 ok, Inv cds ->
    SInv (fold_left (rl_step sds subncol cs nrow ncol il sl us0 sds0 conn conn1) (seq 0 (length sl))
            (mkS4 cds out bott false [] [] idx00 0 0 idx1 ok))).
  { intros cds out bott idx00 idx1 ok H. apply fold_left_inv; [split; [exact H|constructor]|].
    intros s j _ Hs. apply rl_step_inv. exact Hs. }
  induction fuel as [|f IH]; intros cds out bott idx00 idx1 ok H; cbn [rl_passes].
  - apply s4_fail_inv. apply Hfold. exact H.
  - cbv zeta. pose proof (Hfold cds out bott idx00 idx1 ok H) as Hs.
    match goal with |- context [if ?c then _ else _] => destruct c end; [|exact Hs].
    apply IH. destruct Hs as [Hs _]. exact Hs.
Qed.

Lemma rl_one_inv a idx00 : Inv (a_cds a) -> Inv (a_cds (rl_one sds subncol cs nrow ncol a idx00)).
Proof.
  intros H. unfold rl_one. cbv zeta.
  match goal with |- context [match ?m with Some _ => _ | None => _ end] => destruct m as [[[il sl] sub_end]|] end; [|exact H].
  match goal with |- context [if ?c then a else _] => destruct c end; [exact H|].
  cbn [a_cds].
  match goal with |- context [rl_passes _ _ _ _ _ ?a1 ?a2 ?a3 ?a4 ?a5 ?a6 ?a7 ?a8 ?a9 ?a10 ?a11 ?a12 ?a13] =>
    pose proof (rl_passes_inv a1 a2 a3 a4 a5 a6 a7 a8 a9 a10 a11 a12 a13 H) as Hs;
    set (S0 := rl_passes sds subncol cs nrow ncol a1 a2 a3 a4 a5 a6 a7 a8 a9 a10 a11 a12 a13) in * end.
  destruct (in_out S0 (nth (s_idx1 S0) (s_cds S0) nc)).
  - destruct (s4_unroll_inv S0 Hs) as [Hu _]. exact Hu.
  - destruct Hs as [Hs _]. exact Hs.
Qed.

Lemma relocate_inv fixl a : Inv (a_cds a) -> Inv (a_cds (relocate sds upa subncol cs nrow ncol fixl a)).
Proof.
  intros H. unfold relocate. cbv zeta. apply fold_left_inv; [exact H|]. intros a' i0 _ Ha'. apply rl_one_inv. exact Ha'.
Qed.

(* ---------- the iterations ---------- *)
Theorem ihu_iter_inv n : forall j a fixl, Inv (a_cds a) -> Inv (a_cds (ihu_iter sds upa subncol cs nrow ncol n j a fixl)).
Proof.
  induction n as [|n IH]; intros j a fixl H; cbn [ihu_iter]; [exact H|]. cbv zeta.
  pose proof (relocate_inv fixl a H) as H1.
  set (a1 := relocate sds upa subncol cs nrow ncol fixl a) in *.
  set (c := upscale_check sds cs nrow ncol (a_out a1) (a_cds a1)).
  match goal with |- context [minimize_error _ _ _ _ _ _ ?f ?p (optimize_rivlen _ _ _ _ _ _ ?v ?sh ?a2)] =>
    assert (H4 : forall p', Inv (a_cds (minimize_error sds upa subncol cs nrow ncol f p'
                                         (optimize_rivlen sds upa subncol cs nrow ncol v sh a2)))) end.
  { intros p'. apply minimize_error_inv. apply optimize_rivlen_inv. cbn [a_cds]. exact H1. }
  match goal with |- context [if ?c then _ else ihu_iter _ _ _ _ _ _ _ _ _ _] => destruct c end.
  - apply H4.
  - apply IH. apply H4.
Qed.
End IhuD8.

(* ---------- the first stage establishes the invariant; the packaged statement on the model's entry point ---------- *)
Section Packaged.
Variables sds sq : list nat.
Variable upa : list Z.
Variables subnrow subncol cs : nat.
Variable ea : list bool.
Notation nrow := (cdiv subnrow cs).
Notation ncol := (cdiv subncol cs).
Notation nc := (nrow * ncol).

Hypothesis Hcs : 0 < cs.
Hypothesis HW : 0 < subncol.
Hypothesis Hlen : length sds = subnrow * subncol.
Hypothesis Ht : topo sds sq.                          (* loop-free ... *)
Hypothesis Hc : complete sds sq.                      (* ... and closed fine network *)
Hypothesis Hd8 : forall t, t < length sds -> Upscale.sd sds t < length sds -> in_d8 t (Upscale.sd sds t) subncol = true.
Hypothesis Hck : check_cross sds ea subncol cs = true.

Lemma eam_plus_Inv : Inv nrow ncol (fst (fst (up_eam_plus sds upa subnrow subncol cs ea))).
Proof.
  intros i Hi.
  pose proof (nextidx_length sds upa subnrow subncol cs ea) as Hl.
  destruct (Nat.lt_ge_cases i nc) as [Hlt|Hge].
  - destruct (up_eam_plus_entry sds sq upa subnrow subncol cs ea Hcs HW Hlen Ht Hc Hd8 Hck i Hlt) as [[E _]|[_ [E _]]].
    + rewrite (nth_indep _ nc 0) in Hi by (rewrite Hl; exact Hlt). cbv zeta in E. lia.
    + rewrite (nth_indep _ nc 0) by (rewrite Hl; exact Hlt). exact E.
  - rewrite nth_overflow in Hi by (rewrite Hl; exact Hge). lia.
Qed.

(* the state after the iterations *)
Definition ihu_final : A :=
  let rep := repcell sds upa subncol cs nrow ncol (eaf ea) in
  let out := ihu_outlets sds subncol cs nrow ncol rep in
  let cds := ihu_nextidx sds subncol cs nrow ncol ea out in
  ihu_iter sds upa subncol cs nrow ncol 5 0 (mkA cds out [] 0) (ihu_fix sds subncol cs nrow ncol out).

Lemma up_ihu_eq : up_ihu sds upa subnrow subncol cs ea =
  ((if a_err ihu_final =? 0 then a_cds ihu_final else [nc + a_err ihu_final]), a_out ihu_final, (nrow, ncol)).
Proof. unfold up_ihu, ihu_final. cbv zeta. reflexivity. Qed.

Theorem ihu_final_Inv : Inv nrow ncol (a_cds ihu_final).
Proof. unfold ihu_final. cbv zeta. apply ihu_iter_inv. cbn [a_cds]. exact eam_plus_Inv. Qed.

(* every link of the iterative method joins a coarse cell with itself or one of its eight neighbours (whatever the error
   flag: an error result [nc + err] has no entry that is a cell index) *)
Theorem up_ihu_links_d8 :
  let '(cds, out, (nrow, ncol)) := up_ihu sds upa subnrow subncol cs ea in
  forall idx0, idx0 < nrow * ncol -> nth idx0 cds (nrow * ncol) < nrow * ncol ->
  in_d8 idx0 (nth idx0 cds (nrow * ncol)) ncol = true.
Proof.
  rewrite up_ihu_eq. intros idx0 _ Hv.
  destruct (a_err ihu_final =? 0).
  - apply ihu_final_Inv. exact Hv.
  - exfalso. destruct idx0 as [|[|k]]; cbn [nth] in Hv; lia.
Qed.
End Packaged.

(* the same with every hypothesis as a boolean check on the inputs *)
Theorem up_ihu_links_d8_checked sds sq upa subnrow subncol cs ea : 0 < cs -> 0 < subncol ->
  length sds = subnrow * subncol ->
  check_topo sds sq = true -> check_complete sds sq = true -> check_d8 sds subncol = true ->
  check_cross sds ea subncol cs = true ->
  let '(cds, out, (nrow, ncol)) := up_ihu sds upa subnrow subncol cs ea in
  forall idx0, idx0 < nrow * ncol -> nth idx0 cds (nrow * ncol) < nrow * ncol ->
  in_d8 idx0 (nth idx0 cds (nrow * ncol)) ncol = true.
Proof.
  intros Hcs HW Hlen H1 H2 H3 H4.
  apply (up_ihu_links_d8 sds sq upa subnrow subncol cs ea Hcs HW Hlen (check_topo_sound sds sq H1)
           (check_complete_sound sds sq H2) (check_d8_sound sds subncol H3) H4).
Qed.

(* with the implementation's own effective-area map (in integers) no hypothesis on the map is left *)
Theorem up_ihu_links_d8_ea_int sds sq upa subnrow subncol cs : 0 < cs -> 0 < subncol ->
  length sds = subnrow * subncol -> topo sds sq -> complete sds sq ->
  (forall t, t < length sds -> Upscale.sd sds t < length sds -> in_d8 t (Upscale.sd sds t) subncol = true) ->
  let '(cds, out, (nrow, ncol)) := up_ihu sds upa subnrow subncol cs (ea_int cs subncol (length sds)) in
  forall idx0, idx0 < nrow * ncol -> nth idx0 cds (nrow * ncol) < nrow * ncol ->
  in_d8 idx0 (nth idx0 cds (nrow * ncol)) ncol = true.
Proof.
  intros Hcs HW Hlen Ht Hc Hd8.
  apply (up_ihu_links_d8 sds sq upa subnrow subncol cs _ Hcs HW Hlen Ht Hc Hd8 (ea_int_cross sds subncol cs Hcs)).
Qed.

(* ---------- example: case 1437 of the regression corpus (2 x 7 pixels, cell size 3, 1 x 3 coarse cells); ihu_relocate_outlets
   and ihu_minimize_error both change the result of the first stage ---------- *)
Definition ex_sds : list nat := [14; 1; 1; 14; 10; 5; 5; 1; 1; 2; 2; 10; 11; 5].
Definition ex_upa : list Z := [-9999; 9; 6; -9999; 1; 3; 1; 1; 1; 1; 4; 2; 1; 1]%Z.
Definition ex_ea : list bool := [false; true; false; false; true; false; false; true; true; true; true; true; true; true].
Definition ex_sq : list nat := [1; 5; 2; 6; 7; 8; 13; 9; 10; 4; 11; 12].    (* pits first, downstream before upstream *)

Example ex_run : up_ihu ex_sds ex_upa 2 7 3 ex_ea = ([0; 1; 1], [1; 5; 13], (1, 3)) /\
                 up_eam_plus ex_sds ex_upa 2 7 3 ex_ea = ([0; 0; 1], [1; 10; 13], (1, 3)).
Proof. vm_compute. auto. Qed.

Example ex_links_d8 : forall idx0, idx0 < 1 * 3 -> nth idx0 [0; 1; 1] (1 * 3) < 1 * 3 ->
  in_d8 idx0 (nth idx0 [0; 1; 1] (1 * 3)) 3 = true.
Proof.
  pose proof (up_ihu_links_d8_checked ex_sds ex_sq ex_upa 2 7 3 ex_ea) as H.
  destruct ex_run as [E _]. rewrite E in H.
  apply H; try lia; vm_compute; reflexivity.
Qed.

Print Assumptions ihu_iter_inv.
Print Assumptions up_ihu_links_d8.
Print Assumptions up_ihu_links_d8_checked.
Print Assumptions up_ihu_links_d8_ea_int.
Print Assumptions ex_links_d8.
