(* Pfafstetter closure, part D: freshness of the labels taken from the work list. *)
From Coq Require Import List Arith ZArith Bool Lia.
Import ListNotations.
From PF Require Import Arr Net SweepDown Fill FillSpec Rank Stream Subbas PfafClosureA PfafClosureB PfafClosureC.
Local Open Scope Z_scope.

Section Fresh.
Variable depth : Z.

(* the block of label values owned by a work-list entry (p, d): [p, p + W d) *)
Definition W (d : Z) : Z := 10 ^ (depth - d + 1).

Definition entry_ok (b : list Z) (e : Z * Z) : Prop :=
  0 < fst e /\ 1 <= snd e <= depth /\ forall c, ~ (fst e < lab b c < fst e + W (snd e)).
Definition edisj (e1 e2 : Z * Z) : Prop :=
  fst e1 + W (snd e1) <= fst e2 \/ fst e2 + W (snd e2) <= fst e1.
Fixpoint disj (l : list (Z * Z)) : Prop :=
  match l with
  | [] => True
  | e :: t => (forall e', In e' t -> edisj e e') /\ disj t
  end.

Lemma disj_snoc l x : disj l -> (forall e, In e l -> edisj e x) -> disj (l ++ [x]).
Proof.
  induction l as [|h t IH]; intros Hd Hx; cbn [app disj].
  - split; [intros e' []|exact I].
  - destruct Hd as [H1 H2]. split.
    + intros e' He. apply in_app_or in He. destruct He as [He|[<-|[]]]; [apply H1; exact He|].
      apply Hx. left. reflexivity.
    + apply IH; [exact H2|]. intros e He. apply Hx. right. exact He.
Qed.

Variables (pfaf0 d0 q : Z).
Hypothesis Hp0 : 0 < pfaf0.
Hypothesis Hq : 0 < q.
Hypothesis HWc : W (d0 + 1) = q.

Record FU (m3 m4 : Z) (b : list Z) (labs : list (Z * Z)) : Prop := {
  fu_ok : forall e, In e labs -> entry_ok b e;
  fu_disj : disj labs;
  fu3 : forall e, In e labs -> (fst e + W (snd e) <= pfaf0 \/ pfaf0 + 10 * q <= fst e) \/
          (exists j, 1 <= j <= m3 /\ fst e = pfaf0 + j * q /\ snd e = d0 + 1);
  fu4 : forall c, pfaf0 < lab b c < pfaf0 + 10 * q -> exists j, 1 <= j <= m4 /\ lab b c = pfaf0 + j * q
}.

Lemma fu_weaken m3 m4 m3' m4' b labs : m3 <= m3' -> m4 <= m4' -> FU m3 m4 b labs -> FU m3' m4' b labs.
Proof.
  intros H3 H4 HF. constructor.
  - apply (fu_ok _ _ _ _ HF).
  - apply (fu_disj _ _ _ _ HF).
  - intros e He. destruct (fu3 _ _ _ _ HF e He) as [H|(j & J1 & J2)]; [left; exact H|right].
    exists j. split; [lia|exact J2].
  - intros c Hc. destruct (fu4 _ _ _ _ HF c Hc) as (j & J1 & J2). exists j. split; [lia|exact J2].
Qed.

(* new labels pfaf0 + j q with m3 < j <= m4' <= 9 may be written anywhere *)
Lemma fu_vals m3 m4 m4' b b' labs : m4 <= m4' -> m4' <= 9 -> FU m3 m4 b labs ->
  (forall c, lab b' c = lab b c \/ exists j, m3 < j <= m4' /\ 1 <= j /\ lab b' c = pfaf0 + j * q) ->
  FU m3 m4' b' labs.
Proof.
  intros H4 H9 HF HV. constructor.
  - intros e He. destruct (fu_ok _ _ _ _ HF e He) as (E1 & E2 & E3).
    split; [exact E1|]. split; [exact E2|]. intros c Hc.
    destruct (HV c) as [E|(j & J1 & J2 & J3)]; [rewrite E in Hc; exact (E3 c Hc)|].
    rewrite J3 in Hc.
    destruct (fu3 _ _ _ _ HF e He) as [[H|H]|(j' & K1 & K2 & K3)].
    + nia.
    + nia.
    + rewrite K3, HWc, K2 in Hc. nia.
  - apply (fu_disj _ _ _ _ HF).
  - apply (fu3 _ _ _ _ HF).
  - intros c Hc. destruct (HV c) as [E|(j & J1 & J2 & J3)].
    + rewrite E in Hc. destruct (fu4 _ _ _ _ HF c Hc) as (j & J1 & J2). exists j. rewrite E. split; [lia|exact J2].
    + exists j. split; [lia|exact J3].
Qed.

(* a child entry is appended to the work list *)
Lemma fu_child m3 m4 j0 b labs : 1 <= d0 < depth -> m3 < j0 -> 1 <= j0 <= 9 -> FU m3 m4 b labs ->
  FU j0 m4 b (labs ++ [(pfaf0 + j0 * q, d0 + 1)]).
Proof.
  intros Hd Hj Hj9 HF.
  assert (Hnew : entry_ok b (pfaf0 + j0 * q, d0 + 1)).
  { unfold entry_ok. cbn [fst snd]. split; [nia|]. split; [lia|]. rewrite HWc. intros c Hc.
    assert (A1 : 0 < j0 * q) by nia. assert (A2 : j0 * q + q <= 10 * q) by nia.
    destruct (fu4 _ _ _ _ HF c ltac:(lia)) as (j & J1 & J2). rewrite J2 in Hc.
    assert (A3 : j0 < j) by nia. assert (A4 : j < j0 + 1) by nia. lia. }
  constructor.
  - intros e He. apply in_app_or in He. destruct He as [He|[<-|[]]]; [apply (fu_ok _ _ _ _ HF); exact He|exact Hnew].
  - apply disj_snoc; [apply (fu_disj _ _ _ _ HF)|]. intros e He. unfold edisj. cbn [fst snd]. rewrite HWc.
    destruct (fu3 _ _ _ _ HF e He) as [[H|H]|(j' & K1 & K2 & K3)].
    + left. nia.
    + right. nia.
    + left. rewrite K3, HWc, K2. nia.
  - intros e He. apply in_app_or in He. destruct He as [He|[<-|[]]].
    + destruct (fu3 _ _ _ _ HF e He) as [H|(j' & K1 & K2)]; [left; exact H|right]. exists j'. split; [lia|exact K2].
    + right. exists j0. cbn [fst snd]. split; [lia|]. split; reflexivity.
  - apply (fu4 _ _ _ _ HF).
Qed.
End Fresh.
