(* ihu_minimize_error, part A: facts about the hand model that do not involve the generated text.
   - memb / index_from / gen_ihu_index;
   - the neighbours d8_idx idx0 differ from idx0;
   - the walk along the coarse network (me_chain) as a fuel-only function `ch`, and the PIGEONHOLE lemma: when the arrays
     have nc elements, a walk that has not stopped after nc + 2 steps never stops.  No axioms. *)
From Coq Require Import List Arith ZArith Bool Lia.
Import ListNotations.
From PF Require Import Arr Net Elev Upscale D8Idx Ihu GenCodecBaseEq GenUpscaleBaseEq.

(* ---------- memb / index_from ---------- *)
Lemma memb_index x : forall l k, memb x l = match index_from x l k with Some _ => true | None => false end.
Proof.
  induction l as [|h t IH]; intros k; cbn [memb index_from]; [reflexivity|].
  rewrite (Nat.eqb_sym x h). destruct (h =? x)%nat; cbn [orb]; [reflexivity|apply IH].
Qed.

(* ---------- d8_idx ---------- *)
Lemma d8_idx_neq idx0 nrow ncol i : In i (d8_idx idx0 nrow ncol) -> i <> idx0.
Proof.
  unfold d8_idx. cbv zeta. intros H. apply in_flat_map in H. destruct H as [[dr dc] [Ho H]].
  cbn [fst snd] in H.
  destruct (_ && _ && _ && _) eqn:E; [|destruct H].
  destruct H as [<-|[]].
  apply andb_prop in E. destruct E as [E E4]. apply andb_prop in E. destruct E as [E E3].
  apply andb_prop in E. destruct E as [E1 E2].
  apply Z.leb_le in E1, E3. apply Z.ltb_lt in E2, E4.
  assert (Hn : (0 < ncol)%nat) by lia.
  pose proof (Nat.div_mod idx0 ncol ltac:(lia)) as Hdm.
  pose proof (Nat.mod_upper_bound idx0 ncol ltac:(lia)) as Hub.
  intros Heq.
  assert (Hz : ((Z.of_nat (idx0 / ncol) + dr) * Z.of_nat ncol + (Z.of_nat (idx0 mod ncol) + dc)
                = Z.of_nat ncol * Z.of_nat (idx0 / ncol) + Z.of_nat (idx0 mod ncol))%Z).
  { rewrite <- Nat2Z.inj_mul, <- Nat2Z.inj_add, <- Hdm. rewrite <- Heq at 3. rewrite Z2Nat.id by nia. reflexivity. }
  assert (Hdr : dr = 0%Z) by nia.
  assert (Hdc : dc = 0%Z) by nia.
  subst dr dc. unfold offsets8 in Ho. cbn [In] in Ho.
  repeat (destruct Ho as [Ho|Ho]; [discriminate Ho|]). exact Ho.
Qed.

(* ---------- iterates ---------- *)
Lemma iter_swap {X : Type} (f : X -> X) : forall k x, Nat.iter (S k) f x = Nat.iter k f (f x).
Proof. induction k as [|k IH]; intros x; [reflexivity|]. cbn [Nat.iter nat_rect] in *. rewrite IH. reflexivity. Qed.

Lemma iter_plus {X : Type} (f : X -> X) : forall m a x, Nat.iter (a + m) f x = Nat.iter m f (Nat.iter a f x).
Proof.
  induction m as [|m IH]; intros a x; [rewrite Nat.add_0_r; reflexivity|].
  rewrite Nat.add_succ_r. change (Nat.iter (S (a + m)) f x) with (f (Nat.iter (a + m) f x)).
  rewrite IH. reflexivity.
Qed.

(* a list of numbers with a repetition *)
Lemma not_nodup_nth : forall l : list nat, ~ NoDup l ->
  exists i k, (i < k)%nat /\ (k < length l)%nat /\ nth i l 0%nat = nth k l 0%nat.
Proof.
  induction l as [|a t IH]; intros H; [exfalso; apply H; constructor|].
  destruct (in_dec Nat.eq_dec a t) as [Hin|Hin].
  - destruct (In_nth t a 0%nat Hin) as [k [Hk Hn]]. exists 0%nat, (S k). cbn [nth length]. repeat split; [lia|lia|symmetry; exact Hn].
  - assert (Ht : ~ NoDup t) by (intros Hnd; apply H; constructor; assumption).
    destruct (IH Ht) as [i [k [Hik [Hk Hn]]]]. exists (S i), (S k). cbn [nth length]. repeat split; [lia|lia|exact Hn].
Qed.

Lemma php (x : nat -> nat) (n : nat) : (forall i, (i <= n)%nat -> (x i < n)%nat) ->
  exists i k, (i < k)%nat /\ (k <= n)%nat /\ x i = x k.
Proof.
  intros H.
  assert (Hnd : ~ NoDup (map x (seq 0 (S n)))).
  { intros Hnd. apply (NoDup_incl_length (l' := seq 0 n)) in Hnd.
    - rewrite map_length, !seq_length in Hnd. lia.
    - intros y Hy. apply in_map_iff in Hy. destruct Hy as [i [<- Hi]]. apply in_seq in Hi. apply in_seq. specialize (H i). lia. }
  destruct (not_nodup_nth _ Hnd) as [i [k [Hik [Hk Hn]]]].
  rewrite map_length, seq_length in Hk.
  exists i, k. repeat split; [exact Hik|lia|].
  rewrite (nth_indep _ 0%nat (x 0%nat)) in Hn by (rewrite map_length, seq_length; lia).
  rewrite (nth_indep _ 0%nat (x 0%nat) (n := k)) in Hn by (rewrite map_length, seq_length; lia).
  rewrite !map_nth, !seq_nth in Hn by lia. exact Hn.
Qed.

(* ---------- the walk along the coarse network ---------- *)
Section Chain.
Variables cds idxs : list nat.
Variables nc idx0 : nat.

Definition nxt (x : nat) : nat := nth x cds nc.
Definition brk (x : nat) : bool :=
  match index_from x idxs 0 with Some _ => true | None => (nxt x =? idx0)%nat || (nxt x =? x)%nat end.

(* me_chain with fuel only; None = out of fuel *)
Fixpoint ch (f : nat) (idx : nat) (j : Z) : option Chain :=
  match f with
  | O => None
  | S f' =>
    match index_from idx idxs 0 with
    | Some p => Some (CFound (Z.of_nat p + j))
    | None => if (nxt idx =? idx0)%nat then Some CUp
              else if (nxt idx =? idx)%nat then Some CNone
              else ch f' (nxt idx) (j + 1)
    end
  end.

Lemma ch_none_brk : forall f idx j, ch f idx j = None -> forall k, (k < f)%nat -> brk (Nat.iter k nxt idx) = false.
Proof.
  induction f as [|f IH]; intros idx j H k Hk; [lia|].
  cbn [ch] in H.
  destruct (index_from idx idxs 0) eqn:E1; [discriminate|].
  destruct (nxt idx =? idx0)%nat eqn:E2; [discriminate|].
  destruct (nxt idx =? idx)%nat eqn:E3; [discriminate|].
  destruct k as [|k].
  - cbn [Nat.iter nat_rect]. unfold brk. rewrite E1, E2, E3. reflexivity.
  - rewrite iter_swap. apply (IH _ _ H). lia.
Qed.

Lemma brk_ch_none : forall f idx j, (forall k, (k < f)%nat -> brk (Nat.iter k nxt idx) = false) -> ch f idx j = None.
Proof.
  induction f as [|f IH]; intros idx j H; [reflexivity|].
  cbn [ch].
  pose proof (H 0%nat ltac:(lia)) as H0. cbn [Nat.iter nat_rect] in H0. unfold brk in H0.
  destruct (index_from idx idxs 0); [discriminate|].
  apply orb_false_iff in H0. destruct H0 as [-> ->].
  apply IH. intros k Hk. rewrite <- iter_swap. apply H. lia.
Qed.

Lemma ch_mono : forall f idx j r, ch f idx j = Some r -> forall f', (f <= f')%nat -> ch f' idx j = Some r.
Proof.
  induction f as [|f IH]; intros idx j r H f' Hf; [discriminate|].
  destruct f' as [|f']; [lia|].
  cbn [ch] in *.
  destruct (index_from idx idxs 0); [exact H|].
  destruct (nxt idx =? idx0)%nat; [exact H|].
  destruct (nxt idx =? idx)%nat; [exact H|].
  apply (IH _ _ _ H). lia.
Qed.

Hypothesis Hlen : length cds = nc.

Lemma pigeon idx : (forall k, (k < nc + 2)%nat -> brk (Nat.iter k nxt idx) = false) ->
  forall k, brk (Nat.iter k nxt idx) = false.
Proof.
  intros H.
  set (x := fun k => Nat.iter k nxt idx).
  assert (Hx : forall k, x (S k) = nxt (x k)) by reflexivity.
  assert (Hnc : nxt nc = nc) by (unfold nxt; apply nth_overflow; lia).
  assert (Hbig : forall y, (nc <= y)%nat -> nxt y = nc) by (intros y Hy; unfold nxt; apply nth_overflow; lia).
  assert (Hbrk : brk nc = true).
  { unfold brk. destruct (index_from nc idxs 0); [reflexivity|]. rewrite Hnc, Nat.eqb_refl. apply orb_true_r. }
  assert (Hlt : forall k, (k <= nc)%nat -> (x k < nc)%nat).
  { intros k Hk. destruct (Nat.lt_ge_cases (x k) nc) as [Hl|Hge]; [exact Hl|exfalso].
    destruct (Nat.eq_dec (x k) nc) as [E|E].
    - pose proof (H k ltac:(lia)) as Hb. fold (x k) in Hb. rewrite E, Hbrk in Hb. discriminate.
    - pose proof (H (S k) ltac:(lia)) as Hb. fold (x (S k)) in Hb. rewrite Hx, (Hbig _ Hge), Hbrk in Hb. discriminate. }
  destruct (php x nc Hlt) as [i [k [Hik [Hk Hxx]]]].
  assert (Hper : forall m, x (k + m)%nat = x (i + m)%nat).
  { intros m. unfold x. rewrite !iter_plus. fold (x k). fold (x i). rewrite Hxx. reflexivity. }
  assert (Hall : forall j, exists j', (j' <= nc)%nat /\ x j = x j').
  { induction j as [|j [j' [Hj' Hj]]]; [exists 0%nat; split; [lia|reflexivity]|].
    destruct (Nat.eq_dec j' nc) as [E|E].
    - exists (i + (S nc - k))%nat. split; [lia|].
      rewrite Hx, Hj, <- Hx, E. rewrite <- Hper. f_equal. lia.
    - exists (S j'). split; [lia|]. rewrite !Hx, Hj. reflexivity. }
  intros j. destruct (Hall j) as [j' [Hj' Hj]]. fold (x j). rewrite Hj. apply H. lia.
Qed.

Lemma ch_stable idx j n : (nc + 2 <= n)%nat -> ch n idx j = ch (nc + 2) idx j.
Proof.
  intros Hn. destruct (ch (nc + 2) idx j) as [r|] eqn:E.
  - apply (ch_mono _ _ _ _ E). exact Hn.
  - apply brk_ch_none. intros k _. apply pigeon. apply (ch_none_brk _ _ _ E).
Qed.

Lemma ch_min idx j n : ch (Nat.min (nc + 2) n) idx j = ch n idx j.
Proof.
  destruct (Nat.le_ge_cases n (nc + 2)) as [Hle|Hge].
  - rewrite Nat.min_r by exact Hle. reflexivity.
  - rewrite Nat.min_l by exact Hge. symmetry. apply ch_stable. exact Hge.
Qed.
End Chain.

(* me_chain is ch with the smaller of the two bounds as fuel *)
Lemma me_chain_ch nrow ncol cds idxs idx0 md : forall f idx j,
  me_chain nrow ncol f cds idxs idx0 idx j md
  = match ch cds idxs (nrow * ncol) idx0 (Nat.min f (Z.to_nat (md - j + 1))) idx j with Some r => r | None => CNone end.
Proof.
  induction f as [|f IH]; intros idx j; [reflexivity|].
  cbn [me_chain]. cbv zeta.
  destruct (Z.ltb_spec md j) as [Hlt|Hge].
  - replace (Z.to_nat (md - j + 1)) with 0%nat by lia. rewrite Nat.min_0_r. reflexivity.
  - replace (Z.to_nat (md - j + 1)) with (S (Z.to_nat (md - (j + 1) + 1))) by lia.
    rewrite <- Nat.succ_min_distr. cbn [ch]. unfold nxt at 1 2 3.
    destruct (index_from idx idxs 0); [reflexivity|].
    destruct (_ =? idx0)%nat; [reflexivity|].
    destruct (_ =? idx)%nat; [reflexivity|].
    apply IH.
Qed.

Lemma me_chain_full nrow ncol cds idxs idx0 idx md : length cds = (nrow * ncol)%nat ->
  me_chain nrow ncol (S (S (nrow * ncol))) cds idxs idx0 idx 0 md
  = match ch cds idxs (nrow * ncol) idx0 (Z.to_nat (md + 1)) idx 0 with Some r => r | None => CNone end.
Proof.
  intros Hlen. rewrite me_chain_ch.
  replace (S (S (nrow * ncol))) with (nrow * ncol + 2)%nat by lia.
  replace (md - 0 + 1)%Z with (md + 1)%Z by lia.
  rewrite ch_min by exact Hlen. reflexivity.
Qed.

Print Assumptions me_chain_full.
Print Assumptions d8_idx_neq.
