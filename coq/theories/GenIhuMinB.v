(* ihu_minimize_error, part B: the loop `for j in range(max_dist + 1)` (step5) and the scan of the neighbours (step4) of the
   generated text equal the model's me_chain / me_scan.  No axioms. *)
From Coq Require Import List Arith ZArith Bool Lia.
Import ListNotations.
From PF Require Import Arr Net Elev Upscale D8Idx Ihu GenCodecBaseEq GenUpscaleBaseEq GenIhuBaseEq GenIhuNewEq GenIhuOptEq GenIhuMinA.
From PFG Require Import GenUpscale GenIhu.

Lemma idxh_eq idx0 idx1 ncol :
  (Z.of_nat idx0 + (Z.of_nat idx1 mod Z.of_nat ncol - Z.of_nat idx0 mod Z.of_nat ncol))%Z
  = Z.of_nat (idx0 + idx1 mod ncol - idx0 mod ncol).
Proof.
  rewrite !zmod_nat.
  assert (H : (idx0 mod ncol <= idx0)%nat) by (destruct ncol; [cbn; lia|apply Nat.mod_le; lia]).
  lia.
Qed.

Lemma idxv_eq idx0 idx1 ncol :
  (Z.of_nat idx0 + (Z.of_nat idx1 / Z.of_nat ncol - Z.of_nat idx0 / Z.of_nat ncol) * Z.of_nat ncol)%Z
  = Z.of_nat (idx0 + idx1 / ncol * ncol - idx0 / ncol * ncol).
Proof.
  rewrite !zdiv_nat.
  assert (H : (idx0 / ncol * ncol <= idx0)%nat).
  { destruct ncol; [cbn; lia|]. rewrite Nat.mul_comm. apply Nat.mul_div_le. lia. }
  rewrite Nat2Z.inj_sub by lia. rewrite Nat2Z.inj_add, !Nat2Z.inj_mul. lia.
Qed.

Lemma zlen0 {X : Type} (l : list X) : (Z.of_nat (length l) =? 0)%Z = (length l =? 0)%nat.
Proof. change 0%Z with (Z.of_nat 0). apply zeqb_nat. Qed.

Definition T5 : Type := list nat * bool * Z * Z * list nat.
Definition tup (s : Scan) : T5 := (sc_cds s, sc_fixed s, sc_dist s, sc_upa s, sc_hw s).

Section Scan.
Variable sds : list nat.
Variable upa : list Z.
Variables nrow ncol : nat.
Notation nsub := (length sds).
Notation nc := (nrow * ncol)%nat.
Notation shape := (Z.of_nat nrow, Z.of_nat ncol).
Variables idxs : list nat.
Variable idx0 : nat.

(* what the model does at the end of a walk *)
Definition sact (idx1 : nat) (u : Z) (s : Scan) (r : Chain) : Scan :=
  let hor := (absdiff idx1 idx0 =? 1)%nat in
  let ver := (absdiff idx1 idx0 =? ncol)%nat in
  match r with
  | CFound d0 =>
    if (d0 <? sc_dist s)%Z || ((d0 =? sc_dist s)%Z && (sc_upa s <? u)%Z) then
      let cross :=
        if hor || ver then false
        else let idxh := (idx0 + idx1 mod ncol - idx0 mod ncol)%nat in
             let idxv := (idx0 + (idx1 / ncol) * ncol - (idx0 / ncol) * ncol)%nat in
             (nth idxh (sc_cds s) nc =? idxv)%nat || (nth idxv (sc_cds s) nc =? idxh)%nat in
      if cross then s else mkScan (upd (sc_cds s) idx0 idx1) d0 u true (sc_hw s)
    else s
  | CUp => if (length (upstream_d8_idx (sc_cds s) idx1 nrow ncol) =? 0)%nat
           then mkScan (sc_cds s) (sc_dist s) (sc_upa s) (sc_fixed s) (sc_hw s ++ [idx1])
           else s
  | CNone => s
  end.

Definition sstep (out : list nat) (s : Scan) (idx1 : nat) : Scan :=
  if (nsub <=? nth idx1 out nsub)%nat then s
  else sact idx1 (nth (nth idx1 out nsub) upa 0%Z) s
            (me_chain nrow ncol (S (S nc)) (sc_cds s) idxs idx0 idx1 0 (sc_dist s)).

Lemma me_scan_unf cds out nb :
  me_scan sds upa nrow ncol cds out idxs idx0 nb = fold_left (sstep out) nb (mkScan cds 999999%Z 0%Z false []).
Proof. reflexivity. Qed.

Lemma sact_len idx1 u s r : length (sc_cds (sact idx1 u s r)) = length (sc_cds s).
Proof.
  unfold sact. cbv zeta. destruct r as [d0| |]; [|destruct (_ =? _)%nat; reflexivity|reflexivity].
  destruct (_ || _); [|reflexivity].
  destruct ((absdiff idx1 idx0 =? 1)%nat || (absdiff idx1 idx0 =? ncol)%nat); [cbn [sc_cds]; apply upd_length|].
  destruct (_ || _); [reflexivity|]. cbn [sc_cds]. apply upd_length.
Qed.

Lemma sstep_len out s idx1 : length (sc_cds (sstep out s idx1)) = length (sc_cds s).
Proof. unfold sstep. destruct (_ <=? _)%nat; [reflexivity|apply sact_len]. Qed.

(* ----- one iteration of the j-loop ----- *)
Lemma step5_eq idx1 u s j idx : idx1 <> idx0 ->
  gen_ihu_ihu_minimize_error_step5 shape nc (Z.of_nat ncol) idx0 idxs idx1 u
    (absdiff idx1 idx0 =? 1)%nat (absdiff idx1 idx0 =? ncol)%nat (tup s, idx) j
  = match index_from idx idxs 0 with
    | Some p => Some ((tup (sact idx1 u s (CFound (Z.of_nat p + Z.of_nat j))), idx), true)
    | None =>
      if (nth idx (sc_cds s) nc =? idx0)%nat then Some ((tup (sact idx1 u s CUp), idx), true)
      else if (nth idx (sc_cds s) nc =? idx)%nat then Some ((tup s, idx), true)
      else Some ((tup s, nth idx (sc_cds s) nc), false)
    end.
Proof.
  intros Hne.
  assert (Hne' : (idx0 =? idx1)%nat = false) by (apply Nat.eqb_neq; congruence).
  unfold gen_ihu_ihu_minimize_error_step5, tup. cbv zeta.
  rewrite (memb_index idx idxs 0). unfold gen_ihu_index.
  destruct (index_from idx idxs 0) as [p|].
  - unfold sact. cbv zeta. rewrite Z.gtb_ltb.
    destruct (_ || _); [|reflexivity].
    rewrite Hne'. cbn [negb].
    destruct ((absdiff idx1 idx0 =? 1)%nat || (absdiff idx1 idx0 =? ncol)%nat); cbn [negb]; [reflexivity|].
    rewrite idxh_eq, idxv_eq, !Nat2Z.id, !zeqb_nat.
    destruct (_ || _); reflexivity.
  - rewrite gen_ihu_upstream_d8_idx_eq, zlen0.
    unfold sact. cbv zeta.
    destruct (nth idx (sc_cds s) nc =? idx0)%nat.
    + rewrite orb_true_r. destruct (_ =? 0)%nat; reflexivity.
    + rewrite orb_false_r. destruct (_ =? idx)%nat; reflexivity.
Qed.

(* ----- the whole j-loop ----- *)
Definition F5 (idx1 : nat) (u : Z) :=
  fun (st_ : option ((T5 * nat) * bool)) (x_ : nat) =>
    match st_ with
    | None => None
    | Some (s_, b_) =>
      if b_ then st_
      else gen_ihu_ihu_minimize_error_step5 shape nc (Z.of_nat ncol) idx0 idxs idx1 u
             (absdiff idx1 idx0 =? 1)%nat (absdiff idx1 idx0 =? ncol)%nat s_ x_
    end.

Lemma F5_stay idx1 u t : forall l, fold_left (F5 idx1 u) l (Some (t, true)) = Some (t, true).
Proof. induction l as [|x l IH]; cbn [fold_left]; [reflexivity|exact IH]. Qed.

Definition proj5 (o : option ((T5 * nat) * bool)) : option T5 :=
  match o with None => None | Some ((t, _), _) => Some t end.

Lemma loop5 idx1 u s : idx1 <> idx0 -> forall n j0 idx,
  proj5 (fold_left (F5 idx1 u) (seq j0 n) (Some ((tup s, idx), false)))
  = Some (tup (match ch (sc_cds s) idxs nc idx0 n idx (Z.of_nat j0) with Some r => sact idx1 u s r | None => s end)).
Proof.
  intros Hne. induction n as [|n IH]; intros j0 idx; [reflexivity|].
  cbn [seq fold_left]. unfold F5 at 2. cbv beta iota.
  rewrite step5_eq by exact Hne. cbn [ch]. unfold nxt.
  destruct (index_from idx idxs 0) as [p|]; [rewrite F5_stay; reflexivity|].
  destruct (_ =? idx0)%nat; [rewrite F5_stay; reflexivity|].
  destruct (_ =? idx)%nat; [rewrite F5_stay; reflexivity|].
  rewrite IH. rewrite Nat2Z.inj_succ, Z.add_1_r. reflexivity.
Qed.

(* ----- one neighbour ----- *)
Lemma step4_eq out s idx1 : idx1 <> idx0 -> length (sc_cds s) = nc ->
  gen_ihu_ihu_minimize_error_step4 out upa shape nsub nc (Z.of_nat ncol) idx0 idxs (tup s) idx1
  = Some (tup (sstep out s idx1)).
Proof.
  intros Hne Hlen. unfold gen_ihu_ihu_minimize_error_step4, sstep.
  unfold tup at 1. cbv zeta.
  destruct (_ <=? _)%nat; [reflexivity|].
  rewrite zabs_absdiff, zeqb1_nat, zeqb_nat.
  set (u := nth (nth idx1 out nsub) upa 0%Z).
  unfold gen_ihu_obfold.
  change (fold_left _ (seq 0 (Z.to_nat (sc_dist s + 1))) _)
    with (fold_left (F5 idx1 u) (seq 0 (Z.to_nat (sc_dist s + 1))) (Some ((tup s, idx1), false))).
  pose proof (loop5 idx1 u s Hne (Z.to_nat (sc_dist s + 1)) 0%nat idx1) as HL.
  rewrite me_chain_full by exact Hlen.
  change (Z.of_nat 0) with 0%Z in HL.
  destruct (ch (sc_cds s) idxs nc idx0 (Z.to_nat (sc_dist s + 1)) idx1 0) as [r|];
    destruct (fold_left _ _ _) as [[[[[[[c f] d] m] h] i] b]|]; cbn [proj5] in HL; try discriminate HL;
    exact HL.
Qed.

(* ----- all neighbours ----- *)
Lemma scan_eq out : forall nb s, (forall i, In i nb -> i <> idx0) -> length (sc_cds s) = nc ->
  GenIhu.ofold (gen_ihu_ihu_minimize_error_step4 out upa shape nsub nc (Z.of_nat ncol) idx0 idxs) nb (tup s)
  = Some (tup (fold_left (sstep out) nb s)).
Proof.
  induction nb as [|x nb IH]; intros s Hnb Hlen; [reflexivity|].
  rewrite ofold_cons, step4_eq by (first [apply Hnb; left; reflexivity | exact Hlen]).
  cbn [fold_left]. apply IH.
  - intros i Hi. apply Hnb. right. exact Hi.
  - rewrite sstep_len. exact Hlen.
Qed.

Lemma scan_len out : forall nb s, length (sc_cds (fold_left (sstep out) nb s)) = length (sc_cds s).
Proof. induction nb as [|x nb IH]; intros s; cbn [fold_left]; [reflexivity|]. rewrite IH. apply sstep_len. Qed.
End Scan.

Print Assumptions scan_eq.
