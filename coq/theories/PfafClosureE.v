(* Pfafstetter closure, part E: the fold over the tributaries and the work loop keep the invariants. *)
From Coq Require Import List Arith ZArith Bool Lia.
Import ListNotations.
From PF Require Import Arr Net SweepDown Fill FillSpec Rank Stream Subbas PfafDigits.
From PF Require Import PfafClosureA PfafClosureB PfafClosureC PfafClosureD.
Local Open Scope Z_scope.

Section Loop.
Variable ds : list nat.
Variable main : list nat.
Variable strord : list Z.
Let n := length ds.
Variable rk : nat -> nat.
Notation mn x := (nth x main n).
Notation dsf := (dsf ds).
Hypothesis Hrk : forall c, (c < n)%nat -> (dsf c < n)%nat -> dsf c <> c -> (rk (dsf c) < rk c)%nat.
Hypothesis Hrkn : forall c, (c < n)%nat -> (dsf c < n)%nat -> (rk c < n)%nat.
Hypothesis HM : forall x, (mn x < n)%nat -> dsf (mn x) = x /\ mn x <> x.
Variable uparea : list Z.
Notation ua c := (nth c uparea 0).
Hypothesis Hua : forall c, (c < n)%nat -> (dsf c < n)%nat -> dsf c <> c -> ua c < ua (dsf c).
Variable trib : list nat.
Hypothesis HT : forall t, In t trib ->
  (t < n)%nat /\ (dsf t < n)%nat /\ dsf t <> t /\ mn (dsf t) <> t /\ (mn (dsf t) < n)%nat.
Hypothesis HTnd : NoDup trib.
Variable depth : Z.
Hypothesis Hdepth : 1 <= depth.

Definition LINV (b : list Z) (idxs : list nat) (labs : list (Z * Z)) : Prop :=
  INV ds main b idxs /\ (forall e, In e labs -> entry_ok depth b e) /\ disj depth labs.

Section Fold.
Variables (b0 : list Z) (idxs0 : list nat) (pfaf0 d0 : Z).
Hypothesis HI0 : INV ds main b0 idxs0.
Hypothesis Hp0 : 0 < pfaf0.
Hypothesis Hd0 : 1 <= d0 <= depth.
Let q := pow10 (depth - d0).

Lemma q_pos : 0 < q.
Proof. unfold q, pow10. apply Z.pow_pos_nonneg; lia. Qed.
Lemma W_child : W depth (d0 + 1) = q.
Proof. unfold W, q, pow10. f_equal. lia. Qed.
Lemma W_parent : W depth d0 = 10 * q.
Proof. unfold W, q, pow10. replace (depth - d0 + 1) with (Z.succ (depth - d0)) by lia. apply Z.pow_succ_r. lia. Qed.

Notation SINV' := (SINV ds main uparea trib b0 idxs0 pfaf0).
Notation FU' := (FU depth pfaf0 d0 q).

Lemma fold_trib_inv : forall rem (i : nat) b idxs labs X,
  SINV' rem b idxs X -> FU' (2 * Z.of_nat i) (2 * Z.of_nat i) b labs ->
  pfaf0 <= X <= pfaf0 + 2 * Z.of_nat i * q ->
  sortedd (fun t => ua (dsf t)) rem -> NoDup rem -> (i + length rem <= 4)%nat ->
  let r := fold_left (pfaf_trib ds main strord depth d0 pfaf0) (combine (seq i (length rem)) rem) (b, idxs, labs, X) in
  LINV (fst (fst (fst r))) (snd (fst (fst r))) (snd (fst r)).
Proof.
  pose proof q_pos as Hq.
  induction rem as [|t0 rest IH]; intros i b idxs labs X HS HF HX Hso Hnd Hlen.
  - cbn [length seq combine fold_left fst snd]. split; [apply (s_inv _ _ _ _ _ _ _ _ _ _ _ HS)|].
    split; [apply (fu_ok _ _ _ _ _ _ _ _ HF)|apply (fu_disj _ _ _ _ _ _ _ _ HF)].
  - cbn [length seq combine fold_left].
    pose proof (pfaf_trib_core ds main strord depth d0 pfaf0 b idxs labs X i t0) as EQ. cbv zeta in EQ. rewrite EQ. clear EQ.
    fold q.
    set (iz := Z.of_nat i) in *.
    assert (Hiz : 0 <= iz <= 3) by (cbn [length] in Hlen; unfold iz; lia).
    set (psub := pfaf0 + (iz * 2 + 1) * q).
    set (pint := pfaf0 + (iz + 1) * 2 * q).
    destruct Hso as [Hso1 Hso2]. inversion Hnd as [|x l Hni Hnd']; subst x l.
    assert (Hf1 : forall c, lab b c <> psub).
    { intros c E. destruct (fu4 _ _ _ _ _ _ _ _ HF c ltac:(rewrite E; unfold psub; nia)) as (j & J1 & J2).
      rewrite E in J2. unfold psub in J2. nia. }
    assert (Hf2 : forall c, lab b c <> pint).
    { intros c E. destruct (fu4 _ _ _ _ _ _ _ _ HF c ltac:(rewrite E; unfold pint; nia)) as (j & J1 & J2).
      rewrite E in J2. unfold pint in J2. nia. }
    pose proof (trib_core_struct ds main strord rk Hrk Hrkn HM uparea Hua trib HT b0 idxs0 pfaf0 HI0 ltac:(lia)
                  psub pint t0 rest b idxs X HS Hso1 Hni ltac:(unfold psub; nia) ltac:(unfold pint; nia)
                  ltac:(unfold pint; nia) ltac:(unfold psub, pint; nia) Hf1 Hf2) as HS'.
    pose proof (trib_core_vals ds main strord psub pint b idxs X t0) as HV.
    cbv zeta in HS', HV.
    destruct (trib_core ds main strord psub pint b idxs X t0) as [[[b' idxs'] X'] cr]. cbn [fst snd] in HS', HV.
    destruct HV as (V1 & V2 & V3).
    apply (IH (S i)); [exact HS'| | |exact Hso2|exact Hnd'|cbn [length] in Hlen; lia].
    + replace (2 * Z.of_nat (S i)) with (2 * iz + 2) by (unfold iz; lia).
      assert (HF1 : FU' (2 * iz) (2 * iz + 2) b' labs).
      { apply (fu_vals depth pfaf0 d0 q Hq W_child (2 * iz) (2 * iz) (2 * iz + 2) b b' labs ltac:(lia) ltac:(lia) HF).
        intros c. destruct (V1 c) as [E|[E|[_ E]]]; [left; exact E| |].
        - right. exists (2 * iz + 1). split; [lia|]. split; [lia|]. rewrite E. unfold psub. ring.
        - right. exists (2 * iz + 2). split; [lia|]. split; [lia|]. rewrite E. unfold pint. ring. }
      destruct (Z.ltb_spec d0 depth) as [Hlt|Hge].
      * assert (HF2 : FU' (2 * iz + 1) (2 * iz + 2) b' (labs ++ [(psub, d0 + 1)])).
        { replace psub with (pfaf0 + (2 * iz + 1) * q) by (unfold psub; ring).
          apply (fu_child depth pfaf0 d0 q Hp0 Hq W_child (2 * iz) (2 * iz + 2) (2 * iz + 1) b' labs); [lia|lia|lia|exact HF1]. }
        destruct cr.
        -- replace pint with (pfaf0 + (2 * iz + 2) * q) by (unfold pint; ring).
           apply (fu_child depth pfaf0 d0 q Hp0 Hq W_child (2 * iz + 1) (2 * iz + 2) (2 * iz + 2) b' (labs ++ [(psub, d0 + 1)])); [lia|lia|lia|exact HF2].
        -- apply (fu_weaken depth pfaf0 d0 q (2 * iz + 1) (2 * iz + 2)); [lia|lia|exact HF2].
      * assert (HF3 : FU' (2 * iz + 2) (2 * iz + 2) b' labs)
          by (apply (fu_weaken depth pfaf0 d0 q (2 * iz) (2 * iz + 2)); [lia|lia|exact HF1]).
        destruct cr; exact HF3.
    + replace (Z.of_nat (S i)) with (iz + 1) by (unfold iz; lia).
      destruct cr; [rewrite (V2 eq_refl); unfold pint; nia|rewrite (V3 eq_refl); nia].
Qed.
End Fold.

Lemma pfaf_loop_inv fuel : forall b idxs labs, LINV b idxs labs ->
  INV ds main (fst (pfaf_loop ds main uparea strord trib depth fuel b idxs labs))
              (snd (pfaf_loop ds main uparea strord trib depth fuel b idxs labs)).
Proof.
  induction fuel as [|f IH]; intros b idxs labs (HI & Hok & Hdj); cbn [pfaf_loop]; [exact HI|].
  destruct labs as [|[pfaf0 d0] labs']; [exact HI|].
  destruct (Hok (pfaf0, d0) (or_introl eq_refl)) as (E1 & E2 & E3). cbn [fst snd] in E1, E2, E3.
  destruct Hdj as [Hdj1 Hdj2].
  assert (HL' : LINV b idxs labs').
  { split; [exact HI|]. split; [intros e He; apply Hok; right; exact He|exact Hdj2]. }
  remember (filter (fun idx => (nth idx b 0 =? 0) && (nth (dsf idx) b 0 =? pfaf0)) trib) as tl eqn:Etl.
  destruct tl as [|e0 rs]; [apply IH; exact HL'|].
  set (key1 := fun i : nat => nth i uparea 0).
  set (key2 := fun i : nat => nth (dsf i) uparea 0).
  set (ordered := sort_desc key2 (firstn 4 (sort_desc key1 (e0 :: rs)))).
  assert (Hin : forall t, In t ordered -> In t trib /\ lab b t = 0 /\ lab b (dsf t) = pfaf0).
  { intros t Ht. unfold ordered in Ht. apply sort_desc_In in Ht. apply firstn_In_sub in Ht. apply sort_desc_In in Ht.
    rewrite Etl in Ht. apply filter_In in Ht. destruct Ht as [H1 H2]. apply andb_true_iff in H2.
    destruct H2 as [H2 H3]. apply Z.eqb_eq in H2. apply Z.eqb_eq in H3. split; [exact H1|split; assumption]. }
  assert (Hnd : NoDup ordered).
  { unfold ordered. apply sort_desc_NoDup. apply firstn_NoDup. apply sort_desc_NoDup. rewrite Etl.
    apply NoDup_filter. exact HTnd. }
  assert (Hso : sortedd key2 ordered) by (unfold ordered; apply sort_desc_sorted).
  assert (Hlen : (0 + length ordered <= 4)%nat).
  { unfold ordered. rewrite sort_desc_length, firstn_length. lia. }
  assert (HS : SINV ds main uparea trib b idxs pfaf0 ordered b idxs pfaf0).
  { constructor.
    - exact HI.
    - lia.
    - intros c Hc. exact Hc.
    - intros o Ho. exact Ho.
    - intros c _ Hl _ Hz. contradiction.
    - intros t c _ (C1 & C2 & C3) _. right. exact C3.
    - intros o t Ho Hn. contradiction.
    - exact Hin. }
  assert (HF : FU depth pfaf0 d0 (pow10 (depth - d0)) (2 * Z.of_nat 0) (2 * Z.of_nat 0) b labs').
  { constructor.
    - intros e He. apply Hok. right. exact He.
    - exact Hdj2.
    - intros e He. left. destruct (Hdj1 e He) as [H|H]; cbn [fst snd] in H.
      + right. rewrite (W_parent d0 E2) in H. exact H.
      + left. exact H.
    - intros c Hc. exfalso. apply (E3 c). rewrite (W_parent d0 E2). exact Hc. }
  pose proof (fold_trib_inv b idxs pfaf0 d0 HI E1 E2 ordered 0%nat b idxs labs' pfaf0 HS HF ltac:(cbn; lia) Hso Hnd Hlen) as R.
  cbv zeta in R. fold key2 in R. cbn [Nat.add] in R.
  destruct (fold_left (pfaf_trib ds main strord depth d0 pfaf0) (combine (seq 0 (length ordered)) ordered) (b, idxs, labs', pfaf0))
    as [[[b' ix] lb] pi].
  cbn [fst snd] in R. apply IH. exact R.
Qed.

End Loop.
