(* C09 / ihu with a scale factor of 1: every coarse cell is one pixel, and the iterative stages of the model change nothing:
   up_ihu = up_eam_plus, hence (UpscaleId.eam_plus_scale1) the coarse network is the fine network.
   Hypotheses: those of UpscaleId.eam_plus_scale1. *)
From Coq Require Import List Arith ZArith Lia Bool.
Import ListNotations.
From PF Require Import Arr Net Elev ElevSpec Upscale UpscaleSpec UpscaleId D8Idx Ihu IhuD8.

(* ---------- first: the statement tested on small rasters (several pits, nodata pixels) ---------- *)
Definition t1_sds : list nat := [1; 2; 2; 9; 2; 2; 7; 7; 9].                  (* 3 x 3, pits 2 and 7, nodata 3 and 8 *)
Definition t1_upa : list Z := [1; 2; 5; -9999; 1; 1; 1; 2; -9999]%Z.
Definition t1_ea : list bool := [true; true; true; false; true; true; true; true; false].
Definition t2_sds : list nat := [0; 0; 1; 8; 0; 4; 7; 7].                     (* 2 x 4, pits 0 and 7, nodata 3 *)
Definition t2_upa : list Z := [5; 2; 1; -9999; 2; 1; 1; 2]%Z.
Definition t2_ea : list bool := [true; true; true; true; true; true; true; true].
Definition t3_sds : list nat := [12; 4; 1; 3; 5; 5; 3; 3; 12; 6; 9; 10].      (* 4 x 3, pits 3 and 5, nodata 0 and 8 *)
Definition t3_upa : list Z := [-9999; 2; 1; 6; 3; 4; 4; 1; -9999; 3; 2; 1]%Z.
Definition t3_ea : list bool := [false; true; true; true; true; true; true; true; false; true; true; true].

Example t1_test : up_ihu t1_sds t1_upa 3 3 1 t1_ea = up_eam_plus t1_sds t1_upa 3 3 1 t1_ea /\
                  fst (fst (up_ihu t1_sds t1_upa 3 3 1 t1_ea)) = t1_sds.
Proof. vm_compute. auto. Qed.
Example t2_test : up_ihu t2_sds t2_upa 2 4 1 t2_ea = up_eam_plus t2_sds t2_upa 2 4 1 t2_ea /\
                  fst (fst (up_ihu t2_sds t2_upa 2 4 1 t2_ea)) = t2_sds.
Proof. vm_compute. auto. Qed.
Example t3_test : up_ihu t3_sds t3_upa 4 3 1 t3_ea = up_eam_plus t3_sds t3_upa 4 3 1 t3_ea /\
                  fst (fst (up_ihu t3_sds t3_upa 4 3 1 t3_ea)) = t3_sds.
Proof. vm_compute. auto. Qed.

(* ---------- generic ---------- *)
Lemma filter_nil {X} (f : X -> bool) l : (forall x, In x l -> f x = false) -> filter f l = [].
Proof.
  induction l as [|h t IH]; intros Hf; cbn [filter]; [reflexivity|].
  rewrite (Hf h (or_introl eq_refl)). apply IH. intros x Hx. apply Hf. right. exact Hx.
Qed.

Section IhuScale1.
Variable sds : list nat.
Variable upa : list Z.
Variables subnrow subncol : nat.
Variable ea : list bool.
Notation nsub := (length sds).
Notation sd := (Upscale.sd sds).
Hypothesis Hncol : 0 < subncol.
Hypothesis Hsize : nsub = subnrow * subncol.
Hypothesis Hwf : forall t, t < nsub -> sd t < nsub -> sd (sd t) < nsub.
Hypothesis Hmv : forall t, t < nsub -> sd t <= nsub.
Hypothesis Hupa : forall t, t < nsub -> sd t < nsub -> (0 < nth t upa 0)%Z.
Hypothesis Hea : forall t, t < nsub -> sd t < nsub -> eaf ea t = true.
Hypothesis Hd8 : forall t, t < nsub -> sd t < nsub -> in_d8 t (sd t) subncol = true.

Lemma sub2idx_id s : sub2idx s subncol 1 subncol = s.
Proof. exact (cellof_id sds subnrow subncol Hncol Hsize s). Qed.

(* the outlet pixel of a cell is the pixel itself *)
Definition OutId (out : list nat) : Prop :=
  forall idx, idx < nsub -> nth idx out nsub = if sd idx <? nsub then idx else nsub.

Lemma out_valid out idx : OutId out -> idx < nsub -> sd idx < nsub -> nth idx out nsub = idx.
Proof. intros Ho Hi Hv. rewrite (Ho idx Hi). apply Nat.ltb_lt in Hv. rewrite Hv. reflexivity. Qed.

Lemma out0_id : OutId (ihu_outlets sds subncol 1 subnrow subncol (repcell sds upa subncol 1 subnrow subncol (eaf ea))).
Proof.
  set (rep := repcell sds upa subncol 1 subnrow subncol (eaf ea)).
  assert (Hrep : forall idx, idx < nsub -> nth idx rep nsub = if sd idx <? nsub then idx else nsub)
    by (intros; apply (rep_id sds upa subnrow subncol Hncol Hsize Hupa); auto).
  intros idx Hidx. unfold ihu_outlets. rewrite <- Hsize.
  rewrite (nth_indep _ nsub ((fun idx0 => let s := nth idx0 rep nsub in if nsub <=? s then nsub else out_walk sds subncol 1 subncol (S nsub) idx0 s) 0))
    by (rewrite map_length, seq_length; auto).
  rewrite (map_nth (fun idx0 => let s := nth idx0 rep nsub in if nsub <=? s then nsub else out_walk sds subncol 1 subncol (S nsub) idx0 s)).
  rewrite seq_nth by auto. cbv zeta. rewrite Nat.add_0_l. rewrite (Hrep idx Hidx).
  destruct (Nat.ltb_spec (sd idx) nsub) as [Hv|Hv]; [|rewrite Nat.leb_refl; reflexivity].
  assert (Hl : (nsub <=? idx) = false) by (apply Nat.leb_gt; lia). rewrite Hl.
  cbn [out_walk]. rewrite (cellof_id sds subnrow subncol Hncol Hsize).
  destruct (Nat.eqb_spec idx (sd idx)) as [E|E]; cbn [negb orb]; [rewrite <- E, Nat.eqb_refl; reflexivity|reflexivity].
Qed.

Lemma cds0_sds : ihu_nextidx sds subncol 1 subnrow subncol ea
    (ihu_outlets sds subncol 1 subnrow subncol (repcell sds upa subncol 1 subnrow subncol (eaf ea))) = sds.
Proof.
  pose proof (eam_plus_scale1 sds upa subnrow subncol ea Hncol Hsize Hwf Hmv Hupa Hea Hd8) as H.
  unfold up_eam_plus in H. rewrite !cdiv_1 in H. cbn [fst] in H. exact H.
Qed.

(* ---------- ihu_nextidx's list of disconnected cells is empty ---------- *)
Lemma fix_walk_stop out f idx0 : OutId out -> idx0 < nsub -> sd idx0 < nsub ->
  fix_walk sds subncol 1 subncol (S f) out idx0 idx0 = false.
Proof.
  intros Ho Hi Hv. cbn [fix_walk]. cbv zeta. rewrite !sub2idx_id.
  rewrite (out_valid out (sd idx0) Ho Hv (Hwf idx0 Hi Hv)). rewrite Nat.eqb_refl. cbn [orb negb].
  rewrite (Hd8 idx0 Hi Hv). reflexivity.
Qed.

Lemma fix_nil out : OutId out -> ihu_fix sds subncol 1 subnrow subncol out = [].
Proof.
  intros Ho. unfold ihu_fix. apply filter_nil. intros idx0 Hin. apply in_seq in Hin. rewrite <- Hsize in Hin. cbv zeta.
  rewrite (Ho idx0 ltac:(lia)).
  destruct (Nat.ltb_spec (sd idx0) nsub) as [Hv|Hv]; [|rewrite Nat.leb_refl; reflexivity].
  assert (Hl : (nsub <=? idx0) = false) by (apply Nat.leb_gt; lia). rewrite Hl.
  apply fix_walk_stop; [exact Ho|lia|exact Hv].
Qed.

(* ---------- streams: every valid pixel is an outlet pixel ---------- *)
Lemma streams_fold out : OutId out -> forall l st, length st = nsub ->
  let st' := fold_left (fun st idx => let s := nth idx out nsub in if nsub <=? s then st else upd st s (Z.of_nat idx)) l st in
  length st' = nsub /\
  forall s, ((0 <= nth s st (-9))%Z \/ (In s l /\ s < nsub /\ sd s < nsub)) -> (0 <= nth s st' (-9))%Z.
Proof.
  intros Ho. induction l as [|h t IH]; intros st Hlen; cbn [fold_left]; cbv zeta.
  - split; [exact Hlen|]. intros s [H|[[] _]]. exact H.
  - set (st1 := if nsub <=? nth h out nsub then st else upd st (nth h out nsub) (Z.of_nat h)).
    assert (Hlen1 : length st1 = nsub) by (unfold st1; destruct (nsub <=? nth h out nsub); [exact Hlen|rewrite upd_length; exact Hlen]).
    destruct (IH st1 Hlen1) as [IH1 IH2]. cbv zeta in IH1, IH2. split; [exact IH1|].
    intros s Hs. apply IH2.
    assert (Hmono : (0 <= nth s st (-9))%Z -> (0 <= nth s st1 (-9))%Z).
    { intros H. unfold st1. destruct (nsub <=? nth h out nsub); [exact H|]. rewrite nth_upd.
      destruct (_ && _); [lia|exact H]. }
    destruct Hs as [H|[[E|Hin] [Hlt Hv]]].
    + left. apply Hmono. exact H.
    + subst h. left. unfold st1. rewrite (out_valid out s Ho Hlt Hv).
      assert (Hl : (nsub <=? s) = false) by (apply Nat.leb_gt; lia). rewrite Hl.
      rewrite nth_upd_eq by lia. lia.
    + right. auto.
Qed.

Lemma streams0_nonneg out : OutId out -> forall s, s < nsub -> sd s < nsub ->
  (0 <= nth s (streams0 sds subnrow subncol out) (-9))%Z.
Proof.
  intros Ho s Hs Hv. unfold streams0.
  destruct (streams_fold out Ho (seq 0 (subnrow * subncol)) (repeat (-9)%Z nsub) (repeat_length _ _)) as [_ H].
  cbv zeta in H. apply H. right. split; [apply in_seq; lia|auto].
Qed.

(* ---------- upscale_check finds nothing ---------- *)
Lemma chk_walk_stop f st s d : (0 <= nth (sd s) st (-9))%Z -> chk_walk sds (S f) st s d = (st, sd s, d, true).
Proof. intros H. cbn [chk_walk]. cbv zeta. apply Z.leb_le in H. fold (sd s). rewrite H. reflexivity. Qed.

Lemma check_id out : OutId out ->
  upscale_check sds 1 subnrow subncol out sds =
  mkChk (repeat true (subnrow * subncol)) (streams0 sds subnrow subncol out) [] [] true.
Proof.
  intros Ho. unfold upscale_check.
  apply (fold_left_inv (fun c => c = mkChk (repeat true (subnrow * subncol)) (streams0 sds subnrow subncol out) [] [] true));
    [reflexivity|].
  intros c idx0 Hin Hc. subst c. apply in_seq in Hin. rewrite <- Hsize in Hin. cbv zeta. cbn [c_st c_valid c_fix c_short c_ok].
  assert (Hcg : nth idx0 sds (subnrow * subncol) = sd idx0) by (unfold Upscale.sd; rewrite <- Hsize; reflexivity).
  rewrite Hcg. rewrite <- Hsize at 1.
  destruct (Nat.leb_spec nsub (sd idx0)) as [Hv|Hv]; [reflexivity|].
  assert (Hi : idx0 < nsub) by lia.
  rewrite (out_valid out idx0 Ho Hi Hv).
  rewrite (chk_walk_stop nsub _ idx0 0 (streams0_nonneg out Ho (sd idx0) Hv (Hwf idx0 Hi Hv))).
  rewrite (out_valid out (sd idx0) Ho Hv (Hwf idx0 Hi Hv)). rewrite Nat.eqb_refl. cbn [negb]. reflexivity.
Qed.

(* ---------- the stages on empty lists ---------- *)
Lemma relocate_nil nrow ncol cs a : relocate sds upa subncol cs nrow ncol [] a = a.
Proof. reflexivity. Qed.
Lemma optimize_nil nrow ncol cs valid a : optimize_rivlen sds upa subncol cs nrow ncol valid [] a = a.
Proof. reflexivity. Qed.
Lemma minimize_nil nrow ncol cs poc a : minimize_error sds upa subncol cs nrow ncol [] poc a = a.
Proof. reflexivity. Qed.

Lemma iter_id out n : OutId out ->
  ihu_iter sds upa subncol 1 subnrow subncol (S n) 0 (mkA sds out [] 0) [] =
  mkA sds out (streams0 sds subnrow subncol out) 0.
Proof.
  intros Ho. cbn [ihu_iter]. cbv zeta. rewrite !relocate_nil. cbn [a_cds a_out a_err]. rewrite !(check_id out Ho).
  cbn [c_fix c_ok c_st c_valid c_short length Nat.eqb orb]. rewrite optimize_nil, minimize_nil. reflexivity.
Qed.

Theorem up_ihu_scale1 : up_ihu sds upa subnrow subncol 1 ea = up_eam_plus sds upa subnrow subncol 1 ea.
Proof.
  unfold up_ihu, up_eam_plus. cbv zeta. rewrite !cdiv_1. rewrite cds0_sds.
  rewrite (fix_nil _ out0_id). rewrite (iter_id _ 4 out0_id). cbn [a_err a_cds a_out Nat.eqb]. reflexivity.
Qed.

Corollary up_ihu_scale1_net : fst (fst (up_ihu sds upa subnrow subncol 1 ea)) = sds.
Proof. rewrite up_ihu_scale1. exact (eam_plus_scale1 sds upa subnrow subncol ea Hncol Hsize Hwf Hmv Hupa Hea Hd8). Qed.
End IhuScale1.

(* ---------- the theorem instantiated on the test rasters: every hypothesis discharged on the concrete lists ---------- *)
Tactic Notation "by_cases" integer(n) :=
  intros t Ht; intros; unfold Upscale.sd, eaf in *;
  do n (destruct t as [|t]; [cbn in *; first [reflexivity|lia]|]); cbn in Ht; lia.

Example t1_scale1 : up_ihu t1_sds t1_upa 3 3 1 t1_ea = up_eam_plus t1_sds t1_upa 3 3 1 t1_ea /\
                    fst (fst (up_ihu t1_sds t1_upa 3 3 1 t1_ea)) = t1_sds.
Proof.
  assert (H1 : 0 < 3) by lia.
  assert (H2 : length t1_sds = 3 * 3) by reflexivity.
  split; [apply (up_ihu_scale1 t1_sds t1_upa 3 3 t1_ea H1 H2)|apply (up_ihu_scale1_net t1_sds t1_upa 3 3 t1_ea H1 H2)];
    by_cases 9.
Qed.

Example t3_scale1 : fst (fst (up_ihu t3_sds t3_upa 4 3 1 t3_ea)) = t3_sds.
Proof.
  assert (H1 : 0 < 3) by lia.
  assert (H2 : length t3_sds = 4 * 3) by reflexivity.
  apply (up_ihu_scale1_net t3_sds t3_upa 4 3 t3_ea H1 H2); by_cases 12.
Qed.

Print Assumptions up_ihu_scale1.
Print Assumptions up_ihu_scale1_net.
Print Assumptions t1_scale1.
Print Assumptions t3_scale1.
