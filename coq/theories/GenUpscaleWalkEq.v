(* upscale.dmm_nextidx, upscale.eam_nextidx and upscale.ihu_outlets, REGENERATED from the Python source
   (generated/GenUpscale.v: a pass over the coarse cells, each with a `while True` walk along the fine network, translated to a
   Fixpoint over fuel), equal the hand models of Upscale.v that the theorems of C09 are about.
   No hypothesis: any network (loops included: both sides run out of the same fuel and give the same error value), any
   array of representative pixels (in the source it has nrow * ncol elements; for a longer one, an IndexError in Python, both
   sides ignore the cells past the end), any shapes, any cell size.  The half-cell window of dmm_nextidx (floats in the source) is compared in doubled
   integer coordinates on both sides (rule of tools/gen_upscale.py).  No axioms. *)
From Coq Require Import List Arith ZArith Bool Lia.
Import ListNotations.
From PF Require Import Arr Net Elev Upscale GenCodecBaseEq GenUpscaleBaseEq.
From PFG Require Import GenUpscale.

(* a pass over the coarse cells that have a pixel *)
Lemma cells_fold (pix : list nat) (nsub d n : nat) (w : nat -> nat -> nat) :
  fold_left (fun a i => if (nsub <=? nth i pix nsub)%nat then a else upd a i (w i (nth i pix nsub))) (seq 0 (length pix)) (repeat d n)
  = map (fun i => let s := nth i pix nsub in if (nsub <=? s)%nat then d else w i s) (seq 0 n).
Proof.
  pose proof (ffold_any (fun i => (nsub <=? nth i pix nsub)%nat) (fun i => w i (nth i pix nsub)) d n (length pix)) as E.
  unfold fstep in E. rewrite E.
  apply map_ext. intros i. cbv zeta. destruct (Nat.ltb_spec i (length pix)) as [H|H]; [reflexivity|].
  rewrite (nth_overflow pix nsub H), Nat.leb_refl. reflexivity.
Qed.

Section Walks.
Variable sds : list nat.
Variable subnrow : Z.
Variable subncol cs nrow ncol : nat.
Notation subshape := (subnrow, Z.of_nat subncol).
Notation shape := (Z.of_nat nrow, Z.of_nat ncol).

(* ---------- EAM ---------- *)
Lemma eam_walk_eq rep ea idx0 : forall fuel subidx,
  gen_up_eam_nextidx_walk rep sds subshape shape (Z.of_nat cs) (eaf ea) fuel idx0 subidx
  = Z.of_nat (eam_walk sds subncol cs nrow ncol ea fuel idx0 subidx).
Proof.
  induction fuel as [|f IH]; intros subidx; cbn [gen_up_eam_nextidx_walk eam_walk]; cbv beta iota zeta.
  - rewrite nc_nat. reflexivity.
  - unfold sd, cellof. rewrite gen_up_subidx_2_idx_eq, zeqb_nat.
    destruct (_ =? subidx)%nat; [reflexivity|]. destruct (_ && _); [reflexivity|]. apply IH.
Qed.

Theorem gen_up_eam_nextidx_eq : forall (rep : list nat) (ea : list bool),
  gen_up_eam_nextidx rep sds subshape shape (Z.of_nat cs) (eaf ea) = eam_nextidx sds subncol cs nrow ncol ea rep.
Proof.
  intros rep ea. unfold gen_up_eam_nextidx, eam_nextidx, per_cell. cbv beta iota zeta. rewrite nc_nat.
  rewrite (fold_ext_in _ (fun a i => if (length sds <=? nth i rep (length sds))%nat then a
       else upd a i (eam_walk sds subncol cs nrow ncol ea (S (length sds)) i (nth i rep (length sds))))).
  - apply cells_fold.
  - intros a i _. unfold gen_up_eam_nextidx_step. cbv beta iota zeta.
    destruct (_ <=? _)%nat; [reflexivity|]. rewrite eam_walk_eq, Nat2Z.id. reflexivity.
Qed.

(* ---------- IHU step 1 ---------- *)
Lemma out_walk_eq rep upa idx0 : forall fuel subidx,
  gen_up_ihu_outlets_walk rep sds upa subshape shape (Z.of_nat cs) fuel idx0 subidx
  = out_walk sds subncol cs ncol fuel idx0 subidx.
Proof.
  induction fuel as [|f IH]; intros subidx; cbn [gen_up_ihu_outlets_walk out_walk]; cbv beta iota zeta; [reflexivity|].
  unfold sd, cellof. rewrite gen_up_subidx_2_idx_eq, zeqb_nat.
  destruct (_ || _); [reflexivity|]. apply IH.
Qed.

Theorem gen_up_ihu_outlets_eq : forall (rep : list nat) (upa : list Z),
  gen_up_ihu_outlets rep sds upa subshape shape (Z.of_nat cs) = ihu_outlets sds subncol cs nrow ncol rep.
Proof.
  intros rep upa. unfold gen_up_ihu_outlets, ihu_outlets. cbv beta iota zeta. rewrite nc_nat.
  rewrite (fold_ext_in _ (fun a i => if (length sds <=? nth i rep (length sds))%nat then a
       else upd a i (out_walk sds subncol cs ncol (S (length sds)) i (nth i rep (length sds))))).
  - apply cells_fold.
  - intros a i _. unfold gen_up_ihu_outlets_step. cbv beta iota zeta.
    destruct (_ <=? _)%nat; [reflexivity|]. rewrite out_walk_eq. reflexivity.
Qed.

(* ---------- DMM ---------- *)
(* the doubled coordinates of the centre of the offset window, as the generated step computes them *)
Definition dmm_r2 (idx0 s0 : nat) : Z :=
  let dr := (2 * ((Z.of_nat s0 / Z.of_nat subncol) mod Z.of_nat cs) / Z.of_nat cs)%Z in
  (2 * ((Z.of_nat idx0 / Z.of_nat ncol + dr) * Z.of_nat cs) - 1)%Z.
Definition dmm_c2 (idx0 s0 : nat) : Z :=
  let dc := (2 * ((Z.of_nat s0 mod Z.of_nat subncol) mod Z.of_nat cs) / Z.of_nat cs)%Z in
  (2 * ((Z.of_nat idx0 mod Z.of_nat ncol + dc) * Z.of_nat cs) - 1)%Z.

Lemma two_nat x : (2 * Z.of_nat x)%Z = Z.of_nat (2 * x).
Proof. lia. Qed.

Lemma dmm_outside_eq idx0 s0 subidx :
  ((Z.abs (2 * (Z.of_nat subidx / Z.of_nat subncol) - dmm_r2 idx0 s0) >? Z.of_nat cs)
   || (Z.abs (2 * (Z.of_nat subidx mod Z.of_nat subncol) - dmm_c2 idx0 s0) >? Z.of_nat cs))%Z
  = dmm_outside subncol cs ncol idx0 s0 subidx.
Proof.
  unfold dmm_outside, dmm_r2, dmm_c2. cbv zeta.
  repeat (rewrite zdiv_nat || rewrite zmod_nat || rewrite two_nat || rewrite <- Nat2Z.inj_add || rewrite <- Nat2Z.inj_mul).
  reflexivity.
Qed.

Lemma dmm_walk_eq rep idx0 s0 : forall fuel subidx idx,
  gen_up_dmm_nextidx_walk rep sds subshape shape (Z.of_nat cs) fuel idx0 (dmm_r2 idx0 s0) (dmm_c2 idx0 s0) subidx (Z.of_nat idx)
  = Z.of_nat (dmm_walk sds subncol cs nrow ncol fuel idx0 s0 subidx idx).
Proof.
  induction fuel as [|f IH]; intros subidx idx; cbn [gen_up_dmm_nextidx_walk dmm_walk]; cbv beta iota zeta.
  - rewrite nc_nat. reflexivity.
  - unfold sd, cellof. rewrite gen_up_subidx_2_idx_eq, zeqb_nat.
    destruct (_ =? subidx)%nat; [reflexivity|].
    destruct (negb _); cbn [andb]; [|apply IH].
    rewrite dmm_outside_eq. destruct (dmm_outside _ _ _ _ _ _); [reflexivity|apply IH].
Qed.

Theorem gen_up_dmm_nextidx_eq : forall rep : list nat,
  gen_up_dmm_nextidx rep sds subshape shape (Z.of_nat cs) = dmm_nextidx sds subncol cs nrow ncol rep.
Proof.
  intros rep. unfold gen_up_dmm_nextidx, dmm_nextidx, per_cell. cbv beta iota zeta. rewrite nc_nat.
  rewrite (fold_ext_in _ (fun a i => if (length sds <=? nth i rep (length sds))%nat then a
       else upd a i (dmm_walk sds subncol cs nrow ncol (S (length sds)) i (nth i rep (length sds)) (nth i rep (length sds)) i))).
  - apply (cells_fold rep (length sds) (nrow * ncol) (nrow * ncol)
             (fun i s => dmm_walk sds subncol cs nrow ncol (S (length sds)) i s s i)).
  - intros a i _. unfold gen_up_dmm_nextidx_step. cbv beta iota zeta.
    destruct (_ <=? _)%nat; [reflexivity|].
    fold (dmm_r2 i (nth i rep (length sds))). fold (dmm_c2 i (nth i rep (length sds))).
    rewrite dmm_walk_eq, Nat2Z.id. reflexivity.
Qed.
End Walks.

(* non-vacuity: a 2 x 4 fine raster draining east to the pit 3, cell size 2, representative pixels 1 and 3: the left cell
   drains to the right one, which is a pit; the outlet pixel of the left cell is pixel 1; a two-pixel cycle runs out of fuel *)
Example gen_up_walks_ex :
  gen_up_eam_nextidx [1; 3]%nat [1; 2; 3; 3; 0; 1; 2; 3]%nat (2, 4)%Z (1, 2)%Z 2%Z (fun _ => true) = [1; 1]%nat
  /\ gen_up_dmm_nextidx [1; 3]%nat [1; 2; 3; 3; 0; 1; 2; 3]%nat (2, 4)%Z (1, 2)%Z 2%Z = [1; 1]%nat
  /\ gen_up_ihu_outlets [1; 3]%nat [1; 2; 3; 3; 0; 1; 2; 3]%nat [] (2, 4)%Z (1, 2)%Z 2%Z = [1; 3]%nat
  /\ gen_up_eam_nextidx [0]%nat [1; 0]%nat (1, 2)%Z (1, 1)%Z 2%Z (fun _ => true) = [2]%nat.
Proof. vm_compute. auto. Qed.

Print Assumptions gen_up_dmm_nextidx_eq.
Print Assumptions gen_up_eam_nextidx_eq.
Print Assumptions gen_up_ihu_outlets_eq.
