(* Pfafstetter closure, part C: one tributary step of the work loop keeps the structural invariant. *)
From Coq Require Import List Arith ZArith Bool Lia.
Import ListNotations.
From PF Require Import Arr Net SweepDown Fill FillSpec Rank Stream Subbas PfafClosureA PfafClosureB.
Local Open Scope Z_scope.

(* every value of the climbed array is an old value or the label written *)
Lemma climb_vals n main stop v : forall fuel b cur c,
  lab (climb fuel n main stop v b cur) c = lab b c \/ lab (climb fuel n main stop v b cur) c = v.
Proof.
  induction fuel as [|f IH]; intros b cur c; cbn [climb]; [left; reflexivity|].
  destruct ((n <=? nth cur main n)%nat || stop b (nth cur main n)); [left; reflexivity|].
  destruct (IH (upd b (nth cur main n) v) (nth cur main n) c) as [E|E]; [|right; exact E].
  rewrite E. rewrite nth_upd.
  destruct ((c =? nth cur main n)%nat && (nth cur main n <? length b)%nat); [right|left]; reflexivity.
Qed.

Lemma upd_vals (b : list Z) u v c : lab (upd b u v) c = lab b c \/ lab (upd b u v) c = v.
Proof. rewrite nth_upd. destruct ((c =? u)%nat && (u <? length b)%nat); [right|left]; reflexivity. Qed.

Section TribCore.
Variable ds : list nat.
Variable main : list nat.
Variable strord : list Z.
Let n := length ds.
Notation mn x := (nth x main n).
Notation dsf := (dsf ds).

(* the array part of pfaf_trib, with the two labels as parameters; the flag tells whether an interbasin was made *)
Definition trib_core (psub pint : Z) (b : list Z) (idxs : list nat) (X : Z) (idx : nat)
  : list Z * list nat * Z * bool :=
  let idxs1 := idxs ++ [idx] in
  let idx1 := mn (dsf idx) in
  let b1 := climb n n main (stop_so strord) psub (upd b idx psub) idx in
  if negb (memb idx1 idxs1)
  then (climb n n main (stopX X) pint (upd b1 idx1 pint) idx1, idxs1 ++ [idx1], pint, true)
  else (b1, idxs1, X, false).

Lemma pfaf_trib_core depth d0 pfaf0 b idxs labs X i idx :
  let psub := pfaf0 + (Z.of_nat i * 2 + 1) * pow10 (depth - d0) in
  let pint := pfaf0 + (Z.of_nat i + 1) * 2 * pow10 (depth - d0) in
  let labs1 := if d0 <? depth then labs ++ [(psub, d0 + 1)] else labs in
  pfaf_trib ds main strord depth d0 pfaf0 (b, idxs, labs, X) (i, idx) =
  let '(b', idxs', X', cr) := trib_core psub pint b idxs X idx in
  (b', idxs', (if cr then (if d0 <? depth then labs1 ++ [(pint, d0 + 1)] else labs1) else labs1), X').
Proof.
  cbv zeta. unfold pfaf_trib, trib_core. fold n.
  destruct (negb (memb (mn (dsf idx)) (idxs ++ [idx]))); reflexivity.
Qed.

Lemma trib_core_vals psub pint b idxs X idx :
  let r := trib_core psub pint b idxs X idx in
  (forall c, lab (fst (fst (fst r))) c = lab b c \/ lab (fst (fst (fst r))) c = psub \/
             (snd r = true /\ lab (fst (fst (fst r))) c = pint)) /\
  (snd r = true -> snd (fst r) = pint) /\ (snd r = false -> snd (fst r) = X).
Proof.
  cbv zeta. unfold trib_core.
  set (b1 := climb n n main (stop_so strord) psub (upd b idx psub) idx).
  assert (H1 : forall c, lab b1 c = lab b c \/ lab b1 c = psub).
  { intros c. unfold b1. destruct (climb_vals n main (stop_so strord) psub n (upd b idx psub) idx c) as [E|E]; [|right; exact E].
    rewrite E. apply upd_vals. }
  destruct (negb (memb (mn (dsf idx)) (idxs ++ [idx]))); cbn [fst snd].
  - split; [|split; [reflexivity|discriminate]]. intros c.
    destruct (climb_vals n main (stopX X) pint n (upd b1 (mn (dsf idx)) pint) (mn (dsf idx)) c) as [E|E];
      [|right; right; split; [reflexivity|exact E]].
    rewrite E. destruct (upd_vals b1 (mn (dsf idx)) pint c) as [E2|E2]; [|right; right; split; [reflexivity|exact E2]].
    rewrite E2. destruct (H1 c) as [E3|E3]; [left|right; left]; exact E3.
  - split; [|split; [discriminate|reflexivity]]. intros c.
    destruct (H1 c) as [E3|E3]; [left|right; left]; exact E3.
Qed.
End TribCore.

Section TribStruct.
Variable ds : list nat.
Variable main : list nat.
Variable strord : list Z.
Let n := length ds.
Variable rk : nat -> nat.
Notation mn x := (nth x main n).
Notation dsf := (dsf ds).
Hypothesis Hrk : forall c, (c < n)%nat -> (dsf c < n)%nat -> dsf c <> c -> (rk (dsf c) < rk c)%nat.
Hypothesis Hrkn : forall c, (c < n)%nat -> (dsf c < n)%nat -> (rk c < n)%nat.
Hypothesis HM : forall x, (mn x < n)%nat -> dsf (mn x) = x /\ mn x <> x.
Variable uparea : list Z.
Notation ua c := (nth c uparea 0).
Hypothesis Hua : forall c, (c < n)%nat -> (dsf c < n)%nat -> dsf c <> c -> ua c < ua (dsf c).
Variable trib : list nat.
Hypothesis HT : forall t, In t trib ->
  (t < n)%nat /\ (dsf t < n)%nat /\ dsf t <> t /\ mn (dsf t) <> t /\ (mn (dsf t) < n)%nat.

(* the state when the basin (pfaf0, d0) was popped from the work list *)
Variables (b0 : list Z) (idxs0 : list nat) (pfaf0 : Z).
Hypothesis HI0 : INV ds main b0 idxs0.
Hypothesis Hp0 : pfaf0 <> 0.

Definition C0 (c : nat) : Prop := onchain ds b0 idxs0 pfaf0 c.

Lemma inv_lab_lt b idxs c : INV ds main b idxs -> lab b c <> 0 -> (c < n)%nat.
Proof. intros HI H. pose proof (lab_lt b c H) as L. rewrite (inv_len _ _ _ _ HI) in L. exact L. Qed.

Lemma path_to_c1 c w0 : C0 c -> (w0 < n)%nat -> lab b0 w0 = pfaf0 -> ua (dsf c) <= ua w0 ->
  exists k, iter ds (S k) c = w0 /\ (forall j, (j <= k)%nat -> C0 (iter ds j c)) /\ iter ds k c = mn w0.
Proof.
  intros (Hc1 & Hc2 & Hc3) Hw Hlw Hle.
  destruct (inv1 _ _ _ _ HI0 c Hc2 ltac:(congruence) Hc1) as (A1 & A2 & A3).
  assert (Hdn : (dsf c < n)%nat) by (apply (inv_lab_lt b0 idxs0); [exact HI0|congruence]).
  destruct (inv_chain ds main rk Hrk uparea Hua b0 idxs0 (dsf c) w0 HI0 Hdn Hw ltac:(congruence) ltac:(congruence) Hle)
    as (k & K1 & K2).
  rewrite A3, Hc3 in K2.
  exists k. cbn [iter]. split; [exact K1|].
  assert (HC : forall j, (j <= k)%nat -> C0 (iter ds j c)).
  { intros [|j] Hj; cbn [iter]; [split; [exact Hc1|split; [exact Hc2|exact Hc3]]|]. apply K2. lia. }
  split; [exact HC|].
  destruct (HC k (le_n k)) as (B1 & B2 & B3).
  destruct (inv1 _ _ _ _ HI0 (iter ds k c) B2 ltac:(congruence) B1) as (D1 & _).
  rewrite <- iter_S in D1. change (iter ds (S k) c) with (iter ds k (dsf c)) in D1. rewrite K1 in D1. symmetry. exact D1.
Qed.

Lemma relabel_reach b2 idxs2 pint : INV ds main b2 idxs2 -> (forall c, lab b0 c <> 0 -> lab b2 c <> 0) ->
  forall k c, lab b2 (iter ds k c) = pint -> (forall j, (j < k)%nat -> ~ In (iter ds j c) idxs2) ->
  (forall j, (j <= k)%nat -> C0 (iter ds j c)) -> lab b2 c = pint.
Proof.
  intros HI2 Hf0. induction k as [|k IH]; intros c Hl Hn HC; [exact Hl|].
  cbn [iter] in Hl.
  assert (Hd : lab b2 (dsf c) = pint).
  { apply IH; [exact Hl| |].
    - intros j Hj. apply (Hn (S j)). lia.
    - intros j Hj. apply (HC (S j)). lia. }
  destruct (HC 0%nat ltac:(lia)) as (B1 & B2 & B3). cbn [iter] in B1, B2, B3.
  destruct (inv1 _ _ _ _ HI2 c B2 ltac:(apply Hf0; congruence) (Hn 0%nat ltac:(lia))) as (_ & _ & A3).
  rewrite <- A3. exact Hd.
Qed.

Lemma path_notin idxs2 c w0 k : (w0 < n)%nat -> (mn w0 < n)%nat -> iter ds k c = mn w0 ->
  (forall j, (j <= k)%nat -> C0 (iter ds j c)) ->
  (forall o, In o idxs2 -> ~ In o idxs0 -> ua w0 <= ua (dsf o)) ->
  forall m, (m < k)%nat -> ~ In (iter ds m c) idxs2.
Proof.
  intros Hw Hc1 Ek HC Hh2 m Hm Hin.
  destruct (HC m ltac:(lia)) as (B1 & _).
  pose proof (Hh2 _ Hin B1) as Hle. rewrite <- iter_S in Hle.
  pose proof (ua_iter_le ds main uparea Hua b0 idxs0 pfaf0 HI0 Hp0 (k - S m) (iter ds (S m) c)) as Hmono.
  rewrite <- iter_add in Hmono. replace (S m + (k - S m))%nat with k in Hmono by lia.
  specialize (Hmono ltac:(intros j Hj; rewrite <- iter_add; apply HC; lia)).
  rewrite Ek in Hmono.
  destruct (HM w0 Hc1) as [Hd1 Hne1].
  pose proof (Hua (mn w0) Hc1 ltac:(rewrite Hd1; exact Hw) ltac:(congruence)) as Hlt. rewrite Hd1 in Hlt. lia.
Qed.

(* ---------- the structural invariant of the fold over the (at most four) tributaries ---------- *)
Record SINV (rem : list nat) (b : list Z) (idxs : list nat) (X : Z) : Prop := {
  s_inv : INV ds main b idxs;
  s_x : X <> 0;
  s_f0 : forall c, lab b0 c <> 0 -> lab b c <> 0;
  s_sub : forall o, In o idxs0 -> In o idxs;
  s_f2 : forall c, (c < n)%nat -> lab b c <> 0 -> ~ In c idxs -> lab b0 c = 0 -> lab b0 (dsf c) = 0;
  s_h : forall t c, In t rem -> C0 c -> ua (dsf c) <= ua (dsf t) -> In c idxs \/ lab b c = X;
  s_h2 : forall o t, In o idxs -> ~ In o idxs0 -> In t rem -> ua (dsf t) <= ua (dsf o);
  s_rem : forall t, In t rem -> In t trib /\ lab b t = 0 /\ lab b0 (dsf t) = pfaf0
}.

Lemma trib_core_struct psub pint t0 rest b idxs X :
  SINV (t0 :: rest) b idxs X -> (forall t, In t rest -> ua (dsf t) <= ua (dsf t0)) -> ~ In t0 rest ->
  psub <> 0 -> pint <> 0 -> X <> pint -> psub <> pint ->
  (forall c, lab b c <> psub) -> (forall c, lab b c <> pint) ->
  let r := trib_core ds main strord psub pint b idxs X t0 in
  SINV rest (fst (fst (fst r))) (snd (fst (fst r))) (snd (fst r)).
Proof.
  intros HS Hsort Hnd Hps Hpi HXp Hpp Hf1 Hf2.
  pose proof (s_inv _ _ _ _ HS) as HI.
  pose proof (s_x _ _ _ _ HS) as HX.
  destruct (s_rem _ _ _ _ HS t0 (or_introl eq_refl)) as (Ht0 & Hl0 & Hw0).
  destruct (HT t0 Ht0) as (T1 & T2 & T3 & T4 & T5).
  set (w0 := dsf t0) in *.
  assert (Hlw : lab b w0 <> 0) by (apply (s_f0 _ _ _ _ HS); rewrite Hw0; exact Hp0).
  cbv zeta. unfold trib_core. fold n. fold w0.
  destruct (outlet_sub ds main HM (stop_so strord) psub idxs b t0 n HI Hps T1 Hl0 (or_intror Hlw) Hf1) as [HI1 V1].
  fold n in HI1, V1.
  set (b1 := climb n n main (stop_so strord) psub (upd b t0 psub) t0) in *.
  set (idxs1 := idxs ++ [t0]) in *.
  set (c1 := mn w0) in *.
  destruct (HM w0 T5) as [Hd1 Hne1]. fold c1 in Hd1, Hne1.
  (* facts about the state after the sub-basin climb *)
  assert (K1 : forall c, lab b c <> 0 -> lab b1 c = lab b c).
  { intros c Hc. destruct (V1 c) as [E|[E _]]; [exact E|contradiction]. }
  assert (A_f0 : forall c, lab b0 c <> 0 -> lab b1 c <> 0).
  { intros c Hc. pose proof (s_f0 _ _ _ _ HS c Hc) as H. rewrite (K1 c H). exact H. }
  assert (A_sub : forall o, In o idxs0 -> In o idxs1).
  { intros o Ho. unfold idxs1. apply in_or_app. left. apply (s_sub _ _ _ _ HS). exact Ho. }
  assert (A_f2 : forall c, (c < n)%nat -> lab b1 c <> 0 -> ~ In c idxs1 -> lab b0 c = 0 -> lab b0 (dsf c) = 0).
  { intros c Hc Hl Hn Hz.
    assert (Hci : ~ In c idxs) by (intros H; apply Hn; unfold idxs1; apply in_or_app; left; exact H).
    destruct (V1 c) as [E|[E1 E2]].
    - apply (s_f2 _ _ _ _ HS c Hc); [rewrite <- E; exact Hl|exact Hci|exact Hz].
    - destruct (inv1 _ _ _ _ HI1 c Hc Hl Hn) as (_ & _ & A3). rewrite E2 in A3.
      destruct (Z.eq_dec (lab b0 (dsf c)) 0) as [Y|N]; [exact Y|exfalso].
      pose proof (s_f0 _ _ _ _ HS _ N) as H. rewrite <- (K1 _ H) in H. apply (Hf1 (dsf c)). rewrite <- (K1 _ ltac:(rewrite (K1 _ ltac:(apply (s_f0 _ _ _ _ HS); exact N)) in H; exact H)). exact A3. }
  assert (A_h : forall t c, In t (t0 :: rest) -> C0 c -> ua (dsf c) <= ua (dsf t) -> In c idxs1 \/ lab b1 c = X).
  { intros t c Ht HC Hle. destruct (s_h _ _ _ _ HS t c Ht HC Hle) as [H|H].
    - left. unfold idxs1. apply in_or_app. left. exact H.
    - right. rewrite K1; [exact H|]. rewrite H. exact HX. }
  assert (A_h2 : forall o, In o idxs1 -> ~ In o idxs0 -> ua w0 <= ua (dsf o)).
  { intros o Ho Hn0. unfold idxs1 in Ho. apply in_app_or in Ho. destruct Ho as [Ho|[<-|[]]].
    - apply (s_h2 _ _ _ _ HS o t0 Ho Hn0). left. reflexivity.
    - fold w0. lia. }
  assert (A_rem : forall t, In t rest -> In t trib /\ lab b1 t = 0 /\ lab b0 (dsf t) = pfaf0).
  { intros t Ht. destruct (s_rem _ _ _ _ HS t (or_intror Ht)) as (R1 & R2 & R3).
    split; [exact R1|]. split; [|exact R3].
    destruct (V1 t) as [E|[_ E2]]; [rewrite E; exact R2|exfalso].
    destruct (HT t R1) as (U1 & U2 & U3 & U4 & U5).
    assert (Hn1 : ~ In t idxs1).
    { unfold idxs1. intros H. apply in_app_or in H. destruct H as [H|[<-|[]]]; [|contradiction].
      apply (inv_notin ds main b idxs t HI R2). exact H. }
    destruct (inv1 _ _ _ _ HI1 t U1 ltac:(rewrite E2; exact Hps) Hn1) as (A1 & _). contradiction. }
  assert (A_N : ~ In c1 idxs1 -> lab b1 c1 <> 0 -> lab b1 c1 = X).
  { intros Hn1 Hl1.
    assert (Hz : lab b0 c1 <> 0).
    { intros Hz. pose proof (A_f2 c1 T5 Hl1 Hn1 Hz) as H. rewrite Hd1, Hw0 in H. contradiction. }
    assert (Hn0 : ~ In c1 idxs0) by (intros H; apply Hn1; apply A_sub; exact H).
    destruct (inv1 _ _ _ _ HI0 c1 T5 Hz Hn0) as (_ & _ & A3). rewrite Hd1, Hw0 in A3.
    assert (HC : C0 c1) by (split; [exact Hn0|split; [exact T5|symmetry; exact A3]]).
    destruct (A_h t0 c1 (or_introl eq_refl) HC ltac:(rewrite Hd1; fold w0; lia)) as [H|H]; [contradiction|exact H]. }
  destruct (negb (memb c1 idxs1)) eqn:Em; cbn [fst snd].
  - (* an interbasin outlet is made at c1 *)
    apply negb_true_iff in Em. apply memb_false in Em.
    assert (Hf2' : forall c, lab b1 c <> pint).
    { intros c. destruct (V1 c) as [E|[_ E]]; rewrite E; [apply Hf2|exact Hpp]. }
    assert (Hlw1 : lab b1 w0 <> 0) by (rewrite K1; exact Hlw).
    destruct (outlet_inter ds main rk Hrk Hrkn HM X pint idxs1 b1 w0 HI1 HX Hpi HXp T2 T5 Em Hlw1 Hf2' (A_N Em))
      as (HI2 & V2 & Vc1).
    fold n in HI2, V2, Vc1. fold c1 in HI2, V2, Vc1.
    set (b2 := climb n n main (stopX X) pint (upd b1 c1 pint) c1) in *.
    assert (K2 : forall c, lab b1 c <> 0 -> lab b2 c <> 0).
    { intros c Hc. destruct (V2 c) as [E|[_ E]]; rewrite E; [exact Hc|exact Hpi]. }
    assert (B_h2 : forall o, In o (idxs1 ++ [c1]) -> ~ In o idxs0 -> ua w0 <= ua (dsf o)).
    { intros o Ho Hn0. apply in_app_or in Ho. destruct Ho as [Ho|[<-|[]]]; [apply A_h2; assumption|].
      rewrite Hd1. lia. }
    constructor.
    + exact HI2.
    + exact Hpi.
    + intros c Hc. apply K2. apply A_f0. exact Hc.
    + intros o Ho. apply in_or_app. left. apply A_sub. exact Ho.
    + intros c Hc Hl Hn Hz.
      assert (Hn1 : ~ In c idxs1) by (intros H; apply Hn; apply in_or_app; left; exact H).
      apply (A_f2 c Hc); [|exact Hn1|exact Hz].
      destruct (V2 c) as [E|[[E|E] _]]; [rewrite <- E; exact Hl|rewrite E; exact HX|].
      exfalso. apply Hn. apply in_or_app. right. left. symmetry. exact E.
    + intros t c Ht HC Hle. right.
      pose proof (Hsort t Ht) as Hs. fold w0 in Hs.
      destruct (path_to_c1 c w0 HC T2 Hw0 ltac:(lia)) as (k & P1 & P2 & P3). fold c1 in P3.
      apply (relabel_reach b2 (idxs1 ++ [c1]) pint HI2 ltac:(intros x Hx; apply K2; apply A_f0; exact Hx) k c).
      * rewrite P3. exact Vc1.
      * apply (path_notin (idxs1 ++ [c1]) c w0 k T2 T5 P3 P2 B_h2).
      * exact P2.
    + intros o t Ho Hn0 Ht. pose proof (Hsort t Ht) as Hs. fold w0 in Hs.
      pose proof (B_h2 o Ho Hn0). lia.
    + intros t Ht. destruct (A_rem t Ht) as (R1 & R2 & R3). split; [exact R1|]. split; [|exact R3].
      destruct (V2 t) as [E|[[E|E] _]]; [rewrite E; exact R2|rewrite R2 in E; congruence|exfalso].
      destruct (HT t R1) as (U1 & U2 & U3 & U4 & U5). apply U4. rewrite E at 1. rewrite Hd1. symmetry. exact E.
  - (* c1 is already an outlet: nothing more happens *)
    constructor.
    + exact HI1.
    + exact HX.
    + exact A_f0.
    + exact A_sub.
    + exact A_f2.
    + intros t c Ht. apply A_h. right. exact Ht.
    + intros o t Ho Hn0 Ht. pose proof (Hsort t Ht) as Hs. fold w0 in Hs. pose proof (A_h2 o Ho Hn0). lia.
    + exact A_rem.
Qed.

End TribStruct.
