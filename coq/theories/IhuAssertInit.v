(* C09 / ihu: the rank invariant of IhuRank holds for the flags computed by upscale_check on a loop-free fine network.
   A cell keeps its flag only if the walk from its outlet pixel arrives at the outlet pixel of its downstream cell after
   k >= 1 steps; a topological order of the fine network ranks the pixels so that every step from a non-pit decreases the
   rank; outlet pixels are pairwise distinct, so the outlet pixel of a flagged cell with a link to another cell is no pit. *)
From Coq Require Import List Arith ZArith Bool Lia.
Import ListNotations.
From PF Require Import Arr Net Elev Upscale UpscaleSpec D8Idx Ihu IhuD8 IhuValid IhuDistinct IhuRank.

(* ---------- a rank from a topological order ---------- *)
Lemma topo_rank ds s : topo ds s ->
  exists rk : nat -> nat, (forall i, In i s -> rk i < length s) /\
                          (forall i, In i s -> dsf ds i <> i -> rk (dsf ds i) < rk i).
Proof.
  induction 1 as [|s i Ht IH Hv Hn Hd].
  - exists (fun _ => 0). split; intros i [].
  - destruct IH as (rk & Hb & Hs).
    exists (fun x => if x =? i then length s else rk x). split.
    + intros x Hx. rewrite app_length. cbn [length]. destruct (Nat.eqb_spec x i) as [->|Hne]; [lia|].
      apply in_app_or in Hx. destruct Hx as [Hx|[Hx|[]]]; [|congruence]. specialize (Hb x Hx). lia.
    + intros x Hx Hnp. destruct (Nat.eqb_spec x i) as [->|Hne].
      * destruct Hd as [Hd|Hd]; [congruence|].
        destruct (Nat.eqb_spec (dsf ds i) i) as [E|_]; [congruence|]. apply Hb. exact Hd.
      * apply in_app_or in Hx. destruct Hx as [Hx|[Hx|[]]]; [|congruence].
        pose proof (topo_closed ds s x Ht Hx) as Hc.
        destruct (Nat.eqb_spec (dsf ds x) i) as [E|_]; [rewrite E in Hc; contradiction|]. apply Hs; assumption.
Qed.

Lemma rank_iter_le ds s rk : topo ds s -> (forall i, In i s -> dsf ds i <> i -> rk (dsf ds i) < rk i) ->
  forall k i, In i s -> rk (iter ds k i) <= rk i.
Proof.
  intros Ht Hs. induction k as [|k IH]; intros i Hi; cbn [iter]; [lia|].
  pose proof (IH (dsf ds i) (topo_closed ds s i Ht Hi)) as H1.
  destruct (Nat.eq_dec (dsf ds i) i) as [E|E]; [rewrite E in *; exact H1|]. specialize (Hs i Hi E). lia.
Qed.

Lemma rank_iter_lt ds s rk : topo ds s -> (forall i, In i s -> dsf ds i <> i -> rk (dsf ds i) < rk i) ->
  forall k i, In i s -> dsf ds i <> i -> 1 <= k -> rk (iter ds k i) < rk i.
Proof.
  intros Ht Hs k i Hi Hnp Hk. destruct k as [|k]; [lia|]. cbn [iter].
  pose proof (rank_iter_le ds s rk Ht Hs k (dsf ds i) (topo_closed ds s i Ht Hi)) as H1.
  specialize (Hs i Hi Hnp). lia.
Qed.

(* ---------- chk_walk ends k >= 1 steps downstream ---------- *)
Lemma chk_walk_iter sds fuel : forall st s d,
  exists k, (0 < fuel -> 1 <= k) /\ snd (fst (fst (chk_walk sds fuel st s d))) = iter sds k s.
Proof.
  induction fuel as [|f IH]; intros st s d; cbn [chk_walk].
  - exists 0. split; [lia|reflexivity].
  - cbv zeta. change (Upscale.sd sds s) with (dsf sds s).
    match goal with |- context [if ?c then _ else _] => destruct c end.
    + exists 1. split; [lia|reflexivity].
    + destruct (IH (upd st s (Z.max (nth s st (-9)%Z) (-1))) (dsf sds s) (S d)) as (k & _ & Hk).
      exists (S k). split; [lia|]. cbn [iter]. exact Hk.
Qed.

Section IhuAssertInit.
Variable sds : list nat.
Variables subnrow subncol cs : nat.
Variable sq : list nat.
Notation nsub := (length sds).
Notation nrow := (cdiv subnrow cs).
Notation ncol := (cdiv subncol cs).
Notation nc := (nrow * ncol).

(* a kept flag: the outlet pixel of the downstream cell is reached in k >= 1 steps *)
Definition Reach (out cds : list nat) (i : nat) : Prop :=
  nth i cds nc < nc -> exists k, 1 <= k /\ iter sds k (nth i out nsub) = nth (nth i cds nc) out nsub.

Lemma upscale_check_fold out cds (l : list nat) : forall c : Chk, length (c_valid c) = nc -> (forall x, In x l -> x < nc) ->
  forall D : nat -> Prop, (forall i, D i -> Flag (c_valid c) i -> Reach out cds i) ->
  forall i, D i \/ In i l ->
    Flag (c_valid (fold_left (fun c idx0 =>
     let idx_ds := nth idx0 cds nc in
     if nc <=? idx_ds then c else
     let '(st, s1, d, ok) := chk_walk sds (S nsub) (c_st c) (nth idx0 out nsub) 0 in
     if negb (s1 =? nth idx_ds out nsub) then
       mkChk (upd (c_valid c) idx0 false) st (c_fix c ++ [idx0]) (c_short c) (c_ok c && ok)
     else if 4 * (d + 1) <=? cs then
       mkChk (c_valid c) st (c_fix c) (c_short c ++ [idx0]) (c_ok c && ok)
     else mkChk (c_valid c) st (c_fix c) (c_short c) (c_ok c && ok)) l c)) i -> Reach out cds i.
Proof.
  induction l as [|h t IH]; intros c Hlen Hl D HD i Hi; cbn [fold_left].
  - destruct Hi as [Hi|[]]. apply HD. exact Hi.
  - assert (Hh : h < nc) by (apply Hl; left; reflexivity).
    assert (Ht : forall x, In x t -> x < nc) by (intros x Hx; apply Hl; right; exact Hx).
    assert (Hi' : (D i \/ i = h) \/ In i t).
    { destruct Hi as [Hi|[Hi|Hi]]; [left; left; exact Hi|left; right; symmetry; exact Hi|right; exact Hi]. }
    cbv zeta.
    destruct (Nat.leb_spec nc (nth h cds nc)) as [Hge|Hlt].
    { apply IH with (D := fun i => D i \/ i = h); [exact Hlen|exact Ht| |exact Hi'].
      intros j [Hj| ->] Hf; [apply HD; assumption|]. intros Hc. lia. }
    destruct (chk_walk_iter sds (S nsub) (c_st c) (nth h out nsub) 0) as (k & Hk1 & Hk).
    destruct (chk_walk sds (S nsub) (c_st c) (nth h out nsub) 0) as [[[st s1] d] ok]. cbn [fst snd] in Hk.
    destruct (Nat.eqb_spec s1 (nth (nth h cds nc) out nsub)) as [E|E]; cbn [negb].
    + assert (HR : Reach out cds h). { intros _. exists k. split; [apply Hk1; lia|]. rewrite <- Hk. exact E. }
      match goal with |- context [if ?b then _ else _] => destruct b end.
      * apply IH with (D := fun i => D i \/ i = h); [exact Hlen|exact Ht| |exact Hi'].
        cbn [c_valid]. intros j [Hj| ->] Hf; [apply HD; assumption|exact HR].
      * apply IH with (D := fun i => D i \/ i = h); [exact Hlen|exact Ht| |exact Hi'].
        cbn [c_valid]. intros j [Hj| ->] Hf; [apply HD; assumption|exact HR].
    + apply IH with (D := fun i => D i \/ i = h); [cbn [c_valid]; rewrite upd_length; exact Hlen|exact Ht| |exact Hi'].
      cbn [c_valid]. unfold Flag. intros j [Hj| ->] Hf.
      * apply HD; [exact Hj|]. unfold Flag. rewrite nth_upd in Hf.
        destruct (Nat.eqb j h && Nat.ltb h (length (c_valid c))); [discriminate|exact Hf].
      * rewrite nth_upd_eq in Hf by (rewrite Hlen; exact Hh). discriminate.
Qed.

Lemma upscale_check_reach out cds i : i < nc ->
  Flag (c_valid (upscale_check sds cs nrow ncol out cds)) i -> Reach out cds i.
Proof.
  intros Hi. unfold upscale_check.
  apply upscale_check_fold with (D := fun _ => False).
  - apply repeat_length.
  - intros x Hx. apply in_seq in Hx. lia.
  - intros j [].
  - right. apply in_seq. lia.
Qed.

Hypothesis Ht : topo sds sq.
Hypothesis Hc : complete sds sq.

Theorem upscale_check_rank out cds : G0 sds subnrow subncol cs cds out -> Inj sds subnrow subncol cs out ->
  RankInv nc (c_valid (upscale_check sds cs nrow ncol out cds)) cds.
Proof.
  intros G HI. destruct (topo_rank sds sq Ht) as (rk & _ & Hs).
  exists (fun i => rk (nth i out nsub)). intros i Hf Hv Hne Hfj.
  assert (Hi : i < nc).
  { destruct (Nat.lt_ge_cases i nc) as [Hl|Hg]; [exact Hl|].
    rewrite nth_overflow in Hv by (rewrite (g_lc _ _ _ _ _ _ G); exact Hg). lia. }
  destruct (upscale_check_reach out cds i Hi Hf Hv) as (k & Hk1 & Hk).
  assert (Hp : VPix sds (nth i out nsub)).
  { destruct (g_pi _ _ _ _ _ _ G i Hi) as [[E _]|[_ E]]; [lia|exact E]. }
  destruct Hp as [Hp1 Hp2].
  assert (Hin : In (nth i out nsub) sq). { apply Hc. split; [exact Hp1|exact Hp2]. }
  rewrite <- Hk. apply (rank_iter_lt sds sq rk Ht Hs); [exact Hin| |exact Hk1].
  intros Hpit. apply (HI i (nth i cds nc) Hi Hv (fun E => Hne (eq_sym E)) Hp1).
  rewrite <- Hk. symmetry. apply iter_pit. exact Hpit.
Qed.
End IhuAssertInit.

Print Assumptions upscale_check_rank.

(* satisfiable: one row of three pixels 0 -> 1 -> 2 (pit), cell size 1, outlet pixels [0;1;2], links [1;2;2]:
   every flag is kept and the links between flagged cells decrease a rank *)
Example upscale_check_rank_example :
  c_valid (upscale_check [1;2;2] 1 1 3 [0;1;2] [1;2;2]) = [true;true;true] /\
  RankInv 3 (c_valid (upscale_check [1;2;2] 1 1 3 [0;1;2] [1;2;2])) [1;2;2].
Proof.
  split; [vm_compute; reflexivity|].
  apply (upscale_check_rank [1;2;2] 1 3 1 [2;1;0]).
  - apply check_topo_sound. vm_compute. reflexivity.
  - apply check_complete_sound. vm_compute. reflexivity.
  - constructor.
    + vm_compute. reflexivity.
    + vm_compute. reflexivity.
    + intros i Hi. destruct i as [|[|[|i]]]; vm_compute in *; lia.
    + intros i Hi. destruct i as [|[|[|[|i]]]]; vm_compute in *; lia.
    + intros i Hi Ho. destruct i as [|[|[|i]]]; vm_compute in *; lia.
    + intros t Hl Hp. destruct t as [|[|[|t]]]; vm_compute in *; lia.
  - intros i j Hi Hj Hne Ho. destruct i as [|[|[|i]]]; destruct j as [|[|[|j]]]; vm_compute in *; lia.
Qed.
Print Assumptions upscale_check_rank_example.

(* the same from the stronger invariant: every outlet pixel lies in its own cell *)
Corollary upscale_check_rank_incell sds subnrow subncol cs sq out cds : topo sds sq -> complete sds sq ->
  G0 sds subnrow subncol cs cds out -> InCell sds subncol cs out ->
  RankInv (cdiv subnrow cs * cdiv subncol cs) (c_valid (upscale_check sds cs (cdiv subnrow cs) (cdiv subncol cs) out cds)) cds.
Proof.
  intros Ht Hc G HI. apply (upscale_check_rank sds subnrow subncol cs sq Ht Hc out cds G).
  apply InCell_Inj. exact HI.
Qed.
Print Assumptions upscale_check_rank_incell.
