(* C12: the memoisation state machine of Flwdir / FlwdirRaster (as repaired by the fix: commits).
   Kernels are abstract: a value is represented by the TAG of what it was computed from
   (network version, transform version, user-argument id; 0 = default / no argument). *)
From Coq Require Import List Arith Bool.
Import ListNotations.

Inductive method := Sort | Walk.

Record state := {
  raster : bool;            (* FlwdirRaster (true) or Flwdir (false) *)
  cacheon : bool;
  ver : nat;                (* version of the network (idxs_ds) *)
  tver : nat;               (* version of transform / latlon *)
  s_pit : option nat;                 (* _pit            : network version it describes *)
  s_seq : option (method * nat);      (* _seq            *)
  s_nn : option nat;                  (* _nnodes         *)
  c_rank : option nat;                (* _cached['rank'] *)
  c_main : option (nat * nat);        (* _cached['idxs_us_main'] : (network version, uparea argument id) *)
  c_so : option (nat * nat);          (* _cached['strord']       : (network version, mask argument id) *)
  c_dist : option (nat * nat);        (* _cached['distnc']       : (network version, transform version) *)
  c_area : option nat                 (* _cached['area']         : transform version *)
}.

Definition init (r c a : bool) : state :=
  (* the constructor evaluates idxs_pit (it rejects networks without pits); a vector object built with user areas
     (a = true) keeps them in the area slot whatever the cache setting *)
  {| raster := r; cacheon := c; ver := 0; tver := 0; s_pit := Some 0; s_seq := None; s_nn := None;
     c_rank := None; c_main := None; c_so := None; c_dist := None; c_area := if negb r && a then Some 0%nat else None |}.

(* what a returned value reflects *)
Record tag := { t_net : list nat; t_tr : list nat; t_arg : list nat }.
Definition tg n t a := {| t_net := n; t_tr := t; t_arg := a |}.
Definition tjoin (a b : tag) : tag := tg (t_net a ++ t_net b) (t_tr a ++ t_tr b) (t_arg a ++ t_arg b).

Inductive op :=
| QRank | QIsvalid | QPit | QSeq | QNnodes | QMain
| QMainUp (uparea : nat)            (* main_upstream(uparea): 0 = default *)
| QStrahler (mask : nat)            (* stream_order('strahler', mask): 0 = no mask *)
| QClassic (mask : nat)
| QDistnc | QArea | QUparea (metric : bool) | QAccuflux (data : nat)
| QStreamDist (mask : nat)          (* stream_distance(mask, unit='m'): reads the order and the transform, memoises nothing else *)
| QBasins | QPathUp | QPathDown
| MAddPits | MRepair (hasloops : bool) | MSetTransform | MOrder (m : method) | MDumpLoad.

Definition upd_pit s v := {| raster := raster s; cacheon := cacheon s; ver := ver s; tver := tver s; s_pit := v; s_seq := s_seq s;
  s_nn := s_nn s; c_rank := c_rank s; c_main := c_main s; c_so := c_so s; c_dist := c_dist s; c_area := c_area s |}.
Definition upd_seq s q nn := {| raster := raster s; cacheon := cacheon s; ver := ver s; tver := tver s; s_pit := s_pit s; s_seq := q;
  s_nn := nn; c_rank := c_rank s; c_main := c_main s; c_so := c_so s; c_dist := c_dist s; c_area := c_area s |}.
Definition upd_nn s nn := upd_seq s (s_seq s) nn.
Definition upd_rank s v := {| raster := raster s; cacheon := cacheon s; ver := ver s; tver := tver s; s_pit := s_pit s; s_seq := s_seq s;
  s_nn := s_nn s; c_rank := v; c_main := c_main s; c_so := c_so s; c_dist := c_dist s; c_area := c_area s |}.
Definition upd_main s v := {| raster := raster s; cacheon := cacheon s; ver := ver s; tver := tver s; s_pit := s_pit s; s_seq := s_seq s;
  s_nn := s_nn s; c_rank := c_rank s; c_main := v; c_so := c_so s; c_dist := c_dist s; c_area := c_area s |}.
Definition upd_so s v := {| raster := raster s; cacheon := cacheon s; ver := ver s; tver := tver s; s_pit := s_pit s; s_seq := s_seq s;
  s_nn := s_nn s; c_rank := c_rank s; c_main := c_main s; c_so := v; c_dist := c_dist s; c_area := c_area s |}.
Definition upd_dist s v := {| raster := raster s; cacheon := cacheon s; ver := ver s; tver := tver s; s_pit := s_pit s; s_seq := s_seq s;
  s_nn := s_nn s; c_rank := c_rank s; c_main := c_main s; c_so := c_so s; c_dist := v; c_area := c_area s |}.
Definition upd_area s v := {| raster := raster s; cacheon := cacheon s; ver := ver s; tver := tver s; s_pit := s_pit s; s_seq := s_seq s;
  s_nn := s_nn s; c_rank := c_rank s; c_main := c_main s; c_so := c_so s; c_dist := c_dist s; c_area := v |}.

(* idxs_pit property *)
Definition get_pit s : state * tag :=
  match s_pit s with Some v => (s, tg [v] [] []) | None => (upd_pit s (Some (ver s)), tg [ver s] [] []) end.
(* order_cells(method): fresh rank (sort) or pits + walk; sets _seq and _nnodes *)
Definition order_cells s (m : method) : state * tag :=
  let '(s1, tp) := match m with Walk => get_pit s | Sort => (s, tg [] [] []) end in
  (upd_seq s1 (Some (m, ver s1)) (Some (ver s1)), tjoin tp (tg [ver s1] [] [])).
Definition default_method s := if raster s then Walk else Sort.
(* idxs_seq property *)
Definition get_seq s : state * tag :=
  match s_seq s with Some (_, v) => (s, tg [v] [] []) | None => order_cells s (default_method s) end.
(* rank property *)
Definition get_rank s : state * tag :=
  match c_rank s with
  | Some v => (s, tg [v] [] [])
  | None => ((if cacheon s then upd_rank s (Some (ver s)) else s), tg [ver s] [] [])
  end.
(* nnodes property: int(sum(self.rank >= 0)) when not set *)
Definition get_nn s : state * tag :=
  match s_nn s with
  | Some v => (s, tg [v] [] [])
  | None => let '(s1, t) := get_rank s in
            (upd_nn s1 (Some (match c_rank s with Some v => v | None => ver s end)), t)
  end.
(* area property *)
Definition get_area s : state * tag :=
  if raster s then
    match c_area s with
    | Some t => (s, tg [] [t] [])
    | None => ((if cacheon s then upd_area s (Some (tver s)) else s), tg [] [tver s] [])
    end
  else (s, tg [] [] []).          (* vector class: user-provided areas or ones, never derived *)
(* upstream_area(unit): accuflux over idxs_seq of the cell areas (metric) or of ones *)
Definition get_uparea s (metric : bool) : state * tag :=
  let '(s1, ta) := if metric then get_area s else (s, tg [] [] []) in
  let '(s2, ts) := get_seq s1 in (s2, tjoin ta ts).
(* main_upstream(uparea): memoised only for the default area *)
Definition main_upstream s (arg : nat) : state * tag :=
  match arg with
  | 0 => let '(s1, t) := get_uparea s false in
         ((if cacheon s1 then upd_main s1 (Some (ver s1, 0)) else s1), tjoin t (tg [ver s1] [] [0]))
  | _ => (s, tg [ver s] [] [arg])
  end.
(* idxs_us_main property *)
Definition get_main s : state * tag :=
  match c_main s with Some (v, a) => (s, tg [v] [] [a]) | None => main_upstream s 0 end.
(* stream_order *)
Definition strahler s (mask : nat) : state * tag :=
  match mask, c_so s with
  | 0, Some (v, a) => (s, tg [v] [] [a])
  | _, _ => let '(s1, t) := get_seq s in
            ((if cacheon s1 && Nat.eqb mask 0 then upd_so s1 (Some (ver s1, mask)) else s1), tjoin t (tg [ver s1] [] [mask]))
  end.
Definition classic s (mask : nat) : state * tag :=
  let '(s1, t1) := get_seq s in let '(s2, t2) := get_main s1 in (s2, tjoin (tjoin t1 t2) (tg [ver s2] [] [mask])).
(* distnc property (raster): stream_distance(unit='m') *)
Definition get_dist s : state * tag :=
  if raster s then
    match c_dist s with
    | Some (v, t) => (s, tg [v] [t] [])
    | None => let '(s1, ts) := get_seq s in
              ((if cacheon s1 then upd_dist s1 (Some (ver s1, tver s1)) else s1), tjoin ts (tg [ver s1] [tver s1] []))
    end
  else (s, tg [] [] []).

Definition reset_net s : state :=   (* after idxs_ds changed: new version; order, nnodes and network memos dropped *)
  {| raster := raster s; cacheon := cacheon s; ver := S (ver s); tver := tver s; s_pit := Some (S (ver s)); s_seq := None;
     s_nn := None; c_rank := None; c_main := None; c_so := None; c_dist := None; c_area := c_area s |}.

Definition step (s : state) (o : op) : state * tag :=
  match o with
  | QRank => get_rank s
  | QIsvalid => get_rank (upd_rank s None)
  | QPit => get_pit s
  | QSeq => get_seq s
  | QNnodes => get_nn s
  | QMain => get_main s
  | QMainUp a => main_upstream s a
  | QStrahler m => strahler s m
  | QClassic m => classic s m
  | QDistnc => get_dist s
  | QArea => get_area s
  | QUparea m => get_uparea s m
  | QAccuflux d => let '(s1, t) := get_seq s in (s1, tjoin t (tg [] [] [d]))
  | QStreamDist m => let '(s1, t) := get_seq s in (s1, tjoin t (tg [] [tver s] [m]))
  | QBasins => let '(s1, t1) := get_pit s in let '(s2, t2) := get_seq s1 in (s2, tjoin t1 t2)
  | QPathUp => get_main s
  | QPathDown => (s, tg [ver s] [] [])
  | MAddPits => (reset_net (fst (get_pit s)), tg [] [] [])
  | MRepair true => (reset_net (fst (get_pit s)), tg [] [] [])
  | MRepair false => (s, tg [] [] [])
  | MSetTransform =>
      ({| raster := raster s; cacheon := cacheon s; ver := ver s; tver := S (tver s); s_pit := s_pit s; s_seq := s_seq s;
          s_nn := s_nn s; c_rank := c_rank s; c_main := c_main s; c_so := c_so s; c_dist := None; c_area := None |}, tg [] [] [])
  | MOrder m => (fst (order_cells s m), tg [] [] [])
  | MDumpLoad =>
      (* _dict evaluates nnodes; the loaded object carries idxs_ds, _seq, _pit, nnodes (and transform; a vector
         object also the node areas it was built with); caching is on and the memo is otherwise empty *)
      let '(s1, _) := get_nn s in
      ({| raster := raster s1; cacheon := true; ver := ver s1; tver := tver s1; s_pit := s_pit s1; s_seq := s_seq s1;
          s_nn := s_nn s1; c_rank := None; c_main := None; c_so := None; c_dist := None;
          c_area := if raster s1 then None else c_area s1 |}, tg [] [] [])
  end.

Fixpoint run (s : state) (ops : list op) : list (state * tag) :=
  match ops with [] => [] | o :: t => let r := step s o in r :: run (fst r) t end.
