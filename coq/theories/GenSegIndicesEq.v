(* The generated subgrid.segment_indices (generated/GenSeg.v, regenerated from the source by tools/gen_seg.py).
   Ucat.v has no model of segment_indices itself: its walk is Ucat.seg with incl = true (segment_paths), with two additions
   that are modelled here (segm / segment_indices_model): the walk also stops when the segment has max_len > 0 cells, and a
   zero-length line [p; p] is added at a pit.  Proved:
     gen_segment_indices ... = Some r -> r = segment_indices_model ...                     (partial, no hypothesis)
     gen_segment_indices ... = Some (segment_indices_model ...)                            (total, when no walk takes n steps)
     max_len <= 0 -> the cells of a walk of the model are o :: Ucat.seg ... true n o       (the tie to the hand model)
   and with them the total form on a loop-free network for max_len <= 0. *)
From Coq Require Import List Arith ZArith Bool Lia.
Import ListNotations.
From PF Require Import Arr Net NetBound Ucat TermSeg GenCoreBaseEq GenSegBaseEq.
From PFG Require Import GenCore GenSeg.
Local Open Scope Z_scope.

(* ---- for i in L: out += l_i (or fail) ---- *)
Section AppLoop.
Context {A : Type} (h : nat -> option (list A)).
Definition astep (st : list A) (i : nat) : option (list A) := match h i with None => None | Some l => Some (st ++ l) end.
Definition aval (i : nat) : list A := match h i with Some l => l | None => [] end.

Lemma aloop_total l : forall st, (forall i, In i l -> h i <> None) -> ofold astep l st = Some (st ++ flat_map aval l).
Proof.
  induction l as [|x l IH]; intros st H; [cbn [flat_map]; rewrite app_nil_r; reflexivity|].
  rewrite ofold_cons. unfold astep at 1. cbn [flat_map]. unfold aval at 1.
  specialize (H x (or_introl eq_refl)) as Hx. destruct (h x) as [lx|]; [|congruence].
  rewrite IH by (intros; apply H; right; assumption). rewrite app_assoc. reflexivity.
Qed.

Lemma aloop_some l : forall st r, ofold astep l st = Some r -> forall i, In i l -> h i <> None.
Proof.
  intros st r H i Hi. destruct (ofold_some_in _ _ _ _ H i Hi) as [s Hs]. unfold astep in Hs. destruct (h i); congruence.
Qed.
End AppLoop.

Lemma flat_map_seq_nth {A B} (g : A -> list B) (l : list A) d : flat_map (fun i => g (nth i l d)) (seq 0 (length l)) = flat_map g l.
Proof. rewrite !flat_map_concat_map. f_equal. apply map_seq_nth. Qed.

Section Indices.
Variable nxt outs : list nat.
Variable mask : option (list bool).
Variable max_len : Z.
Notation n := (length nxt).
Notation isout := (outflag outs).
Notation maskok := (mok mask).
Notation outl := (fold_left (ostep n) outs (repeat false n)).

(* the walk of segment_indices from cur, with k cells collected so far: (cells appended, pixel after the last one, pit?) *)
Fixpoint segm (fuel : nat) (cur : nat) (k : nat) : list nat * nat * bool :=
  let x := nth cur nxt n in
  let pit := (x =? cur)%nat in
  if (n <=? x)%nat || (pit || (negb (maskok x) || ((max_len >? 0) && (Z.of_nat k =? max_len)))) then ([], x, pit)
  else if isout x then ([x], x, pit)
  else match fuel with
       | O => ([], x, pit)
       | S f => let '(p, y, b) := segm f x (S k) in (x :: p, y, b)
       end.

Definition segment_indices_model : list (list nat) :=
  flat_map (fun o => if (o <? n)%nat
                     then let '(p, y, b) := segm n o 1 in
                          (if (1 <? length (o :: p))%nat then [o :: p] else []) ++ (if b then [[y; y]] else [])
                     else []) outs.

(* the same walk with an error value, and with the (unused) last value of `idx` *)
Fixpoint osegm (fuel : nat) (cur : nat) (k : nat) : option (list nat * nat * nat * bool) :=
  let x := nth cur nxt n in
  let pit := (x =? cur)%nat in
  if (n <=? x)%nat || (pit || (negb (maskok x) || ((max_len >? 0) && (Z.of_nat k =? max_len)))) then Some ([], cur, x, pit)
  else if isout x then Some ([x], cur, x, pit)
  else match fuel with
       | O => None
       | S f => match osegm f x (S k) with None => None | Some (p, c, y, b) => Some (x :: p, c, y, b) end
       end.

Lemma osegm_segm : forall fuel cur k p c y b, osegm fuel cur k = Some (p, c, y, b) -> segm fuel cur k = (p, y, b).
Proof.
  induction fuel as [|f IH]; intros cur k p c y b; cbn [osegm segm]; cbv zeta;
    destruct ((n <=? nth cur nxt n)%nat || ((nth cur nxt n =? cur)%nat || (negb (maskok (nth cur nxt n)) || ((max_len >? 0) && (Z.of_nat k =? max_len)))));
    try congruence; destruct (isout (nth cur nxt n)); try congruence.
  destruct (osegm f (nth cur nxt n) (S k)) as [[[[p' c'] y'] b']|] eqn:E; [|discriminate].
  intros H. injection H as <- <- <- <-. rewrite (IH _ _ _ _ _ _ E). reflexivity.
Qed.

Lemma osegm_none : forall fuel cur k, osegm fuel cur k = None -> length (fst (fst (segm fuel cur k))) = fuel.
Proof.
  induction fuel as [|f IH]; intros cur k; cbn [osegm segm]; cbv zeta;
    destruct ((n <=? nth cur nxt n)%nat || ((nth cur nxt n =? cur)%nat || (negb (maskok (nth cur nxt n)) || ((max_len >? 0) && (Z.of_nat k =? max_len)))));
    try discriminate; destruct (isout (nth cur nxt n)); try discriminate; [reflexivity|].
  destruct (osegm f (nth cur nxt n) (S k)) as [[[[p' c'] y'] b']|] eqn:E; [discriminate|]. intros _.
  specialize (IH _ _ E). destruct (segm f (nth cur nxt n) (S k)) as [[p y] b]. cbn [fst length] in *. lia.
Qed.

(* the tie to the hand model: without a maximum length the cells are those of Ucat.seg with incl = true *)
Lemma segm_seg : max_len <= 0 -> forall fuel cur k, fst (fst (segm fuel cur k)) = seg nxt isout maskok true fuel cur.
Proof.
  intros Hm. assert (Hz : (max_len >? 0) = false) by (destruct (Z.gtb_spec max_len 0); [lia|reflexivity]).
  induction fuel as [|f IH]; intros cur k; cbn [segm Ucat.seg]; cbv zeta; rewrite Hz; cbn [andb]; rewrite orb_false_r, !orb_assoc;
    destruct ((n <=? nth cur nxt n)%nat || (nth cur nxt n =? cur)%nat || negb (maskok (nth cur nxt n))); try reflexivity;
    destruct (isout (nth cur nxt n)); try reflexivity.
  specialize (IH (nth cur nxt n) (S k)). destruct (segm f (nth cur nxt n) (S k)) as [[p y] b]. cbn [fst] in *. rewrite IH. reflexivity.
Qed.

Lemma idx_loop3 : forall fuel pre cur,
  gen_segment_indices_loop3 outs nxt mask max_len outl fuel (pre, cur) =
  option_map (fun t => let '(p, c, y, b) := t in (pre ++ p, c, y, b)) (osegm fuel cur (length pre)).
Proof.
  induction fuel as [|f IH]; intros pre cur; cbn [gen_segment_indices_loop3 osegm]; cbv zeta; rewrite mask_test;
    set (x := nth cur nxt n);
    (destruct (Nat.leb_spec n x) as [Hn|Hn]; cbn [orb option_map]; [rewrite app_nil_r; reflexivity|]);
    (destruct ((x =? cur)%nat || (negb (maskok x) || ((max_len >? 0) && (Z.of_nat (length pre) =? max_len)))); cbn [option_map];
       [rewrite app_nil_r; reflexivity|]);
    rewrite (outl_spec n outs x Hn); (destruct (isout x); cbn [option_map]; [reflexivity|]).
  - reflexivity.
  - rewrite IH. rewrite app_length. cbn [length]. rewrite Nat.add_1_r.
    destruct (osegm f x (S (length pre))) as [[[[p c] y] b]|]; [|reflexivity]. cbn [option_map].
    rewrite <- app_assoc. reflexivity.
Qed.

Definition idx_h (i : nat) : option (list (list nat)) :=
  let o := nth i outs n in
  if (n <=? o)%nat then Some []
  else match osegm n o 1 with
       | None => None
       | Some (p, c, y, b) => Some ((if (1 <? length (o :: p))%nat then [o :: p] else []) ++ (if b then [[y; y]] else []))
       end.

Lemma idx_step st i : gen_segment_indices_loop2_step outs nxt mask max_len outl st i = astep idx_h st i.
Proof.
  unfold gen_segment_indices_loop2_step, astep, idx_h. cbv zeta. destruct (Nat.leb_spec n (nth i outs n)) as [Ho|Ho]; [rewrite app_nil_r; reflexivity|].
  rewrite idx_loop3. change (length [nth i outs n]) with 1%nat. destruct (osegm n (nth i outs n) 1) as [[[[p c] y] b]|]; [|reflexivity]. cbn [option_map app].
  assert (E : (Z.of_nat (length (nth i outs n :: p)) >? 1) = (1 <? length (nth i outs n :: p))%nat).
  { destruct (Z.gtb_spec (Z.of_nat (length (nth i outs n :: p))) 1); destruct (Nat.ltb_spec 1 (length (nth i outs n :: p))); try reflexivity; lia. }
  rewrite E. destruct (1 <? length (nth i outs n :: p))%nat; destruct b; cbn [app]; rewrite <- ?app_assoc, ?app_nil_r; reflexivity.
Qed.

Lemma idx_run : gen_segment_indices outs nxt mask max_len = ofold (astep idx_h) (seq 0 (length outs)) [].
Proof.
  unfold gen_segment_indices. cbv zeta.
  change (fold_left (gen_segment_indices_loop1_step outs nxt mask max_len) outs (repeat false n)) with outl.
  assert (E2 : forall l a, ofold (gen_segment_indices_loop2_step outs nxt mask max_len outl) l a = ofold (astep idx_h) l a).
  { induction l as [|y l IHl]; intros a; [reflexivity|]. rewrite !ofold_cons, idx_step. destruct (astep idx_h a y); [apply IHl|reflexivity]. }
  rewrite E2. destruct (ofold (astep idx_h) (seq 0 (length outs)) []); reflexivity.
Qed.

Lemma idx_model : (forall i, (i < length outs)%nat -> idx_h i <> None) ->
  flat_map (aval idx_h) (seq 0 (length outs)) = segment_indices_model.
Proof.
  intros H. unfold segment_indices_model.
  rewrite <- (flat_map_seq_nth (fun o => if (o <? n)%nat then let '(p, y, b) := segm n o 1 in
                 (if (1 <? length (o :: p))%nat then [o :: p] else []) ++ (if b then [[y; y]] else []) else []) outs n).
  rewrite !flat_map_concat_map. f_equal. apply map_ext_in. intros i Hi. apply in_seq in Hi.
  specialize (H i ltac:(lia)). revert H. unfold aval, idx_h. cbv zeta. set (o := nth i outs n).
  destruct (Nat.leb_spec n o) as [Ho|Ho]; destruct (Nat.ltb_spec o n) as [H1|H1]; try (exfalso; lia).
  - reflexivity.
  - destruct (osegm n o 1) as [[[[p c] y] b]|] eqn:E; [|congruence]. intros _. rewrite (osegm_segm _ _ _ _ _ _ _ E). reflexivity.
Qed.

Theorem gen_segment_indices_partial r : gen_segment_indices outs nxt mask max_len = Some r -> r = segment_indices_model.
Proof.
  rewrite idx_run. intros H.
  assert (Hh : forall i, (i < length outs)%nat -> idx_h i <> None) by (intros i Hi; eapply aloop_some; [exact H|apply in_seq; lia]).
  rewrite aloop_total in H by (intros i Hi; apply Hh; apply in_seq in Hi; lia). cbn [app] in H. injection H as <-. apply idx_model. exact Hh.
Qed.

Definition walks_end_m : Prop := forall o, In o outs -> (o < n)%nat -> (length (fst (fst (segm n o 1))) < n)%nat.

Theorem gen_segment_indices_eq : walks_end_m -> gen_segment_indices outs nxt mask max_len = Some segment_indices_model.
Proof.
  intros Hw. assert (Hh : forall i, (i < length outs)%nat -> idx_h i <> None).
  { intros i Hi. unfold idx_h. cbv zeta. destruct (Nat.leb_spec n (nth i outs n)) as [Ho|Ho]; [discriminate|].
    destruct (osegm n (nth i outs n) 1) as [[[[p c] y] b]|] eqn:E; [discriminate|]. apply osegm_none in E.
    specialize (Hw _ (nth_In _ _ Hi) Ho). lia. }
  rewrite idx_run, aloop_total by (intros i Hi; apply Hh; apply in_seq in Hi; lia). cbn [app]. f_equal. apply idx_model. exact Hh.
Qed.

(* without a maximum length: the cells of every walk are those of the hand model, and on a loop-free network the fuel suffices *)
Theorem segment_indices_model_paths : max_len <= 0 ->
  map (fun o => if (o <? n)%nat then o :: fst (fst (segm n o 1)) else []) outs = segment_paths nxt outs mask true.
Proof. intros Hm. unfold segment_paths. apply map_ext. intros o. rewrite (segm_seg Hm). reflexivity. Qed.

Corollary gen_segment_indices_topo sq : max_len <= 0 -> topo nxt sq -> complete nxt sq ->
  gen_segment_indices outs nxt mask max_len = Some segment_indices_model.
Proof.
  intros Hm Ht Hc. apply gen_segment_indices_eq. intros o _ Ho. rewrite (segm_seg Hm).
  destruct (seg_short nxt isout maskok true sq Ht Hc o) as [H|H]; [exact H|]. rewrite H. cbn [length]. lia.
Qed.
End Indices.

(* satisfiable and not vacuous: 6 cells, 5 -> 4 -> 3 -> 2 -> 1 -> 0 (pit), outlet pixels 5 and 2 and a missing one *)
Example segment_indices_example :
  topo [0;0;1;2;3;4]%nat [0;1;2;3;4;5]%nat /\ complete [0;0;1;2;3;4]%nat [0;1;2;3;4;5]%nat /\
  gen_segment_indices [5;6;2]%nat [0;0;1;2;3;4]%nat None 0 = Some [[5;4;3;2]; [2;1;0]; [0;0]]%nat /\
  segment_indices_model [0;0;1;2;3;4]%nat [5;6;2]%nat None 0 = [[5;4;3;2]; [2;1;0]; [0;0]]%nat /\
  gen_segment_indices [5;6;2]%nat [0;0;1;2;3;4]%nat None 3 = Some (segment_indices_model [0;0;1;2;3;4]%nat [5;6;2]%nat None 3) /\
  segment_indices_model [0;0;1;2;3;4]%nat [5;6;2]%nat None 3 = [[5;4;3]; [2;1;0]; [0;0]]%nat.
Proof.
  split; [apply check_topo_sound; vm_compute; reflexivity|].
  split; [apply check_complete_sound; vm_compute; reflexivity|]. vm_compute. auto.
Qed.

Print Assumptions gen_segment_indices_partial.
Print Assumptions gen_segment_indices_eq.
Print Assumptions segment_indices_model_paths.
Print Assumptions gen_segment_indices_topo.
