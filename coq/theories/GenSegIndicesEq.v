(* The generated subgrid.segment_indices (generated/GenSeg.v, regenerated from the source by tools/gen_seg.py).
   Ucat.v has no model of segment_indices itself: its walk is Ucat.seg with incl = true (segment_paths), with two additions
   that are modelled here (segm / segment_indices_model): a segment of more than max_len > 0 cells is divided into pieces
   with the splitting of streams.streams (Vect.cut: k = round(l / max_len) pieces of n = round(l / k) links, consecutive
   pieces share a cell), and a zero-length line [p; p] is added at a pit.  (Before the repair of finding F19 the walk
   stopped at max_len cells and the rest of the segment was lost.)  Proved:
     gen_segment_indices ... = Some r -> r = segment_indices_model ...                     (partial, no hypothesis)
     gen_segment_indices ... = Some (segment_indices_model ...)                            (total, when no walk takes n steps)
     the cells of a walk of the model are o :: Ucat.seg ... true n o                       (the tie to the hand model)
   and with them the total form on a loop-free network, for every max_len. *)
From Coq Require Import List Arith ZArith QArith Qround Bool Lia.
Import ListNotations.
From PF Require Import Arr Net NetBound Ucat TermSeg Vect VectSpec GenCoreBaseEq GenSegBaseEq GenSegStreamsEq.
From PFG Require Import GenCore GenSeg.
Local Open Scope Z_scope.

(* ---- the splitting loop (the text of streams.streams): out ++ cut idxs max_len ---- *)
Lemma indices_split_cut (outs nxt : list nat) (mask : option (list bool)) (max_len : Z) (out : list (list nat)) (idxs : list nat) :
  (if (Z.of_nat (length idxs) >? max_len) && (max_len >? 0) then
     let '(n, k) := if negb (Qle_bool (inject_Z (Z.of_nat (length idxs)) / inject_Z max_len)%Q (3 # 2)%Q)
                   then (py_round (inject_Z (Z.of_nat (length idxs)) / inject_Z (py_round (inject_Z (Z.of_nat (length idxs)) / inject_Z max_len)%Q))%Q,
                         py_round (inject_Z (Z.of_nat (length idxs)) / inject_Z max_len)%Q)
                   else (Z.of_nat (length idxs), 1) in
     fold_left (gen_segment_indices_loop4_step outs nxt mask max_len idxs n k) (seq 0 (Z.to_nat k)) out
   else out ++ [idxs]) = out ++ cut idxs max_len.
Proof.
  unfold cut. set (l := Z.of_nat (length idxs)).
  destruct ((l >? max_len) && (max_len >? 0)) eqn:Ec; [|reflexivity].
  apply andb_prop in Ec. destruct Ec as [Ec1 Ec2].
  assert (Hm : 1 <= max_len) by lia. assert (Hl : 0 <= l) by (unfold l; lia).
  rewrite (qdiv_to_pos l max_len Hm).
  set (ratio := (l # Z.to_pos max_len)%Q).
  assert (Hkn : (if negb (Qle_bool ratio (3 # 2))
                 then (py_round (inject_Z l / inject_Z (py_round ratio)), py_round ratio) else (l, 1)) =
                (let '(k, n) := if Qlt_le_dec (3 # 2) ratio then (py_round ratio, py_round (l # Z.to_pos (py_round ratio))%Q)
                                else (1, l) in (n, k))).
  { destruct (Qlt_le_dec (3 # 2) ratio) as [H|H].
    - assert (Hb : Qle_bool ratio (3 # 2) = false).
      { destruct (Qle_bool ratio (3 # 2)) eqn:E; [|reflexivity]. apply Qle_bool_iff in E.
        exfalso. apply (Qlt_irrefl ratio). eapply Qle_lt_trans; eauto. }
      rewrite Hb. cbn [negb].
      assert (Hk : 1 <= py_round ratio).
      { apply py_round_pos. apply Qlt_le_weak. apply Qle_lt_trans with (y := (3 # 2)%Q); auto. unfold Qle; simpl; lia. }
      rewrite (qdiv_to_pos l _ Hk). reflexivity.
    - apply Qle_bool_iff in H. rewrite H. reflexivity. }
  rewrite Hkn. clear Hkn.
  assert (Hn : 0 <= snd (if Qlt_le_dec (3 # 2) ratio then (py_round ratio, py_round (l # Z.to_pos (py_round ratio))%Q) else (1, l))).
  { destruct (Qlt_le_dec (3 # 2) ratio); cbn [snd]; [|exact Hl]. apply py_round_nonneg. unfold Qle; simpl; lia. }
  destruct (if Qlt_le_dec (3 # 2) ratio then (py_round ratio, py_round (l # Z.to_pos (py_round ratio))%Q) else (1, l)) as [k n].
  cbn [snd] in Hn.
  rewrite (fold_left_ext_in' _ (fun st i => st ++ [if (Z.of_nat i + 1 =? k) then skipn (i * Z.to_nat n) idxs
                else slice idxs (i * Z.to_nat n) (Z.to_nat n * (i + 1) + 1)])).
  - rewrite fold_snoc_map. reflexivity.
  - intros a x _. unfold gen_segment_indices_loop4_step, slice. cbv zeta. rewrite to_nat_mul, (to_nat_end x n Hn).
    destruct (Z.of_nat x + 1 =? k); reflexivity.
Qed.

(* ---- for i in L: out += l_i (or fail) ---- *)
Section AppLoop.
Context {A : Type} (h : nat -> option (list A)).
Definition astep (st : list A) (i : nat) : option (list A) := match h i with None => None | Some l => Some (st ++ l) end.
Definition aval (i : nat) : list A := match h i with Some l => l | None => [] end.

Lemma aloop_total l : forall st, (forall i, In i l -> h i <> None) -> ofold astep l st = Some (st ++ flat_map aval l).
Proof.
  induction l as [|x l IH]; intros st H; [cbn [flat_map]; rewrite app_nil_r; reflexivity|].
  rewrite ofold_cons. unfold astep at 1. cbn [flat_map]. unfold aval at 1.
  specialize (H x (or_introl eq_refl)) as Hx. destruct (h x) as [lx|]; [|congruence].
  rewrite IH by (intros; apply H; right; assumption). rewrite app_assoc. reflexivity.
Qed.

Lemma aloop_some l : forall st r, ofold astep l st = Some r -> forall i, In i l -> h i <> None.
Proof.
  intros st r H i Hi. destruct (ofold_some_in _ _ _ _ H i Hi) as [s Hs]. unfold astep in Hs. destruct (h i); congruence.
Qed.
End AppLoop.

Lemma flat_map_seq_nth {A B} (g : A -> list B) (l : list A) d : flat_map (fun i => g (nth i l d)) (seq 0 (length l)) = flat_map g l.
Proof. rewrite !flat_map_concat_map. f_equal. apply map_seq_nth. Qed.

Section Indices.
Variable nxt outs : list nat.
Variable mask : option (list bool).
Variable max_len : Z.
Notation n := (length nxt).
Notation isout := (outflag outs).
Notation maskok := (mok mask).
Notation outl := (fold_left (ostep n) outs (repeat false n)).

(* the walk of segment_indices from cur: (cells appended, pixel after the last one, pit?) *)
Fixpoint segm (fuel : nat) (cur : nat) : list nat * nat * bool :=
  let x := nth cur nxt n in
  let pit := (x =? cur)%nat in
  if (n <=? x)%nat || (pit || negb (maskok x)) then ([], x, pit)
  else if isout x then ([x], x, pit)
  else match fuel with
       | O => ([], x, pit)
       | S f => let '(p, y, b) := segm f x in (x :: p, y, b)
       end.

(* the pieces that one outlet pixel contributes: the divided segment (if it has a link) and the zero-length line at a pit *)
Definition seg_pieces (o : nat) (p : list nat) (y : nat) (b : bool) : list (list nat) :=
  (if (1 <? length (o :: p))%nat then cut (o :: p) max_len else []) ++ (if b then [[y; y]] else []).

Definition segment_indices_model : list (list nat) :=
  flat_map (fun o => if (o <? n)%nat then let '(p, y, b) := segm n o in seg_pieces o p y b else []) outs.

(* the same walk with an error value, and with the (unused) last value of `idx` *)
Fixpoint osegm (fuel : nat) (cur : nat) : option (list nat * nat * nat * bool) :=
  let x := nth cur nxt n in
  let pit := (x =? cur)%nat in
  if (n <=? x)%nat || (pit || negb (maskok x)) then Some ([], cur, x, pit)
  else if isout x then Some ([x], cur, x, pit)
  else match fuel with
       | O => None
       | S f => match osegm f x with None => None | Some (p, c, y, b) => Some (x :: p, c, y, b) end
       end.

Lemma osegm_segm : forall fuel cur p c y b, osegm fuel cur = Some (p, c, y, b) -> segm fuel cur = (p, y, b).
Proof.
  induction fuel as [|f IH]; intros cur p c y b; cbn [osegm segm]; cbv zeta;
    destruct ((n <=? nth cur nxt n)%nat || ((nth cur nxt n =? cur)%nat || negb (maskok (nth cur nxt n))));
    try congruence; destruct (isout (nth cur nxt n)); try congruence.
  destruct (osegm f (nth cur nxt n)) as [[[[p' c'] y'] b']|] eqn:E; [|discriminate].
  intros H. injection H as <- <- <- <-. rewrite (IH _ _ _ _ _ E). reflexivity.
Qed.

Lemma osegm_none : forall fuel cur, osegm fuel cur = None -> length (fst (fst (segm fuel cur))) = fuel.
Proof.
  induction fuel as [|f IH]; intros cur; cbn [osegm segm]; cbv zeta;
    destruct ((n <=? nth cur nxt n)%nat || ((nth cur nxt n =? cur)%nat || negb (maskok (nth cur nxt n))));
    try discriminate; destruct (isout (nth cur nxt n)); try discriminate; [reflexivity|].
  destruct (osegm f (nth cur nxt n)) as [[[[p' c'] y'] b']|] eqn:E; [discriminate|]. intros _.
  specialize (IH _ E). destruct (segm f (nth cur nxt n)) as [[p y] b]. cbn [fst length] in *. lia.
Qed.

(* the tie to the hand model: the cells are those of Ucat.seg with incl = true, whatever max_len is *)
Lemma segm_seg : forall fuel cur, fst (fst (segm fuel cur)) = seg nxt isout maskok true fuel cur.
Proof.
  induction fuel as [|f IH]; intros cur; cbn [segm Ucat.seg]; cbv zeta; rewrite !orb_assoc;
    destruct ((n <=? nth cur nxt n)%nat || (nth cur nxt n =? cur)%nat || negb (maskok (nth cur nxt n))); try reflexivity;
    destruct (isout (nth cur nxt n)); try reflexivity.
  specialize (IH (nth cur nxt n)). destruct (segm f (nth cur nxt n)) as [[p y] b]. cbn [fst] in *. rewrite IH. reflexivity.
Qed.

Lemma idx_loop3 : forall fuel pre cur,
  gen_segment_indices_loop3 outs nxt mask max_len outl fuel (pre, cur) =
  option_map (fun t => let '(p, c, y, b) := t in (pre ++ p, c, y, b)) (osegm fuel cur).
Proof.
  induction fuel as [|f IH]; intros pre cur; cbn [gen_segment_indices_loop3 osegm]; cbv zeta; rewrite mask_test;
    set (x := nth cur nxt n);
    (destruct (Nat.leb_spec n x) as [Hn|Hn]; cbn [orb option_map]; [rewrite app_nil_r; reflexivity|]);
    (destruct ((x =? cur)%nat || negb (maskok x)); cbn [option_map];
       [rewrite app_nil_r; reflexivity|]);
    rewrite (outl_spec n outs x Hn); (destruct (isout x); cbn [option_map]; [reflexivity|]).
  - reflexivity.
  - rewrite IH.
    destruct (osegm f x) as [[[[p c] y] b]|]; [|reflexivity]. cbn [option_map].
    rewrite <- app_assoc. reflexivity.
Qed.

Definition idx_h (i : nat) : option (list (list nat)) :=
  let o := nth i outs n in
  if (n <=? o)%nat then Some []
  else match osegm n o with
       | None => None
       | Some (p, c, y, b) => Some (seg_pieces o p y b)
       end.

Lemma idx_step st i : gen_segment_indices_loop2_step outs nxt mask max_len outl st i = astep idx_h st i.
Proof.
  unfold gen_segment_indices_loop2_step, astep, idx_h. cbv zeta. destruct (Nat.leb_spec n (nth i outs n)) as [Ho|Ho]; [rewrite app_nil_r; reflexivity|].
  rewrite idx_loop3. destruct (osegm n (nth i outs n)) as [[[[p c] y] b]|]; [|reflexivity]. cbn [option_map app].
  unfold seg_pieces. set (idxs := nth i outs n :: p).
  assert (E : (Z.of_nat (length idxs) >? 1) = (1 <? length idxs)%nat).
  { destruct (Z.gtb_spec (Z.of_nat (length idxs)) 1); destruct (Nat.ltb_spec 1 (length idxs)); try reflexivity; lia. }
  rewrite E. destruct (1 <? length idxs)%nat.
  - pose proof (indices_split_cut outs nxt mask max_len st idxs) as Hc.
    destruct ((Z.of_nat (length idxs) >? max_len) && (max_len >? 0)).
    + rewrite app_assoc, <- Hc.
      destruct (if negb (Qle_bool (inject_Z (Z.of_nat (length idxs)) / inject_Z max_len) (3 # 2)) then _ else _) as [n0 k].
      destruct b; [reflexivity|rewrite app_nil_r; reflexivity].
    + rewrite app_assoc, <- Hc. destruct b; [reflexivity|rewrite app_nil_r; reflexivity].
  - destruct b; cbn [app]; rewrite ?app_nil_r; reflexivity.
Qed.

Lemma idx_run : gen_segment_indices outs nxt mask max_len = ofold (astep idx_h) (seq 0 (length outs)) [].
Proof.
  unfold gen_segment_indices. cbv zeta.
  change (fold_left (gen_segment_indices_loop1_step outs nxt mask max_len) outs (repeat false n)) with outl.
  assert (E2 : forall l a, ofold (gen_segment_indices_loop2_step outs nxt mask max_len outl) l a = ofold (astep idx_h) l a).
  { induction l as [|y l IHl]; intros a; [reflexivity|]. rewrite !ofold_cons, idx_step. destruct (astep idx_h a y); [apply IHl|reflexivity]. }
  rewrite E2. destruct (ofold (astep idx_h) (seq 0 (length outs)) []); reflexivity.
Qed.

Lemma idx_model : (forall i, (i < length outs)%nat -> idx_h i <> None) ->
  flat_map (aval idx_h) (seq 0 (length outs)) = segment_indices_model.
Proof.
  intros H. unfold segment_indices_model.
  rewrite <- (flat_map_seq_nth (fun o => if (o <? n)%nat then let '(p, y, b) := segm n o in seg_pieces o p y b else []) outs n).
  rewrite !flat_map_concat_map. f_equal. apply map_ext_in. intros i Hi. apply in_seq in Hi.
  specialize (H i ltac:(lia)). revert H. unfold aval, idx_h. cbv zeta. set (o := nth i outs n).
  destruct (Nat.leb_spec n o) as [Ho|Ho]; destruct (Nat.ltb_spec o n) as [H1|H1]; try (exfalso; lia).
  - reflexivity.
  - destruct (osegm n o) as [[[[p c] y] b]|] eqn:E; [|congruence]. intros _. rewrite (osegm_segm _ _ _ _ _ _ E). reflexivity.
Qed.

Theorem gen_segment_indices_partial r : gen_segment_indices outs nxt mask max_len = Some r -> r = segment_indices_model.
Proof.
  rewrite idx_run. intros H.
  assert (Hh : forall i, (i < length outs)%nat -> idx_h i <> None) by (intros i Hi; eapply aloop_some; [exact H|apply in_seq; lia]).
  rewrite aloop_total in H by (intros i Hi; apply Hh; apply in_seq in Hi; lia). cbn [app] in H. injection H as <-. apply idx_model. exact Hh.
Qed.

Definition walks_end_m : Prop := forall o, In o outs -> (o < n)%nat -> (length (fst (fst (segm n o))) < n)%nat.

Theorem gen_segment_indices_eq : walks_end_m -> gen_segment_indices outs nxt mask max_len = Some segment_indices_model.
Proof.
  intros Hw. assert (Hh : forall i, (i < length outs)%nat -> idx_h i <> None).
  { intros i Hi. unfold idx_h. cbv zeta. destruct (Nat.leb_spec n (nth i outs n)) as [Ho|Ho]; [discriminate|].
    destruct (osegm n (nth i outs n)) as [[[[p c] y] b]|] eqn:E; [discriminate|]. apply osegm_none in E.
    specialize (Hw _ (nth_In _ _ Hi) Ho). lia. }
  rewrite idx_run, aloop_total by (intros i Hi; apply Hh; apply in_seq in Hi; lia). cbn [app]. f_equal. apply idx_model. exact Hh.
Qed.

(* the cells of every walk are those of the hand model (for every max_len), and on a loop-free network the fuel suffices *)
Theorem segment_indices_model_paths :
  map (fun o => if (o <? n)%nat then o :: fst (fst (segm n o)) else []) outs = segment_paths nxt outs mask true.
Proof. unfold segment_paths. apply map_ext. intros o. rewrite segm_seg. reflexivity. Qed.

Corollary gen_segment_indices_topo sq : topo nxt sq -> complete nxt sq ->
  gen_segment_indices outs nxt mask max_len = Some segment_indices_model.
Proof.
  intros Ht Hc. apply gen_segment_indices_eq. intros o _ Ho. rewrite segm_seg.
  destruct (seg_short nxt isout maskok true sq Ht Hc o) as [H|H]; [exact H|]. rewrite H. cbn [length]. lia.
Qed.
End Indices.

(* satisfiable and not vacuous: 6 cells, 5 -> 4 -> 3 -> 2 -> 1 -> 0 (pit), outlet pixels 5 and 2 and a missing one;
   with max_len = 3 the segment 5-4-3-2 of four cells is kept whole (4 / 3 <= 1.5), with max_len = 2 it is divided in two (and 2-1-0, 3 / 2 <= 1.5, is kept whole) *)
Example segment_indices_example :
  topo [0;0;1;2;3;4]%nat [0;1;2;3;4;5]%nat /\ complete [0;0;1;2;3;4]%nat [0;1;2;3;4;5]%nat /\
  gen_segment_indices [5;6;2]%nat [0;0;1;2;3;4]%nat None 0 = Some [[5;4;3;2]; [2;1;0]; [0;0]]%nat /\
  segment_indices_model [0;0;1;2;3;4]%nat [5;6;2]%nat None 0 = [[5;4;3;2]; [2;1;0]; [0;0]]%nat /\
  gen_segment_indices [5;6;2]%nat [0;0;1;2;3;4]%nat None 3 = Some (segment_indices_model [0;0;1;2;3;4]%nat [5;6;2]%nat None 3) /\
  segment_indices_model [0;0;1;2;3;4]%nat [5;6;2]%nat None 3 = [[5;4;3;2]; [2;1;0]; [0;0]]%nat /\
  gen_segment_indices [5;6;2]%nat [0;0;1;2;3;4]%nat None 2 = Some (segment_indices_model [0;0;1;2;3;4]%nat [5;6;2]%nat None 2) /\
  segment_indices_model [0;0;1;2;3;4]%nat [5;6;2]%nat None 2 = [[5;4;3]; [3;2]; [2;1;0]; [0;0]]%nat.
Proof.
  split; [apply check_topo_sound; vm_compute; reflexivity|].
  split; [apply check_complete_sound; vm_compute; reflexivity|]. vm_compute. repeat split; reflexivity.
Qed.

Print Assumptions gen_segment_indices_partial.
Print Assumptions gen_segment_indices_eq.
Print Assumptions segment_indices_model_paths.
Print Assumptions gen_segment_indices_topo.
