(* subgrid.ucat_volume, REGENERATED from the Python source (generated/GenSeg.v: a 2-D array fldpln_vol with one row per
   depth, columns set / incremented by setcol / addcol), equals the hand-written model Ucat.ucat_volume, which runs the
   ucat_area fold once per depth on the per-depth cell volumes  area[i] * max 0 (dpt - hand[i]).

   No while loop: the result is a plain equality.  One hypothesis is needed, and only because of how the MODEL builds
   the per-depth volumes: it maps over  combine hand area , which is truncated to the shorter of the two lists and
   then read with default 0, whereas the generated text reads  nth i area 0 * Z.max 0 (dpt - nth i hand 0) .  The two
   agree at index i unless  length hand <= i < length area  and area[i] <> 0 (then hand[i] is read as 0 by the
   generated text and the volume area[i] * max 0 dpt is counted, while the model counts 0).  So the hypothesis is
       forall i, length hand <= i -> nth i area 0 = 0          (area vanishes where hand is not defined)
   of which  length area <= length hand  (in particular length hand = length area) is the natural special case.
   (length hand > length area is harmless: the generated text multiplies by nth i area 0 = 0 there.)
   Counterexample without it: see ucat_volume_needs_len at the end (hand = [], area = [5], one outlet, depth 1). *)
From Coq Require Import List Arith ZArith Bool Lia.
Import ListNotations.
From PF Require Import Arr Net Ucat AccuSpec GenUcatEq.
From PFG Require Import GenLoops GenSeg.
Local Open Scope Z_scope.

(* the per-depth cell volumes of the model *)
Definition vol_d (hand area : list Z) (dpt : Z) : list Z :=
  map (fun p => snd p * Z.max 0 (dpt - fst p)) (combine hand area).

Lemma nth_vol_d hand area dpt i :
  (forall j, (length hand <= j)%nat -> nth j area 0 = 0) ->
  nth i (vol_d hand area dpt) 0 = nth i area 0 * Z.max 0 (dpt - nth i hand 0).
Proof.
  unfold vol_d. revert area i. induction hand as [|h hand IH]; intros area i H.
  - cbn [combine map]. rewrite (H i) by (simpl; lia). destruct i; reflexivity.
  - destruct area as [|a area].
    + cbn [combine map]. destruct i; reflexivity.
    + destruct i as [|i]; [reflexivity|]. cbn [combine map nth]. apply IH.
      intros j Hj. apply (H (S j)). simpl. lia.
Qed.

Lemma combine_map_same {A B C} (f : A -> B) (g : A -> C) l :
  combine (map f l) (map g l) = map (fun x => (f x, g x)) l.
Proof. induction l as [|x l IH]; cbn [map combine]; [reflexivity|]. f_equal. exact IH. Qed.

Lemma setcol_map (A : Z -> list Z) (g : Z -> Z) depths j :
  setcol (map A depths) j (map g depths) = map (fun d => upd (A d) j (g d)) depths.
Proof. unfold setcol. rewrite combine_map_same, map_map. reflexivity. Qed.

Lemma addcol_map (A : Z -> list Z) (g : Z -> Z) depths j :
  addcol (map A depths) j (map g depths) = map (fun d => upd (A d) j (nth j (A d) 0 + g d)) depths.
Proof. unfold addcol. rewrite combine_map_same, map_map. reflexivity. Qed.

(* A fold over a matrix state (one row per depth) against the family of per-depth folds of a step that is
   parametrised by an area vector and whose map component does not depend on it. *)
Section Rows.
Variable depths : list Z.
Variable ar : Z -> list Z.
Variable gstep : list Z * list (list Z) -> nat -> list Z * list (list Z).
Variable mstep : list Z -> list Z * list Z -> nat -> list Z * list Z.
Hypothesis Hfst : forall ar1 ar2 m a1 a2 i, fst (mstep ar1 (m, a1) i) = fst (mstep ar2 (m, a2) i).
Hypothesis Hstep : forall m (A : Z -> list Z) i,
  gstep (m, map A depths) i = (fst (mstep [] (m, []) i), map (fun d => snd (mstep (ar d) (m, A d) i)) depths).

Lemma fst_fold l : forall ar1 ar2 m a1 a2,
  fst (fold_left (mstep ar1) l (m, a1)) = fst (fold_left (mstep ar2) l (m, a2)).
Proof.
  induction l as [|i l IH]; intros ar1 ar2 m a1 a2; cbn [fold_left]; [reflexivity|].
  pose proof (Hfst ar1 ar2 m a1 a2 i) as H.
  destruct (mstep ar1 (m, a1) i) as [m1 b1], (mstep ar2 (m, a2) i) as [m2 b2]. cbn [fst] in H. subst m2.
  apply IH.
Qed.

Lemma fold_rows l : forall m (A : Z -> list Z),
  fold_left gstep l (m, map A depths) =
  (fst (fold_left (mstep []) l (m, [])), map (fun d => snd (fold_left (mstep (ar d)) l (m, A d))) depths).
Proof.
  induction l as [|i l IH]; intros m A; cbn [fold_left].
  - cbn [fst snd]. f_equal.
  - rewrite Hstep, IH. f_equal.
    + destruct (mstep [] (m, []) i) as [m1 b1]. cbn [fst]. apply fst_fold.
    + apply map_ext. intros d. f_equal. f_equal.
      pose proof (Hfst (ar d) [] m (A d) [] i) as H.
      destruct (mstep (ar d) (m, A d) i) as [m1 b1]. cbn [fst snd] in *. subst m1. reflexivity.
Qed.
End Rows.

Section Vol.
Variable outs ds sq : list nat.
Variable hand area depths : list Z.
Hypothesis Hlen : forall j, (length hand <= j)%nat -> nth j area 0 = 0.

Lemma fst_step1 ar1 ar2 m a1 a2 i :
  fst (gen_ucat_area_step1 outs ds sq ar1 (m, a1) i) = fst (gen_ucat_area_step1 outs ds sq ar2 (m, a2) i).
Proof. unfold gen_ucat_area_step1. destruct (negb _); reflexivity. Qed.

Lemma fst_step2 ar1 ar2 m a1 a2 i :
  fst (gen_ucat_area_step2 outs ds sq ar1 (m, a1) i) = fst (gen_ucat_area_step2 outs ds sq ar2 (m, a2) i).
Proof. unfold gen_ucat_area_step2. destruct (_ && _); reflexivity. Qed.

Lemma vol_step1 m (A : Z -> list Z) i :
  gen_ucat_volume_loop1_step outs ds sq hand area depths (m, map A depths) i =
  (fst (gen_ucat_area_step1 outs ds sq [] (m, []) i),
   map (fun d => snd (gen_ucat_area_step1 outs ds sq (vol_d hand area d) (m, A d) i)) depths).
Proof.
  unfold gen_ucat_volume_loop1_step, gen_ucat_area_step1. cbv zeta.
  destruct (negb _); cbn [fst snd]; [|reflexivity].
  f_equal. rewrite !map_map, setcol_map. apply map_ext. intros d.
  rewrite nth_vol_d by exact Hlen. reflexivity.
Qed.

Lemma vol_step2 m (A : Z -> list Z) i :
  gen_ucat_volume_loop2_step outs ds sq hand area depths (m, map A depths) i =
  (fst (gen_ucat_area_step2 outs ds sq [] (m, []) i),
   map (fun d => snd (gen_ucat_area_step2 outs ds sq (vol_d hand area d) (m, A d) i)) depths).
Proof.
  unfold gen_ucat_volume_loop2_step, gen_ucat_area_step2. cbv zeta.
  destruct (_ && _); cbn [fst snd]; [|reflexivity].
  f_equal. rewrite !map_map, addcol_map. apply map_ext. intros d.
  rewrite nth_vol_d by exact Hlen. reflexivity.
Qed.

(* the generated volume is the generated area run once per depth *)
Lemma gen_ucat_volume_as_area :
  gen_ucat_volume outs ds sq hand area depths =
  (fst (gen_ucat_area outs ds sq area),
   map (fun d => snd (gen_ucat_area outs ds sq (vol_d hand area d))) depths).
Proof.
  unfold gen_ucat_volume, gen_ucat_area. cbv zeta.
  replace (repeat (repeat (-9999) (length outs)) (length depths))
    with (map (fun _ : Z => repeat (-9999) (length outs)) depths)
    by (clear; induction depths as [|d l IH]; cbn [map length repeat]; [reflexivity|f_equal; exact IH]).
  rewrite (fold_rows depths (vol_d hand area) _ (gen_ucat_area_step1 outs ds sq) fst_step1 vol_step1).
  rewrite (fold_rows depths (vol_d hand area) _ (gen_ucat_area_step2 outs ds sq) fst_step2 vol_step2).
  f_equal.
  - set (s0 := (repeat 0 (length ds), repeat (-9999) (length outs))).
    pose proof (fst_fold (gen_ucat_area_step1 outs ds sq) fst_step1 (seq 0 (length outs)) [] area
                  (repeat 0 (length ds)) [] (repeat (-9999) (length outs))) as H1.
    fold s0 in H1.
    destruct (fold_left (gen_ucat_area_step1 outs ds sq []) (seq 0 (length outs)) (repeat 0 (length ds), []))
      as [m1 b1].
    destruct (fold_left (gen_ucat_area_step1 outs ds sq area) (seq 0 (length outs)) s0) as [m2 b2].
    cbn [fst] in *. subst m2.
    apply (fst_fold (gen_ucat_area_step2 outs ds sq) fst_step2).
  - apply map_ext. intros d. f_equal. f_equal.
    pose proof (fst_fold (gen_ucat_area_step1 outs ds sq) fst_step1 (seq 0 (length outs)) (vol_d hand area d) []
                  (repeat 0 (length ds)) (repeat (-9999) (length outs)) []) as H1.
    destruct (fold_left (gen_ucat_area_step1 outs ds sq (vol_d hand area d)) (seq 0 (length outs))
                (repeat 0 (length ds), repeat (-9999) (length outs))) as [m1 b1].
    destruct (fold_left (gen_ucat_area_step1 outs ds sq []) (seq 0 (length outs)) (repeat 0 (length ds), []))
      as [m2 b2].
    cbn [fst snd] in *. subst m2. reflexivity.
Qed.
End Vol.

(* MAIN THEOREM (general form): area vanishes wherever hand is not defined *)
Theorem gen_ucat_volume_eq_gen outs ds sq hand area depths :
  (forall j, (length hand <= j)%nat -> nth j area 0 = 0) ->
  gen_ucat_volume outs ds sq hand area depths = ucat_volume ds outs sq hand area depths.
Proof.
  intros H. rewrite gen_ucat_volume_as_area by exact H. unfold ucat_volume.
  rewrite gen_ucat_area_eq. f_equal. apply map_ext. intros d. rewrite gen_ucat_area_eq. reflexivity.
Qed.

(* MAIN THEOREM (array-length form) *)
Theorem gen_ucat_volume_eq outs ds sq hand area depths :
  (length area <= length hand)%nat ->
  gen_ucat_volume outs ds sq hand area depths = ucat_volume ds outs sq hand area depths.
Proof.
  intros H. apply gen_ucat_volume_eq_gen. intros j Hj. apply nth_overflow. lia.
Qed.

(* the map component needs no hypothesis at all (it does not read hand / area); in particular for depths = [] *)
Theorem gen_ucat_volume_map_eq outs ds sq hand area depths :
  fst (gen_ucat_volume outs ds sq hand area depths) = fst (ucat_volume ds outs sq hand area depths).
Proof.
  unfold ucat_volume. cbn [fst]. rewrite <- gen_ucat_area_eq.
  unfold gen_ucat_volume, gen_ucat_area. cbv zeta.
  (* both map components are folds of steps whose map part ignores the second component *)
  set (g1 := gen_ucat_volume_loop1_step outs ds sq hand area depths).
  set (g2 := gen_ucat_volume_loop2_step outs ds sq hand area depths).
  set (h1 := gen_ucat_area_step1 outs ds sq area). set (h2 := gen_ucat_area_step2 outs ds sq area).
  assert (F : forall (g : list Z * list (list Z) -> nat -> list Z * list (list Z))
                     (h : list Z * list Z -> nat -> list Z * list Z),
             (forall m r a i, fst (g (m, r) i) = fst (h (m, a) i)) ->
             forall l m r a, fst (fold_left g l (m, r)) = fst (fold_left h l (m, a))).
  { intros g h Hgh l. induction l as [|i l IH]; intros m r a; cbn [fold_left]; [reflexivity|].
    pose proof (Hgh m r a i) as E. destruct (g (m, r) i) as [m1 r1], (h (m, a) i) as [m2 a2].
    cbn [fst] in E. subst m2. apply IH. }
  assert (E1 : forall m r a i, fst (g1 (m, r) i) = fst (h1 (m, a) i)).
  { intros m r a i. unfold g1, h1, gen_ucat_volume_loop1_step, gen_ucat_area_step1. cbv zeta.
    destruct (negb _); reflexivity. }
  assert (E2 : forall m r a i, fst (g2 (m, r) i) = fst (h2 (m, a) i)).
  { intros m r a i. unfold g2, h2, gen_ucat_volume_loop2_step, gen_ucat_area_step2. cbv zeta.
    destruct (_ && _); reflexivity. }
  pose proof (F g1 h1 E1 (seq 0 (length outs)) (repeat 0 (length ds))
                (repeat (repeat (-9999) (length outs)) (length depths)) (repeat (-9999) (length outs))) as H1.
  destruct (fold_left g1 _ _) as [m1 r1]. destruct (fold_left h1 _ _) as [m2 a2]. cbn [fst] in H1. subst m2.
  pose proof (F g2 h2 E2 sq m1 r1 a2) as H2.
  destruct (fold_left g2 _ _) as [m3 r3]. exact H2.
Qed.

(* The hypotheses are satisfiable and both sides compute to the same non-trivial value:
   a 6-cell network  0 <- 1 <- 2 <- 3, 1 <- 4, 5 (pit), outlets at cells 0 and 2 (and one missing outlet 6 = mv),
   sq in downstream-to-upstream order, three depths. *)
Example ucat_volume_ex :
  let outs := [0; 2; 6]%nat in let ds := [0; 0; 1; 2; 1; 5]%nat in let sq := [0; 5; 1; 2; 4; 3]%nat in
  let hand := [0; 1; 0; 2; 3; 0] in let area := [10; 20; 30; 40; 50; 60] in let depths := [1; 2; 4] in
  (length area <= length hand)%nat /\
  gen_ucat_volume outs ds sq hand area depths = ucat_volume ds outs sq hand area depths /\
  gen_ucat_volume outs ds sq hand area depths =
    ([1; 1; 2; 2; 1; 0], [[10; 30; -9999]; [40; 60; -9999]; [150; 200; -9999]]).
Proof. vm_compute. repeat split. lia. Qed.

(* The length hypothesis cannot be dropped: hand shorter than area. *)
Example ucat_volume_needs_len :
  gen_ucat_volume [0%nat] [0%nat] [0%nat] [] [5] [1] = ([1], [[5]]) /\
  ucat_volume [0%nat] [0%nat] [0%nat] [] [5] [1] = ([1], [[0]]).
Proof. vm_compute. split; reflexivity. Qed.

Print Assumptions gen_ucat_volume_eq_gen.
Print Assumptions gen_ucat_volume_eq.
Print Assumptions gen_ucat_volume_map_eq.
