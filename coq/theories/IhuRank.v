(* The invariant that makes the `assert idx != idx1` of ihu_optimize_rivlen (opt_one, error flag 2) unreachable:
   the links between cells that upscale_check flagged valid decrease a rank, hence such cells form no cycle. *)
From Coq Require Import List Arith Bool.
Import ListNotations.

Definition Flag (valid : list bool) (i : nat) : Prop := nth i valid true = true.
Definition RankInv (nc : nat) (valid : list bool) (cds : list nat) : Prop :=
  exists r : nat -> nat, forall i, Flag valid i -> nth i cds nc < nc -> nth i cds nc <> i -> Flag valid (nth i cds nc) ->
    r (nth i cds nc) < r i.
