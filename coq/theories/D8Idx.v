(* Model and specification of core._d8_idx / core._upstream_d8_idx (the 8-neighbour helper of the iterative upscaling). *)
From Coq Require Import List Arith ZArith Bool Lia.
Import ListNotations.
From PF Require Import Arr Net Elev Upscale.

Definition offsets8 : list (Z * Z) :=
  [(-1, -1); (-1, 0); (-1, 1); (0, -1); (0, 1); (1, -1); (1, 0); (1, 1)]%Z.
(* for dr in -1..1: for dc in -1..1: skip (0,0); keep the neighbours inside the raster *)
Definition d8_idx (idx0 nrow ncol : nat) : list nat :=
  let r := Z.of_nat (idx0 / ncol) in let c := Z.of_nat (idx0 mod ncol) in
  flat_map (fun o : Z * Z => let r1 := (r + fst o)%Z in let c1 := (c + snd o)%Z in
     if ((0 <=? r1) && (r1 <? Z.of_nat nrow) && (0 <=? c1) && (c1 <? Z.of_nat ncol))%Z
     then [Z.to_nat (r1 * Z.of_nat ncol + c1)] else []) offsets8.
Definition upstream_d8_idx (ds : list nat) (idx0 nrow ncol : nat) : list nat :=
  filter (fun i => (dsf ds i =? idx0)%nat) (d8_idx idx0 nrow ncol).
