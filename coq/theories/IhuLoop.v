(* C09 / ihu: THE COARSE NETWORK RETURNED BY up_ihu IS NOT ALWAYS LOOP-FREE -- a finding about the library.
   For the three non-iterative methods a potential (the upstream area of the outlet pixel) increases along every coarse link
   (UpscaleLoopfree.v).  The iterative method loses it (random search, search/driver2.ml: 264 cycles among 82.5 million
   legal random inputs, unit and random cell areas, cell sizes 2..5; by the stage after which the cycle is first present,
   search/driver5.ml on the shrunk inputs: 236 ihu_optimize_rivlen, 27 ihu_minimize_error, 1 ihu_relocate_outlets of the
   second iteration).  The two main mechanisms:
   (a) ihu_optimize_rivlen (first witness, lw_sds etc.): the outlet pixel of a flagged cell idx0 with a short link is moved by
       new_outlet to another stream, which links idx0 to a new neighbour b.  Flagged upstream cells are relinked to the old
       downstream cell; an UNFLAGGED upstream cell u (one with an upscale error) keeps its link u -> idx0, and the only
       test is `idxs_ds[idx0] == u` (a cycle of length 2, undone).  A longer cycle idx0 -> b -> ... -> u -> idx0 is not
       seen.  The rank of IhuRank.RankInv / IhuAssert.v survives, because it speaks of links between flagged cells only:
       every such cycle passes through an unflagged cell.  ihu_minimize_error then visits u, but need not repair it (in
       the witness the only candidate link 0 -> 4 is rejected by its test for crossing links).
   (b) ihu_minimize_error (second witness, mw_sds etc.): a cell idx0 with an upscale error is relinked to a neighbour idx1 from
       which the COARSE links lead, without passing through idx0, to a cell of idxs (the cells whose outlet pixels lie
       downstream of the outlet pixel of idx0 on the fine grid).  The walk stops at that cell; nothing is known about
       the coarse links BEYOND it, and they may lead back to idx0.

   First witness (minimised by search/driver4.ml): 5 x 9 pixels, cell size 4, hence 2 x 3 coarse cells; 21 valid pixels, one pit, a single meandering
   river; the upstream area is the number of upstream pixels (unit cell areas).  `.` = nodata, `o` = pit:

        col   0  1  2  3  4  5  6  7  8           cells   0 0 0 0 | 1 1 1 1 | 2
        row 0 .  .  .  .  .  .  .  .  .                   0 0 0 0 | 1 1 1 1 | 2
        row 1 .  .  E  SE .  .  .  .  .                   ...
        row 2 .  NE .  SW E  SE .  S  W                   --------+---------+--
        row 3 NE .  SW .  NW .  SE SW N                   3 3 3 3 | 4 4 4 4 | 5
        row 4 .  NW E  NE N  NW o  NE .

   eam_plus (the first stage) returns the links [1; 4; 1; 0; 4; 6] (loop-free); up_ihu returns [1; 3; 4; 0; 4; 6]:
   the cycle 0 -> 1 -> 3 -> 0.  pyflwdir itself (upscale.ihu with the default options, JIT disabled; the committed state
   0dcb6da of the project's copy, search/cyc/pycheck.py) returns the same arrays on both witnesses, and FlwdirRaster.upscale(4, method="ihu") raises
   "The upscaled flow direction network is invalid. Please provide a minimal reproducible example." *)
From Coq Require Import List Arith ZArith Bool Lia.
Import ListNotations.
From PF Require Import Arr Net Elev Upscale UpscaleSpec UpscaleD8 UpscaleNoErr D8Idx Ihu IhuD8 IhuValid.

(* ---------- the hypotheses on the upstream area, as boolean checks ---------- *)
(* strictly larger at the downstream pixel *)
Definition check_upa_inc (sds : list nat) (upa : list Z) : bool :=
  forallb (fun t => (length sds <=? Upscale.sd sds t) || (Upscale.sd sds t =? t) ||
                    (nth t upa 0 <? nth (Upscale.sd sds t) upa 0)%Z) (seq 0 (length sds)).
Lemma check_upa_inc_sound sds upa : check_upa_inc sds upa = true ->
  forall t, t < length sds -> Upscale.sd sds t < length sds -> Upscale.sd sds t <> t ->
    (nth t upa 0 < nth (Upscale.sd sds t) upa 0)%Z.
Proof.
  unfold check_upa_inc. intros H t H1 H2 H3. rewrite forallb_forall in H. specialize (H t ltac:(apply in_seq; lia)).
  apply orb_true_iff in H. destruct H as [H|H]; [|apply Z.ltb_lt; exact H].
  apply orb_true_iff in H. destruct H as [H|H]; [apply Nat.leb_le in H; lia|apply Nat.eqb_eq in H; contradiction].
Qed.

(* the accumulation of unit cell areas: 1 + the upstream areas of the pixels that drain into t *)
Definition acc1 (sds : list nat) (upa : list Z) (t : nat) : Z :=
  let us := filter (fun u => negb (u =? t) && (Upscale.sd sds u =? t)) (seq 0 (length sds)) in
  (1 + fold_right Z.add 0 (map (fun u => nth u upa 0) us))%Z.
Definition check_acc1 (sds : list nat) (upa : list Z) : bool :=
  forallb (fun t => (length sds <=? Upscale.sd sds t) || (nth t upa 0 =? acc1 sds upa t)%Z) (seq 0 (length sds)).
Lemma check_acc1_sound sds upa : check_acc1 sds upa = true ->
  forall t, t < length sds -> Upscale.sd sds t < length sds -> nth t upa 0%Z = acc1 sds upa t.
Proof.
  unfold check_acc1. intros H t H1 H2. rewrite forallb_forall in H. specialize (H t ltac:(apply in_seq; lia)).
  apply orb_true_iff in H. destruct H as [H|H]; [apply Nat.leb_le in H; lia|apply Z.eqb_eq; exact H].
Qed.

(* ---------- loop-freeness of a coarse network ---------- *)
(* a rank that decreases along every link that is neither missing nor a pit (the statement of UpscaleLoopfree.v / the
   invariant IhuRank.RankInv without the restriction to flagged cells) *)
Definition loopfree (cds : list nat) (nc : nat) : Prop :=
  exists r : nat -> nat, forall i, nth i cds nc < nc -> nth i cds nc <> i -> r (nth i cds nc) < r i.
(* a cycle of length k >= 2 through the cell i *)
Fixpoint iter_ds (cds : list nat) (nc k i : nat) : nat :=
  match k with O => i | S k' => iter_ds cds nc k' (nth i cds nc) end.
Definition on_cycle (cds : list nat) (nc k i : nat) : Prop :=
  2 <= k /\ i < nc /\ iter_ds cds nc k i = i /\
  forall j, j < k -> iter_ds cds nc j i < nc /\ nth (iter_ds cds nc j i) cds nc <> iter_ds cds nc j i.

Lemma iter_ds_rank cds nc r :
  (forall i, nth i cds nc < nc -> nth i cds nc <> i -> r (nth i cds nc) < r i) ->
  forall k i, (forall j, j < k -> nth (iter_ds cds nc j i) cds nc < nc /\ nth (iter_ds cds nc j i) cds nc <> iter_ds cds nc j i) ->
    r (iter_ds cds nc k i) + k <= r i.
Proof.
  intros Hr. induction k as [|k IH]; intros i H; cbn [iter_ds]; [lia|].
  destruct (H 0 ltac:(lia)) as [A B]. cbn [iter_ds] in A, B. pose proof (Hr i A B) as R.
  specialize (IH (nth i cds nc)). 
  assert (H' : forall j, j < k -> nth (iter_ds cds nc j (nth i cds nc)) cds nc < nc /\
                 nth (iter_ds cds nc j (nth i cds nc)) cds nc <> iter_ds cds nc j (nth i cds nc)).
  { intros j Hj. apply (H (S j)). lia. }
  specialize (IH H'). lia.
Qed.

Lemma iter_ds_S cds nc k i : iter_ds cds nc (S k) i = nth (iter_ds cds nc k i) cds nc.
Proof. revert i. induction k as [|k IH]; intros i; [reflexivity|]. cbn [iter_ds] in *. rewrite IH. reflexivity. Qed.

(* a network with a cycle has no rank *)
Theorem cycle_not_loopfree cds nc k i : on_cycle cds nc k i -> ~ loopfree cds nc.
Proof.
  intros (Hk & Hi & Hc & Hj) [r Hr].
  assert (H : forall j, j < k -> nth (iter_ds cds nc j i) cds nc < nc /\ nth (iter_ds cds nc j i) cds nc <> iter_ds cds nc j i).
  { intros j Hjk. split; [|apply Hj; exact Hjk]. rewrite <- iter_ds_S.
    destruct (Nat.eq_dec (S j) k) as [E|N]; [rewrite E, Hc; exact Hi|]. apply Hj. lia. }
  pose proof (iter_ds_rank cds nc r Hr k i H) as R. rewrite Hc in R. lia.
Qed.

(* ---------- the witness ---------- *)
Definition lw_sds : list nat :=
  [45; 45; 45; 45; 45; 45; 45; 45; 45;
   45; 45; 12; 22; 45; 45; 45; 45; 45;
   45; 11; 45; 29; 23; 33; 45; 34; 25;
   19; 45; 37; 45; 21; 45; 43; 42; 26;
   45; 27; 39; 31; 31; 31; 42; 35; 45].
Definition lw_upa : list Z :=
  [-9999; -9999; -9999; -9999; -9999; -9999; -9999; -9999; -9999;
   -9999; -9999; 11; 12; -9999; -9999; -9999; -9999; -9999;
   -9999; 10; -9999; 6; 13; 14; -9999; 19; 18;
   9; -9999; 7; -9999; 5; -9999; 15; 20; 17;
   -9999; 8; 1; 2; 1; 1; 21; 16; -9999]%Z.
(* the effective-area map of the implementation (map_effare, r_ratio = 0.5) for 5 x 9 pixels and cell size 4 *)
Definition lw_ea : list bool :=
  [false; true; true; false; false; true; true; false; false;
   true; true; true; true; true; true; true; true; true;
   true; true; true; true; true; true; true; true; true;
   false; true; true; false; false; true; true; false; false;
   false; true; true; false; false; true; true; false; false].
(* the valid pixels, downstream first *)
Definition lw_sq : list nat := [42; 34; 25; 26; 35; 43; 33; 23; 22; 12; 11; 19; 27; 37; 29; 21; 31; 39; 38; 40; 41].

Definition lw_cds : list nat := [1; 3; 4; 0; 4; 6].
Definition lw_out : list nat := [12; 31; 26; 37; 42; 45].

Lemma lw_run : up_ihu lw_sds lw_upa 5 9 4 lw_ea = (lw_cds, lw_out, (2, 3)).
Proof. vm_compute. reflexivity. Qed.
(* the first stage is loop-free on this input (UpscaleLoopfree.eam_plus_loopfree); its links, for comparison *)
Lemma lw_run_eam_plus : up_eam_plus lw_sds lw_upa 5 9 4 lw_ea = ([1; 4; 1; 0; 4; 6], [12; 34; 26; 37; 42; 45], (2, 3)).
Proof. vm_compute. reflexivity. Qed.

Lemma lw_cycle : on_cycle lw_cds 6 3 0.
Proof.
  split; [lia|]. split; [lia|]. split; [reflexivity|].
  intros j Hj. destruct j as [|[|[|j]]]; [| | |lia]; cbn; split; lia.
Qed.

(* where the cycle appears: the first stage and ihu_relocate_outlets leave the loop-free links [1; 4; 1; 0; 4; 6];
   upscale_check flags every cell but 0 (its outlet pixel drains to the outlet pixel of cell 2, not of cell 1) and finds
   the links of the cells 1 and 4 short; ihu_optimize_rivlen moves the outlet pixel of cell 1 from 34 to 31, links 1 -> 3
   and relinks the flagged upstream cell 2 to 4: with the untouched links 3 -> 0 and 0 -> 1 (cell 0 is unflagged) this is the
   cycle.  ihu_minimize_error (called for cell 0, last iteration) changes nothing. *)
Lemma lw_stages :
  let out0 := ihu_outlets lw_sds 9 4 2 3 (repcell lw_sds lw_upa 9 4 2 3 (eaf lw_ea)) in
  let cds0 := ihu_nextidx lw_sds 9 4 2 3 lw_ea out0 in
  let fix0 := ihu_fix lw_sds 9 4 2 3 out0 in
  let a1 := relocate lw_sds lw_upa 9 4 2 3 fix0 (mkA cds0 out0 [] 0) in
  let c := upscale_check lw_sds 4 2 3 (a_out a1) (a_cds a1) in
  let a3 := optimize_rivlen lw_sds lw_upa 9 4 2 3 (c_valid c) (c_short c) (mkA (a_cds a1) (a_out a1) (c_st c) 0) in
  let a4 := minimize_error lw_sds lw_upa 9 4 2 3 (c_fix c) 2 a3 in
  (cds0, out0, fix0) = ([1; 4; 1; 0; 4; 6], [12; 34; 26; 37; 42; 45], [0]) /\
  (a_cds a1, a_out a1) = (cds0, out0) /\
  (c_valid c, c_fix c, c_short c) = ([false; true; true; true; true; true], [0], [1; 4]) /\
  (a_cds a3, a_out a3) = ([1; 3; 4; 0; 4; 6], [12; 31; 26; 37; 42; 45]) /\
  (a_cds a4, a_out a4) = (a_cds a3, a_out a3).
Proof. vm_compute. repeat split. Qed.

(* TARGET: a legal input -- every hypothesis of IhuNoMarker.up_ihu_no_marker, an upstream area that is positive, strictly
   larger at the downstream pixel and equal to the number of upstream pixels -- on which the coarse network returned by
   up_ihu has a cycle (0 -> 1 -> 3 -> 0), hence no rank. *)
Theorem up_ihu_loop_refuted :
  exists sds sq upa subnrow subncol cs ea,
    0 < cs /\ 0 < subncol /\ length sds = subnrow * subncol /\
    topo sds sq /\ complete sds sq /\
    (forall t, t < length sds -> Upscale.sd sds t < length sds -> in_d8 t (Upscale.sd sds t) subncol = true) /\
    check_cross sds ea subncol cs = true /\
    (forall t, t < length sds -> Upscale.sd sds t < length sds -> (0 < nth t upa 0)%Z) /\
    (forall t, t < length sds -> Upscale.sd sds t < length sds -> Upscale.sd sds t <> t ->
       (nth t upa 0 < nth (Upscale.sd sds t) upa 0)%Z) /\
    (forall t, t < length sds -> Upscale.sd sds t < length sds -> nth t upa 0%Z = acc1 sds upa t) /\
    let '(cds, out, (nrow, ncol)) := up_ihu sds upa subnrow subncol cs ea in
    no_marker cds (nrow * ncol) /\ length cds = nrow * ncol /\
    (exists k i, on_cycle cds (nrow * ncol) k i) /\
    ~ loopfree cds (nrow * ncol).
Proof.
  exists lw_sds, lw_sq, lw_upa, 5, 9, 4, lw_ea.
  split; [lia|]. split; [lia|]. split; [reflexivity|].
  split; [apply check_topo_sound; vm_compute; reflexivity|].
  split; [apply check_complete_sound; vm_compute; reflexivity|].
  split; [apply check_d8_sound; vm_compute; reflexivity|].
  split; [vm_compute; reflexivity|].
  split; [apply check_upa_sound; vm_compute; reflexivity|].
  split; [apply check_upa_inc_sound; vm_compute; reflexivity|].
  split; [apply check_acc1_sound; vm_compute; reflexivity|].
  rewrite lw_run.
  split; [intros x Hx; unfold lw_cds in Hx; cbn [In] in Hx; cbn; lia|].
  split; [reflexivity|].
  split; [exists 3, 0; exact lw_cycle|].
  apply (cycle_not_loopfree lw_cds (2 * 3) 3 0). exact lw_cycle.
Qed.

(* the same input in the form of IhuNoMarker.up_ihu_no_marker_checked: all hypotheses as boolean checks *)
Theorem up_ihu_loop_refuted_checked :
  check_topo lw_sds lw_sq = true /\ check_complete lw_sds lw_sq = true /\ check_d8 lw_sds 9 = true /\
  check_cross lw_sds lw_ea 9 4 = true /\ check_upa lw_sds lw_upa = true /\ check_upa_inc lw_sds lw_upa = true /\
  check_acc1 lw_sds lw_upa = true /\
  up_ihu lw_sds lw_upa 5 9 4 lw_ea = ([1; 3; 4; 0; 4; 6], [12; 31; 26; 37; 42; 45], (2, 3)) /\
  nth 0 [1; 3; 4; 0; 4; 6] 6 = 1 /\ nth 1 [1; 3; 4; 0; 4; 6] 6 = 3 /\ nth 3 [1; 3; 4; 0; 4; 6] 6 = 0.
Proof. repeat split; vm_compute; reflexivity. Qed.

(* ---------- second witness: the cycle is made by ihu_minimize_error ---------- *)
(* 5 x 10 pixels, cell size 3, 2 x 4 coarse cells; 20 valid pixels, one river, unit cell areas:

        col   0  1  2  3  4  5  6  7  8  9
        row 0 .  .  .  o  .  .  .  .  SW .
        row 1 .  .  NE .  SW W  W  W  E  NW
        row 2 .  .  N  SW SE .  .  NE .  .
        row 3 .  NE W  NE .  E  NE .  .  .
        row 4 .  .  NE W  .  .  .  .  .  .

   The first stage, ihu_relocate_outlets and ihu_optimize_rivlen leave the loop-free links [1; 1; 1; 2; 0; 4; 8; 8]; the
   cells 2 and 5 have an upscale error.  ihu_minimize_error visits cell 2 first (larger upstream area): its neighbour 5
   reaches cell 4, which lies downstream of the outlet pixel of cell 2, in one coarse step: link 2 -> 5.  Then cell 5:
   its neighbour 2 has its outlet pixel downstream of the outlet pixel of cell 5 (distance 0): link 5 -> 2 -- the coarse
   link of cell 2 is not looked at.  Result [1; 1; 5; 2; 0; 2; 8; 8]: the cycle 2 <-> 5 (pyflwdir returns the same). *)
Definition mw_sds : list nat :=
  [50; 50; 50; 3; 50; 50; 50; 50; 17; 50;
   50; 50; 3; 50; 23; 14; 15; 16; 19; 8;
   50; 50; 12; 32; 35; 50; 50; 18; 50; 50;
   50; 22; 31; 24; 50; 36; 27; 50; 50; 50;
   50; 50; 33; 42; 50; 50; 50; 50; 50; 50].
Definition mw_upa : list Z :=
  [-9999; -9999; -9999; 20; -9999; -9999; -9999; -9999; 10; -9999;
   -9999; -9999; 19; -9999; 14; 13; 12; 11; 8; 9;
   -9999; -9999; 18; 15; 4; -9999; -9999; 7; -9999; -9999;
   -9999; 17; 16; 3; -9999; 5; 6; -9999; -9999; -9999;
   -9999; -9999; 2; 1; -9999; -9999; -9999; -9999; -9999; -9999]%Z.
Definition mw_ea : list bool :=
  [false; true; false; false; true; false; false; true; false; false;
   true; true; true; true; true; true; true; true; true; true;
   false; true; false; false; true; false; false; true; false; false;
   false; true; false; false; true; false; false; true; false; false;
   true; true; true; true; true; true; true; true; true; true].
Definition mw_sq : list nat := [3; 12; 22; 31; 32; 23; 14; 15; 16; 17; 8; 19; 18; 27; 36; 35; 24; 33; 42; 43].
Definition mw_cds : list nat := [1; 1; 5; 2; 0; 2; 8; 8].
Definition mw_out : list nat := [12; 3; 16; 19; 31; 43; 50; 50].

Lemma mw_run : up_ihu mw_sds mw_upa 5 10 3 mw_ea = (mw_cds, mw_out, (2, 4)).
Proof. vm_compute. reflexivity. Qed.

Lemma mw_cycle : on_cycle mw_cds 8 2 2.
Proof.
  split; [lia|]. split; [lia|]. split; [reflexivity|].
  intros j Hj. destruct j as [|[|j]]; [| |lia]; cbn; split; lia.
Qed.

Lemma mw_stages :
  let out0 := ihu_outlets mw_sds 10 3 2 4 (repcell mw_sds mw_upa 10 3 2 4 (eaf mw_ea)) in
  let cds0 := ihu_nextidx mw_sds 10 3 2 4 mw_ea out0 in
  let fix0 := ihu_fix mw_sds 10 3 2 4 out0 in
  let a1 := relocate mw_sds mw_upa 10 3 2 4 fix0 (mkA cds0 out0 [] 0) in
  let c := upscale_check mw_sds 3 2 4 (a_out a1) (a_cds a1) in
  let a3 := optimize_rivlen mw_sds mw_upa 10 3 2 4 (c_valid c) (c_short c) (mkA (a_cds a1) (a_out a1) (c_st c) 0) in
  let a4 := me_one mw_sds mw_upa 10 3 2 4 2 a3 2 in
  let a5 := me_one mw_sds mw_upa 10 3 2 4 2 a4 5 in
  (cds0, out0, fix0) = ([1; 1; 1; 2; 0; 4; 8; 8], mw_out, [2; 5]) /\
  (a_cds a1, a_out a1) = (cds0, out0) /\
  (c_valid c, c_fix c, c_short c) = ([true; true; false; true; true; false; true; true], [2; 5], []) /\
  (a_cds a3, a_out a3) = (cds0, out0) /\
  (a_cds a4, a_out a4) = ([1; 1; 5; 2; 0; 4; 8; 8], mw_out) /\
  (a_cds a5, a_out a5) = (mw_cds, mw_out) /\
  minimize_error mw_sds mw_upa 10 3 2 4 (c_fix c) 2 a3 = a5.
Proof. vm_compute. repeat split. Qed.

Theorem up_ihu_loop_refuted_minimize_error :
  exists sds sq upa subnrow subncol cs ea,
    0 < cs /\ 0 < subncol /\ length sds = subnrow * subncol /\
    topo sds sq /\ complete sds sq /\
    (forall t, t < length sds -> Upscale.sd sds t < length sds -> in_d8 t (Upscale.sd sds t) subncol = true) /\
    check_cross sds ea subncol cs = true /\
    (forall t, t < length sds -> Upscale.sd sds t < length sds -> (0 < nth t upa 0)%Z) /\
    (forall t, t < length sds -> Upscale.sd sds t < length sds -> Upscale.sd sds t <> t ->
       (nth t upa 0 < nth (Upscale.sd sds t) upa 0)%Z) /\
    (forall t, t < length sds -> Upscale.sd sds t < length sds -> nth t upa 0%Z = acc1 sds upa t) /\
    let '(cds, out, (nrow, ncol)) := up_ihu sds upa subnrow subncol cs ea in
    no_marker cds (nrow * ncol) /\ length cds = nrow * ncol /\
    (exists i j, i <> j /\ i < nrow * ncol /\ j < nrow * ncol /\
                 nth i cds (nrow * ncol) = j /\ nth j cds (nrow * ncol) = i) /\
    ~ loopfree cds (nrow * ncol).
Proof.
  exists mw_sds, mw_sq, mw_upa, 5, 10, 3, mw_ea.
  split; [lia|]. split; [lia|]. split; [reflexivity|].
  split; [apply check_topo_sound; vm_compute; reflexivity|].
  split; [apply check_complete_sound; vm_compute; reflexivity|].
  split; [apply check_d8_sound; vm_compute; reflexivity|].
  split; [vm_compute; reflexivity|].
  split; [apply check_upa_sound; vm_compute; reflexivity|].
  split; [apply check_upa_inc_sound; vm_compute; reflexivity|].
  split; [apply check_acc1_sound; vm_compute; reflexivity|].
  rewrite mw_run.
  split; [intros x Hx; unfold mw_cds in Hx; cbn [In] in Hx; cbn; lia|].
  split; [reflexivity|].
  split; [exists 2, 5; cbn; repeat split; lia|].
  apply (cycle_not_loopfree mw_cds (2 * 4) 2 2). exact mw_cycle.
Qed.

Print Assumptions cycle_not_loopfree.
Print Assumptions lw_run.
Print Assumptions lw_stages.
Print Assumptions up_ihu_loop_refuted.
Print Assumptions up_ihu_loop_refuted_checked.
Print Assumptions mw_stages.
Print Assumptions up_ihu_loop_refuted_minimize_error.
