(* Generic up-sweep over P = rev seq (upstream first):
     for i in P:  a[i] := fin i a[i];  if ds i <> i: a[ds i] := g i a[ds i] a[i]
   The final array satisfies the fixed-point equations over the children. *)
From Coq Require Import List Arith Lia Bool.
Import ListNotations.
From PF Require Import Arr Net.

Section Up.
Variable ds : list nat.
Notation n := (size ds).
Notation dsf := (dsf ds).
Context {A : Type} (d : A).
Variable fin : nat -> A -> A.
Variable g : nat -> A -> A -> A.     (* g i (value at ds i) (value at i): push from the upstream cell i *)

Definition ustep (a : list A) (i : nat) : list A :=
  let a1 := upd a i (fin i (nth i a d)) in
  if Nat.eqb (dsf i) i then a1 else upd a1 (dsf i) (g i (nth (dsf i) a1 d) (nth i a1 d)).
Definition sweep_up (P : list nat) (init : list A) : list A := fold_left ustep P init.

(* children of j among P, in processing order *)
Definition kids (P : list nat) (j : nat) : list nat :=
  filter (fun c => Nat.eqb (dsf c) j && negb (Nat.eqb c j)) P.

Lemma ustep_length a i : length (ustep a i) = length a.
Proof. unfold ustep. destruct (Nat.eqb (dsf i) i); rewrite ?upd_length; auto. Qed.

Lemma sweep_up_length P init : length (sweep_up P init) = length init.
Proof. unfold sweep_up. revert init; induction P as [|x s IH]; intros; simpl; auto.
  rewrite IH. apply ustep_length. Qed.

Lemma kids_cons i P j : kids (i :: P) j =
  if Nat.eqb (dsf i) j && negb (Nat.eqb i j) then i :: kids P j else kids P j.
Proof. reflexivity. Qed.

Lemma kids_nil_of P i : (forall j, In j P -> dsf j <> i) -> kids P i = [].
Proof. induction P as [|x P IH]; intros H; [reflexivity|]. rewrite kids_cons.
  destruct (Nat.eqb (dsf x) i) eqn:E.
  - apply Nat.eqb_eq in E. exfalso. apply (H x); [left; auto|auto].
  - simpl. apply IH. intros j Hj. apply H. right; auto. Qed.

Lemma kids_In P j c : In c (kids P j) <-> In c P /\ dsf c = j /\ c <> j.
Proof. unfold kids. rewrite filter_In, andb_true_iff, negb_true_iff, Nat.eqb_eq, Nat.eqb_neq. tauto. Qed.

Definition fz (P : list nat) (j : nat) : A -> A := if in_dec Nat.eq_dec j P then fin j else fun x => x.

Theorem sweep_up_char P : utopo ds P -> forall init, length init = n ->
  forall j, j < n ->
  nth j (sweep_up P init) d =
  fz P j (fold_left (fun acc c => g c acc (nth c (sweep_up P init) d)) (kids P j) (nth j init d)).
Proof.
  intros HU. induction HU as [|i P Hu IH Hv Hni Hdd]; intros init Hlen j Hj.
  - reflexivity.
  - assert (Hno : forall j, In j P -> dsf j <> i)
      by (apply (utopo_head_nokid ds i P); constructor; auto).
    change (sweep_up (i :: P) init) with (sweep_up P (ustep init i)).
    set (init' := ustep init i).
    assert (Hlen' : length init' = n) by (unfold init'; rewrite ustep_length; auto).
    rewrite (IH init' Hlen' j Hj). destruct Hv as [Hi Hdi].
    rewrite kids_cons. unfold fz.
    destruct (Nat.eq_dec j i) as [Heq|Hji]; [subst j|].
    + rewrite (kids_nil_of P i Hno). rewrite Bool.andb_comm. rewrite Nat.eqb_refl. cbn [negb andb map fold_left].
      destruct (in_dec Nat.eq_dec i P) as [Hc|Hc]; [contradiction|].
      destruct (in_dec Nat.eq_dec i (i :: P)) as [Hy|Hx]; [|exfalso; apply Hx; left; auto].
      unfold init', ustep. destruct (Nat.eqb (dsf i) i) eqn:E.
      * rewrite nth_upd_eq by lia. reflexivity.
      * apply Nat.eqb_neq in E. rewrite nth_upd_neq by auto. rewrite nth_upd_eq by lia. reflexivity.
    + assert (Hin : (if in_dec Nat.eq_dec j P then fin j else fun x : A => x) =
                    (if in_dec Nat.eq_dec j (i :: P) then fin j else fun x : A => x)).
      { destruct (in_dec Nat.eq_dec j P) as [a|a], (in_dec Nat.eq_dec j (i :: P)) as [b|b]; auto.
        - exfalso; apply b; right; auto.
        - destruct b; [congruence|contradiction]. }
      rewrite <- Hin. f_equal.
      replace (negb (Nat.eqb i j)) with true by (symmetry; apply Bool.negb_true_iff, Nat.eqb_neq; auto).
      rewrite Bool.andb_true_r.
      destruct (Nat.eqb (dsf i) j) eqn:E.
      * apply Nat.eqb_eq in E. simpl fold_left.
        assert (Hfold : forall l x y, x = y -> fold_left (fun acc c => g c acc (nth c (sweep_up P init') d)) l x = fold_left (fun acc c => g c acc (nth c (sweep_up P init') d)) l y) by (intros; subst; auto).
        apply Hfold.
        assert (Hfi : nth i (sweep_up P init') d = nth i init' d).
        { rewrite (IH init' Hlen' i Hi). unfold fz. rewrite (kids_nil_of P i Hno).
          destruct (in_dec Nat.eq_dec i P); [contradiction|reflexivity]. }
        rewrite Hfi. unfold init', ustep.
        assert (Hne : Nat.eqb (dsf i) i = false) by (apply Nat.eqb_neq; congruence).
        rewrite Hne. rewrite E.
        repeat first [rewrite nth_upd_eq by (rewrite ?upd_length; lia)
                     | rewrite (nth_upd_neq _ j i) by auto | rewrite (nth_upd_neq _ i j) by auto].
        reflexivity.
      * apply Nat.eqb_neq in E. f_equal. unfold init', ustep.
        destruct (Nat.eqb (dsf i) i); rewrite ?nth_upd_neq; auto.
Qed.

(* pointwise invariants are preserved *)
Lemma sweep_up_inv (Q : A -> Prop) : Q d -> (forall i x, Q x -> Q (fin i x)) ->
  (forall i x y, Q x -> Q y -> Q (g i x y)) ->
  forall P init, (forall j, Q (nth j init d)) -> forall j, Q (nth j (sweep_up P init) d).
Proof.
  intros Hd Hf Hg. induction P as [|i P IH]; intros init Hi j; simpl; auto.
  apply IH. clear j. intros j. unfold ustep.
  assert (H1 : forall j, Q (nth j (upd init i (fin i (nth i init d))) d)).
  { intros k. rewrite nth_upd. destruct (Nat.eqb k i && Nat.ltb i (length init)); auto. }
  destruct (Nat.eqb (dsf i) i); auto.
  rewrite nth_upd. destruct (Nat.eqb j (dsf i) && Nat.ltb (dsf i) (length (upd init i (fin i (nth i init d))))); auto.
Qed.
End Up.
