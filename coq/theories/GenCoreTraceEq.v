(* core._trace REGENERATED from the Python source (generated/GenCore.v: gen__trace, a `while` loop translated to a Fixpoint
   over explicit fuel) IS the hand-written model Trace.trace that the theorems of C11 / C13 are about: for every fuel, start
   cell, next-cell array, mask, maximum length and step-length function.  The model's step length is the source's `d`:
   gis_utils.distance (the abstract steplen) when real_length is set and ncol is given, else the constant 1.
   No hypothesis, no axiom. *)
From Coq Require Import List Arith ZArith Bool Lia.
Import ListNotations.
From PF Require Import Arr Net Trace.
From PFG Require Import GenCore.
Local Open Scope Z_scope.

Section TraceEq.
Variables (nxt : list nat) (g : bool) (mask : option (list bool)) (maxlen : option Z) (rl : bool) (steplen : nat -> nat -> Z).

(* the step length of the source: `d` keeps its initial value unless real_length and ncol are given *)
Definition src_len (d : Z) : nat -> nat -> Z := fun a b => if rl && g then steplen a b else d.

Definition proj (r : option (nat * list nat * Z * Z)) : option (list nat * Z) :=
  match r with Some (_, idxs, dist, _) => Some (idxs, dist) | None => None end.

Lemma loop_trace : forall fuel cur pre dist d,
  proj (gen__trace_loop1 nxt g mask maxlen rl steplen fuel (cur, pre ++ [cur], dist, d)) =
  match trace nxt mask maxlen (src_len d) fuel cur dist with Some (p, D) => Some (pre ++ p, D) | None => None end.
Proof.
  unfold src_len. destruct (rl && g) eqn:Efl.
  - induction fuel as [|f IH]; intros cur pre dist d; cbn [gen__trace_loop1 trace]; rewrite Efl;
      unfold stops, masked, at_end, too_far, nx.
    + destruct mask as [m|]; [destruct (nth cur m false); cbn; auto|]; cbn.
      all: destruct ((nth cur nxt (length nxt) =? cur)%nat || (length nxt <=? nth cur nxt (length nxt))%nat); cbn; auto.
      all: destruct maxlen as [M|]; cbn; auto.
      all: destruct (dist + steplen cur (nth cur nxt (length nxt)) >? M); cbn; auto.
    + destruct mask as [m|]; [destruct (nth cur m false); cbn; auto|]; cbn.
      all: destruct ((nth cur nxt (length nxt) =? cur)%nat || (length nxt <=? nth cur nxt (length nxt))%nat); cbn; auto.
      all: destruct maxlen as [M|]; cbn.
      all: try (destruct (dist + steplen cur (nth cur nxt (length nxt)) >? M); cbn; auto).
      all: rewrite (IH (nth cur nxt (length nxt)) (pre ++ [cur]));
        destruct (trace _ _ _ _ f _ _) as [[p D]|]; rewrite <- ?app_assoc; reflexivity.
  - induction fuel as [|f IH]; intros cur pre dist d; cbn [gen__trace_loop1 trace]; rewrite Efl;
      unfold stops, masked, at_end, too_far, nx.
    + destruct mask as [m|]; [destruct (nth cur m false); cbn; auto|]; cbn.
      all: destruct ((nth cur nxt (length nxt) =? cur)%nat || (length nxt <=? nth cur nxt (length nxt))%nat); cbn; auto.
      all: destruct maxlen as [M|]; cbn; auto.
      all: destruct (dist + d >? M); cbn; auto.
    + destruct mask as [m|]; [destruct (nth cur m false); cbn; auto|]; cbn.
      all: destruct ((nth cur nxt (length nxt) =? cur)%nat || (length nxt <=? nth cur nxt (length nxt))%nat); cbn; auto.
      all: destruct maxlen as [M|]; cbn.
      all: try (destruct (dist + d >? M); cbn; auto).
      all: rewrite (IH (nth cur nxt (length nxt)) (pre ++ [cur]));
        destruct (trace _ _ _ _ f _ _) as [[p D]|]; rewrite <- ?app_assoc; reflexivity.
Qed.
End TraceEq.

Theorem gen__trace_eq : forall fuel idx0 nxt ncol_given mask maxlen real_length steplen,
  gen__trace fuel idx0 nxt ncol_given mask maxlen real_length steplen =
  trace nxt mask maxlen (fun a b => if real_length && ncol_given then steplen a b else 1) fuel idx0 0.
Proof.
  intros. unfold gen__trace. cbv zeta.
  pose proof (loop_trace nxt ncol_given mask maxlen real_length steplen fuel idx0 [] 0 1) as H.
  unfold src_len in H. cbn [app] in *.
  destruct (gen__trace_loop1 _ _ _ _ _ _ _ _) as [[[[c i] dd] d']|]; cbn [proj] in H;
    destruct (trace _ _ _ _ _ _ _) as [[p D]|]; congruence.
Qed.

Print Assumptions gen__trace_eq.

(* non-vacuity: 3 -> 2 -> 1 -> 0 (pit), mask at 1, unit steps (the example of C11) *)
Example gen__trace_example :
  gen__trace 5 3%nat [0;0;1;2]%nat false (Some [false;true;false;false]) None false (fun _ _ => 7) = Some ([3;2;1]%nat, 2) /\
  gen__trace 5 3%nat [0;0;1;2]%nat true None (Some 8) true (fun _ _ => 7) = Some ([3;2]%nat, 7) /\
  gen__trace 1 3%nat [0;0;1;2]%nat false None None false (fun _ _ => 7) = None.
Proof. vm_compute. auto. Qed.
