From Coq Require Import List Arith ZArith QArith Bool.
Import ListNotations.
From PF Require Import Arr Net Rank Accu Stream Ops Ucat Lstsq Glue RunC03 RunC14.
Local Open Scope Z_scope.

Definition run_c10 (k : Z) (args : list (list Z)) : list (list Z) :=
  let ds := net_in (arg 0 args) in
  let outs := net_in_n (length ds) (arg 1 args) in
  if k =? 1000 then [[0]]
  else if k =? 1001 then let '(m, a) := ucat_area ds outs (ns (arg 2 args)) (arg 3 args) in [m; a]
  else if k =? 1002 then
    let '(m, v) := ucat_volume ds outs (ns (arg 2 args)) (arg 3 args) (arg 4 args) (arg 5 args) in m :: v
  else if k =? 1003 then [segment_length ds outs (mask_opt (argz 2 args) (arg 3 args)) (arg 4 args) (argz 5 args)]
  else if k =? 1004 then [oq_out (segment_average ds outs (mask_opt (argz 2 args) (arg 3 args)) (arg 4 args)
                                                  (match arg 6 args with [] => ones (length ds) | w => w end) (argz 5 args))]
  else if k =? 1005 then [oq_out (segment_median ds outs (mask_opt (argz 2 args) (arg 3 args)) (arg 4 args) (argz 5 args))]
  else if k =? 1006 then
    (* arithmetics.lstsq on integer points (args xs, ys): slope and intercept as exact rationals; then the two slope methods *)
    let pts := map (fun p => (inject_Z (fst p), inject_Z (snd p))) (combine (arg 0 args) (arg 1 args)) in
    let '(a, b) := lstsq pts in
    [oq_out [Some (Qred a); Some (Qred b); Some (Qred (slope_lstsq pts)); Some (Qred (slope_mean pts))]]
  else [[-999]].
