(* Lemmas about the prelude of generated/GenCore.v (ofold: a loop whose body may fail) shared by the GenCore*Eq.v files. *)
From Coq Require Import List Arith ZArith Bool Lia.
Import ListNotations.
From PF Require Import Arr.
From PFG Require Import GenCore.

Lemma ofold_none {A B} (f : A -> B -> option A) l :
  fold_left (fun o x => match o with Some s => f s x | None => None end) l None = None.
Proof. induction l as [|x l IH]; cbn [fold_left]; auto. Qed.

Lemma ofold_nil {A B} (f : A -> B -> option A) a : ofold f [] a = Some a.
Proof. reflexivity. Qed.

Lemma ofold_cons {A B} (f : A -> B -> option A) x l a :
  ofold f (x :: l) a = match f a x with Some s => ofold f l s | None => None end.
Proof. unfold ofold. cbn [fold_left]. destruct (f a x); [reflexivity|apply ofold_none]. Qed.

(* a loop that never fails is a fold *)
Lemma ofold_total {A B} (f : A -> B -> option A) (g : A -> B -> A) l : forall a,
  (forall a x, f a x = Some (g a x)) -> ofold f l a = Some (fold_left g l a).
Proof. induction l as [|x l IH]; intros a H; [reflexivity|]. rewrite ofold_cons, H. cbn [fold_left]. apply IH; auto. Qed.

(* arrays as lists *)
Lemma upd_app_r {A} (l1 l2 : list A) j v : upd (l1 ++ l2) (length l1 + j) v = l1 ++ upd l2 j v.
Proof. induction l1 as [|h t IH]; cbn [app length Nat.add upd]; [reflexivity|]. rewrite IH. reflexivity. Qed.

Lemma upd_app_len {A} (l1 l2 : list A) v : upd (l1 ++ l2) (length l1) v = l1 ++ upd l2 0 v.
Proof. rewrite <- (Nat.add_0_r (length l1)) at 1. apply upd_app_r. Qed.

Lemma upd_app_at {A} (l1 l2 : list A) j v : length l1 = j -> upd (l1 ++ l2) j v = l1 ++ upd l2 0 v.
Proof. intros <-. apply upd_app_len. Qed.

Lemma repeat_snoc {A} (a : A) m : repeat a (S m) = repeat a m ++ [a].
Proof. induction m as [|m IH]; [reflexivity|]. cbn [repeat app] in *. rewrite <- IH. reflexivity. Qed.

Lemma nth_repeat_lt {A} (a d : A) m x : x < m -> nth x (repeat a m) d = a.
Proof. revert x; induction m as [|m IH]; intros [|x] H; cbn [repeat nth]; try lia; auto. apply IH. lia. Qed.
