From Coq Require Import List Arith ZArith Bool.
Import ListNotations.
From PF Require Import Arr Flood Glue.
Local Open Scope Z_scope.
Definition run_c06 (k : Z) (args : list (list Z)) : list (list Z) :=
  if k =? 600 then [[0]]
  else if k =? 601 then
    let '(f, d) := fill_depressions (argn 0 args) (argn 1 args) (arg 2 args) (argz 3 args) (argz 4 args) (argz 5 args) (ns (arg 6 args)) in [f; d]
  else [[-999]].
