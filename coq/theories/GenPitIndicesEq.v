(* core.pit_indices, REGENERATED from the Python source (generated/GenLoops.v: gen_pit_indices, one pass over the cell
   numbers that appends the cells which are their own downstream cell), equals the model Codec.pits_of (the filter of
   the cell numbers) that the theorems of C01 / C02 are about.  No hypothesis on the network. *)
From Coq Require Import List Arith Bool Lia.
Import ListNotations.
From PF Require Import Arr Net Codec.
From PFG Require Import GenLoops.

(* a loop that appends g i for the selected i is a flat_map *)
Lemma fold_app_flat_map {A B} (g : B -> list A) (l : list B) : forall acc,
  fold_left (fun a i => a ++ g i) l acc = acc ++ flat_map g l.
Proof.
  induction l as [|x l IH]; intros acc; cbn [fold_left flat_map]; [rewrite app_nil_r; reflexivity|].
  rewrite IH, app_assoc. reflexivity.
Qed.

Lemma flat_map_filter {A} (p : A -> bool) (l : list A) : flat_map (fun i => if p i then [i] else []) l = filter p l.
Proof. induction l as [|x l IH]; cbn [flat_map filter]; [reflexivity|]. rewrite IH. destruct (p x); reflexivity. Qed.

Lemma fold_ext_all {A B} (f g : A -> B -> A) l : (forall a x, f a x = g a x) -> forall a, fold_left f l a = fold_left g l a.
Proof. intros H. induction l as [|x l IH]; intros a; cbn [fold_left]; [reflexivity|]. rewrite H. apply IH. Qed.

Theorem gen_pit_indices_eq : forall ds, gen_pit_indices ds = pits_of ds.
Proof.
  intros ds. unfold gen_pit_indices, pits_of. cbv zeta.
  rewrite (fold_ext_all _ (fun a i => a ++ (if (nth i ds (length ds) =? i)%nat then [i] else []))).
  - rewrite fold_app_flat_map. cbn [app]. apply flat_map_filter.
  - intros a i. unfold gen_pit_indices_step. rewrite (Nat.eqb_sym i).
    destruct (nth i ds (length ds) =? i)%nat; [reflexivity|rewrite app_nil_r; reflexivity].
Qed.

Print Assumptions gen_pit_indices_eq.
