(* ihu_relocate_outlets: the model Ihu.rl_one / Ihu.relocate with the fuel of the loop `while len(bottleneck) > nbottlenecks`
   (Ihu.rl_passes) as a PARAMETER pf.  Ihu.rl_one gives this loop the fuel S (S (S nc)); the generated function has ONE fuel
   parameter and gives every loop the same fuel: with fuel := S nsub the passes get S nsub.  rl_one_pf is a verbatim copy of
   Ihu.rl_one (the section abbreviations written out) with pf in this one place: the copy with the model's fuel IS the model
   (rl_one_pf_model, relocate_pf_model: by reflexivity). *)
From Coq Require Import List Arith ZArith Bool Lia.
Import ListNotations.
From PF Require Import Arr Upscale D8Idx Ihu.

Definition rl_one_pf (pf : nat) (sds : list nat) (subncol cs nrow ncol : nat) (a : A) (idx00 : nat) : A :=
  let nsub := length sds in
  let nc := (nrow * ncol)%nat in
  let cds := a_cds a in
  let out := a_out a in
  let subidx := sd sds (nth idx00 out nsub) in
  match rl_trace sds subncol cs nrow ncol (S nsub) cds out subidx (sub2idx subidx subncol cs ncol) (nth idx00 cds nc) [] [] with
  | None => set_err a 1
  | Some (il, sl, sub_end) =>
    if sub_end =? nth (nth idx00 cds nc) out nsub then a
    else
      let tribs := rl_tribs sds nrow ncol cds out idx00 il sl in
      let conns := map (rl_conn_of sds subncol cs ncol out sl) tribs in
      let okc := forallb (fun c => snd c) conns in
      let conn_l := map (fun c => fst (fst c)) conns in
      let conn1_l := map (fun c => snd (fst c)) conns in
      let seq1 := argsort (map Z.of_nat conn_l) in
      let us0 := map (fun i => nth i tribs nc) seq1 in
      let sds0 := map (fun i => nth (nth i cds nc) out nsub) us0 in
      let conn := map (fun i => nth i conn_l 0) seq1 in
      let conn1 := map (fun i => nth i conn1_l 0) seq1 in
      let s := rl_passes sds subncol cs nrow ncol il sl us0 sds0 conn conn1 pf cds out [] idx00 0 okc in
      let s := if in_out s (nth (s_idx1 s) (s_cds s) nc) then s4_unroll s else s in
      mkA (s_cds s) (s_out s) (a_st a) (if s_ok s then a_err a else if a_err a =? 0 then 1 else a_err a)
  end.

Definition relocate_pf (pf : nat) (sds : list nat) (upa : list Z) (subncol cs nrow ncol : nat) (fixl : list nat) (a : A) : A :=
  let seq0 := argsort (map (fun i => nth (nth i (a_out a) (length sds)) upa 0%Z) fixl) in
  fold_left (fun a i0 => rl_one_pf pf sds subncol cs nrow ncol a (nth i0 fixl (nrow * ncol))) seq0 a.

Lemma rl_one_pf_model sds subncol cs nrow ncol a idx00 :
  rl_one_pf (S (S (S (nrow * ncol)))) sds subncol cs nrow ncol a idx00 = rl_one sds subncol cs nrow ncol a idx00.
Proof. reflexivity. Qed.

Lemma relocate_pf_model sds upa subncol cs nrow ncol fixl a :
  relocate_pf (S (S (S (nrow * ncol)))) sds upa subncol cs nrow ncol fixl a = relocate sds upa subncol cs nrow ncol fixl a.
Proof. reflexivity. Qed.
