(* Models of core_d8 / core_ldd / core_nextxy from_array and to_array, of the mask and
   type-inference glue of pyflwdir.from_array.  drdc and the tables come from the
   regenerated files; the loops are hand-written and tied by correspondence. *)
From Coq Require Import List Arith ZArith Lia Bool.
Import ListNotations.
From PF Require Import Arr Net.
From PFG Require Import GenTables GenDrdc.

Open Scope Z_scope.

Definition zmem (x : Z) (l : list Z) : bool := existsb (Z.eqb x) l.

(* entry of a 3x3 stencil table at offset (dr, dc) in {-1,0,1}^2 *)
Definition table_at (t : list (list Z)) (dr dc : Z) : Z :=
  nth (Z.to_nat (dc + 1)) (nth (Z.to_nat (dr + 1)) t []) (-1).

(* generic D8-style decoder (core_d8.from_array / core_ldd.from_array share the loop) *)
Section Decode.
Variable drdc : Z -> Z * Z.
Variable mv : Z.
Variables nrow ncol : nat.
Variable flw : list Z.
Let sz := (nrow * ncol)%nat.

Definition cell (idx : nat) : Z := nth idx flw mv.

(* row/col of the target of idx0, as integers (may be off the raster) *)
Definition target_rc (idx0 : nat) : Z * Z :=
  let '(dr, dc) := drdc (cell idx0) in
  (Z.of_nat (idx0 / ncol) + dr, Z.of_nat (idx0 mod ncol) + dc).

Definition outside (r c : Z) : bool :=
  (r >=? Z.of_nat nrow) || (c >=? Z.of_nat ncol) || (r <? 0) || (c <? 0).

Definition decode_cell (idx0 : nat) : nat :=
  if cell idx0 =? mv then sz else
  let '(dr, dc) := drdc (cell idx0) in
  let '(r, c) := target_rc idx0 in
  let pit := (dr =? 0) && (dc =? 0) in
  let idx_ds := Z.to_nat (c + r * Z.of_nat ncol) in
  if pit || outside r c || (cell idx_ds =? mv) then idx0 else idx_ds.

Definition decode : list nat := map decode_cell (seq 0 sz).
End Decode.

Definition pits_of (ds : list nat) : list nat :=
  filter (fun i => Nat.eqb (nth i ds (length ds)) i) (seq 0 (length ds)).
Definition nvalid_of (ds : list nat) : nat :=
  length (filter (fun i => Nat.ltb (nth i ds (length ds)) (length ds)) (seq 0 (length ds))).

Definition d8_from_array := decode d8_drdc d8_mv.
Definition ldd_from_array := decode ldd_drdc ldd_mv.

(* NEXTXY: nextx, nexty hold one-based column / row of the target *)
Section DecodeXY.
Variables nrow ncol : nat.
Variables nextx nexty : list Z.
Let sz := (nrow * ncol)%nat.
Definition xy_ispit (v : Z) : bool := zmem v nextxy_pv.
Definition xy_decode_cell (idx0 : nat) : nat :=
  let c1 := nth idx0 nextx nextxy_mv in
  let r1 := nth idx0 nexty nextxy_mv in
  if c1 =? nextxy_mv then sz else
  let pit := xy_ispit c1 || xy_ispit r1 in
  let r := r1 - 1 in let c := c1 - 1 in
  let idx_ds := Z.to_nat (c + r * Z.of_nat ncol) in
  if pit || outside nrow ncol r c || (nth idx_ds nextx nextxy_mv =? nextxy_mv) then idx0 else idx_ds.
Definition nextxy_from_array : list nat := map xy_decode_cell (seq 0 sz).
End DecodeXY.

(* user mask: np.where(mask != 0, data, mv) *)
Definition apply_mask (mv : Z) (mask flw : list Z) : list Z :=
  map (fun p => if (fst p) =? 0 then mv else snd p) (combine mask flw).

(* value-set validity (check_values) and inference order d8 -> ldd -> nextxy.
   dtype tag of the input: 0 = uint8 2-D, 1 = int32 (2,r,c), 2 = anything else *)
Definition values_in (all : list Z) (flw : list Z) : bool := forallb (fun v => zmem v all) flw.
Definition d8_isvalid (tag : Z) (flw : list Z) := (tag =? 0) && values_in d8_all flw.
Definition ldd_isvalid (tag : Z) (flw : list Z) := (tag =? 0) && values_in ldd_all flw.
Definition nextxy_isvalid (tag : Z) (nextx nexty : list Z) :=
  (tag =? 1) &&
  forallb (fun p => let '(x, y) := p in
                    if (x =? nextxy_mv) || xy_ispit x then x =? y else x >=? 0)
          (combine nextx nexty).
(* 0 = d8, 1 = ldd, 2 = nextxy, 3 = error *)
Definition infer_ftype (tag : Z) (a b : list Z) : Z :=
  if d8_isvalid tag a then 0 else if ldd_isvalid tag a then 1
  else if nextxy_isvalid tag a b then 2 else 3.

(* ---------- encoders ---------- *)
Section Encode.
Variable table : list (list Z).
Variable mv : Z.
Variable ncol : nat.
Variable ds : list nat.
Let sz := length ds.
(* None = the documented ValueError (link outside the 8 neighbours) *)
Definition encode_cell (idx0 : nat) : option Z :=
  let idx_ds := nth idx0 ds sz in
  if (sz <=? idx_ds)%nat then Some mv else
  let dr := Z.of_nat (idx_ds / ncol) - Z.of_nat (idx0 / ncol) in
  let dc := Z.of_nat (idx_ds mod ncol) - Z.of_nat (idx0 mod ncol) in
  if (dr >=? -1) && (dr <=? 1) && (dc >=? -1) && (dc <=? 1)
  then Some (table_at table dr dc)
  else None.
Fixpoint sequence_opt {A} (l : list (option A)) : option (list A) :=
  match l with
  | [] => Some []
  | None :: _ => None
  | Some x :: t => match sequence_opt t with Some r => Some (x :: r) | None => None end
  end.
Definition encode : option (list Z) := sequence_opt (map encode_cell (seq 0 sz)).
End Encode.

Definition d8_to_array := encode d8_ds d8_mv.
Definition ldd_to_array := encode ldd_ds ldd_mv.

Definition xy_cell (ncol : nat) (ds : list nat) (idx0 : nat) : Z * Z :=
  let sz := length ds in
  let idx_ds := nth idx0 ds sz in
  if (sz <=? idx_ds)%nat then (nextxy_mv, nextxy_mv)
  else if (idx0 =? idx_ds)%nat then (nth 0 nextxy_pv 0, nth 0 nextxy_pv 0)
  else (Z.of_nat (idx_ds mod ncol) + 1, Z.of_nat (idx_ds / ncol) + 1).
Definition nextxy_to_array (ncol : nat) (ds : list nat) : list Z * list Z :=
  let l := map (xy_cell ncol ds) (seq 0 (length ds)) in (map fst l, map snd l).
