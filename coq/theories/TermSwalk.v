(* C13 / termination, target 2b: the inner `while True` of streams.streams, `swalk` (Vect.v).
   `sstep` calls it with fuel n = length ds for the cells of the stored order.  On a loop-free network it stops by its
   own exit test (pit / confluence) within k < n iterations: the fuel is never the reason to stop. *)
From Coq Require Import List Arith ZArith Bool Lia.
Import ListNotations.
From PF Require Import Arr Net Rank Stream Vect NetBound.

Section TermSwalk.
Variable ds : list nat.
Variable nup : list Z.
Notation n := (length ds).
Notation swalk := (swalk ds nup).

Lemma swalk_fuel_gen : forall fuel cur kp extra, dsf ds (iter ds kp cur) = iter ds kp cur -> kp <= fuel ->
  swalk (fuel + extra) cur = swalk fuel cur.
Proof.
  induction fuel as [|f IH]; intros cur kp extra Hp Hk.
  - assert (kp = 0) by lia. subst kp. cbn [iter] in Hp. cbn [Nat.add].
    destruct extra as [|e]; [reflexivity|]. cbn [Vect.swalk]. rewrite Hp, Nat.eqb_refl. reflexivity.
  - cbn [Nat.add Vect.swalk].
    destruct (dsf ds cur =? cur) eqn:E; [reflexivity|].
    destruct (nth (dsf ds cur) nup 0 >? 1)%Z; [reflexivity|].
    destruct kp as [|kp]; [cbn [iter] in Hp; rewrite Hp, Nat.eqb_refl in E; discriminate|].
    rewrite (IH (dsf ds cur) kp extra); [reflexivity|exact Hp|lia].
Qed.

(* number of cells marked: at most the distance to the pit *)
Lemma swalk_length_gen : forall fuel cur kp, dsf ds (iter ds kp cur) = iter ds kp cur ->
  length (fst (fst (swalk fuel cur))) <= kp /\ length (snd (fst (swalk fuel cur))) <= kp.
Proof.
  induction fuel as [|f IH]; intros cur kp Hp.
  - cbn [Vect.swalk]. destruct (dsf ds cur =? cur) eqn:E; [simpl; lia|].
    destruct kp as [|kp]; [cbn [iter] in Hp; rewrite Hp, Nat.eqb_refl in E; discriminate|].
    destruct (nth (dsf ds cur) nup 0 >? 1)%Z; simpl; lia.
  - cbn [Vect.swalk]. destruct (dsf ds cur =? cur) eqn:E; [simpl; lia|].
    destruct kp as [|kp]; [cbn [iter] in Hp; rewrite Hp, Nat.eqb_refl in E; discriminate|].
    destruct (nth (dsf ds cur) nup 0 >? 1)%Z; [simpl; lia|].
    specialize (IH (dsf ds cur) kp Hp). destruct (swalk f (dsf ds cur)) as [[dn vs] pit]. simpl in *. lia.
Qed.

Variable sq : list nat.
Hypothesis Ht : topo ds sq.

Theorem swalk_exit cur : In cur sq ->
  exists k, k < n /\ length (fst (fst (swalk n cur))) <= k /\ length (snd (fst (swalk n cur))) <= k /\
            forall fuel, k <= fuel -> swalk fuel cur = swalk k cur.
Proof.
  intros Hc. destruct (path_bound ds sq Ht cur Hc) as [k [Hk [[_ Hp] _]]].
  exists k. split; [exact Hk|]. destruct (swalk_length_gen n cur k Hp) as [H1 H2]. split; [exact H1|]. split; [exact H2|].
  intros fuel Hf. replace fuel with (k + (fuel - k)) by lia. apply (swalk_fuel_gen k cur k); auto.
Qed.

(* the fuel n passed by sstep is never exhausted *)
Theorem swalk_fuel cur extra : In cur sq -> swalk (n + extra) cur = swalk n cur.
Proof.
  intros Hc. destruct (path_bound ds sq Ht cur Hc) as [k [Hk [[_ Hp] _]]].
  apply (swalk_fuel_gen n cur k); [exact Hp|lia].
Qed.
End TermSwalk.

(* the public entry: streams computed with any larger fuel for the inner walk is the same list of line strings *)
Definition sstep_fuel (fuel : nat) (ds : list nat) (nup : list Z) (mask : option (list bool)) (max_len : Z)
           (st : list bool * list (list nat)) (idx0 : nat) : list bool * list (list nat) :=
  let '(done, out) := st in
  if nth idx0 done false || negb (mget mask idx0) then st
  else
    let '(dn, vs, pit) := swalk ds nup fuel idx0 in
    let done' := fold_left (fun a c => upd a c true) (idx0 :: dn) done in
    let idxs := idx0 :: vs in
    let last_c := last idxs idx0 in
    (done', out ++ cut idxs max_len ++ (if pit then [[last_c; last_c]] else [])).
Definition streams_fuel (fuel : nat) (ds : list nat) (sq : list nat) (mask : option (list bool)) (max_len : Z) :=
  snd (fold_left (sstep_fuel fuel ds (upstream_count ds mask) mask max_len) (rev sq) (repeat false (length ds), [])).

Lemma fold_left_ext_in {A B} (f g : A -> B -> A) (l : list B) : (forall a x, In x l -> f a x = g a x) ->
  forall a, fold_left f l a = fold_left g l a.
Proof.
  induction l as [|x l IH]; intros H a; [reflexivity|]. cbn [fold_left]. rewrite H by (left; reflexivity).
  apply IH. intros a' y Hy. apply H. right. exact Hy.
Qed.

Theorem streams_terminates ds sq : topo ds sq -> forall mask max_len extra,
  streams_fuel (length ds + extra) ds sq mask max_len = streams ds sq mask max_len.
Proof.
  intros Ht mask max_len extra. unfold streams_fuel, streams. f_equal. apply fold_left_ext_in.
  intros [done out] x Hx. apply in_rev in Hx. unfold sstep_fuel, sstep.
  rewrite (swalk_fuel ds (upstream_count ds mask) sq Ht x extra Hx). reflexivity.
Qed.

(* satisfiable: 0 pit; 1 -> 0; 2 -> 1; 3 -> 1; 4 -> 3 *)
Example swalk_example :
  topo [0;0;1;1;3] [0;1;2;3;4] /\
  streams [0;0;1;1;3] [0;1;2;3;4] None 0 = [[4;3;1]; [2;1]; [1;0]; [0;0]] /\
  streams_fuel 77 [0;0;1;1;3] [0;1;2;3;4] None 0 = [[4;3;1]; [2;1]; [1;0]; [0;0]].
Proof. split; [apply check_topo_sound; vm_compute; reflexivity|]. vm_compute. auto. Qed.

Print Assumptions swalk_exit.
Print Assumptions swalk_fuel.
Print Assumptions streams_terminates.
