(* core.upstream_count, REGENERATED from the Python source (generated/GenLoops.v: gen_upstream_count, one pass over the
   cells that bumps a counter at the downstream cell), equals the declarative model Rank.upstream_count (the number of
   masked cells that drain into the cell) on every well-formed network.  The loop invariant: after the first k cells
   the counter of cell j is the number of masked feeders among them, or -9 if there is none and j itself has not
   been visited as a valid cell. *)
From Coq Require Import List Arith ZArith Bool Lia.
Import ListNotations.
From PF Require Import Arr Net Rank Stream.
From PFG Require Import GenLoops.
Local Open Scope Z_scope.

Section UC.
Variable ds : list nat.
Variable mask : option (list bool).
Notation n := (length ds).

Definition feeds (j c : nat) : bool := (dsf ds c =? j)%nat && negb (c =? j)%nat && mget mask c.
Definition cnt (k j : nat) : Z := Z.of_nat (length (filter (feeds j) (seq 0 k))).
Definition uc_val (k j : nat) : Z :=
  if (0 <? cnt k j) || ((j <? k)%nat && validb ds j) then cnt k j else -9.

Lemma cnt_nonneg k j : 0 <= cnt k j.
Proof. unfold cnt. lia. Qed.

Lemma cnt_S k j : cnt (S k) j = cnt k j + (if feeds j k then 1 else 0).
Proof.
  unfold cnt. rewrite seq_S, filter_app, app_length. cbn [filter Nat.add].
  destruct (feeds j k); cbn [length]; lia.
Qed.

Lemma max_uc k j : Z.max (uc_val k j) 0 = cnt k j.
Proof.
  unfold uc_val. pose proof (cnt_nonneg k j).
  destruct (0 <? cnt k j) eqn:E; cbn [orb].
  - lia.
  - apply Z.ltb_ge in E. destruct ((j <? k)%nat && validb ds j); lia.
Qed.

Notation step := (gen_upstream_count_step ds mask).

Lemma step_length a k : length (step a k) = length a.
Proof.
  unfold gen_upstream_count_step.
  destruct (negb (n <=? nth k ds n)%nat); [|reflexivity].
  destruct (negb (k =? nth k ds n)%nat && mget mask k); rewrite ?upd_length; reflexivity.
Qed.

Lemma step_inv a k : (k < n)%nat -> length a = n -> (forall j, (j < n)%nat -> nth j a 0 = uc_val k j) ->
  forall j, (j < n)%nat -> nth j (step a k) 0 = uc_val (S k) j.
Proof.
  intros Hk Hl Hinv j Hj.
  unfold gen_upstream_count_step. change (nth k ds (length ds)) with (dsf ds k).
  assert (Hfeed : feeds j k = ((dsf ds k =? j)%nat && negb (k =? j)%nat && mget mask k)) by reflexivity.
  destruct (Nat.leb_spec n (dsf ds k)) as [Hinv_k|Hval_k]; cbn [negb].
  - (* cell k is not part of the network *)
    rewrite Hinv by auto. unfold uc_val. rewrite cnt_S, Hfeed.
    destruct (Nat.eqb_spec (dsf ds k) j) as [E|E]; [lia|]. cbn [andb]. rewrite Z.add_0_r.
    destruct (Nat.eq_dec j k) as [->|Hne].
    + assert (Hv : validb ds k = false).
      { unfold validb. destruct (Nat.ltb_spec (dsf ds k) (size ds)); [unfold size in *; lia|]. apply andb_false_r. }
      rewrite Hv, !andb_false_r. reflexivity.
    + replace (j <? S k)%nat with (j <? k)%nat; [reflexivity|].
      destruct (Nat.ltb_spec j k), (Nat.ltb_spec j (S k)); auto; lia.
  - assert (Hvk : validb ds k = true).
    { unfold validb, size. apply andb_true_iff. split; apply Nat.ltb_lt; auto. }
    set (a1 := upd a k (Z.max (nth k a 0) 0)).
    assert (Ha1k : nth k a1 0 = cnt k k) by (unfold a1; rewrite nth_upd_eq by lia; rewrite Hinv by auto; apply max_uc).
    assert (Ha1o : forall i, i <> k -> nth i a1 0 = nth i a 0) by (intros i Hi; unfold a1; apply nth_upd_neq; auto).
    assert (Hl1 : length a1 = n) by (unfold a1; rewrite upd_length; auto).
    rewrite (Nat.eqb_sym k (dsf ds k)).
    unfold uc_val. rewrite cnt_S, Hfeed.
    destruct (Nat.eqb_spec (dsf ds k) k) as [Epit|Epit]; cbn [negb andb].
    + (* a pit: only its own counter is initialised *)
      destruct (Nat.eq_dec j k) as [->|Hne].
      * rewrite Ha1k. rewrite Epit, Nat.eqb_refl. cbn [negb andb]. rewrite Z.add_0_r.
        rewrite Hvk. assert (Hlt : (k <? S k)%nat = true) by (apply Nat.ltb_lt; lia). rewrite Hlt. cbn [andb].
        rewrite orb_true_r. reflexivity.
      * rewrite Ha1o by auto. rewrite Hinv by auto.
        destruct (Nat.eqb_spec (dsf ds k) j) as [E|E]; [lia|]. cbn [andb]. rewrite Z.add_0_r.
        unfold uc_val. replace (j <? S k)%nat with (j <? k)%nat; [reflexivity|].
        destruct (Nat.ltb_spec j k), (Nat.ltb_spec j (S k)); auto; lia.
    + destruct (mget mask k) eqn:Em; cbn [andb].
      * (* the downstream cell gains one *)
        destruct (Nat.eq_dec j (dsf ds k)) as [->|Hnd].
        -- rewrite nth_upd_eq by lia. rewrite Ha1o by auto. rewrite Hinv by auto. rewrite max_uc.
           rewrite Nat.eqb_refl. assert (Hk2 : (k =? dsf ds k)%nat = false) by (apply Nat.eqb_neq; auto). rewrite Hk2. cbn [negb andb].
           pose proof (cnt_nonneg k (dsf ds k)). assert (Hp : (0 <? cnt k (dsf ds k) + 1) = true) by (apply Z.ltb_lt; lia).
           rewrite Hp. reflexivity.
        -- rewrite nth_upd_neq by auto.
           assert (E : (dsf ds k =? j)%nat = false) by (apply Nat.eqb_neq; auto). rewrite E. cbn [andb]. rewrite Z.add_0_r.
           destruct (Nat.eq_dec j k) as [->|Hne].
           ++ rewrite Ha1k. rewrite Hvk. assert (Hlt : (k <? S k)%nat = true) by (apply Nat.ltb_lt; lia). rewrite Hlt. cbn [andb].
              rewrite orb_true_r. reflexivity.
           ++ rewrite Ha1o by auto. rewrite Hinv by auto. unfold uc_val.
              replace (j <? S k)%nat with (j <? k)%nat; [reflexivity|].
              destruct (Nat.ltb_spec j k), (Nat.ltb_spec j (S k)); auto; lia.
      * rewrite andb_false_r, Z.add_0_r.
        destruct (Nat.eq_dec j k) as [->|Hne].
        -- rewrite Ha1k. rewrite Hvk. assert (Hlt : (k <? S k)%nat = true) by (apply Nat.ltb_lt; lia). rewrite Hlt. cbn [andb].
           rewrite orb_true_r. reflexivity.
        -- rewrite Ha1o by auto. rewrite Hinv by auto. unfold uc_val.
           replace (j <? S k)%nat with (j <? k)%nat; [reflexivity|].
           destruct (Nat.ltb_spec j k), (Nat.ltb_spec j (S k)); auto; lia.
Qed.

Lemma loop_inv k : (k <= n)%nat ->
  let a := fold_left step (seq 0 k) (repeat (-9) n) in
  length a = n /\ forall j, (j < n)%nat -> nth j a 0 = uc_val k j.
Proof.
  induction k as [|k IH]; intros Hk.
  - cbn [seq fold_left]. split; [apply repeat_length|]. intros j Hj.
    rewrite (nth_indep _ 0 (-9)) by (rewrite repeat_length; auto). rewrite nth_repeat.
    unfold uc_val, cnt. cbn [seq filter length]. reflexivity.
  - destruct (IH ltac:(lia)) as [Hl Hinv]. cbv zeta. rewrite seq_S, fold_left_app. cbn [fold_left Nat.add].
    split; [rewrite step_length; exact Hl|]. apply step_inv; auto.
Qed.

Lemma filter_filter {A} (p q : A -> bool) l : filter p (filter q l) = filter (fun x => q x && p x) l.
Proof. induction l as [|x l IH]; cbn [filter]; auto. destruct (q x); cbn [filter andb]; rewrite IH; reflexivity. Qed.

Lemma filter_none {A} (p : A -> bool) l : (forall x, In x l -> p x = false) -> filter p l = [].
Proof. induction l as [|x l IH]; intros H; cbn [filter]; auto. rewrite (H x) by (left; auto). apply IH. intros; apply H; right; auto. Qed.

Theorem gen_upstream_count_eq : wf ds -> gen_upstream_count ds mask = upstream_count ds mask.
Proof.
  intros Hwf. unfold gen_upstream_count, upstream_count. cbv zeta.
  destruct (loop_inv n (le_n _)) as [Hl Hinv]. cbv zeta in Hl, Hinv.
  apply (nth_ext_len _ _ 0); [rewrite Hl, map_length, seq_length; reflexivity|].
  intros j Hj. rewrite Hl in Hj. unfold size. rewrite Hinv by auto.
  rewrite (nth_indep _ 0 ((fun j => if validb ds j then Z.of_nat (length (filter (fun c => match mask with None => true | Some m => nth c m false end) (ups ds j))) else -9) 0%nat))
    by (rewrite map_length, seq_length; auto).
  rewrite (map_nth (fun j => if validb ds j then Z.of_nat (length (filter (fun c => match mask with None => true | Some m => nth c m false end) (ups ds j))) else -9)).
  rewrite seq_nth by auto. cbn [Nat.add].
  assert (Hc : cnt n j = Z.of_nat (length (filter (fun c => match mask with None => true | Some m => nth c m false end) (ups ds j)))).
  { unfold cnt, ups, size. rewrite filter_filter. reflexivity. }
  unfold uc_val. assert (Hjn : (j <? n)%nat = true) by (apply Nat.ltb_lt; auto). rewrite Hjn. cbn [andb].
  destruct (validb ds j) eqn:Ev.
  - rewrite orb_true_r. exact Hc.
  - rewrite orb_false_r.
    (* nothing drains into a cell outside the network *)
    assert (Hz : cnt n j = 0).
    { unfold cnt. rewrite filter_none; [reflexivity|]. intros c Hc'. apply in_seq in Hc'.
      unfold feeds. destruct (Nat.eqb_spec (dsf ds c) j) as [E|E]; [|reflexivity].
      assert (Hvc : valid ds c) by (split; unfold size; [lia|rewrite E; auto]).
      pose proof (Hwf c Hvc) as Hvj. rewrite E in Hvj. apply validb_valid in Hvj. congruence. }
    rewrite Hz. reflexivity.
Qed.
End UC.
