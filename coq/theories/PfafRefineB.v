(* Pfafstetter refinement, part B: invariants of one run, pop by pop:
   digits (from PfafDigits), shape of the work list, and "the stream order of a cell is at most the level of its label". *)
From Coq Require Import List Arith ZArith Bool Lia.
Import ListNotations.
From PF Require Import Arr Net SweepDown Fill FillSpec Rank Stream Subbas PfafDigits.
From PF Require Import PfafClosureA PfafClosureB PfafClosureC PfafClosureD PfafClosureE PfafClosureF PfafRefineA.
Local Open Scope Z_scope.

(* breadth-first shape of the work list: levels are non-decreasing and span at most two values *)
Fixpoint lsorted (l : list (Z * Z)) : Prop :=
  match l with
  | [] => True
  | e :: t => (forall e', In e' t -> snd e <= snd e') /\ lsorted t
  end.
Definition bfs (l : list (Z * Z)) : Prop :=
  lsorted l /\ forall e e', In e l -> In e' l -> snd e' <= snd e + 1.

Lemma lsorted_app l ch k : lsorted l -> (forall e, In e l -> snd e <= k) -> (forall e, In e ch -> snd e = k) -> lsorted (l ++ ch).
Proof.
  induction l as [|h t IH]; intros Hs Hl Hc; cbn [app].
  - induction ch as [|c ch IHc]; [exact I|]. split.
    + intros e' He'. rewrite (Hc c (or_introl eq_refl)), (Hc e' (or_intror He')). lia.
    + apply IHc. intros e He. apply Hc. right. exact He.
  - destruct Hs as [H1 H2]. split.
    + intros e' He'. apply in_app_or in He'. destruct He' as [He'|He']; [apply H1; exact He'|].
      rewrite (Hc e' He'). apply Hl. left. reflexivity.
    + apply IH; [exact H2|intros e He; apply Hl; right; exact He|exact Hc].
Qed.

Lemma bfs_pop e t ch : bfs (e :: t) -> (forall c, In c ch -> snd c = snd e + 1) -> bfs (t ++ ch).
Proof.
  intros [[H1 H2] H3] Hc. split.
  - apply (lsorted_app t ch (snd e + 1)); [exact H2| |exact Hc].
    intros x Hx. apply (H3 e x); [left; reflexivity|right; exact Hx].
  - assert (Hr : forall x, In x (t ++ ch) -> snd e <= snd x <= snd e + 1).
    { intros x Hx. apply in_app_or in Hx. destruct Hx as [Hx|Hx].
      - split; [apply H1; exact Hx|apply (H3 e x); [left; reflexivity|right; exact Hx]].
      - rewrite (Hc x Hx). lia. }
    intros x y Hx Hy. pose proof (Hr x Hx). pose proof (Hr y Hy). lia.
Qed.

Lemma bfs_head_max e t : bfs (e :: t) -> (forall x, In x t -> snd x <= snd e) -> forall x, In x t -> snd x = snd e.
Proof.
  intros [[H1 _] _] Hle x Hx. pose proof (H1 x Hx). pose proof (Hle x Hx). lia.
Qed.

Section Run.
Variables (ds main : list nat) (uparea strord : list Z) (trib : list nat) (depth : Z).
Let n := length ds.
Notation mn x := (nth x main n).
Notation dsf := (dsf ds).
Notation so c := (nth c strord 0).
Hypothesis Hdepth : 1 <= depth.

(* the (at most four) tributaries handled when (pfaf0, d0) is popped, in processing order *)
Definition ordered_of (b : list Z) (pfaf0 : Z) : list nat :=
  sort_desc (fun i => nth (dsf i) uparea 0)
    (firstn 4 (sort_desc (fun i => nth i uparea 0)
       (filter (fun idx => (nth idx b 0 =? 0) && (nth (dsf idx) b 0 =? pfaf0)) trib))).

Lemma pfaf_pop_eq b idxs pfaf0 d0 labs' :
  pfaf_pop ds main uparea strord trib depth b idxs pfaf0 d0 labs' =
  let ordered := ordered_of b pfaf0 in
  let '(b', ix, lb, _) := fold_left (pfaf_trib ds main strord depth d0 pfaf0)
                                    (combine (seq 0 (length ordered)) ordered) (b, idxs, labs', pfaf0) in
  (b', ix, lb).
Proof.
  unfold pfaf_pop, ordered_of.
  destruct (filter (fun idx => (nth idx b 0 =? 0) && (nth (dsf idx) b 0 =? pfaf0)) trib) as [|e0 rs]; reflexivity.
Qed.

Lemma ordered_in b pfaf0 t : In t (ordered_of b pfaf0) -> In t trib /\ lab b t = 0 /\ lab b (dsf t) = pfaf0.
Proof.
  intros Ht. unfold ordered_of in Ht. apply sort_desc_In in Ht. apply firstn_In_sub in Ht. apply sort_desc_In in Ht.
  apply filter_In in Ht. destruct Ht as [H1 H2]. apply andb_true_iff in H2.
  destruct H2 as [H2 H3]. apply Z.eqb_eq in H2. apply Z.eqb_eq in H3. split; [exact H1|split; assumption].
Qed.

Lemma ordered_len b pfaf0 : (length (ordered_of b pfaf0) <= 4)%nat.
Proof. unfold ordered_of. rewrite sort_desc_length, firstn_length. lia. Qed.

Lemma ordered_NoDup b pfaf0 : NoDup trib -> NoDup (ordered_of b pfaf0).
Proof.
  intros H. unfold ordered_of. apply sort_desc_NoDup. apply firstn_NoDup. apply sort_desc_NoDup.
  apply NoDup_filter. exact H.
Qed.

Lemma ordered_sorted b pfaf0 : sortedd (fun i => nth (dsf i) uparea 0) (ordered_of b pfaf0).
Proof. unfold ordered_of. apply sort_desc_sorted. Qed.

Lemma combine_seq_in (l : list nat) s i t : In (i, t) (combine (seq s (length l)) l) -> (s <= i < s + length l)%nat /\ In t l.
Proof.
  intros H. split; [apply in_combine_l in H; apply in_seq in H; exact H|apply in_combine_r in H; exact H].
Qed.

(* ---------- digits ---------- *)
Lemma pop_ok b idxs pfaf0 d0 labs' : allok depth b -> labsok depth ((pfaf0, d0) :: labs') ->
  let r := pfaf_pop ds main uparea strord trib depth b idxs pfaf0 d0 labs' in
  allok depth (fst (fst r)) /\ labsok depth (snd r).
Proof.
  intros Hb Hl. cbv zeta. rewrite pfaf_pop_eq. cbv zeta.
  assert (Hl' : labsok depth labs') by (intros pf d Hin; apply Hl; right; exact Hin).
  destruct (Hl pfaf0 d0 (or_introl eq_refl)) as [Hd Hu].
  pose proof (fold_trib_ok ds main strord depth d0 pfaf0 Hd Hu
                (combine (seq 0 (length (ordered_of b pfaf0))) (ordered_of b pfaf0)) (b, idxs, labs', pfaf0)) as HF.
  cbn [fst snd] in HF.
  specialize (HF ltac:(intros [i x] Hin; apply combine_seq_in in Hin; pose proof (ordered_len b pfaf0); cbn [fst]; lia) Hb Hl').
  destruct (fold_left _ _ _) as [[[b' ix] lb] pi]. cbn [fst snd] in *. exact HF.
Qed.

(* ---------- the work list only grows at its end, by entries of the next level ---------- *)
Lemma pfaf_trib_labs d0 pfaf0 b idxs labs X ix :
  let r := pfaf_trib ds main strord depth d0 pfaf0 (b, idxs, labs, X) ix in
  exists ch, snd (fst r) = labs ++ ch /\ (forall e, In e ch -> snd e = d0 + 1) /\ (depth <= d0 -> ch = []).
Proof.
  destruct ix as [i idx]. cbv zeta. unfold pfaf_trib.
  destruct (negb (memb _ _)); cbn [fst snd]; destruct (Z.ltb_spec d0 depth) as [Hlt|Hge].
  - eexists [_; _]. split; [rewrite <- app_assoc; reflexivity|]. split; [|lia].
    intros e [<-|[<-|[]]]; reflexivity.
  - exists []. split; [rewrite app_nil_r; reflexivity|]. split; [intros e []|reflexivity].
  - eexists [_]. split; [reflexivity|]. split; [|lia]. intros e [<-|[]]; reflexivity.
  - exists []. split; [rewrite app_nil_r; reflexivity|]. split; [intros e []|reflexivity].
Qed.

Lemma fold_trib_labs d0 pfaf0 : forall (l : list (nat * nat)) b idxs labs X,
  let r := fold_left (pfaf_trib ds main strord depth d0 pfaf0) l (b, idxs, labs, X) in
  exists ch, snd (fst r) = labs ++ ch /\ (forall e, In e ch -> snd e = d0 + 1) /\ (depth <= d0 -> ch = []).
Proof.
  induction l as [|ix l IH]; intros b idxs labs X; cbn [fold_left].
  - exists []. split; [cbn [fst snd]; rewrite app_nil_r; reflexivity|]. split; [intros e []|reflexivity].
  - destruct (pfaf_trib_labs d0 pfaf0 b idxs labs X ix) as (ch1 & E1 & L1 & N1). cbv zeta in E1.
    destruct (pfaf_trib ds main strord depth d0 pfaf0 (b, idxs, labs, X) ix) as [[[b1 ix1] lb1] X1]. cbn [fst snd] in E1.
    destruct (IH b1 ix1 lb1 X1) as (ch2 & E2 & L2 & N2). cbv zeta in E2.
    exists (ch1 ++ ch2). split; [rewrite E2, E1, app_assoc; reflexivity|]. split.
    + intros e He. apply in_app_or in He. destruct He as [He|He]; [apply L1|apply L2]; exact He.
    + intros Hge. rewrite (N1 Hge), (N2 Hge). reflexivity.
Qed.

Lemma pop_labs b idxs pfaf0 d0 labs' :
  let r := pfaf_pop ds main uparea strord trib depth b idxs pfaf0 d0 labs' in
  exists ch, snd r = labs' ++ ch /\ (forall e, In e ch -> snd e = d0 + 1) /\ (depth <= d0 -> ch = []).
Proof.
  cbv zeta. rewrite pfaf_pop_eq. cbv zeta.
  destruct (fold_trib_labs d0 pfaf0 (combine (seq 0 (length (ordered_of b pfaf0))) (ordered_of b pfaf0)) b idxs labs' pfaf0)
    as (ch & E & L & N). cbv zeta in E.
  destruct (fold_left _ _ _) as [[[b' ix] lb] pi]. cbn [fst snd] in *. exists ch. split; [exact E|split; assumption].
Qed.

(* ---------- order versus level ---------- *)
Hypothesis HSO1 : forall c, so (mn c) = 0 \/ so (mn c) = so c.
Hypothesis HSOT : forall t, In t trib -> so t <= so (dsf t) + 1.

Definition Q2 (b : list Z) : Prop := forall c, okv depth (so c) (lab b c).

Lemma Q2_upd b u v : Q2 b -> okv depth (so u) v -> Q2 (upd b u v).
Proof.
  intros HQ Hv c. rewrite nth_upd. destruct (Nat.eqb_spec c u) as [->|E]; cbn [andb]; [|apply HQ].
  destruct (u <? length b)%nat; [exact Hv|apply HQ].
Qed.

Lemma climb_so_Q2 v : forall fuel b cur, Q2 b -> okv depth (so cur) v ->
  Q2 (climb fuel n main (stop_so strord) v b cur).
Proof.
  induction fuel as [|f IH]; intros b cur HQ Hv; cbn [climb]; [exact HQ|].
  destruct ((n <=? mn cur)%nat || stop_so strord b (mn cur)) eqn:Estop; [exact HQ|].
  apply orb_false_iff in Estop. destruct Estop as [_ Es]. unfold stop_so in Es. apply Z.eqb_neq in Es.
  destruct (HSO1 cur) as [E|E]; [contradiction|].
  assert (Hv' : okv depth (so (mn cur)) v) by (rewrite E; exact Hv).
  apply IH; [apply Q2_upd; assumption|exact Hv'].
Qed.

Lemma climb_X_Q2 X v : (forall s, okv depth s X -> okv depth s v) -> forall fuel b cur, Q2 b ->
  Q2 (climb fuel n main (stopX X) v b cur).
Proof.
  intros HXv. induction fuel as [|f IH]; intros b cur HQ; cbn [climb]; [exact HQ|].
  destruct ((n <=? mn cur)%nat || stopX X b (mn cur)) eqn:Estop; [exact HQ|].
  apply orb_false_iff in Estop. destruct Estop as [_ Es]. unfold stopX in Es. apply negb_false_iff in Es.
  apply Z.eqb_eq in Es.
  apply IH. apply Q2_upd; [exact HQ|]. apply HXv. rewrite <- Es. apply HQ.
Qed.

Definition Xform (pfaf0 d0 X : Z) : Prop := exists j, 0 <= j /\ X = pfaf0 + j * pow10 (depth - d0).

Lemma pfaf_trib_Q2 d0 pfaf0 b idxs labs X i t : 1 <= d0 <= depth -> unrefined depth d0 pfaf0 -> 0 < pfaf0 ->
  (i < 4)%nat -> so t <= d0 + 1 -> so (dsf t) <= d0 -> Q2 b -> Xform pfaf0 d0 X ->
  let r := pfaf_trib ds main strord depth d0 pfaf0 (b, idxs, labs, X) (i, t) in
  Q2 (fst (fst (fst r))) /\ Xform pfaf0 d0 (snd r).
Proof.
  intros Hd Hu Hp Hi Hst Hsw HQ (j & Hj & HX). cbv zeta. unfold pfaf_trib. fold n.
  assert (Hq : 0 < pow10 (depth - d0)) by (unfold pow10; apply Z.pow_pos_nonneg; lia).
  set (psub := pfaf0 + (Z.of_nat i * 2 + 1) * pow10 (depth - d0)).
  set (pint := pfaf0 + (Z.of_nat i + 1) * 2 * pow10 (depth - d0)).
  assert (Hps : forall s, s <= d0 + 1 -> okv depth s psub)
    by (intros s Hs; apply okv_child; [exact Hd|exact Hu|lia|exact Hs]).
  assert (Hpi : forall s, s <= d0 + 1 -> okv depth s pint)
    by (intros s Hs; apply okv_child; [exact Hd|exact Hu|lia|exact Hs]).
  set (b1 := climb n n main (stop_so strord) psub (upd b t psub) t).
  assert (HQ1 : Q2 b1).
  { unfold b1. apply climb_so_Q2; [apply Q2_upd; [exact HQ|]|]; apply Hps; exact Hst. }
  destruct (negb (memb (mn (dsf t)) (idxs ++ [t]))); cbn [fst snd].
  - split; [|exists ((Z.of_nat i + 1) * 2); split; [lia|reflexivity]].
    change (fun (br : list Z) (u : nat) => negb (nth u br 0 =? X)) with (stopX X).
    apply climb_X_Q2.
    + intros s Hs. rewrite HX in Hs. unfold pint. apply (okv_relabel depth d0 pfaf0 j); [exact Hd|exact Hu|lia|nia|exact Hs].
    + apply Q2_upd; [exact HQ1|]. apply Hpi. destruct (HSO1 (dsf t)) as [E|E]; rewrite E; lia.
  - split; [exact HQ1|]. exists j. split; [exact Hj|exact HX].
Qed.

Lemma fold_trib_Q2 d0 pfaf0 : 1 <= d0 <= depth -> unrefined depth d0 pfaf0 -> 0 < pfaf0 ->
  forall (l : list (nat * nat)) b idxs labs X,
  (forall i t, In (i, t) l -> (i < 4)%nat /\ so t <= d0 + 1 /\ so (dsf t) <= d0) -> Q2 b -> Xform pfaf0 d0 X ->
  Q2 (fst (fst (fst (fold_left (pfaf_trib ds main strord depth d0 pfaf0) l (b, idxs, labs, X))))).
Proof.
  intros Hd Hu Hp. induction l as [|[i t] l IH]; intros b idxs labs X Hl HQ HX; cbn [fold_left]; [exact HQ|].
  destruct (Hl i t (or_introl eq_refl)) as (L1 & L2 & L3).
  pose proof (pfaf_trib_Q2 d0 pfaf0 b idxs labs X i t Hd Hu Hp L1 L2 L3 HQ HX) as R. cbv zeta in R.
  destruct (pfaf_trib ds main strord depth d0 pfaf0 (b, idxs, labs, X) (i, t)) as [[[b1 ix1] lb1] X1].
  cbn [fst snd] in R. destruct R as [R1 R2].
  apply IH; [intros i' t' H; apply Hl; right; exact H|exact R1|exact R2].
Qed.

Lemma pop_Q2 b idxs pfaf0 d0 labs' : 1 <= d0 <= depth -> unrefined depth d0 pfaf0 -> 0 < pfaf0 -> Q2 b ->
  Q2 (fst (fst (pfaf_pop ds main uparea strord trib depth b idxs pfaf0 d0 labs'))).
Proof.
  intros Hd Hu Hp HQ. rewrite pfaf_pop_eq. cbv zeta.
  pose proof (fold_trib_Q2 d0 pfaf0 Hd Hu Hp (combine (seq 0 (length (ordered_of b pfaf0))) (ordered_of b pfaf0))
                b idxs labs' pfaf0) as R.
  assert (Hl : forall i t, In (i, t) (combine (seq 0 (length (ordered_of b pfaf0))) (ordered_of b pfaf0)) ->
                (i < 4)%nat /\ so t <= d0 + 1 /\ so (dsf t) <= d0).
  { intros i t Hin. apply combine_seq_in in Hin. destruct Hin as [Hi Ht].
    pose proof (ordered_len b pfaf0) as Hlen. split; [lia|].
    destruct (ordered_in b pfaf0 t Ht) as (T1 & T2 & T3).
    assert (Hw : so (dsf t) <= d0).
    { apply (okv_pop depth d0 pfaf0); [exact Hu|lia|lia|]. rewrite <- T3. apply HQ. }
    split; [|exact Hw]. pose proof (HSOT t T1). lia. }
  specialize (R Hl HQ ltac:(exists 0; split; [lia|ring])).
  destruct (fold_left _ _ _) as [[[b' ix] lb] pi]. cbn [fst snd] in *. exact R.
Qed.

(* the loop over the pits *)
Lemma pit_fold_Q2 so' base : so' = strord -> forall (l : list (nat * nat)) b idxs labs,
  (forall i p, In (i, p) l -> so p <= 1) -> Q2 b ->
  Q2 (fst (fst (fold_left (pit_step n main so' depth base) l (b, idxs, labs)))).
Proof.
  intros ->. induction l as [|[i p] l IH]; intros b idxs labs Hl HQ; cbn [fold_left]; [exact HQ|].
  unfold pit_step at 2.
  assert (Hv : forall v, okv depth (so p) v).
  { intros v. right. intros d' Hd' _. pose proof (Hl i p (or_introl eq_refl)). lia. }
  apply IH; [intros i' p' H; apply (Hl i'); right; exact H|].
  apply climb_so_Q2; [apply Q2_upd; [exact HQ|apply Hv]|apply Hv].
Qed.

Lemma Q2_init k : Q2 (repeat 0 k).
Proof. intros c. left. apply nth_repeat0. Qed.

End Run.
