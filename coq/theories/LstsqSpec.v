(* Specification of the least-squares kernel model PF.Lstsq. *)
Require Import QArith Qabs List Lia Lra Psatz Setoid Morphisms.
From PF Require Import Lstsq.
Import ListNotations.
Open Scope Q_scope.

(* ---------- mathematical sums ---------- *)

Fixpoint sumQ (f : Q * Q -> Q) (l : list (Q * Q)) : Q :=
  match l with
  | [] => 0
  | p :: t => f p + sumQ f t
  end.

Definition Sx  (l : list (Q * Q)) : Q := sumQ (fun p => fst p) l.
Definition Sy  (l : list (Q * Q)) : Q := sumQ (fun p => snd p) l.
Definition Sxx (l : list (Q * Q)) : Q := sumQ (fun p => fst p * fst p) l.
Definition Sxy (l : list (Q * Q)) : Q := sumQ (fun p => fst p * snd p) l.

(* the denominator n Σx² - (Σx)² *)
Definition lsq_den (l : list (Q * Q)) : Q := lsq_n l * Sxx l - Sx l * Sx l.

(* residual sums (normal equations) and squared error *)
Definition res1 (l : list (Q * Q)) (a b : Q) : Q :=
  sumQ (fun p => snd p - (a * fst p + b)) l.
Definition res2 (l : list (Q * Q)) (a b : Q) : Q :=
  sumQ (fun p => fst p * (snd p - (a * fst p + b))) l.
Definition SSE (l : list (Q * Q)) (a b : Q) : Q :=
  sumQ (fun p => (snd p - (a * fst p + b)) * (snd p - (a * fst p + b))) l.

(* Σ_{i<j} (x_i - x_j)² *)
Fixpoint pair_sq (l : list (Q * Q)) : Q :=
  match l with
  | [] => 0
  | p :: t => sumQ (fun q => (fst p - fst q) * (fst p - fst q)) t + pair_sq t
  end.

(* ---------- the folds are the sums ---------- *)

Definition st1 (s : lsq_state) : Q := fst (fst (fst s)).
Definition st2 (s : lsq_state) : Q := snd (fst (fst s)).
Definition st3 (s : lsq_state) : Q := snd (fst s).
Definition st4 (s : lsq_state) : Q := snd s.

Lemma Qsq (x : Q) : x ^ 2 == x * x.
Proof. simpl. ring. Qed.

Lemma fold_sums_gen (l : list (Q * Q)) (s : lsq_state) :
  st1 (fold_left lsq_step l s) == st1 s + Sx l /\
  st2 (fold_left lsq_step l s) == st2 s + Sy l /\
  st3 (fold_left lsq_step l s) == st3 s + Sxx l /\
  st4 (fold_left lsq_step l s) == st4 s + Sxy l.
Proof.
  revert s. induction l as [|[x y] t IH]; intros [[[a b] c] d].
  - unfold Sx, Sy, Sxx, Sxy, st1, st2, st3, st4; simpl. repeat split; ring.
  - cbn [fold_left]. destruct (IH (lsq_step (a, b, c, d) (x, y))) as (H1 & H2 & H3 & H4).
    rewrite H1, H2, H3, H4.
    unfold Sx, Sy, Sxx, Sxy, st1, st2, st3, st4; cbn [lsq_step sumQ fst snd].
    rewrite Qsq. repeat split; ring.
Qed.

Theorem lstsq_sums (pts : list (Q * Q)) :
  st1 (lsq_sums pts) == Sx pts /\
  st2 (lsq_sums pts) == Sy pts /\
  st3 (lsq_sums pts) == Sxx pts /\
  st4 (lsq_sums pts) == Sxy pts.
Proof.
  unfold lsq_sums. destruct (fold_sums_gen pts lsq_init) as (H1 & H2 & H3 & H4).
  rewrite H1, H2, H3, H4. unfold lsq_init, st1, st2, st3, st4; simpl.
  repeat split; ring.
Qed.

(* closed forms of the two results *)
Definition slope_cf (l : list (Q * Q)) : Q :=
  (lsq_n l * Sxy l - Sx l * Sy l) / lsq_den l.
Definition icept_cf (l : list (Q * Q)) : Q :=
  (Sy l - slope_cf l * Sx l) / lsq_n l.

Lemma lstsq_closed_form (pts : list (Q * Q)) :
  fst (lstsq pts) == slope_cf pts /\ snd (lstsq pts) == icept_cf pts.
Proof.
  unfold lstsq. destruct (lstsq_sums pts) as (H1 & H2 & H3 & H4).
  destruct (lsq_sums pts) as [[[sx sy] sxx] sxy].
  unfold st1, st2, st3, st4 in *; cbn [fst snd] in *.
  assert (Hs : (lsq_n pts * sxy - sx * sy) / (lsq_n pts * sxx - sx ^ 2) == slope_cf pts).
  { unfold slope_cf, lsq_den. rewrite Qsq, H1, H2, H3, H4. reflexivity. }
  split.
  - exact Hs.
  - unfold icept_cf. rewrite Hs, H1, H2. reflexivity.
Qed.

(* ---------- linear algebra of the sums ---------- *)

Lemma lsq_n_nil : lsq_n [] == 0.
Proof. reflexivity. Qed.

Lemma lsq_n_cons p t : lsq_n (p :: t) == lsq_n t + 1.
Proof.
  unfold lsq_n. cbn [length]. rewrite Nat2Z.inj_succ. unfold Z.succ.
  rewrite inject_Z_plus. reflexivity.
Qed.

Lemma lsq_n_nonneg l : 0 <= lsq_n l.
Proof.
  unfold lsq_n. change 0 with (inject_Z 0). rewrite <- Zle_Qle. lia.
Qed.

Lemma res1_lin l a b : res1 l a b == Sy l - a * Sx l - lsq_n l * b.
Proof.
  induction l as [|[x y] t IH].
  - unfold res1, Sy, Sx; cbn [sumQ]. rewrite lsq_n_nil. ring.
  - rewrite lsq_n_cons. unfold res1, Sy, Sx in *; cbn [sumQ fst snd]. rewrite IH. ring.
Qed.

Lemma res2_lin l a b : res2 l a b == Sxy l - a * Sxx l - b * Sx l.
Proof.
  induction l as [|[x y] t IH].
  - unfold res2, Sxy, Sxx, Sx; cbn [sumQ]. ring.
  - unfold res2, Sxy, Sxx, Sx in *; cbn [sumQ fst snd]. rewrite IH. ring.
Qed.

Lemma den_nonzero_n l : ~ lsq_den l == 0 -> ~ lsq_n l == 0.
Proof.
  intros HD Hn. apply HD. destruct l as [|p t].
  - unfold lsq_den, Sxx, Sx; cbn [sumQ]. ring.
  - exfalso. rewrite lsq_n_cons in Hn. pose proof (lsq_n_nonneg t). lra.
Qed.

(* ---------- normal equations ---------- *)

Lemma normal_cf l :
  ~ lsq_den l == 0 ->
  res1 l (slope_cf l) (icept_cf l) == 0 /\ res2 l (slope_cf l) (icept_cf l) == 0.
Proof.
  intros HD. pose proof (den_nonzero_n l HD) as Hn.
  rewrite res1_lin, res2_lin. unfold icept_cf, slope_cf.
  unfold lsq_den in *. split; field; auto.
Qed.

#[export] Instance res1_wd l : Proper (Qeq ==> Qeq ==> Qeq) (res1 l).
Proof. intros a a' Ha b b' Hb. rewrite !res1_lin, Ha, Hb. reflexivity. Qed.

#[export] Instance res2_wd l : Proper (Qeq ==> Qeq ==> Qeq) (res2 l).
Proof. intros a a' Ha b b' Hb. rewrite !res2_lin, Ha, Hb. reflexivity. Qed.

Theorem lstsq_normal (pts : list (Q * Q)) :
  ~ lsq_n pts * Sxx pts - Sx pts * Sx pts == 0 ->
  let a := fst (lstsq pts) in
  let b := snd (lstsq pts) in
  sumQ (fun p => snd p - (a * fst p + b)) pts == 0 /\
  sumQ (fun p => fst p * (snd p - (a * fst p + b))) pts == 0.
Proof.
  intros HD a b. destruct (lstsq_closed_form pts) as [Ha Hb].
  change (res1 pts a b == 0 /\ res2 pts a b == 0).
  subst a b. rewrite Ha, Hb. apply normal_cf. exact HD.
Qed.

(* ---------- optimality ---------- *)

Definition dev (l : list (Q * Q)) (da db : Q) : Q :=
  sumQ (fun p => (da * fst p + db) * (da * fst p + db)) l.

Lemma sq_nonneg (x : Q) : 0 <= x * x.
Proof. nra. Qed.

Lemma dev_nonneg l da db : 0 <= dev l da db.
Proof.
  induction l as [|[x y] t IH]; unfold dev in *; cbn [sumQ fst snd].
  - lra.
  - pose proof (sq_nonneg (da * x + db)) as H. lra.
Qed.

Lemma SSE_expand l a b a' b' :
  SSE l a' b' == SSE l a b + dev l (a' - a) (b' - b)
                 - (1 + 1) * (a' - a) * res2 l a b - (1 + 1) * (b' - b) * res1 l a b.
Proof.
  induction l as [|[x y] t IH]; unfold SSE, dev, res1, res2 in *; cbn [sumQ fst snd].
  - ring.
  - rewrite IH. ring.
Qed.

Theorem lstsq_optimal (pts : list (Q * Q)) :
  ~ lsq_n pts * Sxx pts - Sx pts * Sx pts == 0 ->
  forall a' b' : Q,
    SSE pts (fst (lstsq pts)) (snd (lstsq pts)) <= SSE pts a' b'.
Proof.
  intros HD a' b'. destruct (lstsq_normal pts HD) as [H1 H2].
  fold (res1 pts (fst (lstsq pts)) (snd (lstsq pts))) in H1.
  fold (res2 pts (fst (lstsq pts)) (snd (lstsq pts))) in H2.
  rewrite (SSE_expand pts (fst (lstsq pts)) (snd (lstsq pts)) a' b'), H1, H2.
  pose proof (dev_nonneg pts (a' - fst (lstsq pts)) (b' - snd (lstsq pts))). lra.
Qed.

(* ---------- the denominator ---------- *)

Lemma sq_to_sums x t :
  sumQ (fun q => (x - fst q) * (x - fst q)) t
  == lsq_n t * (x * x) - (1 + 1) * x * Sx t + Sxx t.
Proof.
  induction t as [|[x' y'] t IH].
  - unfold Sx, Sxx; cbn [sumQ]. rewrite lsq_n_nil. ring.
  - rewrite lsq_n_cons. unfold Sx, Sxx in *; cbn [sumQ fst snd]. rewrite IH. ring.
Qed.

Theorem lstsq_denominator (pts : list (Q * Q)) :
  lsq_n pts * Sxx pts - Sx pts * Sx pts == pair_sq pts.
Proof.
  induction pts as [|[x y] t IH].
  - unfold Sx, Sxx; cbn [sumQ pair_sq]. ring.
  - cbn [pair_sq fst]. rewrite sq_to_sums, <- IH, lsq_n_cons.
    unfold Sx, Sxx; cbn [sumQ fst snd]. ring.
Qed.

Lemma sumQ_nonneg f l : (forall p, 0 <= f p) -> 0 <= sumQ f l.
Proof.
  intros Hf. induction l as [|p t IH]; cbn [sumQ]; [lra|]. pose proof (Hf p). lra.
Qed.

Lemma pair_sq_nonneg l : 0 <= pair_sq l.
Proof.
  induction l as [|p t IH]; cbn [pair_sq]; [lra|].
  pose proof (sumQ_nonneg (fun q => (fst p - fst q) * (fst p - fst q)) t
                (fun q => sq_nonneg _)). lra.
Qed.

Theorem lstsq_denominator_nonneg (pts : list (Q * Q)) :
  0 <= lsq_n pts * Sxx pts - Sx pts * Sx pts.
Proof. rewrite lstsq_denominator. apply pair_sq_nonneg. Qed.

Lemma sq_zero (x : Q) : x * x == 0 -> x == 0.
Proof.
  intros H. destruct (Qmult_integral _ _ H); assumption.
Qed.

Lemma sumQ_zero f l :
  (forall p, 0 <= f p) -> sumQ f l == 0 -> forall p, In p l -> f p == 0.
Proof.
  intros Hf. induction l as [|q t IH]; cbn [sumQ]; intros H p Hin; [contradiction|].
  pose proof (Hf q). pose proof (sumQ_nonneg f t Hf).
  destruct Hin as [->|Hin].
  - lra.
  - apply IH; [lra|exact Hin].
Qed.

Lemma sumQ_all_zero f l : (forall p, In p l -> f p == 0) -> sumQ f l == 0.
Proof.
  induction l as [|q t IH]; cbn [sumQ]; intros H; [reflexivity|].
  rewrite (H q (or_introl eq_refl)), IH; [ring|]. intros p Hp. apply H. right. exact Hp.
Qed.

Definition same_x (l : list (Q * Q)) : Prop :=
  forall p q, In p l -> In q l -> fst p == fst q.

Lemma pair_sq_zero_iff l : pair_sq l == 0 <-> same_x l.
Proof.
  induction l as [|p t IH]; cbn [pair_sq].
  - split; [intros _ ? ? []|reflexivity].
  - pose proof (pair_sq_nonneg t) as Hp.
    pose proof (sumQ_nonneg (fun q => (fst p - fst q) * (fst p - fst q)) t
                  (fun q => sq_nonneg _)) as Hs.
    split.
    + intros H.
      assert (H1 : sumQ (fun q => (fst p - fst q) * (fst p - fst q)) t == 0) by lra.
      assert (H2 : pair_sq t == 0) by lra.
      assert (Hall : forall q, In q t -> fst p == fst q).
      { intros q Hq.
        pose proof (sumQ_zero _ t (fun q => sq_nonneg _) H1 q Hq) as Hz.
        cbv beta in Hz. apply sq_zero in Hz. lra. }
      intros q r [->|Hq] [->|Hr].
      * reflexivity.
      * apply Hall, Hr.
      * symmetry. apply Hall, Hq.
      * apply IH; assumption.
    + intros Hsame.
      assert (H2 : pair_sq t == 0).
      { apply IH. intros q r Hq Hr. apply Hsame; right; assumption. }
      rewrite H2, sumQ_all_zero; [ring|].
      intros q Hq. cbv beta.
      rewrite (Hsame p q (or_introl eq_refl) (or_intror Hq)). ring.
Qed.

Theorem lstsq_denominator_zero_iff (pts : list (Q * Q)) :
  lsq_n pts * Sxx pts - Sx pts * Sx pts == 0 <-> same_x pts.
Proof. rewrite lstsq_denominator. apply pair_sq_zero_iff. Qed.

Lemma same_x_dec l : {same_x l} + {exists p q, In p l /\ In q l /\ ~ fst p == fst q}.
Proof.
  destruct l as [|p0 t].
  - left. intros ? ? [].
  - destruct (Forall_Exists_dec (fun q => fst p0 == fst q)
                (fun q => Qeq_dec (fst p0) (fst q)) (p0 :: t)) as [HF|HE].
    + left. rewrite Forall_forall in HF. intros p q Hp Hq.
      rewrite <- (HF p Hp), <- (HF q Hq). reflexivity.
    + right. rewrite Exists_exists in HE. destruct HE as (q & Hq & Hne).
      exists p0, q. repeat split; [left; reflexivity|exact Hq|exact Hne].
Qed.

(* the hypothesis of the theorems holds exactly when two points have different x *)
Theorem lstsq_denominator_nonzero_iff (pts : list (Q * Q)) :
  ~ lsq_n pts * Sxx pts - Sx pts * Sx pts == 0 <->
  exists p q, In p pts /\ In q pts /\ ~ fst p == fst q.
Proof.
  rewrite lstsq_denominator_zero_iff. split.
  - intros H. destruct (same_x_dec pts) as [Hs|He]; [contradiction|exact He].
  - intros (p & q & Hp & Hq & Hne) Hs. apply Hne, Hs; assumption.
Qed.

(* ---------- exact recovery of a line ---------- *)

Theorem lstsq_exact_line (pts : list (Q * Q)) (a b : Q) :
  (forall p, In p pts -> snd p == a * fst p + b) ->
  (exists p q, In p pts /\ In q pts /\ ~ fst p == fst q) ->
  fst (lstsq pts) == a /\ snd (lstsq pts) == b.
Proof.
  intros Hline Hex. apply lstsq_denominator_nonzero_iff in Hex.
  fold (lsq_den pts) in Hex. pose proof (den_nonzero_n pts Hex) as Hn.
  assert (H1 : res1 pts a b == 0).
  { apply sumQ_all_zero. intros p Hp. cbv beta. rewrite (Hline p Hp). ring. }
  assert (H2 : res2 pts a b == 0).
  { apply sumQ_all_zero. intros p Hp. cbv beta. rewrite (Hline p Hp). ring. }
  rewrite res1_lin in H1. rewrite res2_lin in H2.
  assert (Ey : Sy pts == a * Sx pts + lsq_n pts * b) by lra.
  assert (Exy : Sxy pts == a * Sxx pts + b * Sx pts) by lra.
  destruct (lstsq_closed_form pts) as [Ha Hb].
  assert (Hs : slope_cf pts == a).
  { unfold slope_cf. rewrite Ey, Exy. unfold lsq_den in *. field. exact Hex. }
  split.
  - rewrite Ha. exact Hs.
  - rewrite Hb. unfold icept_cf. rewrite Hs, Ey. field. exact Hn.
Qed.

(* ---------- two points: the two slope methods agree ---------- *)

Theorem lstsq_two_points (x1 y1 x2 y2 : Q) :
  ~ x1 == x2 ->
  slope_lstsq [(x1, y1); (x2, y2)] == slope_mean [(x1, y1); (x2, y2)].
Proof.
  intros Hne. unfold slope_lstsq, slope_mean. cbn [hd last fst snd].
  destruct (lstsq_closed_form [(x1, y1); (x2, y2)]) as [Ha _].
  rewrite Ha. apply Qabs_wd.
  unfold slope_cf, lsq_den, Sx, Sy, Sxx, Sxy. cbn [sumQ fst snd].
  assert (Hn : lsq_n [(x1, y1); (x2, y2)] == 1 + 1) by reflexivity.
  rewrite Hn. field. split.
  - intros H. apply Hne. lra.
  - intros H. assert (H' : (x1 - x2) * (x1 - x2) == 0) by (rewrite <- H; ring).
    apply sq_zero in H'. apply Hne. lra.
Qed.

(* ---------- example ---------- *)

Example lstsq_example :
  let pts := [(0, 1); (1, 3); (2, 5); (3, 7)] in
  (Qred (fst (lstsq pts)), Qred (snd (lstsq pts)),
   Qred (slope_lstsq pts), Qred (slope_mean pts)) = (2, 1, 2, 2).
Proof. vm_compute. reflexivity. Qed.

Example lstsq_example_noisy :
  let pts := [(0, 1); (10, 3 # 2); (25, 4); (40, 9 # 2)] in
  (Qred (fst (lstsq pts)), Qred (snd (lstsq pts)),
   Qred (slope_lstsq pts), Qred (slope_mean pts)) = (71 # 735, 46 # 49, 71 # 735, 7 # 80).
Proof. vm_compute. reflexivity. Qed.

Print Assumptions lstsq_sums.
Print Assumptions lstsq_normal.
Print Assumptions lstsq_optimal.
Print Assumptions lstsq_denominator.
Print Assumptions lstsq_denominator_nonneg.
Print Assumptions lstsq_denominator_zero_iff.
Print Assumptions lstsq_denominator_nonzero_iff.
Print Assumptions lstsq_exact_line.
Print Assumptions lstsq_two_points.
Print Assumptions lstsq_example.
Print Assumptions lstsq_example_noisy.
