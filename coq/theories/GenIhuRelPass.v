(* ihu_relocate_outlets, STEP 4: the for loop @4A (one pass, gen_ihu_ihu_relocate_outlets_walk8_body) and the loop
   `while len(bottleneck) > nbottlenecks` (gen_ihu_ihu_relocate_outlets_walk8, first pass written out at the call site)
   = Ihu.rl_passes. *)
From Coq Require Import List Arith ZArith Bool Lia.
Import ListNotations.
From PF Require Import Arr Upscale D8Idx Ihu GenIhuBaseEq GenIhuRelDefs GenIhuRelTrib GenIhuRelStep.
From PFG Require Import GenUpscale GenIhu.

(* (1) a T15 whose projection is core15 s is an encoding of s *)
Lemma prj15_enc t s : prj15 t = core15 s -> exists g1 g2 dsl, t = enc15 s g1 g2 dsl.
Proof.
  destruct t as [[[[[[[[[[[[[[c o] n] g1] g2] i1] b] so] io] dsl] dd] d0] i0] j0] k0].
  unfold prj15, core15, core, enc15. intros H. exists g1, g2, dsl. congruence.
Qed.

(* output of walk8_body / walk8: idxs_ds, subidxs_out, nextiter, idx_ds0, subidx, idx1, bottleneck, nbottlenecks,
   subidx0_out_lst, idx_out_lst, idx_ds0_lst, idx0_lst *)
Definition T12w := (list nat * list nat * bool * Z * nat * Z * list nat * Z * list nat * list nat * list nat * list nat)%type.
(* core, idx1, nbottlenecks *)
Definition prjB (t : T12w) : Core * Z * Z :=
  let '(c, o, n, _, _, z, b, nb, so, io, dd, d0) := t in ((c, o, n, b, so, io, dd, d0), z, nb).
(* core, idx1 *)
Definition prjW (t : T12w) : Core * Z :=
  let '(c, o, n, _, _, z, b, _, so, io, dd, d0) := t in ((c, o, n, b, so, io, dd, d0), z).
Definition outW (s : S4) (g1 : Z) (g2 : nat) (nb : Z) : T12w :=
  (s_cds s, s_out s, s_next s, g1, g2, Z.of_nat (s_idx1 s), s_bott s, nb,
   map snd (s_chg_out s), map fst (s_chg_out s), map snd (s_chg_ds s), map fst (s_chg_ds s)).

Lemma prjW_out t s : prjW t = (core s, Z.of_nat (s_idx1 s)) -> exists g1 g2 nb, t = outW s g1 g2 nb.
Proof.
  destruct t as [[[[[[[[[[[c o] n] g1] g2] z] b] nb] so] io] dd] d0].
  unfold prjW, core, outW. intros H. exists g1, g2, nb. congruence.
Qed.

Lemma zgtb_nat' a b : (Z.of_nat a >? Z.of_nat b)%Z = (b <? a)%nat.
Proof. rewrite Z.gtb_ltb. destruct (Nat.ltb_spec b a); [apply Z.ltb_lt|apply Z.ltb_ge]; lia. Qed.

(* the error flag of the model is sticky through one step *)
Lemma rl_step_ok_false sds subncol cs nrow ncol il sl us0 sds0 conn conn1 s j :
  s_ok s = false -> s_ok (rl_step sds subncol cs nrow ncol il sl us0 sds0 conn conn1 s j) = false.
Proof.
  intros H. unfold rl_step. destruct (s_next s) eqn:En; [exact H|]. cbv zeta.
  cbn [s_cds s_out s_bott s_next s_chg_ds s_chg_out s_idx0 s_j0 s_k0 s_idx1 s_ok].
  repeat match goal with |- s_ok (if ?c then _ else _) = false => destruct c end;
    try (unfold s4_unroll; cbn [s_ok]); try exact H.
  all: apply rl_main_tribs_frame.
  all: match goal with |- s_ok (s4_set_out _ (s4_set_ds _ _ ?s0 ?a ?b) ?c ?d) = false =>
         apply (fr_trans _ _ _ (fr_set_ds nrow ncol s0 a b) (fr_set_out sds _ c d)) end.
  all: exact H.
Qed.

Section Pass.
Variable sds : list nat.
Variables subncol cs nrow ncol : nat.
Variables il sl us0 sds0 conn conn1 : list nat.
Variable idx00 : nat.
Notation nsub := (length sds).
Notation nc := (nrow * ncol)%nat.
Notation shape := (Z.of_nat nrow, Z.of_nat ncol).
Notation step9 := (gen_ihu_ihu_relocate_outlets_step9 (S nsub) sds shape (Z.of_nat cs) nsub nc (Z.of_nat subncol) (Z.of_nat ncol)
                     il sl (length sl) (map Z.of_nat conn) us0 sds0 (map Z.of_nat conn1)).
Notation body := (gen_ihu_ihu_relocate_outlets_walk8_body (S nsub) sds shape (Z.of_nat cs) nsub nc (Z.of_nat subncol) (Z.of_nat ncol)
                     idx00 il sl (length sl) (map Z.of_nat conn) us0 sds0 (map Z.of_nat conn1)).
Notation walk8 := (gen_ihu_ihu_relocate_outlets_walk8 (S nsub) sds shape (Z.of_nat cs) nsub nc (Z.of_nat subncol) (Z.of_nat ncol)
                     idx00 il sl (length sl) (map Z.of_nat conn) us0 sds0 (map Z.of_nat conn1)).
Notation rstep := (rl_step sds subncol cs nrow ncol il sl us0 sds0 conn conn1).
Notation rpasses := (rl_passes sds subncol cs nrow ncol il sl us0 sds0 conn conn1).

(* one step: GenIhuRelStep.rel_step_eq, its premise on loop @4C discharged by GenIhuRelTrib.rel_main_tribs_eq *)
Lemma rel_step_eq' : forall s j g1 g2 dsl, s_ok s = true -> length il = length sl ->
  option_map prj15 (step9 (enc15 s g1 g2 dsl) j) = (let s' := rstep s j in if s_ok s' then Some (core15 s') else None).
Proof.
  intros s j g1 g2 dsl Hok Hlen.
  apply GenIhuRelStep.rel_step_eq; try assumption; intros; apply GenIhuRelTrib.rel_main_tribs_eq; assumption.
Qed.
Let rstep_ok_false : forall s j, s_ok s = false -> s_ok (rstep s j) = false :=
  rl_step_ok_false sds subncol cs nrow ncol il sl us0 sds0 conn conn1.

(* the error flag of the model is sticky through the fold *)
Lemma rfold_ok_false l : forall s, s_ok s = false -> s_ok (fold_left rstep l s) = false.
Proof. induction l as [|j l IH]; intros s H; cbn [fold_left]; [exact H|]. apply IH, rstep_ok_false, H. Qed.

(* (2) the fold *)
Lemma rel_fold_eq l : forall s g1 g2 dsl, s_ok s = true -> length il = length sl ->
  option_map prj15 (ofold step9 l (enc15 s g1 g2 dsl))
  = (let s' := fold_left rstep l s in if s_ok s' then Some (core15 s') else None).
Proof.
  induction l as [|j l IH]; intros s g1 g2 dsl Hok Hlen.
  - rewrite ofold_nil. cbn [fold_left option_map]. cbv zeta. rewrite Hok. reflexivity.
  - rewrite ofold_cons. cbn [fold_left]. cbv zeta.
    pose proof (rel_step_eq' s j g1 g2 dsl Hok Hlen) as H. cbv zeta in H.
    destruct (step9 (enc15 s g1 g2 dsl) j) as [t|]; cbn [option_map] in H.
    + destruct (s_ok (rstep s j)) eqn:Hok'; [|discriminate H].
      injection H as H. apply prj15_enc in H. destruct H as (g1' & g2' & dsl' & ->).
      apply (IH _ g1' g2' dsl' Hok' Hlen).
    + destruct (s_ok (rstep s j)) eqn:Hok'; [discriminate H|].
      rewrite (rfold_ok_false l _ Hok'). reflexivity.
Qed.

(* (3) when nextiter = false the incoming idx1 is overwritten before it is read *)
Lemma step9_idx1_irrel (c o : list nat) (g1 : Z) (g2 : nat) (z z' : Z) (b so io dsl dd d0 : list nat) (i0 j0 k0 : Z) j :
  step9 (c, o, false, g1, g2, z, b, so, io, dsl, dd, d0, i0, j0, k0) j
  = step9 (c, o, false, g1, g2, z', b, so, io, dsl, dd, d0, i0, j0, k0) j.
Proof. reflexivity. Qed.

Lemma rstep_idx1_irrel c o b cd co i0 j0 k0 i1 i1' ok j :
  rstep (mkS4 c o b false cd co i0 j0 k0 i1 ok) j = rstep (mkS4 c o b false cd co i0 j0 k0 i1' ok) j.
Proof. reflexivity. Qed.

(* (4) one pass *)
Definition rl_init (c o b : list nat) (i1 : nat) (ok : bool) : S4 := mkS4 c o b false [] [] idx00 0 0 i1 ok.
Definition rl_pass (c o b : list nat) (i1 : nat) (ok : bool) : S4 := fold_left rstep (seq 0 (length sl)) (rl_init c o b i1 ok).

Lemma seq0_cons n : 0 < n -> seq 0 n = 0 :: seq 1 (pred n).
Proof. destruct n; [lia|reflexivity]. Qed.

Lemma rl_pass_idx1_irrel c o b i1 i1' ok : 0 < length sl -> rl_pass c o b i1 ok = rl_pass c o b i1' ok.
Proof.
  intros Hpos. unfold rl_pass, rl_init. rewrite (seq0_cons _ Hpos). cbn [fold_left].
  rewrite (rstep_idx1_irrel c o b [] [] idx00 0 0 i1 i1' ok 0). reflexivity.
Qed.

Lemma rl_pass_ok_false c o b i1 : s_ok (rl_pass c o b i1 false) = false.
Proof. apply rfold_ok_false. reflexivity. Qed.

Lemma rel_pass_eq c o nx g1 g2 z b nb i1 : 0 < length sl -> length il = length sl ->
  option_map prjB (body (c, o, nx, g1, g2, z, b, nb))
  = (let s' := rl_pass c o b i1 true in
     if s_ok s' then Some (core s', Z.of_nat (s_idx1 s'), Z.of_nat (length b)) else None).
Proof.
  intros Hpos Hlen. unfold gen_ihu_ihu_relocate_outlets_walk8_body. cbv zeta.
  assert (E : ofold step9 (seq 0 (length sl)) (c, o, false, g1, g2, z, b, [], [], [], [], [], Z.of_nat idx00, 0%Z, 0%Z)
              = ofold step9 (seq 0 (length sl)) (enc15 (rl_init c o b i1 true) g1 g2 [])).
  { rewrite (seq0_cons _ Hpos), !ofold_cons. unfold enc15, rl_init.
    cbn [s_cds s_out s_bott s_next s_chg_ds s_chg_out s_idx0 s_j0 s_k0 s_idx1 s_ok map].
    rewrite (step9_idx1_irrel c o g1 g2 z (Z.of_nat i1)). reflexivity. }
  rewrite E. clear E.
  pose proof (rel_fold_eq (seq 0 (length sl)) (rl_init c o b i1 true) g1 g2 [] eq_refl Hlen) as H. cbv zeta in H.
  fold (rl_pass c o b i1 true) in H.
  destruct (ofold step9 (seq 0 (length sl)) (enc15 (rl_init c o b i1 true) g1 g2 [])) as [t|]; cbn [option_map] in H.
  - destruct (s_ok (rl_pass c o b i1 true)); [|discriminate H].
    injection H as H.
    destruct t as [[[[[[[[[[[[[[c' o'] n'] g1'] g2'] z'] b'] so] io] dsl] dd] d0] i0'] j0'] k0'].
    unfold prj15, core15, core in H. cbn [option_map prjB]. unfold core. injection H; intros; subst. reflexivity.
  - destruct (s_ok (rl_pass c o b i1 true)); [discriminate H|]. reflexivity.
Qed.

(* the exists form of (4) *)
Lemma rel_pass_spec c o nx g1 g2 z b nb i1 : 0 < length sl -> length il = length sl ->
  let s' := rl_pass c o b i1 true in
  (s_ok s' = false -> body (c, o, nx, g1, g2, z, b, nb) = None) /\
  (s_ok s' = true -> exists g1' g2', body (c, o, nx, g1, g2, z, b, nb) = Some (outW s' g1' g2' (Z.of_nat (length b)))).
Proof.
  intros Hpos Hlen s'. pose proof (rel_pass_eq c o nx g1 g2 z b nb i1 Hpos Hlen) as H. cbv zeta in H. fold s' in H.
  split; intros Hok; rewrite Hok in H.
  - destruct (body _); [discriminate H|reflexivity].
  - destruct (body _) as [t|]; [|discriminate H]. cbn [option_map] in H. injection H as H.
    destruct t as [[[[[[[[[[[c' o'] n'] g1'] g2'] z'] b'] nb'] so] io] dd] d0].
    unfold prjB, core in H. exists g1', g2'. unfold outW. injection H; intros; subst c' o' n' z' b' nb' so io dd d0. reflexivity.
Qed.

Lemma rel_pass_nil c o nx g1 g2 z b nb : sl = [] ->
  body (c, o, nx, g1, g2, z, b, nb) = Some (c, o, false, g1, g2, z, b, Z.of_nat (length b), [], [], [], []).
Proof. intros ->. reflexivity. Qed.

(* (5) the loop, with the first pass written out as at the call site in gen_ihu_ihu_relocate_outlets_step1 *)
Definition rel_G (pf : nat) (st : list nat * list nat * bool * Z * nat * Z * list nat * Z) : option T12w :=
  match body st with
  | None => None
  | Some (c', o', n', g1', g2', z', b', nb', so, io, dd, d0) => walk8 pf (c', o', n', g1', g2', z', b', nb') (so, io, dd, d0)
  end.

Lemma rl_passes_unfold pf c o b i1 ok :
  rpasses pf c o b idx00 i1 ok
  = let s := rl_pass c o b i1 ok in
    match pf with
    | O => s4_fail s
    | S f => if length b <? length (s_bott s) then rpasses f (s_cds s) (s_out s) (s_bott s) idx00 (s_idx1 s) (s_ok s) else s
    end.
Proof. destruct pf; reflexivity. Qed.

Lemma rl_passes_ok_false pf : forall c o b i1, s_ok (rpasses pf c o b idx00 i1 false) = false.
Proof.
  induction pf as [|f IH]; intros c o b i1; rewrite rl_passes_unfold; cbv zeta.
  - reflexivity.
  - pose proof (rl_pass_ok_false c o b i1) as H.
    destruct (length b <? length (s_bott (rl_pass c o b i1 false))); [|exact H].
    rewrite H. apply IH.
Qed.

Theorem rel_passes_eq : 0 < length sl -> length il = length sl ->
  forall pf c o b i1 z nx g1 g2 nb,
  option_map prjW (rel_G pf (c, o, nx, g1, g2, z, b, nb))
  = (let s := rpasses pf c o b idx00 i1 true in if s_ok s then Some (core s, Z.of_nat (s_idx1 s)) else None).
Proof.
  intros Hpos Hlen. induction pf as [|f IH]; intros c o b i1 z nx g1 g2 nb.
  - rewrite rl_passes_unfold. cbv zeta. unfold s4_fail. cbn [s_ok]. unfold rel_G.
    destruct (body _) as [t|]; [|reflexivity].
    destruct t as [[[[[[[[[[[c' o'] n'] g1'] g2'] z'] b'] nb'] so] io] dd] d0]. reflexivity.
  - rewrite rl_passes_unfold. cbv zeta.
    pose proof (rel_pass_eq c o nx g1 g2 z b nb i1 Hpos Hlen) as H. cbv zeta in H.
    unfold rel_G. set (s' := rl_pass c o b i1 true) in *.
    destruct (body (c, o, nx, g1, g2, z, b, nb)) as [t|]; cbn [option_map] in H.
    + destruct (s_ok s') eqn:Hok; [|discriminate H]. injection H as H.
      destruct t as [[[[[[[[[[[c' o'] n'] g1'] g2'] z'] b'] nb'] so] io] dd] d0].
      unfold prjB, core in H. injection H as Hc Ho Hn Hb Hso Hio Hdd Hd0 Hz Hnb.
      subst c' o' n' b' so io dd d0 z' nb'.
      cbn [gen_ihu_ihu_relocate_outlets_walk8]. rewrite zgtb_nat'.
      destruct (length b <? length (s_bott s')).
      * specialize (IH (s_cds s') (s_out s') (s_bott s') (s_idx1 s') (Z.of_nat (s_idx1 s')) (s_next s') g1' g2' (Z.of_nat (length b))).
        unfold rel_G in IH. exact IH.
      * cbn [option_map prjW]. rewrite Hok. reflexivity.
    + destruct (s_ok s') eqn:Hok; [discriminate H|]. cbn [option_map].
      destruct (length b <? length (s_bott s')); [|rewrite Hok; reflexivity].
      rewrite rl_passes_ok_false. reflexivity.
Qed.

(* the exists form *)
Theorem rel_passes_spec : 0 < length sl -> length il = length sl ->
  forall pf c o b i1 z nx g1 g2 nb,
  let s := rpasses pf c o b idx00 i1 true in
  (s_ok s = false -> rel_G pf (c, o, nx, g1, g2, z, b, nb) = None) /\
  (s_ok s = true -> exists g1' g2' nb', rel_G pf (c, o, nx, g1, g2, z, b, nb) = Some (outW s g1' g2' nb')).
Proof.
  intros Hpos Hlen pf c o b i1 z nx g1 g2 nb s.
  pose proof (rel_passes_eq Hpos Hlen pf c o b i1 z nx g1 g2 nb) as H. cbv zeta in H. fold s in H.
  split; intros Hok; rewrite Hok in H.
  - destruct (rel_G _ _); [discriminate H|reflexivity].
  - destruct (rel_G _ _) as [t|]; [|discriminate H]. cbn [option_map] in H. injection H as H.
    apply prjW_out in H. destruct H as (g1' & g2' & nb' & ->). exists g1', g2', nb'. reflexivity.
Qed.

(* no alternative outlet pixel *)
Theorem rel_passes_nil : sl = [] -> forall pf c o b i1 ok z nx g1 g2 nb,
  rel_G pf (c, o, nx, g1, g2, z, b, nb)
  = match pf with O => None | S _ => Some (c, o, false, g1, g2, z, b, Z.of_nat (length b), [], [], [], []) end
  /\ rpasses pf c o b idx00 i1 ok
     = match pf with O => s4_fail (rl_init c o b i1 ok) | S _ => rl_init c o b i1 ok end.
Proof.
  intros Hsl pf c o b i1 ok z nx g1 g2 nb. split.
  - unfold rel_G. rewrite (rel_pass_nil c o nx g1 g2 z b nb Hsl).
    destruct pf as [|f]; [reflexivity|]. cbn [gen_ihu_ihu_relocate_outlets_walk8].
    rewrite zgtb_nat', Nat.ltb_irrefl. reflexivity.
  - rewrite rl_passes_unfold. cbv zeta. unfold rl_pass. rewrite Hsl. cbn [length seq fold_left].
    destruct pf as [|f]; [reflexivity|]. unfold rl_init at 1. cbn [s_bott]. rewrite Nat.ltb_irrefl. reflexivity.
Qed.

(* the call site: bottleneck = [], nbottlenecks = -1 *)
Lemma rel_call_site pf c o nx g1 g2 z :
  (if (Z.of_nat (length (@nil nat)) >? -1)%Z then
     match body (c, o, nx, g1, g2, z, [], (-1)%Z) with
     | None => None
     | Some (c', o', n', g1', g2', z', b', nb', so, io, dd, d0) => walk8 pf (c', o', n', g1', g2', z', b', nb') (so, io, dd, d0)
     end
   else None) = rel_G pf (c, o, nx, g1, g2, z, [], (-1)%Z).
Proof. reflexivity. Qed.

End Pass.

Print Assumptions rel_fold_eq.
Print Assumptions rel_pass_eq.
Print Assumptions rel_passes_eq.
Print Assumptions rel_passes_spec.
Print Assumptions rel_passes_nil.
Print Assumptions rl_passes_ok_false.
Print Assumptions rel_pass_spec.
Print Assumptions rel_pass_nil.
Print Assumptions rel_call_site.
Print Assumptions rl_step_ok_false.
Print Assumptions step9_idx1_irrel.
Print Assumptions rstep_idx1_irrel.
Print Assumptions rl_pass_idx1_irrel.
