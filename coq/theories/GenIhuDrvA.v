(* Driver upscale.ihu, part A: facts on the MODEL (Ihu.v) that the equivalence proof of the generated driver needs.
   1. every stage of the model (relocate, optimize_rivlen, minimize_error) preserves the lengths of a_cds and a_out
      (they only ever `upd`);
   2. relocate does not read the streams: it commutes with replacing a_st;
   3. the error flag is sticky through relocate. *)
From Coq Require Import List Arith ZArith Bool Lia.
Import ListNotations.
From PF Require Import Arr Net Elev Upscale D8Idx Ihu.

Lemma drv_fold_inv {S X : Type} (P : S -> Prop) (f : S -> X -> S) (l : list X) :
  forall a, P a -> (forall a x, P a -> P (f a x)) -> P (fold_left f l a).
Proof.
  induction l as [|h t IH]; intros a Ha Hstep; cbn [fold_left]; [exact Ha|].
  apply IH; [apply Hstep; exact Ha|exact Hstep].
Qed.

Section DrvLen.
Variable sds : list nat.
Variable upa : list Z.
Variables subncol cs nrow ncol : nat.
Variables n m : nat.
Notation nsub := (length sds).
Notation nc := (nrow * ncol).

Definition AL (a : A) : Prop := length (a_cds a) = n /\ length (a_out a) = m.

Lemma new_outlet_AL a idx0 subidx0 tgt : AL a ->
  AL (fst (new_outlet sds upa subncol cs ncol a idx0 subidx0 tgt)).
Proof.
  intros [H1 H2]. unfold new_outlet. cbv zeta.
  match goal with |- context [fold_left ?f ?l ?i] => destruct (fold_left f l i) as [[u b] ok] end.
  destruct b as [[[so idx_ds] p]|]; cbn [fst]; split; cbn [a_cds a_out]; rewrite ?upd_length; assumption.
Qed.

Lemma opt_one_AL valid a idx0 : AL a ->
  AL (fst (opt_one sds upa subncol cs nrow ncol valid a idx0)).
Proof.
  intros H. unfold opt_one. cbv zeta.
  match goal with |- context [if ?c then _ else _] => destruct c end; [exact H|].
  match goal with |- context [if ?c then _ else _] => destruct c end; [|exact H].
  pose proof (new_outlet_AL a idx0 (nth idx0 (a_out a) nsub) None H) as H1.
  destruct (new_outlet sds upa subncol cs ncol a idx0 (nth idx0 (a_out a) nsub) None) as [a1 success].
  cbn [fst] in H1. destruct success; [|exact H1]. cbn [fst].
  apply drv_fold_inv; [exact H1|]. intros a' idx [Ha1 Ha2].
  destruct (nth idx valid true).
  - destruct (idx =? nth idx0 (a_cds a) nc); [split; assumption|].
    split; cbn [set_cds a_cds a_out]; rewrite ?upd_length; assumption.
  - destruct (nth idx0 (a_cds a') nc =? idx); [|split; assumption].
    split; cbn [set_cds set_out set_st a_cds a_out]; rewrite ?upd_length; assumption.
Qed.

Lemma optimize_rivlen_AL valid short a : AL a ->
  AL (optimize_rivlen sds upa subncol cs nrow ncol valid short a).
Proof.
  intros H. unfold optimize_rivlen. apply drv_fold_inv; [exact H|]. intros a' i Ha'. cbv zeta.
  pose proof (opt_one_AL valid a' i Ha') as H1.
  destruct (opt_one sds upa subncol cs nrow ncol valid a' i) as [a1 brk]. cbn [fst] in H1.
  destruct brk; [exact H1|]. apply opt_one_AL. exact H1.
Qed.

Lemma me_scan_len cds out idxs idx0 nb :
  length (sc_cds (me_scan sds upa nrow ncol cds out idxs idx0 nb)) = length cds.
Proof.
  unfold me_scan. apply (drv_fold_inv (fun s => length (sc_cds s) = length cds)); [reflexivity|].
  intros s idx1 Hs. cbv zeta.
  destruct (nsub <=? nth idx1 out nsub); [exact Hs|].
  destruct (me_chain nrow ncol (S (S nc)) (sc_cds s) idxs idx0 idx1 0 (sc_dist s)) as [d0| |]; [| |exact Hs].
  - match goal with |- context [if ?c then _ else _] => destruct c end; [|exact Hs].
    match goal with |- context [if ?c then _ else _] => destruct c end; [exact Hs|].
    cbn [sc_cds]. rewrite upd_length. exact Hs.
  - match goal with |- context [if ?c then _ else _] => destruct c end; exact Hs.
Qed.

Lemma me_hw_AL idxs hw : forall a, AL a -> AL (me_hw sds upa subncol cs nrow ncol a idxs hw).
Proof.
  induction hw as [|idx t IH]; intros a H; cbn [me_hw]; [exact H|].
  pose proof (new_outlet_AL a idx (nth idx (a_out a) nsub) (Some (nth (nth 0 idxs nc) (a_out a) nsub)) H) as H1.
  destruct (new_outlet sds upa subncol cs ncol a idx (nth idx (a_out a) nsub) (Some (nth (nth 0 idxs nc) (a_out a) nsub)))
    as [a1 fixed1].
  cbn [fst] in H1. destruct fixed1; [exact H1|]. apply IH. exact H1.
Qed.

Lemma me_rounds_AL idxs idx0 nb k :
  forall a, AL a -> AL (me_rounds sds upa subncol cs nrow ncol k a idxs idx0 nb).
Proof.
  induction k as [|k IH]; intros a H; cbn [me_rounds]; [exact H|]. cbv zeta.
  assert (Hs : AL (mkA (sc_cds (me_scan sds upa nrow ncol (a_cds a) (a_out a) idxs idx0 nb)) (a_out a) (a_st a) (a_err a))).
  { destruct H as [H1 H2]. split; cbn [a_cds a_out]; [rewrite me_scan_len|]; assumption. }
  match goal with |- context [if ?c then _ else _] => destruct c end; [|exact Hs].
  apply IH. apply me_hw_AL. exact Hs.
Qed.

Lemma me_one_AL poc a idx0 : AL a -> AL (me_one sds upa subncol cs nrow ncol poc a idx0).
Proof.
  intros H. unfold me_one. cbv zeta.
  destruct (me_path sds ncol (S nsub) (a_st a) idx0 (nth idx0 (a_out a) nsub) []) as [[[idxs subidx] subidx_ds]|];
    [|exact H].
  match goal with |- context [if ?c then _ else _] => destruct c end.
  - destruct H as [H1 H2]. split; cbn [set_out set_cds set_st a_cds a_out]; rewrite upd_length; assumption.
  - match goal with |- context [if ?c then new_outlet _ _ _ _ _ _ _ _ _ else _] => destruct c end.
    + pose proof (new_outlet_AL a idx0 (nth idx0 (a_out a) nsub) None H) as H1.
      destruct (new_outlet sds upa subncol cs ncol a idx0 (nth idx0 (a_out a) nsub) None) as [a1 fixed].
      cbn [fst] in H1. destruct fixed; [exact H1|]. apply me_rounds_AL. exact H1.
    + apply me_rounds_AL. exact H.
Qed.

Lemma minimize_error_AL fixl poc a : AL a -> AL (minimize_error sds upa subncol cs nrow ncol fixl poc a).
Proof.
  intros H. unfold minimize_error. cbv zeta. apply drv_fold_inv; [exact H|]. intros a' i0 Ha'. apply me_one_AL. exact Ha'.
Qed.

(* ---------- ihu_relocate_outlets ---------- *)
Definition SL (s : S4) : Prop := length (s_cds s) = n /\ length (s_out s) = m.

Lemma s4_set_ds_SL s i v : SL s -> SL (s4_set_ds nrow ncol s i v).
Proof.
  intros [H1 H2]. unfold s4_set_ds. destruct (nth i (s_cds s) nc =? v); [split; assumption|].
  split; cbn [s_cds s_out]; rewrite ?upd_length; assumption.
Qed.

Lemma s4_set_out_SL s i v : SL s -> SL (s4_set_out sds s i v).
Proof.
  intros [H1 H2]. unfold s4_set_out. destruct (v =? nth i (s_out s) nsub); [split; assumption|].
  split; cbn [s_cds s_out]; rewrite ?upd_length; assumption.
Qed.

Lemma upd_fold_len {T} (l : list (nat * T)) : forall (x : list T),
  length (fold_left (fun l p => upd l (fst p) (snd p)) l x) = length x.
Proof. induction l as [|p t IH]; intros x; cbn [fold_left]; [reflexivity|]. rewrite IH. apply upd_length. Qed.

Lemma s4_unroll_SL s : SL s -> SL (s4_unroll s).
Proof.
  intros [H1 H2]. unfold s4_unroll. cbv zeta. split; cbn [s_cds s_out]; rewrite upd_fold_len; assumption.
Qed.

Lemma rl_trib_SL fuel : forall s idx0 subidx_ds0 subidx idx_ds0 path, SL s ->
  SL (rl_trib sds subncol cs nrow ncol fuel s idx0 subidx_ds0 subidx idx_ds0 path).
Proof.
  induction fuel as [|f IH]; intros s idx0 subidx_ds0 subidx idx_ds0 path H; cbn [rl_trib]; [exact H|]. cbv zeta.
  match goal with |- context [if ?c then _ else _] => destruct c end.
  - match goal with |- context [if ?c then _ else _] => destruct c end; [exact H|].
    match goal with |- context [if ?c then _ else _] => destruct c end; [|exact H].
    apply s4_set_ds_SL. exact H.
  - match goal with |- context [match ?m with Some s' => s' | None => _ end] => destruct m as [s'|] eqn:Em end;
      [|apply IH; exact H].
    match type of Em with (if ?c then _ else _) = _ => destruct c eqn:Ec end; [|discriminate].
    destruct (next_outlet sds subncol cs ncol (S nsub) (s_out s) subidx) as [[[x idx_ds00] outlet0]|];
      [|inversion Em; exact H].
    match type of Em with (if ?c then _ else _) = _ => destruct c eqn:Ec2 end; [|discriminate].
    inversion Em. apply s4_set_out_SL. apply s4_set_ds_SL. apply s4_set_ds_SL. exact H.
Qed.

Lemma rl_main_tribs_SL us0 sds0 s ks : SL s -> SL (rl_main_tribs sds subncol cs nrow ncol us0 sds0 s ks).
Proof.
  intros H. unfold rl_main_tribs. apply drv_fold_inv; [exact H|]. intros s' k Hs'. cbv zeta.
  destruct (in_out s' (nth k us0 nc)); [exact Hs'|]. apply rl_trib_SL. exact Hs'.
Qed.

Lemma rl_step_SL il sl us0 sds0 conn conn1 s j : SL s ->
  SL (rl_step sds subncol cs nrow ncol il sl us0 sds0 conn conn1 s j).
Proof.
  intros H. unfold rl_step. destruct (s_next s); [exact H|]. cbv zeta.
  match goal with |- context [if ?c then s4_unroll _ else _] => destruct c end.
  - apply s4_unroll_SL. exact H.
  - match goal with |- context [if ?c then _ else _] => destruct c end; [exact H|].
    match goal with |- context [if ?c then _ else _] => destruct c end.
    + match goal with |- context [rl_main_tribs _ _ _ _ _ _ _ ?s0 ?ks] =>
        assert (Hm : SL (rl_main_tribs sds subncol cs nrow ncol us0 sds0 s0 ks)) end.
      { apply rl_main_tribs_SL. apply s4_set_out_SL. apply s4_set_ds_SL. exact H. }
      match goal with |- context [if ?c then s4_unroll _ else _] => destruct c end; [apply s4_unroll_SL|]; exact Hm.
    + match goal with |- context [if ?c then _ else _] => destruct c end; exact H.
Qed.

Lemma rl_passes_SL il sl us0 sds0 conn conn1 fuel : forall cds out bott idx00 idx1 ok,
  length cds = n -> length out = m ->
  SL (rl_passes sds subncol cs nrow ncol il sl us0 sds0 conn conn1 fuel cds out bott idx00 idx1 ok).
Proof.
  assert (Hfold : forall cds out bott idx00 idx1 ok, length cds = n -> length out = m ->
    SL (fold_left (rl_step sds subncol cs nrow ncol il sl us0 sds0 conn conn1) (seq 0 (length sl))
            (mkS4 cds out bott false [] [] idx00 0 0 idx1 ok))).
  { intros cds out bott idx00 idx1 ok H1 H2. apply drv_fold_inv; [split; assumption|].
    intros s j Hs. apply rl_step_SL. exact Hs. }
  induction fuel as [|f IH]; intros cds out bott idx00 idx1 ok H1 H2; cbn [rl_passes].
  - apply Hfold; assumption.
  - cbv zeta. pose proof (Hfold cds out bott idx00 idx1 ok H1 H2) as Hs.
    match goal with |- context [if ?c then _ else _] => destruct c end; [|exact Hs].
    destruct Hs as [Hs1 Hs2]. apply IH; assumption.
Qed.

Lemma rl_one_AL a idx00 : AL a -> AL (rl_one sds subncol cs nrow ncol a idx00).
Proof.
  intros H. unfold rl_one. cbv zeta.
  match goal with |- context [match ?m with Some _ => _ | None => _ end] => destruct m as [[[il sl] sub_end]|] end; [|exact H].
  match goal with |- context [if ?c then a else _] => destruct c end; [exact H|].
  destruct H as [H1 H2].
  match goal with |- context [rl_passes _ _ _ _ _ ?a1 ?a2 ?a3 ?a4 ?a5 ?a6 ?a7 ?a8 ?a9 ?a10 ?a11 ?a12 ?a13] =>
    pose proof (rl_passes_SL a1 a2 a3 a4 a5 a6 a7 a8 a9 a10 a11 a12 a13 H1 H2) as Hs;
    set (S0 := rl_passes sds subncol cs nrow ncol a1 a2 a3 a4 a5 a6 a7 a8 a9 a10 a11 a12 a13) in * end.
  destruct (in_out S0 (nth (s_idx1 S0) (s_cds S0) nc)).
  - exact (s4_unroll_SL S0 Hs).
  - exact Hs.
Qed.

Lemma relocate_AL fixl a : AL a -> AL (relocate sds upa subncol cs nrow ncol fixl a).
Proof.
  intros H. unfold relocate. cbv zeta. apply drv_fold_inv; [exact H|]. intros a' i0 Ha'. apply rl_one_AL. exact Ha'.
Qed.

(* ---------- relocate does not read the streams ---------- *)
Definition strip (st : list Z) (a : A) : A := mkA (a_cds a) (a_out a) st (a_err a).

Lemma rl_one_strip st a i :
  rl_one sds subncol cs nrow ncol (strip st a) i = strip st (rl_one sds subncol cs nrow ncol a i).
Proof.
  destruct a as [c o s e]. unfold rl_one, strip. cbv zeta. cbn [a_cds a_out a_st a_err].
  match goal with |- context [match ?m with Some _ => _ | None => _ end] => destruct m as [[[il sl] sub_end]|] end;
    [|reflexivity].
  match goal with |- context [if ?c then _ else _] => destruct c end; reflexivity.
Qed.

Lemma relocate_strip st fixl a :
  relocate sds upa subncol cs nrow ncol fixl (strip st a) = strip st (relocate sds upa subncol cs nrow ncol fixl a).
Proof.
  unfold relocate. cbv zeta. cbn [strip a_out].
  generalize (argsort (map (fun i : nat => nth (nth i (a_out a) nsub) upa 0%Z) fixl)). intros l. revert a.
  induction l as [|x l IH]; intros a; cbn [fold_left]; [reflexivity|].
  rewrite rl_one_strip. apply IH.
Qed.

(* ---------- the error flag is sticky through relocate ---------- *)
Lemma rl_one_sticky a i : a_err a <> 0 -> a_err (rl_one sds subncol cs nrow ncol a i) <> 0.
Proof.
  intros H. unfold rl_one. cbv zeta.
  match goal with |- context [match ?m with Some _ => _ | None => _ end] => destruct m as [[[il sl] sub_end]|] end.
  - match goal with |- context [if ?c then a else _] => destruct c end; [exact H|].
    cbn [a_err]. match goal with |- context [if s_ok ?s then _ else _] => destruct (s_ok s) end; [exact H|].
    destruct (a_err a =? 0) eqn:E; [apply Nat.eqb_eq in E; contradiction|exact H].
  - unfold set_err. cbn [a_err]. destruct (a_err a =? 0) eqn:E; [apply Nat.eqb_eq in E; contradiction|exact H].
Qed.

Lemma relocate_sticky fixl a : a_err a <> 0 -> a_err (relocate sds upa subncol cs nrow ncol fixl a) <> 0.
Proof.
  intros H. unfold relocate. cbv zeta.
  apply (drv_fold_inv (fun a => a_err a <> 0)); [exact H|]. intros a' x Ha'. apply rl_one_sticky. exact Ha'.
Qed.
End DrvLen.
