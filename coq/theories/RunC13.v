From Coq Require Import List ZArith.
Import ListNotations.
Local Open Scope Z_scope.
(* C13's correspondence is implementation-side only (time limits, exception classes, argument immutability) *)
Definition run_c13 (k : Z) (args : list (list Z)) : list (list Z) := if k =? 1300 then [[0]] else [[-999]].
