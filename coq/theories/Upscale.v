(* Model: upscale.py, the non-iterative part: subidx_2_idx, in_d8, cell_edge, dmm_exitcell / eam_repcell,
   dmm_nextidx, eam_nextidx, ihu_outlets, ihu_nextidx (= eam_plus with niter = 0), upscale_error.
   The fine network is `sds` (nodata = its length); the effective-area map is an INPUT (its formula uses
   float square roots).  Missing values: fine index -> nsub, coarse index -> ncoarse.  No proofs here. *)
From Coq Require Import List Arith ZArith Bool.
Import ListNotations.
From PF Require Import Arr Net Elev.

Definition cdiv (a b : nat) : nat := (a + b - 1) / b.                       (* int(np.ceil(a / b)) *)
Definition sub2idx (subidx subncol cs ncol : nat) : nat :=
  (subidx / subncol / cs) * ncol + (subidx mod subncol) / cs.
Definition in_d8 (i0 ids ncol : nat) : bool :=
  (absdiff (ids mod ncol) (i0 mod ncol) <=? 1) && (absdiff (ids / ncol) (i0 / ncol) <=? 1).
Definition cell_edge (subidx subncol cs : nat) : bool :=
  let ri := (subidx / subncol) mod cs in
  let ci := (subidx mod subncol) mod cs in
  (ri =? 0) || (ci =? 0) || (ri + 1 =? cs) || (ci + 1 =? cs).

Section Up.
Variable sds : list nat.          (* fine downstream indices *)
Variable upa : list Z.            (* fine upstream area *)
Variable subncol cs : nat.
Variable nrow ncol : nat.         (* coarse shape *)
Let nsub := length sds.
Let nc := (nrow * ncol)%nat.
Definition sd (i : nat) : nat := nth i sds nsub.
Definition cellof (subidx : nat) : nat := sub2idx subidx subncol cs ncol.

(* ---- representative / exit pixel: largest upstream area among the selected pixels and the pits of a cell ---- *)
Definition rep_step (sel : nat -> bool) (st : list nat * list Z) (subidx : nat) : list nat * list Z :=
  let '(rep, ua) := st in
  let d := sd subidx in
  if (nsub <=? d) then st
  else if (d =? subidx) || sel subidx then
    let idx := cellof subidx in
    if (nth idx ua 0 <? nth subidx upa 0)%Z then (upd rep idx subidx, upd ua idx (nth subidx upa 0%Z)) else st
  else st.
Definition repcell (sel : nat -> bool) : list nat :=
  fst (fold_left (rep_step sel) (seq 0 nsub) (repeat nsub nc, repeat 0%Z nc)).

(* a per-coarse-cell loop: result nc where the pixel is missing; ERR (nc + 1) when a trace runs out of fuel or has
   no answer (never on loop-free fine networks) *)
Definition ERR : nat := S nc.
Definition per_cell (pix : list nat) (f : nat -> nat -> nat) : list nat :=
  map (fun idx0 => let s := nth idx0 pix nsub in if (nsub <=? s) then nc else f idx0 s) (seq 0 nc).

(* ---- DMM: trace until the pixel leaves the half-cell-offset window (doubled coordinates, exact) ---- *)
Definition dmm_outside (idx0 subidx0 subidx : nat) : bool :=
  let dr := (2 * ((subidx0 / subncol) mod cs) / cs)%nat in
  let dc := (2 * ((subidx0 mod subncol) mod cs) / cs)%nat in
  let r2 := (2 * Z.of_nat ((idx0 / ncol + dr) * cs) - 1)%Z in
  let c2 := (2 * Z.of_nat ((idx0 mod ncol + dc) * cs) - 1)%Z in
  ((Z.abs (2 * Z.of_nat (subidx / subncol) - r2) >? Z.of_nat cs) ||
   (Z.abs (2 * Z.of_nat (subidx mod subncol) - c2) >? Z.of_nat cs))%Z.
Fixpoint dmm_walk (fuel : nat) (idx0 subidx0 subidx idx : nat) : nat :=
  match fuel with
  | O => ERR
  | S f =>
    let s1 := sd subidx in
    let idx1 := cellof s1 in
    if (s1 =? subidx) then idx
    else if negb (idx1 =? idx0) && dmm_outside idx0 subidx0 subidx then idx
    else dmm_walk f idx0 subidx0 s1 idx1
  end.
Definition dmm_nextidx (rep : list nat) : list nat :=
  per_cell rep (fun idx0 s => dmm_walk (S nsub) idx0 s s idx0).

(* ---- EAM: trace to the first effective-area pixel in another coarse cell ---- *)
Variable ea : list bool.
Definition eaf (i : nat) : bool := nth i ea false.
Fixpoint eam_walk (fuel : nat) (idx0 subidx : nat) : nat :=
  match fuel with
  | O => ERR
  | S f =>
    let s1 := sd subidx in
    let idx1 := cellof s1 in
    if (s1 =? subidx) then idx1
    else if negb (idx1 =? idx0) && eaf s1 then idx1
    else eam_walk f idx0 s1
  end.
Definition eam_nextidx (rep : list nat) : list nat := per_cell rep (fun idx0 s => eam_walk (S nsub) idx0 s).

(* ---- IHU step 1: outlet pixel = last pixel downstream of the representative pixel inside its cell ---- *)
Fixpoint out_walk (fuel : nat) (idx0 subidx : nat) : nat :=
  match fuel with
  | O => S nsub
  | S f =>
    let s1 := sd subidx in
    if negb (idx0 =? cellof s1) || (s1 =? subidx) then subidx else out_walk f idx0 s1
  end.
Definition ihu_outlets (rep : list nat) : list nat :=
  map (fun idx0 => let s := nth idx0 rep nsub in if (nsub <=? s) then nsub else out_walk (S nsub) idx0 s) (seq 0 nc).

Fixpoint ihu_walk (fuel : nat) (out : list nat) (idx0 subidx : nat) (first_ea : option nat) : option nat :=
  match fuel with
  | O => None
  | S f =>
    let s1 := sd subidx in
    let idx1 := cellof s1 in
    if (nth idx1 out nsub =? s1) || (s1 =? subidx) then
      (if in_d8 idx0 idx1 ncol then Some s1 else first_ea)
    else
      ihu_walk f out idx0 s1 (match first_ea with Some _ => first_ea | None => if eaf s1 then Some s1 else None end)
  end.
Definition ihu_nextidx (out : list nat) : list nat :=
  per_cell out (fun idx0 s => match ihu_walk (S nsub) out idx0 s None with Some sd' => cellof sd' | None => ERR end).

(* ---- the connection check ---- *)
Definition outlet_map (out : list nat) : list bool :=
  fold_left (fun m s => if (nsub <=? s) then m else upd m s true) out (repeat false nsub).
Fixpoint err_walk (fuel : nat) (om : list bool) (subidx : nat) : nat :=      (* first outlet pixel / pit strictly downstream *)
  match fuel with
  | O => S nsub
  | S f => let s1 := sd subidx in if nth s1 om false || (s1 =? subidx) then s1 else err_walk f om s1
  end.
Definition upscale_error (out cds : list nat) : list Z :=
  let om := outlet_map out in
  let n := length cds in
  map (fun idx0 =>
         let s := nth idx0 out nsub in
         let d := nth idx0 cds n in
         if (n <=? d) || (nsub <=? s) then 255%Z
         else if (err_walk (S nsub) om s =? nth d out nsub) then 1%Z else 0%Z) (seq 0 n).
End Up.

(* the three non-iterative methods *)
Definition up_dmm (sds : list nat) (upa : list Z) (subnrow subncol cs : nat) : list nat * list nat * (nat * nat) :=
  let nrow := cdiv subnrow cs in let ncol := cdiv subncol cs in
  let rep := repcell sds upa subncol cs nrow ncol (fun s => cell_edge s subncol cs) in
  (dmm_nextidx sds subncol cs nrow ncol rep, rep, (nrow, ncol)).
Definition up_eam (sds : list nat) (upa : list Z) (subnrow subncol cs : nat) (ea : list bool) :=
  let nrow := cdiv subnrow cs in let ncol := cdiv subncol cs in
  let rep := repcell sds upa subncol cs nrow ncol (eaf ea) in
  (eam_nextidx sds subncol cs nrow ncol ea rep, rep, (nrow, ncol)).
Definition up_eam_plus (sds : list nat) (upa : list Z) (subnrow subncol cs : nat) (ea : list bool) :=
  let nrow := cdiv subnrow cs in let ncol := cdiv subncol cs in
  let rep := repcell sds upa subncol cs nrow ncol (eaf ea) in
  let out := ihu_outlets sds subncol cs nrow ncol rep in
  (ihu_nextidx sds subncol cs nrow ncol ea out, out, (nrow, ncol)).
