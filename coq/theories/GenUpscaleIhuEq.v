(* upscale.ihu_nextidx, REGENERATED from the Python source (generated/GenUpscale.v), equals the hand models: its first result
   (the coarse network) is Upscale.ihu_nextidx, which the theorems of C09 are about; its second result (the list idxs_fix of
   disconnected cells) is Ihu.ihu_fix, the input of the model of the iterative stages.
   Hypotheses: the effective-area map (an input: its formula uses float square roots) has at most as many elements as the fine
   raster, so that it is false on the missing value; for the second result also: the array of outlet pixels has at most
   nrow * ncol elements (in the source exactly that many).  Any network (loops included), any shapes, any cell size.
   No axioms. *)
From Coq Require Import List Arith ZArith Bool Lia.
Import ListNotations.
From PF Require Import Arr Net Elev Upscale Ihu GenCodecBaseEq GenUpscaleBaseEq GenUpscaleWalkEq.
From PFG Require Import GenUpscale.

(* two independent passes in one fold *)
Lemma fold_pair {A B C} (f : A -> C -> A) (g : B -> C -> B) : forall l a b,
  fold_left (fun st i => (f (fst st) i, g (snd st) i)) l (a, b) = (fold_left f l a, fold_left g l b).
Proof. induction l as [|x l IH]; intros a b; cbn [fold_left fst snd]; [reflexivity|apply IH]. Qed.

Section IhuNext.
Variable sds : list nat.
Variable subnrow : Z.
Variable subncol cs nrow ncol : nat.
Variable ea : list bool.
Hypothesis Hea : (length ea <= length sds)%nat.
Notation subshape := (subnrow, Z.of_nat subncol).
Notation shape := (Z.of_nat nrow, Z.of_nat ncol).
Notation nsub := (length sds).

(* Ihu.fix_walk without the local abbreviations of its section *)
Fixpoint fixw (fuel : nat) (out : list nat) (idx0 subidx : nat) : bool :=
  match fuel with
  | O => false
  | S f =>
    let s1 := sd sds subidx in
    let idx1 := sub2idx s1 subncol cs ncol in
    if (nth idx1 out nsub =? s1)%nat || (s1 =? subidx)%nat then
      (if in_d8 idx0 idx1 ncol then negb (nth idx1 out nsub =? s1)%nat else true)
    else fixw f out idx0 s1
  end.

Lemma fix_walk_fixw : fix_walk sds subncol cs ncol = fixw.
Proof. reflexivity. Qed.

(* an optional pixel found on the way is a pixel of the raster *)
Definition okopt (o : option nat) : Prop := match o with None => True | Some v => (v < nsub)%nat end.

Lemma ihu_walk_eq out idx0 : forall fuel fixl fe subidx, okopt fe ->
  gen_up_ihu_nextidx_walk out sds subshape shape (Z.of_nat cs) (eaf ea) fuel idx0 fixl fe subidx
  = ((if fixw fuel out idx0 subidx then fixl ++ [idx0] else fixl), ihu_walk sds subncol cs ncol ea fuel out idx0 subidx fe).
Proof.
  induction fuel as [|f IH]; intros fixl fe subidx Hfe; cbn [gen_up_ihu_nextidx_walk fixw ihu_walk]; cbv beta iota zeta;
    [reflexivity|].
  unfold cellof. fold (sd sds subidx). rewrite gen_up_subidx_2_idx_eq, Nat2Z.id, gen_up_in_d8_eq.
  destruct (_ || _).
  - destruct (in_d8 _ _ _); cbn [negb]; [|reflexivity]. destruct (_ =? _)%nat; reflexivity.
  - destruct fe as [v|]; cbn [okopt] in Hfe.
    + destruct (Nat.leb_spec nsub v); [lia|]. cbn [andb]. apply IH. exact Hfe.
    + cbn [andb]. destruct (eaf ea (sd sds subidx)) eqn:E; apply IH; cbn [okopt]; [|exact I].
      unfold eaf in E. destruct (Nat.lt_ge_cases (sd sds subidx) (length ea)) as [H|H]; [lia|].
      rewrite nth_overflow in E by exact H. discriminate.
Qed.

(* the step of the pass, as two independent updates *)
Definition nx_w (out : list nat) (i s : nat) : nat :=
  match ihu_walk sds subncol cs ncol ea (S nsub) out i s None with
  | Some sd' => cellof subncol cs ncol sd' | None => ERR nrow ncol end.
Definition fx_sel (out : list nat) (i : nat) : bool :=
  let s := nth i out nsub in if (nsub <=? s)%nat then false else fixw (S nsub) out i s.

Lemma ihu_step_eq out st i :
  gen_up_ihu_nextidx_step out sds subshape shape (Z.of_nat cs) (eaf ea) st i
  = ((if (nsub <=? nth i out nsub)%nat then fst st else upd (fst st) i (nx_w out i (nth i out nsub))),
     (if fx_sel out i then snd st ++ [i] else snd st)).
Proof.
  destruct st as [cds fixl]. unfold gen_up_ihu_nextidx_step, fx_sel, nx_w. cbv beta iota zeta. cbn [fst snd].
  destruct (_ <=? _)%nat; [reflexivity|].
  rewrite ihu_walk_eq by exact I. rewrite nc_nat. f_equal. f_equal.
  destruct (ihu_walk _ _ _ _ _ _ _ _ _ _); [rewrite gen_up_subidx_2_idx_eq|]; apply Nat2Z.id.
Qed.

Lemma ihu_fold_eq out :
  gen_up_ihu_nextidx out sds subshape shape (Z.of_nat cs) (eaf ea)
  = (ihu_nextidx sds subncol cs nrow ncol ea out, filter (fx_sel out) (seq 0 (length out))).
Proof.
  unfold gen_up_ihu_nextidx. cbv beta iota zeta. rewrite nc_nat.
  rewrite (fold_ext_in _ _ _ (fun st i _ => ihu_step_eq out st i)).
  rewrite (fold_pair (fun a i => if (nsub <=? nth i out nsub)%nat then a else upd a i (nx_w out i (nth i out nsub)))
                     (fun b i => if fx_sel out i then b ++ [i] else b)).
  rewrite fold_filter. cbn [app]. f_equal.
  unfold ihu_nextidx, per_cell.
  apply (cells_fold out nsub (nrow * ncol) (nrow * ncol) (nx_w out)).
Qed.

(* ihu_nextidx(subidxs_out, subidxs_ds, subshape, shape, cellsize, r_ratio)[0] *)
Theorem gen_up_ihu_nextidx_eq : forall out : list nat,
  fst (gen_up_ihu_nextidx out sds subshape shape (Z.of_nat cs) (eaf ea)) = ihu_nextidx sds subncol cs nrow ncol ea out.
Proof. intros out. rewrite ihu_fold_eq. reflexivity. Qed.

(* ihu_nextidx(...)[1] *)
Theorem gen_up_ihu_nextidx_fix_eq : forall out : list nat, (length out <= nrow * ncol)%nat ->
  snd (gen_up_ihu_nextidx out sds subshape shape (Z.of_nat cs) (eaf ea)) = ihu_fix sds subncol cs nrow ncol out.
Proof.
  intros out Hn. rewrite ihu_fold_eq. cbn [snd]. unfold ihu_fix. cbv zeta. rewrite fix_walk_fixw.
  change (filter (fx_sel out) (seq 0 (length out)) = filter (fx_sel out) (seq 0 (nrow * ncol))).
  assert (Es : seq 0 (nrow * ncol) = seq 0 (length out) ++ seq (length out) (nrow * ncol - length out))
    by (rewrite <- seq_app; f_equal; lia).
  rewrite Es, filter_app.
  assert (E0 : filter (fx_sel out) (seq (length out) (nrow * ncol - length out)) = []).
  { assert (G : forall l, (forall x, In x l -> (length out <= x)%nat) -> filter (fx_sel out) l = []).
    { induction l as [|x l IH]; intros Hl; cbn [filter]; [reflexivity|].
      assert (Ex : fx_sel out x = false).
      { unfold fx_sel. cbv zeta. rewrite nth_overflow by (apply Hl; left; reflexivity). rewrite Nat.leb_refl. reflexivity. }
      rewrite Ex. apply IH. intros y Hy. apply Hl. right. exact Hy. }
    apply G. intros x Hx. apply in_seq in Hx. lia. }
  rewrite E0, app_nil_r. reflexivity.
Qed.
End IhuNext.

(* non-vacuity: a 2 x 4 fine raster draining east to the pit 3, cell size 2, outlet pixels 1 and 3: the left cell drains to
   the right one, a pit, nothing to fix; with the outlet pixel of the right cell moved to 7 the walk from pixel 1 ends at
   the pit 3, which is not an outlet pixel: cell 0 is flagged *)
Example gen_up_ihu_nextidx_ex :
  gen_up_ihu_nextidx [1; 3]%nat [1; 2; 3; 3; 0; 1; 2; 3]%nat (2, 4)%Z (1, 2)%Z 2%Z (fun _ => true) = ([1; 1]%nat, [])
  /\ gen_up_ihu_nextidx [1; 7]%nat [1; 2; 3; 3; 0; 1; 2; 3]%nat (2, 4)%Z (1, 2)%Z 2%Z (fun _ => true) = ([1; 1]%nat, [0; 1]%nat).
Proof. vm_compute. auto. Qed.

Print Assumptions gen_up_ihu_nextidx_eq.
Print Assumptions gen_up_ihu_nextidx_fix_eq.
