From Coq Require Import List Arith ZArith Bool.
Import ListNotations.
From PF Require Import Arr Net Rank Accu Stream Subbas Glue RunC03.
Local Open Scope Z_scope.

Definition sb_out (r : list Z * list nat) : list (list Z) := [fst r; zs (snd r)].

Definition run_c18 (k : Z) (args : list (list Z)) : list (list Z) :=
  let ds := net_in (arg 0 args) in
  let sq := ns (arg 1 args) in
  if k =? 1801 then sb_out (subbasins_streamorder ds sq (arg 2 args) (mask_opt (argz 4 args) (arg 5 args)) (argz 3 args))
  else if k =? 1802 then sb_out (subbasins_area ds sq (net_in (arg 2 args)) (arg 3 args) (argz 4 args))
  else if k =? 1803 then
    sb_out (subbasins_pfafstetter ds (ns (arg 2 args)) sq (net_in (arg 3 args)) (arg 4 args)
                                  (mask_opt (argz 5 args) (arg 6 args)) (argz 7 args))
  else [[-999]].
