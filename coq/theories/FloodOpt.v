(* C06: optimality of the priority flood.  Every valid cell joined to a seed by a path of allowed steps through
   valid cells is finished, and its filled level is at most the largest input elevation on that path; the level is
   attained by the path stored in the direction raster.  Hence filled = min over paths of the max elevation. *)
From Coq Require Import List Arith ZArith Lia Bool.
Import ListNotations.
From PF Require Import Arr Codec Flood FloodSpec FloodTree.
From PFG Require Import GenTables GenDrdc.
Local Open Scope Z_scope.

Lemma us_zero o : In o offs8 -> table_at d8_us (fst o) (snd o) = 0 -> o = (0, 0).
Proof. unfold offs8. simpl. intros H. repeat (destruct H as [<-|H]; [vm_compute; intros E; try reflexivity; discriminate|]). destruct H. Qed.

Lemma offs_in8 conn o : In o (offs conn) -> In o offs8.
Proof. unfold offs. destruct (conn =? 4); auto. unfold offs4, offs8. simpl. intuition. Qed.

Definition cntf (l : list bool) : nat := length (filter negb l).

Lemma cntf_upd l j : (j < length l)%nat -> nth j l false = false -> (cntf (upd l j true) + 1 = cntf l)%nat.
Proof. unfold cntf. revert j; induction l as [|h t IH]; intros [|j] Hj Hn; simpl in *; try lia.
  - subst h. simpl. lia.
  - specialize (IH j ltac:(lia) Hn). destruct h; simpl; lia. Qed.

Lemma extract_min_length q m rest : extract_min q = Some (m, rest) -> length q = S (length rest).
Proof. revert m rest; induction q as [|a t IH]; intros m rest H; simpl in H; [discriminate|].
  destruct (extract_min t) as [[m' r']|] eqn:E.
  - specialize (IH m' r' eq_refl). destruct (key_lt a m'); inversion H; subst; simpl; lia.
  - inversion H; subst. destruct t; [reflexivity|]. simpl in E. destruct (extract_min t) as [[? ?]|]; [destruct (key_lt p p0)|]; discriminate. Qed.

Lemma extract_min_none q : extract_min q = None -> q = [].
Proof. destruct q as [|a t]; auto. simpl. destruct (extract_min t) as [[? ?]|]; [destruct (key_lt a p)|]; discriminate. Qed.

Section FloodOpt.
Variables nrow ncol : nat.
Variable elv : list Z.
Variable nodata : Z.
Variable conn : Z.
Variable seeds : list nat.
Notation sz := (nrow * ncol)%nat.
Notation visit := (visit nrow ncol elv).
Notation isnd := (isnodata elv nodata).
Notation inb := (inb nrow ncol).
Notation row := (row ncol).
Notation col := (col ncol).
Notation lin := (lin ncol).
Notation fv := (filledv elv).
Notation pinv := (pinv nrow ncol elv nodata conn).
Notation linv := (linv nrow ncol elv nodata conn).
Notation pitroot := (pitroot nrow ncol).
Notation E j := (nth j elv 0).

Definition inq (st : fstate) (j : nat) : Prop := exists z b, In (z, b, j) (fq st).
Definition clause (st : fstate) (lev : Z) (u : nat) (o : Z * Z) : Prop :=
  inb (row u + fst o) (col u + snd o) = true ->
  let v := lin (row u + fst o) (col u + snd o) in
  isnd v = false -> doneb st v = true /\ fv st v <= Z.max (E v) lev.
Definition relaxed (st : fstate) (u : nat) : Prop := forall o, In o (offs conn) -> clause st (fv st u) u o.

(* what one visit does *)
Lemma visit_cases z0 i0 st o :
  visit z0 i0 st o = st \/
  exists jj, inb (row i0 + fst o) (col i0 + snd o) = true /\ jj = lin (row i0 + fst o) (col i0 + snd o) /\
    doneb st jj = false /\
    fdone (visit z0 i0 st o) = upd (fdone st) jj true /\
    fd8 (visit z0 i0 st o) = upd (fd8 st) jj (table_at d8_us (fst o) (snd o)) /\
    fdelv (visit z0 i0 st o) = (if z0 - E jj >? 0 then upd (fdelv st) jj (z0 - E jj) else fdelv st) /\
    ((nth jj (fqd st) false = true /\ fq (visit z0 i0 st o) = fq st /\ fqd (visit z0 i0 st o) = fqd st) \/
     (nth jj (fqd st) false = false /\ fqd (visit z0 i0 st o) = upd (fqd st) jj true /\
      exists z, fq (visit z0 i0 st o) = (z, 0, jj) :: fq st)).
Proof.
  unfold Flood.visit.
  destruct (negb (inb (row i0 + fst o) (col i0 + snd o))) eqn:Ei; [left; reflexivity|].
  apply negb_false_iff in Ei.
  destruct (nth (lin (row i0 + fst o) (col i0 + snd o)) (fdone st) true) eqn:Ed; [left; reflexivity|].
  right. exists (lin (row i0 + fst o) (col i0 + snd o)). split; auto. split; auto. split; [exact Ed|].
  destruct (nth (lin (row i0 + fst o) (col i0 + snd o)) (fqd st) false) eqn:Eq; simpl.
  - repeat split; auto.
  - repeat split; auto. right. repeat split; auto. eexists. reflexivity.
Qed.

Section Pop.
Variable z0 : Z.
Variable i0 : nat.
Hypothesis Hi0 : (i0 < sz)%nat.

Record xinv (st : fstate) : Prop := {
  x_low : forall v, (v < sz)%nat -> doneb st v = true -> isnd v = false -> fv st v <= Z.max (E v) z0;
  x_inq : forall j, (j < sz)%nat -> nth j (fqd st) false = true -> doneb st j = false -> j <> i0 -> inq st j;
  x_rel : forall u, (u < sz)%nat -> doneb st u = true -> isnd u = false -> u <> i0 -> inq st u \/ relaxed st u;
  x_seed : forall j, In j seeds -> nth j (fqd st) false = true /\ nth j (fdelv st) 0 = 0;
  x_src : forall z b j, In (z, b, j) (fq st) -> doneb st j = true \/ In j seeds;
  x_root : forall j, pitroot st j -> isnd j = false -> In j seeds;
  x_i0 : doneb st i0 = true \/ In i0 seeds }.

Lemma visit_xinv st o : In o (offs conn) -> pinv z0 i0 st -> xinv st -> xinv (visit z0 i0 st o).
Proof.
  intros Ho HP HX.
  pose proof (visit_pinv nrow ncol elv nodata conn z0 i0 Hi0 st o Ho HP) as HP'.
  pose proof (visit_frozen nrow ncol elv z0 i0 st o) as Hfr.
  destruct (visit_cases z0 i0 st o) as [Heq|[jj (Hinb & Hjj & Hnd & Hdone & Hd8 & Hdelv & Hq)]]; [rewrite Heq; exact HX|].
  set (st' := visit z0 i0 st o) in *.
  destruct (lin_bound nrow ncol _ _ Hinb) as (Hlt & Hrj & Hcj). rewrite <- Hjj in Hlt, Hrj, Hcj.
  destruct (p_binv _ _ _ _ _ _ _ st HP) as (L1 & L2 & L3 & L4 & Hpos & Hndinv).
  assert (Hfresh : nth jj (fdelv st) 0 = 0) by (apply (p_fresh _ _ _ _ _ _ _ st HP); exact Hnd).
  assert (D1 : forall x, doneb st' x = if (x =? jj)%nat then true else doneb st x).
  { intros x. unfold doneb. rewrite Hdone, nth_upd, L1. destruct (Nat.eqb_spec x jj) as [->|]; simpl; auto.
    apply Nat.ltb_lt in Hlt. rewrite Hlt. reflexivity. }
  assert (D2 : forall x, x <> jj -> nth x (fdelv st') 0 = nth x (fdelv st) 0).
  { intros x Hx. rewrite Hdelv. destruct (z0 - E jj >? 0); auto. apply nth_upd_neq; auto. }
  assert (D3 : fv st' jj = Z.max (E jj) z0).
  { unfold filledv. rewrite Hdelv. destruct (Z.gtb_spec (z0 - E jj) 0).
    - rewrite nth_upd_eq by (rewrite L3; auto). lia.
    - rewrite Hfresh. lia. }
  assert (D4 : forall x, x <> jj -> fv st' x = fv st x) by (intros x Hx; unfold filledv; rewrite D2; auto).
  assert (D5 : forall x, inq st x -> inq st' x).
  { intros x [z [b Hin]]. destruct Hq as [(_ & Hq & _)|(_ & _ & [zp Hq])]; exists z, b; rewrite Hq; [auto|right; auto]. }
  assert (D6 : forall x, x <> jj -> nth x (fqd st') false = nth x (fqd st) false).
  { intros x Hx. destruct Hq as [(_ & _ & Hq)|(_ & Hq & _)]; rewrite Hq; auto. apply nth_upd_neq; auto. }
  assert (D7 : nth jj (fqd st') false = true).
  { destruct Hq as [(Hq1 & _ & Hq)|(_ & Hq & _)]; rewrite Hq; auto. apply nth_upd_eq. rewrite L2; auto. }
  (* a cell that is already queued when it is finished is not raised *)
  assert (Hunraised : nth jj (fqd st) false = true -> z0 <= E jj).
  { intros Hqd. destruct (Nat.eq_dec jj i0) as [->|Hne].
    - pose proof (p_z0 _ _ _ _ _ _ _ st HP) as Hz. unfold filledv in Hz. rewrite Hfresh in Hz. lia.
    - destruct (x_inq st HX jj Hlt Hqd Hnd Hne) as [z [b Hin]].
      destruct (p_queue _ _ _ _ _ _ _ st HP z b jj Hin) as (_ & _ & _ & Hz & Hle). unfold filledv in Hz. rewrite Hfresh in Hz. lia. }
  constructor.
  - intros v Hv Hd Hn. rewrite D1 in Hd. destruct (Nat.eqb_spec v jj) as [->|Hne]; [rewrite D3; lia|].
    rewrite D4 by auto. apply (x_low st HX); auto.
  - intros j Hj Hqd Hd Hne. rewrite D1 in Hd. destruct (Nat.eqb_spec j jj) as [->|Hnj]; [discriminate|].
    apply D5. apply (x_inq st HX); auto. rewrite <- D6; auto.
  - intros u Hu Hd Hn Hne. rewrite D1 in Hd. destruct (Nat.eqb_spec u jj) as [->|Hnj].
    + left. destruct Hq as [(Hq1 & _ & _)|(_ & _ & [zp Hq])].
      * apply D5. apply (x_inq st HX); auto.
      * exists zp, 0. rewrite Hq. left; reflexivity.
    + destruct (x_rel st HX u Hu Hd Hn Hne) as [Hi|Hr]; [left; apply D5; exact Hi|right].
      intros o' Ho' Hin' v Hv. destruct (Hr o' Ho' Hin' Hv) as [Hdv Hlev]. fold v in Hdv, Hlev.
      assert (Hvj : v <> jj) by (intros ->; congruence).
      split; [rewrite D1; destruct (Nat.eqb_spec v jj); auto|].
      rewrite (D4 v Hvj), (D4 u Hnj). exact Hlev.
  - intros j Hj. destruct (x_seed st HX j Hj) as [Hqd Hdv]. split.
    + destruct (Nat.eq_dec j jj) as [->|Hne]; [exact D7|rewrite D6; auto].
    + destruct (Nat.eq_dec j jj) as [->|Hne]; [|rewrite D2; auto].
      rewrite Hdelv. pose proof (Hunraised Hqd) as Hle.
      destruct (Z.gtb_spec (z0 - E jj) 0); [lia|exact Hdv].
  - intros z b j Hin. destruct Hq as [(_ & Hq & _)|(_ & _ & [zp Hq])]; rewrite Hq in Hin.
    + destruct (x_src st HX z b j Hin) as [H|H]; [left; rewrite D1; destruct (Nat.eqb_spec j jj); auto|right; auto].
    + destruct Hin as [Heq|Hin].
      * inversion Heq; subst. left. rewrite D1, Nat.eqb_refl. reflexivity.
      * destruct (x_src st HX z b j Hin) as [H|H]; [left; rewrite D1; destruct (Nat.eqb_spec j jj); auto|right; auto].
  - intros j [Hj [Hd H8]] Hn. rewrite D1 in Hd. destruct (Nat.eqb_spec j jj) as [->|Hne].
    + rewrite Hd8, nth_upd_eq in H8 by (rewrite L4; auto).
      apply us_zero in H8; [|apply (offs_in8 conn); auto]. subst o. simpl in Hjj. rewrite !Z.add_0_r in Hjj.
      destruct (lin_row_col nrow ncol i0 Hi0) as [_ Hl]. rewrite Hl in Hjj. subst jj.
      destruct (x_i0 st HX) as [H|H]; [congruence|exact H].
    + apply (x_root st HX); auto. split; auto. split; auto. rewrite Hd8, nth_upd_neq in H8 by auto. exact H8.
  - destruct (x_i0 st HX) as [H|H]; [left; apply (Hfr i0 H)|right; auto].
Qed.

Lemma fold_visit_xinv l : (forall o, In o l -> In o (offs conn)) -> forall st, pinv z0 i0 st -> xinv st ->
  pinv z0 i0 (fold_left (visit z0 i0) l st) /\ xinv (fold_left (visit z0 i0) l st).
Proof.
  induction l as [|o l IH]; intros Hl st HP HX; simpl; auto.
  apply IH; [intros; apply Hl; right; auto| |].
  - apply visit_pinv; auto. apply Hl. left; auto.
  - apply visit_xinv; auto. apply Hl. left; auto.
Qed.

Lemma fold_frozen l : forall st, frozen st (fold_left (visit z0 i0) l st).
Proof.
  induction l as [|o l IH]; intros st x Hx; simpl; [auto|].
  destruct (visit_frozen nrow ncol elv z0 i0 st o x Hx) as (A & B & C).
  destruct (IH (visit z0 i0 st o) x A) as (A' & B' & C'). split; auto. split; congruence.
Qed.

(* after the visit of offset o its clause holds (with level z0), and it keeps holding *)
Lemma visit_clause st o : pinv z0 i0 st -> xinv st -> In o (offs conn) -> clause (visit z0 i0 st o) z0 i0 o.
Proof.
  intros HP HX Ho Hinb v Hv.
  destruct (lin_bound nrow ncol _ _ Hinb) as (Hlt & _). fold v in Hlt.
  destruct (visit_cases z0 i0 st o) as [Heq|[jj (_ & Hjj & Hnd & Hdone & _ & Hdelv & _)]].
  - (* nothing happened: v was finished already *)
    rewrite Heq. unfold Flood.visit in Heq. rewrite Hinb in Heq. simpl in Heq. fold v in Heq.
    destruct (nth v (fdone st) true) eqn:Ed.
    + split; [exact Ed|apply (x_low st HX); auto].
    + exfalso. destruct (p_binv _ _ _ _ _ _ _ st HP) as (L1 & _).
      destruct (nth v (fqd st) false); apply (f_equal fdone) in Heq; simpl in Heq;
        apply (f_equal (fun l => nth v l true)) in Heq; rewrite nth_upd_eq in Heq by (rewrite L1; auto); congruence.
  - fold v in Hjj. subst jj.
    destruct (p_binv _ _ _ _ _ _ _ st HP) as (L1 & L2 & L3 & _).
    split; [unfold doneb; rewrite Hdone; apply nth_upd_eq; rewrite L1; auto|].
    unfold filledv. rewrite Hdelv.
    assert (Hfresh : nth v (fdelv st) 0 = 0) by (apply (p_fresh _ _ _ _ _ _ _ st HP); exact Hnd).
    destruct (Z.gtb_spec (z0 - E v) 0); [rewrite nth_upd_eq by (rewrite L3; auto); lia|rewrite Hfresh; lia].
Qed.

Lemma clause_frozen st st' lev u o : frozen st st' -> clause st lev u o -> clause st' lev u o.
Proof. intros Hf Hc Hinb v Hv. destruct (Hc Hinb Hv) as [Hd Hl]. fold v in Hd, Hl.
  destruct (Hf v Hd) as (A & _ & C). split; auto. unfold filledv in *. rewrite C. exact Hl. Qed.

Lemma fold_clauses l : (forall o, In o l -> In o (offs conn)) -> forall st, pinv z0 i0 st -> xinv st ->
  forall o, In o l -> clause (fold_left (visit z0 i0) l st) z0 i0 o.
Proof.
  induction l as [|a l IH]; intros Hl st HP HX o Hin; [destruct Hin|]. simpl.
  assert (Ha : In a (offs conn)) by (apply Hl; left; auto).
  pose proof (visit_pinv nrow ncol elv nodata conn z0 i0 Hi0 st a Ha HP) as HP'.
  pose proof (visit_xinv st a Ha HP HX) as HX'.
  destruct Hin as [<-|Hin].
  - apply (clause_frozen (visit z0 i0 st a)); [apply fold_frozen|apply visit_clause; auto].
  - apply IH; auto. intros; apply Hl; right; auto.
Qed.
End Pop.

(* ---------- between pops ---------- *)
Record yinv (st : fstate) : Prop := {
  y_low : forall v z b j, (v < sz)%nat -> doneb st v = true -> isnd v = false -> In (z, b, j) (fq st) -> fv st v <= Z.max (E v) z;
  y_inq : forall j, (j < sz)%nat -> nth j (fqd st) false = true -> doneb st j = false -> inq st j;
  y_rel : forall u, (u < sz)%nat -> doneb st u = true -> isnd u = false -> inq st u \/ relaxed st u;
  y_seed : forall j, In j seeds -> nth j (fqd st) false = true /\ nth j (fdelv st) 0 = 0;
  y_src : forall z b j, In (z, b, j) (fq st) -> doneb st j = true \/ In j seeds;
  y_root : forall j, pitroot st j -> isnd j = false -> In j seeds }.

Lemma pop_yinv st z0 b0 i0 rest : linv st -> yinv st -> extract_min (fq st) = Some ((z0, b0, i0), rest) ->
  yinv (fold_left (visit z0 i0) (offs conn) (popped st rest)).
Proof.
  intros HL HY Hex. destruct (pop_pinv nrow ncol elv nodata conn st z0 b0 i0 rest HL Hex) as [Hi0 HP].
  destruct (extract_min_spec _ _ _ Hex) as [Hperm Hmin].
  assert (Hm : In (z0, b0, i0) (fq st)) by (apply Hperm; left; reflexivity).
  assert (HX : xinv z0 i0 (popped st rest)).
  { constructor.
    - intros v Hv Hd Hn. apply (y_low st HY v z0 b0 i0); auto.
    - intros j Hj Hq Hd Hne. destruct (y_inq st HY j Hj Hq Hd) as [z [b Hin]].
      apply Hperm in Hin. destruct Hin as [Heq|Hin]; [inversion Heq; congruence|exists z, b; exact Hin].
    - intros u Hu Hd Hn Hne. destruct (y_rel st HY u Hu Hd Hn) as [[z [b Hin]]|Hr].
      + left. apply Hperm in Hin. destruct Hin as [Heq|Hin]; [inversion Heq; congruence|exists z, b; exact Hin].
      + right. exact Hr.
    - apply (y_seed st HY).
    - intros z b j Hin. apply (y_src st HY z b j). apply Hperm. right. exact Hin.
    - apply (y_root st HY).
    - apply (y_src st HY z0 b0 i0 Hm). }
  destruct (fold_visit_xinv z0 i0 Hi0 (offs conn) (fun o H => H) _ HP HX) as [HP2 HX2].
  pose proof (fold_clauses z0 i0 Hi0 (offs conn) (fun o H => H) _ HP HX) as Hcl.
  pose proof (fold_done_i0 nrow ncol elv nodata conn z0 i0 _ Hi0 (p_binv _ _ _ _ _ _ _ _ HP)) as Hdi0.
  set (st2 := fold_left (visit z0 i0) (offs conn) (popped st rest)) in *.
  constructor.
  - intros v z b j Hv Hd Hn Hin.
    destruct (p_queue _ _ _ _ _ _ _ st2 HP2 z b j Hin) as (_ & _ & _ & _ & Hle).
    pose proof (x_low z0 i0 st2 HX2 v Hv Hd Hn). lia.
  - intros j Hj Hq Hd. apply (x_inq z0 i0 st2 HX2); auto. intros ->. congruence.
  - intros u Hu Hd Hn. destruct (Nat.eq_dec u i0) as [->|Hne]; [|apply (x_rel z0 i0 st2 HX2); auto].
    right. intros o Ho. rewrite (p_z0 _ _ _ _ _ _ _ st2 HP2). apply Hcl. exact Ho.
  - apply (x_seed z0 i0 st2 HX2).
  - apply (x_src z0 i0 st2 HX2).
  - apply (x_root z0 i0 st2 HX2).
Qed.

Lemma loop_yinv fuel : forall st, linv st -> yinv st ->
  linv (flood_loop nrow ncol elv conn fuel st) /\ yinv (flood_loop nrow ncol elv conn fuel st).
Proof.
  induction fuel as [|f IH]; intros st HL HY; simpl; auto.
  destruct (extract_min (fq st)) as [[[[z0 b0] i0] rest]|] eqn:Ex; auto.
  apply IH; [apply (pop_linv nrow ncol elv nodata conn st z0 b0 i0 rest); auto|apply (pop_yinv st z0 b0 i0 rest); auto].
Qed.

(* ---------- the queue runs empty: every cell is pushed at most once ---------- *)
Definition meas (st : fstate) : nat := (length (fq st) + cntf (fqd st))%nat.

Lemma visit_meas z0 i0 st o : binv nrow ncol elv nodata st -> meas (visit z0 i0 st o) = meas st.
Proof.
  intros (L1 & L2 & _). destruct (visit_cases z0 i0 st o) as [->|[jj (Hinb & Hjj & _ & _ & _ & _ & Hq)]]; auto.
  destruct (lin_bound nrow ncol _ _ Hinb) as (Hlt & _). rewrite <- Hjj in Hlt.
  unfold meas. destruct Hq as [(_ & -> & ->)|(Hf & -> & [z ->])]; auto.
  simpl. pose proof (cntf_upd (fqd st) jj ltac:(rewrite L2; auto) Hf). lia.
Qed.

Lemma fold_meas z0 i0 l : forall st, binv nrow ncol elv nodata st -> meas (fold_left (visit z0 i0) l st) = meas st.
Proof. induction l as [|o l IH]; intros st Hb; simpl; auto. rewrite IH by (apply visit_binv; auto). apply visit_meas; auto. Qed.

Lemma loop_empties fuel : forall st, binv nrow ncol elv nodata st -> (meas st < fuel)%nat ->
  fq (flood_loop nrow ncol elv conn fuel st) = [].
Proof.
  induction fuel as [|f IH]; intros st Hb Hm; [lia|]. cbn [flood_loop].
  destruct (extract_min (fq st)) as [[[[z0 b0] i0] rest]|] eqn:Ex; [|apply extract_min_none; auto].
  fold (popped st rest).
  assert (Hb1 : binv nrow ncol elv nodata (popped st rest)).
  { destruct Hb as (L1 & L2 & L3 & L4 & Hp & Hn). exact (conj L1 (conj L2 (conj L3 (conj L4 (conj Hp Hn))))). }
  apply IH.
  - apply fold_visit_binv. exact Hb1.
  - rewrite (fold_meas z0 i0 (offs conn) (popped st rest) Hb1). unfold meas in *. simpl.
    pose proof (extract_min_length _ _ _ Ex). lia.
Qed.
End FloodOpt.

(* ---------- the initial state, and the final theorems ---------- *)
Lemma cntf_le l : (cntf l <= length l)%nat.
Proof. unfold cntf. induction l as [|h t IH]; simpl; auto. destruct h; simpl; lia. Qed.

Lemma cntf_lt l i : (i < length l)%nat -> nth i l false = true -> (cntf l < length l)%nat.
Proof. unfold cntf. revert i; induction l as [|h t IH]; intros [|i] Hi Hn; simpl in *; try lia.
  - subst h. simpl. pose proof (cntf_le t). unfold cntf in H. lia.
  - specialize (IH i ltac:(lia) Hn). destruct h; simpl; lia. Qed.

Lemma filter_cntf {A} (g : A -> bool) l : (length (filter g l) + cntf (map g l) = length l)%nat.
Proof. unfold cntf. induction l as [|h t IH]; simpl; auto. destruct (g h); simpl; lia. Qed.

Section Final.
Variables nrow ncol : nat.
Variable elv : list Z.
Variable nodata : Z.
Variable conn : Z.
Variable mode : Z.
Variable pits : list nat.
Hypothesis Hpits : mode = 2 -> forall p, In p pits -> isnodata elv nodata p = false.
Notation sz := (nrow * ncol)%nat.
Notation isnd := (isnodata elv nodata).
Notation fv := (filledv elv).
Notation E j := (nth j elv 0).
Notation init := (flood_init nrow ncol elv nodata conn mode pits).
Notation st := (flood_state nrow ncol elv nodata conn mode pits).

Definition seeds : list nat := map (fun e : Z * Z * nat => snd e) (fq init).

Lemma seeds_inq j : In j seeds <-> inq init j.
Proof. unfold seeds, inq. rewrite in_map_iff. split.
  - intros [[[z b] i] [<- Hin]]. exists z, b. exact Hin.
  - intros [z [b Hin]]. exists (z, b, j). split; auto. Qed.

Lemma init_done j : (j < sz)%nat -> doneb init j = isnd j.
Proof. intros Hj. unfold doneb, flood_init. destruct (if mode =? 1 then _ else _) as [q qd]. simpl. apply map_seq_nth. exact Hj. Qed.

Lemma init_queued j : (j < sz)%nat -> nth j (fqd init) false = true -> inq init j.
Proof.
  intros Hj. unfold inq, flood_init.
  set (cells := seq 0 sz).
  set (qd0 := if mode =? 2 then map (fun i => memb i pits) cells else map (is_edge nrow ncol elv nodata conn) cells).
  set (q0 := map (fun i => (nth i elv 0, 1, i)) (filter (fun i => nth i qd0 false) cells)).
  assert (Hq0 : nth j qd0 false = true -> In (nth j elv 0, 1, j) q0).
  { intros H. unfold q0. apply in_map_iff. exists j. split; auto. apply filter_In. split; auto. apply in_seq. lia. }
  destruct (mode =? 1).
  - destruct (extract_min q0) as [[[[z b] i] r]|]; simpl.
    + intros H. unfold cells in H. rewrite map_seq_nth in H by auto. apply Nat.eqb_eq in H. subst i. exists z, b. left. reflexivity.
    + intros H. unfold cells in H. rewrite map_seq_nth in H by auto. discriminate.
  - simpl. intros H. exists (nth j elv 0), 1. apply Hq0. exact H.
Qed.

Lemma init_meas : (meas init <= sz)%nat.
Proof.
  unfold meas, flood_init.
  set (cells := seq 0 sz).
  set (qd0 := if mode =? 2 then map (fun i => memb i pits) cells else map (is_edge nrow ncol elv nodata conn) cells).
  set (q0 := map (fun i => (nth i elv 0, 1, i)) (filter (fun i => nth i qd0 false) cells)).
  assert (Hlen : length qd0 = sz) by (unfold qd0, cells; destruct (mode =? 2); rewrite map_length, seq_length; auto).
  destruct (mode =? 1).
  - destruct (extract_min q0) as [[[[z b] i] r]|] eqn:Ex; simpl.
    + destruct (extract_min_spec _ _ _ Ex) as [Hperm _].
      assert (Hin : In (z, b, i) q0) by (apply Hperm; left; reflexivity).
      unfold q0 in Hin. apply in_map_iff in Hin. destruct Hin as [i' [Heq Hi']]. inversion Heq; subst i'.
      apply filter_In in Hi'. destruct Hi' as [Hi' _]. apply in_seq in Hi'.
      pose proof (cntf_lt (map (fun j => (j =? i)%nat) cells) i) as Hc.
      unfold cells in Hc. rewrite map_length, seq_length in Hc. unfold cells.
      specialize (Hc ltac:(lia)). rewrite map_seq_nth in Hc by lia. specialize (Hc (Nat.eqb_refl i)). lia.
    + pose proof (cntf_le (map (fun _ : nat => false) cells)) as Hc. unfold cells in *. rewrite map_length, seq_length in Hc. lia.
  - simpl. unfold q0. rewrite map_length.
    assert (Hext : filter (fun i => nth i qd0 false) cells = filter (fun i => if mode =? 2 then memb i pits else is_edge nrow ncol elv nodata conn i) cells).
    { apply filter_ext_in. intros a Ha. unfold cells in Ha. apply in_seq in Ha. unfold qd0, cells.
      destruct (mode =? 2); rewrite map_seq_nth by lia; reflexivity. }
    rewrite Hext.
    assert (Hqd : qd0 = map (fun i => if mode =? 2 then memb i pits else is_edge nrow ncol elv nodata conn i) cells).
    { unfold qd0. destruct (mode =? 2); reflexivity. }
    rewrite Hqd. pose proof (filter_cntf (fun i => if mode =? 2 then memb i pits else is_edge nrow ncol elv nodata conn i) cells) as Hf.
    unfold cells in *. rewrite seq_length in Hf. lia.
Qed.

Lemma init_yinv : yinv nrow ncol elv nodata conn seeds init.
Proof.
  pose proof (init_linv nrow ncol elv nodata conn mode pits Hpits) as HL.
  constructor.
  - intros v z b j Hv Hd Hn _. rewrite init_done in Hd by auto. congruence.
  - intros j Hj Hq _. apply init_queued; auto.
  - intros u Hu Hd Hn. rewrite init_done in Hd by auto. congruence.
  - intros j Hj. apply seeds_inq in Hj. destruct Hj as [z [b Hin]].
    destruct (l_queue nrow ncol elv nodata conn _ HL z b j Hin) as (Hlt & Hq & _ & _). split; auto.
    unfold flood_init. destruct (if mode =? 1 then _ else _) as [q qd]. simpl. apply map_seq_nth. exact Hlt.
  - intros z b j Hin. right. apply seeds_inq. exists z, b. exact Hin.
  - intros j [Hj [Hd _]] Hn. rewrite init_done in Hd by auto. congruence.
Qed.

Lemma final_invs : linv nrow ncol elv nodata conn st /\ yinv nrow ncol elv nodata conn seeds st /\ fq st = [].
Proof.
  pose proof (init_linv nrow ncol elv nodata conn mode pits Hpits) as HL.
  destruct (loop_yinv nrow ncol elv nodata conn seeds (S sz) init HL init_yinv) as [HL' HY'].
  split; auto. split; auto.
  apply (loop_empties nrow ncol elv nodata conn (S sz) init); [apply (l_binv nrow ncol elv nodata conn _ HL)|]. pose proof init_meas. lia.
Qed.

(* a path of allowed steps from a seed through valid cells, with the largest input elevation on it *)
Inductive spath : nat -> Z -> Prop :=
| sp_seed s : In s seeds -> (s < sz)%nat -> isnd s = false -> spath s (E s)
| sp_step u v o M : spath u M -> In o (offs conn) -> geom nrow ncol v o u -> isnd v = false -> spath v (Z.max M (E v)).

(* every cell on such a path is finished, at a level not above the highest elevation on the path *)
Theorem flood_upper j M : spath j M -> (j < sz)%nat /\ isnd j = false /\ doneb st j = true /\ fv st j <= M.
Proof.
  destruct final_invs as (HL & HY & Hq).
  induction 1 as [s Hs Hlt Hn|u v o M Hp IH Ho Hg Hn].
  - destruct (y_seed nrow ncol elv nodata conn seeds _ HY s Hs) as [Hqd Hdv].
    assert (Hd : doneb st s = true).
    { destruct (doneb st s) eqn:Ed; auto. destruct (y_inq nrow ncol elv nodata conn seeds _ HY s Hlt Hqd Ed) as [z [b Hin]]. rewrite Hq in Hin. destruct Hin. }
    split; auto. split; auto. split; auto. unfold filledv. rewrite Hdv. lia.
  - destruct IH as (Hu & Hnu & Hdu & Hlu). destruct Hg as (_ & Hinb & Hv).
    destruct (lin_bound nrow ncol _ _ Hinb) as (Hvlt & _). rewrite <- Hv in Hvlt.
    destruct (y_rel nrow ncol elv nodata conn seeds _ HY u Hu Hdu Hnu) as [[z [b Hin]]|Hr]; [rewrite Hq in Hin; destruct Hin|].
    specialize (Hr o Ho Hinb). cbv zeta in Hr. rewrite <- Hv in Hr. destruct (Hr Hn) as [Hdv Hlv].
    split; auto. split; auto. split; auto. lia.
Qed.

(* ... and that bound is attained by the path stored in the direction raster *)
Theorem flood_attained j : (j < sz)%nat -> doneb st j = true -> isnd j = false -> exists M, spath j M /\ fv st j = M.
Proof.
  destruct final_invs as (HL & HY & Hq). intros Hj Hd Hn.
  pose proof (l_reach nrow ncol elv nodata conn _ HL j Hj Hd Hn) as Hr.
  destruct (l_binv nrow ncol elv nodata conn _ HL) as (_ & _ & _ & _ & _ & Hndinv).
  clear Hj Hd Hn.
  induction Hr as [r Hroot|j' o p Ho Hne Hg Hd' Hn' H8 Hlev Hp IH].
  - assert (Hrn : isnd r = false).
    { destruct Hroot as (Hr1 & Hr2 & Hr3). destruct (isnd r) eqn:En; auto. destruct (Hndinv r Hr1 En) as (_ & _ & H247). congruence. }
    pose proof (y_root nrow ncol elv nodata conn seeds _ HY r Hroot Hrn) as Hs.
    destruct (y_seed nrow ncol elv nodata conn seeds _ HY r Hs) as [_ Hdv]. destruct Hroot as (Hr1 & _).
    exists (E r). split; [apply sp_seed; auto|unfold filledv; rewrite Hdv; lia].
  - destruct IH as [M' [Hsp Hfv]].
    exists (Z.max M' (E j')). split; [apply (sp_step p j' o M'); auto|]. rewrite Hlev, Hfv. apply Z.max_comm.
Qed.
End Final.

(* which cells are seeds (outlets): the edge cells of the valid area ('edge'), or the user's cells *)
Lemma seeds_char nrow ncol elv nodata conn mode pits : mode <> 1 -> forall j,
  In j (seeds nrow ncol elv nodata conn mode pits) <->
  ((j < nrow * ncol)%nat /\ (if mode =? 2 then memb j pits else is_edge nrow ncol elv nodata conn j) = true).
Proof.
  intros Hm j. unfold seeds, flood_init.
  destruct (Z.eqb_spec mode 1) as [E1|_]; [contradiction|]. simpl.
  rewrite map_map. simpl. rewrite map_id. rewrite filter_In, in_seq.
  split.
  - intros [Hj Hq]. split; [lia|]. destruct (mode =? 2); rewrite map_seq_nth in Hq by lia; exact Hq.
  - intros [Hj Hq]. split; [lia|]. destruct (mode =? 2); rewrite map_seq_nth by lia; exact Hq.
Qed.
