(* ihu: the generated driver gen_ihu_ihu with the GENERATED gen_ihu_ihu_relocate_outlets plugged in as its parameter `relocate`,
   WITHOUT any hypothesis about relocate.  The model side is the fuel-parametric variant of the hand model:
   ihu_iter_pf pf / up_ihu_pf pf are Ihu.ihu_iter / Ihu.up_ihu with relocate replaced by GenIhuRelModel.relocate_pf pf
   (the fuel of the loop `while len(bottleneck) > nbottlenecks` is pf instead of S (S (S nc))); the instance
   pf = S (S (S nc)) IS the model (ihu_iter_pf_model, up_ihu_pf_model).  The generated driver with fuel S nsub is the
   instance pf = S nsub (gen_ihu_ihu_closed_pf_eq, gen_ihu_ihu_closed_pf).
   Part 5: the fuel of the passes does not matter once the passes succeed (rl_passes_fuel_mono ... ihu_iter_pf_fuel_mono), hence
   gen_ihu_ihu_closed_model: when Ihu.ihu_iter itself succeeds and S (S nc) <= nsub, the generated driver returns its result.
   (outer_sticky / ofold_sticky are qualified: GenIhuRelEq has its own outer_sticky.) *)
From Coq Require Import List Arith ZArith Bool Lia.
Import ListNotations.
From PF Require Import Arr Net Elev Upscale D8Idx Ihu GenCodecBaseEq GenUpscaleBaseEq GenUpscaleRepEq GenUpscaleWalkEq GenUpscaleIhuEq
        GenIhuBaseEq GenIhuCheckEq GenIhuNewEq GenIhuOptEq GenIhuMinA GenIhuMinB GenIhuMinC GenIhuMinEq GenIhuDrvA GenIhuDrvEq
        GenIhuRelModel GenIhuRelEq.
From PFG Require Import GenUpscale GenIhu.

(* ---------- 1. the model with the fuel of the passes as a parameter ---------- *)
Fixpoint ihu_iter_pf (pf : nat) (sds : list nat) (upa : list Z) (subncol cs nrow ncol : nat) (n j : nat) (a : A) (fixl : list nat) : A :=
  match n with
  | O => a
  | S n' =>
    let a1 := relocate_pf pf sds upa subncol cs nrow ncol fixl a in
    let c := upscale_check sds cs nrow ncol (a_out a1) (a_cds a1) in
    let fix1 := c_fix c in
    let last := (length fix1 =? 0) || (length fix1 =? length fixl) || (j + 1 =? 5) in
    let a2 := mkA (a_cds a1) (a_out a1) (c_st c) (if c_ok c then a_err a1 else if a_err a1 =? 0 then 1 else a_err a1) in
    let a3 := optimize_rivlen sds upa subncol cs nrow ncol (c_valid c) (c_short c) a2 in
    let a4 := minimize_error sds upa subncol cs nrow ncol fix1 (if last then 2 else 0) a3 in
    if last then a4 else ihu_iter_pf pf sds upa subncol cs nrow ncol n' (S j) a4 fix1
  end.

Definition up_ihu_pf (pf : nat) (sds : list nat) (upa : list Z) (subnrow subncol cs : nat) (ea : list bool)
  : list nat * list nat * (nat * nat) :=
  let nrow := cdiv subnrow cs in
  let ncol := cdiv subncol cs in
  let rep := repcell sds upa subncol cs nrow ncol (eaf ea) in
  let out := ihu_outlets sds subncol cs nrow ncol rep in
  let cds := ihu_nextidx sds subncol cs nrow ncol ea out in
  let fixl := ihu_fix sds subncol cs nrow ncol out in
  let a := ihu_iter_pf pf sds upa subncol cs nrow ncol 5 0 (mkA cds out [] 0) fixl in
  ((if a_err a =? 0 then a_cds a else [nrow * ncol + a_err a]), a_out a, (nrow, ncol)).

Lemma ihu_iter_pf_model sds upa subncol cs nrow ncol n : forall j a fixl,
  ihu_iter_pf (S (S (S (nrow * ncol)))) sds upa subncol cs nrow ncol n j a fixl = ihu_iter sds upa subncol cs nrow ncol n j a fixl.
Proof.
  induction n as [|n IH]; intros j a fixl; [reflexivity|].
  cbn [ihu_iter_pf ihu_iter]. cbv zeta. rewrite relocate_pf_model, IH. reflexivity.
Qed.

Lemma up_ihu_pf_model sds upa subnrow subncol cs ea :
  up_ihu_pf (S (S (S (cdiv subnrow cs * cdiv subncol cs)))) sds upa subnrow subncol cs ea = up_ihu sds upa subnrow subncol cs ea.
Proof. unfold up_ihu_pf, up_ihu. cbv zeta. rewrite ihu_iter_pf_model. reflexivity. Qed.

(* ---------- 2. GenIhuDrvA's facts on relocate, for every fuel of the passes ---------- *)
Section DrvLenPf.
Variable pf : nat.
Variable sds : list nat.
Variable upa : list Z.
Variables subncol cs nrow ncol : nat.
Variables n m : nat.
Notation nsub := (length sds).
Notation nc := (nrow * ncol).

Lemma rl_one_pf_AL a idx00 : AL n m a -> AL n m (rl_one_pf pf sds subncol cs nrow ncol a idx00).
Proof.
  intros H. unfold rl_one_pf. cbv zeta.
  match goal with |- context [match ?m with Some _ => _ | None => _ end] => destruct m as [[[il sl] sub_end]|] end; [|exact H].
  match goal with |- context [if ?c then a else _] => destruct c end; [exact H|].
  destruct H as [H1 H2].
  match goal with |- context [rl_passes _ _ _ _ _ ?a1 ?a2 ?a3 ?a4 ?a5 ?a6 ?a7 ?a8 ?a9 ?a10 ?a11 ?a12 ?a13] =>
    pose proof (rl_passes_SL sds subncol cs nrow ncol n m a1 a2 a3 a4 a5 a6 a7 a8 a9 a10 a11 a12 a13 H1 H2) as Hs;
    set (S0 := rl_passes sds subncol cs nrow ncol a1 a2 a3 a4 a5 a6 a7 a8 a9 a10 a11 a12 a13) in * end.
  destruct (in_out S0 (nth (s_idx1 S0) (s_cds S0) nc)).
  - exact (s4_unroll_SL n m S0 Hs).
  - exact Hs.
Qed.

Lemma relocate_pf_AL fixl a : AL n m a -> AL n m (relocate_pf pf sds upa subncol cs nrow ncol fixl a).
Proof.
  intros H. unfold relocate_pf. cbv zeta. apply drv_fold_inv; [exact H|]. intros a' i0 Ha'. apply rl_one_pf_AL. exact Ha'.
Qed.

Lemma rl_one_pf_strip st a i :
  rl_one_pf pf sds subncol cs nrow ncol (strip st a) i = strip st (rl_one_pf pf sds subncol cs nrow ncol a i).
Proof.
  destruct a as [c o s e]. unfold rl_one_pf, strip. cbv zeta. cbn [a_cds a_out a_st a_err].
  match goal with |- context [match ?m with Some _ => _ | None => _ end] => destruct m as [[[il sl] sub_end]|] end;
    [|reflexivity].
  match goal with |- context [if ?c then _ else _] => destruct c end; reflexivity.
Qed.

Lemma relocate_pf_strip st fixl a :
  relocate_pf pf sds upa subncol cs nrow ncol fixl (strip st a) = strip st (relocate_pf pf sds upa subncol cs nrow ncol fixl a).
Proof.
  unfold relocate_pf. cbv zeta. cbn [strip a_out].
  generalize (argsort (map (fun i : nat => nth (nth i (a_out a) nsub) upa 0%Z) fixl)). intros l. revert a.
  induction l as [|x l IH]; intros a; cbn [fold_left]; [reflexivity|].
  rewrite rl_one_pf_strip. apply IH.
Qed.

Lemma rl_one_pf_sticky a i : a_err a <> 0 -> a_err (rl_one_pf pf sds subncol cs nrow ncol a i) <> 0.
Proof.
  intros H. unfold rl_one_pf. cbv zeta.
  match goal with |- context [match ?m with Some _ => _ | None => _ end] => destruct m as [[[il sl] sub_end]|] end.
  - match goal with |- context [if ?c then a else _] => destruct c end; [exact H|].
    cbn [a_err]. match goal with |- context [if s_ok ?s then _ else _] => destruct (s_ok s) end; [exact H|].
    destruct (a_err a =? 0) eqn:E; [apply Nat.eqb_eq in E; contradiction|exact H].
  - unfold set_err. cbn [a_err]. destruct (a_err a =? 0) eqn:E; [apply Nat.eqb_eq in E; contradiction|exact H].
Qed.

Lemma relocate_pf_sticky fixl a : a_err a <> 0 -> a_err (relocate_pf pf sds upa subncol cs nrow ncol fixl a) <> 0.
Proof.
  intros H. unfold relocate_pf. cbv zeta.
  apply (drv_fold_inv (fun a => a_err a <> 0)); [exact H|]. intros a' x Ha'. apply rl_one_pf_sticky. exact Ha'.
Qed.
End DrvLenPf.

(* ---------- 3. Section Drv of GenIhuDrvEq.v for relocate_pf pf / ihu_iter_pf pf (hypothesis on arrays of the right length) ---------- *)
Section DrvPf.
Variable pf : nat.
Variable sds : list nat.
Variable upa : list Z.
Variable subnrow : Z.
Variables subncol cs nrow ncol : nat.
Variable reloc : list nat -> list nat -> list nat -> list nat -> list Z -> Z * Z -> Z * Z -> Z -> option (list nat * list nat * list nat).
Variable rfix : list nat -> list nat -> list nat -> list nat.
Notation nc := (nrow * ncol).
Hypothesis Hnomv : nomv_cell sds subncol cs ncol.
Hypothesis Hnc : (Z.of_nat nc <= 2147483648)%Z.
Hypothesis Hreloc : forall fixl cds out, length cds = nc ->
  reloc fixl cds out sds upa (subnrow, Z.of_nat subncol) (Z.of_nat nrow, Z.of_nat ncol) (Z.of_nat cs)
  = (let a' := relocate_pf pf sds upa subncol cs nrow ncol fixl (mkA cds out [] 0) in
     if (a_err a' =? 0)%nat then Some (a_cds a', a_out a', rfix fixl cds out) else None).

(* the body of one iteration of the model, after relocate *)
Definition ib_c (a1 : A) : Chk := upscale_check sds cs nrow ncol (a_out a1) (a_cds a1).
Definition ib_last (j : nat) (a1 : A) (fixl : list nat) : bool :=
  (length (c_fix (ib_c a1)) =? 0) || (length (c_fix (ib_c a1)) =? length fixl) || (j + 1 =? 5).
Definition ib_a2 (a1 : A) : A :=
  mkA (a_cds a1) (a_out a1) (c_st (ib_c a1))
      (if c_ok (ib_c a1) then a_err a1 else if a_err a1 =? 0 then 1 else a_err a1).
Definition ib_a4 (j : nat) (a1 : A) (fixl : list nat) : A :=
  minimize_error sds upa subncol cs nrow ncol (c_fix (ib_c a1)) (if ib_last j a1 fixl then 2 else 0)
    (optimize_rivlen sds upa subncol cs nrow ncol (c_valid (ib_c a1)) (c_short (ib_c a1)) (ib_a2 a1)).

Lemma ihu_iter_pf_S n j a fixl :
  ihu_iter_pf pf sds upa subncol cs nrow ncol (S n) j a fixl
  = (let a1 := relocate_pf pf sds upa subncol cs nrow ncol fixl a in
     if ib_last j a1 fixl then ib_a4 j a1 fixl
     else ihu_iter_pf pf sds upa subncol cs nrow ncol n (S j) (ib_a4 j a1 fixl) (c_fix (ib_c a1))).
Proof. reflexivity. Qed.

Lemma ib_a4_strip j st a1 fixl : ib_a4 j (strip st a1) fixl = ib_a4 j a1 fixl.
Proof. reflexivity. Qed.
Lemma ib_last_strip j st a1 fixl : ib_last j (strip st a1) fixl = ib_last j a1 fixl.
Proof. reflexivity. Qed.
Lemma ib_c_strip st a1 : ib_c (strip st a1) = ib_c a1.
Proof. reflexivity. Qed.

Lemma relocate_pf_st0 fixl a : a_err a = 0 ->
  relocate_pf pf sds upa subncol cs nrow ncol fixl a
  = strip (a_st a) (relocate_pf pf sds upa subncol cs nrow ncol fixl (mkA (a_cds a) (a_out a) [] 0)).
Proof.
  intros E. rewrite <- relocate_pf_strip. f_equal. destruct a as [c o s e]. cbn in *. subst e. reflexivity.
Qed.

(* stickiness of the error flag *)
Lemma om_sticky valid short fix1 poc a2 : a_err a2 <> 0 ->
  a_err (minimize_error sds upa subncol cs nrow ncol fix1 poc
           (optimize_rivlen sds upa subncol cs nrow ncol valid short a2)) <> 0.
Proof.
  intros H. rewrite GenIhuMinEq.minimize_error_unf. apply GenIhuMinEq.outer_sticky. rewrite GenIhuOptEq.optimize_rivlen_unf. apply GenIhuOptEq.ofold_sticky. exact H.
Qed.

Lemma ib_a4_sticky j a1 fixl : a_err a1 <> 0 -> a_err (ib_a4 j a1 fixl) <> 0.
Proof. intros H. unfold ib_a4. apply om_sticky. unfold ib_a2. cbn [a_err]. apply flag_ne. exact H. Qed.

Lemma ihu_iter_pf_sticky n : forall j a fixl, a_err a <> 0 -> a_err (ihu_iter_pf pf sds upa subncol cs nrow ncol n j a fixl) <> 0.
Proof.
  induction n as [|n IH]; intros j a fixl H; [exact H|]. rewrite ihu_iter_pf_S. cbv zeta.
  assert (H4 : a_err (ib_a4 j (relocate_pf pf sds upa subncol cs nrow ncol fixl a) fixl) <> 0)
    by (apply ib_a4_sticky, relocate_pf_sticky, H).
  destruct (ib_last j (relocate_pf pf sds upa subncol cs nrow ncol fixl a) fixl); [exact H4|]. apply IH. exact H4.
Qed.

Lemma ib_a4_AL j a1 fixl : AL nc nc a1 -> AL nc nc (ib_a4 j a1 fixl).
Proof. intros H. unfold ib_a4. apply minimize_error_AL, optimize_rivlen_AL. exact H. Qed.

(* ---------- one iteration ---------- *)
Definition STEP := gen_ihu_ihu_step1 (S (length sds)) sds upa (subnrow, Z.of_nat subncol) (Z.of_nat cs) 5 true true 2 reloc
                     (Z.of_nat nrow, Z.of_nat ncol) (Z.of_nat cs) (Z.of_nat (cs * cs)).

Lemma step1_eq j cds out fixl : length cds = nc -> length out = nc ->
  STEP (out, cds, fixl) j
  = (let a1 := relocate_pf pf sds upa subncol cs nrow ncol fixl (mkA cds out [] 0) in
     let a4 := ib_a4 j a1 fixl in
     if a_err a4 =? 0
     then Some ((a_out a4, a_cds a4, if ib_last j a1 fixl then fixl else c_fix (ib_c a1)), ib_last j a1 fixl)
     else None).
Proof.
  intros Hc Ho. unfold STEP, gen_ihu_ihu_step1. cbv beta iota zeta. rewrite (Hreloc _ _ _ Hc). cbv zeta.
  set (a1 := relocate_pf pf sds upa subncol cs nrow ncol fixl (mkA cds out [] 0)).
  assert (HL1 : AL nc nc a1) by (apply relocate_pf_AL; split; assumption).
  destruct HL1 as [Hc1 Ho1].
  destruct (a_err a1 =? 0) eqn:E1.
  2:{ apply Nat.eqb_neq in E1. pose proof (ib_a4_sticky j a1 fixl E1) as H4. apply Nat.eqb_neq in H4.
      rewrite H4. reflexivity. }
  apply Nat.eqb_eq in E1. cbv beta iota.
  rewrite (gen_ihu_upscale_check_eq sds cs nrow ncol (a_out a1) (a_cds a1) Ho1 Hc1 Hnc). cbv zeta.
  change (upscale_check sds cs nrow ncol (a_out a1) (a_cds a1)) with (ib_c a1).
  destruct (c_ok (ib_c a1)) eqn:Eok.
  2:{ assert (H2 : a_err (ib_a2 a1) <> 0) by (unfold ib_a2; cbn [a_err]; rewrite Eok, E1; discriminate).
      pose proof (om_sticky (c_valid (ib_c a1)) (c_short (ib_c a1)) (c_fix (ib_c a1)) (if ib_last j a1 fixl then 2 else 0)
                    (ib_a2 a1) H2) as H4.
      apply Nat.eqb_neq in H4. unfold ib_a4. rewrite H4. reflexivity. }
  cbv beta iota. rewrite last_eq.
  change ((length (c_fix (ib_c a1)) =? 0) || (length (c_fix (ib_c a1)) =? length fixl) || (j + 1 =? 5))
    with (ib_last j a1 fixl).
  assert (Ha2 : ib_a2 a1 = mkA (a_cds a1) (a_out a1) (c_st (ib_c a1)) 0)
    by (unfold ib_a2; rewrite Eok, E1; reflexivity).
  unfold ib_a4. rewrite Ha2.
  set (a2 := mkA (a_cds a1) (a_out a1) (c_st (ib_c a1)) 0).
  pose proof (gen_ihu_optimize_rivlen_eq sds upa subnrow subncol cs nrow ncol (c_valid (ib_c a1)) (c_short (ib_c a1)) a2
                Hnomv eq_refl Hc1) as HO.
  change (a_st a2) with (c_st (ib_c a1)) in HO. change (a_cds a2) with (a_cds a1) in HO.
  change (a_out a2) with (a_out a1) in HO. cbv zeta in HO. rewrite HO. clear HO.
  set (a3 := optimize_rivlen sds upa subncol cs nrow ncol (c_valid (ib_c a1)) (c_short (ib_c a1)) a2).
  assert (HL3 : AL nc nc a3) by (apply optimize_rivlen_AL; split; assumption).
  destruct HL3 as [Hc3 Ho3].
  destruct (a_err a3 =? 0) eqn:E3.
  2:{ apply Nat.eqb_neq in E3.
      assert (H4 : a_err (minimize_error sds upa subncol cs nrow ncol (c_fix (ib_c a1))
                            (if ib_last j a1 fixl then 2 else 0) a3) <> 0)
        by (rewrite GenIhuMinEq.minimize_error_unf; apply GenIhuMinEq.outer_sticky; exact E3).
      apply Nat.eqb_neq in H4. rewrite H4. reflexivity. }
  apply Nat.eqb_eq in E3. cbv beta iota.
  assert (Hpoc : (if ib_last j a1 fixl then 2%Z else 0%Z) = Z.of_nat (if ib_last j a1 fixl then 2 else 0))
    by (destruct (ib_last j a1 fixl); reflexivity).
  rewrite Hpoc.
  rewrite (gen_ihu_minimize_error_eq sds upa subnrow subncol cs nrow ncol (c_valid (ib_c a1)) (c_fix (ib_c a1))
             (if ib_last j a1 fixl then 2 else 0) a3 Hnomv E3 Hc3).
  cbv zeta.
  destruct (a_err (minimize_error sds upa subncol cs nrow ncol (c_fix (ib_c a1)) (if ib_last j a1 fixl then 2 else 0) a3) =? 0);
    [|reflexivity].
  cbv beta iota. destruct (ib_last j a1 fixl); reflexivity.
Qed.

(* ---------- the loop ---------- *)
Lemma loop_eq n : forall j cds out st fixl, length cds = nc -> length out = nc ->
  match gen_ihu_obfold STEP (seq j n) (out, cds, fixl) with
  | None => None
  | Some (o, c, _) => Some (c, o)
  end
  = (let a' := ihu_iter_pf pf sds upa subncol cs nrow ncol n j (mkA cds out st 0) fixl in
     if a_err a' =? 0 then Some (a_cds a', a_out a') else None).
Proof.
  induction n as [|n IH]; intros j cds out st fixl Hc Ho.
  - cbn [seq]. rewrite obfold_nil. reflexivity.
  - cbn [seq]. rewrite obfold_cons, step1_eq by assumption. rewrite ihu_iter_pf_S. cbv zeta.
    rewrite (relocate_pf_st0 fixl (mkA cds out st 0) eq_refl). cbn [a_cds a_out a_st].
    set (a1 := relocate_pf pf sds upa subncol cs nrow ncol fixl (mkA cds out [] 0)).
    rewrite ib_a4_strip, ib_last_strip, ib_c_strip.
    assert (HL4 : AL nc nc (ib_a4 j a1 fixl)).
    { apply ib_a4_AL. apply relocate_pf_AL. split; assumption. }
    destruct HL4 as [Hc4 Ho4].
    destruct (a_err (ib_a4 j a1 fixl) =? 0) eqn:E4.
    + apply Nat.eqb_eq in E4. destruct (ib_last j a1 fixl).
      * rewrite E4. reflexivity.
      * rewrite (IH (S j) _ _ (a_st (ib_a4 j a1 fixl)) (c_fix (ib_c a1)) Hc4 Ho4).
        rewrite (A_eta _ E4). reflexivity.
    + apply Nat.eqb_neq in E4. destruct (ib_last j a1 fixl).
      * apply Nat.eqb_neq in E4. rewrite E4. reflexivity.
      * pose proof (ihu_iter_pf_sticky n (S j) _ (c_fix (ib_c a1)) E4) as H. apply Nat.eqb_neq in H. rewrite H. reflexivity.
Qed.
End DrvPf.

(* ---------- 4. the driver, closed: no hypothesis about relocate ---------- *)
Lemma final_aux_pf (m : option (list nat * list nat * list nat)) (a : A) (sh : Z * Z) :
  match m with None => None | Some (o, c, _) => Some (c, o) end
  = (if a_err a =? 0 then Some (a_cds a, a_out a) else None) ->
  match m with None => None | Some (o, c, f) => Some (c, o, sh) end
  = (if a_err a =? 0 then Some (a_cds a, a_out a, sh) else None).
Proof. destruct (a_err a =? 0); destruct m as [[[o c] f]|]; intros H; inversion H; reflexivity. Qed.

(* the driver with an abstract relocate that behaves like relocate_pf pf on index arrays of the right length *)
Theorem gen_ihu_ihu_pf_eq_len : forall (pf : nat) (sds : list nat) (upa : list Z) (subnrow subncol cs : nat) (ea : list bool)
    (reloc : list nat -> list nat -> list nat -> list nat -> list Z -> Z * Z -> Z * Z -> Z -> option (list nat * list nat * list nat))
    (rfix : list nat -> list nat -> list nat -> list nat),
  let nrow := cdiv subnrow cs in
  let ncol := cdiv subncol cs in
  (length ea <= length sds)%nat ->
  nomv_cell sds subncol cs ncol ->
  (Z.of_nat (nrow * ncol) <= 2147483648)%Z ->
  (forall fixl cds out, length cds = (nrow * ncol)%nat ->
     reloc fixl cds out sds upa (Z.of_nat subnrow, Z.of_nat subncol) (Z.of_nat nrow, Z.of_nat ncol) (Z.of_nat cs)
     = (let a' := relocate_pf pf sds upa subncol cs nrow ncol fixl (mkA cds out [] 0) in
        if (a_err a' =? 0)%nat then Some (a_cds a', a_out a', rfix fixl cds out) else None)) ->
  gen_ihu_ihu (S (length sds)) sds upa (Z.of_nat subnrow, Z.of_nat subncol) (Z.of_nat cs) 5 true true 2 (eaf ea) reloc
  = (let rep := repcell sds upa subncol cs nrow ncol (eaf ea) in
     let out := ihu_outlets sds subncol cs nrow ncol rep in
     let cds := ihu_nextidx sds subncol cs nrow ncol ea out in
     let fixl := ihu_fix sds subncol cs nrow ncol out in
     let a := ihu_iter_pf pf sds upa subncol cs nrow ncol 5 0 (mkA cds out [] 0) fixl in
     if (a_err a =? 0)%nat then Some (a_cds a, a_out a, (Z.of_nat nrow, Z.of_nat ncol)) else None).
Proof.
  intros pf sds upa subnrow subncol cs ea reloc rfix nrow ncol Hea Hnomv Hnc Hreloc.
  unfold gen_ihu_ihu. cbv beta iota zeta.
  rewrite !zcdiv, zminupa, Z.mul_1_r.
  change (cdiv subnrow cs) with nrow. change (cdiv subncol cs) with ncol.
  rewrite gen_up_eam_repcell_eq, gen_up_ihu_outlets_eq.
  pose proof (ihu_outlets_length sds subncol cs nrow ncol (repcell sds upa subncol cs nrow ncol (eaf ea))) as Hol.
  set (out := ihu_outlets sds subncol cs nrow ncol (repcell sds upa subncol cs nrow ncol (eaf ea))) in *.
  clearbody out.
  pose proof (gen_up_ihu_nextidx_eq sds (Z.of_nat subnrow) subncol cs nrow ncol ea Hea out) as H1.
  pose proof (gen_up_ihu_nextidx_fix_eq sds (Z.of_nat subnrow) subncol cs nrow ncol ea Hea out ltac:(lia)) as H2.
  destruct (gen_up_ihu_nextidx out sds (Z.of_nat subnrow, Z.of_nat subncol) (Z.of_nat nrow, Z.of_nat ncol) (Z.of_nat cs) (eaf ea))
    as [r0 r1].
  cbn [fst snd] in H1, H2. subst r0 r1.
  change (Z.to_nat 5) with 5.
  apply final_aux_pf.
  exact (loop_eq pf sds upa (Z.of_nat subnrow) subncol cs nrow ncol reloc rfix Hnomv Hnc Hreloc 5 0
                (ihu_nextidx sds subncol cs nrow ncol ea out) out [] (ihu_fix sds subncol cs nrow ncol out)
                (ihu_nextidx_length _ _ _ _ _ _ _) Hol).
Qed.

(* the generated driver with the generated relocate, as an equation (the form of gen_ihu_ihu_eq) *)
Theorem gen_ihu_ihu_closed_pf_eq : forall (sds : list nat) (upa : list Z) (subnrow subncol cs : nat) (ea : list bool),
  let nrow := cdiv subnrow cs in
  let ncol := cdiv subncol cs in
  (length ea <= length sds)%nat ->
  nomv_cell sds subncol cs ncol ->
  (Z.of_nat (nrow * ncol) <= 2147483648)%Z ->
  gen_ihu_ihu (S (length sds)) sds upa (Z.of_nat subnrow, Z.of_nat subncol) (Z.of_nat cs) 5 true true 2 (eaf ea)
              (gen_ihu_ihu_relocate_outlets (S (length sds)))
  = (let rep := repcell sds upa subncol cs nrow ncol (eaf ea) in
     let out := ihu_outlets sds subncol cs nrow ncol rep in
     let cds := ihu_nextidx sds subncol cs nrow ncol ea out in
     let fixl := ihu_fix sds subncol cs nrow ncol out in
     let a := ihu_iter_pf (S (length sds)) sds upa subncol cs nrow ncol 5 0 (mkA cds out [] 0) fixl in
     if (a_err a =? 0)%nat then Some (a_cds a, a_out a, (Z.of_nat nrow, Z.of_nat ncol)) else None).
Proof.
  intros sds upa subnrow subncol cs ea nrow ncol Hea Hnomv Hnc.
  apply (gen_ihu_ihu_pf_eq_len (S (length sds)) sds upa subnrow subncol cs ea (gen_ihu_ihu_relocate_outlets (S (length sds)))
           (rel_fix3 sds upa (Z.of_nat subnrow) subncol cs nrow ncol) Hea Hnomv Hnc).
  intros fixl cds out Hlen.
  exact (gen_ihu_relocate_outlets_pf_eq sds upa (Z.of_nat subnrow) subncol cs nrow ncol fixl cds out Hlen).
Qed.

(* a successful run of the generated driver returns the result of the model with the fuel S nsub for the passes *)
Theorem gen_ihu_ihu_closed_pf : forall (sds : list nat) (upa : list Z) (subnrow subncol cs : nat) (ea : list bool),
  let nrow := cdiv subnrow cs in
  let ncol := cdiv subncol cs in
  (length ea <= length sds)%nat ->
  nomv_cell sds subncol cs ncol ->
  (Z.of_nat (nrow * ncol) <= 2147483648)%Z ->
  forall cds out sh,
  gen_ihu_ihu (S (length sds)) sds upa (Z.of_nat subnrow, Z.of_nat subncol) (Z.of_nat cs) 5 true true 2 (eaf ea)
              (gen_ihu_ihu_relocate_outlets (S (length sds)))
  = Some (cds, out, sh) ->
  up_ihu_pf (S (length sds)) sds upa subnrow subncol cs ea = (cds, out, (nrow, ncol)) /\ sh = (Z.of_nat nrow, Z.of_nat ncol).
Proof.
  intros sds upa subnrow subncol cs ea nrow ncol Hea Hnomv Hnc cds out sh H.
  rewrite (gen_ihu_ihu_closed_pf_eq sds upa subnrow subncol cs ea Hea Hnomv Hnc) in H.
  cbv zeta in H. unfold up_ihu_pf. cbv zeta.
  unfold nrow, ncol in *. clear nrow ncol.
  match type of H with (if a_err ?a0 =? 0 then _ else _) = _ => set (a := a0) in * end.
  clearbody a.
  destruct (a_err a =? 0); [|discriminate].
  inversion H. split; reflexivity.
Qed.

(* ---------- 5. the fuel of the passes does not matter when the passes succeed ---------- *)
Lemma rl_passes_fuel_mono sds subncol cs nrow ncol il sl us0 sds0 conn conn1 f1 : forall f2 cds out bott idx00 idx1 ok,
  s_ok (rl_passes sds subncol cs nrow ncol il sl us0 sds0 conn conn1 f1 cds out bott idx00 idx1 ok) = true ->
  f1 <= f2 ->
  rl_passes sds subncol cs nrow ncol il sl us0 sds0 conn conn1 f2 cds out bott idx00 idx1 ok
  = rl_passes sds subncol cs nrow ncol il sl us0 sds0 conn conn1 f1 cds out bott idx00 idx1 ok.
Proof.
  induction f1 as [|f1 IH]; intros f2 cds out bott idx00 idx1 ok Hok Hle.
  - cbn [rl_passes] in Hok. cbv zeta in Hok. unfold s4_fail in Hok. cbn [s_ok] in Hok. discriminate.
  - destruct f2 as [|f2]; [lia|]. cbn [rl_passes] in *. cbv zeta in *.
    match goal with |- context [if ?c then _ else _] => destruct c end; [|reflexivity].
    apply IH; [exact Hok|lia].
Qed.

Lemma rl_one_pf_fuel_mono f1 f2 sds subncol cs nrow ncol a i :
  a_err (rl_one_pf f1 sds subncol cs nrow ncol a i) = 0 -> a_err a = 0 -> f1 <= f2 ->
  rl_one_pf f2 sds subncol cs nrow ncol a i = rl_one_pf f1 sds subncol cs nrow ncol a i.
Proof.
  intros He Ha Hle. unfold rl_one_pf in *. cbv zeta in *.
  match goal with |- context [match ?m with Some _ => _ | None => _ end] => destruct m as [[[il sl] sub_end]|] end; [|reflexivity].
  match goal with |- context [if ?c then a else _] => destruct c end; [reflexivity|].
  match type of He with context [rl_passes _ _ _ _ _ ?a1 ?a2 ?a3 ?a4 ?a5 ?a6 f1 ?a8 ?a9 ?a10 ?a11 ?a12 ?a13] =>
    assert (Hok : s_ok (rl_passes sds subncol cs nrow ncol a1 a2 a3 a4 a5 a6 f1 a8 a9 a10 a11 a12 a13) = true) end.
  { cbn [a_err] in He. rewrite Ha in He.
    match type of He with context [if in_out ?s ?x then _ else _] => destruct (in_out s x) end.
    - unfold s4_unroll in He. cbv zeta in He. cbn [s_ok] in He.
      match goal with |- ?b = true => destruct b; [reflexivity|discriminate He] end.
    - match goal with |- ?b = true => destruct b; [reflexivity|discriminate He] end. }
  rewrite (rl_passes_fuel_mono _ _ _ _ _ _ _ _ _ _ _ f1 f2 _ _ _ _ _ _ Hok Hle). reflexivity.
Qed.

Lemma relocate_pf_fuel_mono f1 f2 sds upa subncol cs nrow ncol fixl a :
  a_err (relocate_pf f1 sds upa subncol cs nrow ncol fixl a) = 0 -> f1 <= f2 ->
  relocate_pf f2 sds upa subncol cs nrow ncol fixl a = relocate_pf f1 sds upa subncol cs nrow ncol fixl a.
Proof.
  intros He Hle. unfold relocate_pf in *. cbv zeta in *.
  revert He. generalize (argsort (map (fun i : nat => nth (nth i (a_out a) (length sds)) upa 0%Z) fixl)). intros l. revert a.
  induction l as [|x l IH]; intros a He; cbn [fold_left] in *; [reflexivity|].
  assert (H1 : a_err (rl_one_pf f1 sds subncol cs nrow ncol a (nth x fixl (nrow * ncol))) = 0).
  { destruct (Nat.eq_dec (a_err (rl_one_pf f1 sds subncol cs nrow ncol a (nth x fixl (nrow * ncol)))) 0) as [E|E]; [exact E|].
    exfalso. revert He. apply (drv_fold_inv (fun a => a_err a <> 0)); [exact E|]. intros a' y Ha'. apply rl_one_pf_sticky. exact Ha'. }
  assert (H0 : a_err a = 0).
  { destruct (Nat.eq_dec (a_err a) 0) as [E|E]; [exact E|]. exfalso. exact (rl_one_pf_sticky f1 sds subncol cs nrow ncol a _ E H1). }
  rewrite (rl_one_pf_fuel_mono f1 f2 _ _ _ _ _ _ _ H1 H0 Hle). apply IH. exact He.
Qed.

Lemma ihu_iter_pf_fuel_mono f1 f2 sds upa subncol cs nrow ncol n : forall j a fixl,
  a_err (ihu_iter_pf f1 sds upa subncol cs nrow ncol n j a fixl) = 0 -> f1 <= f2 ->
  ihu_iter_pf f2 sds upa subncol cs nrow ncol n j a fixl = ihu_iter_pf f1 sds upa subncol cs nrow ncol n j a fixl.
Proof.
  induction n as [|n IH]; intros j a fixl He Hle; [reflexivity|].
  rewrite ihu_iter_pf_S in He. rewrite !ihu_iter_pf_S. cbv zeta in *.
  destruct (Nat.eq_dec (a_err (relocate_pf f1 sds upa subncol cs nrow ncol fixl a)) 0) as [E|E].
  - rewrite (relocate_pf_fuel_mono f1 f2 sds upa subncol cs nrow ncol fixl a E Hle).
    destruct (ib_last sds cs nrow ncol j (relocate_pf f1 sds upa subncol cs nrow ncol fixl a) fixl); [reflexivity|].
    apply IH; assumption.
  - exfalso. pose proof (ib_a4_sticky sds upa subncol cs nrow ncol j _ fixl E) as H4.
    destruct (ib_last sds cs nrow ncol j (relocate_pf f1 sds upa subncol cs nrow ncol fixl a) fixl); [exact (H4 He)|].
    exact (ihu_iter_pf_sticky f1 sds upa subncol cs nrow ncol n (S j) _ _ H4 He).
Qed.

(* corollary: when the MODEL Ihu.ihu_iter succeeds and its fuel for the passes, S (S (S nc)), is at most the S nsub of the
   generated function, the generated driver returns the model's result *)
Theorem gen_ihu_ihu_closed_model : forall (sds : list nat) (upa : list Z) (subnrow subncol cs : nat) (ea : list bool),
  let nrow := cdiv subnrow cs in
  let ncol := cdiv subncol cs in
  (length ea <= length sds)%nat ->
  nomv_cell sds subncol cs ncol ->
  (Z.of_nat (nrow * ncol) <= 2147483648)%Z ->
  (S (S (nrow * ncol)) <= length sds)%nat ->
  let rep := repcell sds upa subncol cs nrow ncol (eaf ea) in
  let out := ihu_outlets sds subncol cs nrow ncol rep in
  let cds := ihu_nextidx sds subncol cs nrow ncol ea out in
  let fixl := ihu_fix sds subncol cs nrow ncol out in
  let a := ihu_iter sds upa subncol cs nrow ncol 5 0 (mkA cds out [] 0) fixl in
  a_err a = 0 ->
  gen_ihu_ihu (S (length sds)) sds upa (Z.of_nat subnrow, Z.of_nat subncol) (Z.of_nat cs) 5 true true 2 (eaf ea)
              (gen_ihu_ihu_relocate_outlets (S (length sds)))
  = Some (a_cds a, a_out a, (Z.of_nat nrow, Z.of_nat ncol)).
Proof.
  intros sds upa subnrow subncol cs ea nrow ncol Hea Hnomv Hnc Hf rep out cds fixl a He.
  rewrite (gen_ihu_ihu_closed_pf_eq sds upa subnrow subncol cs ea Hea Hnomv Hnc). cbv zeta.
  fold nrow ncol. fold rep. fold out. fold cds. fold fixl.
  assert (Hm : ihu_iter_pf (S (length sds)) sds upa subncol cs nrow ncol 5 0 (mkA cds out [] 0) fixl = a).
  { unfold a. rewrite <- ihu_iter_pf_model. apply ihu_iter_pf_fuel_mono; [|lia].
    rewrite ihu_iter_pf_model. exact He. }
  rewrite Hm, He. reflexivity.
Qed.

Print Assumptions gen_ihu_ihu_closed_pf_eq.
Print Assumptions gen_ihu_ihu_closed_pf.
Print Assumptions gen_ihu_ihu_closed_model.

(* the conclusion of gen_ihu_ihu_up_ihu for the fully generated driver, without a hypothesis on relocate and without PassFuel,
   when the hand model itself reports no error (and the fine raster has at least nc + 2 pixels) *)
Theorem gen_ihu_ihu_closed_noerr : forall (sds : list nat) (upa : list Z) (subnrow subncol cs : nat) (ea : list bool),
  let nrow := cdiv subnrow cs in
  let ncol := cdiv subncol cs in
  (length ea <= length sds)%nat ->
  nomv_cell sds subncol cs ncol ->
  (Z.of_nat (nrow * ncol) <= 2147483648)%Z ->
  (S (S (nrow * ncol)) <= length sds)%nat ->
  (let rep := repcell sds upa subncol cs nrow ncol (eaf ea) in
   let out := ihu_outlets sds subncol cs nrow ncol rep in
   let cds := ihu_nextidx sds subncol cs nrow ncol ea out in
   let fixl := ihu_fix sds subncol cs nrow ncol out in
   a_err (ihu_iter sds upa subncol cs nrow ncol 5 0 (mkA cds out [] 0) fixl) = 0) ->
  forall cds out sh,
  gen_ihu_ihu (S (length sds)) sds upa (Z.of_nat subnrow, Z.of_nat subncol) (Z.of_nat cs) 5 true true 2 (eaf ea)
              (gen_ihu_ihu_relocate_outlets (S (length sds)))
  = Some (cds, out, sh) ->
  up_ihu sds upa subnrow subncol cs ea = (cds, out, (nrow, ncol)) /\ sh = (Z.of_nat nrow, Z.of_nat ncol).
Proof.
  intros sds upa subnrow subncol cs ea nrow ncol Hea Hnomv Hnc Hf He cds out sh H.
  pose proof (gen_ihu_ihu_closed_model sds upa subnrow subncol cs ea Hea Hnomv Hnc Hf He) as G.
  cbv zeta in G, He. unfold up_ihu. cbv zeta.
  unfold nrow, ncol in *. clear nrow ncol.
  match type of He with a_err ?a0 = 0 => set (a := a0) in * end.
  clearbody a.
  rewrite G in H. rewrite He. cbn [Nat.eqb].
  injection H as H1 H2 H3. subst cds out sh. split; reflexivity.
Qed.
Print Assumptions gen_ihu_ihu_closed_noerr.
