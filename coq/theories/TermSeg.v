(* C13 / termination, target 2a: the river-segment walk `seg` of subgrid.segment_* (Ucat.v).
   `segment_paths` calls it with fuel n = length nxt.  On a loop-free network the walk stops by its own exit test
   (nodata link / pit / mask / next outlet pixel) within k < n iterations: the fuel is never the reason to stop. *)
From Coq Require Import List Arith ZArith Bool Lia.
Import ListNotations.
From PF Require Import Arr Net Ucat NetBound.

Section TermSeg.
Variable nxt : list nat.
Variable isout : nat -> bool.
Variable maskok : nat -> bool.
Variable incl : bool.
Notation n := (length nxt).
Notation seg := (seg nxt isout maskok incl).

(* generic: once a pit lies kp steps downstream, fuel kp is enough *)
Lemma seg_fuel_gen : forall fuel cur kp extra, dsf nxt (iter nxt kp cur) = iter nxt kp cur -> kp <= fuel ->
  seg (fuel + extra) cur = seg fuel cur.
Proof.
  induction fuel as [|f IH]; intros cur kp extra Hp Hk.
  - assert (kp = 0) by lia. subst kp. cbn [iter] in Hp. cbn [Nat.add].
    destruct extra as [|e]; [reflexivity|]. cbn [Ucat.seg].
    change (nth cur nxt n) with (dsf nxt cur). rewrite Hp, Nat.eqb_refl, orb_true_r. reflexivity.
  - cbn [Nat.add Ucat.seg]. change (nth cur nxt n) with (dsf nxt cur).
    destruct ((n <=? dsf nxt cur) || (dsf nxt cur =? cur) || negb (maskok (dsf nxt cur))) eqn:E; [reflexivity|].
    destruct (isout (dsf nxt cur)); [reflexivity|]. f_equal.
    destruct kp as [|kp].
    + cbn [iter] in Hp. rewrite Hp, Nat.eqb_refl, orb_true_r in E. discriminate.
    + apply (IH (dsf nxt cur) kp extra); [exact Hp|lia].
Qed.

Lemma seg_length_gen : forall fuel cur kp, dsf nxt (iter nxt kp cur) = iter nxt kp cur -> length (seg fuel cur) <= kp.
Proof.
  induction fuel as [|f IH]; intros cur kp Hp.
  - cbn [Ucat.seg]. change (nth cur nxt n) with (dsf nxt cur).
    destruct ((n <=? dsf nxt cur) || (dsf nxt cur =? cur) || negb (maskok (dsf nxt cur))) eqn:E; [simpl; lia|].
    destruct kp as [|kp]; [cbn [iter] in Hp; rewrite Hp, Nat.eqb_refl, orb_true_r in E; discriminate|].
    destruct (isout (dsf nxt cur)); [destruct incl|]; simpl; lia.
  - cbn [Ucat.seg]. change (nth cur nxt n) with (dsf nxt cur).
    destruct ((n <=? dsf nxt cur) || (dsf nxt cur =? cur) || negb (maskok (dsf nxt cur))) eqn:E; [simpl; lia|].
    destruct kp as [|kp]; [cbn [iter] in Hp; rewrite Hp, Nat.eqb_refl, orb_true_r in E; discriminate|].
    destruct (isout (dsf nxt cur)); [destruct incl; simpl; lia|].
    cbn [length]. specialize (IH (dsf nxt cur) kp Hp). lia.
Qed.

(* a start pixel that is not a cell of the network (nodata / outside) stops at once, whatever the fuel *)
Lemma seg_invalid fuel cur : ~ valid nxt cur -> seg fuel cur = [].
Proof.
  intros Hnv. assert (Hd : n <= dsf nxt cur).
  { destruct (Nat.lt_ge_cases cur n) as [Hc|Hc]; [|rewrite nodata_oob; unfold size; auto].
    destruct (Nat.lt_ge_cases (dsf nxt cur) n) as [Hd|Hd]; auto. exfalso. apply Hnv. split; auto. }
  destruct fuel; cbn [Ucat.seg]; change (nth cur nxt n) with (dsf nxt cur);
    (destruct (Nat.leb_spec n (dsf nxt cur)); [reflexivity|lia]).
Qed.

Variable sq : list nat.
Hypothesis Ht : topo nxt sq.

(* explicit iteration bound: some k < n is already enough fuel *)
Theorem seg_exit cur : In cur sq ->
  exists k, k < n /\ length (seg n cur) <= k /\ forall fuel, k <= fuel -> seg fuel cur = seg k cur.
Proof.
  intros Hc. destruct (path_bound nxt sq Ht cur Hc) as [k [Hk [[_ Hp] _]]].
  exists k. split; [exact Hk|]. split; [apply seg_length_gen; exact Hp|].
  intros fuel Hf. replace fuel with (k + (fuel - k)) by lia. apply (seg_fuel_gen k cur k); auto.
Qed.

(* the fuel n passed by segment_paths is never exhausted: more fuel gives the same segment *)
Theorem seg_fuel cur extra : In cur sq -> seg (n + extra) cur = seg n cur.
Proof.
  intros Hc. destruct (path_bound nxt sq Ht cur Hc) as [k [Hk [[_ Hp] _]]].
  apply (seg_fuel_gen n cur k); [exact Hp|lia].
Qed.

(* with a complete order (loop-free network) this holds from every start pixel whatsoever *)
Hypothesis Hc : complete nxt sq.
Theorem seg_fuel_any cur extra : seg (n + extra) cur = seg n cur.
Proof.
  destruct (validb nxt cur) eqn:E.
  - apply seg_fuel. apply Hc. apply validb_valid. exact E.
  - assert (Hnv : ~ valid nxt cur) by (intros H; apply validb_valid in H; congruence).
    rewrite !seg_invalid; auto.
Qed.

Theorem seg_short cur : length (seg n cur) < n \/ seg n cur = [].
Proof.
  destruct (validb nxt cur) eqn:E.
  - left. destruct (seg_exit cur) as [k [Hk [Hl _]]]; [apply Hc; apply validb_valid; exact E|lia].
  - right. apply seg_invalid. intros H; apply validb_valid in H; congruence.
Qed.
End TermSeg.

(* the public entry: segment_paths computed with ANY larger fuel is the same list of paths *)
Definition segment_paths_fuel (fuel : nat) (nxt : list nat) (outs : list nat) (mask : option (list bool)) (incl : bool) :=
  let n := length nxt in
  map (fun o => if (o <? n)%nat then o :: seg nxt (outflag outs) (mok mask) incl fuel o else []) outs.

Theorem segment_paths_terminates nxt sq : topo nxt sq -> complete nxt sq -> forall outs mask incl extra,
  segment_paths_fuel (length nxt + extra) nxt outs mask incl = segment_paths nxt outs mask incl.
Proof.
  intros Ht Hc outs mask incl extra. unfold segment_paths_fuel, segment_paths. apply map_ext. intros o.
  rewrite (seg_fuel_any nxt (outflag outs) (mok mask) incl sq Ht Hc). reflexivity.
Qed.

(* every path has at most n cells *)
Theorem segment_paths_short nxt sq : topo nxt sq -> complete nxt sq -> forall outs mask incl p,
  In p (segment_paths nxt outs mask incl) -> length p <= length nxt.
Proof.
  intros Ht Hc outs mask incl p Hp. unfold segment_paths in Hp. apply in_map_iff in Hp. destruct Hp as [o [<- _]].
  destruct (Nat.ltb_spec o (length nxt)) as [Ho|Ho]; [|simpl; lia].
  cbn [length]. destruct (seg_short nxt (outflag outs) (mok mask) incl sq Ht Hc o) as [H|H]; [lia|].
  rewrite H. simpl. lia.
Qed.

(* satisfiable: 6 cells, 5 -> 4 -> 3 -> 2 -> 1 -> 0 (pit), outlet pixels 5 and 2 *)
Example seg_example :
  topo [0;0;1;2;3;4] [0;1;2;3;4;5] /\ complete [0;0;1;2;3;4] [0;1;2;3;4;5] /\
  segment_paths [0;0;1;2;3;4] [5;2] None true = [[5;4;3;2]; [2;1;0]] /\
  segment_paths_fuel 100 [0;0;1;2;3;4] [5;2] None true = [[5;4;3;2]; [2;1;0]].
Proof.
  split; [apply check_topo_sound; vm_compute; reflexivity|].
  split; [apply check_complete_sound; vm_compute; reflexivity|]. vm_compute. auto.
Qed.

Print Assumptions seg_exit.
Print Assumptions seg_fuel.
Print Assumptions seg_fuel_any.
Print Assumptions segment_paths_terminates.
Print Assumptions segment_paths_short.
