(* C09 / ihu: THE FUELLED WALKS OF THE ITERATIVE STAGES NEVER RUN OUT OF FUEL on a loop-free closed fine network:
   error flag 1 is never set by upscale_check, new_outlet, ihu_optimize_rivlen, ihu_minimize_error, ihu_relocate_outlets. *)
From Coq Require Import List Arith ZArith Bool Lia.
Import ListNotations.
From PF Require Import Arr Net Elev ElevSpec Upscale UpscaleSpec UpscaleD8 UpscaleNoErr NetBound D8Idx D8IdxSpec Ihu IhuD8 IhuValid.

(* ================= A. the walks ================= *)
Section Walks.
Variables sds sq : list nat.
Hypothesis Ht : topo sds sq.
Notation nsub := (length sds).
Notation sd := (Upscale.sd sds).

(* induction principle: a property of (fuel, start pixel) that holds at pits and is inherited from the downstream pixel *)
Lemma fuel_ind (P : nat -> nat -> Prop) :
  (forall f s, In s sq -> sd s = s -> P (S f) s) ->
  (forall f s, In s sq -> sd s <> s -> P f (sd s) -> P (S f) s) ->
  forall s, In s sq -> P (S nsub) s.
Proof.
  intros Hpit Hstep s Hs. destruct (path_bound sds sq Ht s Hs) as [k [Hk [Hp _]]].
  assert (G : forall fuel s k, In s sq -> k < fuel -> pit sds (iter sds k s) -> P fuel s).
  { induction fuel as [|f IH]; intros s0 k0 Hs0 Hk0 Hp0; [lia|].
    destruct (Nat.eq_dec (sd s0) s0) as [E|E]; [apply Hpit; assumption|].
    apply Hstep; [exact Hs0|exact E|].
    destruct k0 as [|k0]; [destruct Hp0 as [_ Hp0]; cbn [iter] in Hp0; contradiction|].
    apply (IH (sd s0) k0); [apply (topo_closed sds sq _ Ht Hs0)|lia|exact Hp0]. }
  apply (G (S nsub) s k Hs); [lia|exact Hp].
Qed.

Theorem chk_walk_fuel s : In s sq -> forall st d, snd (chk_walk sds (S nsub) st s d) = true.
Proof.
  intros Hs. apply (fuel_ind (fun f s => forall st d, snd (chk_walk sds f st s d) = true)); [| |exact Hs].
  - intros f s0 _ Hp st d. cbn [chk_walk]. cbv zeta. rewrite Hp, Nat.eqb_refl, orb_true_r. reflexivity.
  - intros f s0 _ _ IH st d. cbn [chk_walk]. cbv zeta.
    match goal with |- context [if ?c then _ else _] => destruct c end; [reflexivity|apply IH].
Qed.

Theorem no_walk_fuel s : In s sq -> forall st rp, no_walk sds (S nsub) st s rp <> None.
Proof.
  intros Hs. apply (fuel_ind (fun f s => forall st rp, no_walk sds f st s rp <> None)); [| |exact Hs].
  - intros f s0 _ Hp st rp. cbn [no_walk]. cbv zeta. rewrite Hp, Nat.eqb_refl, orb_true_r. discriminate.
  - intros f s0 _ _ IH st rp. cbn [no_walk]. cbv zeta.
    match goal with |- context [if ?c then _ else _] => destruct c end; [discriminate|apply IH].
Qed.

Theorem next_outlet_fuel subncol cs ncol s : In s sq -> forall out, next_outlet sds subncol cs ncol (S nsub) out s <> None.
Proof.
  intros Hs. apply (fuel_ind (fun f s => forall out, next_outlet sds subncol cs ncol f out s <> None)); [| |exact Hs].
  - intros f s0 _ Hp out. cbn [next_outlet]. cbv zeta. rewrite Hp, Nat.eqb_refl, orb_true_r. discriminate.
  - intros f s0 _ _ IH out. cbn [next_outlet]. cbv zeta.
    match goal with |- context [if ?c then _ else _] => destruct c end; [discriminate|apply IH].
Qed.

Theorem me_path_fuel ncol s : In s sq -> forall st idx0 idxs, me_path sds ncol (S nsub) st idx0 s idxs <> None.
Proof.
  intros Hs. apply (fuel_ind (fun f s => forall st idx0 idxs, me_path sds ncol f st idx0 s idxs <> None)); [| |exact Hs].
  - intros f s0 _ Hp st idx0 idxs. cbn [me_path]. cbv zeta. rewrite Hp, Nat.eqb_refl. discriminate.
  - intros f s0 _ _ IH st idx0 idxs. cbn [me_path]. cbv zeta.
    destruct (sd s0 =? s0); [discriminate|].
    destruct (0 <=? nth (sd s0) st (-9))%Z; [|apply IH].
    match goal with |- context [if ?c then _ else _] => destruct c end; [discriminate|apply IH].
Qed.

Theorem rl_trace_fuel subncol cs nrow ncol s : In s sq -> forall cds out idx0 idx_ds0 il sl,
  rl_trace sds subncol cs nrow ncol (S nsub) cds out s idx0 idx_ds0 il sl <> None.
Proof.
  intros Hs.
  apply (fuel_ind (fun f s => forall cds out idx0 idx_ds0 il sl,
                     rl_trace sds subncol cs nrow ncol f cds out s idx0 idx_ds0 il sl <> None)); [| |exact Hs].
  - intros f s0 _ Hp cds out idx0 idx_ds0 il sl. cbn [rl_trace]. cbv zeta. rewrite Hp, Nat.eqb_refl. cbn [orb]. discriminate.
  - intros f s0 _ _ IH cds out idx0 idx_ds0 il sl. cbn [rl_trace]. cbv zeta.
    match goal with |- context [if ?c then _ else _] => destruct c end; [|apply IH].
    match goal with |- context [if ?c then Some _ else _] => destruct c end; [discriminate|apply IH].
Qed.

Theorem rl_conn_fuel subncol cs ncol s : In s sq -> forall sl idx0 idx ii j0 j1 c,
  rl_conn sds subncol cs ncol (S nsub) sl idx0 s idx ii j0 j1 c <> None.
Proof.
  intros Hs.
  apply (fuel_ind (fun f s => forall sl idx0 idx ii j0 j1 c,
                     rl_conn sds subncol cs ncol f sl idx0 s idx ii j0 j1 c <> None)); [| |exact Hs].
  - intros f s0 _ Hp sl idx0 idx ii j0 j1 c. cbn [rl_conn]. cbv zeta.
    destruct (10 <? ii); [discriminate|]. rewrite Hp, Nat.eqb_refl. cbn [orb].
    destruct (find_from j0 sl s0) as [j|]; [destruct (negb c); [|destruct (in_d8 idx0 idx ncol)]|]; rewrite orb_true_r; discriminate.
  - intros f s0 _ _ IH sl idx0 idx ii j0 j1 c. cbn [rl_conn]. cbv zeta.
    destruct (10 <? ii); [discriminate|].
    match goal with |- context [if ?c then _ else _] => destruct c end; [|apply IH].
    destruct (find_from j0 sl s0) as [j|]; [destruct (negb c); [|destruct (in_d8 idx0 idx ncol)]|];
      (match goal with |- context [if ?c then Some _ else _] => destruct c end; [discriminate|apply IH]).
Qed.
End Walks.

(* ================= B. the stages ================= *)
Section Stages.
Variable sds : list nat.
Variable upa : list Z.
Variables subnrow subncol cs : nat.
Notation nsub := (length sds).
Notation nrow := (cdiv subnrow cs).
Notation ncol := (cdiv subncol cs).
Notation nc := (nrow * ncol).
Notation sd := (Upscale.sd sds).
Notation cell s := (sub2idx s subncol cs ncol).
Notation VPix := (VPix sds).
Notation Val := (Val subnrow subncol cs).
Notation G0 := (G0 sds subnrow subncol cs).
Notation G1 := (G1 sds subnrow subncol cs).
Notation Step := (Step sds subnrow subncol cs).
Notation mono := (mono subnrow subncol cs).

Hypothesis Hcs : 0 < cs.
Hypothesis HW : 0 < subncol.
Hypothesis Hlen : nsub = subnrow * subncol.
Variable sq : list nat.
Hypothesis Ht : topo sds sq.
Hypothesis Hc : complete sds sq.

Let Hwf : forall t, t < nsub -> sd t < nsub -> sd (sd t) < nsub := topo_complete_closed sds sq Ht Hc.

Lemma vpix_sq s : VPix s -> In s sq.
Proof. intros [H1 H2]. apply Hc. split; [exact H1|exact H2]. Qed.

(* ---------- upscale_check: c_ok ---------- *)
Theorem upscale_check_fuel cds out : G0 cds out -> c_ok (upscale_check sds cs nrow ncol out cds) = true.
Proof.
  intros G. unfold upscale_check. apply (fold_left_inv (fun c => c_ok c = true)); [reflexivity|].
  intros c idx0 _ Hok. cbv zeta.
  destruct (Nat.leb_spec nc (nth idx0 cds nc)) as [Hge|Hlt]; [exact Hok|].
  pose proof (chk_walk_fuel sds sq Ht _ (vpix_sq _ (G0_vpix sds subnrow subncol cs Hcs HW Hlen _ _ _ G Hlt)) (c_st c) 0) as Hw.
  destruct (chk_walk sds (S nsub) (c_st c) (nth idx0 out nsub) 0) as [[[st s1] d] ok]. cbn [snd] in Hw. subst ok.
  rewrite Hok.
  match goal with |- context [if ?c then _ else _] => destruct c end; [reflexivity|].
  match goal with |- context [if ?c then _ else _] => destruct c end; reflexivity.
Qed.

(* ---------- new_outlet never changes the flag ---------- *)
Theorem new_outlet_err a idx0 subidx0 tgt : a_err (fst (new_outlet sds upa subncol cs ncol a idx0 subidx0 tgt)) = a_err a.
Proof.
  unfold new_outlet. cbv zeta.
  match goal with |- context [fold_left ?f ?l ?i] => set (F := f); set (R := fold_left F l i) end.
  assert (HQ : snd R = true).
  { apply fold_left_inv; [reflexivity|]. intros [[u b] ok] s _ Hb. unfold F. cbv beta iota. cbn [snd] in Hb.
    match goal with |- context [if ?c then _ else _] => destruct c eqn:Ec end; [exact Hb|].
    apply orb_false_iff in Ec. destruct Ec as [_ Ec]. apply Nat.leb_gt in Ec.
    pose proof (no_walk_fuel sds sq Ht s (vpix_sq _ (VPix_of_sd sds subnrow subncol cs Hcs HW Hlen _ Ec)) (upd (a_st a) subidx0 (-1)%Z) []) as Hn.
    destruct (no_walk sds (S nsub) (upd (a_st a) subidx0 (-1)%Z) s []) as [[[slast s1] rpath]|]; [|contradiction].
    match goal with |- context [if ?c then _ else _] => destruct c end; exact Hb. }
  destruct R as [[u b] ok]. cbn [snd] in HQ. subst ok. destruct b as [[[so idx_ds] p]|]; reflexivity.
Qed.

(* ---------- ihu_optimize_rivlen: the flag is unchanged or becomes 2 (the modelled assert) ---------- *)
Definition E2 (a a' : A) : Prop := a_err a' = a_err a \/ a_err a' = 2.
Lemma E2_refl a : E2 a a.
Proof. left; reflexivity. Qed.
Lemma E2_trans a b c : E2 a b -> E2 b c -> E2 a c.
Proof. unfold E2. intros [H1|H1] [H2|H2]; try (right; congruence); left; congruence. Qed.

Lemma opt_one_err valid a idx0 : E2 a (fst (opt_one sds upa subncol cs nrow ncol valid a idx0)).
Proof.
  unfold opt_one. cbv zeta.
  match goal with |- context [if ?c then _ else _] => destruct c end; [apply E2_refl|].
  match goal with |- context [if ?c then _ else _] => destruct c end; [|apply E2_refl].
  pose proof (new_outlet_err a idx0 (nth idx0 (a_out a) nsub) None) as H1.
  destruct (new_outlet sds upa subncol cs ncol a idx0 (nth idx0 (a_out a) nsub) None) as [a1 success].
  cbn [fst] in H1. destruct success; cbn [fst]; [|left; exact H1].
  apply (fold_left_inv (E2 a)); [left; exact H1|]. intros a' idx _ H'.
  apply (E2_trans _ _ _ H').
  destruct (nth idx valid true).
  - destruct (idx =? nth idx0 (a_cds a) nc); [|left; reflexivity]. unfold E2, set_err. cbn [a_err].
    destruct (a_err a' =? 0); [right|left]; reflexivity.
  - destruct (nth idx0 (a_cds a') nc =? idx); left; reflexivity.
Qed.

Theorem optimize_rivlen_err valid short a : E2 a (optimize_rivlen sds upa subncol cs nrow ncol valid short a).
Proof.
  unfold optimize_rivlen. apply (fold_left_inv (E2 a)); [apply E2_refl|]. intros a' i _ H'. cbv zeta.
  apply (E2_trans _ _ _ H').
  pose proof (opt_one_err valid a' i) as H1.
  destruct (opt_one sds upa subncol cs nrow ncol valid a' i) as [a1 brk]. cbn [fst] in H1.
  destruct brk; [exact H1|]. apply (E2_trans _ _ _ H1). apply opt_one_err.
Qed.

(* ---------- ihu_minimize_error never changes the flag ---------- *)
Lemma me_hw_err idxs hw : forall a, a_err (me_hw sds upa subncol cs nrow ncol a idxs hw) = a_err a.
Proof.
  induction hw as [|idx t IH]; intros a; cbn [me_hw]; [reflexivity|].
  pose proof (new_outlet_err a idx (nth idx (a_out a) nsub) (Some (nth (nth 0 idxs nc) (a_out a) nsub))) as H1.
  destruct (new_outlet sds upa subncol cs ncol a idx (nth idx (a_out a) nsub) (Some (nth (nth 0 idxs nc) (a_out a) nsub)))
    as [a1 fixed1].
  cbn [fst] in H1. destruct fixed1; [exact H1|]. rewrite IH. exact H1.
Qed.

Lemma me_rounds_err idxs idx0 nb n : forall a, a_err (me_rounds sds upa subncol cs nrow ncol n a idxs idx0 nb) = a_err a.
Proof.
  induction n as [|n IH]; intros a; cbn [me_rounds]; [reflexivity|]. cbv zeta.
  match goal with |- context [if ?c then _ else _] => destruct c end; [|reflexivity].
  rewrite IH, me_hw_err. reflexivity.
Qed.

Lemma me_one_err poc a idx0 : VPix (nth idx0 (a_out a) nsub) ->
  a_err (me_one sds upa subncol cs nrow ncol poc a idx0) = a_err a.
Proof.
  intros Hp. unfold me_one. cbv zeta.
  pose proof (me_path_fuel sds sq Ht ncol _ (vpix_sq _ Hp) (a_st a) idx0 []) as Hn.
  destruct (me_path sds ncol (S nsub) (a_st a) idx0 (nth idx0 (a_out a) nsub) []) as [[[idxs subidx] subidx_ds]|];
    [|contradiction].
  match goal with |- context [if ?c then _ else _] => destruct c end; [reflexivity|].
  match goal with |- context [if ?c then new_outlet _ _ _ _ _ _ _ _ _ else _] => destruct c end.
  - pose proof (new_outlet_err a idx0 (nth idx0 (a_out a) nsub) None) as H1.
    destruct (new_outlet sds upa subncol cs ncol a idx0 (nth idx0 (a_out a) nsub) None) as [a1 fixed].
    cbn [fst] in H1. destruct fixed; [exact H1|]. rewrite me_rounds_err. exact H1.
  - apply me_rounds_err.
Qed.

Theorem minimize_error_err fixl poc a : G1 a -> (forall x, In x fixl -> Val (a_cds a) x) ->
  a_err (minimize_error sds upa subncol cs nrow ncol fixl poc a) = a_err a.
Proof.
  intros H Hf. unfold minimize_error. cbv zeta.
  apply (fold_left_inv (fun a' => Step a a' /\ a_err a' = a_err a)); [split; [apply Step_refl; exact H|reflexivity]|].
  intros a' i0 Hi0 [[H' M'] E']. apply in_rev in Hi0. apply argsort_lt in Hi0. rewrite map_length in Hi0.
  assert (V : Val (a_cds a') (nth i0 fixl nc)) by (apply M', Hf, nth_In, Hi0).
  split.
  - apply (Step_trans _ _ _ _ _ _ _ (conj H' M')). apply (me_one_ok sds upa subnrow subncol cs Hcs HW Hlen Hwf); [exact H'|exact V].
  - rewrite me_one_err; [exact E'|]. destruct H' as [G' _]. apply (G0_vpix sds subnrow subncol cs Hcs HW Hlen _ _ _ G' V).
Qed.

(* ---------- ihu_relocate_outlets never changes the flag ---------- *)
Notation SI := (SI sds subnrow subncol cs).
Notation SJ := (SJ sds subnrow subncol cs).

(* the bottleneck list: distinct entries, each a cell index or the missing value *)
Definition BottOK (l : list nat) : Prop := NoDup l /\ forall b, In b l -> b <= nc.
Definition OKB (s : S4) : Prop := s_ok s = true /\ BottOK (s_bott s).

Lemma BottOK_len l : BottOK l -> length l <= S nc.
Proof. intros [H1 H2]. apply NoDup_bound; [exact H1|]. intros x Hx. specialize (H2 x Hx). lia. Qed.

Lemma G0_cds_le cds out i : G0 cds out -> nth i cds nc <= nc.
Proof.
  intros G. destruct (Nat.lt_ge_cases i nc) as [Hi|Hi].
  - destruct (g_pi _ _ _ _ _ _ G i Hi) as [[E _]|[E _]]; lia.
  - rewrite nth_overflow; [lia|]. rewrite (g_lc _ _ _ _ _ _ G). exact Hi.
Qed.

Lemma OKB_set_ds s i v : OKB s -> OKB (s4_set_ds nrow ncol s i v).
Proof. unfold OKB, s4_set_ds. intros H. destruct (nth i (s_cds s) nc =? v); exact H. Qed.
Lemma OKB_set_out s i v : OKB s -> OKB (s4_set_out sds s i v).
Proof. unfold OKB, s4_set_out. intros H. destruct (v =? nth i (s_out s) nsub); exact H. Qed.
Lemma OKB_unroll s : OKB s -> OKB (s4_unroll s).
Proof. intros H. exact H. Qed.
Lemma OKB_bottleneck s b : OKB s -> b <= nc -> OKB (s4_bottleneck s b).
Proof.
  unfold OKB, s4_bottleneck. cbn [s_ok s_bott]. intros [H1 [H2 H3]] Hb. split; [exact H1|].
  destruct (memb b (s_bott s)) eqn:Em; [split; assumption|]. apply memb_false in Em. split.
  - apply NoDup_snoc; assumption.
  - intros x Hx. apply in_app_or in Hx. destruct Hx as [Hx|[<-|[]]]; [apply H3; exact Hx|exact Hb].
Qed.

Lemma rl_trib_OKB s idx0 subidx_ds0 : G0 (s_cds s) (s_out s) -> OKB s -> forall subidx, In subidx sq ->
  forall idx_ds0 path, OKB (rl_trib sds subncol cs nrow ncol (S nsub) s idx0 subidx_ds0 subidx idx_ds0 path).
Proof.
  intros G H subidx Hs.
  assert (Hexit : forall s1 (c1 c2 : bool),
            OKB (if c1 then s4_bottleneck s (nth idx0 (s_cds s) nc)
                 else if c2 then s4_set_ds nrow ncol s idx0 (cell s1) else s)).
  { intros s1 c1 c2. destruct c1; [apply OKB_bottleneck; [exact H|apply (G0_cds_le _ _ _ G)]|].
    destruct c2; [apply OKB_set_ds; exact H|exact H]. }
  apply (fuel_ind sds sq Ht (fun f subidx => forall idx_ds0 path,
            OKB (rl_trib sds subncol cs nrow ncol f s idx0 subidx_ds0 subidx idx_ds0 path))); [| |exact Hs].
  - intros f s0 _ Hp idx_ds0 path. cbn [rl_trib]. cbv zeta. rewrite Hp, Nat.eqb_refl, orb_true_r. apply Hexit.
  - intros f s0 Hs0 _ IH idx_ds0 path. cbn [rl_trib]. cbv zeta.
    match goal with |- context [if ?c then _ else match _ with Some _ => _ | None => _ end] => destruct c end; [apply Hexit|].
    match goal with |- context [match ?m with Some s' => s' | None => _ end] => destruct m as [s'|] eqn:Em end; [|apply IH].
    match type of Em with (if ?c then _ else _) = _ => destruct c end; [|discriminate].
    pose proof (next_outlet_fuel sds sq Ht subncol cs ncol s0 Hs0 (s_out s)) as Hn.
    destruct (next_outlet sds subncol cs ncol (S nsub) (s_out s) s0) as [[[x idx_ds00] outlet0]|]; [|contradiction].
    match type of Em with (if ?c then _ else _) = _ => destruct c end; [|discriminate].
    inversion Em. apply OKB_set_out. apply OKB_set_ds. apply OKB_set_ds. exact H.
Qed.

Section PassF.
Variables cA c0 o0 : list nat.
Hypothesis GA0 : mono cA c0.
Hypothesis G00 : G0 c0 o0.

Lemma rl_main_tribs_OKB us0 sds0 s ks : SI c0 o0 s -> OKB s -> (forall k, In k ks -> Val cA (nth k us0 nc)) ->
  SI c0 o0 (rl_main_tribs sds subncol cs nrow ncol us0 sds0 s ks) /\
  OKB (rl_main_tribs sds subncol cs nrow ncol us0 sds0 s ks).
Proof.
  intros H HB Hks. unfold rl_main_tribs.
  apply (fold_left_inv (fun s' => SI c0 o0 s' /\ OKB s')); [split; assumption|]. intros s' k Hk [Hs' HB']. cbv zeta.
  destruct (in_out s' (nth k us0 nc)); [split; assumption|].
  assert (Hv0 : Val c0 (nth k us0 nc)) by (apply GA0, Hks, Hk).
  assert (Hp : VPix (nth (nth k us0 nc) (s_out s') nsub)).
  { destruct Hs' as (G & M & _). apply (G0_vpix sds subnrow subncol cs Hcs HW Hlen _ _ _ G). apply M. exact Hv0. }
  split.
  - apply (rl_trib_SI sds subnrow subncol cs Hcs HW Hlen Hwf); [exact Hs'|exact Hv0|exact Hp|right; reflexivity].
  - apply rl_trib_OKB; [destruct Hs' as (G & _); exact G|exact HB'|apply vpix_sq; exact Hp].
Qed.

Section Step4f.
Variables il sl us0 sds0 conn conn1 : list nat.
Hypothesis Htr : forall j, j < length sl ->
  Val cA (nth j il nc) /\ VPix (nth j sl nsub) /\ cell (nth j sl nsub) = nth j il nc.
Hypothesis Hus : forall k, k < length conn -> Val cA (nth k us0 nc).

Lemma rl_step_OKB s j : j < length sl -> SJ cA c0 o0 s -> OKB s ->
  OKB (rl_step sds subncol cs nrow ncol il sl us0 sds0 conn conn1 s j).
Proof.
  intros Hj [H Hi] HB. unfold rl_step. destruct (s_next s); [exact HB|]. cbv zeta.
  destruct (Htr j Hj) as (T1 & T2 & T3).
  match goal with |- context [if ?c then s4_unroll _ else _] => destruct c end; [exact HB|].
  match goal with |- context [if ?c then _ else _] => destruct c end; [exact HB|].
  match goal with |- context [if ?c then _ else _] => destruct c eqn:E end.
  - unfold in_out in E. cbn [s_chg_out s_bott s_idx0] in E.
    destruct (memb (nth j il nc) (map fst (s_chg_out s))) eqn:Hio.
    { exfalso. cbn [orb andb] in E. discriminate. }
    assert (V0 : Val (s_cds s) (s_idx0 s)) by (destruct H as (_ & M & _); apply M, GA0, Hi).
    assert (V1 : Val (s_cds s) (nth j il nc)) by (destruct H as (_ & M & _); apply M, GA0, T1).
    match goal with |- context [s4_set_ds _ _ ?X (s_idx0 s) (nth j il nc)] =>
      assert (H1 : SI c0 o0 (s4_set_ds nrow ncol X (s_idx0 s) (nth j il nc)))
        by (apply (SI_set_ds sds subnrow subncol cs Hcs HW Hlen); [exact H|exact V0|exact V1]);
      assert (B1 : OKB (s4_set_ds nrow ncol X (s_idx0 s) (nth j il nc))) by (apply OKB_set_ds; exact HB);
      set (S1 := s4_set_ds nrow ncol X (s_idx0 s) (nth j il nc)) in *;
      assert (Hio1 : in_out S1 (nth j il nc) = false) by (unfold S1; rewrite in_out_set_ds; exact Hio)
    end.
    assert (H2 : SI c0 o0 (s4_set_out sds S1 (nth j il nc) (nth j sl nsub))).
    { apply (SI_set_out sds subnrow subncol cs Hcs HW Hlen); [exact H1|exact Hio1| |exact T2|left; exact T3].
      destruct H1 as (_ & M1 & _). apply M1, GA0, T1. }
    assert (B2 : OKB (s4_set_out sds S1 (nth j il nc) (nth j sl nsub))) by (apply OKB_set_out; exact B1).
    match goal with |- context [rl_main_tribs _ _ _ _ _ _ _ ?s0 ?ks] =>
      assert (Hm : OKB (rl_main_tribs sds subncol cs nrow ncol us0 sds0 s0 ks)) end.
    { apply rl_main_tribs_OKB; [exact H2|exact B2|]. intros k Hk. apply filter_In in Hk. destruct Hk as [Hk _].
      apply in_seq in Hk. apply Hus. lia. }
    match goal with |- context [if ?c then s4_unroll _ else _] => destruct c end; exact Hm.
  - match goal with |- context [if ?c then _ else _] => destruct c end; exact HB.
Qed.
End Step4f.
End PassF.

Lemma rl_passes_OKB cA il sl us0 sds0 conn conn1 :
  (forall j, j < length sl -> Val cA (nth j il nc) /\ VPix (nth j sl nsub) /\ cell (nth j sl nsub) = nth j il nc) ->
  (forall k, k < length conn -> Val cA (nth k us0 nc)) ->
  forall fuel cds out bott idx00 idx1, G0 cds out -> mono cA cds -> Val cA idx00 -> BottOK bott ->
  nc + 3 <= fuel + length bott ->
  s_ok (rl_passes sds subncol cs nrow ncol il sl us0 sds0 conn conn1 fuel cds out bott idx00 idx1 true) = true.
Proof.
  intros Htr Hus.
  assert (Hfold : forall cds out bott idx00 idx1, G0 cds out -> mono cA cds -> Val cA idx00 -> BottOK bott ->
    let s := fold_left (rl_step sds subncol cs nrow ncol il sl us0 sds0 conn conn1) (seq 0 (length sl))
            (mkS4 cds out bott false [] [] idx00 0 0 idx1 true) in
    SJ cA cds out s /\ OKB s).
  { intros cds out bott idx00 idx1 G M V HB. cbv zeta. apply (fold_left_inv (fun s => SJ cA cds out s /\ OKB s)).
    - split; [|split; [reflexivity|exact HB]]. split; [|exact V]. split; [exact G|]. split; [intros i Hi; exact Hi|]. split; reflexivity.
    - intros s j Hj [Hs HBs]. apply in_seq in Hj. split.
      + apply (rl_step_SJ sds subnrow subncol cs Hcs HW Hlen Hwf cA cds out M G il sl us0 sds0 conn conn1 Htr Hus); [lia|exact Hs].
      + apply (rl_step_OKB cA cds out M il sl us0 sds0 conn conn1 Htr Hus); [lia|exact Hs|exact HBs]. }
  induction fuel as [|f IH]; intros cds out bott idx00 idx1 G M V HB Hf; cbn [rl_passes].
  - pose proof (BottOK_len _ HB). lia.
  - cbv zeta. destruct (Hfold cds out bott idx00 idx1 G M V HB) as [[Hs _] [Hok HB']]. cbv zeta in Hs, Hok, HB'.
    match goal with |- context [if ?c then _ else _] => destruct c eqn:El end; [|exact Hok].
    apply Nat.ltb_lt in El. rewrite Hok. destruct Hs as (G' & M' & _).
    apply IH; [exact G'|intros i Hi; apply M', M, Hi|exact V|exact HB'|lia].
Qed.

Lemma rl_conn_of_fuel out sl idx0 : VPix (nth idx0 out nsub) -> snd (rl_conn_of sds subncol cs ncol out sl idx0) = true.
Proof.
  intros Hp. unfold rl_conn_of.
  pose proof (rl_conn_fuel sds sq Ht subncol cs ncol _ (vpix_sq _ (VPix_sd sds Hwf _ Hp)) sl idx0 idx0 0 0 0 false) as Hn.
  destruct (rl_conn sds subncol cs ncol (S nsub) sl idx0 (sd (nth idx0 out nsub)) idx0 0 0 0 false) as [[[j0 j1] c]|];
    [|contradiction].
  destruct c; reflexivity.
Qed.

Theorem rl_one_err a idx00 : G0 (a_cds a) (a_out a) -> Val (a_cds a) idx00 ->
  a_err (rl_one sds subncol cs nrow ncol a idx00) = a_err a.
Proof.
  intros G V. unfold rl_one. cbv zeta.
  assert (Hp0 : VPix (sd (nth idx00 (a_out a) nsub)))
    by (apply (VPix_sd sds Hwf); apply (G0_vpix sds subnrow subncol cs Hcs HW Hlen _ _ _ G V)).
  pose proof (rl_trace_fuel sds sq Ht subncol cs nrow ncol _ (vpix_sq _ Hp0) (a_cds a) (a_out a)
                (cell (sd (nth idx00 (a_out a) nsub))) (nth idx00 (a_cds a) nc) [] []) as Hn.
  match goal with |- context [match ?m with Some _ => _ | None => _ end] => destruct m as [[[il sl] sub_end]|] eqn:Et end;
    [|contradiction].
  match goal with |- context [if ?c then a else _] => destruct c end; [reflexivity|].
  cbn [a_err].
  assert (Htk : TrOK sds subnrow subncol cs (a_cds a) il sl).
  { refine (rl_trace_ok sds subnrow subncol cs Hwf _ _ _ _ _ _ _ _ _ Hp0 eq_refl (Forall2_nil _) Et). }
  cbn [fst snd] in Htk.
  assert (Htr : forall j, j < length sl ->
            Val (a_cds a) (nth j il nc) /\ VPix (nth j sl nsub) /\ cell (nth j sl nsub) = nth j il nc).
  { intros j Hj. apply (Forall2_nth _ il sl nc nsub Htk j Hj). }
  assert (Hil : forall i, In i il -> i < nc).
  { intros i Hi. destruct (Forall2_In_l _ _ _ _ Htk Hi) as [y [Hy _]].
    apply (Val_lt sds subnrow subncol cs Hcs HW Hlen _ _ (g_lc _ _ _ _ _ _ G) Hy). }
  set (tribs := rl_tribs sds nrow ncol (a_cds a) (a_out a) idx00 il sl).
  set (conns := map (rl_conn_of sds subncol cs ncol (a_out a) sl) tribs).
  set (seq1 := argsort (map Z.of_nat (map (fun c => fst (fst c)) conns))).
  assert (Htv : forall x, In x tribs -> Val (a_cds a) x).
  { intros x Hx. apply (rl_tribs_val sds subnrow subncol cs Hcs HW Hlen (a_cds a) (a_out a) idx00 il sl _ (g_lc _ _ _ _ _ _ G) Hil Hx). }
  assert (Hus : forall k, k < length (map (fun i => nth i (map (fun c => fst (fst c)) conns) 0) seq1) ->
                Val (a_cds a) (nth k (map (fun i => nth i tribs nc) seq1) nc)).
  { intros k Hk. rewrite map_length in Hk.
    rewrite (nth_indep _ nc ((fun i => nth i tribs nc) 0)) by (rewrite map_length; exact Hk).
    rewrite (map_nth (fun i => nth i tribs nc)). apply Htv. apply nth_In.
    pose proof (argsort_lt _ _ (nth_In seq1 0 Hk)) as Hlt. unfold conns in Hlt. rewrite !map_length in Hlt. exact Hlt. }
  assert (Hokc : forallb (fun c : nat * nat * bool => snd c) conns = true).
  { apply forallb_forall. intros c Hin. unfold conns in Hin. apply in_map_iff in Hin. destruct Hin as [x [<- Hx]].
    apply rl_conn_of_fuel. apply (G0_vpix sds subnrow subncol cs Hcs HW Hlen _ _ _ G). apply Htv. exact Hx. }
  rewrite Hokc.
  match goal with |- context [rl_passes _ _ _ _ _ ?a1 ?a2 ?a3 ?a4 ?a5 ?a6 ?a7 ?a8 ?a9 ?a10 ?a11 ?a12 true] =>
    pose proof (rl_passes_OKB (a_cds a) a1 a2 a3 a4 a5 a6 Htr Hus a7 a8 a9 a10 a11 a12 G (fun i Hi => Hi) V
                  (conj (NoDup_nil nat) (fun b (Hb : In b []) => match Hb with end)) ltac:(cbn [length]; lia)) as Hok;
    set (S0 := rl_passes sds subncol cs nrow ncol a1 a2 a3 a4 a5 a6 a7 a8 a9 a10 a11 a12 true) in * end.
  destruct (in_out S0 (nth (s_idx1 S0) (s_cds S0) nc)).
  - change (s_ok (s4_unroll S0)) with (s_ok S0). rewrite Hok. reflexivity.
  - rewrite Hok. reflexivity.
Qed.

Theorem relocate_err fixl a : G0 (a_cds a) (a_out a) -> (forall x, In x fixl -> Val (a_cds a) x) ->
  a_err (relocate sds upa subncol cs nrow ncol fixl a) = a_err a.
Proof.
  intros G Hf. unfold relocate. cbv zeta.
  apply (fold_left_inv (fun a' => (G0 (a_cds a') (a_out a') /\ mono (a_cds a) (a_cds a')) /\ a_err a' = a_err a));
    [split; [split; [exact G|intros i Hi; exact Hi]|reflexivity]|].
  intros a' i0 Hi0 [[G' M'] E']. apply argsort_lt in Hi0. rewrite map_length in Hi0.
  assert (V : Val (a_cds a') (nth i0 fixl nc)) by (apply M', Hf, nth_In, Hi0).
  destruct (rl_one_ok sds subnrow subncol cs Hcs HW Hlen Hwf a' (nth i0 fixl nc) G' V) as [G'' M''].
  split; [split; [exact G''|intros i Hi; apply M'', M', Hi]|].
  rewrite rl_one_err; [exact E'|exact G'|exact V].
Qed.

(* ---------- one iteration and all of them: the flag is never set to 1 ---------- *)
Theorem ihu_iter_err n : forall j a fixl, G0 (a_cds a) (a_out a) -> (forall x, In x fixl -> Val (a_cds a) x) ->
  E2 a (ihu_iter sds upa subncol cs nrow ncol n j a fixl).
Proof.
  induction n as [|n IH]; intros j a fixl G Hf; cbn [ihu_iter]; [apply E2_refl|]. cbv zeta.
  destruct (relocate_ok sds upa subnrow subncol cs Hcs HW Hlen Hwf fixl a G Hf) as [G1' M1].
  pose proof (relocate_err fixl a G Hf) as E1.
  set (a1 := relocate sds upa subncol cs nrow ncol fixl a) in *.
  destruct (upscale_check_ok sds subnrow subncol cs Hcs HW Hlen (a_cds a1) (a_out a1) G1') as (Cs & Cf & Csh).
  rewrite (upscale_check_fuel _ _ G1').
  set (c := upscale_check sds cs nrow ncol (a_out a1) (a_cds a1)) in *.
  match goal with |- context [optimize_rivlen _ _ _ _ _ _ _ _ ?a2] => set (A2 := a2) end.
  assert (H2 : G1 A2) by (split; cbn [A2 a_cds a_out a_st]; assumption).
  assert (E2a : E2 a A2) by (left; exact E1).
  pose proof (optimize_rivlen_ok sds upa subnrow subncol cs Hcs HW Hlen Hwf (c_valid c) (c_short c) A2 H2 Csh) as H3.
  pose proof (optimize_rivlen_err (c_valid c) (c_short c) A2) as E3.
  set (A3 := optimize_rivlen sds upa subncol cs nrow ncol (c_valid c) (c_short c) A2) in *.
  assert (Hf3 : forall x, In x (c_fix c) -> Val (a_cds A3) x).
  { intros x Hx. destruct H3 as [_ M3]. apply M3. apply Cf. exact Hx. }
  assert (H4 : forall p, Step A3 (minimize_error sds upa subncol cs nrow ncol (c_fix c) p A3)).
  { intros p. apply (minimize_error_ok sds upa subnrow subncol cs Hcs HW Hlen Hwf); [destruct H3 as [H3 _]; exact H3|exact Hf3]. }
  assert (E4 : forall p, E2 a (minimize_error sds upa subncol cs nrow ncol (c_fix c) p A3)).
  { intros p. apply (E2_trans _ _ _ E2a). apply (E2_trans _ _ _ E3). left.
    apply minimize_error_err; [destruct H3 as [H3 _]; exact H3|exact Hf3]. }
  match goal with |- context [if ?c then _ else ihu_iter _ _ _ _ _ _ _ _ _ _] => destruct c end.
  - apply E4.
  - apply (E2_trans _ _ _ (E4 0)). destruct (H4 0) as [[G4 _] M4]. apply IH; [exact G4|].
    intros x Hx. apply M4. apply Hf3. exact Hx.
Qed.
End Stages.

(* ---------- examples ---------- *)
(* one row of three pixels 0 -> 1 -> 2 (pit): the check walk from pixel 0 ends with fuel left, whatever `streams` is *)
Example ex_chk_walk_fuel st : snd (chk_walk [1;2;2] 4 st 0 0) = true.
Proof.
  apply (chk_walk_fuel [1;2;2] [2;1;0]); [apply check_topo_sound; vm_compute; reflexivity|cbn [In]; auto].
Qed.

(* case 1437 of the regression corpus (IhuD8.v): on the state that the first stage hands to the iterations, relocate
   leaves the flag alone and upscale_check reports no exhausted walk *)
Example ex_stage_fuel :
  let out := ihu_outlets ex_sds 7 3 1 3 (repcell ex_sds ex_upa 7 3 1 3 (eaf ex_ea)) in
  let cds := ihu_nextidx ex_sds 7 3 1 3 ex_ea out in
  c_ok (upscale_check ex_sds 3 1 3 out cds) = true /\
  a_err (relocate ex_sds ex_upa 7 3 1 3 (ihu_fix ex_sds 7 3 1 3 out) (mkA cds out [] 0)) = 0.
Proof.
  cbv zeta.
  assert (Ht : topo ex_sds ex_sq) by (apply check_topo_sound; vm_compute; reflexivity).
  assert (Hc : complete ex_sds ex_sq) by (apply check_complete_sound; vm_compute; reflexivity).
  assert (Hd8 := check_d8_sound ex_sds 7 ltac:(vm_compute; reflexivity)).
  assert (Hck : check_cross ex_sds ex_ea 7 3 = true) by (vm_compute; reflexivity).
  assert (Hupa := check_upa_sound ex_sds ex_upa ltac:(vm_compute; reflexivity)).
  assert (Hcs : 0 < 3) by lia. assert (HW : 0 < 7) by lia. assert (Hlen : length ex_sds = 2 * 7) by reflexivity.
  pose proof (G0_init ex_sds ex_upa 2 7 3 Hcs HW Hlen (topo_complete_closed _ _ Ht Hc) ex_sq ex_ea Ht Hc Hd8 Hck Hupa) as G.
  split.
  - apply (upscale_check_fuel ex_sds 2 7 3 Hcs HW Hlen ex_sq Ht Hc _ _ G).
  - apply (relocate_err ex_sds ex_upa 2 7 3 Hcs HW Hlen ex_sq Ht Hc _ (mkA _ _ [] 0) G).
    apply (fix_init ex_sds ex_upa 2 7 3 Hcs HW Hlen ex_sq ex_ea Ht Hc Hd8 Hck).
Qed.

Print Assumptions chk_walk_fuel.
Print Assumptions no_walk_fuel.
Print Assumptions next_outlet_fuel.
Print Assumptions me_path_fuel.
Print Assumptions rl_trace_fuel.
Print Assumptions rl_conn_fuel.
Print Assumptions upscale_check_fuel.
Print Assumptions new_outlet_err.
Print Assumptions optimize_rivlen_err.
Print Assumptions minimize_error_err.
Print Assumptions rl_trib_OKB.
Print Assumptions rl_passes_OKB.
Print Assumptions rl_one_err.
Print Assumptions relocate_err.
Print Assumptions ihu_iter_err.
Print Assumptions ex_chk_walk_fuel.
Print Assumptions ex_stage_fuel.
