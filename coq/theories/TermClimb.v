(* C13 / termination, target 4: the upstream `while True` climb along the main-upstream array in
   basins.subbasins_pfafstetter, `climb` (Subbas.v), always called with fuel n = length ds.
   On a loop-free network with a well-formed `main` (main[x] = u < n only if u flows into x and u <> x) the climb stops by
   its own exit test (main[idx] missing / stop(idx)) before the fuel is used up: more fuel gives the same labelling. *)
From Coq Require Import List Arith ZArith Bool Lia.
Import ListNotations.
From PF Require Import Arr Net Subbas NetBound.

Section TermClimb.
Variable ds : list nat.
Variable sq : list nat.
Hypothesis Ht : topo ds sq.
Hypothesis Hc : complete ds sq.
Variable main : list nat.
Notation n := (length ds).
Hypothesis Hmain : forall x, nth x main n < n -> dsf ds (nth x main n) = x /\ nth x main n <> x.
Variable stop : list Z -> nat -> bool.
Variable lab : Z.

(* cur lies d non-pit steps above something; every step of the climb makes d larger, and d < n on a loop-free network *)
Lemma climb_fuel_gen : forall fuel d cur branch extra, cur < n ->
  (forall j, j < d -> dsf ds (iter ds j cur) <> iter ds j cur) -> n <= d + fuel ->
  climb (fuel + extra) n main stop lab branch cur = climb fuel n main stop lab branch cur.
Proof.
  assert (Hup : forall d cur, cur < n -> (forall j, j < d -> dsf ds (iter ds j cur) <> iter ds j cur) ->
                nth cur main n < n -> S d < n /\
                forall j, j < S d -> dsf ds (iter ds j (nth cur main n)) <> iter ds j (nth cur main n)).
  { intros d cur Hcur Hd Hu. destruct (Hmain cur Hu) as [H1 H2].
    assert (Hnp : forall j, j < S d -> dsf ds (iter ds j (nth cur main n)) <> iter ds j (nth cur main n)).
    { intros [|j] Hj; cbn [iter]; [rewrite H1; auto|]. rewrite H1. apply Hd. lia. }
    split; [|exact Hnp].
    assert (Hv : valid ds (nth cur main n)) by (split; [exact Hu|rewrite H1; exact Hcur]).
    destruct (path_bound ds sq Ht _ (Hc _ Hv)) as [k [Hk [[_ Hp] _]]].
    destruct (Nat.lt_ge_cases k (S d)) as [Hlt|Hge]; [exfalso; apply (Hnp k Hlt); exact Hp|lia]. }
  induction fuel as [|f IH]; intros d cur branch extra Hcur Hd Hn.
  - cbn [Nat.add]. destruct extra as [|e]; [reflexivity|]. cbn [climb].
    destruct (Nat.leb_spec n (nth cur main n)) as [Hu|Hu]; [reflexivity|]. cbn [orb].
    destruct (Hup d cur Hcur Hd Hu) as [Hlt _]. lia.
  - cbn [Nat.add climb].
    destruct (Nat.leb_spec n (nth cur main n)) as [Hu|Hu]; [reflexivity|]. cbn [orb].
    destruct (stop branch (nth cur main n)); [reflexivity|].
    destruct (Hup d cur Hcur Hd Hu) as [_ Hnp].
    apply (IH (S d)); [exact Hu|exact Hnp|lia].
Qed.

(* a start index that is not a cell: after at most one step the climb is over *)
Lemma climb_dead : forall fuel u branch, u < n -> n <= dsf ds u -> climb fuel n main stop lab branch u = branch.
Proof.
  intros fuel u branch Hu Hd. destruct fuel as [|f]; [reflexivity|]. cbn [climb].
  destruct (Nat.leb_spec n (nth u main n)) as [Hu'|Hu']; [reflexivity|]. exfalso.
  destruct (Hmain u Hu') as [H1 _].
  assert (Hv : valid ds (nth u main n)) by (split; [exact Hu'|rewrite H1; exact Hu]).
  pose proof (topo_closed ds sq _ Ht (Hc _ Hv)) as Hin. rewrite H1 in Hin.
  destruct (topo_valid ds sq u Ht Hin) as [_ Hlt]. unfold size in Hlt. lia.
Qed.

(* the fuel n is never exhausted, from any start index and any label array *)
Theorem climb_fuel branch cur extra :
  climb (n + extra) n main stop lab branch cur = climb n n main stop lab branch cur.
Proof.
  destruct (Nat.lt_ge_cases cur n) as [Hcur|Hcur].
  - apply (climb_fuel_gen n 0 cur branch extra Hcur); [intros j Hj; lia|lia].
  - destruct n as [|m] eqn:En.
    + cbn [Nat.add]. destruct extra as [|e]; [reflexivity|]. cbn [climb]. reflexivity.
    + cbn [Nat.add climb]. rewrite <- En in *.
      destruct (Nat.leb_spec n (nth cur main n)) as [Hu|Hu]; [reflexivity|]. cbn [orb].
      destruct (stop branch (nth cur main n)); [reflexivity|].
      destruct (Hmain cur Hu) as [H1 _].
      rewrite !climb_dead; auto; rewrite H1; exact Hcur.
Qed.
End TermClimb.

(* satisfiable: 0 pit; 1 -> 0; 2 -> 1; 3 -> 1; 4 -> 3; main upstream 0 <- 1 <- 3 <- 4 (5 = missing) *)
Example climb_example :
  topo [0;0;1;1;3] [0;1;2;3;4] /\ complete [0;0;1;1;3] [0;1;2;3;4] /\
  (forall x, nth x [1;3;5;4;5] 5 < 5 -> dsf [0;0;1;1;3] (nth x [1;3;5;4;5] 5) = x /\ nth x [1;3;5;4;5] 5 <> x) /\
  climb 5 5 [1;3;5;4;5] (fun _ _ => false) 7%Z [0;0;0;0;0]%Z 0 = [0;7;0;7;7]%Z /\
  climb 50 5 [1;3;5;4;5] (fun _ _ => false) 7%Z [0;0;0;0;0]%Z 0 = [0;7;0;7;7]%Z.
Proof.
  split; [apply check_topo_sound; vm_compute; reflexivity|].
  split; [apply check_complete_sound; vm_compute; reflexivity|].
  split; [|vm_compute; auto].
  intros x. do 5 (destruct x as [|x]; [cbn [nth]; intros H; first [lia | split; [vm_compute; reflexivity|discriminate]]|]).
  cbn [nth]. destruct x; lia.
Qed.

Print Assumptions climb_fuel.
