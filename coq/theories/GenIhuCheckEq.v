(* upscale.upscale_check, REGENERATED from the Python source (generated/GenIhu.v: gen_ihu_upscale_check), equals the hand
   model Ihu.upscale_check.  The generated function has no result (None) when a `while True` walk runs out of fuel; the model
   sets its flag c_ok to false and goes on: the two agree on the four results whenever the flag is true, and the generated
   function is None exactly when the flag is false.  Hypotheses: the two coarse arrays have nrow * ncol elements, at most 2^31
   (the size assert of the source).  Any fine network (loops included), any cell size.  No axioms. *)
From Coq Require Import List Arith ZArith Bool Lia.
Import ListNotations.
From PF Require Import Arr Net Elev Upscale D8Idx Ihu GenCodecBaseEq GenUpscaleBaseEq.
From PFG Require Import GenUpscale GenIhu.

Section ChkEq.
Variable sds : list nat.
Variables cs nrow ncol : nat.
Notation nsub := (length sds).
Notation nc := (nrow * ncol)%nat.

(* Ihu.chk_walk without the local abbreviations of its section *)
Fixpoint cw (fuel : nat) (st : list Z) (subidx d : nat) : list Z * nat * nat * bool :=
  match fuel with
  | O => (st, subidx, d, false)
  | S f =>
    let s1 := nth subidx sds nsub in
    if (0 <=? nth s1 st (-9)%Z)%Z || (s1 =? subidx)%nat then (st, s1, d, true)
    else cw f (upd st subidx (Z.max (nth subidx st (-9)%Z) (-1))) s1 (S d)
  end.

Lemma chk_walk_cw : chk_walk sds = cw.
Proof. reflexivity. Qed.

(* the step of the model's pass *)
Definition mstep (out cds : list nat) (c : Chk) (idx0 : nat) : Chk :=
  let idx_ds := nth idx0 cds nc in
  if (nc <=? idx_ds)%nat then c else
  let '(st, s1, d, ok) := cw (S nsub) (c_st c) (nth idx0 out nsub) 0 in
  if negb (s1 =? nth idx_ds out nsub)%nat then
    mkChk (upd (c_valid c) idx0 false) st (c_fix c ++ [idx0]) (c_short c) (c_ok c && ok)
  else if (4 * (d + 1) <=? cs)%nat then
    mkChk (c_valid c) st (c_fix c) (c_short c ++ [idx0]) (c_ok c && ok)
  else mkChk (c_valid c) st (c_fix c) (c_short c) (c_ok c && ok).

Lemma upscale_check_ms out cds :
  upscale_check sds cs nrow ncol out cds
  = fold_left (mstep out cds) (seq 0 nc) (mkChk (repeat true nc) (streams0 sds nrow ncol out) [] [] true).
Proof. reflexivity. Qed.

(* the first four results of the generated walk *)
Definition p4 (x : list Z * list bool * list nat * list nat * nat * Z) : list Z * list bool * list nat * list nat :=
  match x with (a, b, c, e, _, _) => (a, b, c, e) end.

Lemma short_cond d : ((Z.of_nat cs >? 4 * 0)%Z && (4 * (Z.of_nat d + 1) <=? Z.of_nat cs)%Z) = (4 * (d + 1) <=? cs)%nat.
Proof.
  rewrite Z.gtb_ltb.
  destruct (Nat.leb_spec (4 * (d + 1)) cs) as [H|H].
  - apply andb_true_iff. split; [apply Z.ltb_lt|apply Z.leb_le]; lia.
  - apply andb_false_iff. right. apply Z.leb_gt. lia.
Qed.

Lemma walk_eq out idx0 idx_ds : forall fuel st valid short fixl subidx d,
  option_map p4 (gen_ihu_upscale_check_walk3 out sds (Z.of_nat cs) nsub idx0 idx_ds fuel st valid short fixl subidx (Z.of_nat d))
  = match cw fuel st subidx d with
    | (st', s1, d', ok) =>
      if ok then
        Some (if negb (s1 =? nth idx_ds out nsub)%nat then (st', upd valid idx0 false, short, fixl ++ [idx0])
              else if (4 * (d' + 1) <=? cs)%nat then (st', valid, short ++ [idx0], fixl)
              else (st', valid, short, fixl))
      else None
    end.
Proof.
  induction fuel as [|f IH]; intros st valid short fixl subidx d; cbn [gen_ihu_upscale_check_walk3 cw]; cbv zeta;
    [reflexivity|].
  rewrite Z.geb_leb.
  destruct ((0 <=? nth (nth subidx sds nsub) st (-9)%Z)%Z || (nth subidx sds nsub =? subidx)%nat) eqn:E.
  - destruct (nth subidx sds nsub =? nth idx_ds out nsub)%nat eqn:E2; cbn [negb andb].
    + rewrite short_cond. destruct (4 * (d + 1) <=? cs)%nat; reflexivity.
    + reflexivity.
  - replace (Z.of_nat d + 1)%Z with (Z.of_nat (S d)) by lia. apply IH.
Qed.

(* the state of the generated pass that corresponds to a state of the model *)
Definition enc (c : Chk) : option (list Z * list bool * list nat * list nat) :=
  if c_ok c then Some (c_st c, c_valid c, c_short c, c_fix c) else None.

Lemma mstep_ok_false out cds c idx0 : c_ok c = false -> c_ok (mstep out cds c idx0) = false.
Proof.
  intros H. unfold mstep. cbv zeta. destruct (_ <=? _)%nat; [exact H|].
  destruct (cw _ _ _ _) as [[[st s1] d] ok].
  destruct (negb _); [|destruct (_ <=? _)%nat]; cbn [c_ok]; rewrite H; reflexivity.
Qed.

Lemma step2_eq out cds c idx0 : c_ok c = true ->
  gen_ihu_upscale_check_step2 (S nsub) out cds sds (Z.of_nat cs) nsub nc (c_st c, c_valid c, c_short c, c_fix c) idx0
  = enc (mstep out cds c idx0).
Proof.
  intros H. unfold gen_ihu_upscale_check_step2, mstep. cbv zeta.
  destruct (nc <=? nth idx0 cds nc)%nat; [unfold enc; rewrite H; reflexivity|].
  pose proof (walk_eq out idx0 (nth idx0 cds nc) (S nsub) (c_st c) (c_valid c) (c_short c) (c_fix c)
                (nth idx0 out nsub) 0%nat) as W.
  change (Z.of_nat 0) with 0%Z in W.
  destruct (gen_ihu_upscale_check_walk3 _ _ _ _ _ _ _ _ _ _ _ _ _) as [[[[[[a b] c0] e] g] h]|];
    destruct (cw _ _ _ _) as [[[st' s1] d'] ok]; cbn [option_map p4] in W; destruct ok; try discriminate W.
  - injection W as W.
    destruct (negb _); [|destruct (_ <=? _)%nat]; injection W as -> -> -> ->; unfold enc; cbn [c_ok c_st c_valid c_short c_fix];
      rewrite H; reflexivity.
  - destruct (negb _); [|destruct (_ <=? _)%nat]; unfold enc; cbn [c_ok]; rewrite H; reflexivity.
Qed.

Lemma pass_eq out cds : forall l c,
  fold_left (fun st_ x_ => match st_ with
                           | None => None
                           | Some s_ => gen_ihu_upscale_check_step2 (S nsub) out cds sds (Z.of_nat cs) nsub nc s_ x_
                           end) l (enc c)
  = enc (fold_left (mstep out cds) l c).
Proof.
  induction l as [|x l IH]; intros c; cbn [fold_left]; [reflexivity|].
  rewrite <- IH. f_equal.
  destruct (c_ok c) eqn:H.
  - unfold enc at 1. rewrite H. apply step2_eq. exact H.
  - unfold enc. rewrite H, (mstep_ok_false out cds c x H). reflexivity.
Qed.

Lemma streams_eq out :
  fold_left (gen_ihu_upscale_check_step1 out nsub) (seq 0 nc) (repeat (-9)%Z nsub) = streams0 sds nrow ncol out.
Proof. reflexivity. Qed.
End ChkEq.

Theorem gen_ihu_upscale_check_eq : forall (sds : list nat) (cs nrow ncol : nat) (out cds : list nat),
  length out = (nrow * ncol)%nat -> length cds = (nrow * ncol)%nat -> (Z.of_nat (nrow * ncol) <= 2147483648)%Z ->
  gen_ihu_upscale_check (S (length sds)) out cds sds (Z.of_nat cs)
  = (let c := upscale_check sds cs nrow ncol out cds in
     if c_ok c then Some (c_valid c, c_st c, c_fix c, c_short c) else None).
Proof.
  intros sds cs nrow ncol out cds Hout Hcds Hsz. cbv zeta.
  unfold gen_ihu_upscale_check. cbv zeta. rewrite Hout, Hcds.
  destruct (Z.leb_spec (Z.of_nat (nrow * ncol)) 2147483648); [|lia].
  rewrite streams_eq. unfold ofold.
  change (Some (streams0 sds nrow ncol out, repeat true (nrow * ncol)%nat, @nil nat, @nil nat))
    with (enc (mkChk (repeat true (nrow * ncol)%nat) (streams0 sds nrow ncol out) [] [] true)).
  rewrite pass_eq, <- upscale_check_ms.
  unfold enc. destruct (c_ok _); reflexivity.
Qed.

Print Assumptions gen_ihu_upscale_check_eq.
