From Coq Require Import List Arith ZArith Bool.
Import ListNotations.
From PF Require Import Arr Net Rank Accu Stream Trace Glue RunC03 RunC14.
Local Open Scope Z_scope.

Definition trace_out (r : option (list nat * Z)) : list (list Z) :=
  match r with None => [[2]] | Some (p, d) => [[0]; zs p; [d]] end.

Definition len_of (mode : Z) (unit : Z) (g : list Z) : nat -> nat -> Z :=
  if mode =? 0 then (fun _ _ => unit)
  else grid_len (Z.to_nat (nth 0 g 1)) (nth 1 g 1) (nth 2 g 1) (nth 3 g 1).

Definition run_c11 (k : Z) (args : list (list Z)) : list (list Z) :=
  let nxt0 := net_in (arg 0 args) in
  let mask := mask_opt (argz 1 args) (arg 2 args) in
  let maxlen := if argz 3 args =? 0 then None else Some (argz 4 args) in
  let len := len_of (argz 6 args) (argz 7 args) (arg 8 args) in
  if k =? 1100 then [[0]]    (* geographic (float) path lengths: decided on the implementation side *)
  else if k =? 1101 then trace_out (trace nxt0 mask maxlen len (S (length nxt0)) (argn 5 args) 0)
  else if k =? 1102 then
    (* direction 'up' through the object: next = main upstream cell for the default upstream area *)
    let sq := ns (arg 9 args) in
    let upa := flwdir_upstream_area nxt0 sq (repeat 1 (length nxt0)) in
    let main := main_upstream nxt0 upa 0 in
    trace_out (trace main mask maxlen len (S (length nxt0)) (argn 5 args) 0)
  else [[-999]].
