(* Pfafstetter refinement, part C: one pop of the work loop keeps the loop invariant LINV of the closure proof
   together with any extra invariant E that every tributary step keeps (generic version of fold_trib_inv / pfaf_loop_inv),
   and the detailed effect of a tributary step on the labels. *)
From Coq Require Import List Arith ZArith Bool Lia.
Import ListNotations.
From PF Require Import Arr Net SweepDown Fill FillSpec Rank Stream Subbas PfafDigits.
From PF Require Import PfafClosureA PfafClosureB PfafClosureC PfafClosureD PfafClosureE PfafClosureF PfafRefineA PfafRefineB.
Local Open Scope Z_scope.

Section Detail.
Variable ds : list nat.
Variable main : list nat.
Variable strord : list Z.
Let n := length ds.
Variable rk : nat -> nat.
Notation mn x := (nth x main n).
Notation dsf := (dsf ds).
Hypothesis Hrk : forall c, (c < n)%nat -> (dsf c < n)%nat -> dsf c <> c -> (rk (dsf c) < rk c)%nat.
Hypothesis Hrkn : forall c, (c < n)%nat -> (dsf c < n)%nat -> (rk c < n)%nat.
Hypothesis HM : forall x, (mn x < n)%nat -> dsf (mn x) = x /\ mn x <> x.
Variable uparea : list Z.
Notation ua c := (nth c uparea 0).
Hypothesis Hua : forall c, (c < n)%nat -> (dsf c < n)%nat -> dsf c <> c -> ua c < ua (dsf c).
Variable trib : list nat.
Hypothesis HT : forall t, In t trib ->
  (t < n)%nat /\ (dsf t < n)%nat /\ dsf t <> t /\ mn (dsf t) <> t /\ (mn (dsf t) < n)%nat.
Variables (b0 : list Z) (idxs0 : list nat) (pfaf0 : Z).
Hypothesis HI0 : INV ds main b0 idxs0.
Hypothesis Hp0 : pfaf0 <> 0.
Notation SINV' := (SINV ds main uparea trib b0 idxs0 pfaf0).

(* what the two climbs of a tributary step do, cell by cell *)
Lemma trib_core_detail psub pint t0 rest b idxs X :
  SINV' (t0 :: rest) b idxs X -> psub <> 0 -> pint <> 0 -> X <> pint -> psub <> pint ->
  (forall c, lab b c <> psub) -> (forall c, lab b c <> pint) ->
  let w0 := dsf t0 in let c1 := mn w0 in
  let b1 := climb n n main (stop_so strord) psub (upd b t0 psub) t0 in
  let idxs1 := idxs ++ [t0] in
  INV ds main b1 idxs1 /\ (forall c, lab b1 c = lab b c \/ (lab b c = 0 /\ lab b1 c = psub)) /\
  ((t0 < n)%nat /\ (w0 < n)%nat /\ dsf t0 <> t0 /\ (c1 < n)%nat /\ dsf c1 = w0 /\ c1 <> w0 /\
   lab b t0 = 0 /\ lab b0 w0 = pfaf0 /\ lab b w0 <> 0) /\
  (~ In c1 idxs1 ->
     let b2 := climb n n main (stopX X) pint (upd b1 c1 pint) c1 in
     INV ds main b2 (idxs1 ++ [c1]) /\
     (forall c, lab b2 c = lab b1 c \/ ((lab b1 c = X \/ c = c1) /\ lab b2 c = pint)) /\
     lab b2 c1 = pint /\ (lab b1 c1 <> 0 -> lab b1 c1 = X)).
Proof.
  intros HS Hps Hpi HXp Hpp Hf1 Hf2.
  pose proof (s_inv _ _ _ _ _ _ _ _ _ _ _ HS) as HI.
  pose proof (s_x _ _ _ _ _ _ _ _ _ _ _ HS) as HX.
  destruct (s_rem _ _ _ _ _ _ _ _ _ _ _ HS t0 (or_introl eq_refl)) as (Ht0 & Hl0 & Hw0).
  destruct (HT t0 Ht0) as (T1 & T2 & T3 & T4 & T5).
  cbv zeta.
  set (w0 := dsf t0) in *.
  assert (Hlw : lab b w0 <> 0) by (apply (s_f0 _ _ _ _ _ _ _ _ _ _ _ HS); rewrite Hw0; exact Hp0).
  destruct (outlet_sub ds main HM (stop_so strord) psub idxs b t0 n HI Hps T1 Hl0 (or_intror Hlw) Hf1) as [HI1 V1].
  fold n in HI1, V1.
  set (b1 := climb n n main (stop_so strord) psub (upd b t0 psub) t0) in *.
  set (idxs1 := idxs ++ [t0]) in *.
  set (c1 := mn w0) in *.
  destruct (HM w0 T5) as [Hd1 Hne1]. fold c1 in Hd1, Hne1.
  assert (K1 : forall c, lab b c <> 0 -> lab b1 c = lab b c).
  { intros c Hc. destruct (V1 c) as [E|[E _]]; [exact E|contradiction]. }
  assert (A_f0 : forall c, lab b0 c <> 0 -> lab b1 c <> 0).
  { intros c Hc. pose proof (s_f0 _ _ _ _ _ _ _ _ _ _ _ HS c Hc) as H. rewrite (K1 c H). exact H. }
  assert (A_sub : forall o, In o idxs0 -> In o idxs1).
  { intros o Ho. unfold idxs1. apply in_or_app. left. apply (s_sub _ _ _ _ _ _ _ _ _ _ _ HS). exact Ho. }
  assert (A_f2 : forall c, (c < n)%nat -> lab b1 c <> 0 -> ~ In c idxs1 -> lab b0 c = 0 -> lab b0 (dsf c) = 0).
  { intros c Hc Hl Hn Hz.
    assert (Hci : ~ In c idxs) by (intros H; apply Hn; unfold idxs1; apply in_or_app; left; exact H).
    destruct (V1 c) as [E|[E1 E2]].
    - apply (s_f2 _ _ _ _ _ _ _ _ _ _ _ HS c Hc); [rewrite <- E; exact Hl|exact Hci|exact Hz].
    - destruct (inv1 _ _ _ _ HI1 c Hc Hl Hn) as (_ & _ & A3). rewrite E2 in A3.
      destruct (Z.eq_dec (lab b0 (dsf c)) 0) as [Y|N]; [exact Y|exfalso].
      pose proof (s_f0 _ _ _ _ _ _ _ _ _ _ _ HS _ N) as H. apply (Hf1 (dsf c)). rewrite <- (K1 _ H). exact A3. }
  assert (A_h : forall t c, In t (t0 :: rest) -> C0 ds b0 idxs0 pfaf0 c -> ua (dsf c) <= ua (dsf t) -> In c idxs1 \/ lab b1 c = X).
  { intros t c Ht HC Hle. destruct (s_h _ _ _ _ _ _ _ _ _ _ _ HS t c Ht HC Hle) as [H|H].
    - left. unfold idxs1. apply in_or_app. left. exact H.
    - right. rewrite K1; [exact H|]. rewrite H. exact HX. }
  assert (A_N : ~ In c1 idxs1 -> lab b1 c1 <> 0 -> lab b1 c1 = X).
  { intros Hn1 Hl1.
    assert (Hz : lab b0 c1 <> 0).
    { intros Hz. pose proof (A_f2 c1 T5 Hl1 Hn1 Hz) as H. rewrite Hd1, Hw0 in H. contradiction. }
    assert (Hn0 : ~ In c1 idxs0) by (intros H; apply Hn1; apply A_sub; exact H).
    destruct (inv1 _ _ _ _ HI0 c1 T5 Hz Hn0) as (_ & _ & A3). rewrite Hd1, Hw0 in A3.
    assert (HC : C0 ds b0 idxs0 pfaf0 c1) by (split; [exact Hn0|split; [exact T5|symmetry; exact A3]]).
    destruct (A_h t0 c1 (or_introl eq_refl) HC ltac:(rewrite Hd1; fold w0; lia)) as [H|H]; [contradiction|exact H]. }
  split; [exact HI1|]. split; [exact V1|]. split; [repeat split; assumption|].
  intros Em.
  assert (Hf2' : forall c, lab b1 c <> pint).
  { intros c. destruct (V1 c) as [E|[_ E]]; rewrite E; [apply Hf2|exact Hpp]. }
  assert (Hlw1 : lab b1 w0 <> 0) by (rewrite K1; exact Hlw).
  destruct (outlet_inter ds main rk Hrk Hrkn HM X pint idxs1 b1 w0 HI1 HX Hpi HXp T2 T5 Em Hlw1 Hf2' (A_N Em))
    as (HI2 & V2 & Vc1).
  fold n in HI2, V2, Vc1. fold c1 in HI2, V2, Vc1.
  split; [exact HI2|]. split; [exact V2|]. split; [exact Vc1|exact (A_N Em)].
Qed.
End Detail.

Section LoopE.
Variable ds : list nat.
Variable main : list nat.
Variable strord : list Z.
Let n := length ds.
Variable rk : nat -> nat.
Notation mn x := (nth x main n).
Notation dsf := (dsf ds).
Hypothesis Hrk : forall c, (c < n)%nat -> (dsf c < n)%nat -> dsf c <> c -> (rk (dsf c) < rk c)%nat.
Hypothesis Hrkn : forall c, (c < n)%nat -> (dsf c < n)%nat -> (rk c < n)%nat.
Hypothesis HM : forall x, (mn x < n)%nat -> dsf (mn x) = x /\ mn x <> x.
Variable uparea : list Z.
Notation ua c := (nth c uparea 0).
Hypothesis Hua : forall c, (c < n)%nat -> (dsf c < n)%nat -> dsf c <> c -> ua c < ua (dsf c).
Variable trib : list nat.
Hypothesis HT : forall t, In t trib ->
  (t < n)%nat /\ (dsf t < n)%nat /\ dsf t <> t /\ mn (dsf t) <> t /\ (mn (dsf t) < n)%nat.
Hypothesis HTnd : NoDup trib.
Variable depth : Z.
Hypothesis Hdepth : 1 <= depth.
Variable E : list Z -> Prop.

(* E is kept by the tributary steps of the pop of (pfaf0, d0) from the state (b0, idxs0) *)
Definition Estep (b0 : list Z) (idxs0 : list nat) (pfaf0 d0 : Z) : Prop :=
  forall t0 rest b idxs X (i : nat),
  SINV ds main uparea trib b0 idxs0 pfaf0 (t0 :: rest) b idxs X ->
  (i <= 3)%nat ->
  let q := pow10 (depth - d0) in
  let psub := pfaf0 + (Z.of_nat i * 2 + 1) * q in
  let pint := pfaf0 + (Z.of_nat i + 1) * 2 * q in
  pfaf0 <= X <= pfaf0 + 2 * Z.of_nat i * q ->
  (forall c, lab b c <> psub) -> (forall c, lab b c <> pint) ->
  E b -> E (fst (fst (fst (trib_core ds main strord psub pint b idxs X t0)))).

Section FoldE.
Variables (b0 : list Z) (idxs0 : list nat) (pfaf0 d0 : Z).
Hypothesis HI0 : INV ds main b0 idxs0.
Hypothesis Hp0 : 0 < pfaf0.
Hypothesis Hd0 : 1 <= d0 <= depth.
Hypothesis HE : Estep b0 idxs0 pfaf0 d0.
Let q := pow10 (depth - d0).

Lemma q_pos' : 0 < q.
Proof. unfold q, pow10. apply Z.pow_pos_nonneg; lia. Qed.
Lemma W_child' : W depth (d0 + 1) = q.
Proof. unfold W, q, pow10. f_equal. lia. Qed.
Lemma W_parent' : W depth d0 = 10 * q.
Proof. unfold W, q, pow10. replace (depth - d0 + 1) with (Z.succ (depth - d0)) by lia. apply Z.pow_succ_r. lia. Qed.

Notation SINV' := (SINV ds main uparea trib b0 idxs0 pfaf0).
Notation FU' := (FU depth pfaf0 d0 q).

Lemma fold_trib_invE : forall rem (i : nat) b idxs labs X,
  SINV' rem b idxs X -> FU' (2 * Z.of_nat i) (2 * Z.of_nat i) b labs ->
  pfaf0 <= X <= pfaf0 + 2 * Z.of_nat i * q ->
  sortedd (fun t => ua (dsf t)) rem -> NoDup rem -> (i + length rem <= 4)%nat -> E b ->
  let r := fold_left (pfaf_trib ds main strord depth d0 pfaf0) (combine (seq i (length rem)) rem) (b, idxs, labs, X) in
  LINV ds main depth (fst (fst (fst r))) (snd (fst (fst r))) (snd (fst r)) /\ E (fst (fst (fst r))).
Proof.
  pose proof q_pos' as Hq.
  induction rem as [|t0 rest IH]; intros i b idxs labs X HS HF HX Hso Hnd Hlen HEb.
  - cbn [length seq combine fold_left fst snd]. split; [|exact HEb].
    split; [apply (s_inv _ _ _ _ _ _ _ _ _ _ _ HS)|].
    split; [apply (fu_ok _ _ _ _ _ _ _ _ HF)|apply (fu_disj _ _ _ _ _ _ _ _ HF)].
  - cbn [length seq combine fold_left].
    pose proof (pfaf_trib_core ds main strord depth d0 pfaf0 b idxs labs X i t0) as EQ. cbv zeta in EQ. rewrite EQ. clear EQ.
    fold q.
    set (iz := Z.of_nat i) in *.
    assert (Hiz : 0 <= iz <= 3) by (cbn [length] in Hlen; unfold iz; lia).
    set (psub := pfaf0 + (iz * 2 + 1) * q).
    set (pint := pfaf0 + (iz + 1) * 2 * q).
    destruct Hso as [Hso1 Hso2]. inversion Hnd as [|x l Hni Hnd']; subst x l.
    assert (Hf1 : forall c, lab b c <> psub).
    { intros c Ec. destruct (fu4 _ _ _ _ _ _ _ _ HF c ltac:(rewrite Ec; unfold psub; nia)) as (j & J1 & J2).
      rewrite Ec in J2. unfold psub in J2. nia. }
    assert (Hf2 : forall c, lab b c <> pint).
    { intros c Ec. destruct (fu4 _ _ _ _ _ _ _ _ HF c ltac:(rewrite Ec; unfold pint; nia)) as (j & J1 & J2).
      rewrite Ec in J2. unfold pint in J2. nia. }
    pose proof (trib_core_struct ds main strord rk Hrk Hrkn HM uparea Hua trib HT b0 idxs0 pfaf0 HI0 ltac:(lia)
                  psub pint t0 rest b idxs X HS Hso1 Hni ltac:(unfold psub; nia) ltac:(unfold pint; nia)
                  ltac:(unfold pint; nia) ltac:(unfold psub, pint; nia) Hf1 Hf2) as HS'.
    pose proof (trib_core_vals ds main strord psub pint b idxs X t0) as HV.
    pose proof (HE t0 rest b idxs X i HS ltac:(cbn [length] in Hlen; lia) HX Hf1 Hf2 HEb) as HE'.
    fold q in HE'. fold iz in HE'. fold psub in HE'. fold pint in HE'.
    cbv zeta in HS', HV.
    destruct (trib_core ds main strord psub pint b idxs X t0) as [[[b' idxs'] X'] cr]. cbn [fst snd] in HS', HV, HE'.
    destruct HV as (V1 & V2 & V3).
    apply (IH (S i)); [exact HS'| | |exact Hso2|exact Hnd'|cbn [length] in Hlen; lia|exact HE'].
    + replace (2 * Z.of_nat (S i)) with (2 * iz + 2) by (unfold iz; lia).
      assert (HF1 : FU' (2 * iz) (2 * iz + 2) b' labs).
      { apply (fu_vals depth pfaf0 d0 q Hq W_child' (2 * iz) (2 * iz) (2 * iz + 2) b b' labs ltac:(lia) ltac:(lia) HF).
        intros c. destruct (V1 c) as [Ec|[Ec|[_ Ec]]]; [left; exact Ec| |].
        - right. exists (2 * iz + 1). split; [lia|]. split; [lia|]. rewrite Ec. unfold psub. ring.
        - right. exists (2 * iz + 2). split; [lia|]. split; [lia|]. rewrite Ec. unfold pint. ring. }
      destruct (Z.ltb_spec d0 depth) as [Hlt|Hge].
      * assert (HF2 : FU' (2 * iz + 1) (2 * iz + 2) b' (labs ++ [(psub, d0 + 1)])).
        { replace psub with (pfaf0 + (2 * iz + 1) * q) by (unfold psub; ring).
          apply (fu_child depth pfaf0 d0 q Hp0 Hq W_child' (2 * iz) (2 * iz + 2) (2 * iz + 1) b' labs); [lia|lia|lia|exact HF1]. }
        destruct cr.
        -- replace pint with (pfaf0 + (2 * iz + 2) * q) by (unfold pint; ring).
           apply (fu_child depth pfaf0 d0 q Hp0 Hq W_child' (2 * iz + 1) (2 * iz + 2) (2 * iz + 2) b' (labs ++ [(psub, d0 + 1)])); [lia|lia|lia|exact HF2].
        -- apply (fu_weaken depth pfaf0 d0 q (2 * iz + 1) (2 * iz + 2)); [lia|lia|exact HF2].
      * assert (HF3 : FU' (2 * iz + 2) (2 * iz + 2) b' labs)
          by (apply (fu_weaken depth pfaf0 d0 q (2 * iz) (2 * iz + 2)); [lia|lia|exact HF1]).
        destruct cr; exact HF3.
    + replace (Z.of_nat (S i)) with (iz + 1) by (unfold iz; lia).
      destruct cr; [rewrite (V2 eq_refl); unfold pint; nia|rewrite (V3 eq_refl); nia].
Qed.
End FoldE.

Lemma pop_linvE b idxs pfaf0 d0 labs' : LINV ds main depth b idxs ((pfaf0, d0) :: labs') -> E b ->
  Estep b idxs pfaf0 d0 ->
  let r := pfaf_pop ds main uparea strord trib depth b idxs pfaf0 d0 labs' in
  LINV ds main depth (fst (fst r)) (snd (fst r)) (snd r) /\ E (fst (fst r)).
Proof.
  intros (HI & Hok & Hdj) HEb HE. cbv zeta. rewrite (pfaf_pop_eq ds main uparea strord trib depth). cbv zeta.
  destruct (Hok (pfaf0, d0) (or_introl eq_refl)) as (E1 & E2 & E3). cbn [fst snd] in E1, E2, E3.
  destruct Hdj as [Hdj1 Hdj2].
  set (ordered := ordered_of ds uparea trib b pfaf0).
  assert (Hin : forall t, In t ordered -> In t trib /\ lab b t = 0 /\ lab b (dsf t) = pfaf0)
    by (intros t Ht; apply (ordered_in ds uparea trib b pfaf0 t Ht)).
  assert (Hnd : NoDup ordered) by (apply ordered_NoDup; exact HTnd).
  assert (Hso : sortedd (fun i : nat => nth (dsf i) uparea 0) ordered) by apply ordered_sorted.
  assert (Hlen : (0 + length ordered <= 4)%nat) by (pose proof (ordered_len ds uparea trib b pfaf0); unfold ordered; lia).
  assert (HS : SINV ds main uparea trib b idxs pfaf0 ordered b idxs pfaf0).
  { constructor.
    - exact HI.
    - lia.
    - intros c Hc. exact Hc.
    - intros o Ho. exact Ho.
    - intros c _ Hl _ Hz. contradiction.
    - intros t c _ (C1 & C2 & C3) _. right. exact C3.
    - intros o t Ho Hn. contradiction.
    - exact Hin. }
  assert (HF : FU depth pfaf0 d0 (pow10 (depth - d0)) (2 * Z.of_nat 0) (2 * Z.of_nat 0) b labs').
  { constructor.
    - intros e He. apply Hok. right. exact He.
    - exact Hdj2.
    - intros e He. left. destruct (Hdj1 e He) as [H|H]; cbn [fst snd] in H.
      + right. rewrite (W_parent' d0 E2) in H. exact H.
      + left. exact H.
    - intros c Hc. exfalso. apply (E3 c). rewrite (W_parent' d0 E2). exact Hc. }
  pose proof (fold_trib_invE b idxs pfaf0 d0 HI E1 E2 HE ordered 0%nat b idxs labs' pfaf0 HS HF ltac:(cbn; lia) Hso Hnd Hlen HEb) as R.
  cbv zeta in R.
  destruct (fold_left (pfaf_trib ds main strord depth d0 pfaf0) (combine (seq 0 (length ordered)) ordered) (b, idxs, labs', pfaf0))
    as [[[b' ix] lb] pi].
  cbn [fst snd] in R |- *. exact R.
Qed.

End LoopE.
