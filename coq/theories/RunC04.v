From Coq Require Import List Arith ZArith Bool.
Import ListNotations.
From PF Require Import Arr Net Accu Glue.
Open Scope Z_scope.

Definition run_c04 (k : Z) (args : list (list Z)) : list (list Z) :=
  let ds := net_in (arg 0 args) in
  let sq := ns (arg 1 args) in
  if k =? 401 then [accuflux ds sq (arg 2 args) (argz 3 args)]
  else if k =? 402 then [accuflux_ds ds sq (arg 2 args) (argz 3 args)]
  else if k =? 403 then [upstream_area ds sq (arg 2 args) (argz 3 args)]
  else if k =? 404 then [flwdir_upstream_area ds sq (arg 2 args)]
  else [[-999]].
