(* The drainage network: a finite functional graph.
   ds : list nat, n = length ds; ds[i] = i is a pit, ds[i] >= n is nodata
   (the harness decodes the implementation's sentinel mv to n). *)
From Coq Require Import List Arith Lia Bool.
Import ListNotations.
From PF Require Import Arr.

Section Net.
Variable ds : list nat.
Definition size := length ds.
Definition dsf (i : nat) : nat := nth i ds size.

Definition validb (i : nat) : bool := (i <? size) && (dsf i <? size).
Definition valid (i : nat) : Prop := i < size /\ dsf i < size.
Definition pit (i : nat) : Prop := valid i /\ dsf i = i.
Definition pitb (i : nat) : bool := validb i && (dsf i =? i).

Lemma validb_valid i : validb i = true <-> valid i.
Proof. unfold validb, valid. rewrite andb_true_iff, !Nat.ltb_lt. tauto. Qed.

Lemma pitb_pit i : pitb i = true <-> pit i.
Proof. unfold pitb, pit. rewrite andb_true_iff, validb_valid, Nat.eqb_eq. tauto. Qed.

Lemma nodata_oob i : size <= i -> dsf i = size.
Proof. intros H. unfold dsf. apply nth_overflow. exact H. Qed.

(* well-formed (closed): the downstream cell of a valid cell is valid.
   Every from_array decoder guarantees it (theorem in Codec.v). *)
Definition wf : Prop := forall i, valid i -> valid (dsf i).
Definition wfb : bool := forallb (fun i => negb (validb i) || validb (dsf i)) (seq 0 size).

Lemma wfb_wf : wfb = true <-> wf.
Proof.
  unfold wfb, wf. rewrite forallb_forall. split.
  - intros H i Hv. specialize (H i). rewrite in_seq in H.
    assert (Hi : validb i = true) by (apply validb_valid; auto).
    rewrite Hi in H. simpl in H. apply validb_valid. apply H. destruct Hv. lia.
  - intros H i _. destruct (validb i) eqn:E; simpl; auto.
    apply validb_valid. apply H. apply validb_valid. auto.
Qed.

(* k steps downstream *)
Fixpoint iter (k : nat) (i : nat) : nat :=
  match k with 0 => i | S k' => iter k' (dsf i) end.

Lemma iter_S k i : iter (S k) i = dsf (iter k i).
Proof. revert i; induction k as [|k IH]; intros i; simpl; auto. rewrite <- IH. reflexivity. Qed.

Lemma iter_add a b i : iter (a + b) i = iter b (iter a i).
Proof. revert i; induction a as [|a IH]; intros i; simpl; auto. Qed.

Lemma iter_pit k i : dsf i = i -> iter k i = i.
Proof. intros H. induction k as [|k IH]; simpl; auto. rewrite H. auto. Qed.

Lemma iter_valid k i : wf -> valid i -> valid (iter k i).
Proof. intros Hwf. revert i; induction k as [|k IH]; intros i Hv; simpl; auto. Qed.

(* i reaches j walking downstream (0 or more steps) *)
Definition reaches (i j : nat) : Prop := exists k, iter k i = j.

Lemma reaches_refl i : reaches i i.
Proof. exists 0. reflexivity. Qed.

Lemma reaches_step i j : reaches (dsf i) j -> reaches i j.
Proof. intros [k H]. exists (S k). exact H. Qed.

Lemma reaches_inv i j : reaches i j -> i = j \/ reaches (dsf i) j.
Proof. intros [[|k] H]; simpl in H; [left; auto|right; exists k; auto]. Qed.

Lemma reaches_trans i j l : reaches i j -> reaches j l -> reaches i l.
Proof. intros [a Ha] [b Hb]. exists (a + b). rewrite iter_add, Ha. exact Hb. Qed.

Lemma reaches_pit i j : dsf i = i -> reaches i j -> i = j.
Proof. intros Hp [k H]. rewrite iter_pit in H; auto. Qed.

(* a cell drains if its downstream walk meets a pit *)
Definition drains (i : nat) : Prop := exists k, pit (iter k i).
Definition loopfree : Prop := forall i, valid i -> drains i.

Lemma iter_oob k i : size <= i -> size <= iter k i.
Proof. revert i; induction k as [|k IH]; intros i H; simpl; auto. apply IH. rewrite nodata_oob; auto. Qed.

Lemma drains_valid i : drains i -> valid i.
Proof.
  intros [[|k] [Hv Hk]]; simpl in *; auto. destruct Hv as [Hv _].
  assert (Hd : dsf i < size).
  { destruct (Nat.lt_ge_cases (dsf i) size) as [H|H]; auto. apply (iter_oob k) in H. lia. }
  split; auto. destruct (Nat.lt_ge_cases i size) as [H|H]; auto. apply nodata_oob in H. lia.
Qed.

(* ---------- topological orders ---------- *)

(* seq is ordered down- to upstream: every element is valid, occurs once, and is a pit or
   has its downstream cell earlier in the list (snoc form). *)
Inductive topo : list nat -> Prop :=
| topo_nil : topo []
| topo_snoc s i : topo s -> valid i -> ~ In i s -> (dsf i = i \/ In (dsf i) s) -> topo (s ++ [i]).

(* the same read from the other end: P = rev seq is the up- to downstream processing order *)
Inductive utopo : list nat -> Prop :=
| ut_nil : utopo []
| ut_cons i P : utopo P -> valid i -> ~ In i P -> (dsf i = i \/ In (dsf i) P) -> utopo (i :: P).

Lemma topo_utopo s : topo s -> utopo (rev s).
Proof. induction 1 as [|s i Ht IH Hv Hn Hd]; simpl; [constructor|].
  rewrite rev_app_distr. simpl. constructor; auto.
  - rewrite <- in_rev. auto.
  - destruct Hd; auto. right. rewrite <- in_rev. auto. Qed.

Lemma utopo_topo P : utopo P -> topo (rev P).
Proof. induction 1 as [|i P Hu IH Hv Hn Hd]; simpl; [constructor|].
  constructor; auto.
  - rewrite <- in_rev. auto.
  - destruct Hd; auto. right. rewrite <- in_rev. auto. Qed.

Lemma utopo_valid P i : utopo P -> In i P -> valid i.
Proof. induction 1 as [|x P Hu IH Hv Hn Hd]; simpl; [tauto|]. intros [<-|H]; auto. Qed.

Lemma utopo_NoDup P : utopo P -> NoDup P.
Proof. induction 1; constructor; auto. Qed.

(* P is closed under "downstream" *)
Lemma utopo_closed P i : utopo P -> In i P -> In (dsf i) P.
Proof. induction 1 as [|x P Hu IH Hv Hn Hd]; simpl; [tauto|].
  intros [<-|H].
  - destruct Hd as [Hd|Hd]; [left; auto|right; auto].
  - right. auto. Qed.

Lemma utopo_closed_iter P i k : utopo P -> In i P -> In (iter k i) P.
Proof. intros Hu. revert i. induction k as [|k IH]; intros i Hi; simpl; auto.
  apply IH. apply utopo_closed; auto. Qed.

(* nothing later in the processing order flows into the head *)
Lemma utopo_head_nokid i P : utopo (i :: P) -> forall j, In j P -> dsf j <> i.
Proof. intros Hu j Hj Heq. inversion Hu as [|x Q Hu' Hv Hn Hd]; subst.
  apply Hn. apply utopo_closed; auto. Qed.

Lemma utopo_head_unreached i P j : utopo (i :: P) -> In j P -> ~ reaches j i.
Proof. intros Hu Hj [k Hk]. inversion Hu as [|x Q Hu' Hv Hn Hd]; subst.
  apply Hn. apply utopo_closed_iter; auto. Qed.

(* no cycles among the ordered cells *)
Lemma utopo_acyclic P i k : utopo P -> In i P -> iter (S k) i = i -> dsf i = i.
Proof.
  intros Hu; revert i. induction Hu as [|x P Hu IH Hv Hn Hd]; intros i Hi Hk; [destruct Hi|].
  destruct Hi as [<-|Hi]; [|apply IH; auto].
  destruct Hd as [Hd|Hd]; auto.
  exfalso. apply Hn. simpl in Hk. rewrite <- Hk. apply utopo_closed_iter; auto.
Qed.

Lemma topo_acyclic s i k : topo s -> In i s -> iter (S k) i = i -> dsf i = i.
Proof. intros Ht Hi. apply (utopo_acyclic (rev s)); [apply topo_utopo; auto|rewrite <- in_rev; auto]. Qed.

Lemma topo_closed s i : topo s -> In i s -> In (dsf i) s.
Proof. intros Ht Hi. rewrite in_rev. apply utopo_closed; [apply topo_utopo; auto|rewrite <- in_rev; auto]. Qed.

Lemma topo_closed_iter s i k : topo s -> In i s -> In (iter k i) s.
Proof. intros Ht Hi. rewrite in_rev. apply utopo_closed_iter; [apply topo_utopo; auto|rewrite <- in_rev; auto]. Qed.

Lemma topo_valid s i : topo s -> In i s -> valid i.
Proof. intros Ht Hi. apply (utopo_valid (rev s)); [apply topo_utopo; auto|].
  rewrite <- in_rev; auto. Qed.

Lemma topo_NoDup s : topo s -> NoDup s.
Proof. intros Ht. apply topo_utopo, utopo_NoDup in Ht. apply NoDup_rev in Ht.
  rewrite rev_involutive in Ht. auto. Qed.

(* every element of a topological order drains to a pit *)
Lemma utopo_drains P i : utopo P -> In i P -> drains i.
Proof. intros Hu; revert i. induction Hu as [|x P Hu IH Hv Hn Hd]; intros i; simpl; [tauto|].
  intros [<-|H]; auto.
  destruct Hd as [Hd|Hd].
  - exists 0. simpl. split; auto.
  - destruct (IH _ Hd) as [k Hk]. exists (S k). exact Hk. Qed.

Lemma topo_drains s i : topo s -> In i s -> drains i.
Proof. intros Ht Hi. apply (utopo_drains (rev s)); [apply topo_utopo; auto|].
  rewrite <- in_rev; auto. Qed.

(* boolean checker for topo, with soundness: used on the implementation's idxs_seq *)
Fixpoint check_topo_aux (seen : list nat) (s : list nat) : bool :=
  match s with
  | [] => true
  | i :: t => validb i && negb (memb i seen) && ((dsf i =? i) || memb (dsf i) seen)
              && check_topo_aux (i :: seen) t
  end.
Definition check_topo (s : list nat) : bool := check_topo_aux [] s.

Lemma check_topo_aux_sound seen s :
  topo (rev seen) -> check_topo_aux seen s = true -> topo (rev seen ++ s).
Proof.
  revert seen. induction s as [|i t IH]; intros seen Hs H; simpl in *.
  - rewrite app_nil_r. auto.
  - rewrite !andb_true_iff in H. destruct H as [[[Hv Hn] Hd] Hr].
    specialize (IH (i :: seen)). simpl in IH. rewrite <- app_assoc in IH. simpl in IH.
    apply IH; auto. constructor; auto.
    + apply validb_valid; auto.
    + rewrite <- in_rev. apply memb_false. apply negb_true_iff; auto.
    + apply orb_true_iff in Hd. destruct Hd as [Hd|Hd].
      * left. apply Nat.eqb_eq; auto.
      * right. rewrite <- in_rev. apply memb_In; auto.
Qed.

Lemma check_topo_sound s : check_topo s = true -> topo s.
Proof. intros H. apply (check_topo_aux_sound [] s); [constructor|auto]. Qed.

(* complete order: it lists every valid cell (what a loop-free network gives) *)
Definition complete (s : list nat) : Prop := forall i, valid i -> In i s.
Definition check_complete (s : list nat) : bool :=
  forallb (fun i => negb (validb i) || memb i s) (seq 0 size).

Lemma check_complete_sound s : check_complete s = true -> complete s.
Proof. unfold check_complete, complete. rewrite forallb_forall. intros H i Hv.
  specialize (H i). rewrite in_seq in H.
  assert (Hi : validb i = true) by (apply validb_valid; auto). rewrite Hi in H. simpl in H.
  apply memb_In. apply H. destruct Hv. lia. Qed.

Lemma topo_complete_loopfree s : topo s -> complete s -> loopfree.
Proof. intros Ht Hc i Hv. apply (topo_drains s); auto. Qed.

End Net.

Arguments iter ds k i : simpl nomatch.
