(* Model: dem._adjust_elevation (1-D streamline fixer), dem.adjust_elevation (raster/tree level),
   dem._local_d4 and dem.dig_4connectivity.  Elevations are integers (the harness uses integer or
   dyadic values, for which the float code is exact).  No proofs in this file. *)
From Coq Require Import List Arith ZArith Bool.
Import ListNotations.
From PF Require Import Arr Net.
Local Open Scope Z_scope.

(* ---------- the 1-D fixer, statement by statement ---------- *)

Definition zn (e : list Z) (k : nat) : Z := nth k e 0.
Definition rng (a b : nat) : list nat := seq a (b - a).              (* np.arange(a, b) *)

(* a candidate modification: the cells and their new values *)
Definition mods := list (nat * Z).
(* cost = np.sum(np.abs(elevtn[idxs] - zmod)): exact for floats and (away from overflow) signed integers; for an unsigned
   element type of modulus w the difference wraps and np.abs is the identity.  The fixer is parametrised by the cost
   function: the contract is proved for EVERY cost function (the cost only selects among three repairs that are each
   admissible), so it holds for every element type whatever its arithmetic does to the cost. *)
Definition cost_exact (e : list Z) (m : mods) : Z := zsum (map (fun p => Z.abs (zn e (fst p) - snd p)) m).
Definition cost_wrap (w : Z) (e : list Z) (m : mods) : Z := zsum (map (fun p => (zn e (fst p) - snd p) mod w) m).
Definition cost_of (w : Z) : list Z -> mods -> Z := if w =? 0 then cost_exact else cost_wrap w.
Definition apply_mods (e : list Z) (m : mods) : list Z := fold_left (fun a p => upd a (fst p) (snd p)) m e.

(* np.unique(...)[::-1] : sorted descending, no duplicates *)
Fixpoint ins_desc (z : Z) (l : list Z) : list Z :=
  match l with
  | [] => [z]
  | h :: t => if h <? z then z :: l else if h =? z then l else h :: ins_desc z t
  end.
Definition uniq_desc (l : list Z) : list Z := fold_right ins_desc [] l.

(* `for j in range(a, b+1): if e[j] <= z: break` -> the final value of j (range non-empty) *)
Fixpoint first_le (e : list Z) (z : Z) (a : nat) (len : nat) : nat :=
  match len with
  | O => a
  | S l => if zn e a <=? z then a else match l with O => a | _ => first_le e z (S a) l end
  end.

Record fst1 := { fe : list Z; fimax : nat; fimin : option nat; fzmax : Z; fzmin : Z; fz1 : Z; fz2 : Z }.

Section Fix.
Variable cost : list Z -> mods -> Z.

(* option 3: state (i0, i1, best cost, best mods) folded over zs[1:] *)
Definition opt3_step (e : list Z) (im imax i : nat) (st : nat * nat * Z * mods) (z : Z) : nat * nat * Z * mods :=
  let '(i0, i1, c, m) := st in
  let j0 := first_le e z i0 (im + 1 - i0) in
  let j1 := first_le e z i1 (i + 1 - i1) in
  let idxs2 := rng j0 (Nat.max (imax + 1) j1) in
  let m2 := map (fun k => (k, z)) idxs2 in
  let c2 := cost e m2 in
  if c2 <? c then (j0, j1, c2, m2) else (j0, j1, c, m).

Definition fix_pit (e : list Z) (im imax i : nat) (zmin zmax : Z) : list Z :=
  let m1 := map (fun k => (k, Z.min zmin (zn e k))) (rng im i) in
  let c1 := cost e m1 in
  let m2 := map (fun k => (k, Z.max zmax (zn e k))) (rng 0 imax) in
  let c2 := cost e m2 in
  let '(c, m) := if c2 <? c1 then (c2, m2) else (c1, m1) in
  let zs := uniq_desc (map (zn e) (rng (im + 1) i)) in
  let '(_, _, _, mb) := fold_left (opt3_step e im imax i) (tl zs) (0%nat, imax, c, m) in
  apply_mods e mb.

Definition fix_step (n : nat) (s : fst1) (i : nat) : fst1 :=
  let e := fe s in
  let zi := zn e i in
  let '(zmax, imax) := if zi >=? fzmax s then (zi, i) else (fzmax s, fimax s) in
  let pitc := ((zi >? fz1 s) && (fz2 s >=? fz1 s)) || (match fimin s with Some _ => (i + 1 =? n)%nat | None => false end) in
  if pitc then
    let e' := match fimin s with Some im => fix_pit e im imax i (fzmin s) zmax | None => e end in
    {| fe := e'; fimax := i; fimin := Some (i - 1)%nat; fzmax := zn e' i; fzmin := zn e' (i - 1)%nat;
       fz1 := zi; fz2 := fz1 s |}
  else
    {| fe := e; fimax := imax; fimin := fimin s; fzmax := zmax; fzmin := fzmin s; fz1 := zi; fz2 := fz1 s |}.

Definition fix1d (e : list Z) : list Z :=
  match e with
  | [] => []
  | e0 :: _ =>
    let n := length e in
    let last := zn e (n - 1) in
    let e1 := map (Z.max last) e in
    fe (fold_left (fix_step n) (seq 0 n)
         {| fe := e1; fimax := 0; fimin := None; fzmax := e0; fzmin := e0; fz1 := e0; fz2 := e0 |})
  end.

End Fix.

(* ---------- tree level: adjust_elevation with an arbitrary 1-D fixer F ---------- *)

Section Adjust.
Variable F : list Z -> list Z.
Variable ds : list nat.
Let n := length ds.

(* core._trace(idx0, idxs_ds, mask=mask): downstream until a pit or the first masked cell (both included) *)
Fixpoint tracem (fuel : nat) (mask : list bool) (i : nat) : list nat :=
  match fuel with
  | O => [i]
  | S f => if nth i mask false then [i]
           else let j := dsf ds i in
                if (j =? i)%nat || (n <=? j)%nat then [i] else i :: tracem f mask j
  end.

Fixpoint scatter (e : list Z) (p : list nat) (v : list Z) : list Z :=
  match p, v with
  | i :: p', x :: v' => scatter (upd e i x) p' v'
  | _, _ => e
  end.

Definition setmask (mask : list bool) (p : list nat) : list bool := fold_left (fun m i => upd m i true) p mask.

Definition adj_step (st : list Z * list bool) (i0 : nat) : list Z * list bool :=
  let '(e, mask) := st in
  if nth i0 mask false then st
  else let p := tracem n mask i0 in
       (scatter e p (F (map (zn e) p)), setmask mask p).

(* sq is the stored order (downstream first); the loop runs over it reversed *)
Definition adjust (sq : list nat) (elv : list Z) : list Z :=
  fst (fold_left adj_step (rev sq) (elv, repeat false n)).
End Adjust.

(* ---------- dig_4connectivity ---------- *)

(* mode true: integer array with the public dz_min = 1e-3 (assignment truncates towards zero);
   mode false: exact arithmetic with dz_min = 1 unit *)
Definition digv (mode : bool) (e z0 : Z) : Z :=
  if mode then (if z0 <? e then z0 else if 0 <? e then e - 1 else e)
  else Z.min (e - 1) z0.

(* None = idx_ds is not a diagonal neighbour by index arithmetic (list.index raises ValueError) *)
Definition local_d4 (i ids ncol : nat) : option (nat * nat) :=
  if (ids + ncol + 1 =? i)%nat then Some ((i - ncol)%nat, (i - 1)%nat)            (* nw: n, w *)
  else if (ids + 1 =? i + ncol)%nat then Some ((i - 1)%nat, (i + ncol)%nat)       (* sw: w, s *)
  else if (ids =? i + ncol + 1)%nat then Some ((i + ncol)%nat, (i + 1)%nat)       (* se: s, e *)
  else if (ids + ncol =? i + 1)%nat then Some ((i + 1)%nat, (i - ncol)%nat)       (* ne: e, n *)
  else None.

Definition absdiff (a b : nat) : nat := ((a - b) + (b - a))%nat.

Section Dig.
Variable ds : list nat.
Variable nrow ncol : nat.
Variable mask : option (list bool).
Variable nodata : Z.
Variable mode : bool.

Definition considered (i : nat) : bool := match mask with None => true | Some m => nth i m false end.

Definition dig_diag (e : list Z) (i : nat) : option (list Z) :=
  let ids := dsf ds i in
  let dd := absdiff i ids in
  if (1 <? dd)%nat && negb (dd =? ncol)%nat then
    match local_d4 i ids ncol with
    | None => None
    | Some (a, b) =>
      let z0 := zn e i in
      let va := negb (zn e a =? nodata) in
      let vb := negb (zn e b =? nodata) in
      let pick := if va && vb then Some (if zn e b <? zn e a then b else a)
                  else if va then Some a else if vb then Some b else None in
      match pick with
      | None => Some e
      | Some k => Some (upd e k (digv mode (zn e k) z0))
      end
    end
  else Some e.

Definition dig_pit (e : list Z) (i : nat) : list Z :=
  let p := dsf ds i in
  if (dsf ds p =? p)%nat then
    let r := (p / ncol)%nat in
    let c := (p mod ncol)%nat in
    if (r =? 0)%nat || (r =? nrow - 1)%nat || (c =? 0)%nat || (c =? ncol - 1)%nat then e
    else
      let nb := [(p - 1)%nat; (p + ncol)%nat; (p + 1)%nat; (p - ncol)%nat] in
      if existsb (fun k => zn e k =? nodata) nb then e
      else
        let zp := zn e p in
        (* the right-hand side is evaluated before the assignment *)
        let vals := map (fun k => (k, Z.min zp (zn e k))) (filter (fun k => negb (k =? i)%nat) nb) in
        apply_mods e vals
  else e.

Definition dig_step (st : option (list Z)) (i : nat) : option (list Z) :=
  match st with
  | None => None
  | Some e =>
    if considered i then
      match dig_diag e i with
      | None => None
      | Some e1 =>
        (* `continue` when no D4 neighbour is valid skips the pit part too *)
        let ids := dsf ds i in
        let dd := absdiff i ids in
        let skipped := (1 <? dd)%nat && negb (dd =? ncol)%nat &&
                       match local_d4 i ids ncol with
                       | Some (a, b) => (zn e a =? nodata) && (zn e b =? nodata)
                       | None => false end in
        if skipped then Some e1 else Some (dig_pit e1 i)
      end
    else Some e
  end.

Definition dig_d4 (sq : list nat) (elv : list Z) : option (list Z) := fold_left dig_step (rev sq) (Some elv).
End Dig.
