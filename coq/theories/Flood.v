(* Model: dem.fill_depressions for max_depth < 0 (Wang & Liu priority flood).
   Elevations are integers (exact); the queue is a list with extract-minimum on (z, boundary, index). *)
From Coq Require Import List Arith ZArith Bool.
Import ListNotations.
From PF Require Import Arr Codec.
From PFG Require Import GenTables.
Local Open Scope Z_scope.

Definition offs8 : list (Z * Z) := [(-1,-1); (-1,0); (-1,1); (0,-1); (0,0); (0,1); (1,-1); (1,0); (1,1)].
Definition offs4 : list (Z * Z) := [(-1,0); (0,-1); (0,0); (0,1); (1,0)].
Definition offs (conn : Z) : list (Z * Z) := if conn =? 4 then offs4 else offs8.

Section Flood.
Variables nrow ncol : nat.
Variable elv : list Z.
Variable nodata : Z.
Variable conn : Z.
Let sz := (nrow * ncol)%nat.

Definition inb (r c : Z) : bool := (0 <=? r) && (r <? Z.of_nat nrow) && (0 <=? c) && (c <? Z.of_nat ncol).
Definition lin (r c : Z) : nat := Z.to_nat (r * Z.of_nat ncol + c).
Definition row (i : nat) : Z := Z.of_nat (i / ncol).
Definition col (i : nat) : Z := Z.of_nat (i mod ncol).
Definition isnodata (i : nat) : bool := nth i elv nodata =? nodata.

(* gis_utils.get_edge(~done, structure): a valid cell on the raster border, or with a structure
   neighbour that is not valid *)
Definition is_edge (i : nat) : bool :=
  negb (isnodata i) &&
  ((row i =? 0) || (row i =? Z.of_nat nrow - 1) || (col i =? 0) || (col i =? Z.of_nat ncol - 1) ||
   negb (forallb (fun o => negb (isnodata (lin (row i + fst o) (col i + snd o)))) (offs conn))).

Record fstate := { fdone : list bool; fqd : list bool; fdelv : list Z; fd8 : list Z; fq : list (Z * Z * nat) }.

Definition key_lt (a b : Z * Z * nat) : bool :=
  let '(za, ba, ia) := a in let '(zb, bb, ib) := b in
  (za <? zb) || ((za =? zb) && ((ba <? bb) || ((ba =? bb) && (ia <? ib)%nat))).
(* heapq.heappop on pairwise distinct tuples: the lexicographic minimum *)
Fixpoint extract_min (q : list (Z * Z * nat)) : option ((Z * Z * nat) * list (Z * Z * nat)) :=
  match q with
  | [] => None
  | x :: t => match extract_min t with
              | None => Some (x, [])
              | Some (m, rest) => if key_lt x m then Some (x, t) else Some (m, x :: rest)
              end
  end.

(* one neighbour of the popped cell (z0, i0) *)
Definition visit (z0 : Z) (i0 : nat) (st : fstate) (o : Z * Z) : fstate :=
  let r := row i0 + fst o in let c := col i0 + snd o in
  if negb (inb r c) then st else
  let j := lin r c in
  if nth j (fdone st) true then st else
  let z1 := nth j elv 0 in
  let dz := z0 - z1 in
  let delv' := if dz >? 0 then upd (fdelv st) j dz else fdelv st in
  let z1' := if dz >? 0 then z1 + dz else z1 in
  let '(q', qd') := if nth j (fqd st) false then (fq st, fqd st) else ((z1', 0, j) :: fq st, upd (fqd st) j true) in
  {| fdone := upd (fdone st) j true; fqd := qd'; fdelv := delv';
     fd8 := upd (fd8 st) j (table_at d8_us (fst o) (snd o)); fq := q' |}.

Fixpoint flood_loop (fuel : nat) (st : fstate) : fstate :=
  match fuel with
  | O => st
  | S f => match extract_min (fq st) with
           | None => st
           | Some ((z0, _, i0), rest) =>
             flood_loop f (fold_left (visit z0 i0)
                             (offs conn) {| fdone := fdone st; fqd := fqd st; fdelv := fdelv st; fd8 := fd8 st; fq := rest |})
           end
  end.

(* outlets: 0 = 'edge', 1 = 'min', 2 = user cells *)
Definition flood_init (mode : Z) (pits : list nat) : fstate :=
  let cells := seq 0 sz in
  let done := map isnodata cells in
  let qd0 := if mode =? 2 then map (fun i => memb i pits) cells else map is_edge cells in
  let q0 := map (fun i => (nth i elv 0, 1, i)) (filter (fun i => nth i qd0 false) cells) in
  let '(q, qd) := if mode =? 1 then
                    match extract_min q0 with
                    | None => ([], map (fun _ => false) cells)
                    | Some ((z, b, i), _) => ([(z, b, i)], map (fun j => (j =? i)%nat) cells)
                    end
                  else (q0, qd0) in
  {| fdone := done; fqd := qd; fdelv := map (fun _ => 0) cells;
     fd8 := map (fun i => if isnodata i then 247 else 0) cells; fq := q |}.

Definition fill_depressions (mode : Z) (pits : list nat) : list Z * list Z :=
  let st := flood_loop (S sz) (flood_init mode pits) in
  (map (fun i => nth i elv 0 + nth i (fdelv st) 0) (seq 0 sz), fd8 st).
End Flood.
