(* C19, global statement: the features produced by streams.streams (for every max_len) contain every link
   (c, ds c) of the masked network exactly once; a pit contributes its zero-length link (p, p) once. *)
From Coq Require Import List Arith ZArith QArith Lia Bool Permutation.
Import ListNotations.
From PF Require Import Arr Net Rank RankSpec Stream Vect VectSpec ElevSpec NetBound.
Local Open Scope Z_scope.

Definition links (F : list (list nat)) : list (nat * nat) := concat (map pairs F).

Lemma links_app a b : links (a ++ b) = links a ++ links b.
Proof. unfold links. rewrite map_app, concat_app. reflexivity. Qed.

Lemma map_seq_nth1 {A} (f : nat -> A) n i d : (i < n)%nat -> nth i (map f (seq 0 n)) d = f i.
Proof. intros H. rewrite (nth_indep _ d (f 0%nat)) by (rewrite map_length, seq_length; auto).
  rewrite (map_nth f). rewrite seq_nth by auto. reflexivity. Qed.

Lemma NoDup_app_elim {A} (l u : list A) x : NoDup (l ++ u) -> In x u -> ~ In x l.
Proof. induction l as [|a l IH]; simpl; intros Hn Hu; [tauto|]. inversion Hn as [|? ? Ha Hn']; subst.
  intros [<-|Hx]; [apply Ha; apply in_or_app; right; auto|apply (IH Hn' Hu Hx)]. Qed.

Section Once.
Variable ds : list nat.
Variable sq : list nat.
Variable mask : option (list bool).
Variable max_len : Z.
Hypothesis Ht : topo ds sq.
Hypothesis Hclosed : forall i, valid ds i -> mget mask i = true -> mget mask (dsf ds i) = true.
Notation n := (length ds).
Notation nup := (upstream_count ds mask).
Notation m := (mget mask).
Definition link (c : nat) : nat * nat := (c, dsf ds c).

(* ---------- the upstream count ---------- *)
Lemma nup_unique d u1 u2 : valid ds d -> nth d nup 0 <= 1 ->
  valid ds u1 -> dsf ds u1 = d -> u1 <> d -> m u1 = true ->
  valid ds u2 -> dsf ds u2 = d -> u2 <> d -> m u2 = true -> u1 = u2.
Proof.
  intros Hd Hn Hv1 H1 Hn1 Hm1 Hv2 H2 Hn2 Hm2.
  unfold upstream_count in Hn. destruct Hd as [Hd1 Hd2].
  unfold size in Hd1. rewrite (map_seq_nth1 _ _ _ _ Hd1) in Hn.
  assert (Hvb : validb ds d = true) by (apply validb_valid; split; auto). rewrite Hvb in Hn.
  set (L := filter (fun c => match mask with None => true | Some mm => nth c mm false end) (ups ds d)) in *.
  assert (HinL : forall u, valid ds u -> dsf ds u = d -> u <> d -> m u = true -> In u L).
  { intros u [Hu _] Hdu Hne Hmu. unfold L. apply filter_In. split.
    - unfold ups. apply filter_In. split; [apply in_seq; unfold size in *; lia|].
      rewrite Hdu, Nat.eqb_refl. simpl. apply negb_true_iff, Nat.eqb_neq. exact Hne.
    - unfold mget in Hmu. exact Hmu. }
  pose proof (HinL u1 Hv1 H1 Hn1 Hm1) as I1. pose proof (HinL u2 Hv2 H2 Hn2 Hm2) as I2.
  destruct L as [|a [|b L']]; simpl in *; [destruct I1| |lia].
  destruct I1 as [<-|[]]. destruct I2 as [<-|[]]. reflexivity.
Qed.

(* ---------- one walk ---------- *)
Lemma swalk_links fuel : forall cur, let '(dn, vs, pit) := swalk ds nup fuel cur in
  pairs (cur :: vs) ++ (if pit then [(last (cur :: vs) cur, last (cur :: vs) cur)] else []) = map link (cur :: dn).
Proof.
  induction fuel as [|f IH]; intros cur; cbn [swalk].
  - destruct (Nat.eqb_spec (dsf ds cur) cur) as [Ep|Hnp]; [simpl; unfold link; rewrite Ep; reflexivity|].
    destruct (nth (dsf ds cur) nup 0 >? 1); reflexivity.
  - destruct (Nat.eqb_spec (dsf ds cur) cur) as [Ep|Hnp]; [simpl; unfold link; rewrite Ep; reflexivity|].
    destruct (nth (dsf ds cur) nup 0 >? 1); [reflexivity|].
    specialize (IH (dsf ds cur)). destruct (swalk ds nup f (dsf ds cur)) as [[dn vs] pit].
    rewrite pairs_cons. change (map link (cur :: dsf ds cur :: dn)) with (link cur :: map link (dsf ds cur :: dn)).
    rewrite <- IH. unfold link. rewrite <- app_comm_cons. f_equal.
    change (last (cur :: dsf ds cur :: vs) cur) with (last (dsf ds cur :: vs) cur).
    assert (Hl : last (dsf ds cur :: vs) cur = last (dsf ds cur :: vs) (dsf ds cur)).
    { clear. generalize (dsf ds cur). intros a. revert a. induction vs as [|v vs IHv]; intros a; [reflexivity|]. simpl in *. destruct vs; [reflexivity|apply IHv]. }
    rewrite Hl. reflexivity.
Qed.

(* the marked cells are the first cells of the orbit, none of them (but possibly the last) a pit *)
Lemma swalk_orbit fuel : forall cur, let '(dn, vs, pit) := swalk ds nup fuel cur in
  cur :: dn = map (fun j => iter ds j cur) (seq 0 (S (length dn))) /\
  (forall j, (j < length dn)%nat -> dsf ds (iter ds j cur) <> iter ds j cur) /\
  (forall j, (j < length dn)%nat -> nth (iter ds (S j) cur) nup 0 <= 1).
Proof.
  induction fuel as [|f IH]; intros cur; cbn [swalk].
  - destruct (Nat.eqb_spec (dsf ds cur) cur); [|destruct (nth (dsf ds cur) nup 0 >? 1)]; simpl; (split; [reflexivity|split; intros j Hj; lia]).
  - destruct (Nat.eqb_spec (dsf ds cur) cur) as [Ep|Hnp]; [simpl; split; [reflexivity|split; intros j Hj; lia]|].
    destruct (Z.gtb_spec (nth (dsf ds cur) nup 0) 1) as [Hc|Hc]; [simpl; split; [reflexivity|split; intros j Hj; lia]|].
    specialize (IH (dsf ds cur)). destruct (swalk ds nup f (dsf ds cur)) as [[dn vs] pit].
    destruct IH as (H1 & H2 & H3). cbn [length]. split; [|split].
    + change (seq 0 (S (S (length dn)))) with (0%nat :: seq 1 (S (length dn))).
      rewrite <- seq_shift, map_cons, map_map. simpl. f_equal. exact H1.
    + intros [|j] Hj; [exact Hnp|]. simpl. apply H2. lia.
    + intros [|j] Hj; [simpl; exact Hc|]. apply (H3 j). lia.
Qed.

(* ---------- the outer loop ---------- *)
Notation P := (rev sq).
Definition doneP (done : list bool) (c : nat) : Prop := nth c done false = true.

Record oinv (P1 : list nat) (done : list bool) (out : list (list nat)) (M : list nat) : Prop := {
  o_len : length done = n;
  o_links : links out = map link M;
  o_nd : NoDup M;
  o_done : forall c, (c < n)%nat -> (In c M <-> doneP done c);
  o_in : forall c, In c M -> m c = true /\ In c P;
  o_proc : forall c, In c P1 -> m c = true -> doneP done c;
  o_walk : forall c, doneP done c -> ~ In c P1 -> exists u, valid ds u /\ dsf ds u = c /\ u <> c /\ m u = true /\ doneP done u }.

Lemma HU : utopo ds P.
Proof. apply topo_utopo. exact Ht. Qed.

Lemma fold_mark_spec (l : list nat) : forall (done : list bool) c, length done = n -> (forall x, In x l -> (x < n)%nat) ->
  (nth c (fold_left (fun a x => upd a x true) l done) false = true <-> In c l \/ nth c done false = true) /\
  length (fold_left (fun a x => upd a x true) l done) = n.
Proof.
  induction l as [|x l IH]; intros done c Hl Hb; simpl; [tauto|].
  destruct (IH (upd done x true) c) as [IH1 IH2]; [rewrite upd_length; auto|intros; apply Hb; right; auto|].
  split; auto. rewrite IH1, nth_upd, Hl. destruct (Nat.eqb_spec c x) as [->|Hne]; simpl.
  - assert (Hx : (x <? n)%nat = true) by (apply Nat.ltb_lt; apply Hb; left; auto). rewrite Hx. tauto.
  - intuition congruence.
Qed.

Lemma sstep_oinv P1 P2 idx0 done out M : P = P1 ++ idx0 :: P2 -> oinv P1 done out M ->
  exists M', oinv (P1 ++ [idx0]) (fst (sstep ds nup mask max_len (done, out) idx0)) (snd (sstep ds nup mask max_len (done, out) idx0)) M'.
Proof.
  intros Hsplit HI. unfold sstep.
  assert (HinP : In idx0 P) by (rewrite Hsplit; apply in_or_app; right; left; auto).
  assert (Hinsq : In idx0 sq) by (apply in_rev; auto).
  assert (Hv0 : valid ds idx0) by (apply (topo_valid ds sq); auto).
  destruct (nth idx0 done false) eqn:Ed0.
  { (* already part of an earlier stream *)
    cbn [orb fst snd]. exists M. destruct HI as [L1 L2 L3 L4 L5 L6 L7]. constructor; auto.
    - intros c Hc Hm. apply in_app_or in Hc. destruct Hc as [Hc|[<-|[]]]; auto.
    - intros c Hd Hn. apply L7; auto. intros Hc. apply Hn. apply in_or_app. left; auto. }
  destruct (m idx0) eqn:Em0; cbn [orb negb].
  2:{ cbn [fst snd]. exists M. destruct HI as [L1 L2 L3 L4 L5 L6 L7]. constructor; auto.
      - intros c Hc Hm. apply in_app_or in Hc. destruct Hc as [Hc|[<-|[]]]; [auto|congruence].
      - intros c Hd Hn. apply L7; auto. intros Hc. apply Hn. apply in_or_app. left; auto. }
  pose proof (swalk_links n idx0) as HL. pose proof (swalk_orbit n idx0) as HO.
  destruct (swalk ds nup n idx0) as [[dn vs] pit]. destruct HO as (Horb & Hnp & Hnup). cbn [fst snd].
  change (fold_left (fun a c => upd a c true) (idx0 :: dn) done) with (fold_left (fun a x => upd a x true) (idx0 :: dn) done).
  set (K := length dn) in *. set (marked := idx0 :: dn) in *.
  destruct HI as [L1 L2 L3 L4 L5 L6 L7].
  (* suffix facts *)
  assert (Hsuf : utopo ds (idx0 :: P2)).
  { pose proof HU as H. rewrite Hsplit in H. clear -H. induction P1 as [|a l IHl]; simpl in H; auto. inversion H; auto. }
  assert (HndP : NoDup P) by (apply utopo_NoDup with (ds := ds); apply HU).
  assert (Hlater : forall j, In (iter ds j idx0) (idx0 :: P2)) by (intros j; apply utopo_closed_iter; [exact Hsuf|left; auto]).
  assert (HnotP1 : forall j, ~ In (iter ds j idx0) P1).
  { intros j. rewrite Hsplit in HndP. apply (NoDup_app_elim P1 (idx0 :: P2)); auto. }
  assert (Hvalid : forall j, valid ds (iter ds j idx0)).
  { intros j. apply (utopo_valid ds (idx0 :: P2)); auto. }
  assert (Hmask : forall j, m (iter ds j idx0) = true).
  { induction j as [|j IHj]; [exact Em0|]. rewrite iter_S. apply Hclosed; auto. }
  assert (HinPj : forall j, In (iter ds j idx0) P).
  { intros j. rewrite Hsplit. apply in_or_app. right. apply Hlater. }
  (* the marked cells were not done before *)
  assert (Hfresh : forall j, (j <= K)%nat -> nth (iter ds j idx0) done false = false).
  { induction j as [|j IHj]; intros Hj; [exact Ed0|].
    destruct (nth (iter ds (S j) idx0) done false) eqn:Ed; auto. exfalso.
    destruct (L7 (iter ds (S j) idx0) Ed (HnotP1 (S j))) as (u & Hvu & Hdu & Hne & Hmu & Hdone_u).
    assert (Hu : u = iter ds j idx0).
    { assert (E1 : dsf ds (iter ds j idx0) = iter ds (S j) idx0) by (rewrite iter_S; reflexivity).
      assert (E2 : iter ds j idx0 <> iter ds (S j) idx0) by (rewrite <- E1; apply not_eq_sym, Hnp; lia).
      apply (nup_unique (iter ds (S j) idx0) u (iter ds j idx0) (Hvalid (S j)) (Hnup j ltac:(lia)) Hvu Hdu Hne Hmu (Hvalid j) E1 E2 (Hmask j)). }
    subst u. unfold doneP in Hdone_u. rewrite IHj in Hdone_u by lia. discriminate. }
  assert (Hmarked_in : forall c, In c marked <-> exists j, (j <= K)%nat /\ c = iter ds j idx0).
  { intros c. rewrite Horb, in_map_iff. split.
    - intros [j [<- Hj]]. apply in_seq in Hj. exists j. split; [lia|reflexivity].
    - intros [j [Hj ->]]. exists j. split; auto. apply in_seq. lia. }
  assert (Hmarked_nd : NoDup marked).
  { rewrite Horb. apply (orbit_nodup ds sq Ht idx0 K Hinsq). exact Hnp. }
  assert (Hmarked_lt : forall x, In x marked -> (x < n)%nat).
  { intros x Hx. apply Hmarked_in in Hx. destruct Hx as [j [_ ->]]. destruct (Hvalid j) as [H _]. exact H. }
  destruct (fold_mark_spec marked done 0%nat L1 Hmarked_lt) as [_ Hlen'].
  exists (M ++ marked). constructor.
  - exact Hlen'.
  - rewrite !links_app, L2, map_app. f_equal.
    unfold links at 1. rewrite (split_chain (idx0 :: vs) max_len).
    rewrite <- HL. f_equal. destruct pit; [|reflexivity]. unfold links. simpl. reflexivity.
  - apply NoDup_app_disj; auto. intros x Hx' Hx. apply Hmarked_in in Hx'. destruct Hx' as [j [Hj ->]].
    apply L4 in Hx; [|destruct (Hvalid j); auto]. unfold doneP in Hx. rewrite Hfresh in Hx by auto. discriminate.
  - intros c Hc. destruct (fold_mark_spec marked done c L1 Hmarked_lt) as [Hspec _]. unfold doneP. rewrite Hspec.
    rewrite in_app_iff. rewrite (L4 c Hc). unfold doneP. tauto.
  - intros c Hc. apply in_app_or in Hc. destruct Hc as [Hc|Hc]; [apply L5; auto|].
    apply Hmarked_in in Hc. destruct Hc as [j [_ ->]]. split; auto.
  - intros c Hc Hmc. destruct (fold_mark_spec marked done c L1 Hmarked_lt) as [Hspec _]. unfold doneP. rewrite Hspec.
    apply in_app_or in Hc. destruct Hc as [Hc|[<-|[]]]; [right; apply L6; auto|left; left; reflexivity].
  - intros c Hd Hn.
    destruct (fold_mark_spec marked done c L1 Hmarked_lt) as [Hspec _]. unfold doneP in Hd. rewrite Hspec in Hd.
    destruct Hd as [Hc|Hc].
    + apply Hmarked_in in Hc. destruct Hc as [j [Hj ->]]. destruct j as [|j]; [exfalso; apply Hn; apply in_or_app; right; left; reflexivity|].
      exists (iter ds j idx0). split; auto. split; [rewrite iter_S; reflexivity|]. split; [rewrite iter_S; apply not_eq_sym, Hnp; lia|].
      split; auto.
      destruct (fold_mark_spec marked done (iter ds j idx0) L1 Hmarked_lt) as [Hs2 _]. unfold doneP. rewrite Hs2. left.
      apply Hmarked_in. exists j. split; [lia|reflexivity].
    + destruct (L7 c Hc) as (u & A & B & C & D & F); [intros Hin; apply Hn; apply in_or_app; left; auto|].
      exists u. split; auto. split; auto. split; auto. split; auto.
      destruct (fold_mark_spec marked done u L1 Hmarked_lt) as [Hs2 _]. unfold doneP. rewrite Hs2. right. exact F.
Qed.

Lemma fold_oinv P2 : forall P1 done out M, P = P1 ++ P2 -> oinv P1 done out M ->
  exists M', oinv P (fst (fold_left (sstep ds nup mask max_len) P2 (done, out)))
                    (snd (fold_left (sstep ds nup mask max_len) P2 (done, out))) M'.
Proof.
  induction P2 as [|idx0 P2 IH]; intros P1 done out M Hsplit HI; cbn [fold_left].
  - rewrite app_nil_r in Hsplit. rewrite Hsplit. exists M. exact HI.
  - destruct (sstep_oinv P1 P2 idx0 done out M Hsplit HI) as [M' HI'].
    destruct (sstep ds nup mask max_len (done, out) idx0) as [done' out'] eqn:Es. cbn [fst snd] in HI'.
    apply (IH (P1 ++ [idx0]) done' out' M'); auto. rewrite <- app_assoc. exact Hsplit.
Qed.

(* every link of the masked network, and the zero-length link of every masked pit, exactly once *)
Theorem links_once :
  Permutation (links (streams ds sq mask max_len)) (map link (filter m P)).
Proof.
  unfold streams.
  assert (H0 : oinv [] (repeat false n) [] []).
  { constructor; simpl; auto.
    - apply repeat_length.
    - constructor.
    - intros c Hc. unfold doneP. rewrite nth_repeat_false. split; [tauto|discriminate].
    - intros c [].
    - intros c [].
    - intros c Hd. unfold doneP in Hd. rewrite nth_repeat_false in Hd. discriminate. }
  destruct (fold_oinv P [] (repeat false n) [] [] eq_refl H0) as [M HI].
  destruct (fold_left (sstep ds nup mask max_len) P (repeat false n, [])) as [done out]. simpl in *.
  destruct HI as [L1 L2 L3 L4 L5 L6 L7]. rewrite L2. apply Permutation_map.
  apply NoDup_Permutation; auto.
  - apply NoDup_filter. apply utopo_NoDup with (ds := ds). apply HU.
  - intros c. rewrite filter_In. split.
    + intros Hc. destruct (L5 c Hc). tauto.
    + intros [Hc Hm]. apply L4; [|apply L6; auto].
      assert (valid ds c) by (apply (utopo_valid ds P); [apply HU|auto]). destruct H; auto.
Qed.
End Once.
