(* Models: subgrid.ucat_area / ucat_volume and the segment walks (segment_length / average / median). *)
From Coq Require Import List Arith ZArith QArith Bool.
Import ListNotations.
From PF Require Import Arr Net SweepDown Fill Ops.
Local Open Scope Z_scope.

(* for i, idx0 in enumerate(idxs_out): if idx0 != mv: ucatch_map[idx0] = i + 1 ; ucatch_are[i] = area[idx0] *)
Definition ucat_seed (n : nat) (outs : list nat) : list Z :=
  fold_left (fun a p => if (snd p <? n)%nat then upd a (snd p) (Z.of_nat (fst p) + 1) else a)
            (combine (seq 0 (length outs)) outs) (repeat 0 n).
Definition ucat_area0 (n : nat) (outs : list nat) (area : list Z) : list Z :=
  map (fun o => if (o <? n)%nat then nth o area 0 else -9999) outs.

(* for idx0 in seq: ucat_ds = map[idx_ds]; if map[idx0] == 0 and ucat_ds != 0: map[idx0] = ucat_ds; are[ucat_ds-1] += area[idx0] *)
Definition ucat_step (ds : list nat) (area : list Z) (st : list Z * list Z) (i : nat) : list Z * list Z :=
  let '(m, a) := st in
  let u := nth (dsf ds i) m 0 in
  if (nth i m 0 =? 0) && negb (u =? 0)
  then (upd m i u, upd a (Z.to_nat (u - 1)) (nth (Z.to_nat (u - 1)) a 0 + nth i area 0))
  else st.
Definition ucat_area (ds : list nat) (outs : list nat) (sq : list nat) (area : list Z) : list Z * list Z :=
  fold_left (ucat_step ds area) sq (ucat_seed (length ds) outs, ucat_area0 (length ds) outs area).

(* volume at depth d: the same accumulation of area * max(0, d - hand) *)
Definition ucat_volume (ds : list nat) (outs : list nat) (sq : list nat) (hand area : list Z) (depths : list Z)
  : list Z * list (list Z) :=
  (fst (ucat_area ds outs sq area),
   map (fun dpt => snd (ucat_area ds outs sq (map (fun p => snd p * Z.max 0 (dpt - fst p)) (combine hand area)))) depths).

(* segment walks from an outlet pixel along nxt; incl = include the next outlet pixel (length, slope
   end points) or stop before it (average, median) *)
Section Seg.
Variable nxt : list nat.
Let n := length nxt.
Variable isout : nat -> bool.
Variable maskok : nat -> bool.
Variable incl : bool.
Fixpoint seg (fuel : nat) (cur : nat) : list nat :=
  let x := nth cur nxt n in
  if (n <=? x)%nat || (x =? cur)%nat || negb (maskok x) then []
  else if isout x then (if incl then [x] else [])
  else match fuel with O => [] | S f => x :: seg f x end.
End Seg.

Definition outflag (outs : list nat) (i : nat) : bool := memb i outs.
Definition mok (mask : option (list bool)) (i : nat) : bool := match mask with None => true | Some m => nth i m false end.

Definition segment_paths (nxt : list nat) (outs : list nat) (mask : option (list bool)) (incl : bool) : list (list nat) :=
  let n := length nxt in
  map (fun o => if (o <? n)%nat then o :: seg nxt (outflag outs) (mok mask) incl n o else []) outs.

(* rivlen = |distnc[end] - distnc[start]| *)
Definition segment_length (nxt : list nat) (outs : list nat) (mask : option (list bool)) (distnc : list Z) (nodata : Z) : list Z :=
  map (fun p => match p with [] => nodata | o :: _ => Z.abs (nth (last p o) distnc 0 - nth o distnc 0) end)
      (segment_paths nxt outs mask true).
Definition segment_average (nxt : list nat) (outs : list nat) (mask : option (list bool)) (data weights : list Z) (nodata : Z)
  : list (option Q) :=
  map (fun p => match p with [] => None | _ => wmean (map (fun j => (nth j data 0, nth j weights 1)) p) nodata end)
      (segment_paths nxt outs mask false).
Definition segment_median (nxt : list nat) (outs : list nat) (mask : option (list bool)) (data : list Z) (nodata : Z)
  : list (option Q) :=
  map (fun p => match p with [] => None | _ => median (map (fun j => nth j data 0) p) nodata end)
      (segment_paths nxt outs mask false).
