(* C14: along-network operators equal their flow-path definitions. *)
From Coq Require Import List Arith ZArith Lia Bool.
Import ListNotations.
From PF Require Import Arr Net SweepDown SweepUp Rank RankSpec Stream StreamSpec Ops.
Local Open Scope Z_scope.

(* ---------- downstream ---------- *)
Theorem downstream_spec ds data i : (i < length ds)%nat ->
  nth i (downstream ds data) 0 = if validb ds i then nth (dsf ds i) data 0 else nth i data 0.
Proof.
  intros Hi. unfold downstream.
  rewrite (nth_indep _ 0 ((fun i => if validb ds i then nth (dsf ds i) data 0 else nth i data 0) 0%nat))
    by (rewrite map_length, seq_length; auto).
  rewrite (map_nth (fun i => if validb ds i then nth (dsf ds i) data 0 else nth i data 0)).
  rewrite seq_nth by auto. reflexivity.
Qed.

(* ---------- upstream sum ---------- *)
Section USum.
Variable ds : list nat.
Variable data : list Z.
Variable nodata : Z.
Hypothesis Hnn : forall i, nth i data 0 <> nodata.       (* a field without the nodata value *)
Notation n := (size ds).

(* direct upstream cells of j with index below k *)
Definition upsk (k j : nat) : list nat :=
  filter (fun c => (dsf ds c =? j)%nat && negb (c =? j)%nat) (seq 0 k).

Lemma upsk_S k j : upsk (S k) j = upsk k j ++ (if (dsf ds k =? j)%nat && negb (k =? j)%nat then [k] else []).
Proof. unfold upsk. rewrite seq_S, filter_app. simpl. destruct ((dsf ds k =? j)%nat && negb (k =? j)%nat); reflexivity. Qed.

Definition usum_k (k : nat) : list Z := fold_left (usum_step ds data nodata) (seq 0 k) (repeat 0 (length ds)).

Lemma usum_k_S k : usum_k (S k) = usum_step ds data nodata (usum_k k) k.
Proof. unfold usum_k. rewrite seq_S, fold_left_app. reflexivity. Qed.

Lemma usum_inv k : (k <= n)%nat ->
  length (usum_k k) = n /\ forall j, (j < n)%nat -> nth j (usum_k k) 0 = zsum (map (fun c => nth c data 0) (upsk k j)).
Proof.
  induction k as [|k IH]; intros Hk.
  - unfold usum_k. simpl. split; [apply repeat_length|]. intros j Hj. unfold upsk. simpl. apply nth_repeat_same.
  - rewrite usum_k_S. destruct (IH ltac:(lia)) as [Hl Hv].
    set (a := usum_k k) in *.
    unfold usum_step.
    destruct (Nat.ltb_spec (dsf ds k) n) as [Hd|Hd]; cbn [andb].
    + destruct (Nat.eqb_spec (dsf ds k) k) as [Ep|Hnp]; cbn [negb andb].
      * split; auto. intros j Hj. rewrite upsk_S, Hv by auto.
        destruct (Nat.eqb_spec (dsf ds k) j) as [E|E]; cbn [andb]; [|rewrite app_nil_r; auto].
        destruct (Nat.eqb_spec k j) as [E2|E2]; cbn [negb]; [rewrite app_nil_r; auto|congruence].
      * destruct (Z.eqb_spec (nth k data 0) nodata) as [E|_]; [exfalso; apply (Hnn _ E)|].
        destruct (Z.eqb_spec (nth (dsf ds k) data 0) nodata) as [E|_]; [exfalso; apply (Hnn _ E)|]. cbn [orb].
        split; [rewrite upd_length; auto|]. intros j Hj. rewrite upsk_S.
        destruct (Nat.eqb_spec (dsf ds k) j) as [E|E]; cbn [andb].
        -- subst j. assert (Hkd : (k =? dsf ds k)%nat = false) by (apply Nat.eqb_neq; auto). rewrite Hkd. simpl.
           rewrite nth_upd_eq by lia. rewrite Hv by auto. rewrite map_app, zsum_app. simpl. lia.
        -- rewrite app_nil_r. rewrite nth_upd_neq by auto. auto.
    + split; auto. intros j Hj. rewrite upsk_S, Hv by auto.
      destruct (Nat.eqb_spec (dsf ds k) j) as [E|E]; cbn [andb]; [lia|]. rewrite app_nil_r. auto.
Qed.

(* the upstream sum returns, at every cell, the sum over its direct upstream cells *)
Theorem upstream_sum_spec j : (j < n)%nat ->
  nth j (upstream_sum ds data nodata) 0 = zsum (map (fun c => nth c data 0) (ups ds j)).
Proof. intros Hj. destruct (usum_inv n (le_n n)) as [_ H]. unfold upstream_sum. fold (usum_k (length ds)). rewrite H by auto. reflexivity. Qed.
End USum.

(* ---------- fillnodata downstream ---------- *)
Section FillDown.
Variable ds : list nat.
Variable sq : list nat.
Variable data : list Z.
Variables nodata how : Z.
Hypothesis Ht : topo ds sq.
Hypothesis Hl : length data = size ds.
Let prs := fill_pairs ds sq data nodata how.
Let P := rev sq.
Notation pr c := (nth c prs (0, false)).

(* merge the values of the direct upstream cells that hold a value, in processing order *)
Definition merge_fold (vals : list (Z * bool)) (start : Z * bool) : Z * bool :=
  fold_left (fun (acc v : Z * bool) => if snd v then (if snd acc then (merge how (fst v) (fst acc), true) else (fst v, true)) else acc) vals start.

Lemma fold_fdown_nodata (Fv : nat -> Z * bool) j K : (forall c, In c K -> dsf ds c = j) -> nth j data 0 = nodata -> forall acc,
  fold_left (fun acc c => fdown_g ds data nodata how c acc (Fv c)) K acc = merge_fold (map Fv K) acc.
Proof.
  intros Hk E. unfold merge_fold. induction K as [|c K IH]; intros acc; simpl; auto.
  rewrite IH by (intros x Hx; apply Hk; right; auto). f_equal.
  unfold fdown_g. rewrite (Hk c (or_introl eq_refl)), E, Z.eqb_refl. cbn [andb]. reflexivity.
Qed.

Lemma fold_fdown_valid (Fv : nat -> Z * bool) j K : (forall c, In c K -> dsf ds c = j) -> nth j data 0 <> nodata -> forall acc,
  fold_left (fun acc c => fdown_g ds data nodata how c acc (Fv c)) K acc = acc.
Proof.
  intros Hk E. induction K as [|c K IH]; intros acc; simpl; auto.
  rewrite IH by (intros x Hx; apply Hk; right; auto).
  unfold fdown_g. rewrite (Hk c (or_introl eq_refl)). destruct (Z.eqb_spec (nth j data 0) nodata); [contradiction|]. reflexivity.
Qed.

(* (value, holds-a-value) of every cell: a cell holding a value keeps it; an empty cell gets the merge (min / max / sum)
   of the values of those direct upstream cells that end up holding a value (which, for empty upstream cells, are in
   turn merges of THEIR upstream cells: the nearest valid values upstream); it stays empty iff none does *)
Theorem fill_down_pairs j : (j < size ds)%nat ->
  pr j = if nth j data 0 =? nodata then merge_fold (map (fun c => pr c) (kids ds P j)) (nodata, false)
         else (nth j data 0, true).
Proof.
  intros Hj. unfold prs, fill_pairs. fold P.
  rewrite (sweep_up_char ds (0, false) (fun _ x => x) (fdown_g ds data nodata how) P) at 1; auto;
    [|unfold P; apply topo_utopo; auto|rewrite map_length; auto].
  assert (Hfz : forall x, fz (fun _ (x : Z * bool) => x) P j x = x) by (intros x; unfold fz; destruct (in_dec Nat.eq_dec j P); auto).
  rewrite Hfz.
  assert (Hinit : nth j (map (fun v => (v, negb (v =? nodata))) data) (0, false) = (nth j data 0, negb (nth j data 0 =? nodata))).
  { rewrite (nth_indep _ (0, false) ((fun v => (v, negb (v =? nodata))) 0)) by (rewrite map_length, Hl; auto). exact (map_nth (fun v => (v, negb (v =? nodata))) data 0 j). }
  rewrite Hinit.
  assert (Hk : forall c, In c (kids ds P j) -> dsf ds c = j) by (intros c Hc; apply kids_mem in Hc; tauto).
  destruct (Z.eqb_spec (nth j data 0) nodata) as [E|E].
  - rewrite (fold_fdown_nodata _ j _ Hk E). rewrite E. reflexivity.
  - rewrite (fold_fdown_valid _ j _ Hk E). reflexivity.
Qed.

(* the merge in closed form: nothing if no upstream cell holds a value, else the min / max / sum of those that do *)
Lemma merge_fold_closed vals x : merge_fold vals (x, false) =
  match filter snd vals with
  | [] => (x, false)
  | v :: vs => (fold_left (fun a w => merge how (fst w) a) vs (fst v), true)
  end.
Proof.
  unfold merge_fold.
  assert (G : forall vs a, fold_left (fun (acc v : Z * bool) => if snd v then (if snd acc then (merge how (fst v) (fst acc), true) else (fst v, true)) else acc) vs (a, true)
                           = (fold_left (fun a w => merge how (fst w) a) (filter snd vs) a, true)).
  { induction vs as [|v vs IH]; intros a; simpl; auto. destruct (snd v); simpl; apply IH. }
  induction vals as [|v vals IH]; simpl; auto.
  destruct (snd v) eqn:E; simpl; [apply G|apply IH].
Qed.

Theorem fill_down_spec j : (j < size ds)%nat ->
  nth j (fillnodata_downstream ds sq data nodata how) 0 =
  if nth j data 0 =? nodata then fst (merge_fold (map (fun c => pr c) (kids ds P j)) (nodata, false)) else nth j data 0.
Proof.
  intros Hj. unfold fillnodata_downstream. fold prs.
  assert (Hlen : length prs = size ds).
  { unfold prs, fill_pairs. rewrite sweep_up_length, map_length. exact Hl. }
  rewrite (nth_indep _ 0 (fst (0, false))) by (rewrite map_length, Hlen; auto).
  rewrite (map_nth fst). rewrite (fill_down_pairs j Hj). destruct (nth j data 0 =? nodata); reflexivity.
Qed.
End FillDown.

(* ---------- window ---------- *)
Section Window.
Variable ds : list nat.
Variable strord : option (list Z).
Variable so0 : Z.
Definition stop_down (cur : nat) : bool :=
  let d := dsf ds cur in
  (d =? cur)%nat || (size ds <=? d)%nat || (match strord with None => false | Some s => nth d s 0 >? so0 end).

(* the downstream half of the window: the next cells down the flow path, at most k of them, cut at
   the first pit / nodata link / (if an order map is given) first cell of higher stream order *)
Theorem window_down_spec k : forall cur,
  let w := window_down ds strord so0 k cur in
  (length w <= k)%nat /\
  (forall m, (m < length w)%nat -> nth m w 0%nat = iter ds (S m) cur /\ stop_down (iter ds m cur) = false) /\
  ((length w < k)%nat -> stop_down (iter ds (length w) cur) = true).
Proof.
  induction k as [|k IH]; intros cur; simpl.
  - split; [lia|]. split; intros; lia.
  - fold (stop_down cur). destruct (stop_down cur) eqn:E; simpl.
    + split; [lia|]. split; [intros; lia|]. intros _. exact E.
    + destruct (IH (dsf ds cur)) as (H1 & H2 & H3). split; [lia|]. split.
      * intros [|m] Hm; simpl; [split; auto|]. apply H2. lia.
      * intros Hlt. apply H3. lia.
Qed.

Variable main : list nat.
Theorem window_up_spec k : forall cur,
  let n := size ds in
  let w := window_up n main k cur in
  (length w <= k)%nat /\
  (forall m, (m < length w)%nat -> (nth m w 0 < n)%nat /\
     nth m w 0%nat = nth (match m with O => cur | S m' => nth m' w 0%nat end) main n) /\
  ((length w < k)%nat -> (n <= nth (match length w with O => cur | S m' => nth m' w 0%nat end) main n)%nat).
Proof.
  induction k as [|k IH]; intros cur; simpl.
  - split; [lia|]. split; intros; lia.
  - destruct (Nat.leb_spec (size ds) (nth cur main (size ds))) as [E|E]; simpl.
    + split; [lia|]. split; [intros; lia|]. intros _. exact E.
    + destruct (IH (nth cur main (size ds))) as (H1 & H2 & H3). split; [lia|]. split.
      * intros [|m] Hm; simpl; [split; auto|]. destruct (H2 m ltac:(simpl in Hm; lia)) as [A B]. split; auto; try (destruct m; exact B).
      * intros Hlt. specialize (H3 ltac:(simpl in Hlt; lia)).
        destruct (window_up (size ds) main k (nth cur main (size ds))) as [|x w] eqn:Ew; simpl in *; auto.
Qed.
End Window.

(* ---------- stream distance, HAND, floodplains: values along the downstream walk ---------- *)
Lemma init_fold_nth (sq : list nat) {A} (v0 v : A) n j : (forall i, In i sq -> (i < n)%nat) -> (j < n)%nat ->
  nth j (fold_left (fun a i => upd a i v) sq (repeat v0 n)) v0 = if in_dec Nat.eq_dec j sq then v else v0.
Proof.
  intros Hb Hj.
  assert (G : forall (l : list nat) (a : list A), (forall i, In i l -> (i < length a)%nat) ->
            nth j (fold_left (fun a i => upd a i v) l a) v0 = if in_dec Nat.eq_dec j l then v else nth j a v0).
  { induction l as [|i l IH]; intros a Ha; simpl; auto.
    rewrite IH by (intros x Hx; rewrite upd_length; apply Ha; right; auto).
    destruct (in_dec Nat.eq_dec j l); destruct (Nat.eq_dec i j) as [->|Hne]; auto.
    - apply nth_upd_eq. apply Ha. left; auto.
    - apply nth_upd_neq. auto. }
  rewrite G by (intros i Hi; rewrite repeat_length; apply Hb; auto).
  destruct (in_dec Nat.eq_dec j sq); auto. apply nth_repeat_lt. auto.
Qed.

Lemma init_fold_length (sq : list nat) {A} (v : A) (a : list A) : length (fold_left (fun a i => upd a i v) sq a) = length a.
Proof. revert a; induction sq as [|i l IH]; intros a; simpl; auto. rewrite IH. apply upd_length. Qed.

Section DownWalk.
Variable ds : list nat.
Variable sq : list nat.
Hypothesis Ht : topo ds sq.
Notation n := (size ds).

(* ---- stream distance ---- *)
Variable mask : option (list bool).
Variable len : nat -> nat -> Z.
Definition stopd (i : nat) : bool := (dsf ds i =? i)%nat || (match mask with None => false | Some m => nth i m false end).
Fixpoint pathlen (k : nat) (i : nat) : Z :=
  match k with O => 0 | S k' => len i (dsf ds i) + pathlen k' (dsf ds i) end.

(* distance = sum of the step lengths along the flow path up to the first cell that is a pit or masked *)
Theorem stream_distance_spec k : forall i, In i sq ->
  (forall m, (m < k)%nat -> stopd (iter ds m i) = false) -> stopd (iter ds k i) = true ->
  nth i (stream_distance ds sq mask len) 0 = pathlen k i.
Proof.
  unfold stream_distance.
  set (init := fold_left (fun a i => upd a i 0) sq (repeat (-9999) (length ds))).
  assert (Hli : length init = n) by (unfold init; rewrite init_fold_length, repeat_length; reflexivity).
  destruct (sweep_down_spec ds 0 (sdist_f ds mask len) sq init Hli Ht) as [H1 _].
  assert (Hinit : forall i, In i sq -> nth i init 0 = 0).
  { intros i Hi. unfold init.
    assert (Hb : forall x, In x sq -> (x < length ds)%nat) by (intros x Hx; destruct (topo_valid ds sq x Ht Hx); auto).
    rewrite (nth_indep _ 0 (-9999)) by (rewrite init_fold_length, repeat_length; auto).
    rewrite (init_fold_nth sq (-9999) 0 (length ds) i Hb (Hb i Hi)).
    destruct (in_dec Nat.eq_dec i sq); [auto|contradiction]. }
  induction k as [|k IH]; intros i Hi Hgo Hstop; simpl in *.
  - pose proof (H1 i Hi) as V. unfold stopd in Hstop.
    destruct (Nat.eq_dec (dsf ds i) i) as [Ep|Hnp].
    + rewrite (val_inv_pit ds 0 _ _ i _ V Ep). unfold sdist_f. rewrite Ep, Nat.eqb_refl. simpl. apply Hinit; auto.
    + destruct (val_inv_step ds 0 _ _ i _ V Hnp) as (v & _ & E). rewrite E. unfold sdist_f.
      rewrite Hstop. apply Hinit; auto.
  - pose proof (Hgo 0%nat ltac:(lia)) as H0. simpl in H0. unfold stopd in H0.
    apply orb_false_iff in H0. destruct H0 as [Hnp Hm]. apply Nat.eqb_neq in Hnp.
    assert (Hd : In (dsf ds i) sq) by (apply topo_closed; auto).
    pose proof (H1 i Hi) as V. destruct (val_inv_step ds 0 _ _ i _ V Hnp) as (v & Hv & E). rewrite E.
    rewrite (val_fun ds 0 _ _ _ _ _ Hv (H1 _ Hd)).
    unfold sdist_f at 1. apply Nat.eqb_neq in Hnp. rewrite Hnp, Hm. cbn [orb].
    rewrite (IH (dsf ds i) Hd); [lia| |exact Hstop].
    intros m Hlt. apply (Hgo (S m)). lia.
Qed.

(* ---- height above nearest drainage ---- *)
Variable drain : list bool.
Variable elv : list Z.
(* elevation difference to the first drainage cell (or pit) on the downstream path; 0 on drainage cells *)
Theorem hand_spec k : forall i, In i sq ->
  (forall m, (m < k)%nat -> nth (iter ds m i) drain false = false /\ dsf ds (iter ds m i) <> iter ds m i) ->
  (nth (iter ds k i) drain false = true \/ dsf ds (iter ds k i) = iter ds k i) ->
  nth i (hand ds sq drain elv) 0 = nth i elv 0 - nth (iter ds k i) elv 0.
Proof.
  unfold hand.
  set (init := fold_left (fun a i => upd a i 0) sq (repeat (-9999) (length ds))).
  assert (Hli : length init = n) by (unfold init; rewrite init_fold_length, repeat_length; reflexivity).
  destruct (sweep_down_spec ds 0 (hand_f ds drain elv) sq init Hli Ht) as [H1 _].
  assert (Hinit : forall i, In i sq -> nth i init 0 = 0).
  { intros i Hi. unfold init.
    assert (Hb : forall x, In x sq -> (x < length ds)%nat) by (intros x Hx; destruct (topo_valid ds sq x Ht Hx); auto).
    rewrite (nth_indep _ 0 (-9999)) by (rewrite init_fold_length, repeat_length; auto).
    rewrite (init_fold_nth sq (-9999) 0 (length ds) i Hb (Hb i Hi)).
    destruct (in_dec Nat.eq_dec i sq); [auto|contradiction]. }
  induction k as [|k IH]; intros i Hi Hgo Hstop; simpl in *.
  - pose proof (H1 i Hi) as V. destruct Hstop as [Hdr|Ep].
    + destruct (Nat.eq_dec (dsf ds i) i) as [Ep|Hnp].
      * rewrite (val_inv_pit ds 0 _ _ i _ V Ep). unfold hand_f. rewrite Hdr. rewrite Hinit by auto. lia.
      * destruct (val_inv_step ds 0 _ _ i _ V Hnp) as (v & _ & E). rewrite E. unfold hand_f. rewrite Hdr.
        rewrite Hinit by auto. lia.
    + rewrite (val_inv_pit ds 0 _ _ i _ V Ep). unfold hand_f. rewrite Ep, Hinit by auto.
      destruct (nth i drain false); lia.
  - destruct (Hgo 0%nat ltac:(lia)) as [Hdr Hnp]. simpl in Hdr, Hnp.
    assert (Hd : In (dsf ds i) sq) by (apply topo_closed; auto).
    pose proof (H1 i Hi) as V. destruct (val_inv_step ds 0 _ _ i _ V Hnp) as (v & Hv & E). rewrite E.
    rewrite (val_fun ds 0 _ _ _ _ _ Hv (H1 _ Hd)).
    unfold hand_f at 1. rewrite Hdr. rewrite (IH (dsf ds i) Hd); [lia| |exact Hstop].
    intros m Hlt. apply (Hgo (S m)). lia.
Qed.
End DownWalk.

(* ---------- floodplains ---------- *)
Section Floodplain.
Variable ds : list nat.
Variable sq : list nat.
Hypothesis Ht : topo ds sq.
Variable stream : list bool.
Variables hmax elv : list Z.
Notation n := (size ds).
Notation S i := (nth i stream false).
Notation z i := (nth i elv 0).

Let init := fold_left (fun a i => upd a i (0, -9999, -9999)) sq (repeat (-1, -9999, -9999) (length ds)).
Let T := sweep_down ds (0, 0, 0) (fp_f ds stream hmax elv) sq init.
Definition flag_of (T : list (Z * Z * Z)) (i : nat) : Z := fst (fst (nth i T (0, 0, 0))).

(* s is the first stream cell met walking downstream from i (i included) *)
Inductive first_stream : nat -> nat -> Prop :=
| fs_here i : S i = true -> first_stream i i
| fs_down i s : S i = false -> dsf ds i <> i -> first_stream (dsf ds i) s -> first_stream i s.

Lemma init_in i : In i sq -> nth i init (0, 0, 0) = (0, -9999, -9999).
Proof.
  intros Hi. unfold init.
  assert (Hb : forall x, In x sq -> (x < length ds)%nat) by (intros x Hx; destruct (topo_valid ds sq x Ht Hx); auto).
  rewrite (nth_indep _ (0, 0, 0) (-1, -9999, -9999)) by (rewrite init_fold_length, repeat_length; auto).
  rewrite (init_fold_nth sq (-1, -9999, -9999) (0, -9999, -9999) (length ds) i Hb (Hb i Hi)).
  destruct (in_dec Nat.eq_dec i sq); [auto|contradiction].
Qed.

Lemma T_val i : In i sq -> val ds (0, 0, 0) (fp_f ds stream hmax elv) init i (nth i T (0, 0, 0)).
Proof.
  intros Hi. assert (Hli : length init = n) by (unfold init; rewrite init_fold_length, repeat_length; reflexivity).
  destruct (sweep_down_spec ds (0, 0, 0) (fp_f ds stream hmax elv) sq init Hli Ht) as [H1 _]. apply H1; auto.
Qed.

(* a flagged cell carries the elevation and the threshold of the first stream cell downstream *)
Lemma flagged_carries i : In i sq -> forall f z0 h0, nth i T (0, 0, 0) = (f, z0, h0) ->
  (f = 0 \/ f = 1) /\ (f = 1 -> exists s, first_stream i s /\ z0 = z s /\ h0 = nth s hmax 0).
Proof.
  intros Hi. pose proof (T_val i Hi) as V.
  assert (G : forall j v, val ds (0, 0, 0) (fp_f ds stream hmax elv) init j v -> In j sq ->
              forall f z0 h0, v = (f, z0, h0) ->
              (f = 0 \/ f = 1) /\ (f = 1 -> exists s, first_stream j s /\ z0 = z s /\ h0 = nth s hmax 0)).
  { clear i Hi V. induction 1 as [j Hp|j v Hnp Hv IH]; intros Hj f z0 h0 E; unfold fp_f in E.
    - destruct (S j) eqn:Es.
      + inversion E; subst. split; auto. intros _. exists j. split; [apply fs_here; auto|auto].
      + rewrite (init_in j Hj) in E. simpl in E. inversion E; subst. split; auto. intros; lia.
    - destruct (S j) eqn:Es.
      + inversion E; subst. split; auto. intros _. exists j. split; [apply fs_here; auto|auto].
      + destruct v as [[f' z'] h']. 
        assert (Hd : In (dsf ds j) sq) by (apply topo_closed; auto).
        destruct (IH Hd f' z' h' eq_refl) as [Hf01 Hcar].
        destruct ((f' =? 1) && (z j - z' <=? h')) eqn:Ec.
        * inversion E; subst. apply andb_true_iff in Ec. destruct Ec as [Ef _]. apply Z.eqb_eq in Ef.
          split; auto. intros _. destruct (Hcar Ef) as (s & Hs & Hz & Hh). exists s. split; auto.
          apply fs_down; auto.
        * rewrite (init_in j Hj) in E. inversion E; subst. split; auto. intros; lia. }
  intros f z0 h0 E. apply (G i _ V Hi). exact E.
Qed.

(* the floodplain flag is set exactly for stream cells, and for cells whose downstream cell is flagged and
   whose height above the first stream cell downstream does not exceed that stream cell's threshold *)
Theorem floodplain_spec i : In i sq ->
  (flag_of T i = 1 <->
   S i = true \/
   (S i = false /\ dsf ds i <> i /\ flag_of T (dsf ds i) = 1 /\
    exists s, first_stream (dsf ds i) s /\ z i - z s <= nth s hmax 0)).
Proof.
  intros Hi. pose proof (T_val i Hi) as V. unfold flag_of.
  destruct (Nat.eq_dec (dsf ds i) i) as [Hp|Hnp].
  - rewrite (val_inv_pit ds _ _ _ i _ V Hp). unfold fp_f.
    destruct (S i) eqn:Es; simpl.
    + split; auto.
    + rewrite (init_in i Hi). simpl. split; [lia|]. intros [H|(_ & H & _)]; [discriminate|contradiction].
  - destruct (val_inv_step ds _ _ _ i _ V Hnp) as (v & Hv & E). rewrite E.
    assert (Hd : In (dsf ds i) sq) by (apply topo_closed; auto).
    rewrite (val_fun ds _ _ _ _ _ _ Hv (T_val _ Hd)).
    destruct (nth (dsf ds i) T (0, 0, 0)) as [[f' z'] h'] eqn:Ed.
    destruct (flagged_carries (dsf ds i) Hd f' z' h' Ed) as [Hf01 Hcar].
    unfold fp_f. destruct (S i) eqn:Es; cbn [fst].
    + split; auto.
    + destruct (Z.eqb_spec f' 1) as [Ef|Ef]; cbn [andb].
      * destruct (Hcar Ef) as (s & Hs & Hz & Hh). subst z' h'.
        destruct (Z.leb_spec (z i - z s) (nth s hmax 0)) as [Hle|Hgt]; cbn [fst].
        -- split; [intros _|auto]. right. repeat split; auto. exists s. split; auto.
        -- rewrite (init_in i Hi). cbn [fst]. split; [lia|].
           intros [H|(_ & _ & _ & s' & Hs' & Hle)]; [discriminate|].
           assert (s' = s).
           { clear -Hs Hs'. revert s' Hs'. induction Hs as [j Hj|j s Hj Hn Hs IH]; intros s' Hs'.
             - inversion Hs'; subst; auto. congruence.
             - inversion Hs'; subst; [congruence|]. apply IH. auto. }
           subst. lia.
      * rewrite (init_in i Hi). cbn [fst]. split; [lia|].
        intros [H|(_ & _ & Hf & _)]; [discriminate|]. simpl in Hf. contradiction.
Qed.

(* cells outside the order are marked -1 *)
Theorem floodplain_outside i : (i < n)%nat -> ~ In i sq -> flag_of T i = -1.
Proof.
  intros Hi Hn. assert (Hli : length init = n) by (unfold init; rewrite init_fold_length, repeat_length; reflexivity).
  destruct (sweep_down_spec ds (0, 0, 0) (fp_f ds stream hmax elv) sq init Hli Ht) as [_ H2].
  unfold flag_of, T. rewrite H2 by auto. unfold init.
  assert (Hb : forall x, In x sq -> (x < length ds)%nat) by (intros x Hx; destruct (topo_valid ds sq x Ht Hx); auto).
  rewrite (nth_indep _ (0, 0, 0) (-1, -9999, -9999)) by (rewrite init_fold_length, repeat_length; auto).
  rewrite (init_fold_nth sq (-1, -9999, -9999) (0, -9999, -9999) (length ds) i Hb Hi).
  destruct (in_dec Nat.eq_dec i sq); [contradiction|reflexivity].
Qed.
End Floodplain.
