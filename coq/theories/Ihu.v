(* Model: upscale.ihu with its default options (minlen_ratio = minupa_ratio = 0.25, niter = 5, opt_rivlen, min_error,
   pit_out_of_cell = 2): ihu_nextidx's list of disconnected cells, ihu_relocate_outlets, next_outlet, outlet_pix, new_outlet,
   ihu_optimize_rivlen, ihu_minimize_error, upscale_check, written statement by statement after the Python.

   Conventions (those of Upscale.v): the fine network is `sds` (nodata = nsub = length sds), coarse arrays use nc = nrow * ncol
   as missing value, the effective-area map `ea` is an input, upstream areas are integers.  minlen = cs / 4 and minupa = cs^2 / 4
   are rationals: every comparison with them is scaled by 4.  `streams` is a list of Z (-9 nodata, -1 stream, >= 0 the cell
   whose outlet pixel this is).  np.argsort is modelled as a STABLE sort (numpy leaves the order of ties unspecified, and
   its AVX512 argsort is not stable even for 4 elements: the reference runs replace it by kind="stable").
   While-loops are Fixpoints with fuel; when the fuel of a walk along the fine network runs out (impossible on loop-free
   networks) the error flag is set and up_ihu returns [nc + 1] (= ERR) as coarse network; a failing Python `assert` gives
   [nc + 2].  Arrays are read with `nth` (no Python wrap-around of the index -1: the instrumented implementation never
   uses a negative index).  The coarse-network walk of ihu_minimize_error (`for j in range(max_dist + 1)`, 10^6
   iterations when the coarse network has a loop) stops without effect after nc + 2 steps.
   Validation: extract/ExtractIhu.v, extract/ihu_driver.ml (end to end), extract/ihu_unit.ml (every call of the stages and
   every iteration of loop @4A), extract/ihu_tools/; regression corpus ihu_cases.json / IhuCases.v.  No proofs here. *)
From Coq Require Import List Arith ZArith Bool.
Import ListNotations.
From PF Require Import Arr Net Elev Upscale D8Idx.

(* ---------- generic helpers ---------- *)
(* stable argsort: positions of `keys` in ascending key order, ties in position order *)
Fixpoint ins_key (k : Z) (v : nat) (l : list (Z * nat)) : list (Z * nat) :=
  match l with
  | [] => [(k, v)]
  | (k', v') :: t => if (k <? k')%Z then (k, v) :: l else (k', v') :: ins_key k v t
  end.
Definition argsort (keys : list Z) : list nat :=
  map snd (fold_left (fun acc kv => ins_key (fst kv) (snd kv) acc) (combine keys (seq 0 (length keys))) []).
(* np.unique: ascending, without duplicates *)
Fixpoint ins_uniq (x : nat) (l : list nat) : list nat :=
  match l with
  | [] => [x]
  | h :: t => if x <? h then x :: l else if x =? h then l else h :: ins_uniq x t
  end.
Definition uniq_sorted (l : list nat) : list nat := fold_left (fun acc x => ins_uniq x acc) l [].
(* list.index *)
Fixpoint index_from (x : nat) (l : list nat) (i : nat) : option nat :=
  match l with
  | [] => None
  | h :: t => if h =? x then Some i else index_from x t (S i)
  end.
(* first j >= j0 with l[j] = x *)
Definition find_from (j0 : nat) (l : list nat) (x : nat) : option nat := index_from x (skipn j0 l) j0.

(* the arrays that the iterative stages modify in place *)
Record A := mkA { a_cds : list nat;      (* idxs_ds: coarse downstream indices *)
                  a_out : list nat;      (* subidxs_out: outlet pixels *)
                  a_st : list Z;         (* streams *)
                  a_err : nat }.         (* 0 = fine, 1 = fuel exhausted, 2 = AssertionError *)
Definition set_err (a : A) (e : nat) : A := mkA (a_cds a) (a_out a) (a_st a) (if a_err a =? 0 then e else a_err a).
Definition set_cds (a : A) (i v : nat) : A := mkA (upd (a_cds a) i v) (a_out a) (a_st a) (a_err a).
Definition set_out (a : A) (i v : nat) : A := mkA (a_cds a) (upd (a_out a) i v) (a_st a) (a_err a).
Definition set_st (a : A) (i : nat) (v : Z) : A := mkA (a_cds a) (a_out a) (upd (a_st a) i v) (a_err a).

Section Ihu.
Variable sds : list nat.          (* fine downstream indices *)
Variable upa : list Z.            (* fine upstream area *)
Variable subncol cs : nat.
Variable nrow ncol : nat.         (* coarse shape *)
Let nsub := length sds.
Let nc := (nrow * ncol)%nat.
Let subnrow := (nsub / subncol)%nat.                     (* int(subidxs_ds.size / subncol) *)
Let sdf (i : nat) : nat := sd sds i.
Let cell (s : nat) : nat := sub2idx s subncol cs ncol.
Let d8 (a b : nat) : bool := in_d8 a b ncol.
Let upz (i : nat) : Z := nth i upa 0%Z.
Let cg (l : list nat) (i : nat) : nat := nth i l nc.     (* read a coarse array of coarse indices *)
Let og (l : list nat) (i : nat) : nat := nth i l nsub.   (* read a coarse array of pixels *)
Let sg (l : list Z) (i : nat) : Z := nth i l (-9)%Z.     (* read streams *)
Let us8 (cds : list nat) (idx : nat) : list nat := upstream_d8_idx cds idx nrow ncol.
Let FUEL := S nsub.

(* ---------- ihu_nextidx: the second result, idxs_fix ---------- *)
Fixpoint fix_walk (fuel : nat) (out : list nat) (idx0 subidx : nat) : bool :=
  match fuel with
  | O => false
  | S f =>
    let s1 := sdf subidx in
    let idx1 := cell s1 in
    if (og out idx1 =? s1) || (s1 =? subidx) then
      (if d8 idx0 idx1 then negb (og out idx1 =? s1) else true)
    else fix_walk f out idx0 s1
  end.
Definition ihu_fix (out : list nat) : list nat :=
  filter (fun idx0 => let s := og out idx0 in if nsub <=? s then false else fix_walk FUEL out idx0 s) (seq 0 nc).

(* ---------- upscale_check ---------- *)
Definition streams0 (out : list nat) : list Z :=
  fold_left (fun st idx => let s := og out idx in if nsub <=? s then st else upd st s (Z.of_nat idx))
            (seq 0 nc) (repeat (-9)%Z nsub).
(* result: streams, the outlet pixel / pit reached, the number of steps d, fuel-ok *)
Fixpoint chk_walk (fuel : nat) (st : list Z) (subidx d : nat) : list Z * nat * nat * bool :=
  match fuel with
  | O => (st, subidx, d, false)
  | S f =>
    let s1 := sdf subidx in
    if (0 <=? sg st s1)%Z || (s1 =? subidx) then (st, s1, d, true)
    else chk_walk f (upd st subidx (Z.max (sg st subidx) (-1))) s1 (S d)
  end.
Record Chk := mkChk { c_valid : list bool; c_st : list Z; c_fix : list nat; c_short : list nat; c_ok : bool }.
Definition upscale_check (out cds : list nat) : Chk :=
  fold_left (fun c idx0 =>
     let idx_ds := cg cds idx0 in
     if nc <=? idx_ds then c else
     let '(st, s1, d, ok) := chk_walk FUEL (c_st c) (og out idx0) 0 in
     if negb (s1 =? og out idx_ds) then
       mkChk (upd (c_valid c) idx0 false) st (c_fix c ++ [idx0]) (c_short c) (c_ok c && ok)
     else if 4 * (d + 1) <=? cs then                        (* minlen > 0 and d + 1 <= minlen *)
       mkChk (c_valid c) st (c_fix c) (c_short c ++ [idx0]) (c_ok c && ok)
     else mkChk (c_valid c) st (c_fix c) (c_short c) (c_ok c && ok))
   (seq 0 nc) (mkChk (repeat true nc) (streams0 out) [] [] true).

(* ---------- outlet_pix (all = False): pits, and edge pixels that drain out of the cell; column by column ---------- *)
Definition outlet_pix (idx : nat) : list nat :=
  let c_ul := (idx mod ncol) * cs in
  let r_ul := (idx / ncol) * cs in
  flat_map (fun ci =>
    if subncol <=? c_ul + ci then [] else
    let we := (ci =? 0) || (ci + 1 =? cs) in
    flat_map (fun ri =>
      if subnrow <=? r_ul + ri then [] else
      let ns := (ri =? 0) || (ri + 1 =? cs) in
      let s := (r_ul + ri) * subncol + c_ul + ci in
      let s1 := sdf s in
      if s =? s1 then [s]
      (* a nodata pixel has subidx1 = -1, and subidx_2_idx(-1) is negative, hence different from idx *)
      else if (we || ns) && (if nsub <=? s1 then true else negb (cell s1 =? idx)) then [s]
      else []) (seq 0 cs)) (seq 0 cs).

(* ---------- next_outlet: (subidx1, idx1, outlet) ---------- *)
Fixpoint next_outlet (fuel : nat) (out : list nat) (subidx : nat) : option (nat * nat * bool) :=
  match fuel with
  | O => None
  | S f =>
    let s1 := sdf subidx in
    let idx1 := cell s1 in
    let outlet := s1 =? og out idx1 in
    if outlet || (s1 =? subidx) then Some (s1, idx1, outlet) else next_outlet f out s1
  end.

(* ---------- new_outlet ---------- *)
(* walk to the first outlet pixel (streams >= 0) or pit: (last subidx, subidx_ds, path in reverse order) *)
Fixpoint no_walk (fuel : nat) (st : list Z) (subidx : nat) (rpath : list nat) : option (nat * nat * list nat) :=
  match fuel with
  | O => None
  | S f =>
    let s1 := sdf subidx in
    if (0 <=? sg st s1)%Z || (subidx =? s1) then Some (subidx, s1, s1 :: rpath)
    else no_walk f st s1 (s1 :: rpath)
  end.
(* tgt = the optional argument subidx1 *)
Definition new_outlet (a : A) (idx0 subidx0 : nat) (tgt : option nat) : A * bool :=
  let st := upd (a_st a) subidx0 (-1)%Z in
  (* upa0 is kept multiplied by 4 (minupa = cs^2 / 4) *)
  let '(upa0, best, ok) :=
    fold_left (fun (acc : Z * option (nat * nat * list nat) * bool) s =>
      let '(upa0, best, ok) := acc in
      if negb (sg st s =? -9)%Z || (4 * upz s <=? upa0)%Z || (nsub <=? sdf s) then acc
      else match no_walk FUEL st s [] with
           | None => (upa0, best, false)
           | Some (slast, s1, rpath) =>
             let n := length rpath in
             let idx1 := cell s1 in
             let outlet1 := match tgt with None => true | Some t => t =? s1 end in
             let outlet := (cs <? 4 * n) && d8 idx0 idx1 && negb (idx0 =? idx1) in      (* n > minlen *)
             let pit := (n =? 1) && (slast =? s1) && (idx0 =? idx1) in
             if outlet1 && (outlet || pit) then ((4 * upz s)%Z, Some (s, idx1, rev rpath), ok) else acc
           end)
      (outlet_pix idx0) (Z.of_nat (cs * cs), None, true) in
  let e := if ok then a_err a else (if a_err a =? 0 then 1 else a_err a) in
  match best with
  | Some (so, idx_ds, path0) =>
    let st1 := upd st so (Z.of_nat idx0) in
    let st2 := fold_left (fun st p => upd st p (Z.max (sg st p) (-1))) path0 st1 in
    (mkA (upd (a_cds a) idx0 idx_ds) (upd (a_out a) idx0 so) st2 e, true)
  | None => (mkA (a_cds a) (a_out a) (upd st subidx0 (Z.of_nat idx0)) e, false)
  end.

(* ---------- ihu_optimize_rivlen ---------- *)
(* one element of the inner two-element loop; the boolean is `break` *)
Definition opt_one (valid : list bool) (a : A) (idx0 : nat) : A * bool :=
  let subidx0 := og (a_out a) idx0 in
  let idx1 := cg (a_cds a) idx0 in
  if (idx1 =? idx0) || negb (nth idx1 valid true) || negb (nth idx0 valid true) then (a, false)
  else
    let us := us8 (a_cds a) idx0 in
    if forallb (fun idx => d8 idx idx1) (filter (fun idx => nth idx valid true) us) then
      let '(a1, success) := new_outlet a idx0 subidx0 None in
      if success then
        (fold_left (fun a idx =>
           if nth idx valid true then (if idx =? idx1 then set_err a 2 else set_cds a idx idx1)
           else if cg (a_cds a) idx0 =? idx then               (* loop -> undo *)
             let a := set_st a (og (a_out a) idx0) (-1)%Z in
             let a := set_st a subidx0 (Z.of_nat idx0) in
             let a := set_out a idx0 subidx0 in
             set_cds a idx0 idx1
           else a) us a1, true)
      else (a1, false)
    else (a, false).
Definition optimize_rivlen (valid : list bool) (short : list nat) (a : A) : A :=
  fold_left (fun a i =>
     let second := cg (a_cds a) i in                            (* the list [i, idxs_ds[i]] is built first *)
     let '(a1, brk) := opt_one valid a i in
     if brk then a1 else fst (opt_one valid a1 second)) short a.

(* ---------- ihu_minimize_error ---------- *)
(* cells with an outlet pixel downstream of the outlet pixel of idx0: (idxs, subidx, subidx_ds) *)
Fixpoint me_path (fuel : nat) (st : list Z) (idx0 subidx : nat) (idxs : list nat) : option (list nat * nat * nat) :=
  match fuel with
  | O => None
  | S f =>
    let s1 := sdf subidx in
    if s1 =? subidx then Some (idxs, subidx, s1)
    else if (0 <=? sg st s1)%Z then
      let idx1 := Z.to_nat (sg st s1) in
      let idxs' := idxs ++ [idx1] in
      if (length idxs' =? 100) || ((length idxs' =? 1) && d8 idx0 idx1) then Some (idxs', subidx, s1)
      else me_path f st idx0 s1 idxs'
    else me_path f st idx0 s1 idxs
  end.
(* for j in range(max_dist + 1): follow the coarse network from a neighbour *)
Inductive Chain := CFound (d0 : Z) | CUp | CNone.
Fixpoint me_chain (fuel : nat) (cds idxs : list nat) (idx0 idx : nat) (j max_dist : Z) : Chain :=
  match fuel with
  | O => CNone           (* in a coarse loop: the Python loop runs to its end without effect *)
  | S f =>
    if (max_dist <? j)%Z then CNone
    else match index_from idx idxs 0 with
         | Some p => CFound (Z.of_nat p + j)
         | None =>
           let idx_ds := cg cds idx in
           if idx_ds =? idx0 then CUp
           else if idx_ds =? idx then CNone
           else me_chain f cds idxs idx0 idx_ds (j + 1) max_dist
         end
  end.
Record Scan := mkScan { sc_cds : list nat; sc_dist : Z; sc_upa : Z; sc_fixed : bool; sc_hw : list nat }.
Definition me_scan (cds out idxs : list nat) (idx0 : nat) (nb : list nat) : Scan :=
  fold_left (fun s idx1 =>
    if nsub <=? og out idx1 then s else
    let u := upz (og out idx1) in
    let hor := absdiff idx1 idx0 =? 1 in
    let ver := absdiff idx1 idx0 =? ncol in
    match me_chain (S (S nc)) (sc_cds s) idxs idx0 idx1 0 (sc_dist s) with
    | CFound d0 =>
      if (d0 <? sc_dist s)%Z || ((d0 =? sc_dist s)%Z && (sc_upa s <? u)%Z) then
        let cross :=
          if hor || ver then false
          else let idxh := idx0 + idx1 mod ncol - idx0 mod ncol in
               let idxv := idx0 + (idx1 / ncol) * ncol - (idx0 / ncol) * ncol in
               (cg (sc_cds s) idxh =? idxv) || (cg (sc_cds s) idxv =? idxh) in
        if cross then s else mkScan (upd (sc_cds s) idx0 idx1) d0 u true (sc_hw s)
      else s
    | CUp => if length (us8 (sc_cds s) idx1) =? 0 then mkScan (sc_cds s) (sc_dist s) (sc_upa s) (sc_fixed s) (sc_hw s ++ [idx1])
             else s
    | CNone => s
    end) nb (mkScan cds 999999%Z 0%Z false []).
(* try to move the outlet pixel of an upstream headwater cell onto a stream towards the outlet pixel of idxs[0] *)
Fixpoint me_hw (a : A) (idxs hw : list nat) : A :=
  match hw with
  | [] => a
  | idx :: t =>
    let '(a1, fixed1) := new_outlet a idx (og (a_out a) idx) (Some (og (a_out a) (nth 0 idxs nc))) in
    if fixed1 then a1 else me_hw a1 idxs t
  end.
(* for _ in range(n): ... *)
Fixpoint me_rounds (n : nat) (a : A) (idxs : list nat) (idx0 : nat) (nb : list nat) : A :=
  match n with
  | O => a
  | S n' =>
    let s := me_scan (a_cds a) (a_out a) idxs idx0 nb in
    let a1 := mkA (sc_cds s) (a_out a) (a_st a) (a_err a) in
    if negb (sc_fixed s) && negb (length (sc_hw s) =? 0) && negb (length idxs =? 0)
    then me_rounds n' (me_hw a1 idxs (sc_hw s)) idxs idx0 nb
    else a1
  end.
Definition me_one (poc : nat) (a : A) (idx0 : nat) : A :=
  let subidx0 := og (a_out a) idx0 in
  match me_path FUEL (a_st a) idx0 subidx0 [] with
  | None => set_err a 1
  | Some (idxs, subidx, subidx_ds) =>
    let check_pit :=
      (0 <? poc) && (subidx_ds =? subidx) &&
      (let idx1 := cell subidx_ds in
       (absdiff (idx1 mod ncol) (idx0 mod ncol) <=? poc) && (absdiff (idx1 / ncol) (idx0 / ncol) <=? poc)) in
    if check_pit && ((subidx_ds =? subidx0) || (length idxs =? 0)) then
      (* outlet pixel := the pit (possibly outside the cell), the cell becomes a pit *)
      let a := set_st a (og (a_out a) idx0) (-1)%Z in
      let a := set_st a subidx_ds (Z.of_nat idx0) in
      let a := set_cds a idx0 idx0 in
      set_out a idx0 subidx_ds
    else
      let nb := d8_idx idx0 nrow ncol in
      let '(a1, fixed) :=
        if forallb (fun i => negb (cg (a_cds a) i =? idx0)) nb then new_outlet a idx0 subidx0 None else (a, false) in
      if fixed then a1 else me_rounds 2 a1 idxs idx0 nb
  end.
Definition minimize_error (fixl : list nat) (poc : nat) (a : A) : A :=
  let seq1 := argsort (map (fun i => upz (og (a_out a) i)) fixl) in
  fold_left (fun a i0 => me_one poc a (nth i0 fixl nc)) (rev seq1) a.

(* ---------- ihu_relocate_outlets ---------- *)
(* STEP 1: the downstream trace: (idxs_lst, subidxs_lst, subidx at the end) *)
Fixpoint rl_trace (fuel : nat) (cds out : list nat) (subidx idx0 idx_ds0 : nat) (il sl : list nat)
  : option (list nat * list nat * nat) :=
  match fuel with
  | O => None
  | S f =>
    let s1 := sdf subidx in
    let idx1 := cell s1 in
    let pit := s1 =? subidx in
    if pit || negb (idx0 =? idx1) then
      let stop := if pit then true
                  else if subidx =? og out idx_ds0 then negb (memb idx_ds0 il) else false in
      let app := negb (nc <=? cg cds idx0) in
      let il' := if app then il ++ [idx0] else il in
      let sl' := if app then sl ++ [subidx] else sl in
      let idx_ds0' := if subidx =? og out idx0 then cg cds idx0 else idx_ds0 in
      if stop then Some (il', sl', subidx) else rl_trace f cds out s1 idx1 idx_ds0' il' sl'
    else rl_trace f cds out s1 idx0 idx_ds0 il sl
  end.
(* STEP 2: tributary cells *)
Definition rl_tribs (cds out : list nat) (idx00 : nat) (il sl : list nat) : list nat :=
  flat_map (fun idx_ds => filter (fun idx0 => negb (memb (og out idx0) sl || (idx0 =? idx00))) (us8 cds idx_ds))
           (uniq_sorted il).
(* STEP 3: first and last alternative outlet pixel to which a tributary cell connects: (j0, j1, connected) *)
Fixpoint rl_conn (fuel : nat) (sl : list nat) (idx0 subidx idx ii j0 j1 : nat) (connected : bool)
  : option (nat * nat * bool) :=
  match fuel with
  | O => None
  | S f =>
    if 10 <? ii then Some (j0, j1, connected) else
    let s1 := sdf subidx in
    let idx1 := cell s1 in
    if (subidx =? s1) || negb (idx =? idx1) then
      let ii' := if connected then ii else S ii in
      let '(j0', j1', c') :=
        match find_from j0 sl subidx with
        | Some j => if negb connected then (j, j, true) else if d8 idx0 idx then (j0, j, true) else (j0, j1, true)
        | None => (j0, j1, connected)
        end in
      if (j1' + 1 =? length sl) || (subidx =? s1) then Some (j0', j1', c')
      else rl_conn f sl idx0 s1 idx1 ii' j0' j1' c'
    else rl_conn f sl idx0 s1 idx1 ii j0 j1 connected
  end.

(* STEP 4 state.  chg_ds = zip(idx0_lst, idx_ds0_lst), chg_out = zip(idx_out_lst, subidx0_out_lst); idx_ds_lst is
   write-only in the Python and is left out. *)
Record S4 := mkS4 { s_cds : list nat; s_out : list nat; s_bott : list nat; s_next : bool;
                    s_chg_ds : list (nat * nat); s_chg_out : list (nat * nat);
                    s_idx0 : nat; s_j0 : nat; s_k0 : nat; s_idx1 : nat; s_ok : bool }.
Definition in_out (s : S4) (i : nat) : bool := memb i (map fst (s_chg_out s)).
Definition in_ds (s : S4) (i : nat) : bool := memb i (map fst (s_chg_ds s)).
(* if idxs_ds[i] != v: log and store *)
Definition s4_set_ds (s : S4) (i v : nat) : S4 :=
  if cg (s_cds s) i =? v then s
  else mkS4 (upd (s_cds s) i v) (s_out s) (s_bott s) (s_next s) (s_chg_ds s ++ [(i, cg (s_cds s) i)]) (s_chg_out s)
            (s_idx0 s) (s_j0 s) (s_k0 s) (s_idx1 s) (s_ok s).
(* if v != subidxs_out[i]: log and store *)
Definition s4_set_out (s : S4) (i v : nat) : S4 :=
  if v =? og (s_out s) i then s
  else mkS4 (s_cds s) (upd (s_out s) i v) (s_bott s) (s_next s) (s_chg_ds s) (s_chg_out s ++ [(i, og (s_out s) i)])
            (s_idx0 s) (s_j0 s) (s_k0 s) (s_idx1 s) (s_ok s).
Definition s4_unroll (s : S4) : S4 :=
  let cds' := fold_left (fun l p => upd l (fst p) (snd p)) (rev (s_chg_ds s)) (s_cds s) in
  let out' := fold_left (fun l p => upd l (fst p) (snd p)) (s_chg_out s) (s_out s) in
  mkS4 cds' out' (s_bott s) (s_next s) (s_chg_ds s) (s_chg_out s) (s_idx0 s) (s_j0 s) (s_k0 s) (s_idx1 s) (s_ok s).
Definition s4_bottleneck (s : S4) (b : nat) : S4 :=           (* nextiter = True; bottleneck.append if new *)
  mkS4 (s_cds s) (s_out s) (if memb b (s_bott s) then s_bott s else s_bott s ++ [b]) true (s_chg_ds s) (s_chg_out s)
       (s_idx0 s) (s_j0 s) (s_k0 s) (s_idx1 s) (s_ok s).
Definition s4_fail (s : S4) : S4 :=
  mkS4 (s_cds s) (s_out s) (s_bott s) (s_next s) (s_chg_ds s) (s_chg_out s) (s_idx0 s) (s_j0 s) (s_k0 s) (s_idx1 s) false.

(* @4D: connect the tributary cell idx0 to the next outlet pixel *)
Fixpoint rl_trib (fuel : nat) (s : S4) (idx0 subidx_ds0 subidx idx_ds0 : nat) (path : list nat) : S4 :=
  match fuel with
  | O => s4_fail s
  | S f =>
    let s1 := sdf subidx in
    let idx_ds := cell s1 in
    let outlet := s1 =? og (s_out s) idx_ds in
    let pit := s1 =? subidx in
    let idx_ds_edit := in_out s idx_ds0 in
    if outlet || pit then
      let idx_ds0_edit := in_ds s idx0 || in_out s (cg (s_cds s) idx0) in
      let ind8 := d8 idx0 idx_ds in
      if (negb ind8 && idx_ds0_edit) || (negb outlet && pit) then s4_bottleneck s (cg (s_cds s) idx0)
      else if ind8 then s4_set_ds s idx0 idx_ds
      else s
    else
      (* move the outlet pixel of the headwater cell idx_ds0 onto the path of the tributary: Some = break *)
      let moved : option S4 :=
        if negb (idx_ds0 =? idx_ds) && negb (idx_ds0 =? idx0) && memb subidx_ds0 path && negb idx_ds_edit && d8 idx0 idx_ds0
        then
          match next_outlet FUEL (s_out s) subidx with
          | None => Some (s4_fail s)
          | Some (_, idx_ds00, outlet0) =>
            if (length (us8 (s_cds s) idx_ds0) =? 0) && outlet0 && negb (in_out s idx_ds00)
               && negb (idx_ds0 =? idx_ds00) && d8 idx_ds0 idx_ds00
            then Some (s4_set_out (s4_set_ds (s4_set_ds s idx0 idx_ds0) idx_ds0 idx_ds00) idx_ds0 subidx)
            else None
          end
        else None in
      match moved with
      | Some s' => s'
      | None => rl_trib f s idx0 subidx_ds0 s1 idx_ds (s1 :: path)
      end
  end.

Section Step4.
Variable il sl : list nat.               (* idxs_lst, subidxs_lst *)
Variable us0 sds0 conn conn1 : list nat. (* idxs_us0, subidxs_ds0, idxs_us_conn, idxs_us_conn1 (all sorted by seq1) *)
Let noutlets := length sl.

(* @4C *)
Definition rl_main_tribs (s : S4) (ks : list nat) : S4 :=
  fold_left (fun s k =>
    let idx0 := nth k us0 nc in
    if in_out s idx0 then s
    else rl_trib FUEL s idx0 (nth k sds0 nsub) (og (s_out s) idx0) idx0 []) ks s.
(* @4E: k0 *)
Fixpoint rl_drop (s : S4) (j : nat) (ks : list nat) (k0 : nat) : nat :=
  match ks with
  | [] => k0
  | k :: t =>
    let idx_ds0 := cg (s_cds s) (nth k us0 nc) in
    if negb (memb idx_ds0 (skipn j il)) && negb (in_out s idx_ds0) then rl_drop s j t k else k0
  end.
(* for jj in range(j + 1, noutlets) *)
Fixpoint rl_nextd8 (s : S4) (idx0 jj : nat) (ils sls : list nat) (acc : bool) : bool :=
  match ils, sls with
  | idx :: it, sx :: st' =>
    if in_out s idx || memb idx (s_bott s) then rl_nextd8 s idx0 (S jj) it st' acc
    else
      let acc' := acc || d8 idx0 idx in
      if og (s_out s) idx =? sx then acc' else rl_nextd8 s idx0 (S jj) it st' acc'
  | _, _ => acc
  end.
(* @4A: one alternative outlet pixel of the trace *)
Definition rl_step (s : S4) (j : nat) : S4 :=
  if s_next s then s else
  let subidx_out1 := nth j sl nsub in
  let idx1 := nth j il nc in
  let idx0 := s_idx0 s in
  let s := mkS4 (s_cds s) (s_out s) (s_bott s) (s_next s) (s_chg_ds s) (s_chg_out s) (s_idx0 s) (s_j0 s) (s_k0 s) idx1 (s_ok s) in
  let isd8 := if in_out s idx1 || memb idx1 (s_bott s) then false else d8 idx0 idx1 in
  let ks := filter (fun k => (s_k0 s <=? k) && (s_j0 s <=? nth k conn 0) && (nth k conn 0 <=? j)) (seq 0 (length conn)) in
  let lats := negb (length ks =? 0) in
  let nextlats := lats && forallb (fun k => j <? nth k conn1 0) ks in
  let moved := negb (og (s_out s) idx1 =? subidx_out1) in
  let nextd8 := moved && rl_nextd8 s idx0 (S j) (skipn (S j) il) (skipn (S j) sl) false in
  if negb isd8 && negb nextd8 then
    s4_unroll (mkS4 (s_cds s) (s_out s) (s_bott s) true (s_chg_ds s) (s_chg_out s) (s_idx0 s) (s_j0 s) (s_k0 s) (s_idx1 s) (s_ok s))
  else if (negb lats && nextd8) || (nextlats && nextd8) then s
  else if (isd8 && lats) || (isd8 && negb nextd8) then
    let s := s4_set_ds s idx0 idx1 in
    let s := s4_set_out s idx1 subidx_out1 in
    let s := rl_main_tribs s ks in
    let s := mkS4 (s_cds s) (s_out s) (s_bott s) (s_next s) (s_chg_ds s) (s_chg_out s) idx1 (S j) (s_k0 s) (s_idx1 s) (s_ok s) in
    if s_next s then s4_unroll s else s
  else if lats then
    mkS4 (s_cds s) (s_out s) (s_bott s) (s_next s) (s_chg_ds s) (s_chg_out s) (s_idx0 s) (s_j0 s) (rl_drop s j ks (s_k0 s))
         (s_idx1 s) (s_ok s)
  else s.
(* while len(bottleneck) > nbottlenecks *)
Fixpoint rl_passes (fuel : nat) (cds out bott : list nat) (idx00 idx1 : nat) (ok : bool) : S4 :=
  let s := fold_left rl_step (seq 0 noutlets) (mkS4 cds out bott false [] [] idx00 0 0 idx1 ok) in
  match fuel with
  | O => s4_fail s
  | S f => if length bott <? length (s_bott s) then rl_passes f (s_cds s) (s_out s) (s_bott s) idx00 (s_idx1 s) (s_ok s) else s
  end.
End Step4.

(* STEP 3 for one tributary cell: (first, last alternative outlet pixel, fuel-ok) *)
Definition rl_conn_of (out sl : list nat) (idx0 : nat) : nat * nat * bool :=
  match rl_conn FUEL sl idx0 (sdf (og out idx0)) idx0 0 0 0 false with
  | None => (0, 0, false)
  | Some (j0, j1, true) => (j0, j1, true)
  | Some (_, _, false) => (length sl - 1, length sl - 1, true)   (* not connected: the last alternative outlet pixel *)
  end.

Definition rl_one (a : A) (idx00 : nat) : A :=
  let cds := a_cds a in
  let out := a_out a in
  let subidx := sdf (og out idx00) in
  match rl_trace FUEL cds out subidx (cell subidx) (cg cds idx00) [] [] with
  | None => set_err a 1
  | Some (il, sl, sub_end) =>
    if sub_end =? og out (cg cds idx00) then a          (* the trace ends at the first outlet pixel: already fixed *)
    else
      let tribs := rl_tribs cds out idx00 il sl in
      let conns := map (rl_conn_of out sl) tribs in
      let okc := forallb (fun c => snd c) conns in
      let conn_l := map (fun c => fst (fst c)) conns in
      let conn1_l := map (fun c => snd (fst c)) conns in
      (* sort the tributary cells by their first connection *)
      let seq1 := argsort (map Z.of_nat conn_l) in
      let us0 := map (fun i => nth i tribs nc) seq1 in
      let sds0 := map (fun i => og out (cg cds i)) us0 in
      let conn := map (fun i => nth i conn_l 0) seq1 in
      let conn1 := map (fun i => nth i conn1_l 0) seq1 in
      let s := rl_passes il sl us0 sds0 conn conn1 (S (S (S nc))) cds out [] idx00 0 okc in
      (* if next downstream in idx_out_lst we've created a loop *)
      let s := if in_out s (cg (s_cds s) (s_idx1 s)) then s4_unroll s else s in
      mkA (s_cds s) (s_out s) (a_st a) (if s_ok s then a_err a else if a_err a =? 0 then 1 else a_err a)
  end.
Definition relocate (fixl : list nat) (a : A) : A :=
  let seq0 := argsort (map (fun i => upz (og (a_out a) i)) fixl) in
  fold_left (fun a i0 => rl_one a (nth i0 fixl nc)) seq0 a.

(* ---------- the iterations of ihu ---------- *)
Fixpoint ihu_iter (n j : nat) (a : A) (fixl : list nat) : A :=
  match n with
  | O => a
  | S n' =>
    let a1 := relocate fixl a in
    let c := upscale_check (a_out a1) (a_cds a1) in
    let fix1 := c_fix c in
    let last := (length fix1 =? 0) || (length fix1 =? length fixl) || (j + 1 =? 5) in
    let a2 := mkA (a_cds a1) (a_out a1) (c_st c) (if c_ok c then a_err a1 else if a_err a1 =? 0 then 1 else a_err a1) in
    let a3 := optimize_rivlen (c_valid c) (c_short c) a2 in
    let a4 := minimize_error fix1 (if last then 2 else 0) a3 in
    if last then a4 else ihu_iter n' (S j) a4 fix1
  end.
End Ihu.

Definition up_ihu (sds : list nat) (upa : list Z) (subnrow subncol cs : nat) (ea : list bool)
  : list nat * list nat * (nat * nat) :=
  let nrow := cdiv subnrow cs in
  let ncol := cdiv subncol cs in
  let rep := repcell sds upa subncol cs nrow ncol (eaf ea) in
  let out := ihu_outlets sds subncol cs nrow ncol rep in
  let cds := ihu_nextidx sds subncol cs nrow ncol ea out in
  let fixl := ihu_fix sds subncol cs nrow ncol out in
  let a := ihu_iter sds upa subncol cs nrow ncol 5 0 (mkA cds out [] 0) fixl in
  ((if a_err a =? 0 then a_cds a else [nrow * ncol + a_err a]), a_out a, (nrow, ncol)).
