(* C08: Strahler and classic stream orders follow their recursive definitions. *)
From Coq Require Import List Arith ZArith Lia Bool.
Import ListNotations.
From PF Require Import Arr Net SweepDown SweepUp Rank Stream.
Local Open Scope Z_scope.

(* ---------- the tributary fold ---------- *)
Definition smax (os : list Z) : Z := fold_right Z.max 0 os.
Definition cnt (x : Z) (os : list Z) : nat := length (filter (Z.eqb x) os).

(* Strahler's rule for a junction with inflowing orders os (any number of them) *)
Definition strahler_combine (os : list Z) : Z :=
  match os with
  | [] => 1                                         (* headwater *)
  | _ => if (2 <=? cnt (smax os) os)%nat then smax os + 1 else smax os
  end.

Lemma smax_app a b : smax (a ++ b) = Z.max (smax a) (smax b).
Proof. induction a as [|x a IH]; simpl; [|rewrite IH; lia].
  assert (0 <= smax b) by (induction b; simpl; lia). lia. Qed.

Lemma smax_nonneg os : 0 <= smax os.
Proof. induction os; simpl; lia. Qed.

Lemma cnt_app x a b : cnt x (a ++ b) = (cnt x a + cnt x b)%nat.
Proof. unfold cnt. rewrite filter_app, app_length. reflexivity. Qed.

Lemma cnt_above x os : smax os < x -> cnt x os = 0%nat.
Proof. unfold cnt. induction os as [|o os IH]; simpl; auto. intros H.
  destruct (Z.eqb_spec x o); [lia|]. apply IH. lia. Qed.

Definition st_ok (st : Z * Z) (L : list Z) : Prop :=
  snd st = smax L /\ fst st = (if (2 <=? cnt (smax L) L)%nat then smax L + 1 else smax L) /\ (1 <= cnt (smax L) L)%nat.

Lemma spush_ok st L o : 1 <= o -> (L = [] /\ st = (0, 0) \/ L <> [] /\ st_ok st L) -> st_ok (spush st o) (L ++ [o]).
Proof.
  intros Ho H. destruct st as [so sm]. unfold st_ok, spush. cbn [fst snd].
  rewrite smax_app, cnt_app. simpl smax. rewrite (Z.max_l o 0) by lia.
  destruct H as [[-> E]|[Hne (H1 & H2 & H3)]].
  - inversion E; subst. simpl. rewrite Z.max_r by lia.
    destruct (Z.ltb_spec 0 o); [|lia]. unfold cnt. simpl. rewrite Z.eqb_refl. simpl. split; [auto|split; [auto|lia]].
  - cbn [fst snd] in *. subst sm. set (M := smax L) in *.
    destruct (Z.lt_trichotomy o M) as [Hlt|[Heq|Hgt]].
    + (* smaller tributary: nothing changes *)
      rewrite Z.max_l by lia.
      assert (E0 : cnt M [o] = 0%nat) by (unfold cnt; simpl; destruct (Z.eqb_spec M o); [lia|reflexivity]).
      rewrite E0, Nat.add_0_r.
      destruct (Z.ltb_spec M o); [lia|].
      split; auto. split; auto.
      destruct (Z.ltb_spec so o) as [Hso|Hso].
      * exfalso. destruct (2 <=? cnt M L)%nat; lia.
      * destruct (Z.eqb_spec o so) as [E|E]; [exfalso; destruct (2 <=? cnt M L)%nat; lia|]. simpl. exact H2.
    + (* equal to the maximum: the count goes up *)
      subst o. rewrite Z.max_l by lia.
      assert (E1 : cnt M [M] = 1%nat) by (unfold cnt; simpl; rewrite Z.eqb_refl; reflexivity).
      rewrite E1. destruct (Z.ltb_spec M M); [lia|]. split; auto. split; [|lia].
      assert (Hc : (2 <=? cnt M L + 1)%nat = true) by (apply Nat.leb_le; lia). rewrite Hc.
      destruct (Nat.leb_spec 2 (cnt M L)) as [H2c|H2c].
      * subst so. destruct (Z.ltb_spec (M + 1) M); [lia|]. destruct (Z.eqb_spec M (M + 1)); [lia|]. reflexivity.
      * subst so. destruct (Z.ltb_spec M M); [lia|]. rewrite !Z.eqb_refl. reflexivity.
    + (* a new maximum *)
      rewrite Z.max_r by lia.
      rewrite (cnt_above o L) by lia.
      assert (E1 : cnt o [o] = 1%nat) by (unfold cnt; simpl; rewrite Z.eqb_refl; reflexivity).
      rewrite E1. simpl. destruct (Z.ltb_spec M o); [|lia]. split; auto. split; [|lia].
      destruct (Z.ltb_spec so o) as [Hso|Hso]; auto.
      destruct (Z.eqb_spec o so) as [E|E].
      * destruct (Z.eqb_spec M o); [lia|]. simpl. auto.
      * exfalso. destruct (2 <=? cnt M L)%nat; lia.
Qed.

Lemma spush_fold os : forall st L, (forall o, In o os -> 1 <= o) ->
  (L = [] /\ st = (0, 0) \/ L <> [] /\ st_ok st L) ->
  let st' := fold_left spush os st in
  (L ++ os = [] /\ st' = (0, 0)) \/ (L ++ os <> [] /\ st_ok st' (L ++ os)).
Proof.
  induction os as [|o os IH]; intros st L Hpos H; simpl.
  - rewrite app_nil_r. exact H.
  - replace (L ++ o :: os) with ((L ++ [o]) ++ os) by (rewrite <- app_assoc; reflexivity).
    apply IH; [intros x Hx; apply Hpos; right; auto|].
    right. split; [destruct L; discriminate|]. apply spush_ok; auto. apply Hpos. left. auto.
Qed.

(* folding the three-way update over the tributary orders, in ANY order and for ANY number of
   tributaries, yields Strahler's rule: max, plus one iff the max is attained at least twice *)
Theorem push_fold os : (forall o, In o os -> 1 <= o) ->
  let st := fold_left spush os (0, 0) in
  (if fst st =? 0 then 1 else fst st) = strahler_combine os.
Proof.
  intros Hpos st.
  destruct (spush_fold os (0, 0) [] Hpos (or_introl (conj eq_refl eq_refl))) as [[E1 E2]|[Hne (H1 & H2 & H3)]]; simpl app in *.
  - subst os. simpl. reflexivity.
  - fold st in H1, H2. unfold strahler_combine. destruct os as [|o os']; [contradiction|].
    rewrite H2. set (M := smax (o :: os')) in *.
    assert (1 <= M).
    { assert (Hin : exists x, In x (o :: os') /\ x = M).
      { clear -H3. unfold cnt in H3. fold M in H3. destruct (filter (Z.eqb M) (o :: os')) as [|x f] eqn:E; [simpl in H3; lia|].
        assert (Hx : In x (filter (Z.eqb M) (o :: os'))) by (rewrite E; left; auto).
        apply filter_In in Hx. destruct Hx as [Hx Hm]. apply Z.eqb_eq in Hm. exists x. split; auto. }
      destruct Hin as (x & Hx & <-). apply Hpos. auto. }
    destruct (2 <=? cnt M (o :: os'))%nat.
    + destruct (Z.eqb_spec (M + 1) 0); [lia|reflexivity].
    + destruct (Z.eqb_spec M 0); [lia|reflexivity].
Qed.

(* the result only depends on the multiset of tributary orders *)
Lemma strahler_combine_perm_inv os os' : smax os = smax os' -> (forall x, cnt x os = cnt x os') -> length os = length os' ->
  strahler_combine os = strahler_combine os'.
Proof. intros H1 H2 H3. unfold strahler_combine. destruct os, os'; try discriminate; auto. rewrite H1, H2. reflexivity. Qed.

Lemma nth_repeat_same {A} (x : A) k j : nth j (repeat x k) x = x.
Proof. revert j; induction k as [|k IH]; intros [|j]; simpl; auto. Qed.
Lemma nth_repeat_lt {A} (x d : A) k j : (j < k)%nat -> nth j (repeat x k) d = x.
Proof. revert j; induction k as [|k IH]; intros [|j] H; simpl; auto; try lia. apply IH. lia. Qed.

Lemma kids_mem ds P j c : In c (kids ds P j) <-> In c P /\ dsf ds c = j /\ c <> j.
Proof. exact (kids_In ds 0%nat (fun _ x => x) (fun _ x _ => x) P j c). Qed.

(* ---------- Strahler order ---------- *)
Section Strahler.
Variable ds : list nat.
Variable sq : list nat.
Variable mask : option (list bool).
Notation n := (size ds).
Notation m := (mget mask).
Hypothesis Ht : topo ds sq.
(* the stream mask is closed downstream *)
Hypothesis Hclosed : forall i, valid ds i -> m i = true -> m (dsf ds i) = true.

Let P := rev sq.
Let F := strahler_pairs ds sq mask.
Definition so_of (F : list (Z * Z)) (j : nat) : Z := fst (nth j F (0, 0)).
Notation so := (so_of F).

Lemma nth_repeat00 j k : nth j (repeat (0, 0) k) (0, 0) = (0, 0).
Proof. revert j; induction k as [|k IH]; intros [|j]; simpl; auto. Qed.

Lemma F_nonneg j : 0 <= fst (nth j F (0, 0)) /\ 0 <= snd (nth j F (0, 0)).
Proof.
  unfold F, strahler_pairs.
  apply (sweep_up_inv ds (0, 0) (sfin mask) (sg mask) (fun p => 0 <= fst p /\ 0 <= snd p)).
  - simpl. lia.
  - intros i [a b] [H1 H2]. unfold sfin. simpl in *. destruct (m i); simpl; auto.
    destruct (a =? 0); simpl; lia.
  - intros i [a b] [c e] [H1 H2] [H3 H4]. unfold sg, spush. simpl in *. destruct (m i); simpl; auto.
    destruct (a <? c), ((c =? a) && (b =? c)), (b <? c); simpl; lia.
  - intros k. rewrite nth_repeat00. simpl. lia.
Qed.

Lemma F_char j : (j < n)%nat ->
  nth j F (0, 0) = fz (sfin mask) P j (fold_left (fun acc c => sg mask c acc (nth c F (0, 0))) (kids ds P j) (0, 0)).
Proof.
  intros Hj. unfold F, strahler_pairs. fold P.
  rewrite (sweep_up_char ds (0, 0) (sfin mask) (sg mask) P) at 1; auto.
  - rewrite nth_repeat00. reflexivity.
  - unfold P. apply topo_utopo; auto.
  - apply repeat_length.
Qed.

Lemma fold_sg_filter K : forall acc,
  fold_left (fun acc c => sg mask c acc (nth c F (0, 0))) K acc =
  fold_left spush (map so (filter m K)) acc.
Proof.
  induction K as [|c K IH]; intros acc; simpl; auto.
  unfold sg at 2. destruct (m c) eqn:E; simpl; rewrite IH; reflexivity.
Qed.

Lemma masked_in_P_pos c : In c P -> m c = true -> 1 <= so c.
Proof.
  intros Hc Hm. assert (Hcn : (c < n)%nat).
  { unfold P in Hc. rewrite <- in_rev in Hc. destruct (topo_valid ds sq c Ht Hc); auto. }
  unfold so_of. rewrite (F_char c Hcn). unfold fz. destruct (in_dec Nat.eq_dec c P); [|contradiction].
  unfold sfin. rewrite Hm. cbn [fst].
  set (X := fold_left _ _ _).
  assert (0 <= fst X).
  { unfold X. rewrite fold_sg_filter.
    assert (G : forall os acc, 0 <= fst acc -> (forall o, In o os -> 0 <= o) -> 0 <= fst (fold_left spush os acc)).
    { induction os as [|o os IH]; intros [a b] Ha Ho; simpl; auto. apply IH.
      - simpl in *. specialize (Ho o (or_introl eq_refl)).
        destruct (a <? o), ((o =? a) && (b =? o)); simpl; lia.
      - intros x Hx. apply Ho. right. auto. }
    apply G; [simpl; lia|]. intros o Ho. apply in_map_iff in Ho. destruct Ho as (x & <- & _). apply F_nonneg. }
  destruct (Z.eqb_spec (fst X) 0); lia.
Qed.

(* Strahler order: 0 outside the network or the mask; at every cell of the masked network the
   recursive definition over its inflowing (masked, direct upstream) cells: 1 at headwaters, else the
   maximum inflowing order, plus one iff attained by at least two of them -- junctions of any degree *)
Theorem strahler_spec j : (j < n)%nat ->
  so j = if in_dec Nat.eq_dec j sq then
           (if m j then strahler_combine (map so (filter m (kids ds P j))) else 0)
         else 0.
Proof.
  intros Hj. unfold so_of at 1. rewrite (F_char j Hj). unfold fz.
  assert (HU : utopo ds P) by (unfold P; apply topo_utopo; auto).
  destruct (in_dec Nat.eq_dec j sq) as [Hin|Hnin].
  - destruct (in_dec Nat.eq_dec j P) as [HinP|HninP]; [|exfalso; apply HninP; unfold P; rewrite <- in_rev; auto].
    rewrite fold_sg_filter. unfold sfin.
    destruct (m j) eqn:Em; cbn [fst].
    + apply push_fold. intros o Ho. apply in_map_iff in Ho. destruct Ho as (c & <- & Hc).
      apply filter_In in Hc. destruct Hc as [Hc Hmc]. apply (proj1 (kids_mem ds P j c)) in Hc. apply masked_in_P_pos; tauto.
    + (* a masked-out cell has no masked inflow, because the mask is downstream-closed *)
      assert (E : filter m (kids ds P j) = []).
      { destruct (filter m (kids ds P j)) as [|c l] eqn:E; auto. exfalso.
        assert (Hc : In c (filter m (kids ds P j))) by (rewrite E; left; auto).
        apply filter_In in Hc. destruct Hc as [Hc Hmc]. apply (proj1 (kids_mem ds P j c)) in Hc. destruct Hc as (HcP & Hd & _).
        rewrite <- Hd in Em. rewrite Hclosed in Em; auto; [discriminate|].
        apply (utopo_valid ds P); auto. }
      rewrite E. reflexivity.
  - destruct (in_dec Nat.eq_dec j P) as [HinP|HninP]; [exfalso; apply Hnin; unfold P in HinP; rewrite <- in_rev in HinP; auto|].
    (* nothing flows into a cell outside the order *)
    assert (E : kids ds P j = []).
    { destruct (kids ds P j) as [|c l] eqn:E; auto. exfalso.
      assert (Hc : In c (kids ds P j)) by (rewrite E; left; auto).
      apply (proj1 (kids_mem ds P j c)) in Hc. destruct Hc as (HcP & Hd & _). apply HninP. rewrite <- Hd. apply utopo_closed; auto. }
    rewrite E. reflexivity.
Qed.
End Strahler.

(* ---------- classic ("bottom up") stream order ---------- *)
Section Classic.
Variable ds : list nat.
Variable sq : list nat.
Variable mask : option (list bool).
Variable main : list nat.
Notation n := (size ds).
Notation m := (mget mask).
Hypothesis Ht : topo ds sq.
Let nup := upstream_count ds mask.
Let O := stream_order ds sq main mask.

Lemma nth_repeat0z j k : nth j (repeat 0 k) 0 = 0.
Proof. revert j; induction k as [|k IH]; intros [|j]; simpl; auto. Qed.

(* 1 at every pit; inherited unchanged by the main upstream branch; one higher on every other
   branch of a confluence (a cell with more than one masked upstream cell); 0 outside mask/network *)
Theorem classic_spec i :
  (In i sq -> m i = true -> dsf ds i = i -> nth i O 0 = 1) /\
  (In i sq -> m i = true -> dsf ds i <> i ->
     nth i O 0 = if (nth (dsf ds i) nup 0 >? 1) && negb (nth (dsf ds i) main (length ds) =? i)%nat
                 then nth (dsf ds i) O 0 + 1 else nth (dsf ds i) O 0) /\
  (In i sq -> m i = false -> nth i O 0 = 0) /\
  (~ In i sq -> nth i O 0 = 0).
Proof.
  assert (Hl : length (repeat 0 (length ds)) = n) by apply repeat_length.
  destruct (sweep_down_spec ds 0 (classic_f ds mask nup main) sq (repeat 0 (length ds)) Hl Ht) as [H1 H2].
  fold nup in H1, H2. unfold O, stream_order. fold nup.
  split; [|split; [|split]].
  - intros Hi Hm Hp. rewrite (val_inv_pit ds 0 _ _ i _ (H1 i Hi) Hp). unfold classic_f.
    rewrite Hm, Hp, Nat.eqb_refl. reflexivity.
  - intros Hi Hm Hnp. destruct (val_inv_step ds 0 _ _ i _ (H1 i Hi) Hnp) as (v & Hv & E). rewrite E.
    assert (Hd : In (dsf ds i) sq) by (apply topo_closed; auto).
    rewrite (val_fun ds 0 _ _ _ _ _ Hv (H1 _ Hd)).
    unfold classic_f. rewrite Hm. apply Nat.eqb_neq in Hnp. rewrite Hnp. reflexivity.
  - intros Hi Hm. pose proof (H1 i Hi) as V.
    destruct (Nat.eq_dec (dsf ds i) i) as [Hp|Hnp].
    + rewrite (val_inv_pit ds 0 _ _ i _ V Hp). unfold classic_f. rewrite Hm. simpl. apply nth_repeat0z.
    + destruct (val_inv_step ds 0 _ _ i _ V Hnp) as (v & Hv & E). rewrite E. unfold classic_f. rewrite Hm. simpl.
      apply nth_repeat0z.
  - intros Hi. rewrite H2 by auto. apply nth_repeat0z.
Qed.
End Classic.

(* ---------- main upstream cell ---------- *)
Section MainUp.
Variable ds : list nat.
Variable uparea : list Z.
Variable upa_min : Z.
Notation n := (size ds).
Notation ua c := (nth c uparea 0).

(* c is a direct upstream cell of d with index below k *)
Definition upk (k d c : nat) : Prop := (c < k)%nat /\ dsf ds c = d /\ c <> d.

Definition main_ok (k : nat) (st : list nat * list Z) : Prop :=
  length (fst st) = n /\ length (snd st) = n /\
  forall d, (d < n)%nat ->
    (nth d (fst st) n = n /\ nth d (snd st) 0 = upa_min /\ forall c, upk k d c -> ua c <= upa_min) \/
    (exists c0, nth d (fst st) n = c0 /\ upk k d c0 /\ nth d (snd st) 0 = ua c0 /\ upa_min < ua c0 /\
                forall c, upk k d c -> ua c <= ua c0 /\ ((c < c0)%nat -> ua c < ua c0)).

Lemma main_step_ok k st : (k < n)%nat -> main_ok k st -> main_ok (S k) (main_step ds uparea st k).
Proof.
  intros Hk (L1 & L2 & H). destruct st as [mn up]. simpl in L1, L2. unfold main_step.
  assert (Hmono : forall d c, upk (S k) d c -> upk k d c \/ (c = k /\ dsf ds k = d /\ k <> d)).
  { intros d c (H1 & H2 & H3). destruct (Nat.eq_dec c k) as [->|Hne]; [right; auto|left; split; auto; lia]. }
  destruct ((dsf ds k =? k)%nat || (n <=? dsf ds k)%nat) eqn:Eg.
  - (* pit or nodata: k is nobody's upstream cell inside the raster *)
    split; auto. split; auto. intros d Hd.
    assert (Hno : forall c, upk (S k) d c -> upk k d c).
    { intros c Hc. destruct (Hmono d c Hc) as [Hc'|(-> & E & Hne)]; auto. exfalso.
      apply orb_true_iff in Eg. destruct Eg as [Eg|Eg]; [apply Nat.eqb_eq in Eg; congruence|apply Nat.leb_le in Eg; lia]. }
    destruct (H d Hd) as [(A1 & A2 & A3)|(c0 & A1 & A2 & A3 & A4 & A5)].
    + left. repeat split; auto.
    + right. exists c0. repeat split; auto; try (destruct A2 as (B1 & B2 & B3); auto; lia); apply A5; auto.
  - apply orb_false_iff in Eg. destruct Eg as [Enp Ed]. apply Nat.eqb_neq in Enp. apply Nat.leb_gt in Ed.
    set (d0 := dsf ds k) in *.
    destruct (Z.gtb_spec (ua k) (nth d0 up 0)) as [Hgt|Hle].
    + (* k becomes the main upstream cell of d0 *)
      split; [simpl; rewrite upd_length; auto|]. split; [simpl; rewrite upd_length; auto|].
      intros d Hd. simpl fst. simpl snd. destruct (Nat.eq_dec d d0) as [->|Hne].
      * right. exists k. rewrite !nth_upd_eq by lia. split; auto. split; [split; auto|]. split; auto.
        destruct (H d0 Ed) as [(A1 & A2 & A3)|(c0 & A1 & A2 & A3 & A4 & A5)]; simpl in *.
        -- split; [lia|]. intros c Hc. destruct (Hmono d0 c Hc) as [Hc'|(-> & _)]; [|split; lia].
           specialize (A3 c Hc'). split; [lia|intros; lia].
        -- split; [lia|]. intros c Hc. destruct (Hmono d0 c Hc) as [Hc'|(-> & _)]; [|split; lia].
           destruct (A5 c Hc') as [B1 B2]. split; [lia|intros; lia].
      * rewrite !nth_upd_neq by auto.
        assert (Hno : forall c, upk (S k) d c -> upk k d c).
        { intros c Hc. destruct (Hmono d c Hc) as [Hc'|(-> & E & _)]; auto. congruence. }
        destruct (H d Hd) as [(A1 & A2 & A3)|(c0 & A1 & A2 & A3 & A4 & A5)]; simpl in *.
        -- left. repeat split; auto.
        -- right. exists c0. repeat split; auto; try (destruct A2 as (B1 & B2 & B3); auto; lia); apply A5; auto.
    + (* k does not beat the current main upstream cell of d0 *)
      split; auto. split; auto. intros d Hd. destruct (Nat.eq_dec d d0) as [->|Hne].
      * destruct (H d0 Ed) as [(A1 & A2 & A3)|(c0 & A1 & A2 & A3 & A4 & A5)]; simpl in *.
        -- left. repeat split; auto. intros c Hc. destruct (Hmono d0 c Hc) as [Hc'|(-> & _)]; auto. lia.
        -- right. exists c0. split; auto. split; [destruct A2 as (B1 & B2 & B3); split; auto; lia|].
           split; auto. split; auto. intros c Hc. destruct (Hmono d0 c Hc) as [Hc'|(-> & _)]; auto.
           split; [lia|]. intros Hlt. destruct A2 as (B1 & _). lia.
      * assert (Hno : forall c, upk (S k) d c -> upk k d c).
        { intros c Hc. destruct (Hmono d c Hc) as [Hc'|(-> & E & _)]; auto. congruence. }
        destruct (H d Hd) as [(A1 & A2 & A3)|(c0 & A1 & A2 & A3 & A4 & A5)]; simpl in *.
        -- left. repeat split; auto.
        -- right. exists c0. repeat split; auto; try (destruct A2 as (B1 & B2 & B3); auto; lia); apply A5; auto.
Qed.

Lemma main_fold_ok k : (k <= n)%nat ->
  main_ok k (fold_left (main_step ds uparea) (seq 0 k) (repeat n n, repeat upa_min n)).
Proof.
  induction k as [|k IH]; intros Hk.
  - simpl. split; [apply repeat_length|]. split; [apply repeat_length|].
    intros d Hd. left. simpl.
    assert (R1 : forall j, nth j (repeat n n) n = n) by (intros j; apply nth_repeat_same).
    assert (R2 : forall j, (j < n)%nat -> nth j (repeat upa_min n) 0 = upa_min) by (intros j Hj; apply nth_repeat_lt; auto).
    repeat split; auto. intros c (Hc & _). lia.
  - rewrite seq_S, fold_left_app. simpl. apply main_step_ok; [lia|]. apply IH. lia.
Qed.

(* the main upstream cell of d: none (= size) iff no direct upstream cell has area above upa_min;
   otherwise a direct upstream cell of maximal area, the one with the lowest index among ties *)
Theorem main_upstream_spec d : (d < n)%nat ->
  let r := nth d (main_upstream ds uparea upa_min) n in
  (r = n /\ forall c, (c < n)%nat -> dsf ds c = d -> c <> d -> ua c <= upa_min) \/
  ((r < n)%nat /\ dsf ds r = d /\ r <> d /\ upa_min < ua r /\
   forall c, (c < n)%nat -> dsf ds c = d -> c <> d -> ua c <= ua r /\ ((c < r)%nat -> ua c < ua r)).
Proof.
  intros Hd r. unfold r, main_upstream. destruct (main_fold_ok n (le_n n)) as (_ & _ & H).
  destruct (H d Hd) as [(A1 & A2 & A3)|(c0 & A1 & A2 & A3 & A4 & A5)].
  - left. split; auto. intros c Hc E Hne. apply A3. split; auto.
  - right. unfold size in *. rewrite A1. destruct A2 as (B1 & B2 & B3). repeat split; auto; apply A5; split; auto.
Qed.
End MainUp.
