(* C11: path tracing follows the network and stops exactly where specified. *)
From Coq Require Import List Arith ZArith Lia Bool.
Import ListNotations.
From PF Require Import Arr Net Trace.
Local Open Scope Z_scope.

Section TraceSpec.
Variable nxt : list nat.
Variable mask : option (list bool).
Variable maxlen : option Z.
Variable len : nat -> nat -> Z.
Notation nx := (nx nxt).
Notation stops := (stops nxt mask maxlen len).
Notation trace := (trace nxt mask maxlen len).

(* the orbit of the start cell and the length travelled after m steps *)
Fixpoint orbit (m : nat) (i : nat) : nat := match m with O => i | S m' => orbit m' (nx i) end.
Fixpoint travelled (m : nat) (i : nat) : Z :=
  match m with O => 0 | S m' => len i (nx i) + travelled m' (nx i) end.

Lemma orbit_S m i : orbit (S m) i = nx (orbit m i).
Proof. revert i; induction m as [|m IH]; intros i; simpl; auto. rewrite <- IH. reflexivity. Qed.

Lemma travelled_S m i : travelled (S m) i = travelled m i + len (orbit m i) (nx (orbit m i)).
Proof. revert i; induction m as [|m IH]; intros i; [simpl; lia|].
  change (travelled (S (S m)) i) with (len i (nx i) + travelled (S m) (nx i)).
  rewrite IH. simpl. lia. Qed.

(* The path is start, next(start), next^2(start) ... : a prefix of the orbit; it ends at the FIRST
   cell at which a stop condition holds (mask flag -- including the start cell itself --, pit / no
   next cell, or the next step would make the travelled length exceed the maximum): never earlier,
   never later; the reported length is the sum of the step lengths along the path. *)
Theorem trace_spec fuel : forall cur d0 p D, trace fuel cur d0 = Some (p, D) ->
  exists k, length p = S k /\
    (forall m, (m <= k)%nat -> nth m p 0%nat = orbit m cur) /\
    (forall m, (m < k)%nat -> stops (d0 + travelled m cur) (orbit m cur) = false) /\
    stops (d0 + travelled k cur) (orbit k cur) = true /\
    D = d0 + travelled k cur.
Proof.
  induction fuel as [|f IH]; intros cur d0 p D H; simpl in H.
  - destruct (stops d0 cur) eqn:E; [|discriminate]. inversion H; subst. exists 0%nat. simpl.
    split; auto. split; [intros m Hm; assert (m = 0)%nat by lia; subst; auto|].
    split; [intros; lia|]. rewrite Z.add_0_r. auto.
  - destruct (stops d0 cur) eqn:E.
    + inversion H; subst. exists 0%nat. simpl.
      split; auto. split; [intros m Hm; assert (m = 0)%nat by lia; subst; auto|].
      split; [intros; lia|]. rewrite Z.add_0_r. auto.
    + destruct (trace f (nx cur) (d0 + len cur (nx cur))) as [[p' D']|] eqn:Et; [|discriminate].
      inversion H; subst. destruct (IH _ _ _ _ Et) as (k & Hl & Ho & Hns & Hs & HD).
      exists (S k). simpl. split; [lia|]. split; [|split; [|split]].
      * intros [|m] Hm; auto. apply Ho. lia.
      * intros [|m] Hm; simpl; [rewrite Z.add_0_r; auto|].
        replace (d0 + (len cur (nx cur) + travelled m (nx cur))) with (d0 + len cur (nx cur) + travelled m (nx cur)) by lia.
        apply Hns. lia.
      * replace (d0 + (len cur (nx cur) + travelled k (nx cur))) with (d0 + len cur (nx cur) + travelled k (nx cur)) by lia.
        exact Hs.
      * lia.
Qed.

(* termination: if a stop condition holds after k steps, fuel k suffices *)
Theorem trace_total fuel : forall cur d0 k, (k <= fuel)%nat ->
  stops (d0 + travelled k cur) (orbit k cur) = true -> exists r, trace fuel cur d0 = Some r.
Proof.
  induction fuel as [|f IH]; intros cur d0 k Hk Hs; simpl.
  - assert (k = 0)%nat by lia. subst. simpl in Hs. rewrite Z.add_0_r in Hs. rewrite Hs. eauto.
  - destruct (stops d0 cur) eqn:E; [eauto|].
    destruct k as [|k]; [simpl in Hs; rewrite Z.add_0_r in Hs; congruence|].
    destruct (IH (nx cur) (d0 + len cur (nx cur)) k) as [[p D] Hr]; [lia| |].
    + simpl in Hs. replace (d0 + len cur (nx cur) + travelled k (nx cur)) with (d0 + (len cur (nx cur) + travelled k (nx cur))) by lia. exact Hs.
    + rewrite Hr. eauto.
Qed.

(* every visited cell is a cell of the raster (in bounds) when the start is *)
Theorem trace_in_bounds fuel cur d0 p D : (cur < length nxt)%nat -> trace fuel cur d0 = Some (p, D) ->
  forall x, In x p -> (x < length nxt)%nat.
Proof.
  revert cur d0 p D. induction fuel as [|f IH]; intros cur d0 p D Hc H x Hx; simpl in H.
  - destruct (stops d0 cur); [|discriminate]. inversion H; subst. destruct Hx as [<-|[]]; auto.
  - destruct (stops d0 cur) eqn:E.
    + inversion H; subst. destruct Hx as [<-|[]]; auto.
    + destruct (trace f (nx cur) (d0 + len cur (nx cur))) as [[p' D']|] eqn:Et; [|discriminate].
      inversion H; subst. destruct Hx as [<-|Hx]; auto.
      apply (IH (nx cur) (d0 + len cur (nx cur)) p' D); auto.
      unfold Trace.stops, at_end in E. rewrite !orb_false_iff in E. destruct E as [[_ E] _]. destruct E as [_ E].
      apply Nat.leb_gt in E. exact E.
Qed.
End TraceSpec.
