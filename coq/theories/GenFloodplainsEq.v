(* dem.floodplains, REGENERATED from the Python source (generated/GenLoops.v: gen_floodplains), equals the hand-written
   model Ops.floodplains that the theorems of C14 are about.  The source keeps drainh, drainz and fldpln in three arrays;
   the model sweeps one array of triples (fldpln, drainz, drainh).  The floats uparea, upa_min and b are not modelled:
   in the generated definition they are values of an abstract type F, and the two expressions `uparea[i] >= upa_min`
   and `uparea[i] ** b` are the abstract operations `fbool Fge` and `fval Fpow` on them; the model reads both from the
   input lists `stream` and `hmax`.  The three work arrays are allocated with the size of uparea, which is assumed to
   be the size of the network. *)
From Coq Require Import List Arith ZArith Bool Lia.
Import ListNotations.
From PF Require Import Arr Net SweepDown Ops AccuSpec.
From PFG Require Import GenLoops.
Local Open Scope Z_scope.

Definition zip3 (fp dz dh : list Z) : list (Z * Z * Z) := combine (combine fp dz) dh.

Lemma combine_upd {A B} (l : list A) (l' : list B) i x y : length l = length l' ->
  upd (combine l l') i (x, y) = combine (upd l i x) (upd l' i y).
Proof.
  revert l' i. induction l as [|a l IH]; intros [|b l'] i Hl; try discriminate; [destruct i; reflexivity|].
  destruct i as [|i]; cbn [upd combine]; [reflexivity|]. f_equal. apply IH. simpl in Hl. lia.
Qed.

Lemma zip3_upd fp dz dh i a b c : length fp = length dz -> length dz = length dh ->
  upd (zip3 fp dz dh) i (a, b, c) = zip3 (upd fp i a) (upd dz i b) (upd dh i c).
Proof.
  intros H1 H2. unfold zip3. rewrite combine_upd by (rewrite combine_length; lia).
  rewrite combine_upd by exact H1. reflexivity.
Qed.

Lemma zip3_nth fp dz dh i : length fp = length dz -> length dz = length dh ->
  nth i (zip3 fp dz dh) (0, 0, 0) = (nth i fp 0, nth i dz 0, nth i dh 0).
Proof.
  intros H1 H2. unfold zip3. rewrite combine_nth by (rewrite combine_length; lia).
  rewrite combine_nth by exact H1. reflexivity.
Qed.

Lemma zip3_repeat a b c n : zip3 (repeat a n) (repeat b n) (repeat c n) = repeat (a, b, c) n.
Proof. unfold zip3. induction n as [|n IH]; cbn [repeat combine]; [reflexivity|]. f_equal. exact IH. Qed.

Lemma zip3_fst fp dz dh : length fp = length dz -> length dz = length dh ->
  map (fun t => fst (fst t)) (zip3 fp dz dh) = fp.
Proof.
  unfold zip3. revert dz dh. induction fp as [|a fp IH]; intros [|b dz] [|c dh] H1 H2; try discriminate; [reflexivity|].
  cbn [combine map fst]. f_equal. apply IH; simpl in *; lia.
Qed.

Lemma upd_repeat {A} (x : A) n i : upd (repeat x n) i x = repeat x n.
Proof. revert i. induction n as [|n IH]; intros [|i]; cbn [repeat upd]; try reflexivity. f_equal. apply IH. Qed.

Section FP.
Variable ds : list nat.
Variable elv : list Z.
Variable F : Type.
Variable uparea : list F.
Variables upa_min b fdef : F.
Variable fbool : fop -> F -> F -> bool.
Variable fval : fop -> F -> F -> Z.
Variable stream : list bool.
Variable hmax : list Z.
Notation gstep := (gen_floodplains_step F ds (@nil nat) elv uparea upa_min b fdef fbool fval).
Notation sf := (fun i => fbool Fge (nth i uparea fdef) upa_min).
Notation hf := (fun i => fval Fpow (nth i uparea fdef) b).

Lemma gstep_sim dh dz fp i : length fp = length dz -> length dz = length dh ->
  sf i = nth i stream false -> hf i = nth i hmax 0 ->
  let r := gstep (dh, dz, fp) i in
  (length (snd r) = length (snd (fst r)) /\ length (snd (fst r)) = length (fst (fst r))) /\
  dstep ds (0, 0, 0) (fp_f ds stream hmax elv) (zip3 fp dz dh) i = zip3 (snd r) (snd (fst r)) (fst (fst r)).
Proof.
  intros H1 H2 Hs Hh. unfold gen_floodplains_step, dstep, fp_f. change (nth i ds (length ds)) with (dsf ds i).
  cbv beta in Hs, Hh. rewrite <- Hs, <- Hh. rewrite !(zip3_nth fp dz dh _ H1 H2).
  destruct (fbool Fge (nth i uparea fdef) upa_min); cbn [fst snd].
  - rewrite !upd_length. split; [split; assumption|]. apply zip3_upd; assumption.
  - destruct (nth (dsf ds i) fp 0 =? 1); cbn [andb fst snd].
    + destruct (nth i elv 0 - nth (dsf ds i) dz 0 <=? nth (dsf ds i) dh 0); cbn [fst snd].
      * rewrite !upd_length. split; [split; assumption|]. apply zip3_upd; assumption.
      * split; [split; assumption|]. rewrite <- (zip3_nth fp dz dh _ H1 H2). apply upd_same.
    + split; [split; assumption|]. rewrite <- (zip3_nth fp dz dh _ H1 H2). apply upd_same.
Qed.

Lemma fold_sim_fp P : (forall i, In i P -> sf i = nth i stream false) -> (forall i, In i P -> hf i = nth i hmax 0) ->
  forall dh dz fp, length fp = length dz -> length dz = length dh ->
  let r := fold_left gstep P (dh, dz, fp) in
  (length (snd r) = length (snd (fst r)) /\ length (snd (fst r)) = length (fst (fst r))) /\
  fold_left (dstep ds (0, 0, 0) (fp_f ds stream hmax elv)) P (zip3 fp dz dh) = zip3 (snd r) (snd (fst r)) (fst (fst r)).
Proof.
  induction P as [|i P IH]; intros Hs Hh dh dz fp H1 H2; cbn [fold_left]; [split; [split; assumption|reflexivity]|].
  destruct (gstep_sim dh dz fp i H1 H2 (Hs i (or_introl eq_refl)) (Hh i (or_introl eq_refl))) as [[L1 L2] Hsim].
  cbv zeta in L1, L2, Hsim.
  destruct (gstep (dh, dz, fp) i) as [[dh' dz'] fp'] eqn:Eg. cbn [fst snd] in *. rewrite Hsim.
  apply IH; auto; intros j Hj; [apply Hs|apply Hh]; right; exact Hj.
Qed.

Lemma init_sim n P : forall fp, length fp = n ->
  fold_left (fun a i => upd a i (0, -9999, -9999)) P (zip3 fp (repeat (-9999) n) (repeat (-9999) n)) =
  zip3 (fold_left (fun a i => upd a i 0) P fp) (repeat (-9999) n) (repeat (-9999) n).
Proof.
  induction P as [|i P IH]; intros fp Hl; cbn [fold_left]; [reflexivity|].
  rewrite zip3_upd by (rewrite ?repeat_length; auto). rewrite !upd_repeat. apply IH. rewrite upd_length. exact Hl.
Qed.
End FP.

Theorem gen_floodplains_eq : forall (F : Type) ds sq elv (uparea : list F) (upa_min b fdef : F) fbool fval stream hmax,
  length uparea = length ds ->
  (forall i, In i sq -> fbool Fge (nth i uparea fdef) upa_min = nth i stream false) ->
  (forall i, In i sq -> fval Fpow (nth i uparea fdef) b = nth i hmax 0) ->
  gen_floodplains F ds sq elv uparea upa_min b fdef fbool fval = floodplains ds sq stream hmax elv.
Proof.
  intros F ds sq elv uparea upa_min b fdef fbool fval stream hmax Hn Hs Hh.
  unfold gen_floodplains, floodplains, sweep_down. cbv zeta. rewrite Hn.
  rewrite <- zip3_repeat. rewrite (init_sim (length ds) sq) by apply repeat_length.
  set (fp0 := fold_left (fun a i => upd a i 0) sq (repeat (-1) (length ds))).
  assert (Hfp0 : length fp0 = length ds).
  { unfold fp0. clear. generalize (repeat (-1) (length ds)) (repeat_length (-1) (length ds)).
    induction sq as [|i P IH]; intros l Hl; cbn [fold_left]; [exact Hl|]. apply IH. rewrite upd_length. exact Hl. }
  destruct (fold_sim_fp ds elv F uparea upa_min b fdef fbool fval stream hmax sq Hs Hh
              (repeat (-9999) (length ds)) (repeat (-9999) (length ds)) fp0) as [[L1 L2] Hsim];
    [rewrite repeat_length; exact Hfp0|rewrite !repeat_length; reflexivity|].
  cbv zeta in L1, L2, Hsim.
  rewrite (fold_ext _ (gen_floodplains_step F ds [] elv uparea upa_min b fdef fbool fval)) by (intros; reflexivity).
  rewrite Hsim. symmetry. apply zip3_fst; assumption.
Qed.

Print Assumptions gen_floodplains_eq.
