From Coq Require Import List Arith ZArith Bool.
Import ListNotations.
From PF Require Import Arr Net Fill Glue.
Open Scope Z_scope.

Definition pair_out (l : list (Z * nat)) : list (list Z) :=
  [map fst l; map (fun p => Z.of_nat (snd p)) l].

Definition run_c05 (k : Z) (args : list (list Z)) : list (list Z) :=
  if k =? 501 then   (* basins.basins(ds, outs, seq, ids) *)
    let ds := net_in (arg 0 args) in
    let outs := ns (arg 1 args) in
    let ids := if argz 3 args =? 0 then default_ids (length outs) else arg 4 args in
    [basins ds outs (ns (arg 2 args)) ids]
  else if k =? 502 then pair_out (region_outlets (net_in (arg 0 args)) (arg 1 args) (ns (arg 2 args)))
  else if k =? 503 then  (* FlwdirRaster.basins(idxs, ids): gate then kernel *)
    let ds := net_in (arg 0 args) in
    let outs := ns (arg 2 args) in
    let hasids := negb (argz 3 args =? 0) in
    if negb (basins_gate outs hasids (arg 4 args)) then [[1]] else
    let ids := if hasids then arg 4 args else default_ids (length outs) in
    [[0]; basins ds outs (ns (arg 1 args)) ids]
  else if k =? 504 then [fillnodata_upstream (net_in (arg 0 args)) (ns (arg 1 args)) (arg 2 args) (argz 3 args)]
  else [[-999]].
