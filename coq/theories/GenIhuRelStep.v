(* ihu_relocate_outlets, STEP 4: one alternative outlet pixel of the trace (@4A): generated step9 = Ihu.rl_step *)
From Coq Require Import List Arith ZArith Bool Lia.
Import ListNotations.
From PF Require Import Arr Upscale D8Idx Ihu GenUpscaleBaseEq GenIhuBaseEq GenIhuOptEq GenIhuRelDefs GenIhuRelAux GenIhuRelTrib.
From PFG Require Import GenUpscale GenIhu.

Lemma nth_map_Z (l : list nat) i : nth i (map Z.of_nat l) 0%Z = Z.of_nat (nth i l 0%nat).
Proof. change 0%Z with (Z.of_nat 0). apply map_nth. Qed.

Lemma zgtb_nat a b : (Z.of_nat a >? Z.of_nat b)%Z = (b <? a)%nat.
Proof. rewrite Z.gtb_ltb. destruct (Nat.ltb_spec b a); [apply Z.ltb_lt|apply Z.ltb_ge]; lia. Qed.

Lemma forallb_id_map' {X : Type} (f : X -> bool) : forall l, forallb (fun b => b) (map f l) = forallb f l.
Proof. induction l as [|x l IH]; cbn; [reflexivity|rewrite IH; reflexivity]. Qed.

Lemma lats_eq {X : Type} (ks : list X) : (Z.of_nat (length ks) >? 0)%Z = negb (length ks =? 0)%nat.
Proof. destruct ks; reflexivity. Qed.

Lemma nextlats_eq (ks conn1 : list nat) j :
  forallb (fun b_ : bool => b_) (map (fun x_ : Z => (x_ >? Z.of_nat j)%Z) (map (fun i_ : nat => nth i_ (map Z.of_nat conn1) 0%Z) ks))
  = forallb (fun k => (j <? nth k conn1 0)%nat) ks.
Proof. induction ks as [|k ks IH]; cbn [map forallb]; [reflexivity|]. rewrite IH, nth_map_Z, zgtb_nat. reflexivity. Qed.

Lemma zsucc_nat j : (Z.of_nat j + 1)%Z = Z.of_nat (S j).
Proof. lia. Qed.

Section Step.
Variable sds : list nat.
Variables subncol cs nrow ncol : nat.
Variables il sl us0 sds0 conn conn1 : list nat.
Notation nsub := (length sds).
Notation nc := (nrow * ncol)%nat.
Notation shape := (Z.of_nat nrow, Z.of_nat ncol).
Notation step9 := (gen_ihu_ihu_relocate_outlets_step9 (S nsub) sds shape (Z.of_nat cs) nsub nc (Z.of_nat subncol) (Z.of_nat ncol)
                     il sl (length sl) (map Z.of_nat conn) us0 sds0 (map Z.of_nat conn1)).
Notation rstep := (rl_step sds subncol cs nrow ncol il sl us0 sds0 conn conn1).

Lemma rel_step_next s j g1 g2 dsl : s_next s = true -> s_ok s = true ->
  option_map prj15 (step9 (enc15 s g1 g2 dsl) j) = (let s' := rstep s j in if s_ok s' then Some (core15 s') else None).
Proof.
  intros Hn Hok. unfold gen_ihu_ihu_relocate_outlets_step9, rl_step, enc15. cbv zeta. rewrite Hn. cbn. rewrite Hok. unfold core15, core. rewrite Hn. reflexivity.
Qed.

Lemma set_both cds out bott cd co i0 j0 k0 idx1 sub1 :
  s4_set_out sds (s4_set_ds nrow ncol (mkS4 cds out bott false cd co i0 j0 k0 idx1 true) i0 idx1) idx1 sub1
  = mkS4 (if (nth i0 cds nc =? idx1)%nat then cds else upd cds i0 idx1)
         (if (nth idx1 out nsub =? sub1)%nat then out else upd out idx1 sub1) bott false
         (if (nth i0 cds nc =? idx1)%nat then cd else cd ++ [(i0, nth i0 cds nc)])
         (if (nth idx1 out nsub =? sub1)%nat then co else co ++ [(idx1, nth idx1 out nsub)]) i0 j0 k0 idx1 true.
Proof.
  unfold s4_set_out, s4_set_ds. cbn [s_cds]. rewrite (Nat.eqb_sym sub1).
  destruct (nth i0 cds nc =? idx1)%nat; cbn [s_out]; destruct (nth idx1 out nsub =? sub1)%nat; reflexivity.
Qed.

Lemma rstep_ok_false s j : s_ok s = false -> s_ok (rstep s j) = false.
Proof.
  intros H. unfold rl_step. destruct (s_next s); [exact H|]. cbv zeta.
  repeat match goal with |- s_ok (if ?b then _ else _) = false => destruct b end; try exact H.
  all: cbn [s4_unroll s_ok].
  all: match goal with |- s_ok (rl_main_tribs _ _ _ _ _ _ _ ?S2 ?kk) = false =>
         destruct (rl_main_tribs_fr sds subncol cs nrow ncol us0 sds0 kk S2) as (_ & _ & _ & _ & K); apply K; clear K end.
  all: match goal with |- s_ok (s4_set_out _ ?X ?i ?v) = false =>
         destruct (fr_set_out sds X i v) as (_ & _ & _ & _ & K); apply K; clear K end.
  all: match goal with |- s_ok (s4_set_ds _ _ ?X ?i ?v) = false =>
         destruct (fr_set_ds nrow ncol X i v) as (_ & _ & _ & _ & K); apply K; clear K end.
  all: exact H.
Qed.

Lemma rel_step_go s j g1 g2 dsl : s_next s = false -> s_ok s = true -> length il = length sl ->
  option_map prj15 (step9 (enc15 s g1 g2 dsl) j) = (let s' := rstep s j in if s_ok s' then Some (core15 s') else None).
Proof.
  intros Hn Hok Hlen.
  destruct s as [cds out bott nx cd co i0 j0 k0 i1 ok]. cbn [s_next s_ok] in Hn, Hok. subst nx ok.
  unfold gen_ihu_ihu_relocate_outlets_step9, rl_step, enc15.
  cbn [s_cds s_out s_bott s_next s_chg_ds s_chg_out s_idx0 s_j0 s_k0 s_idx1 s_ok].
  cbv zeta. cbv beta iota.
  cbn [s_cds s_out s_bott s_next s_chg_ds s_chg_out s_idx0 s_j0 s_k0 s_idx1 s_ok].
  rewrite !rel_ks_eq, !Nat2Z.id, !gen_up_in_d8_eq.
  pose proof (rel_nextd8_eq sds ncol (mkS4 cds out bott false cd co i0 j0 k0 (nth j il nc) true) i0 j nc il sl Hlen) as Hd8.
  cbn [s_out s_bott s_chg_out] in Hd8. rewrite !Hd8. clear Hd8.
  rewrite !lats_eq, !nextlats_eq, !zeqb_nat.
  unfold in_out. cbn [s_chg_out s_bott].
  rewrite (Nat.eqb_sym (nth j sl nsub) (nth (nth j il nc) out nsub)).
  rewrite !set_both.
  set (s1 := mkS4 cds out bott false cd co i0 j0 k0 (nth j il nc) true).
  set (ks := filter _ _).
  set (idx1 := nth j il nc) in *. set (sub1 := nth j sl nsub).
  set (isd8 := if memb idx1 (map fst co) || memb idx1 bott then false else in_d8 i0 idx1 ncol).
  set (nd8 := rl_nextd8 _ _ _ _ _ _ _ _).
  set (nl := forallb _ ks).
  set (e2 := (nth idx1 out nsub =? sub1)%nat).
  set (e1 := (nth i0 cds nc =? idx1)%nat).
  set (l0 := (length ks =? 0)%nat).
  destruct isd8, e2, nd8, l0, nl; cbn [negb andb orb]; try reflexivity;
  try (unfold s4_unroll, core15, core; cbn [s_cds s_out s_bott s_next s_chg_ds s_chg_out s_idx0 s_j0 s_k0 s_idx1 s_ok option_map prj15];
       rewrite rel_unroll_ds_eq, rel_unroll_out_eq; reflexivity);
  try (pose proof (rel_drop_eq nrow ncol il us0 s1 j ks k0 g1) as HD;
       change (s_cds s1) with cds in HD; change (s_chg_out s1) with co in HD;
       destruct (gen_ihu_bfold _ ks _) as [a b]; cbn [snd] in HD; subst b; reflexivity).
  all: destruct e1; cbn [negb].
  all: match goal with |- context [rl_main_tribs _ _ _ _ _ _ _ ?S2 ?kk] =>
       match goal with |- context [ofold _ kk (_, _, _, ?gg1, ?gg2, _, _, _, ?d, _, _, ?z)] =>
         pose proof (rel_main_tribs_eq sds subncol cs nrow ncol us0 sds0 kk S2 gg1 gg2 d z eq_refl) as HM;
         pose proof (rl_main_tribs_frame sds subncol cs nrow ncol us0 sds0 S2 kk) as HF;
         cbv zeta in HM, HF;
         set (s' := rl_main_tribs sds subncol cs nrow ncol us0 sds0 S2 kk) in *
       end end.
  all: unfold enc11, core in HM; cbn [s_cds s_out s_bott s_next s_chg_ds s_chg_out s_idx0 s_j0 s_k0 s_idx1 s_ok] in HM, HF;
       rewrite ?map_app in HM; cbn [map fst snd] in HM; destruct HF as (F0 & FJ & FK & F1 & _).
  all: destruct (ofold _ ks _) as [[[[[[[[[[[[t1 t2] t3] t4] t5] t6] t7] t8] t9] t10] t11] t12]|]; cbn [option_map prj11] in HM;
       destruct (s_ok s') eqn:Eok; try discriminate HM.
  all: try reflexivity.
  all: try (destruct (s_next s'); unfold s4_unroll; cbn [s_ok]; rewrite ?Eok; reflexivity).
  all: injection HM as -> -> -> -> -> -> -> ->.
  all: destruct (s_next s') eqn:En; unfold s4_unroll, core15, core;
       cbn [s_cds s_out s_bott s_next s_chg_ds s_chg_out s_idx0 s_j0 s_k0 s_idx1 s_ok option_map prj15];
       rewrite ?Eok, ?rel_unroll_ds_eq, ?rel_unroll_out_eq, ?En, FK, F1, zsucc_nat; reflexivity.
Qed.

Theorem rel_step_eq s j g1 g2 dsl : s_ok s = true -> length il = length sl ->
  option_map prj15 (step9 (enc15 s g1 g2 dsl) j) = (let s' := rstep s j in if s_ok s' then Some (core15 s') else None).
Proof.
  intros Hok Hlen. destruct (s_next s) eqn:Hn; [apply rel_step_next|apply rel_step_go]; assumption.
Qed.
End Step.
Print Assumptions rel_step_eq.
