(* Theorems about the decoders (property C01). *)
From Coq Require Import List Arith ZArith Lia Bool Sorted.
Import ListNotations.
From PF Require Import Arr Net Codec.
From PFG Require Import GenTables GenDrdc.

Open Scope Z_scope.

(* ---------- the code tables (finite, complete enumeration over the regenerated tables) *)

Definition offsets : list (Z * Z) :=
  [(-1,-1); (-1,0); (-1,1); (0,-1); (0,0); (0,1); (1,-1); (1,0); (1,1)].


Definition pair_eqb (a b : Z * Z) : bool := (fst a =? fst b) && (snd a =? snd b).

Lemma pair_eqb_eq a b : pair_eqb a b = true -> a = b.
Proof. destruct a, b; unfold pair_eqb; simpl. rewrite andb_true_iff, !Z.eqb_eq.
  intros [-> ->]; auto. Qed.

(* drdc inverts the 3x3 stencil: the code stored at offset (dr,dc) decodes to (dr,dc) *)
Lemma d8_drdc_table : forall dr dc, In (dr, dc) offsets -> d8_drdc (table_at d8_ds dr dc) = (dr, dc).
Proof.
  assert (H : forallb (fun o => pair_eqb (d8_drdc (table_at d8_ds (fst o) (snd o))) o) offsets = true)
    by (vm_compute; reflexivity).
  rewrite forallb_forall in H. intros dr dc Hin. apply (pair_eqb_eq _ _ (H _ Hin)).
Qed.

Lemma ldd_drdc_table : forall dr dc, In (dr, dc) offsets -> ldd_drdc (table_at ldd_ds dr dc) = (dr, dc).
Proof.
  assert (H : forallb (fun o => pair_eqb (ldd_drdc (table_at ldd_ds (fst o) (snd o))) o) offsets = true)
    by (vm_compute; reflexivity).
  rewrite forallb_forall in H. intros dr dc Hin. apply (pair_eqb_eq _ _ (H _ Hin)).
Qed.

(* the conventions as the documentation states them.  rows grow southwards, columns eastwards:
   (dr, dc) = (0,1) is E, (1,1) SE, (1,0) S, (1,-1) SW, (0,-1) W, (-1,-1) NW, (-1,0) N, (-1,1) NE *)
Lemma d8_convention :
  d8_drdc 1 = (0,1) /\ d8_drdc 2 = (1,1) /\ d8_drdc 4 = (1,0) /\ d8_drdc 8 = (1,-1) /\
  d8_drdc 16 = (0,-1) /\ d8_drdc 32 = (-1,-1) /\ d8_drdc 64 = (-1,0) /\ d8_drdc 128 = (-1,1) /\
  d8_drdc 0 = (0,0) /\ d8_drdc 255 = (0,0).
Proof. vm_compute. repeat split. Qed.

(* LDD keypad: 7 8 9 / 4 5 6 / 1 2 3 *)
Lemma ldd_convention :
  ldd_drdc 6 = (0,1) /\ ldd_drdc 3 = (1,1) /\ ldd_drdc 2 = (1,0) /\ ldd_drdc 1 = (1,-1) /\
  ldd_drdc 4 = (0,-1) /\ ldd_drdc 7 = (-1,-1) /\ ldd_drdc 8 = (-1,0) /\ ldd_drdc 9 = (-1,1) /\
  ldd_drdc 5 = (0,0).
Proof. vm_compute. repeat split. Qed.

(* the legal code sets are exactly stencil + pit codes + nodata, and every legal non-nodata
   code has an offset in {-1,0,1}^2 *)
Definition small_offset (o : Z * Z) : bool :=
  (-1 <=? fst o) && (fst o <=? 1) && (-1 <=? snd o) && (snd o <=? 1).

Lemma d8_legal_offsets : forall v, In v d8_all -> v <> d8_mv -> small_offset (d8_drdc v) = true.
Proof.
  assert (H : forallb (fun v => (v =? d8_mv) || small_offset (d8_drdc v)) d8_all = true)
    by (vm_compute; reflexivity).
  rewrite forallb_forall in H. intros v Hin Hne. specialize (H v Hin).
  apply orb_true_iff in H. destruct H as [H|H]; auto. apply Z.eqb_eq in H. contradiction.
Qed.

Lemma ldd_legal_offsets : forall v, In v ldd_all -> v <> ldd_mv -> small_offset (ldd_drdc v) = true.
Proof.
  assert (H : forallb (fun v => (v =? ldd_mv) || small_offset (ldd_drdc v)) ldd_all = true)
    by (vm_compute; reflexivity).
  rewrite forallb_forall in H. intros v Hin Hne. specialize (H v Hin).
  apply orb_true_iff in H. destruct H as [H|H]; auto. apply Z.eqb_eq in H. contradiction.
Qed.

Lemma zmem_In x l : zmem x l = true <-> In x l.
Proof. unfold zmem. rewrite existsb_exists. split.
  - intros (y & Hy & E). apply Z.eqb_eq in E. subst; auto.
  - intros H. exists x. split; auto. apply Z.eqb_refl. Qed.

Definition stencil_codes (t : list (list Z)) : list Z := map (fun o => table_at t (fst o) (snd o)) offsets.

Lemma incl_by_compute (l1 l2 : list Z) : forallb (fun v => zmem v l2) l1 = true -> incl l1 l2.
Proof. rewrite forallb_forall. intros H v Hv. apply zmem_In. auto. Qed.

(* the legal value set is exactly: stencil codes, pit codes, nodata *)
Lemma d8_all_complete : forall v, In v d8_all <-> In v (stencil_codes d8_ds ++ d8_pv ++ [d8_mv]).
Proof. intros v; split; apply incl_by_compute; vm_compute; reflexivity. Qed.

Lemma ldd_all_complete : forall v, In v ldd_all <-> In v (stencil_codes ldd_ds ++ ldd_pv ++ [ldd_mv]).
Proof. intros v; split; apply incl_by_compute; vm_compute; reflexivity. Qed.

(* ---------- index arithmetic ---------- *)

Lemma lin_index (nrow ncol : nat) (r c : Z) :
  0 <= r < Z.of_nat nrow -> 0 <= c < Z.of_nat ncol ->
  let t := Z.to_nat (c + r * Z.of_nat ncol) in
  (t < nrow * ncol)%nat /\ Z.of_nat t = c + r * Z.of_nat ncol /\
  Z.of_nat (t / ncol) = r /\ Z.of_nat (t mod ncol) = c.
Proof.
  intros Hr Hc t.
  assert (Hn : 0 < Z.of_nat ncol) by lia.
  assert (Ht : Z.of_nat t = c + r * Z.of_nat ncol) by (unfold t; rewrite Z2Nat.id; nia).
  split; [|split; [exact Ht|split]].
  - apply Nat2Z.inj_lt. rewrite Ht, Nat2Z.inj_mul. nia.
  - rewrite Nat2Z.inj_div, Ht, Z.div_add by lia. rewrite Z.div_small; lia.
  - rewrite Nat2Z.inj_mod, Ht, Z.mod_add by lia. apply Z.mod_small; lia.
Qed.

Lemma outside_false nrow ncol r c :
  outside nrow ncol r c = false <-> (0 <= r < Z.of_nat nrow /\ 0 <= c < Z.of_nat ncol).
Proof. unfold outside. rewrite !orb_false_iff, !Z.geb_leb, !Z.leb_gt, !Z.ltb_ge. lia. Qed.

(* ---------- the decoder specification ---------- *)
Section DecodeSpec.
Variable drdc : Z -> Z * Z.
Variable mv : Z.
Variables nrow ncol : nat.
Variable flw : list Z.
Let sz := (nrow * ncol)%nat.
Let ds := decode drdc mv nrow ncol flw.

Lemma decode_length : length ds = sz.
Proof. unfold ds, decode. rewrite map_length, seq_length. reflexivity. Qed.

Lemma decode_nth idx0 : (idx0 < sz)%nat -> nth idx0 ds sz = decode_cell drdc mv nrow ncol flw idx0.
Proof. intros H. unfold ds, decode.
  rewrite (nth_indep _ sz (decode_cell drdc mv nrow ncol flw 0)) by (rewrite map_length, seq_length; auto).
  rewrite (map_nth (decode_cell drdc mv nrow ncol flw) (seq 0 (nrow*ncol)) 0%nat idx0).
  rewrite seq_nth; auto. Qed.

(* what a single cell decodes to *)
Inductive cell_spec (idx0 : nat) : nat -> Prop :=
| cs_nodata : cell mv flw idx0 = mv -> cell_spec idx0 sz
| cs_pit dr dc : cell mv flw idx0 <> mv -> drdc (cell mv flw idx0) = (dr, dc) ->
    (* pit code, or target off the raster, or target is nodata *)
    ((dr = 0 /\ dc = 0)
     \/ ~ (0 <= Z.of_nat (idx0 / ncol) + dr < Z.of_nat nrow /\ 0 <= Z.of_nat (idx0 mod ncol) + dc < Z.of_nat ncol)
     \/ (exists t, (t < sz)%nat /\ Z.of_nat (t / ncol) = Z.of_nat (idx0 / ncol) + dr
                   /\ Z.of_nat (t mod ncol) = Z.of_nat (idx0 mod ncol) + dc /\ cell mv flw t = mv)) ->
    cell_spec idx0 idx0
| cs_link dr dc t : cell mv flw idx0 <> mv -> drdc (cell mv flw idx0) = (dr, dc) ->
    ~ (dr = 0 /\ dc = 0) -> (t < sz)%nat ->
    Z.of_nat (t / ncol) = Z.of_nat (idx0 / ncol) + dr ->
    Z.of_nat (t mod ncol) = Z.of_nat (idx0 mod ncol) + dc ->
    cell mv flw t <> mv ->
    cell_spec idx0 t.

Theorem decode_spec idx0 : (idx0 < sz)%nat -> cell_spec idx0 (nth idx0 ds sz).
Proof.
  intros Hi. rewrite decode_nth by auto. unfold decode_cell, target_rc.
  destruct (Z.eqb_spec (cell mv flw idx0) mv) as [Hmv|Hmv]; [apply cs_nodata; auto|].
  destruct (drdc (cell mv flw idx0)) as [dr dc] eqn:Edr.
  set (r := Z.of_nat (idx0 / ncol) + dr). set (c := Z.of_nat (idx0 mod ncol) + dc).
  destruct ((dr =? 0) && (dc =? 0)) eqn:Epit; simpl.
  - apply andb_true_iff in Epit. destruct Epit as [E1 E2]. apply Z.eqb_eq in E1, E2.
    eapply cs_pit; eauto.
  - destruct (outside nrow ncol r c) eqn:Eout; simpl.
    + eapply cs_pit; eauto. right. left. intros Hin.
      apply outside_false in Hin. fold r c in Hin. congruence.
    + apply outside_false in Eout. destruct Eout as [Hr Hc].
      destruct (lin_index nrow ncol r c Hr Hc) as (Ht1 & Ht2 & Ht3 & Ht4).
      destruct (Z.eqb_spec (cell mv flw (Z.to_nat (c + r * Z.of_nat ncol))) mv) as [Hm|Hm].
      * eapply cs_pit; eauto. right. right. exists (Z.to_nat (c + r * Z.of_nat ncol)). auto.
      * eapply cs_link; eauto. intros [-> ->]. simpl in Epit. discriminate.
Qed.

(* nodata in <-> nodata out; everything else is a valid cell of the graph *)
Corollary decode_nodata_iff idx0 : (idx0 < sz)%nat ->
  (nth idx0 ds sz = sz <-> cell mv flw idx0 = mv).
Proof.
  intros Hi. pose proof (decode_spec idx0 Hi) as H.
  remember (nth idx0 ds sz) as x eqn:Ex. clear Ex. split.
  - intros E. destruct H as [Hm|dr dc Hm _ _|dr dc t Hm _ _ Ht _ _ _]; auto; lia.
  - intros E. destruct H as [Hm|dr dc Hm _ _|dr dc t Hm _ _ Ht _ _ _]; auto; contradiction.
Qed.

Corollary decode_valid idx0 : (idx0 < sz)%nat -> cell mv flw idx0 <> mv -> (nth idx0 ds sz < sz)%nat.
Proof. intros Hi Hne. pose proof (decode_spec idx0 Hi) as H.
  remember (nth idx0 ds sz) as x eqn:Ex. clear Ex.
  destruct H as [Hm|dr dc Hm _ _|dr dc t Hm _ _ Ht _ _ _]; auto; contradiction. Qed.

(* the decoded graph is closed: links only point at cells of the graph *)
Theorem decode_wf : wf ds.
Proof.
  intros i [Hi Hd]. unfold valid, dsf, size in *. rewrite decode_length in *.
  pose proof (decode_spec i Hi) as H.
  remember (nth i ds sz) as x eqn:Ex.
  destruct H as [Hm|dr dc Hm _ _|dr dc t Hm _ _ Ht _ _ Hmt].
  - lia.
  - split; auto. rewrite <- Ex. auto.
  - split; auto. apply decode_valid; auto.
Qed.

End DecodeSpec.

(* ---------- NEXTXY ---------- *)
Section XYSpec.
Variables nrow ncol : nat.
Variables nextx nexty : list Z.
Let sz := (nrow * ncol)%nat.
Let ds := nextxy_from_array nrow ncol nextx nexty.
Let cx i := nth i nextx nextxy_mv.
Let cy i := nth i nexty nextxy_mv.

Lemma xy_length : length ds = sz.
Proof. unfold ds, nextxy_from_array. rewrite map_length, seq_length. reflexivity. Qed.

Lemma xy_nth idx0 : (idx0 < sz)%nat -> nth idx0 ds sz = xy_decode_cell nrow ncol nextx nexty idx0.
Proof. intros H. unfold ds, nextxy_from_array.
  rewrite (nth_indep _ sz (xy_decode_cell nrow ncol nextx nexty 0)) by (rewrite map_length, seq_length; auto).
  rewrite (map_nth (xy_decode_cell nrow ncol nextx nexty) (seq 0 (nrow*ncol)) 0%nat idx0).
  rewrite seq_nth; auto. Qed.

Inductive xy_cell_spec (idx0 : nat) : nat -> Prop :=
| xs_nodata : cx idx0 = nextxy_mv -> xy_cell_spec idx0 sz
| xs_pit : cx idx0 <> nextxy_mv ->
    (In (cx idx0) nextxy_pv \/ In (cy idx0) nextxy_pv
     \/ ~ (0 <= cy idx0 - 1 < Z.of_nat nrow /\ 0 <= cx idx0 - 1 < Z.of_nat ncol)
     \/ (exists t, (t < sz)%nat /\ Z.of_nat (t / ncol) = cy idx0 - 1
                   /\ Z.of_nat (t mod ncol) = cx idx0 - 1 /\ cx t = nextxy_mv)) ->
    xy_cell_spec idx0 idx0
| xs_link t : cx idx0 <> nextxy_mv -> ~ In (cx idx0) nextxy_pv -> ~ In (cy idx0) nextxy_pv ->
    (t < sz)%nat -> Z.of_nat (t / ncol) = cy idx0 - 1 -> Z.of_nat (t mod ncol) = cx idx0 - 1 ->
    cx t <> nextxy_mv -> xy_cell_spec idx0 t.

Theorem xy_decode_spec idx0 : (idx0 < sz)%nat -> xy_cell_spec idx0 (nth idx0 ds sz).
Proof.
  intros Hi. rewrite xy_nth by auto. unfold xy_decode_cell. fold (cx idx0) (cy idx0).
  destruct (Z.eqb_spec (cx idx0) nextxy_mv) as [Hmv|Hmv]; [apply xs_nodata; auto|].
  unfold xy_ispit.
  destruct (zmem (cx idx0) nextxy_pv) eqn:Ex; cbn [orb].
  { apply xs_pit; auto. left. apply zmem_In; auto. }
  destruct (zmem (cy idx0) nextxy_pv) eqn:Ey; cbn [orb].
  { apply xs_pit; auto. right; left. apply zmem_In; auto. }
  set (r := cy idx0 - 1). set (c := cx idx0 - 1).
  destruct (outside nrow ncol r c) eqn:Eout; cbn [orb].
  - apply xs_pit; auto. right; right; left. intros Hin. apply outside_false in Hin. fold r c in Hin. congruence.
  - apply outside_false in Eout. destruct Eout as [Hr Hc].
    destruct (lin_index nrow ncol r c Hr Hc) as (Ht1 & Ht2 & Ht3 & Ht4).
    fold (cx (Z.to_nat (c + r * Z.of_nat ncol))).
    destruct (Z.eqb_spec (cx (Z.to_nat (c + r * Z.of_nat ncol))) nextxy_mv) as [Hm|Hm].
    + apply xs_pit; auto. right; right; right. exists (Z.to_nat (c + r * Z.of_nat ncol)). auto.
    + apply xs_link; auto.
      * intros H. apply zmem_In in H. congruence.
      * intros H. apply zmem_In in H. congruence.
Qed.

Corollary xy_decode_valid idx0 : (idx0 < sz)%nat -> cx idx0 <> nextxy_mv -> (nth idx0 ds sz < sz)%nat.
Proof. intros Hi Hne. pose proof (xy_decode_spec idx0 Hi) as H.
  remember (nth idx0 ds sz) as x eqn:Ex. clear Ex.
  destruct H as [Hm|Hm _|t Hm _ _ Ht _ _ _]; auto; contradiction. Qed.

Theorem xy_decode_wf : wf ds.
Proof.
  intros i [Hi Hd]. unfold valid, dsf, size in *. rewrite xy_length in *.
  pose proof (xy_decode_spec i Hi) as H.
  remember (nth i ds sz) as x eqn:Ex.
  destruct H as [Hm|Hm _|t Hm _ _ Ht _ _ Hmt].
  - lia.
  - split; auto. rewrite <- Ex. auto.
  - split; auto. apply xy_decode_valid; auto.
Qed.
End XYSpec.

(* ---------- pits, node count ---------- *)

Lemma pits_of_spec ds p : In p (pits_of ds) <-> (p < length ds)%nat /\ nth p ds (length ds) = p.
Proof. unfold pits_of. rewrite filter_In, in_seq, Nat.eqb_eq. lia. Qed.

Lemma filter_seq_sorted f a n : StronglySorted lt (filter f (seq a n)).
Proof.
  revert a. induction n as [|n IH]; intros a; simpl; [constructor|].
  destruct (f a); auto. constructor; auto.
  apply Forall_forall. intros x Hx. apply filter_In in Hx. destruct Hx as [Hx _].
  apply in_seq in Hx. lia.
Qed.

Lemma pits_of_sorted ds : StronglySorted lt (pits_of ds).
Proof. apply filter_seq_sorted. Qed.

(* ---------- mask ---------- *)
Lemma apply_mask_nth mv mask flw i : length mask = length flw -> (i < length flw)%nat ->
  nth i (apply_mask mv mask flw) mv = if nth i mask 0 =? 0 then mv else nth i flw mv.
Proof.
  intros Hl Hi. unfold apply_mask.
  rewrite (nth_indep _ mv ((fun p : Z * Z => if fst p =? 0 then mv else snd p) (0, mv)))
    by (rewrite map_length, combine_length; lia).
  rewrite (map_nth (fun p : Z * Z => if fst p =? 0 then mv else snd p)).
  rewrite combine_nth by auto. reflexivity.
Qed.

(* ---------- type inference ---------- *)
Lemma infer_sound tag a b :
  match infer_ftype tag a b with
  | 0 => d8_isvalid tag a = true
  | 1 => d8_isvalid tag a = false /\ ldd_isvalid tag a = true
  | 2 => d8_isvalid tag a = false /\ ldd_isvalid tag a = false /\ nextxy_isvalid tag a b = true
  | _ => d8_isvalid tag a = false /\ ldd_isvalid tag a = false /\ nextxy_isvalid tag a b = false
  end.
Proof. unfold infer_ftype. destruct (d8_isvalid tag a); auto.
  destruct (ldd_isvalid tag a); auto. destruct (nextxy_isvalid tag a b); auto. Qed.
