(* upscale.ihu_minimize_error, REGENERATED from the Python source (generated/GenIhu.v by tools/gen_ihu.py), equals the hand
   model Ihu.minimize_error.  The generated function returns None when a `while True` walk runs out of fuel or the assertion
   `idx0 != idx1` fails (it cannot: the neighbours of a cell differ from the cell); the model sets its sticky error flag and
   goes on: the two agree as Some (arrays) when the model's flag stays 0 and as None otherwise.
   The Python loop `for j in range(max_dist + 1)` is translated faithfully (up to 10^6 iterations); the model's walk stops
   after nrow * ncol + 2 steps: they agree by the pigeonhole lemma of GenIhuMinA.v, which needs that the coarse array idxs_ds
   has nrow * ncol elements.  Hypotheses: nomv_cell (see GenIhuBaseEq.v), the flag is 0 at the start, the length of idxs_ds.
   No axioms. *)
From Coq Require Import List Arith ZArith Bool Lia.
Import ListNotations.
From PF Require Import Arr Net Elev Upscale D8Idx Ihu GenCodecBaseEq GenUpscaleBaseEq GenIhuBaseEq GenIhuNewEq GenIhuOptEq
  GenIhuMinA GenIhuMinB GenIhuMinC.
From PFG Require Import GenUpscale GenIhu.

Section One.
Variable sds : list nat.
Variable upa : list Z.
Variables subncol cs nrow ncol : nat.
Hypothesis Hmv : nomv_cell sds subncol cs ncol.
Variable poc : nat.
Notation nsub := (length sds).
Notation nc := (nrow * ncol)%nat.
Notation shape := (Z.of_nat nrow, Z.of_nat ncol).

Lemma me_one_unf a idx0 :
  me_one sds upa subncol cs nrow ncol poc a idx0
  = (let subidx0 := nth idx0 (a_out a) nsub in
     match me_path sds ncol (S nsub) (a_st a) idx0 subidx0 [] with
     | None => set_err a 1
     | Some (idxs, subidx, subidx_ds) =>
       let check_pit :=
         (0 <? poc)%nat && (subidx_ds =? subidx)%nat &&
         (let idx1 := sub2idx subidx_ds subncol cs ncol in
          (absdiff (idx1 mod ncol) (idx0 mod ncol) <=? poc)%nat && (absdiff (idx1 / ncol) (idx0 / ncol) <=? poc)%nat) in
       if check_pit && ((subidx_ds =? subidx0)%nat || (length idxs =? 0)%nat) then
         let a := set_st a (nth idx0 (a_out a) nsub) (-1)%Z in
         let a := set_st a subidx_ds (Z.of_nat idx0) in
         let a := set_cds a idx0 idx0 in
         set_out a idx0 subidx_ds
       else
         let nb := d8_idx idx0 nrow ncol in
         let '(a1, fixed) :=
           if forallb (fun i => negb (nth i (a_cds a) nc =? idx0)%nat) nb
           then new_outlet sds upa subncol cs ncol a idx0 subidx0 None else (a, false) in
         if fixed then a1 else me_rounds sds upa subncol cs nrow ncol 2 a1 idxs idx0 nb
     end).
Proof. reflexivity. Qed.

Lemma set_err_sticky a e : a_err a <> 0%nat -> a_err (set_err a e) <> 0%nat.
Proof. intros H. unfold set_err. cbn [a_err]. apply Nat.eqb_neq in H. rewrite H. apply Nat.eqb_neq. exact H. Qed.

Lemma me_one_sticky a idx0 : a_err a <> 0%nat -> a_err (me_one sds upa subncol cs nrow ncol poc a idx0) <> 0%nat.
Proof.
  intros H. rewrite me_one_unf. cbv zeta.
  destruct (me_path _ _ _ _ _ _ _) as [[[idxs subidx] subidx_ds]|]; [|apply set_err_sticky; exact H].
  destruct (_ && _); [exact H|].
  destruct (forallb _ _).
  - pose proof (new_outlet_sticky sds upa subncol cs ncol a idx0 (nth idx0 (a_out a) nsub) None H) as Hs.
    destruct (new_outlet _ _ _ _ _ _ _ _ _) as [a1 f1]. cbn [fst] in Hs.
    destruct f1; [exact Hs|apply me_rounds_sticky; exact Hs].
  - apply me_rounds_sticky. exact H.
Qed.

Lemma me_one_len a idx0 : length (a_cds (me_one sds upa subncol cs nrow ncol poc a idx0)) = length (a_cds a).
Proof.
  rewrite me_one_unf. cbv zeta.
  destruct (me_path _ _ _ _ _ _ _) as [[[idxs subidx] subidx_ds]|]; [|reflexivity].
  destruct (_ && _); [cbn [set_out set_cds set_st a_cds]; apply upd_length|].
  destruct (forallb _ _).
  - pose proof (new_outlet_len sds upa subncol cs ncol a idx0 (nth idx0 (a_out a) nsub) None) as Hl.
    destruct (new_outlet _ _ _ _ _ _ _ _ _) as [a1 f1]. cbn [fst] in Hl.
    destruct f1; [exact Hl|rewrite me_rounds_len; exact Hl].
  - apply me_rounds_len.
Qed.

Lemma check_pit_eq idx0 subidx subidx_ds :
  (let check_pit := ((Z.of_nat poc >? 0)%Z && (subidx_ds =? subidx)%nat) in
   if check_pit then
     let idx1 := gen_up_subidx_2_idx (Z.of_nat subidx_ds) (Z.of_nat subncol) (Z.of_nat cs) (Z.of_nat ncol) in
     let dr := ((idx1 mod Z.of_nat ncol)%Z - (Z.of_nat idx0 mod Z.of_nat ncol)%Z)%Z in
     let dc := ((idx1 / Z.of_nat ncol)%Z - (Z.of_nat idx0 / Z.of_nat ncol)%Z)%Z in
     ((Z.abs dr <=? Z.of_nat poc)%Z && (Z.abs dc <=? Z.of_nat poc)%Z)
   else check_pit)
  = (0 <? poc)%nat && (subidx_ds =? subidx)%nat &&
    (let idx1 := sub2idx subidx_ds subncol cs ncol in
     (absdiff (idx1 mod ncol) (idx0 mod ncol) <=? poc)%nat && (absdiff (idx1 / ncol) (idx0 / ncol) <=? poc)%nat).
Proof.
  cbv zeta.
  rewrite gen_up_subidx_2_idx_eq, !zmod_nat, !zdiv_nat, !zabs_absdiff, !zleb_nat.
  assert (E : (Z.of_nat poc >? 0)%Z = (0 <? poc)%nat) by (destruct poc; reflexivity).
  rewrite E. destruct ((0 <? poc)%nat && (subidx_ds =? subidx)%nat); reflexivity.
Qed.

Notation step1 fixl := (gen_ihu_ihu_minimize_error_step1 (S nsub) fixl sds upa shape (Z.of_nat cs) (Z.of_nat cs)
                          (Z.of_nat (cs * cs)) (Z.of_nat poc) nsub nc (Z.of_nat subncol) (Z.of_nat ncol)).

Lemma proj5_match (o : option (list Z * list nat * list nat * bool * nat)) :
  match o with None => None | Some (streams, idxs_ds, subidxs_out, _, _) => Some (streams, idxs_ds, subidxs_out) end
  = proj5' o.
Proof. reflexivity. Qed.

Lemma step1_eq fixl a i0 : a_err a = 0%nat -> length (a_cds a) = nc ->
  step1 fixl (a_st a, a_cds a, a_out a) i0 = enc (me_one sds upa subncol cs nrow ncol poc a (nth i0 fixl nc)).
Proof.
  intros H Hlen. unfold gen_ihu_ihu_minimize_error_step1. cbv zeta.
  set (idx0 := nth i0 fixl nc).
  rewrite walk2_eq, me_one_unf. cbv zeta.
  destruct (me_path _ _ _ _ _ _ _) as [[[idxs subidx] subidx_ds]|];
    [|symmetry; apply enc_none; unfold set_err; cbn [a_err]; rewrite H; cbn [Nat.eqb]; discriminate].
  pose proof (check_pit_eq idx0 subidx subidx_ds) as Ecp. cbv zeta in Ecp. rewrite Ecp. clear Ecp.
  rewrite zlen0.
  destruct (_ && _ && _ && _).
  - unfold enc, set_out, set_cds, set_st. cbn [a_err a_st a_cds a_out]. rewrite H. reflexivity.
  - rewrite gen_ihu_d8_idx_eq. change (Z.to_nat 2) with 2%nat. cbn [seq].
    rewrite map_map, forallb_id_map.
    assert (Hnb : forall i, In i (d8_idx idx0 nrow ncol) -> i <> idx0) by (intros i; apply d8_idx_neq).
    destruct (forallb _ _).
    + rewrite (new_outlet_gen sds upa subncol cs ncol Hmv) by exact H. cbv zeta.
      pose proof (new_outlet_len sds upa subncol cs ncol a idx0 (nth idx0 (a_out a) nsub) None) as Hl.
      pose proof (fun E n => me_rounds_sticky sds upa subncol cs nrow ncol idx0 idxs (d8_idx idx0 nrow ncol) n
                     (fst (new_outlet sds upa subncol cs ncol a idx0 (nth idx0 (a_out a) nsub) None)) E) as Hst.
      destruct (new_outlet _ _ _ _ _ _ _ _ _) as [a1 f1]. cbn [fst snd] in *.
      destruct (Nat.eq_dec (a_err a1) 0) as [E|E].
      * rewrite E. cbn [Nat.eqb].
        destruct f1.
        -- rewrite obfold_cons, step3_fixed. cbv beta iota. symmetry. apply enc_ok. exact E.
        -- apply (rounds_eq sds upa subncol cs nrow ncol Hmv idx0 idxs _ Hnb [0%nat; 1%nat] a1); [exact E|].
           rewrite Hl. exact Hlen.
      * pose proof E as E'. apply Nat.eqb_neq in E'. rewrite E'.
        destruct f1; symmetry; apply enc_none; [exact E|apply Hst; exact E].
    + apply (rounds_eq sds upa subncol cs nrow ncol Hmv idx0 idxs _ Hnb [0%nat; 1%nat] a); [exact H|exact Hlen].
Qed.

Definition ostep (fixl : list nat) (a : A) (i0 : nat) : A := me_one sds upa subncol cs nrow ncol poc a (nth i0 fixl nc).

Lemma minimize_error_unf fixl a :
  minimize_error sds upa subncol cs nrow ncol fixl poc a
  = fold_left (ostep fixl) (rev (argsort (map (fun i => nth (nth i (a_out a) nsub) upa 0%Z) fixl))) a.
Proof. reflexivity. Qed.

Lemma outer_sticky fixl : forall l a, a_err a <> 0%nat -> a_err (fold_left (ostep fixl) l a) <> 0%nat.
Proof.
  induction l as [|x l IH]; intros a H; cbn [fold_left]; [exact H|]. apply IH, me_one_sticky, H.
Qed.

Lemma outer_eq fixl : forall l a, a_err a = 0%nat -> length (a_cds a) = nc ->
  GenIhu.ofold (step1 fixl) l (a_st a, a_cds a, a_out a) = enc (fold_left (ostep fixl) l a).
Proof.
  induction l as [|x l IH]; intros a H Hlen; [rewrite ofold_nil; cbn [fold_left]; symmetry; apply enc_ok, H|].
  rewrite ofold_cons, step1_eq by assumption. cbn [fold_left]. fold (ostep fixl a x).
  destruct (Nat.eq_dec (a_err (ostep fixl a x)) 0) as [E|E].
  - rewrite enc_ok by exact E. apply IH; [exact E|]. unfold ostep. rewrite me_one_len. exact Hlen.
  - rewrite enc_none by exact E. symmetry. apply enc_none, outer_sticky, E.
Qed.
End One.

Theorem gen_ihu_minimize_error_eq : forall (sds : list nat) (upa : list Z) (subnrow : Z) (subncol cs nrow ncol : nat)
    (valid : list bool) (fixl : list nat) (poc : nat) (a : A),
  nomv_cell sds subncol cs ncol ->
  a_err a = 0%nat ->
  length (a_cds a) = (nrow * ncol)%nat ->
  gen_ihu_ihu_minimize_error (S (length sds)) fixl valid (a_st a) (a_cds a) (a_out a) sds upa (subnrow, Z.of_nat subncol)
      (Z.of_nat nrow, Z.of_nat ncol) (Z.of_nat cs) (Z.of_nat cs) (Z.of_nat (cs * cs)) (Z.of_nat poc)
  = (let a' := minimize_error sds upa subncol cs nrow ncol fixl poc a in
     if (a_err a' =? 0)%nat then Some (a_cds a', a_out a', a_st a') else None).
Proof.
  intros sds upa subnrow subncol cs nrow ncol valid fixl poc a Hmv Herr Hlen.
  unfold gen_ihu_ihu_minimize_error. cbv zeta. rewrite Hlen, map_map.
  rewrite (outer_eq sds upa subncol cs nrow ncol Hmv poc fixl) by assumption.
  rewrite minimize_error_unf.
  unfold enc. destruct (_ =? _)%nat; reflexivity.
Qed.

Print Assumptions gen_ihu_minimize_error_eq.
