From Coq Require Import List Arith ZArith QArith Bool.
Import ListNotations.
From PF Require Import Arr Net Rank Accu Stream Vect Ucat Glue RunC03.
Local Open Scope Z_scope.

Definition paths_out (ps : list (list nat)) : list (list Z) := map zs ps.
Definition props_out (l : list (nat * nat * bool)) : list (list Z) :=
  map (fun t => [Z.of_nat (fst (fst t)); Z.of_nat (snd (fst t)); zb (snd t)]) l.

Definition run_c19 (k : Z) (args : list (list Z)) : list (list Z) :=
  let ds := net_in (arg 0 args) in
  if k =? 1901 then paths_out (streams ds (ns (arg 1 args)) (mask_opt (argz 2 args) (arg 3 args)) (argz 4 args))
  else if k =? 1902 then
    props_out (feature_props (streams ds (ns (arg 1 args)) (mask_opt (argz 2 args) (arg 3 args)) (argz 4 args)))
  else if k =? 1903 then paths_out (flwdir_tuples ds (mask_opt (argz 2 args) (arg 3 args)))
  else if k =? 1904 then [[py_round (Qmake (argz 1 args) (Z.to_pos (argz 2 args)))]]
  else [[-999]].
