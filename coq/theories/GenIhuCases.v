(* The REGENERATED driver of upscale.ihu (generated/GenIhu.v: gen_ihu_ihu, with every stage regenerated from the Python source
   except ihu_relocate_outlets, for which the model Ihu.relocate is plugged in as the parameter `relocate`) reproduces the results
   of the Python implementation on the 20 cases of the regression corpus IhuCases.v (cases in which the iterative stages change
   the result of the first stage): checked by computation.  This is a test of the translation (tools/gen_ihu.py), independent of
   the equality proofs GenIhu*Eq.v; in particular the 10^6-element `range(max_dist + 1)` of ihu_minimize_error is run as it is. *)
From Coq Require Import List Arith ZArith Bool.
Import ListNotations.
From PF Require Import Arr Upscale Ihu IhuCases.
From PFG Require Import GenUpscale GenIhu.

Definition gcase_ok (c : Case) : bool :=
  let nrow := cdiv (k_nr c) (k_cs c) in
  let ncol := cdiv (k_nc c) (k_cs c) in
  let reloc := fun (fixl cds out : list nat) (_ : list nat) (_ : list Z) (_ _ : Z * Z) (_ : Z) =>
    let a' := relocate (k_sds c) (k_upa c) (k_nc c) (k_cs c) nrow ncol fixl (mkA cds out [] 0) in
    if (a_err a' =? 0)%nat then Some (a_cds a', a_out a', @nil nat) else None in
  match gen_ihu_ihu (S (length (k_sds c))) (k_sds c) (k_upa c) (Z.of_nat (k_nr c), Z.of_nat (k_nc c)) (Z.of_nat (k_cs c))
                    5 true true 2 (eaf (k_ea c)) reloc with
  | Some (cds, out, (nr, nc)) =>
    nat_list_eqb cds (k_cds c) && nat_list_eqb out (k_out c) && (nr =? Z.of_nat (fst (k_shape c)))%Z
    && (nc =? Z.of_nat (snd (k_shape c)))%Z
  | None => false
  end.

Lemma gen_ihu_cases_agree : forallb gcase_ok ihu_cases = true.
Proof. vm_compute. reflexivity. Qed.

Print Assumptions gen_ihu_cases_agree.
