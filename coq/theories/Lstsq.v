(* Executable model over exact rationals of pyflwdir.arithmetics.lstsq and of the
   two slope methods of subgrid.segment_slope / fixed_length_slope.
   No proofs in this file (see LstsqSpec.v). *)
Require Import QArith Qabs List.
Import ListNotations.
Open Scope Q_scope.

(* running sums: (x_sum, y_sum, x_sq_sum, x_y_sum) *)
Definition lsq_state : Type := (Q * Q * Q * Q)%type.

Definition lsq_init : lsq_state := (0, 0, 0, 0).

(* loop body:  x_sum += x; y_sum += y; x_sq_sum += x ** 2; x_y_sum += x * y *)
Definition lsq_step (s : lsq_state) (p : Q * Q) : lsq_state :=
  let '(x_sum, y_sum, x_sq_sum, x_y_sum) := s in
  let '(x, y) := p in
  (x_sum + x, y_sum + y, x_sq_sum + x ^ 2, x_y_sum + x * y).

Definition lsq_sums (pts : list (Q * Q)) : lsq_state :=
  fold_left lsq_step pts lsq_init.

(* n = x.size *)
Definition lsq_n (pts : list (Q * Q)) : Q := inject_Z (Z.of_nat (length pts)).

Definition lstsq (pts : list (Q * Q)) : Q * Q :=
  let '(x_sum, y_sum, x_sq_sum, x_y_sum) := lsq_sums pts in
  let n := lsq_n pts in
  let slope := (n * x_y_sum - x_sum * y_sum) / (n * x_sq_sum - x_sum ^ 2) in
  let intercept := (y_sum - slope * x_sum) / n in
  (slope, intercept).

(* abs(lstsq(xs, zs)[0]) *)
Definition slope_lstsq (pts : list (Q * Q)) : Q := Qabs (fst (lstsq pts)).

(* abs((zs[0] - zs[-1]) / (xs[0] - xs[-1])) *)
Definition slope_mean (pts : list (Q * Q)) : Q :=
  let p0 := hd (0, 0) pts in
  let p1 := last pts (0, 0) in
  Qabs ((snd p0 - snd p1) / (fst p0 - fst p1)).
