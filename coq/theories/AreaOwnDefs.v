(* Own area of the minimum-area sub-basins (basins.subbasins_area): the specification, the
   instrumented step (the state of area_step without the label array, plus two ghost arrays:
   `lab` = outlet of the sub-basin a processed cell belongs to, `own` = current own area of the
   sub-basin of every outlet), and the simulation of area_step by the instrumented step. *)
From Coq Require Import List Arith ZArith Lia Bool Sorted.
Import ListNotations.
From PF Require Import Arr Net Subbas.
Local Open Scope Z_scope.

(* ---------- specification ---------- *)
(* c drains into the sub-basin labelled lx: its downstream cell carries lx, c carries another non-zero label *)
Definition drains_into (ds : list nat) (L : list Z) (lx : Z) (c : nat) : bool :=
  (nth (dsf ds c) L 0 =? lx) && negb (nth c L 0 =? lx) && negb (nth c L 0 =? 0).

(* uparea of the outlet minus the uparea of the outlets of the sub-basins draining into it *)
Definition own_area (ds : list nat) (L : list Z) (uparea : list Z) (x : nat) : Z :=
  nth x uparea 0 -
  zsum (map (fun c => nth c uparea 0) (filter (drains_into ds L (nth x L 0)) (seq 0 (length ds)))).

(* ---------- sums over filtered lists ---------- *)
Section Sums.
Variable f : nat -> Z.
Definition fsum (g : nat -> bool) (l : list nat) : Z := zsum (map f (filter g l)).

Lemma fsum_nil g : fsum g [] = 0.
Proof. reflexivity. Qed.

Lemma fsum_snoc g l x : fsum g (l ++ [x]) = fsum g l + (if g x then f x else 0).
Proof. unfold fsum. rewrite filter_app, map_app, zsum_app. cbn [filter]. destruct (g x); cbn [map zsum fold_right]; lia. Qed.

Lemma fsum_ext g g' l : (forall y, In y l -> g y = g' y) -> fsum g l = fsum g' l.
Proof. intros H. unfold fsum. rewrite (filter_ext_in g g' l H). reflexivity. Qed.

Lemma fsum_nonneg g l : (forall y, In y l -> 0 <= f y) -> 0 <= fsum g l.
Proof.
  unfold fsum. induction l as [|h t IH]; intros H; cbn [filter map zsum fold_right]; [lia|].
  assert (Ht : 0 <= zsum (map f (filter g t))) by (apply IH; intros y Hy; apply H; right; exact Hy).
  destruct (g h); cbn [map zsum fold_right]; auto.
  assert (0 <= f h) by (apply H; left; reflexivity). unfold zsum in Ht. lia.
Qed.

Lemma fsum_false g l : (forall y, In y l -> g y = false) -> fsum g l = 0.
Proof.
  unfold fsum. induction l as [|h t IH]; intros H; cbn [filter]; [reflexivity|].
  rewrite (H h (or_introl eq_refl)). apply IH. intros y Hy. apply H. right. exact Hy.
Qed.
End Sums.

Lemma sorted_app_le (lev : nat -> nat) (l1 l2 : list nat) :
  StronglySorted (fun x y => (lev x <= lev y)%nat) (l1 ++ l2) ->
  forall x y, In x l1 -> In y l2 -> (lev x <= lev y)%nat.
Proof.
  induction l1 as [|h t IH]; intros Hs x y Hx Hy; [destruct Hx|].
  cbn [app] in Hs. inversion Hs as [|h' l' Hs' Hf]; subst.
  destruct Hx as [<-|Hx].
  - rewrite Forall_forall in Hf. apply Hf. apply in_or_app. right. exact Hy.
  - apply IH; auto.
Qed.

Lemma topo_app_l ds (l1 l2 : list nat) : topo ds (l1 ++ l2) -> topo ds l1.
Proof.
  induction l2 as [|x l2 IH] using rev_ind; intros H.
  - rewrite app_nil_r in H. exact H.
  - rewrite app_assoc in H. inversion H as [E|s i Hs Hv Hn Hd E].
    + symmetry in E. apply app_eq_nil in E. destruct E as [_ E]. discriminate E.
    + apply app_inj_tail in E. destruct E as [-> ->]. apply IH. exact Hs.
Qed.

Lemma topo_last ds (l : list nat) (i : nat) : topo ds (l ++ [i]) ->
  valid ds i /\ ~ In i l /\ (dsf ds i = i \/ In (dsf ds i) l).
Proof.
  intros H. inversion H as [E|s j Hs Hv Hn Hd E].
  - symmetry in E. apply app_eq_nil in E. destruct E as [_ E]. discriminate E.
  - apply app_inj_tail in E. destruct E as [-> ->]. auto.
Qed.

(* ---------- the instrumented step ---------- *)
Definition gstate := (list Z * list nat * list nat * list Z)%type.

Section Step.
Variables (ds main : list nat) (uparea : list Z) (amin : Z).
Notation n := (length ds).
Notation a c := (nth c uparea 0).

Definition astep (s : gstate) (idx : nat) : gstate :=
  let '(U, os, lab, own) := s in
  let p := dsf ds idx in
  let m := nth p main n in
  let x0 := nth p lab 0%nat in
  if (p =? idx)%nat then (U, os ++ [idx], upd lab idx idx, upd own idx (a idx))
  else if (nth p U 0 - a idx >? amin) && (a idx >? amin) then
    if negb (m =? idx)%nat then
      (upd (upd (upd U idx (a idx)) p (nth p U 0 - a idx)) m (nth p U 0 - a idx),
       os ++ [idx], upd lab idx idx, upd (upd own x0 (nth x0 own 0 - a idx)) idx (a idx))
    else if a p - a idx >? amin then (U, os, upd lab idx x0, own)
    else (upd U idx (a idx), os ++ [idx], upd lab idx idx, upd (upd own x0 (nth x0 own 0 - a idx)) idx (a idx))
  else (upd U idx (nth p U 0), os, upd lab idx x0, own).

Definition gU (s : gstate) : list Z := fst (fst (fst s)).
Definition gO (s : gstate) : list nat := snd (fst (fst s)).
Definition gL (s : gstate) : list nat := snd (fst s).
Definition gW (s : gstate) : list Z := snd s.

Lemma astep_lenU s idx : length (gU (astep s idx)) = length (gU s).
Proof.
  destruct s as [[[U os] lab] own]. unfold astep, gU.
  destruct (dsf ds idx =? idx)%nat; [reflexivity|].
  destruct ((nth (dsf ds idx) U 0 - a idx >? amin) && (a idx >? amin)).
  - destruct (negb (nth (dsf ds idx) main n =? idx)%nat).
    + cbn [fst]. rewrite !upd_length. reflexivity.
    + destruct (a (dsf ds idx) - a idx >? amin); cbn [fst]; rewrite ?upd_length; reflexivity.
  - cbn [fst]. rewrite upd_length. reflexivity.
Qed.

Lemma astep_sim U sb os lab own idx : (dsf ds idx < length U)%nat ->
  let r := area_step ds main uparea amin (U, sb, os) idx in
  let r' := astep (U, os, lab, own) idx in
  fst (fst r) = gU r' /\ snd r = gO r'.
Proof.
  intros Hp. unfold area_step, astep, gU, gO.
  destruct (Nat.eqb_spec (dsf ds idx) idx) as [E|E]; [split; reflexivity|].
  destruct ((nth (dsf ds idx) U 0 - a idx >? amin) && (a idx >? amin)); [|split; reflexivity].
  destruct (nth (dsf ds idx) main n =? idx)%nat; cbn [negb orb].
  - rewrite orb_false_r. destruct (a (dsf ds idx) - a idx >? amin); cbn [negb]; split; reflexivity.
  - rewrite orb_true_r. cbn [fst snd].
    rewrite (nth_upd_neq U (dsf ds idx) idx (a idx) 0 E).
    rewrite (nth_upd_eq (upd U idx (a idx)) (dsf ds idx) (nth (dsf ds idx) U 0 - a idx) 0)
      by (rewrite upd_length; exact Hp).
    split; reflexivity.
Qed.

Lemma afold_sim l : forall U sb os lab own, length U = n -> (forall x, In x l -> (dsf ds x < n)%nat) ->
  let r := fold_left (area_step ds main uparea amin) l (U, sb, os) in
  let r' := fold_left astep l (U, os, lab, own) in
  fst (fst r) = gU r' /\ snd r = gO r'.
Proof.
  induction l as [|i l IH]; intros U sb os lab own HU Hl; cbn [fold_left].
  - split; reflexivity.
  - assert (Hi : (dsf ds i < length U)%nat) by (rewrite HU; apply Hl; left; reflexivity).
    destruct (astep_sim U sb os lab own i Hi) as [E1 E2].
    assert (HU' : length (gU (astep (U, os, lab, own) i)) = n).
    { rewrite astep_lenU. exact HU. }
    destruct (area_step ds main uparea amin (U, sb, os) i) as [[U1 sb1] os1].
    destruct (astep (U, os, lab, own) i) as [[[U2 os2] lab2] own2].
    unfold gU, gO in E1, E2, HU'. cbn [fst snd] in E1, E2, HU'. subst U2 os2.
    apply IH; auto. intros x Hx. apply Hl. right. exact Hx.
Qed.
End Step.

Print Assumptions afold_sim.
