(* C15: the faithful model of dem._adjust_elevation (for EVERY cost function, hence every element type) satisfies the whole 1-D contract, for every profile; hence the
   tree-level theorems hold for dem.adjust_elevation itself, without hypotheses on the fixer. *)
From Coq Require Import List Arith ZArith Lia Bool.
Import ListNotations.
From PF Require Import Arr Net Elev ElevSpec Fix1dSpec Fix1dMono.
Local Open Scope Z_scope.

Section C.
Variable cost : list Z -> mods -> Z.

Theorem fix1d_contract : contract (fix1d cost).
Proof.
  constructor.
  - apply fix1d_length.
  - intros l j Hj. destruct l as [|a t] eqn:El; [simpl in Hj; lia|]. rewrite <- El in *.
    assert (Hne : l <> []) by (rewrite El; discriminate).
    destruct (zn_bounds l) as [lo [hi Hb]].
    destruct (fix1d_contract_all cost l lo hi Hne) as (Hl & Hm & _).
    { intros x Hx. apply (In_nth _ _ 0) in Hx. destruct Hx as [k [_ <-]]. apply Hb. }
    apply Hm; [lia|]. rewrite <- Hl. exact Hj.
  - intros l. destruct l as [|a t] eqn:El; [reflexivity|]. rewrite <- El in *.
    assert (Hne : l <> []) by (rewrite El; discriminate).
    destruct (zn_bounds l) as [lo [hi Hb]].
    destruct (fix1d_contract_all cost l lo hi Hne) as (_ & _ & Hlast & _); [|exact Hlast].
    intros x Hx. apply (In_nth _ _ 0) in Hx. destruct Hx as [k [_ <-]]. apply Hb.
  - intros l lo hi Hw x Hx. destruct l as [|a t] eqn:El; [simpl in Hx; destruct Hx|]. rewrite <- El in *.
    assert (Hne : l <> []) by (rewrite El; discriminate).
    destruct (fix1d_contract_all cost l lo hi Hne Hw) as (Hl & _ & _ & Hr).
    apply (In_nth _ _ 0) in Hx. destruct Hx as [k [Hk <-]]. apply Hr. rewrite <- Hl. exact Hk.
  - apply fix1d_identity_on_sorted.
Qed.

(* dem.adjust_elevation itself *)
Theorem adjust_elevation_spec ds sq elv lo hi : topo ds sq -> complete ds sq -> length elv = length ds ->
  (forall i, valid ds i -> lo <= zn elv i <= hi) ->
  let out := adjust (fix1d cost) ds sq elv in
  length out = length elv /\
  (forall i, valid ds i -> dsf ds i <> i -> zn out (dsf ds i) <= zn out i) /\
  (forall i, ~ valid ds i -> zn out i = zn elv i) /\
  (forall i, valid ds i -> lo <= zn out i <= hi) /\
  adjust (fix1d cost) ds sq out = out /\
  ((forall i, valid ds i -> dsf ds i <> i -> zn elv (dsf ds i) <= zn elv i) -> out = elv).
Proof.
  intros Ht Hc Hl Hr out.
  destruct (adjust_tree (fix1d cost) ds sq elv lo hi fix1d_contract Ht Hc Hl Hr) as (A & B & C & D).
  split; [exact A|]. split; [exact B|]. split; [exact C|]. split; [exact D|]. split.
  - apply adjust_idempotent; auto. apply fix1d_contract.
  - intros Hconf. apply adjust_conforming_fixed; auto. apply fix1d_contract.
Qed.
End C.
