(* C16: index integer types.  0 = int32, 1 = uint32, 2 = uint64, 3 = int64 (intp). *)
From Coq Require Import List Arith ZArith Lia Bool.
Import ListNotations.
From PFG Require Import GenDtype.
Local Open Scope Z_scope.

Definition lo (t : Z) : Z := if t =? 0 then - 2 ^ 31 else if t =? 3 then - 2 ^ 63 else 0.
Definition hi (t : Z) : Z := if t =? 0 then 2 ^ 31 - 1 else if t =? 1 then 2 ^ 32 - 1 else if t =? 2 then 2 ^ 64 - 1 else 2 ^ 63 - 1.
(* core._mv = -1 cast to the type: -1 for signed types, the maximum for unsigned ones *)
Definition sentinel (t : Z) : Z := if (t =? 0) || (t =? 3) then -1 else hi t.
Definition representable (t v : Z) : Prop := lo t <= v <= hi t.

(* the type pyflwdir.from_array selects for a raster of n cells represents every cell index, and its
   sentinel is representable and is not a cell index *)
Theorem dtype_selection_sound n : 0 <= n < 2 ^ 64 - 1 ->
  let t := select_dtype n in
  representable t (sentinel t) /\ forall i, 0 <= i < n -> representable t i /\ i <> sentinel t.
Proof.
  intros Hn t. unfold t, select_dtype.
  destruct (Z.ltb_spec n 2147483647) as [H1|H1].
  - unfold representable, sentinel, lo, hi; simpl. split; [lia|]. intros i Hi. lia.
  - destruct (Z.ltb_spec n 4294967294) as [H2|H2].
    + unfold representable, sentinel, lo, hi; simpl. split; [lia|]. intros i Hi. lia.
    + unfold representable, sentinel, lo, hi; simpl. split; [lia|]. intros i Hi. lia.
Qed.

(* encoding a network (nodata = size) in type t and decoding it again *)
Definition encode_net (t : Z) (g : list nat) : list Z :=
  map (fun d => if (length g <=? d)%nat then sentinel t else Z.of_nat d) g.
Definition decode_net (t : Z) (l : list Z) : list nat :=
  map (fun v => if v =? sentinel t then length l else Z.to_nat v) l.

Theorem sentinel_roundtrip t g : (forall d, In d g -> (d <= length g)%nat) -> Z.of_nat (length g) <= hi t ->
  (0 <= t <= 3) -> (forall d, In d g -> (d < length g)%nat -> Z.of_nat d <> sentinel t) ->
  decode_net t (encode_net t g) = g.
Proof.
  intros Hc Hh Ht Hs. unfold decode_net, encode_net. rewrite map_length, map_map.
  rewrite <- (map_id g) at 2. apply map_ext_in. intros d Hd.
  destruct (Nat.leb_spec (length g) d) as [H|H].
  - rewrite Z.eqb_refl. specialize (Hc d Hd). lia.
  - destruct (Z.eqb_spec (Z.of_nat d) (sentinel t)) as [E|E]; [exfalso; apply (Hs d Hd H E)|]. apply Nat2Z.id.
Qed.

(* the sentinel never collides with an index of a network that fits the selected type *)
Corollary selected_roundtrip g : Z.of_nat (length g) < 2 ^ 64 - 1 -> (forall d, In d g -> (d <= length g)%nat) ->
  decode_net (select_dtype (Z.of_nat (length g))) (encode_net (select_dtype (Z.of_nat (length g))) g) = g.
Proof.
  intros Hn Hc. set (n := Z.of_nat (length g)) in *.
  destruct (dtype_selection_sound n ltac:(lia)) as [Hr Hi].
  assert (Ht : 0 <= select_dtype n <= 3) by (unfold select_dtype; destruct (n <? 2147483647), (n <? 4294967294); lia).
  apply sentinel_roundtrip; auto.
  - unfold select_dtype, hi. destruct (Z.ltb_spec n 2147483647); simpl; [lia|]. destruct (Z.ltb_spec n 4294967294); simpl; lia.
  - intros d Hd Hlt. apply Hi. unfold n. lia.
Qed.

(* same-type subtraction of unsigned indices wraps: the reason index arithmetic must be done on Python ints *)
Definition usub (w : Z) (a b : Z) : Z := (a - b) mod 2 ^ w.
Lemma usub_wraps : usub 32 5 7 = 4294967294 /\ Z.abs (5 - 7) = 2.
Proof. vm_compute. auto. Qed.
Lemma usub_ok w a b : 0 <= b <= a -> a < 2 ^ w -> usub w a b = a - b.
Proof. intros H1 H2. unfold usub. apply Z.mod_small. lia. Qed.
