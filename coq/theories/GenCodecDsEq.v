(* core_d8._downstream_idx and core_ldd._downstream_idx, REGENERATED from the Python source (generated/GenCodec.v).  The library
   does not call these helpers and Codec.v has no model of them, so the model is stated here with the pieces of the decoder
   model (Codec.target_rc, Codec.outside): the linear index of the target cell, or the missing value of index arrays (the
   number of cells) when the target is off the raster.  Hypothesis: idx0 is a cell of the raster.  No axioms. *)
From Coq Require Import List Arith ZArith Bool Lia.
Import ListNotations.
From PF Require Import Arr Net Codec CodecSpec GenCodecBaseEq.
From PFG Require Import GenTables GenDrdc GenCodec.
Local Open Scope Z_scope.

Definition downstream_idx (drdc : Z -> Z * Z) (mv : Z) (nrow ncol : nat) (flw : list Z) (idx0 : nat) : nat :=
  let '(r, c) := target_rc drdc mv ncol flw idx0 in
  if outside nrow ncol r c then length flw else Z.to_nat (c + r * Z.of_nat ncol).

Lemma inside_outside nrow ncol r c :
  ((((r >=? 0) && (r <? Z.of_nat nrow)) && (c >=? 0)) && (c <? Z.of_nat ncol)) = negb (outside nrow ncol r c).
Proof.
  destruct (outside nrow ncol r c) eqn:E; cbn [negb].
  - apply not_true_is_false. intros H. rewrite !andb_true_iff, !Z.geb_le, !Z.ltb_lt in H.
    assert (F : outside nrow ncol r c = false) by (apply outside_false; lia). congruence.
  - apply outside_false in E. rewrite !andb_true_iff, !Z.geb_le, !Z.ltb_lt. lia.
Qed.

Ltac ds_tac f mv :=
  let nrow := fresh "nrow" in let ncol := fresh "ncol" in let flw := fresh "flw" in let i := fresh "i" in let Hi := fresh "Hi" in
  intros nrow ncol flw i Hi; unfold f, downstream_idx, target_rc, cell; cbv beta iota zeta;
  rewrite (nth_indep flw mv 0 Hi); rewrite <- zdiv_nat, <- zmod_nat;
  destruct (_ (nth i flw 0)) as [dr dc]; rewrite inside_outside;
  destruct (outside _ _ _ _); reflexivity.

Theorem gen_d8__downstream_idx_eq : forall nrow ncol flw idx0, (idx0 < length flw)%nat ->
  gen_d8__downstream_idx idx0 flw (Z.of_nat nrow, Z.of_nat ncol) = downstream_idx d8_drdc d8_mv nrow ncol flw idx0.
Proof. ds_tac gen_d8__downstream_idx d8_mv. Qed.

Theorem gen_ldd__downstream_idx_eq : forall nrow ncol flw idx0, (idx0 < length flw)%nat ->
  gen_ldd__downstream_idx idx0 flw (Z.of_nat nrow, Z.of_nat ncol) = downstream_idx ldd_drdc ldd_mv nrow ncol flw idx0.
Proof. ds_tac gen_ldd__downstream_idx ldd_mv. Qed.

(* the helper and the decoder agree: a cell of the network that is not a pit drains to the cell the helper returns *)
Theorem downstream_idx_decode : forall drdc mv nrow ncol flw idx0,
  let t := downstream_idx drdc mv nrow ncol flw idx0 in
  decode_cell drdc mv nrow ncol flw idx0 <> (nrow * ncol)%nat -> decode_cell drdc mv nrow ncol flw idx0 <> idx0 ->
  decode_cell drdc mv nrow ncol flw idx0 = t.
Proof.
  intros drdc mv nrow ncol flw i t. unfold t, downstream_idx, decode_cell.
  destruct (cell mv flw i =? mv); [intros H; exfalso; apply H; reflexivity|].
  unfold target_rc. destruct (drdc (cell mv flw i)) as [dr dc].
  destruct ((dr =? 0) && (dc =? 0)); cbn [orb]; [intros _ H; exfalso; apply H; reflexivity|].
  destruct (outside nrow ncol _ _); cbn [orb]; [intros _ H; exfalso; apply H; reflexivity|].
  destruct (_ =? mv); [intros _ H; exfalso; apply H; reflexivity|]. reflexivity.
Qed.

Print Assumptions gen_d8__downstream_idx_eq.
Print Assumptions gen_ldd__downstream_idx_eq.
Print Assumptions downstream_idx_decode.
