(* Conversion glue between the wire format of the correspondence harness
   (lists of lists of Z) and the model's types.  Shared by all Run*.v files. *)
From Coq Require Import List Arith ZArith Bool.
Import ListNotations.
Open Scope Z_scope.

Definition arg (k : nat) (args : list (list Z)) : list Z := nth k args [].
Definition argz (k : nat) (args : list (list Z)) : Z := hd 0 (arg k args).
Definition argn (k : nat) (args : list (list Z)) : nat := Z.to_nat (argz k args).
Definition ns (l : list Z) : list nat := map Z.to_nat l.
Definition zs (l : list nat) : list Z := map Z.of_nat l.
Definition bs (l : list Z) : list bool := map (fun v => negb (v =? 0)) l.
Definition zb (b : bool) : Z := if b then 1 else 0.
(* network on the wire: -1 (any negative) = nodata; in the model: nodata = length *)
Definition net_in (l : list Z) : list nat :=
  let n := length l in map (fun v => if v <? 0 then n else Z.to_nat v) l.
Definition net_out (l : list nat) : list Z :=
  let n := length l in map (fun d => if (n <=? d)%nat then -1 else Z.of_nat d) l.
(* index lists that may contain the sentinel *)
Definition idx_out (n : nat) (l : list nat) : list Z :=
  map (fun d => if (n <=? d)%nat then -1 else Z.of_nat d) l.

(* index list whose sentinel (-1) must map to the size of ANOTHER array *)
Definition net_in_n (n : nat) (l : list Z) : list nat := map (fun v => if v <? 0 then n else Z.to_nat v) l.
