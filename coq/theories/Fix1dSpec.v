(* C15, the 1-D fixer: what is proved of the faithful model fix1d for ALL profiles (length kept, identity on
   non-increasing profiles) and the full contract for all profiles up to a stated bound (kernel evaluation). *)
From Coq Require Import List Arith ZArith Bool Lia.
Import ListNotations.
From PF Require Import Arr Net Elev ElevSpec DigSpec.
Local Open Scope Z_scope.

Section C.
Variable cost : list Z -> mods -> Z.

(* ---------- length ---------- *)

Lemma fix_pit_length e im imax i zmin zmax : length (fix_pit cost e im imax i zmin zmax) = length e.
Proof.
  unfold fix_pit.
  destruct (cost e (map (fun k => (k, Z.max zmax (zn e k))) (rng 0 imax)) <?
            cost e (map (fun k => (k, Z.min zmin (zn e k))) (rng im i))).
  - destruct (fold_left _ _ _) as [[[a b] c] mb]. apply apply_mods_length.
  - destruct (fold_left _ _ _) as [[[a b] c] mb]. apply apply_mods_length.
Qed.

Lemma fix_step_length n s i : length (fe (fix_step cost n s i)) = length (fe s).
Proof.
  unfold fix_step.
  destruct (zn (fe s) i >=? fzmax s);
  match goal with |- context [if ?c then _ else _] => destruct c end; simpl; auto;
  destruct (fimin s); auto using fix_pit_length.
Qed.

Theorem fix1d_length e : length (fix1d cost e) = length e.
Proof.
  unfold fix1d. destruct e as [|e0 t]; auto.
  set (n := length (e0 :: t)).
  assert (G : forall l s, length (fe (fold_left (fix_step cost n) l s)) = length (fe s)).
  { induction l as [|i l IH]; intros s; simpl; auto. rewrite IH. apply fix_step_length. }
  rewrite G. simpl. rewrite map_length. reflexivity.
Qed.

(* ---------- identity on non-increasing profiles ---------- *)

Lemma nonincr_le l a b : nonincr l -> (a <= b)%nat -> (b < length l)%nat -> zn l b <= zn l a.
Proof.
  intros Hn Hab Hb. induction b as [|b IH]; [assert (a = 0)%nat by lia; subst; lia|].
  destruct (Nat.eq_dec a (S b)) as [->|Hne]; [lia|].
  specialize (Hn b Hb). assert (zn l b <= zn l a) by (apply IH; lia). lia.
Qed.

Lemma map_max_id l z : (forall x, In x l -> z <= x) -> map (Z.max z) l = l.
Proof. induction l as [|h t IH]; intros H; simpl; auto. rewrite IH by (intros x Hx; apply H; right; auto).
  f_equal. specialize (H h (or_introl eq_refl)). lia. Qed.

Lemma fix_step_quiet n s a e : fe s = e -> fimin s = None -> zn e a <= fz1 s ->
  fe (fix_step cost n s a) = e /\ fimin (fix_step cost n s a) = None /\ fz1 (fix_step cost n s a) = zn e a.
Proof.
  intros Hfe Him Hle. unfold fix_step. rewrite Hfe, Him.
  assert (Hg : (zn e a >? fz1 s) = false) by (rewrite Z.gtb_ltb; apply Z.ltb_ge; lia).
  rewrite Hg. destruct (zn e a >=? fzmax s); simpl; auto.
Qed.

Theorem fix1d_identity_on_sorted e : nonincr e -> fix1d cost e = e.
Proof.
  intros Hn. unfold fix1d. destruct e as [|e0 t]; auto.
  set (e := e0 :: t) in *. set (n := length e).
  assert (He1 : map (Z.max (zn e (n - 1))) e = e).
  { apply map_max_id. intros x Hx. apply (In_nth _ _ 0) in Hx. destruct Hx as [j [Hj <-]].
    apply (nonincr_le e j (n - 1)); auto; unfold n in *; lia. }
  rewrite He1.
  (* invariant: nothing was touched, no pit was seen, z1 is the previous value *)
  assert (G : forall len a s, (a + len <= n)%nat -> fe s = e -> fimin s = None -> fz1 s = zn e (a - 1) ->
            fe (fold_left (fix_step cost n) (seq a len) s) = e).
  { induction len as [|len IH]; intros a s Hb Hfe Him Hz1; simpl; auto.
    assert (Hle : zn e a <= fz1 s) by (rewrite Hz1; apply nonincr_le; auto; unfold n in *; lia).
    destruct (fix_step_quiet n s a e Hfe Him Hle) as [H1 [H2 H3]].
    apply IH; try lia; auto. rewrite H3. f_equal. lia. }
  apply G; simpl; auto.
Qed.

(* ---------- the full contract, decided by evaluation for every profile up to a bound ---------- *)

Fixpoint nonincrb (l : list Z) : bool :=
  match l with
  | a :: ((b :: _) as t) => (b <=? a) && nonincrb t
  | _ => true
  end.

Lemma nonincrb_nonincr l : nonincrb l = true -> nonincr l.
Proof.
  induction l as [|a t IH]; intros H j Hj; [simpl in Hj; lia|].
  destruct t as [|b t']; [simpl in Hj; lia|].
  cbn [nonincrb] in H. apply andb_true_iff in H. destruct H as [H1 H2]. apply Z.leb_le in H1.
  destruct j as [|j]; [unfold zn; simpl; auto|].
  unfold zn. cbn [nth]. apply (IH H2 j). simpl in *. lia.
Qed.

Definition kb (l : list Z) : bool :=
  let r := fix1d cost l in
  let lo := fold_right Z.min (zn l 0) l in
  let hi := fold_right Z.max (zn l 0) l in
  (length r =? length l)%nat && nonincrb r && (zn r (length l - 1) =? zn l (length l - 1)) &&
  forallb (fun x => (lo <=? x) && (x <=? hi)) r.

Fixpoint lists_of_len (vals : list Z) (k : nat) : list (list Z) :=
  match k with
  | O => [[]]
  | S k' => flat_map (fun x => map (cons x) (lists_of_len vals k')) vals
  end.

Lemma in_lists vals l : Forall (fun x => In x vals) l -> In l (lists_of_len vals (length l)).
Proof. induction 1 as [|x l Hx Hl IH]; simpl; [auto|].
  apply in_flat_map. exists x. split; auto. apply in_map. exact IH. Qed.

Definition bounded_ok (vals : list Z) (L : nat) : bool :=
  forallb (fun k => forallb kb (lists_of_len vals k)) (seq 0 (S L)).

Lemma fold_min_le l d x : In x l -> fold_right Z.min d l <= x.
Proof. induction l as [|h t IH]; simpl; [tauto|]. intros [<-|H]; [lia|]. specialize (IH H). lia. Qed.
Lemma fold_max_ge l d x : In x l -> x <= fold_right Z.max d l.
Proof. induction l as [|h t IH]; simpl; [tauto|]. intros [<-|H]; [lia|]. specialize (IH H). lia. Qed.
Lemma fold_min_ge l d lo : lo <= d -> (forall x, In x l -> lo <= x) -> lo <= fold_right Z.min d l.
Proof. intros Hd. induction l as [|h t IH]; simpl; intros H; [auto|].
  assert (lo <= h) by (apply H; auto). assert (lo <= fold_right Z.min d t) by (apply IH; intros; apply H; auto). lia. Qed.
Lemma fold_max_le l d hi : d <= hi -> (forall x, In x l -> x <= hi) -> fold_right Z.max d l <= hi.
Proof. intros Hd. induction l as [|h t IH]; simpl; intros H; [auto|].
  assert (h <= hi) by (apply H; auto). assert (fold_right Z.max d t <= hi) by (apply IH; intros; apply H; auto). lia. Qed.

Lemma kb_sound l : l <> [] -> kb l = true ->
  length (fix1d cost l) = length l /\ nonincr (fix1d cost l) /\
  zn (fix1d cost l) (length l - 1) = zn l (length l - 1) /\
  (forall lo hi, within lo hi l -> within lo hi (fix1d cost l)).
Proof.
  intros Hne H. unfold kb in H. rewrite !andb_true_iff in H. destruct H as [[[H1 H2] H3] H4].
  apply Nat.eqb_eq in H1. apply nonincrb_nonincr in H2. apply Z.eqb_eq in H3.
  split; [auto|split; [auto|split; [auto|]]].
  intros lo' hi' Hw x Hx. rewrite forallb_forall in H4. specialize (H4 x Hx).
  apply andb_true_iff in H4. destruct H4 as [Ha Hb]. apply Z.leb_le in Ha. apply Z.leb_le in Hb.
  assert (H0 : In (zn l 0) l) by (destruct l; [congruence|left; reflexivity]).
  assert (lo' <= fold_right Z.min (zn l 0) l) by (apply fold_min_ge; [apply Hw; auto|intros y Hy; apply Hw; auto]).
  assert (fold_right Z.max (zn l 0) l <= hi') by (apply fold_max_le; [apply Hw; auto|intros y Hy; apply Hw; auto]).
  lia.
Qed.

Theorem bounded_lift vals L : bounded_ok vals L = true ->
  forall l, l <> [] -> (length l <= L)%nat -> Forall (fun x => In x vals) l ->
  length (fix1d cost l) = length l /\ nonincr (fix1d cost l) /\
  zn (fix1d cost l) (length l - 1) = zn l (length l - 1) /\
  (forall lo hi, within lo hi l -> within lo hi (fix1d cost l)).
Proof.
  intros Hb l Hne HL Hv. apply kb_sound; auto.
  unfold bounded_ok in Hb. rewrite forallb_forall in Hb.
  specialize (Hb (length l)). rewrite forallb_forall in Hb. apply Hb; [apply in_seq; lia|].
  apply in_lists. auto.
Qed.

End C.

(* every profile of length <= 7 over {0,1,2,3,4}: 97 656 profiles (exact cost) *)
Lemma bounded_7_5 : bounded_ok cost_exact [0; 1; 2; 3; 4] 7 = true.
Proof. vm_compute. reflexivity. Qed.

Theorem fix1d_contract_bounded l : l <> [] -> (length l <= 7)%nat -> Forall (fun x => 0 <= x <= 4) l ->
  length (fix1d cost_exact l) = length l /\ nonincr (fix1d cost_exact l) /\
  zn (fix1d cost_exact l) (length l - 1) = zn l (length l - 1) /\
  (forall lo hi, within lo hi l -> within lo hi (fix1d cost_exact l)).
Proof.
  intros Hne HL Hv. apply (bounded_lift cost_exact [0; 1; 2; 3; 4] 7 bounded_7_5); auto.
  eapply Forall_impl; [|exact Hv]. intros x Hx. simpl. cbv beta in Hx.
  assert (x = 0 \/ x = 1 \/ x = 2 \/ x = 3 \/ x = 4) by lia. intuition.
Qed.
