(* core.fillnodata_downstream and dem.height_above_nearest_drain, REGENERATED from the Python source
   (generated/GenLoops.v), equal the hand-written models of Ops.v that the theorems of C14 are about.  The source keeps
   the filled values and the "holds a value" flags in two arrays; the model sweeps one array of pairs. *)
From Coq Require Import List Arith ZArith Bool Lia.
Import ListNotations.
From PF Require Import Arr Net SweepDown SweepUp Ops AccuSpec.
From PFG Require Import GenLoops.
Local Open Scope Z_scope.

(* ---------- height above the nearest drain ---------- *)
Theorem gen_hand_eq ds sq drain elv : length drain = length ds ->
  gen_height_above_nearest_drain ds sq drain elv = hand ds sq drain elv.
Proof.
  intros Hl. unfold gen_height_above_nearest_drain, hand, sweep_down. cbv zeta. rewrite Hl.
  apply fold_ext. intros a i. unfold gen_height_above_nearest_drain_step, dstep, hand_f.
  change (nth i ds (length ds)) with (dsf ds i).
  destruct (nth i drain false); cbn [negb]; [symmetry; apply upd_same|reflexivity].
Qed.

(* ---------- fill downstream ---------- *)
Lemma combine_upd_zb (vs : list Z) (fs : list bool) i x y : length vs = length fs ->
  upd (combine vs fs) i (x, y) = combine (upd vs i x) (upd fs i y).
Proof.
  revert fs i. induction vs as [|a vs IH]; intros fs i Hl; destruct fs as [|b fs]; try discriminate; [destruct i; reflexivity|].
  destruct i as [|i]; cbn [upd combine]; [reflexivity|]. f_equal. apply IH. simpl in Hl. lia.
Qed.

Lemma nth_combine_zb (vs : list Z) (fs : list bool) i : length vs = length fs ->
  nth i (combine vs fs) (0, false) = (nth i vs 0, nth i fs false).
Proof. intros Hl. apply combine_nth. exact Hl. Qed.

Section FillDown.
Variable ds : list nat.
Variable data : list Z.
Variable nodata how : Z.
Notation gstep := (gen_fillnodata_downstream_step ds (@nil nat) data nodata how).

Lemma gstep_sim vs fs i : length vs = length fs ->
  let r := gstep (vs, fs) i in
  length (fst r) = length (snd r) /\
  ustep ds (0, false) (fun _ x => x) (fdown_g ds data nodata how) (combine vs fs) i = combine (fst r) (snd r).
Proof.
  intros Hl. unfold gen_fillnodata_downstream_step, ustep. change (nth i ds (length ds)) with (dsf ds i).
  rewrite upd_same.
  destruct (Nat.eqb_spec (dsf ds i) i) as [E|E]; cbn [fst snd]; [split; auto|].
  unfold fdown_g. rewrite !(nth_combine_zb vs fs _ Hl). cbn [fst snd].
  destruct ((nth (dsf ds i) data 0 =? nodata) && nth i fs false) eqn:C; cbn [fst snd].
  - destruct (nth (dsf ds i) fs false) eqn:F; cbn [negb fst snd].
    + (* merge *)
      assert (Hfs : upd fs (dsf ds i) true = fs).
      { transitivity (upd fs (dsf ds i) (nth (dsf ds i) fs false)); [f_equal; symmetry; exact F|apply upd_same]. }
      rewrite (combine_upd_zb vs fs _ _ _ Hl), Hfs. unfold merge.
      destruct (Z.eqb_spec how 1) as [H1|H1].
      * subst how. cbn [Z.eqb fst snd]. rewrite upd_length. split; auto.
      * destruct (how =? 0); cbn [fst snd]; rewrite upd_length; split; auto.
        rewrite (Z.add_comm (nth (dsf ds i) vs 0)). reflexivity.
    + rewrite !upd_length. split; auto. rewrite (combine_upd_zb vs fs _ _ _ Hl). reflexivity.
  - split; auto. rewrite <- (nth_combine_zb vs fs _ Hl). apply upd_same.
Qed.

Lemma fold_sim_fd P : forall vs fs, length vs = length fs ->
  let r := fold_left gstep P (vs, fs) in
  length (fst r) = length (snd r) /\
  fold_left (ustep ds (0, false) (fun _ x => x) (fdown_g ds data nodata how)) P (combine vs fs) = combine (fst r) (snd r).
Proof.
  induction P as [|i P IH]; intros vs fs Hl; cbn [fold_left]; [split; auto|].
  destruct (gstep_sim vs fs i Hl) as [Hl' Hs]. cbv zeta in Hl', Hs.
  destruct (gstep (vs, fs) i) as [vs' fs'] eqn:Eg. cbn [fst snd] in *. rewrite Hs. apply IH. exact Hl'.
Qed.
End FillDown.

Lemma combine_map_flag (data : list Z) nodata :
  combine data (map (fun v => negb (v =? nodata)) data) = map (fun v => (v, negb (v =? nodata))) data.
Proof. induction data as [|a l IH]; cbn [map combine]; [reflexivity|]. f_equal. exact IH. Qed.

Lemma map_fst_combine_zb (vs : list Z) (fs : list bool) : length vs = length fs -> map fst (combine vs fs) = vs.
Proof. revert fs. induction vs as [|a vs IH]; intros [|b fs] Hl; try discriminate; cbn [combine map fst]; [reflexivity|].
  f_equal. apply IH. simpl in Hl. lia. Qed.

Theorem gen_fillnodata_downstream_eq ds sq data nodata how :
  gen_fillnodata_downstream ds sq data nodata how = fillnodata_downstream ds sq data nodata how.
Proof.
  unfold gen_fillnodata_downstream, fillnodata_downstream, fill_pairs, sweep_up. cbv zeta.
  destruct (fold_sim_fd ds data nodata how (rev sq) data (map (fun v => negb (v =? nodata)) data)) as [Hl Hs];
    [rewrite map_length; reflexivity|].
  cbv zeta in Hl, Hs. rewrite combine_map_flag in Hs.
  rewrite (fold_ext _ (gen_fillnodata_downstream_step ds [] data nodata how)) by (intros; reflexivity).
  rewrite Hs. symmetry. apply map_fst_combine_zb. exact Hl.
Qed.

(* ---------- distance along the network to the outlet / next masked cell ---------- *)
Theorem gen_stream_distance_eq ds sq mask real steplen :
  gen_stream_distance ds sq mask real steplen = stream_distance ds sq mask (if real then steplen else fun _ _ => 1).
Proof.
  unfold gen_stream_distance, stream_distance, sweep_down. cbv zeta.
  apply fold_ext. intros a i. unfold gen_stream_distance_step, dstep, sdist_f. cbv zeta.
  change (nth i ds (length ds)) with (dsf ds i). rewrite (Nat.eqb_sym i).
  destruct ((dsf ds i =? i)%nat || match mask with None => false | Some m_ => nth i m_ false end).
  - symmetry. apply upd_same.
  - destruct real; reflexivity.
Qed.
