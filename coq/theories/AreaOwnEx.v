(* basins.subbasins_area, own-area bound: (1) the library's rank-sorted order (order_cells('sort')) is a level
   order, so the bound holds for it; (2) an instance (the hypotheses are satisfiable, the own areas computed);
   (3) the level-order hypothesis cannot be weakened to `topo`: counterexample with a topological order. *)
From Coq Require Import List Arith ZArith Lia Bool Sorted Permutation.
Import ListNotations.
From PF Require Import Arr Net SweepDown Fill FillSpec Rank RankSpec Stream StreamSpec Subbas SubbasSpec AreaOwnDefs AreaOwnInv AreaOwn.
Local Open Scope Z_scope.

(* ---------- (1) order_sort ---------- *)
Section Sort.
Variable ds : list nat.
Hypothesis Hwf : wf ds.

Lemma order_sort_closed : upstream_closed ds (order_sort ds).
Proof.
  destruct (order_sort_topo ds Hwf) as [Ht Hin]. intros c Hc Hd.
  apply Hin. apply Hin in Hd. apply drains_up; auto.
  split; [exact Hc|]. destruct (drains_valid ds _ Hd) as [H _]. exact H.
Qed.

Lemma rkn_steps c k : valid ds c -> steps ds c k -> rkn ds c = k.
Proof.
  intros Hv Hk. destruct (rank_spec ds Hwf) as [_ H]. destruct Hv as [Hc Hd].
  destruct (H c Hc) as (_ & H2 & _). unfold rkn. rewrite (proj1 (H2 (conj Hc Hd) k) Hk). lia.
Qed.

Lemma order_sort_level : level_order ds (order_sort ds).
Proof.
  destruct (order_sort_topo ds Hwf) as [Ht Hin]. exists (rkn ds). split.
  - intros c Hc Np. assert (Hd : drains ds c) by (apply Hin; exact Hc).
    assert (Hv := drains_valid ds c Hd). destruct (drains_steps ds c Hd) as [k Hk].
    destruct k as [|k]; [exfalso; apply Np; destruct Hk as [H _]; exact H|].
    assert (Hk' : steps ds (dsf ds c) k).
    { destruct Hk as [H1 H2]. split; [exact H1|]. intros m Hm. apply (H2 (S m)). lia. }
    rewrite (rkn_steps c (S k) Hv Hk). rewrite (rkn_steps (dsf ds c) k (Hwf c Hv) Hk'). reflexivity.
  - unfold order_sort.
    apply (sorted_weaken (fun a b => nth a (fst (rank ds)) RU <= nth b (fst (rank ds)) RU)).
    + intros x y H. unfold rkn. lia.
    + apply isort_sorted.
Qed.

Theorem area_own_bound_order_sort uparea amin :
  length uparea = length ds ->
  accumulates ds (order_sort ds) uparea ->
  let r := subbasins_area ds (order_sort ds) (main_upstream ds uparea 0) uparea amin in
  forall x, In x (snd r) -> dsf ds x <> x -> amin < own_area ds (fst r) uparea x.
Proof.
  intros Hlen Hac. apply area_own_bound; auto.
  - apply (order_sort_topo ds Hwf).
  - apply order_sort_closed.
  - apply order_sort_level.
Qed.
End Sort.

(* ---------- (2), (3): a 9-cell network ---------- *)
(*   0 (pit) <- 1, 2 ;  2 <- 3, 4 ;  3 <- 5, 6, 7 ;  5 <- 8     weights 1 20 1 1 4 1 4 4 4 *)
Definition ex_ds : list nat := [0; 0; 0; 2; 2; 3; 3; 3; 5]%nat.
Definition ex_w : list Z := [1; 20; 1; 1; 4; 1; 4; 4; 4].
Definition ex_upa : list Z := [40; 20; 19; 14; 4; 5; 4; 4; 4].
Definition ex_level : list nat := [0; 1; 2; 3; 4; 5; 6; 7; 8]%nat.     (* a level order *)
Definition ex_topo : list nat := [0; 1; 2; 3; 6; 5; 4; 7; 8]%nat.      (* topological, not a level order *)
Definition ex_main : list nat := main_upstream ex_ds ex_upa 0.

Lemma ex_closed sq : (forall c, (c < 9)%nat -> memb c sq = true) -> upstream_closed ex_ds sq.
Proof. intros H c Hc _. apply memb_In. apply H. exact Hc. Qed.

Lemma ex_all9 (P : nat -> Prop) : P 0%nat -> P 1%nat -> P 2%nat -> P 3%nat -> P 4%nat -> P 5%nat -> P 6%nat -> P 7%nat -> P 8%nat ->
  forall c, (c < 9)%nat -> P c.
Proof.
  intros H0 H1 H2 H3 H4 H5 H6 H7 H8 c Hc.
  do 9 (destruct c as [|c]; [assumption|]). lia.
Qed.

Lemma ex_accumulates sq : (forall d, In d sq -> (d < 9)%nat) -> accumulates ex_ds sq ex_upa.
Proof.
  intros Hb. exists (fun d => nth d ex_w 0). intros d Hd.
  apply (ex_all9 (fun d => 0 < nth d ex_w 0 /\
           nth d ex_upa 0 = nth d ex_w 0 + zsum (map (fun c => nth c ex_upa 0) (ups ex_ds d))));
    try (split; vm_compute; reflexivity). apply Hb. exact Hd.
Qed.

Lemma ex_bound sq : (forall c, (c < 9)%nat -> memb c sq = true) -> forallb (fun d => (d <? 9)%nat) sq = true ->
  upstream_closed ex_ds sq /\ accumulates ex_ds sq ex_upa.
Proof.
  intros H1 H2. split; [apply ex_closed; exact H1|]. apply ex_accumulates.
  intros d Hd. rewrite forallb_forall in H2. apply Nat.ltb_lt. apply H2. exact Hd.
Qed.

Lemma ex_memb_level : forall c, (c < 9)%nat -> memb c ex_level = true.
Proof. apply ex_all9; reflexivity. Qed.
Lemma ex_memb_topo : forall c, (c < 9)%nat -> memb c ex_topo = true.
Proof. apply ex_all9; reflexivity. Qed.

Definition ex_lev (c : nat) : nat := nth c [0; 1; 1; 2; 2; 3; 3; 3; 4]%nat 0%nat.

Lemma ex_level_order : level_order ex_ds ex_level.
Proof.
  exists ex_lev. split.
  - intros c Hc. assert (Hlt : (c < 9)%nat).
    { assert (H : forallb (fun d => (d <? 9)%nat) ex_level = true) by reflexivity.
      rewrite forallb_forall in H. apply Nat.ltb_lt. apply H. exact Hc. }
    clear Hc. revert c Hlt.
    apply (ex_all9 (fun c => dsf ex_ds c <> c -> ex_lev c = S (ex_lev (dsf ex_ds c)))); intros Np; try reflexivity.
    exfalso. apply Np. reflexivity.
  - unfold ex_level. repeat (apply SSorted_cons); [apply SSorted_nil|..];
      repeat (apply Forall_cons; [vm_compute; lia|]); apply Forall_nil.
Qed.

(* (2) all hypotheses of area_own_bound hold for the level order; threshold 3:
       outlets 0 (pit), 2, 4, 6, 7 with own areas 21, 7, 4, 4, 4 *)
Theorem ex_level_instance :
  topo ex_ds ex_level /\ upstream_closed ex_ds ex_level /\ level_order ex_ds ex_level /\
  length ex_upa = length ex_ds /\ accumulates ex_ds ex_level ex_upa /\
  let r := subbasins_area ex_ds ex_level ex_main ex_upa 3 in
  snd r = [0; 2; 4; 6; 7]%nat /\ fst r = [1; 1; 2; 2; 3; 2; 4; 5; 2] /\
  map (own_area ex_ds (fst r) ex_upa) (snd r) = [21; 7; 4; 4; 4].
Proof.
  destruct (ex_bound ex_level ex_memb_level eq_refl) as [H1 H2].
  split; [apply check_topo_sound; reflexivity|]. split; [exact H1|]. split; [exact ex_level_order|].
  split; [reflexivity|]. split; [exact H2|]. vm_compute. auto.
Qed.

(* (3) with the topological order ex_topo (cell 6, a tributary of 3, is visited before cell 4, a tributary of the
       downstream cell 2) every hypothesis except level_order holds, cell 2 is a returned outlet that is not a pit,
       and its own area 19 - 4 - 4 - 4 - 4 = 3 is not above the threshold 3 *)
Theorem area_own_bound_needs_level_order :
  exists ds sq main uparea amin x,
    topo ds sq /\ upstream_closed ds sq /\ length uparea = length ds /\ accumulates ds sq uparea /\
    main = main_upstream ds uparea 0 /\
    In x (snd (subbasins_area ds sq main uparea amin)) /\ dsf ds x <> x /\
    ~ (amin < own_area ds (fst (subbasins_area ds sq main uparea amin)) uparea x).
Proof.
  exists ex_ds, ex_topo, ex_main, ex_upa, 3, 2%nat.
  destruct (ex_bound ex_topo ex_memb_topo eq_refl) as [H1 H2].
  split; [apply check_topo_sound; reflexivity|]. split; [exact H1|]. split; [reflexivity|]. split; [exact H2|].
  split; [reflexivity|]. split; [|split].
  - apply memb_In. vm_compute. reflexivity.
  - vm_compute. discriminate.
  - vm_compute. intros H. discriminate H.
Qed.

Print Assumptions area_own_bound_order_sort.
Print Assumptions ex_level_instance.
Print Assumptions area_own_bound_needs_level_order.
