(* upscale.new_outlet, REGENERATED from the Python source (generated/GenIhu.v by tools/gen_ihu.py), equals the hand model
   Ihu.new_outlet.  The generated function returns None when a `while True` walk runs out of fuel; the model sets its error
   flag to 1 and goes on: the two agree as `Some (arrays, success)` when the model's flag stays 0 and as None otherwise.
   Hypothesis (from outlet_pix, see GenIhuBaseEq.v): no pixel of the cell idx0 whose downstream pixel is missing has the cell
   of the stand-in of the missing value equal to idx0.  No axioms. *)
From Coq Require Import List Arith ZArith Bool Lia.
Import ListNotations.
From PF Require Import Arr Net Elev Upscale D8Idx Ihu GenCodecBaseEq GenUpscaleBaseEq GenIhuBaseEq.
From PFG Require Import GenUpscale GenIhu.

(* ---------- small facts ---------- *)
Lemma zgtb4_nat n c : (4 * Z.of_nat n >? Z.of_nat c)%Z = (c <? 4 * n)%nat.
Proof.
  rewrite Z.gtb_ltb. destruct (Z.ltb_spec (Z.of_nat c) (4 * Z.of_nat n)); destruct (Nat.ltb_spec c (4 * n)); try reflexivity; lia.
Qed.

Lemma zeqb1_nat n : (Z.of_nat n =? 1)%Z = (n =? 1)%nat.
Proof. change 1%Z with (Z.of_nat 1). apply zeqb_nat. Qed.

(* a loop over the positions of a list that reads the list = a loop over the list *)
Lemma ofold_seq_nth {T : Type} (f g : T -> nat -> option T) (d : nat) : forall (l : list nat) (k : nat) (s : T),
  (forall st i, (i < length l)%nat -> f st (k + i)%nat = g st (nth i l d)) ->
  GenIhu.ofold f (seq k (length l)) s = GenIhu.ofold g l s.
Proof.
  induction l as [|x l IH]; intros k s H; cbn [length seq]; [reflexivity|].
  rewrite !ofold_cons.
  pose proof (H s 0%nat) as H0. rewrite Nat.add_0_r in H0. cbn [nth length] in H0. rewrite H0 by lia.
  destruct (g s x) as [s'|]; [|reflexivity].
  apply IH. intros st i Hi. replace (S k + i)%nat with (k + S i)%nat by lia. rewrite H by (cbn [length]; lia). reflexivity.
Qed.

Section NewOutlet.
Variable sds : list nat.
Variable upa : list Z.
Variables subncol cs ncol : nat.
Notation nsub := (length sds).

(* Ihu.no_walk without the local abbreviations of its section *)
Fixpoint nw (fuel : nat) (st : list Z) (subidx : nat) (rpath : list nat) : option (nat * nat * list nat) :=
  match fuel with
  | O => None
  | S f =>
    let s1 := sd sds subidx in
    if (0 <=? nth s1 st (-9)%Z)%Z || (subidx =? s1)%nat then Some (subidx, s1, s1 :: rpath)
    else nw f st s1 (s1 :: rpath)
  end.

Lemma no_walk_nw : no_walk sds = nw.
Proof. reflexivity. Qed.

Lemma walk_eq st : forall fuel subidx rpath,
  gen_ihu_new_outlet_walk2 st sds nsub fuel subidx (rev rpath)
  = match nw fuel st subidx rpath with Some (slast, s1, rp) => Some (slast, rev rp, s1) | None => None end.
Proof.
  induction fuel as [|f IH]; intros subidx rpath; cbn [gen_ihu_new_outlet_walk2 nw]; cbv zeta; [reflexivity|].
  fold (sd sds subidx). rewrite Z.geb_leb.
  change (rev rpath ++ [sd sds subidx]) with (rev (sd sds subidx :: rpath)).
  destruct (_ || _); [reflexivity|]. apply IH.
Qed.

Lemma walk_eq0 st fuel subidx :
  gen_ihu_new_outlet_walk2 st sds nsub fuel subidx []
  = match nw fuel st subidx [] with Some (slast, s1, rp) => Some (slast, rev rp, s1) | None => None end.
Proof. apply (walk_eq st fuel subidx []). Qed.

(* the reversed path starts with the pixel where the walk ended and ends with the given path *)
Lemma nw_shape st : forall fuel subidx rpath slast s1 rp,
  nw fuel st subidx rpath = Some (slast, s1, rp) -> exists k, rp = s1 :: k ++ rpath.
Proof.
  induction fuel as [|f IH]; intros subidx rpath slast s1 rp; cbn [nw]; cbv zeta; [discriminate|].
  destruct (_ || _).
  - intros H. injection H as _ <- <-. exists []. reflexivity.
  - intros H. apply IH in H. destruct H as [k ->]. exists (k ++ [sd sds subidx]). rewrite <- app_assoc. reflexivity.
Qed.

(* the function of the model's loop *)
Definition mstep (st : list Z) (idx0 : nat) (tgt : option nat) (acc : Z * option (nat * nat * list nat) * bool) (s : nat)
  : Z * option (nat * nat * list nat) * bool :=
  let '(upa0, best, ok) := acc in
  if negb (nth s st (-9)%Z =? -9)%Z || (4 * nth s upa 0%Z <=? upa0)%Z || (nsub <=? sd sds s)%nat then acc
  else match nw (S nsub) st s [] with
       | None => (upa0, best, false)
       | Some (slast, s1, rpath) =>
         let n := length rpath in
         let idx1 := sub2idx s1 subncol cs ncol in
         let outlet1 := match tgt with None => true | Some t => (t =? s1)%nat end in
         let outlet := (cs <? 4 * n)%nat && in_d8 idx0 idx1 ncol && negb (idx0 =? idx1)%nat in
         let pit := (n =? 1)%nat && (slast =? s1)%nat && (idx0 =? idx1)%nat in
         if outlet1 && (outlet || pit) then ((4 * nth s upa 0%Z)%Z, Some (s, idx1, rev rpath), ok) else acc
       end.

Lemma new_outlet_unf a idx0 subidx0 tgt :
  new_outlet sds upa subncol cs ncol a idx0 subidx0 tgt
  = (let st := upd (a_st a) subidx0 (-1)%Z in
     let '(upa0, best, ok) :=
       fold_left (mstep st idx0 tgt) (outlet_pix sds subncol cs ncol idx0) (Z.of_nat (cs * cs), None, true) in
     let e := if ok then a_err a else (if (a_err a =? 0)%nat then 1%nat else a_err a) in
     match best with
     | Some (so, idx_ds, path0) =>
       let st1 := upd st so (Z.of_nat idx0) in
       let st2 := fold_left (fun st p => upd st p (Z.max (nth p st (-9)%Z) (-1))) path0 st1 in
       (mkA (upd (a_cds a) idx0 idx_ds) (upd (a_out a) idx0 so) st2 e, true)
     | None => (mkA (a_cds a) (a_out a) (upd st subidx0 (Z.of_nat idx0)) e, false)
     end).
Proof. reflexivity. Qed.

(* once the flag is down it stays down *)
Lemma mfold_false st idx0 tgt : forall l u b, snd (fold_left (mstep st idx0 tgt) l (u, b, false)) = false.
Proof.
  induction l as [|x l IH]; intros u b; cbn [fold_left]; [reflexivity|].
  unfold mstep at 2. cbv zeta.
  destruct (_ || _ || _); [apply IH|].
  destruct (nw _ _ _ _) as [[[slast s1] rp]|]; [|apply IH].
  destruct (_ && _); apply IH.
Qed.

(* the state of the generated loop *)
Definition repr (u : Z) (best : option (nat * nat * list nat)) : list nat * option nat * option nat * Z :=
  match best with
  | None => ([nsub], None, None, u)
  | Some (s, idx1, path) => (path, Some s, Some idx1, u)
  end.

Definition gstep (st : list Z) (idx0 : nat) (tgt : option nat) (x : list nat * option nat * option nat * Z) (s : nat) :=
  gen_ihu_new_outlet_step1 (S nsub) idx0 st sds upa (Z.of_nat ncol) (Z.of_nat subncol) (Z.of_nat cs) (Z.of_nat cs) tgt nsub [s] x 0.

Lemma gstep_nth st idx0 tgt l x i :
  gen_ihu_new_outlet_step1 (S nsub) idx0 st sds upa (Z.of_nat ncol) (Z.of_nat subncol) (Z.of_nat cs) (Z.of_nat cs) tgt nsub l x i
  = gstep st idx0 tgt x (nth i l nsub).
Proof. reflexivity. Qed.

Lemma gstep_gen st idx0 tgt p0 so ids u s : (s < nsub)%nat ->
  gstep st idx0 tgt (p0, so, ids, u) s
  = if negb (nth s st (-9)%Z =? -9)%Z || (4 * nth s upa 0%Z <=? u)%Z || (nsub <=? sd sds s)%nat then Some (p0, so, ids, u)
    else match nw (S nsub) st s [] with
         | None => None
         | Some (slast, s1, rpath) =>
           let n := length rpath in
           let idx1 := sub2idx s1 subncol cs ncol in
           let outlet1 := match tgt with None => true | Some t => (t =? s1)%nat end in
           let outlet := (cs <? 4 * n)%nat && in_d8 idx0 idx1 ncol && negb (idx0 =? idx1)%nat in
           let pit := (n =? 1)%nat && (slast =? s1)%nat && (idx0 =? idx1)%nat in
           if outlet1 && (outlet || pit) then Some (rev rpath, Some s, Some idx1, (4 * nth s upa 0%Z)%Z)
           else Some (p0, so, ids, u)
         end.
Proof.
  intros Hs. unfold gstep, gen_ihu_new_outlet_step1. cbn [nth]. cbv zeta. fold (sd sds s).
  destruct (_ || _ || _); [reflexivity|].
  rewrite walk_eq0.
  destruct (nw (S nsub) st s []) as [[[slast s1] rp]|] eqn:W; [|reflexivity].
  cbv beta iota.
  rewrite rev_length, gen_up_subidx_2_idx_eq, gen_up_in_d8_eq, zeqb_nat, zgtb4_nat, zeqb1_nat, Nat2Z.id.
  destruct (Nat.leb_spec nsub s) as [Hle|_]; [lia|].
  assert (Eo : (match tgt with None => true | Some _ => false end || match tgt with None => false | Some v_ => (v_ =? s1)%nat end)
               = match tgt with None => true | Some t => (t =? s1)%nat end) by (destruct tgt; reflexivity).
  rewrite Eo.
  destruct (nw_shape _ _ _ _ _ _ _ W) as [k Hk]. rewrite app_nil_r in Hk. subst rp.
  destruct k as [|y k].
  - cbn [rev app nth length]. reflexivity.
  - cbn [length Nat.eqb andb]. reflexivity.
Qed.

Lemma gstep_eq st idx0 tgt u best s : (s < nsub)%nat ->
  gstep st idx0 tgt (repr u best) s
  = (let '(u', b', ok') := mstep st idx0 tgt (u, best, true) s in if ok' then Some (repr u' b') else None).
Proof.
  intros Hs. unfold mstep. cbv zeta.
  destruct best as [[[s0 i0] p0]|]; cbn [repr]; rewrite gstep_gen by exact Hs;
    (destruct (_ || _ || _); [reflexivity|]);
    (destruct (nw _ _ _ _) as [[[slast s1] rp]|]; [|reflexivity]); cbv zeta;
    (destruct (_ && _); reflexivity).
Qed.

Lemma gfold_eq st idx0 tgt : forall l, (forall s, In s l -> (s < nsub)%nat) -> forall u best,
  GenIhu.ofold (gstep st idx0 tgt) l (repr u best)
  = (let '(u', b', ok') := fold_left (mstep st idx0 tgt) l (u, best, true) in if ok' then Some (repr u' b') else None).
Proof.
  induction l as [|x l IH]; intros Hl u best; [reflexivity|].
  rewrite ofold_cons. cbn [fold_left].
  rewrite gstep_eq by (apply Hl; left; reflexivity).
  destruct (mstep st idx0 tgt (u, best, true) x) as [[u' b'] ok'].
  destruct ok'.
  - apply IH. intros s Hin. apply Hl. right. exact Hin.
  - pose proof (mfold_false st idx0 tgt l u' b') as Hf.
    destruct (fold_left _ l _) as [[u2 b2] ok2]. cbn [snd] in Hf. rewrite Hf. reflexivity.
Qed.
End NewOutlet.

(* new_outlet(idx0, subidx0, streams, idxs_ds, subidxs_out, subidxs_ds, subuparea, ncol, subncol, cellsize, minlen, minupa, subidx1) *)
Theorem gen_ihu_new_outlet_eq : forall (sds : list nat) (upa : list Z) (subncol cs ncol : nat) (a : A) (idx0 subidx0 : nat)
    (tgt : option nat),
  (forall s, (s < length sds)%nat -> (length sds <= sd sds s)%nat -> sub2idx s subncol cs ncol = idx0 ->
     sub2idx (sd sds s) subncol cs ncol <> idx0) ->
  a_err a = 0%nat ->
  gen_ihu_new_outlet (S (length sds)) idx0 subidx0 (a_st a) (a_cds a) (a_out a) sds upa
                     (Z.of_nat ncol) (Z.of_nat subncol) (Z.of_nat cs) (Z.of_nat cs) (Z.of_nat (cs * cs)) tgt
  = (let r := new_outlet sds upa subncol cs ncol a idx0 subidx0 tgt in
     if (a_err (fst r) =? 0)%nat then Some (a_st (fst r), a_cds (fst r), a_out (fst r), snd r) else None).
Proof.
  intros sds upa subncol cs ncol a idx0 subidx0 tgt Hmv Herr.
  unfold gen_ihu_new_outlet. cbv zeta.
  rewrite gen_ihu_outlet_pix_eq by exact Hmv.
  cbn [repeat].
  set (st := upd (a_st a) subidx0 (-1)%Z).
  set (l := outlet_pix sds subncol cs ncol idx0).
  rewrite (ofold_seq_nth _ (gstep sds upa subncol cs ncol st idx0 tgt) (length sds) l 0)
    by (intros x i _; apply gstep_nth).
  change ([length sds], @None nat, @None nat, Z.of_nat (cs * cs)) with (repr sds (Z.of_nat (cs * cs)) None).
  rewrite gfold_eq by (intros s Hs; apply (outlet_pix_lt sds subncol cs ncol idx0); exact Hs).
  rewrite new_outlet_unf. cbv zeta. fold st. fold l.
  destruct (fold_left _ l _) as [[u b] ok].
  destruct ok; destruct b as [[[so i1] p]|]; cbn [repr fst snd a_err a_st a_cds a_out negb]; rewrite Herr; cbn [Nat.eqb]; reflexivity.
Qed.

Print Assumptions gen_ihu_new_outlet_eq.
