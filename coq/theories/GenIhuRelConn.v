(* ihu_relocate_outlets, STEP 3 (first and last alternative outlet pixel to which a tributary cell connects): the text
   generated from the Python (GenIhu.v: gen_ihu_ihu_relocate_outlets_step7 / walk6 / step5) equals the hand model
   (Ihu.v: find_from, rl_conn, rl_conn_of). *)
From Coq Require Import List Arith ZArith Bool Lia.
Import ListNotations.
From PF Require Import Arr Upscale D8Idx Ihu GenUpscaleBaseEq GenIhuBaseEq GenIhuNewEq GenIhuOptEq GenIhuRelDefs.
From PFG Require Import GenUpscale GenIhu.

(* ---------- gen_ihu_bfold: a for loop with break ---------- *)
Section Bfold.
Context {S X : Type} (f : S -> X -> S * bool).
Let G := fun (st_ : S * bool) (x_ : X) => if snd st_ then st_ else f (fst st_) x_.

Lemma bfold_stuck l s : fold_left G l (s, true) = (s, true).
Proof. induction l as [|x l IH]; cbn [fold_left]; [reflexivity|]. unfold G at 2. cbn [snd]. exact IH. Qed.

Lemma bfold_nil s : gen_ihu_bfold f [] s = s.
Proof. reflexivity. Qed.

Lemma bfold_cons x l s :
  gen_ihu_bfold f (x :: l) s = if snd (f s x) then fst (f s x) else gen_ihu_bfold f l (fst (f s x)).
Proof.
  unfold gen_ihu_bfold. cbn [fold_left]. fold G. unfold G at 2. cbn [snd fst].
  destruct (f s x) as [s' [|]]; cbn [snd fst]; [rewrite bfold_stuck|]; reflexivity.
Qed.
End Bfold.

(* ---------- (1) the inner loop is a search ---------- *)
Lemma nth_skipn_add {T : Type} (d : T) : forall (j : nat) (l : list T) (k : nat), nth k (skipn j l) d = nth (j + k) l d.
Proof.
  induction j as [|j IH]; intros l k; [reflexivity|].
  destruct l as [|h t]; cbn [skipn Nat.add nth]; [destruct k; reflexivity|apply IH].
Qed.

Definition rel_found (ncol idx0 idx : nat) (connected : bool) (zj0 zj1 : Z) (r : option nat) : bool * Z * Z :=
  match r with
  | Some j => if negb connected then (true, Z.of_nat j, Z.of_nat j)
              else if in_d8 idx0 idx ncol then (true, zj0, Z.of_nat j) else (true, zj0, zj1)
  | None => (connected, zj0, zj1)
  end.

Lemma step7_unf nsub ncol sl subidx idx0 idx connected zj0 zj1 i :
  gen_ihu_ihu_relocate_outlets_step7 nsub (Z.of_nat ncol) sl subidx (Z.of_nat idx0) (Z.of_nat idx) (connected, zj0, zj1) i
  = if nth i sl nsub =? subidx then (rel_found ncol idx0 idx connected zj0 zj1 (Some i), true)
    else ((connected, zj0, zj1), false).
Proof.
  unfold gen_ihu_ihu_relocate_outlets_step7, rel_found. rewrite gen_up_in_d8_eq.
  destruct (nth i sl nsub =? subidx); [|reflexivity].
  destruct connected; cbn [negb]; [|reflexivity]. destruct (in_d8 idx0 idx ncol); reflexivity.
Qed.

Lemma step7_search_gen nsub ncol sl subidx idx0 idx connected zj0 zj1 : forall (l : list nat) (i : nat),
  (forall k, k < length l -> nth (i + k) sl nsub = nth k l nsub) ->
  gen_ihu_bfold (gen_ihu_ihu_relocate_outlets_step7 nsub (Z.of_nat ncol) sl subidx (Z.of_nat idx0) (Z.of_nat idx))
                (List.seq i (length l)) (connected, zj0, zj1)
  = rel_found ncol idx0 idx connected zj0 zj1 (index_from subidx l i).
Proof.
  induction l as [|h t IH]; intros i H; cbn [length seq index_from].
  - rewrite bfold_nil. reflexivity.
  - assert (E : nth i sl nsub = h) by (rewrite <- (Nat.add_0_r i) at 1; rewrite H by (cbn; lia); reflexivity).
    rewrite bfold_cons, step7_unf, E. destruct (h =? subidx); cbn [snd fst].
    + unfold rel_found. reflexivity.
    + apply IH. intros k Hk. replace (S i + k) with (i + S k) by lia. rewrite H by (cbn; lia). reflexivity.
Qed.

Theorem step7_search : forall nsub ncol sl subidx idx0 idx connected j0 j1,
  gen_ihu_bfold (gen_ihu_ihu_relocate_outlets_step7 nsub (Z.of_nat ncol) sl subidx (Z.of_nat idx0) (Z.of_nat idx))
                (List.seq j0 (length sl - j0)) (connected, Z.of_nat j0, Z.of_nat j1)
  = match find_from j0 sl subidx with
    | Some j => if negb connected then (true, Z.of_nat j, Z.of_nat j)
                else if in_d8 idx0 idx ncol then (true, Z.of_nat j0, Z.of_nat j) else (true, Z.of_nat j0, Z.of_nat j1)
    | None => (connected, Z.of_nat j0, Z.of_nat j1)
    end.
Proof.
  intros. rewrite <- skipn_length.
  rewrite step7_search_gen by (intros k _; symmetry; apply nth_skipn_add).
  reflexivity.
Qed.

(* ---------- (2) the while loop ---------- *)
Definition rel_body (sds : list nat) (subncol cs ncol : nat) (sl : list nat) (idx0 subidx idx ii j0 j1 : nat) (connected : bool)
  : nat * nat * nat * nat * nat * bool * bool :=   (* subidx, idx, ii, j0, j1, connected, stop *)
  let s1 := sd sds subidx in
  let idx1 := sub2idx s1 subncol cs ncol in
  if (subidx =? s1) || negb (idx =? idx1) then
    let ii' := if connected then ii else S ii in
    let '(j0', j1', c') :=
      match find_from j0 sl subidx with
      | Some j => if negb connected then (j, j, true) else if in_d8 idx0 idx ncol then (j0, j, true) else (j0, j1, true)
      | None => (j0, j1, connected)
      end in
    if (j1' + 1 =? length sl) || (subidx =? s1) then (subidx, idx, ii', j0', j1', c', true)
    else (s1, idx1, ii', j0', j1', c', false)
  else (s1, idx1, ii, j0, j1, connected, false).

Lemma walk6_body_eq sds subncol cs ncol sl idx0 subidx idx ii j0 j1 connected (g : Z) :
  gen_ihu_ihu_relocate_outlets_walk6_body sds (Z.of_nat cs) (length sds) (Z.of_nat subncol) (Z.of_nat ncol) sl (length sl)
    (Z.of_nat idx0) (subidx, g, connected, Z.of_nat j0, Z.of_nat j1, Z.of_nat idx, Z.of_nat ii)
  = let '(s', i', ii', j0', j1', c', b) := rel_body sds subncol cs ncol sl idx0 subidx idx ii j0 j1 connected in
    (s', Z.of_nat (sub2idx (sd sds subidx) subncol cs ncol), c', Z.of_nat j0', Z.of_nat j1', Z.of_nat i', Z.of_nat ii', b).
Proof.
  unfold gen_ihu_ihu_relocate_outlets_walk6_body, rel_body. cbv zeta.
  rewrite gen_up_subidx_2_idx_eq, zeqb_nat. fold (sd sds subidx).
  destruct ((subidx =? sd sds subidx) || negb (idx =? sub2idx (sd sds subidx) subncol cs ncol)); [|reflexivity].
  rewrite Nat2Z.id, step7_search.
  assert (EI : (if negb connected then (Z.of_nat ii + 1)%Z else Z.of_nat ii) = Z.of_nat (if connected then ii else S ii))
    by (destruct connected; cbn [negb]; lia).
  rewrite EI. clear EI.
  assert (EJ : forall a, ((Z.of_nat a + 1)%Z =? Z.of_nat (length sl))%Z = (a + 1 =? length sl)).
  { intros a. replace (Z.of_nat a + 1)%Z with (Z.of_nat (a + 1)) by lia. apply zeqb_nat. }
  destruct (find_from j0 sl subidx) as [j|].
  - destruct (negb connected).
    + rewrite EJ. destruct ((j + 1 =? length sl) || (subidx =? sd sds subidx)); reflexivity.
    + destruct (in_d8 idx0 idx ncol); rewrite EJ.
      * destruct ((j + 1 =? length sl) || (subidx =? sd sds subidx)); reflexivity.
      * destruct ((j1 + 1 =? length sl) || (subidx =? sd sds subidx)); reflexivity.
  - rewrite EJ. destruct ((j1 + 1 =? length sl) || (subidx =? sd sds subidx)); reflexivity.
Qed.

Lemma rl_conn_unf sds subncol cs ncol f sl idx0 subidx idx ii j0 j1 connected :
  rl_conn sds subncol cs ncol (S f) sl idx0 subidx idx ii j0 j1 connected
  = if 10 <? ii then Some (j0, j1, connected)
    else let '(s', i', ii', j0', j1', c', b) := rel_body sds subncol cs ncol sl idx0 subidx idx ii j0 j1 connected in
         if b then Some (j0', j1', c') else rl_conn sds subncol cs ncol f sl idx0 s' i' ii' j0' j1' c'.
Proof.
  cbn [rl_conn]. unfold rel_body. cbv zeta. destruct (10 <? ii); [reflexivity|].
  destruct ((subidx =? sd sds subidx) || negb (idx =? sub2idx (sd sds subidx) subncol cs ncol)); [|reflexivity].
  destruct (find_from j0 sl subidx) as [j|].
  - destruct (negb connected).
    + destruct ((j + 1 =? length sl) || (subidx =? sd sds subidx)); reflexivity.
    + destruct (in_d8 idx0 idx ncol).
      * destruct ((j + 1 =? length sl) || (subidx =? sd sds subidx)); reflexivity.
      * destruct ((j1 + 1 =? length sl) || (subidx =? sd sds subidx)); reflexivity.
  - destruct ((j1 + 1 =? length sl) || (subidx =? sd sds subidx)); reflexivity.
Qed.

Theorem rel_conn_eq : forall sds subncol cs ncol fuel sl idx0 subidx idx ii j0 j1 connected (g : Z),
  match gen_ihu_ihu_relocate_outlets_walk6 sds (Z.of_nat cs) (length sds) (Z.of_nat subncol) (Z.of_nat ncol) sl (length sl)
          (Z.of_nat idx0) fuel (subidx, g, connected, Z.of_nat j0, Z.of_nat j1, Z.of_nat idx, Z.of_nat ii) with
  | Some (_, _, c', j0', j1', _, _) =>
      exists a b, j0' = Z.of_nat a /\ j1' = Z.of_nat b
                  /\ rl_conn sds subncol cs ncol fuel sl idx0 subidx idx ii j0 j1 connected = Some (a, b, c')
  | None => rl_conn sds subncol cs ncol fuel sl idx0 subidx idx ii j0 j1 connected = None
  end.
Proof.
  intros sds subncol cs ncol fuel sl idx0. induction fuel as [|f IH]; intros subidx idx ii j0 j1 connected g.
  - reflexivity.
  - rewrite rl_conn_unf. cbn [gen_ihu_ihu_relocate_outlets_walk6].
    assert (E10 : (Z.of_nat ii <=? 10)%Z = negb (10 <? ii)).
    { change 10%Z with (Z.of_nat 10). rewrite zleb_nat. rewrite Nat.leb_antisym. reflexivity. }
    rewrite E10. destruct (10 <? ii); cbn [negb].
    + exists j0, j1. repeat split.
    + rewrite walk6_body_eq.
      destruct (rel_body sds subncol cs ncol sl idx0 subidx idx ii j0 j1 connected) as [[[[[[s' i'] ii'] j0'] j1'] c'] b].
      destruct b.
      * exists j0', j1'. repeat split.
      * apply IH.
Qed.

(* ---------- (3) the for loop over the tributary cells ---------- *)
Definition rel_raw (sds : list nat) (subncol cs ncol : nat) (out sl : list nat) (x : nat) : option (nat * nat * bool) :=
  rl_conn sds subncol cs ncol (S (length sds)) sl x (sd sds (nth x out (length sds))) x 0 0 0 false.
Definition rel_zconn (sl : list nat) (r : option (nat * nat * bool)) : Z * Z :=
  match r with
  | Some (j0, j1, true) => (Z.of_nat j0, Z.of_nat j1)
  | _ => ((Z.of_nat (length sl) - 1)%Z, (Z.of_nat (length sl) - 1)%Z)
  end.
Definition rel_ok (sds : list nat) (subncol cs ncol : nat) (out sl : list nat) (x : nat) : bool :=
  match rel_raw sds subncol cs ncol out sl x with None => false | Some _ => true end.

(* the step of the loop as a function of the cell instead of its position *)
Definition rel_step5 (sds : list nat) (subncol cs ncol : nat) (out sl : list nat) (st_ : nat * Z * list Z * list Z) (x : nat)
  : option (nat * Z * list Z * list Z) :=
  let '(subidx, idx1, l, l1) := st_ in
  match gen_ihu_ihu_relocate_outlets_walk6 sds (Z.of_nat cs) (length sds) (Z.of_nat subncol) (Z.of_nat ncol) sl (length sl)
          (Z.of_nat x) (S (length sds)) (sd sds (nth x out (length sds)), idx1, false, 0%Z, 0%Z, Z.of_nat x, 0%Z) with
  | None => None
  | Some (subidx, idx1, connected, j0, j1, idx, ii) =>
    if connected then Some (subidx, idx1, l ++ [j0], l1 ++ [j1])
    else Some (subidx, idx1, l ++ [(Z.of_nat (length sl) - 1)%Z], l1 ++ [(Z.of_nat (length sl) - 1)%Z])
  end.

Lemma step5_nth sds subncol cs nc ncol out sl tribs st i :
  gen_ihu_ihu_relocate_outlets_step5 (S (length sds)) out sds (Z.of_nat cs) (length sds) nc (Z.of_nat subncol) (Z.of_nat ncol)
    sl tribs (length sl) st i
  = rel_step5 sds subncol cs ncol out sl st (nth i tribs nc).
Proof.
  destruct st as [[[s g] l] l1]. unfold gen_ihu_ihu_relocate_outlets_step5, rel_step5. cbv zeta.
  rewrite Nat2Z.id. reflexivity.
Qed.

Lemma rel_step5_eq sds subncol cs ncol out sl g1 g2 cl cl1 x :
  match rel_step5 sds subncol cs ncol out sl (g1, g2, cl, cl1) x with
  | Some (_, _, l, l1) => rel_ok sds subncol cs ncol out sl x = true
                          /\ l = cl ++ [fst (rel_zconn sl (rel_raw sds subncol cs ncol out sl x))]
                          /\ l1 = cl1 ++ [snd (rel_zconn sl (rel_raw sds subncol cs ncol out sl x))]
  | None => rel_ok sds subncol cs ncol out sl x = false
  end.
Proof.
  unfold rel_step5, rel_ok.
  pose proof (rel_conn_eq sds subncol cs ncol (S (length sds)) sl x (sd sds (nth x out (length sds))) x 0 0 0 false g2) as H.
  change (Z.of_nat 0) with 0%Z in H. fold (rel_raw sds subncol cs ncol out sl x) in H.
  destruct (gen_ihu_ihu_relocate_outlets_walk6 _ _ _ _ _ _ _ _ _ _) as [[[[[[[s' i1] c'] zj0] zj1] zidx] zii]|].
  - destruct H as (a & b & -> & -> & ->). destruct c'; cbn [rel_zconn fst snd]; repeat split.
  - rewrite H. reflexivity.
Qed.

Lemma rel_conn_fold_list sds subncol cs ncol out sl : forall tribs g1 g2 cl cl1,
  match ofold (rel_step5 sds subncol cs ncol out sl) tribs (g1, g2, cl, cl1) with
  | Some (_, _, l, l1) => forallb (rel_ok sds subncol cs ncol out sl) tribs = true
                          /\ l = cl ++ map (fun x => fst (rel_zconn sl (rel_raw sds subncol cs ncol out sl x))) tribs
                          /\ l1 = cl1 ++ map (fun x => snd (rel_zconn sl (rel_raw sds subncol cs ncol out sl x))) tribs
  | None => forallb (rel_ok sds subncol cs ncol out sl) tribs = false
  end.
Proof.
  induction tribs as [|x t IH]; intros g1 g2 cl cl1.
  - rewrite ofold_nil. cbn [forallb map]. rewrite !app_nil_r. repeat split.
  - rewrite ofold_cons. cbn [forallb map].
    pose proof (rel_step5_eq sds subncol cs ncol out sl g1 g2 cl cl1 x) as H.
    destruct (rel_step5 sds subncol cs ncol out sl (g1, g2, cl, cl1) x) as [[[[g1' g2'] l'] l1']|].
    + destruct H as (Hok & -> & ->). rewrite Hok. cbn [andb].
      specialize (IH g1' g2' (cl ++ [fst (rel_zconn sl (rel_raw sds subncol cs ncol out sl x))])
                             (cl1 ++ [snd (rel_zconn sl (rel_raw sds subncol cs ncol out sl x))])).
      destruct (ofold _ t _) as [[[[a b] l] l1]|]; [|exact IH].
      destruct IH as (H1 & -> & ->). rewrite <- !app_assoc. repeat split. exact H1.
    + rewrite H. reflexivity.
Qed.

Theorem rel_conn_fold_eq : forall sds subncol cs nrow ncol out sl tribs g1 g2 cl cl1,
  match ofold (gen_ihu_ihu_relocate_outlets_step5 (S (length sds)) out sds (Z.of_nat cs) (length sds) (nrow * ncol)
                 (Z.of_nat subncol) (Z.of_nat ncol) sl tribs (length sl)) (List.seq 0 (length tribs)) (g1, g2, cl, cl1) with
  | Some (_, _, l, l1) =>
      forallb (fun x => match rel_raw sds subncol cs ncol out sl x with None => false | Some _ => true end) tribs = true
      /\ l = cl ++ map (fun x => fst (rel_zconn sl (rel_raw sds subncol cs ncol out sl x))) tribs
      /\ l1 = cl1 ++ map (fun x => snd (rel_zconn sl (rel_raw sds subncol cs ncol out sl x))) tribs
  | None =>
      forallb (fun x => match rel_raw sds subncol cs ncol out sl x with None => false | Some _ => true end) tribs = false
  end.
Proof.
  intros.
  rewrite (ofold_seq_nth _ (rel_step5 sds subncol cs ncol out sl) (nrow * ncol) tribs 0)
    by (intros st i _; apply step5_nth).
  exact (rel_conn_fold_list sds subncol cs ncol out sl tribs g1 g2 cl cl1).
Qed.

(* ---------- (4) rl_conn_of ---------- *)
Theorem rel_conn_of_ok : forall sds subncol cs ncol out sl x,
  snd (rl_conn_of sds subncol cs ncol out sl x)
  = match rel_raw sds subncol cs ncol out sl x with None => false | Some _ => true end.
Proof.
  intros. unfold rl_conn_of, rel_raw.
  destruct (rl_conn _ _ _ _ _ _ _ _ _ _ _ _ _) as [[[a b] [|]]|]; reflexivity.
Qed.

(* when the fuel runs out (rel_raw = None) the generated loop has no result and the model returns (0, 0, false): the two
   are only compared when rel_raw is Some *)
Theorem rel_conn_of_fst : forall sds subncol cs ncol out sl x, 0 < length sl ->
  rel_raw sds subncol cs ncol out sl x <> None ->
  fst (rel_zconn sl (rel_raw sds subncol cs ncol out sl x)) = Z.of_nat (fst (fst (rl_conn_of sds subncol cs ncol out sl x))).
Proof.
  intros sds subncol cs ncol out sl x Hl. unfold rl_conn_of, rel_raw.
  destruct (rl_conn _ _ _ _ _ _ _ _ _ _ _ _ _) as [[[a b] [|]]|]; cbn [rel_zconn fst snd]; intros H; [reflexivity|lia|].
  exfalso. apply H. reflexivity.
Qed.

Theorem rel_conn_of_snd : forall sds subncol cs ncol out sl x, 0 < length sl ->
  rel_raw sds subncol cs ncol out sl x <> None ->
  snd (rel_zconn sl (rel_raw sds subncol cs ncol out sl x)) = Z.of_nat (snd (fst (rl_conn_of sds subncol cs ncol out sl x))).
Proof.
  intros sds subncol cs ncol out sl x Hl. unfold rl_conn_of, rel_raw.
  destruct (rl_conn _ _ _ _ _ _ _ _ _ _ _ _ _) as [[[a b] [|]]|]; cbn [rel_zconn fst snd]; intros H; [reflexivity|lia|].
  exfalso. apply H. reflexivity.
Qed.

(* the fold in terms of rl_conn_of *)
Theorem rel_conn_fold_of : forall sds subncol cs nrow ncol out sl tribs g1 g2 cl cl1, 0 < length sl ->
  match ofold (gen_ihu_ihu_relocate_outlets_step5 (S (length sds)) out sds (Z.of_nat cs) (length sds) (nrow * ncol)
                 (Z.of_nat subncol) (Z.of_nat ncol) sl tribs (length sl)) (List.seq 0 (length tribs)) (g1, g2, cl, cl1) with
  | Some (_, _, l, l1) =>
      forallb (fun x => snd (rl_conn_of sds subncol cs ncol out sl x)) tribs = true
      /\ l = cl ++ map (fun x => Z.of_nat (fst (fst (rl_conn_of sds subncol cs ncol out sl x)))) tribs
      /\ l1 = cl1 ++ map (fun x => Z.of_nat (snd (fst (rl_conn_of sds subncol cs ncol out sl x)))) tribs
  | None => forallb (fun x => snd (rl_conn_of sds subncol cs ncol out sl x)) tribs = false
  end.
Proof.
  intros sds subncol cs nrow ncol out sl tribs g1 g2 cl cl1 Hl.
  pose proof (rel_conn_fold_eq sds subncol cs nrow ncol out sl tribs g1 g2 cl cl1) as H.
  assert (EF : forallb (fun x => snd (rl_conn_of sds subncol cs ncol out sl x)) tribs
               = forallb (fun x => match rel_raw sds subncol cs ncol out sl x with None => false | Some _ => true end) tribs).
  { clear H. induction tribs as [|x t IH]; cbn [forallb]; [reflexivity|]. rewrite IH, rel_conn_of_ok. reflexivity. }
  rewrite EF. destruct (ofold _ _ _) as [[[[a b] l] l1]|]; [|exact H].
  destruct H as (H1 & -> & ->). split; [exact H1|].
  assert (HN : forall x, In x tribs -> rel_raw sds subncol cs ncol out sl x <> None).
  { intros x Hx. rewrite forallb_forall in H1. specialize (H1 x Hx). intros E. rewrite E in H1. discriminate. }
  split; f_equal; apply map_ext_in; intros x Hx;
    [apply rel_conn_of_fst|apply rel_conn_of_snd]; auto.
Qed.

Print Assumptions step7_search.
Print Assumptions rel_conn_eq.
Print Assumptions rel_conn_fold_eq.
Print Assumptions rel_conn_of_ok.
Print Assumptions rel_conn_of_fst.
Print Assumptions rel_conn_of_snd.
Print Assumptions rel_conn_fold_of.
