(* ihu_relocate_outlets: STEP 1 (the downstream trace) and STEP 2 (the tributary cells) of the generated text
   (GenIhu.v: gen_ihu_ihu_relocate_outlets_walk2, _step3, _step4) are equal to the hand model (Ihu.v: rl_trace, rl_tribs). *)
From Coq Require Import List Arith ZArith Bool Lia.
Import ListNotations.
From PF Require Import Arr Upscale D8Idx Ihu GenUpscaleBaseEq GenIhuBaseEq GenIhuOptEq GenIhuRelDefs.
From PFG Require Import GenUpscale GenIhu.

(* ---------- STEP 1: the trace ---------- *)
Theorem rel_trace_eq : forall sds subncol cs nrow ncol fuel cds out subidx idx0 idx_ds0 il sl,
  match gen_ihu_ihu_relocate_outlets_walk2 cds out sds (Z.of_nat cs) (length sds) (nrow * ncol) (Z.of_nat subncol) (Z.of_nat ncol)
          fuel il sl false (Z.of_nat idx_ds0) subidx (Z.of_nat idx0) with
  | Some (il', sl', stop, _, se, _, _) =>
      rl_trace sds subncol cs nrow ncol fuel cds out subidx idx0 idx_ds0 il sl = Some (il', sl', se) /\ stop = true
  | None => rl_trace sds subncol cs nrow ncol fuel cds out subidx idx0 idx_ds0 il sl = None
  end.
Proof.
  intros sds subncol cs nrow ncol fuel cds out.
  induction fuel as [|f IH]; intros subidx idx0 idx_ds0 il sl;
    cbn [gen_ihu_ihu_relocate_outlets_walk2 rl_trace]; [reflexivity|].
  cbv zeta.
  rewrite gen_up_subidx_2_idx_eq, zeqb_nat, !Nat2Z.id.
  unfold sd.
  destruct (nth subidx sds (length sds) =? subidx)%nat eqn:EP;
  destruct (idx0 =? sub2idx (nth subidx sds (length sds)) subncol cs ncol)%nat eqn:EQ;
  destruct (nrow * ncol <=? nth idx0 cds (nrow * ncol))%nat eqn:EA;
  destruct (subidx =? nth idx0 out (length sds))%nat eqn:EB;
  destruct (subidx =? nth idx_ds0 out (length sds))%nat eqn:EC;
  destruct (memb idx_ds0 il) eqn:ED;
  cbn [orb negb andb];
  first [ split; reflexivity | apply IH ].
Qed.

(* ---------- STEP 2: the tributary cells ---------- *)
Lemma rel_step4_fold (out : list nat) (NSUB idx00 : nat) (sl : list nat) : forall l acc,
  fold_left (gen_ihu_ihu_relocate_outlets_step4 out NSUB idx00 sl) l acc
  = acc ++ filter (fun idx0 => negb (memb (nth idx0 out NSUB) sl || (idx0 =? idx00)%nat)) l.
Proof.
  induction l as [|x l IH]; intros acc; cbn [fold_left filter]; [rewrite app_nil_r; reflexivity|].
  rewrite IH. unfold gen_ihu_ihu_relocate_outlets_step4. cbv zeta.
  destruct (_ || _); cbn [negb]; [reflexivity|rewrite <- app_assoc; reflexivity].
Qed.

Lemma rel_step3_fold (cds out : list nat) (nrow ncol NSUB idx00 : nat) (sl : list nat) : forall l acc,
  fold_left (gen_ihu_ihu_relocate_outlets_step3 cds out (Z.of_nat nrow, Z.of_nat ncol) NSUB idx00 sl) l acc
  = acc ++ flat_map (fun idx_ds => filter (fun idx0 => negb (memb (nth idx0 out NSUB) sl || (idx0 =? idx00)%nat))
                                          (upstream_d8_idx cds idx_ds nrow ncol)) l.
Proof.
  induction l as [|x l IH]; intros acc; cbn [fold_left flat_map]; [rewrite app_nil_r; reflexivity|].
  rewrite IH. unfold gen_ihu_ihu_relocate_outlets_step3. cbv zeta.
  rewrite gen_ihu_upstream_d8_idx_eq, rel_step4_fold, <- app_assoc. reflexivity.
Qed.

Theorem rel_tribs_eq : forall sds nrow ncol cds out idx00 il sl,
  fold_left (gen_ihu_ihu_relocate_outlets_step3 cds out (Z.of_nat nrow, Z.of_nat ncol) (length sds) idx00 sl) (uniq_sorted il) []
  = rl_tribs sds nrow ncol cds out idx00 il sl.
Proof.
  intros. rewrite rel_step3_fold. cbn [app]. reflexivity.
Qed.

Print Assumptions rel_trace_eq.
Print Assumptions rel_tribs_eq.
