(* core_d8.to_array and core_ldd.to_array, REGENERATED from the Python source (generated/GenCodec.v: one pass over the cell
   numbers that writes the code of the offset to the downstream cell, or stops with the ValueError = None), equal the hand
   model Codec.encode that the theorems of C02 are about.  No hypothesis at all (any network, any shape).  No axioms. *)
From Coq Require Import List Arith ZArith Bool Lia.
Import ListNotations.
From PF Require Import Arr Net Codec GenCodecBaseEq.
From PFG Require Import GenTables GenDrdc GenCodec.
Local Open Scope Z_scope.

Section To.
Variable table : list (list Z).
Variable mv : Z.
Variable ncol : nat.
Variable ds : list nat.
(* the table has 3 x 3 entries: inside the stencil the default element of a read does not matter *)
Hypothesis Htab : forall dr dc, -1 <= dr <= 1 -> -1 <= dc <= 1 ->
  nth (Z.to_nat (dc + 1)) (nth (Z.to_nat (dr + 1)) table []) 0 = table_at table dr dc.

Definition to_isnd (i : nat) : bool := (length ds <=? nth i ds (length ds))%nat.
(* the code written for a cell of the network, in the terms of the loop body of the source *)
Definition to_code (i : nat) : option Z :=
  let idx_ds := nth i ds (length ds) in
  let dr := Z.of_nat idx_ds / Z.of_nat ncol - Z.of_nat i / Z.of_nat ncol in
  let dc := Z.of_nat idx_ds mod Z.of_nat ncol - Z.of_nat i mod Z.of_nat ncol in
  if (((dr >=? -1) && (dr <=? 1)) && (dc >=? -1)) && (dc <=? 1)
  then Some (nth (Z.to_nat (dc + 1)) (nth (Z.to_nat (dr + 1)) table []) 0) else None.

Lemma encode_cell_char i : encode_cell table mv ncol ds i = if to_isnd i then Some mv else to_code i.
Proof.
  unfold encode_cell, to_isnd, to_code. cbv zeta. destruct (length ds <=? nth i ds (length ds))%nat; [reflexivity|].
  rewrite !zdiv_nat, !zmod_nat.
  destruct (_ && _) eqn:Eb; [|reflexivity].
  rewrite !andb_true_iff, !Z.geb_le, !Z.leb_le in Eb. rewrite Htab by lia. reflexivity.
Qed.

Lemma to_result (r : option (list Z)) :
  r = sequence_opt (map (fun i => if to_isnd i then Some mv else to_code i) (seq 0 (length ds))) ->
  match r with Some x => Some x | None => None end = encode table mv ncol ds.
Proof.
  intros ->. unfold encode. rewrite (map_ext _ (encode_cell table mv ncol ds)) by (intros i; symmetry; apply encode_cell_char).
  destruct (sequence_opt _); reflexivity.
Qed.
End To.

Lemma d8_tab : forall dr dc, -1 <= dr <= 1 -> -1 <= dc <= 1 ->
  nth (Z.to_nat (dc + 1)) (nth (Z.to_nat (dr + 1)) d8_ds []) 0 = table_at d8_ds dr dc.
Proof. intros dr dc H1 H2. assert (E1 : dr = -1 \/ dr = 0 \/ dr = 1) by lia. assert (E2 : dc = -1 \/ dc = 0 \/ dc = 1) by lia.
  destruct E1 as [->|[->| ->]], E2 as [->|[->| ->]]; reflexivity. Qed.

Lemma ldd_tab : forall dr dc, -1 <= dr <= 1 -> -1 <= dc <= 1 ->
  nth (Z.to_nat (dc + 1)) (nth (Z.to_nat (dr + 1)) ldd_ds []) 0 = table_at ldd_ds dr dc.
Proof. intros dr dc H1 H2. assert (E1 : dr = -1 \/ dr = 0 \/ dr = 1) by lia. assert (E2 : dc = -1 \/ dc = 0 \/ dc = 1) by lia.
  destruct E1 as [->|[->| ->]], E2 as [->|[->| ->]]; reflexivity. Qed.

(* the loop body of the source is the step of GenCodecBaseEq.ofold *)
Lemma d8_to_step nrow ncol ds o i :
  match o with Some st => gen_d8_to_array_step ds (nrow, Z.of_nat ncol) st i | None => None end =
  obind (to_isnd ds) (to_code d8_ds ncol ds) o i.
Proof. destruct o as [a|]; [|reflexivity]. unfold gen_d8_to_array_step, obind, ostep, to_isnd, to_code. cbn [snd]. cbv zeta.
  destruct (length ds <=? nth i ds (length ds))%nat; [reflexivity|]. destruct (_ && _); reflexivity. Qed.

Lemma ldd_to_step nrow ncol ds o i :
  match o with Some st => gen_ldd_to_array_step ds (nrow, Z.of_nat ncol) st i | None => None end =
  obind (to_isnd ds) (to_code ldd_ds ncol ds) o i.
Proof. destruct o as [a|]; [|reflexivity]. unfold gen_ldd_to_array_step, obind, ostep, to_isnd, to_code. cbn [snd]. cbv zeta.
  destruct (length ds <=? nth i ds (length ds))%nat; [reflexivity|]. destruct (_ && _); reflexivity. Qed.

(* core_d8.to_array(idxs_ds, shape): only shape[1] is used *)
Theorem gen_d8_to_array_eq : forall (nrow : Z) (ncol : nat) (ds : list nat),
  gen_d8_to_array ds (nrow, Z.of_nat ncol) = d8_to_array ncol ds.
Proof.
  intros nrow ncol ds. unfold gen_d8_to_array, d8_to_array. cbv zeta.
  rewrite (fold_ext_seq _ _ _ (fun o i _ => d8_to_step nrow ncol ds o i)).
  apply (to_result d8_ds d8_mv ncol ds d8_tab). apply ofold0.
Qed.

(* core_ldd.to_array(idxs_ds, shape) *)
Theorem gen_ldd_to_array_eq : forall (nrow : Z) (ncol : nat) (ds : list nat),
  gen_ldd_to_array ds (nrow, Z.of_nat ncol) = ldd_to_array ncol ds.
Proof.
  intros nrow ncol ds. unfold gen_ldd_to_array, ldd_to_array. cbv zeta.
  rewrite (fold_ext_seq _ _ _ (fun o i _ => ldd_to_step nrow ncol ds o i)).
  apply (to_result ldd_ds ldd_mv ncol ds ldd_tab). apply ofold0.
Qed.

(* non-vacuity: the network of the example of GenCodecFromEq is encoded back; a link 0 -> 3 over two columns of a 1x4 raster is
   the ValueError *)
Example gen_d8_to_array_ex : gen_d8_to_array [1; 3; 4; 3]%nat (2, 2) = Some [1; 4; 247; 0]
  /\ gen_ldd_to_array [1; 3; 4; 3]%nat (2, 2) = Some [6; 2; 255; 5]
  /\ gen_d8_to_array [3; 1; 2; 3]%nat (1, 4) = None.
Proof. vm_compute. auto. Qed.

Print Assumptions gen_d8_to_array_eq.
Print Assumptions gen_ldd_to_array_eq.
