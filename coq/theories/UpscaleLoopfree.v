(* C09: the coarse network of the effective-area method has no cycles when the upstream area strictly increases downstream
   (as every accumulated area of positive cell areas does): the upstream area of a cell's representative pixel strictly
   increases along every coarse link that is not a pit, so no chain of links can return to its start. *)
From Coq Require Import List Arith ZArith Bool Lia.
Import ListNotations.
From PF Require Import Arr Net Elev ElevSpec Upscale UpscaleSpec.
Local Open Scope Z_scope.

Section EamLoopfree.
Variable sds : list nat.
Variable upa : list Z.
Variable subncol cs nrow ncol : nat.
Variable ea : list bool.
Notation nsub := (length sds).
Notation nc := (nrow * ncol)%nat.
Notation sd := (Upscale.sd sds).
Notation cellof := (cellof subncol cs ncol).
Notation U t := (nth t upa 0).

(* the fine network is closed, every pixel lies in a cell of the coarse raster *)
Hypothesis Hwf : forall t, (t < nsub)%nat -> (sd t < nsub)%nat -> (sd (sd t) < nsub)%nat.
Hypothesis Hcell : forall t, (t < nsub)%nat -> (cellof t < nc)%nat.
(* upstream area: positive on the network and strictly larger at the downstream pixel *)
Hypothesis Hpos : forall t, (t < nsub)%nat -> (sd t < nsub)%nat -> 0 < U t.
Hypothesis Hinc : forall t, (t < nsub)%nat -> (sd t < nsub)%nat -> sd t <> t -> U t < U (sd t).

Notation rep := (repcell sds upa subncol cs nrow ncol (eaf ea)).
Notation walk := (eam_walk sds subncol cs nrow ncol ea).

(* where the trace stops: at a pit or at an effective-area pixel of another cell -- a candidate of the cell it reports --
   which is the start itself only if the start is a pit, and otherwise has a strictly larger upstream area *)
Lemma eam_walk_up fuel : forall idx0 s r, (s < nsub)%nat -> (sd s < nsub)%nat -> walk fuel idx0 s = r -> (r < nc)%nat ->
  exists t, (t < nsub)%nat /\ (sd t < nsub)%nat /\ cellof t = r /\ (sd t = t \/ eaf ea t = true) /\
            ((t = s /\ sd s = s) \/ U s < U t).
Proof.
  induction fuel as [|f IH]; intros idx0 s r Hs Hds Hw Hr; cbn [eam_walk] in Hw.
  - unfold ERR in Hw. lia.
  - destruct (Nat.eqb_spec (sd s) s) as [Hpit|Hnp].
    + exists s. rewrite Hpit in Hw. repeat split; auto.
    + destruct (negb (cellof (sd s) =? idx0)%nat && eaf ea (sd s)) eqn:C.
      * apply andb_true_iff in C. destruct C as [_ Hea].
        exists (sd s). split; [exact Hds|]. split; [apply Hwf; auto|]. split; [exact Hw|]. split; [right; exact Hea|].
        right. apply Hinc; auto.
      * destruct (IH idx0 (sd s) r Hds (Hwf s Hs Hds) Hw Hr) as (t & Ht & Hdt & Hc & Hk & Hu).
        exists t. split; [exact Ht|]. split; [exact Hdt|]. split; [exact Hc|]. split; [exact Hk|].
        right. pose proof (Hinc s Hs Hds Hnp). destruct Hu as [[-> _]|Hu]; lia.
Qed.

(* one coarse link: a pit, or the representative pixel of the target has the larger upstream area *)
Theorem eam_link_increases idx0 : (idx0 < nc)%nat ->
  let s := nth idx0 rep nsub in (s < nsub)%nat ->
  let r := walk (S nsub) idx0 s in (r < nc)%nat ->
  r = idx0 \/ ((nth r rep nsub < nsub)%nat /\ U s < U (nth r rep nsub)).
Proof.
  intros Hi s Hs r Hr.
  destruct (repcell_spec sds upa subncol cs nrow ncol (eaf ea)) as (_ & Hin & Hex).
  destruct (Hin idx0 Hi) as [E|[[_ [Hds _]] [Hc _]]]; [fold s in E; lia|]. fold s in Hds, Hc.
  destruct (eam_walk_up (S nsub) idx0 s r Hs Hds eq_refl Hr) as (t & Ht & Hdt & Hct & Hk & Hu).
  destruct Hu as [[-> _]|Hu]; [left; congruence|]. right.
  assert (Hcand : candidate sds (eaf ea) t) by (split; [exact Ht|split; [exact Hdt|exact Hk]]).
  destruct (Hex t Hcand ltac:(rewrite Hct; exact Hr) (Hpos t Ht Hdt)) as [H1 H2]. rewrite Hct in H1, H2. cbv zeta in H1, H2.
  split; [exact H1|lia].
Qed.

(* hence no chain of coarse links returns to its start unless it starts at a coarse pit *)
Notation cds := (eam_nextidx sds subncol cs nrow ncol ea rep).
Definition cnext (idx : nat) : nat := nth idx cds nc.

Lemma cnext_eq idx : (idx < nc)%nat -> cnext idx = let s := nth idx rep nsub in if (nsub <=? s)%nat then nc else walk (S nsub) idx s.
Proof.
  intros Hi. unfold cnext, eam_nextidx, per_cell.
  rewrite (nth_indep _ nc ((fun idx0 => let s := nth idx0 rep nsub in if (nsub <=? s)%nat then nc else walk (S nsub) idx0 s) 0%nat))
    by (rewrite map_length, seq_length; exact Hi).
  rewrite (map_nth (fun idx0 => let s := nth idx0 rep nsub in if (nsub <=? s)%nat then nc else walk (S nsub) idx0 s)).
  rewrite seq_nth by exact Hi. reflexivity.
Qed.

Fixpoint citer (k : nat) (idx : nat) : nat := match k with O => idx | S k' => citer k' (cnext idx) end.

Definition key (idx : nat) : Z := U (nth idx rep nsub).

Lemma chain_key k : forall idx, (idx < nc)%nat -> (nth idx rep nsub < nsub)%nat ->
  (forall j, (j <= k)%nat -> (citer j idx < nc)%nat) ->
  (exists j, (j < k)%nat /\ cnext (citer j idx) = citer j idx) \/ (k = 0%nat) \/ key idx < key (citer k idx) /\ (nth (citer k idx) rep nsub < nsub)%nat.
Proof.
  induction k as [|k IH]; intros idx Hi Hs Hin; [right; left; reflexivity|].
  pose proof (Hin 1%nat ltac:(lia)) as H1. cbn [citer] in H1.
  pose proof (cnext_eq idx Hi) as Hce. cbv zeta in Hce.
  assert (Hl : (nsub <=? nth idx rep nsub)%nat = false) by (apply Nat.leb_gt; exact Hs). rewrite Hl in Hce.
  destruct (eam_link_increases idx Hi Hs ltac:(rewrite <- Hce; exact H1)) as [Hself|[Hs' Hk']].
  - left. exists 0%nat. split; [lia|]. cbn [citer]. rewrite Hce. exact Hself.
  - rewrite <- Hce in Hs', Hk'.
    destruct (IH (cnext idx) H1 Hs' ltac:(intros j Hj; apply (Hin (S j)); lia)) as [[j [Hj Hp]]|[->|[Hkk Hss]]].
    + left. exists (S j). split; [lia|exact Hp].
    + right. right. cbn [citer]. unfold key. split; [exact Hk'|exact Hs'].
    + right. right. cbn [citer]. split; [unfold key in *; lia|exact Hss].
Qed.

Theorem eam_loopfree idx k : (idx < nc)%nat -> (nth idx rep nsub < nsub)%nat -> (1 <= k)%nat ->
  (forall j, (j <= k)%nat -> (citer j idx < nc)%nat) -> citer k idx = idx ->
  exists j, (j < k)%nat /\ cnext (citer j idx) = citer j idx.
Proof.
  intros Hi Hs Hk Hin Hcyc.
  destruct (chain_key k idx Hi Hs Hin) as [H|[->|[Hlt _]]]; [exact H|lia|].
  rewrite Hcyc in Hlt. lia.
Qed.
End EamLoopfree.

(* ---------- eam_plus (the first stage of ihu): outlet pixels, links to the next outlet pixel ---------- *)
Section EamPlusLoopfree.
Variable sds : list nat.
Variable upa : list Z.
Variable subncol cs nrow ncol : nat.
Variable ea : list bool.
Notation nsub := (length sds).
Notation nc := (nrow * ncol)%nat.
Notation sd := (Upscale.sd sds).
Notation cellof := (cellof subncol cs ncol).
Notation U t := (nth t upa 0).

Hypothesis Hwf : forall t, (t < nsub)%nat -> (sd t < nsub)%nat -> (sd (sd t) < nsub)%nat.
Hypothesis Hcell : forall t, (t < nsub)%nat -> (cellof t < nc)%nat.
Hypothesis Hpos : forall t, (t < nsub)%nat -> (sd t < nsub)%nat -> 0 < U t.
Hypothesis Hinc : forall t, (t < nsub)%nat -> (sd t < nsub)%nat -> sd t <> t -> U t < U (sd t).

Notation rep := (repcell sds upa subncol cs nrow ncol (eaf ea)).
Notation out := (ihu_outlets sds subncol cs nrow ncol rep).
(* the outlet traces do not run out of fuel (NetBound.out_walk_terminates: true on every loop-free fine network) *)
Hypothesis Hfuel : forall idx s, (s < nsub)%nat -> (out_walk sds subncol cs ncol (S nsub) idx s <= nsub)%nat.

Lemma iter_up k : forall s, (s < nsub)%nat -> (sd s < nsub)%nat ->
  (iter sds k s < nsub)%nat /\ (sd (iter sds k s) < nsub)%nat /\ U s <= U (iter sds k s).
Proof.
  induction k as [|k IH]; intros s Hs Hd; cbn [iter]; [split; [auto|split; [auto|lia]]|].
  change (dsf sds s) with (sd s).
  destruct (IH (sd s) Hd (Hwf s Hs Hd)) as (A & B & C). split; [exact A|]. split; [exact B|].
  destruct (Nat.eq_dec (sd s) s) as [E|E]; [rewrite E in *; exact C|]. pose proof (Hinc s Hs Hd E). lia.
Qed.

Lemma out_nth idx : (idx < nc)%nat ->
  nth idx out nsub = let s := nth idx rep nsub in if (nsub <=? s)%nat then nsub else out_walk sds subncol cs ncol (S nsub) idx s.
Proof.
  intros Hi. unfold ihu_outlets.
  rewrite (nth_indep _ nsub ((fun idx0 => let s := nth idx0 rep nsub in if (nsub <=? s)%nat then nsub else out_walk sds subncol cs ncol (S nsub) idx0 s) 0%nat))
    by (rewrite map_length, seq_length; exact Hi).
  rewrite (map_nth (fun idx0 => let s := nth idx0 rep nsub in if (nsub <=? s)%nat then nsub else out_walk sds subncol cs ncol (S nsub) idx0 s)).
  rewrite seq_nth by exact Hi. reflexivity.
Qed.

(* the outlet pixel of a cell with a representative pixel: in the cell, on the network, not above the representative pixel *)
Lemma out_of_rep idx : (idx < nc)%nat -> (nth idx rep nsub < nsub)%nat ->
  let o := nth idx out nsub in (o < nsub)%nat /\ (sd o < nsub)%nat /\ cellof o = idx /\ U (nth idx rep nsub) <= U o.
Proof.
  intros Hi Hs. cbv zeta. rewrite (out_nth idx Hi). cbv zeta.
  assert (Hl : (nsub <=? nth idx rep nsub)%nat = false) by (apply Nat.leb_gt; exact Hs). rewrite Hl.
  destruct (repcell_spec sds upa subncol cs nrow ncol (eaf ea)) as (_ & Hin & _).
  destruct (Hin idx Hi) as [E|[[_ [Hds _]] [Hc _]]]; [lia|].
  destruct (out_walk_spec sds subncol cs nrow ncol Hwf (S nsub) idx (nth idx rep nsub) _ Hs Hds Hc eq_refl (Hfuel idx _ Hs)) as (Ho & Hco & [k Hk] & _).
  destruct (iter_up k (nth idx rep nsub) Hs Hds) as (A & B & C). rewrite Hk in A, B, C.
  split; [exact Ho|]. split; [exact B|]. split; [exact Hco|exact C].
Qed.

Notation walk := (ihu_walk sds subncol cs ncol ea).

Lemma ihu_walk_up fuel : forall idx0 s fe t B, (s < nsub)%nat -> (sd s < nsub)%nat -> B <= U s ->
  (forall x, fe = Some x -> (x < nsub)%nat /\ (sd x < nsub)%nat /\ eaf ea x = true /\ B < U x) ->
  walk fuel out idx0 s fe = Some t ->
  (t < nsub)%nat /\ (sd t < nsub)%nat /\ (nth (cellof t) out nsub = t \/ sd t = t \/ eaf ea t = true) /\
  (B < U t \/ (t = s /\ sd s = s)).
Proof.
  induction fuel as [|f IH]; intros idx0 s fe t B Hs Hds HB Hfe Hw; cbn [ihu_walk] in Hw; [discriminate|].
  destruct ((nth (cellof (sd s)) out nsub =? sd s)%nat || (sd s =? s)%nat) eqn:Stop.
  - destruct (in_d8 idx0 (cellof (sd s)) ncol).
    + inversion Hw; subst t. split; [exact Hds|]. split; [apply Hwf; auto|].
      apply orb_true_iff in Stop. destruct Stop as [E|E].
      * apply Nat.eqb_eq in E. split; [left; exact E|].
        destruct (Nat.eq_dec (sd s) s) as [Ep|Ep]; [right; split; auto|left; pose proof (Hinc s Hs Hds Ep); lia].
      * apply Nat.eqb_eq in E. split; [right; left; rewrite E; exact E|]. right. split; auto.
    + destruct (Hfe t Hw) as (A & B' & C & D). split; [exact A|]. split; [exact B'|]. split; [right; right; exact C|left; exact D].
  - apply orb_false_iff in Stop. destruct Stop as [_ Hnp]. apply Nat.eqb_neq in Hnp.
    pose proof (Hinc s Hs Hds Hnp) as Hup.
    set (fe' := match fe with Some _ => fe | None => if eaf ea (sd s) then Some (sd s) else None end) in *.
    assert (Hfe' : forall x, fe' = Some x -> (x < nsub)%nat /\ (sd x < nsub)%nat /\ eaf ea x = true /\ B < U x).
    { intros x Hx. unfold fe' in Hx. destruct fe as [y|]; [apply Hfe; exact Hx|].
      destruct (eaf ea (sd s)) eqn:Ee; [|discriminate]. inversion Hx; subst x.
      split; [exact Hds|]. split; [apply Hwf; auto|]. split; [exact Ee|lia]. }
    destruct (IH idx0 (sd s) fe' t B Hds (Hwf s Hs Hds) ltac:(lia) Hfe' Hw)
      as (A & B' & C & D).
    split; [exact A|]. split; [exact B'|]. split; [exact C|]. left. destruct D as [D|[-> _]]; lia.
Qed.

Notation cds := (ihu_nextidx sds subncol cs nrow ncol ea out).

(* one eam_plus link: to the cell itself, or to a cell whose outlet pixel has the larger upstream area *)
Theorem eam_plus_link_increases idx0 t : (idx0 < nc)%nat -> (nth idx0 rep nsub < nsub)%nat ->
  walk (S nsub) out idx0 (nth idx0 out nsub) None = Some t ->
  let r := cellof t in
  r = idx0 \/ ((r < nc)%nat /\ (nth r rep nsub < nsub)%nat /\ U (nth idx0 out nsub) < U (nth r out nsub)).
Proof.
  intros Hi Hs Hw r.
  destruct (out_of_rep idx0 Hi Hs) as (Ho & Hdo & Hco & _). cbv zeta in Ho, Hdo, Hco.
  destruct (ihu_walk_up (S nsub) idx0 (nth idx0 out nsub) None t (U (nth idx0 out nsub)) Ho Hdo ltac:(lia) ltac:(intros x Hx; discriminate) Hw)
    as (Ht & Hdt & Hkind & Hu).
  destruct Hu as [Hu|[-> _]]; [|left; exact Hco]. right.
  assert (Hr : (r < nc)%nat) by (apply Hcell; exact Ht). split; [exact Hr|].
  destruct (repcell_spec sds upa subncol cs nrow ncol (eaf ea)) as (_ & Hin & Hex).
  destruct Hkind as [Hout|Hcand].
  - (* the next outlet pixel *)
    fold r in Hout. assert (Hrs : (nth r rep nsub < nsub)%nat).
    { pose proof (out_nth r Hr) as E. cbv zeta in E. rewrite Hout in E.
      destruct (Nat.leb_spec nsub (nth r rep nsub)); [lia|auto]. }
    split; [exact Hrs|]. rewrite Hout. exact Hu.
  - (* a pit or an effective-area pixel: a candidate of its cell *)
    assert (Hc : candidate sds (eaf ea) t) by (split; [exact Ht|split; [exact Hdt|exact Hcand]]).
    destruct (Hex t Hc Hr (Hpos t Ht Hdt)) as [H1 H2]. cbv zeta in H1, H2. fold r in H1, H2.
    split; [exact H1|]. destruct (out_of_rep r Hr H1) as (_ & _ & _ & H3). cbv zeta in H3. lia.
Qed.

Definition pnext (idx : nat) : nat := nth idx cds nc.
Fixpoint piter (k : nat) (idx : nat) : nat := match k with O => idx | S k' => piter k' (pnext idx) end.
Definition pkey (idx : nat) : Z := U (nth idx out nsub).

Lemma pnext_eq idx : (idx < nc)%nat -> pnext idx =
  let s := nth idx out nsub in
  if (nsub <=? s)%nat then nc else match walk (S nsub) out idx s None with Some t => cellof t | None => ERR nrow ncol end.
Proof.
  intros Hi. unfold pnext, ihu_nextidx, per_cell.
  rewrite (nth_indep _ nc ((fun idx0 => let s := nth idx0 out nsub in if (nsub <=? s)%nat then nc
             else match walk (S nsub) out idx0 s None with Some t => cellof t | None => ERR nrow ncol end) 0%nat))
    by (rewrite map_length, seq_length; exact Hi).
  rewrite (map_nth (fun idx0 => let s := nth idx0 out nsub in if (nsub <=? s)%nat then nc
             else match walk (S nsub) out idx0 s None with Some t => cellof t | None => ERR nrow ncol end)).
  rewrite seq_nth by exact Hi. reflexivity.
Qed.

Lemma pchain_key k : forall idx, (idx < nc)%nat -> (nth idx rep nsub < nsub)%nat ->
  (forall j, (j <= k)%nat -> (piter j idx < nc)%nat) ->
  (exists j, (j < k)%nat /\ pnext (piter j idx) = piter j idx) \/ (k = 0%nat) \/
  pkey idx < pkey (piter k idx) /\ (nth (piter k idx) rep nsub < nsub)%nat.
Proof.
  induction k as [|k IH]; intros idx Hi Hs Hin; [right; left; reflexivity|].
  pose proof (Hin 1%nat ltac:(lia)) as H1. cbn [piter] in H1.
  pose proof (pnext_eq idx Hi) as Hce. cbv zeta in Hce.
  destruct (out_of_rep idx Hi Hs) as (Ho & _). cbv zeta in Ho.
  assert (Hl : (nsub <=? nth idx out nsub)%nat = false) by (apply Nat.leb_gt; exact Ho). rewrite Hl in Hce.
  destruct (walk (S nsub) out idx (nth idx out nsub) None) as [t|] eqn:Hw; [|rewrite Hce in H1; unfold ERR in H1; lia].
  destruct (eam_plus_link_increases idx t Hi Hs Hw) as [Hself|(Hr & Hs' & Hk')].
  - left. exists 0%nat. split; [lia|]. cbn [piter]. rewrite Hce. exact Hself.
  - rewrite <- Hce in Hr, Hs', Hk'.
    destruct (IH (pnext idx) H1 Hs' ltac:(intros j Hj; apply (Hin (S j)); lia)) as [[j [Hj Hp]]|[->|[Hkk Hss]]].
    + left. exists (S j). split; [lia|exact Hp].
    + right. right. cbn [piter]. unfold pkey. split; [exact Hk'|exact Hs'].
    + right. right. cbn [piter]. split; [unfold pkey in *; lia|exact Hss].
Qed.

Theorem eam_plus_loopfree idx k : (idx < nc)%nat -> (nth idx rep nsub < nsub)%nat -> (1 <= k)%nat ->
  (forall j, (j <= k)%nat -> (piter j idx < nc)%nat) -> piter k idx = idx ->
  exists j, (j < k)%nat /\ pnext (piter j idx) = piter j idx.
Proof.
  intros Hi Hs Hk Hin Hcyc.
  destruct (pchain_key k idx Hi Hs Hin) as [H|[->|[Hlt _]]]; [exact H|lia|].
  rewrite Hcyc in Hlt. lia.
Qed.
End EamPlusLoopfree.

(* ---------- dmm: exit pixels on the cell edge, links to the cell where the trace stops ---------- *)
From PF Require Import UpscaleD8.

Section DmmLoopfree.
Variable sds : list nat.
Variable upa : list Z.
Variable subncol cs nrow ncol : nat.
Notation nsub := (length sds).
Notation nc := (nrow * ncol)%nat.
Notation sd := (Upscale.sd sds).
Notation cellof := (cellof subncol cs ncol).
Notation U t := (nth t upa 0).
Notation edge t := (cell_edge t subncol cs).

Hypothesis Hcs : (0 < cs)%nat.
Hypothesis HW : (0 < subncol)%nat.
Hypothesis Hnc : (subncol <= ncol * cs)%nat.
Hypothesis Hwf : forall t, (t < nsub)%nat -> (sd t < nsub)%nat -> (sd (sd t) < nsub)%nat.
Hypothesis Hcell : forall t, (t < nsub)%nat -> (cellof t < nc)%nat.
Hypothesis Hd8 : forall t, (t < nsub)%nat -> (sd t < nsub)%nat -> in_d8 t (sd t) subncol = true.
Hypothesis Hpos : forall t, (t < nsub)%nat -> (sd t < nsub)%nat -> 0 < U t.
Hypothesis Hinc : forall t, (t < nsub)%nat -> (sd t < nsub)%nat -> sd t <> t -> U t < U (sd t).

Notation rep := (repcell sds upa subncol cs nrow ncol (fun t => edge t)).

(* a pixel whose downstream pixel lies in another cell is on the edge of its cell *)
Lemma band_change x x' : (x' <= x + 1)%nat -> (x <= x' + 1)%nat -> band cs x' <> band cs x ->
  (off cs x = 0 \/ off cs x + 1 = cs)%nat.
Proof.
  intros H1 H2 Hne. destruct (bo cs Hcs x) as [Ex Hox]. destruct (bo cs Hcs x') as [Ex' Hox'].
  destruct (Nat.eq_dec (off cs x) 0) as [E0|N0]; [left; exact E0|].
  destruct (Nat.eq_dec (off cs x + 1) cs) as [E1|N1]; [right; exact E1|]. exfalso. apply Hne.
  assert (Hc : x' = x \/ x' = (x + 1)%nat \/ (x' + 1)%nat = x) by lia.
  destruct Hc as [->|[->|Hm]]; [reflexivity| |].
  - destruct (bo_unique cs Hcs (x + 1) (band cs x) (off cs x + 1) ltac:(lia) ltac:(lia)) as [Eb _]. exact Eb.
  - destruct (bo_unique cs Hcs x' (band cs x) (off cs x - 1) ltac:(lia) ltac:(lia)) as [Eb _]. exact Eb.
Qed.

Lemma leaving_is_edge t : (t < nsub)%nat -> (sd t < nsub)%nat -> cellof (sd t) <> cellof t -> edge t = true.
Proof.
  intros Ht Hd Hne. destruct (pixel_step sds subncol cs ncol Hcs HW Hnc Hd8 t Ht Hd) as (P1 & P2 & P3 & P4).
  rewrite !cellof_eq in Hne.
  assert (Hb : band cs (sd t / subncol) <> band cs (t / subncol) \/ band cs (sd t mod subncol) <> band cs (t mod subncol)).
  { destruct (Nat.eq_dec (band cs (sd t / subncol)) (band cs (t / subncol))) as [E1|N1]; [|left; exact N1].
    destruct (Nat.eq_dec (band cs (sd t mod subncol)) (band cs (t mod subncol))) as [E2|N2]; [|right; exact N2].
    exfalso. apply Hne. rewrite E1, E2. reflexivity. }
  unfold cell_edge. change ((t / subncol) mod cs)%nat with (off cs (t / subncol)). change ((t mod subncol) mod cs)%nat with (off cs (t mod subncol)).
  destruct Hb as [Hb|Hb].
  - destruct (band_change _ _ P1 P2 Hb) as [E|E]; [rewrite E; reflexivity|].
    apply orb_true_iff. left. apply orb_true_iff. right. apply Nat.eqb_eq. exact E.
  - destruct (band_change _ _ P3 P4 Hb) as [E|E]; [rewrite E; rewrite orb_true_r; reflexivity|].
    apply orb_true_iff. right. apply Nat.eqb_eq. exact E.
Qed.

(* from every pixel of the network the flow path reaches, inside the same cell, a pit or a pixel on the cell edge *)
Lemma reach_candidate k : forall p, (p < nsub)%nat -> (sd p < nsub)%nat -> (forall t, (t < nsub)%nat -> U t <= U p + Z.of_nat k) ->
  exists c, candidate sds (fun t => edge t) c /\ cellof c = cellof p /\ U p <= U c.
Proof.
  induction k as [|k IH]; intros p Hp Hd HB.
  - (* no larger value exists: p is a pit *)
    destruct (Nat.eq_dec (sd p) p) as [E|E].
    + exists p. split; [split; [exact Hp|split; [exact Hd|left; exact E]]|split; [reflexivity|lia]].
    + pose proof (Hinc p Hp Hd E). pose proof (HB (sd p) Hd). lia.
  - destruct (Nat.eq_dec (sd p) p) as [E|E].
    + exists p. split; [split; [exact Hp|split; [exact Hd|left; exact E]]|split; [reflexivity|lia]].
    + destruct (Nat.eq_dec (cellof (sd p)) (cellof p)) as [Ec|Ec].
      * pose proof (Hinc p Hp Hd E) as Hup.
        destruct (IH (sd p) Hd (Hwf p Hp Hd) ltac:(intros t Ht; pose proof (HB t Ht); lia)) as (c & Hc1 & Hc2 & Hc3).
        exists c. split; [exact Hc1|]. split; [congruence|lia].
      * exists p. split; [split; [exact Hp|split; [exact Hd|right; apply leaving_is_edge; auto]]|split; [reflexivity|lia]].
Qed.

Lemma upa_bounded : exists B, forall t, (t < nsub)%nat -> U t <= B.
Proof.
  exists (fold_right Z.max 0 upa). intros t _. destruct (Nat.lt_ge_cases t (length upa)) as [H|H].
  - assert (G : forall l i, (i < length l)%nat -> nth i l 0 <= fold_right Z.max 0 l).
    { induction l as [|a l IH]; intros i Hi; [simpl in Hi; lia|]. destruct i as [|i]; cbn [nth fold_right]; [lia|].
      specialize (IH i ltac:(simpl in Hi; lia)). lia. }
    apply G. exact H.
  - rewrite nth_overflow by exact H. assert (G : forall l, 0 <= fold_right Z.max 0 l) by (induction l; cbn [fold_right]; lia). apply G.
Qed.

(* where the dmm trace stops: at the start itself (only if that is the reported cell) or strictly downstream *)
Lemma dmm_walk_up fuel : forall idx0 s0 cur idx r, (cur < nsub)%nat -> (sd cur < nsub)%nat -> idx = cellof cur ->
  dmm_walk sds subncol cs nrow ncol fuel idx0 s0 cur idx = r -> (r < nc)%nat ->
  exists p, (p < nsub)%nat /\ (sd p < nsub)%nat /\ cellof p = r /\ (p = cur \/ U cur < U p).
Proof.
  induction fuel as [|f IH]; intros idx0 s0 cur idx r Hc Hd Hi Hw Hr; cbn [dmm_walk] in Hw; [unfold ERR in Hw; lia|].
  destruct (Nat.eqb_spec (sd cur) cur) as [Hpit|Hnp]; [exists cur; subst idx; repeat split; auto|].
  destruct (negb (cellof (sd cur) =? idx0)%nat && dmm_outside subncol cs ncol idx0 s0 cur);
    [exists cur; subst idx; repeat split; auto|].
  destruct (IH idx0 s0 (sd cur) (cellof (sd cur)) r Hd (Hwf cur Hc Hd) eq_refl Hw Hr) as (p & A & B & C & D).
  exists p. repeat split; auto. right. pose proof (Hinc cur Hc Hd Hnp). destruct D as [->|D]; lia.
Qed.

Theorem dmm_link_increases idx0 : (idx0 < nc)%nat ->
  let s := nth idx0 rep nsub in (s < nsub)%nat ->
  let r := dmm_walk sds subncol cs nrow ncol (S nsub) idx0 s s idx0 in (r < nc)%nat ->
  r = idx0 \/ ((nth r rep nsub < nsub)%nat /\ U s < U (nth r rep nsub)).
Proof.
  intros Hi s Hs r Hr.
  destruct (repcell_spec sds upa subncol cs nrow ncol (fun t => edge t)) as (_ & Hin & Hex).
  destruct (Hin idx0 Hi) as [E|[[_ [Hds _]] [Hc _]]]; [fold s in E; lia|]. fold s in Hds, Hc.
  destruct (dmm_walk_up (S nsub) idx0 s s idx0 r Hs Hds (eq_sym Hc) eq_refl Hr) as (p & Hp & Hdp & Hcp & Hup).
  destruct Hup as [->|Hup]; [left; congruence|]. right.
  destruct upa_bounded as [B HB].
  destruct (reach_candidate (Z.to_nat (B - U p)) p Hp Hdp ltac:(intros t Ht; pose proof (HB t Ht); pose proof (HB p Hp); lia))
    as (c & Hcand & Hcc & Huc).
  destruct (Hex c Hcand ltac:(rewrite Hcc, Hcp; exact Hr) ltac:(destruct Hcand as (C1 & C2 & _); apply Hpos; auto)) as [H1 H2].
  rewrite Hcc, Hcp in H1, H2. cbv zeta in H1, H2. split; [exact H1|lia].
Qed.

Notation cdsd := (dmm_nextidx sds subncol cs nrow ncol rep).
Definition dnext (idx : nat) : nat := nth idx cdsd nc.
Fixpoint diter (k : nat) (idx : nat) : nat := match k with O => idx | S k' => diter k' (dnext idx) end.
Definition dkey (idx : nat) : Z := U (nth idx rep nsub).

Lemma dnext_eq idx : (idx < nc)%nat -> dnext idx =
  let s := nth idx rep nsub in if (nsub <=? s)%nat then nc else dmm_walk sds subncol cs nrow ncol (S nsub) idx s s idx.
Proof.
  intros Hi. unfold dnext, dmm_nextidx, per_cell.
  rewrite (nth_indep _ nc ((fun idx0 => let s := nth idx0 rep nsub in if (nsub <=? s)%nat then nc else dmm_walk sds subncol cs nrow ncol (S nsub) idx0 s s idx0) 0%nat))
    by (rewrite map_length, seq_length; exact Hi).
  rewrite (map_nth (fun idx0 => let s := nth idx0 rep nsub in if (nsub <=? s)%nat then nc else dmm_walk sds subncol cs nrow ncol (S nsub) idx0 s s idx0)).
  rewrite seq_nth by exact Hi. reflexivity.
Qed.

Lemma dchain_key k : forall idx, (idx < nc)%nat -> (nth idx rep nsub < nsub)%nat ->
  (forall j, (j <= k)%nat -> (diter j idx < nc)%nat) ->
  (exists j, (j < k)%nat /\ dnext (diter j idx) = diter j idx) \/ (k = 0%nat) \/
  dkey idx < dkey (diter k idx) /\ (nth (diter k idx) rep nsub < nsub)%nat.
Proof.
  induction k as [|k IH]; intros idx Hi Hs Hin; [right; left; reflexivity|].
  pose proof (Hin 1%nat ltac:(lia)) as H1. cbn [diter] in H1.
  pose proof (dnext_eq idx Hi) as Hce. cbv zeta in Hce.
  assert (Hl : (nsub <=? nth idx rep nsub)%nat = false) by (apply Nat.leb_gt; exact Hs). rewrite Hl in Hce.
  destruct (dmm_link_increases idx Hi Hs ltac:(rewrite <- Hce; exact H1)) as [Hself|[Hs' Hk']].
  - left. exists 0%nat. split; [lia|]. cbn [diter]. rewrite Hce. exact Hself.
  - rewrite <- Hce in Hs', Hk'.
    destruct (IH (dnext idx) H1 Hs' ltac:(intros j Hj; apply (Hin (S j)); lia)) as [[j [Hj Hp]]|[->|[Hkk Hss]]].
    + left. exists (S j). split; [lia|exact Hp].
    + right. right. cbn [diter]. unfold dkey. split; [exact Hk'|exact Hs'].
    + right. right. cbn [diter]. split; [unfold dkey in *; lia|exact Hss].
Qed.

Theorem dmm_loopfree idx k : (idx < nc)%nat -> (nth idx rep nsub < nsub)%nat -> (1 <= k)%nat ->
  (forall j, (j <= k)%nat -> (diter j idx < nc)%nat) -> diter k idx = idx ->
  exists j, (j < k)%nat /\ dnext (diter j idx) = diter j idx.
Proof.
  intros Hi Hs Hk Hin Hcyc.
  destruct (dchain_key k idx Hi Hs Hin) as [H|[->|[Hlt _]]]; [exact H|lia|].
  rewrite Hcyc in Hlt. lia.
Qed.
End DmmLoopfree.
