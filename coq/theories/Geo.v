(* Models over Q: gis_utils.xy / rowcol / idxs_to_coords / coords_to_idxs / array_bounds for
   axis-aligned transforms  x = a*col + c ,  y = e*row + f. *)
From Coq Require Import ZArith QArith Qround List Bool.
Import ListNotations.
Local Open Scope Q_scope.

Record affine := { ta : Q; tc : Q; te : Q; tf : Q }.

Definition half : Q := 1 # 2.
(* xy(transform, rows, cols, offset="center") *)
Definition xy (t : affine) (row col : Z) : Q * Q :=
  (ta t * (inject_Z col + half) + tc t, te t * (inject_Z row + half) + tf t).
(* corners of the cell *)
Definition xy_ul (t : affine) (row col : Z) : Q * Q := (ta t * inject_Z col + tc t, te t * inject_Z row + tf t).
Definition xy_lr (t : affine) (row col : Z) : Q * Q :=
  (ta t * (inject_Z col + 1) + tc t, te t * (inject_Z row + 1) + tf t).
(* rowcol(transform, xs, ys, op=floor) *)
Definition rowcol (t : affine) (x y : Q) : Z * Z :=
  (Qfloor ((y - tf t) / te t), Qfloor ((x - tc t) / ta t)).

Definition in_raster (nrow ncol r c : Z) : bool :=
  ((0 <=? r) && (r <? nrow) && (0 <=? c) && (c <? ncol))%Z.
(* coords_to_idxs: None = IndexError *)
Definition coords_to_idx (t : affine) (nrow ncol : Z) (x y : Q) : option Z :=
  let '(r, c) := rowcol t x y in
  if in_raster nrow ncol r c then Some (r * ncol + c)%Z else None.
(* idxs_to_coords: None = IndexError *)
Definition idx_to_coords (t : affine) (nrow ncol : Z) (idx : Z) : option (Q * Q) :=
  if ((0 <=? idx) && (idx <? nrow * ncol))%Z then Some (xy t (idx / ncol)%Z (idx mod ncol)%Z) else None.
(* array_bounds(height, width, transform) = (west, south, east, north) *)
Definition array_bounds (t : affine) (height width : Z) : Q * Q * Q * Q :=
  (tc t, te t * inject_Z height + tf t, ta t * inject_Z width + tc t, tf t).
