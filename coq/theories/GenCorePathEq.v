(* core.path and core.snap REGENERATED from the Python source (generated/GenCore.v: a `for` loop over the start cells that
   calls the generated _trace and stores the results).  The project has no hand-written model of these two wrappers (C11 runs
   Trace.trace per start cell), so the models are stated here with Trace.trace: the traces of all start cells in order
   (None when one of them runs out of fuel); path returns the paths and the lengths, snap the last cell of every path and
   the lengths.  No hypothesis, no axiom. *)
From Coq Require Import List Arith ZArith Bool Lia.
Import ListNotations.
From PF Require Import Arr Net Trace GenCoreBaseEq GenCoreTraceEq.
From PFG Require Import GenCore.
Local Open Scope Z_scope.

Section PathEq.
Variables (nxt : list nat) (mask : option (list bool)) (maxlen : option Z) (len : nat -> nat -> Z) (fuel : nat).

Fixpoint traces (starts : list nat) : option (list (list nat * Z)) :=
  match starts with
  | [] => Some []
  | s :: t => match trace nxt mask maxlen len fuel s 0 with
              | None => None
              | Some r => match traces t with None => None | Some rs => Some (r :: rs) end
              end
  end.

Definition path_model (starts : list nat) : option (list (list nat) * list Z) :=
  match traces starts with None => None | Some rs => Some (map fst rs, map snd rs) end.
Definition snap_model (starts : list nat) : option (list nat * list Z) :=
  match traces starts with None => None | Some rs => Some (map (fun r => last (fst r) (length nxt)) rs, map snd rs) end.
End PathEq.

Section Loops.
Variables (idxs0 nxt : list nat) (g : bool) (mask : option (list bool)) (maxlen : option Z) (rl : bool) (fuel : nat)
          (steplen : nat -> nat -> Z).
Notation len := (fun a b => if rl && g then steplen a b else 1).

Lemma path_loop : forall starts pre ps A, idxs0 = pre ++ starts -> length A = length pre ->
  ofold (gen_path_loop1_step idxs0 nxt g mask maxlen rl fuel steplen) (seq (length pre) (length starts))
        (ps, A ++ repeat 0 (length starts)) =
  match traces nxt mask maxlen len fuel starts with
  | None => None
  | Some rs => Some (ps ++ map fst rs, A ++ map snd rs)
  end.
Proof.
  induction starts as [|s t IH]; intros pre ps A E HA.
  - cbn [length seq traces map repeat]. rewrite ofold_nil, !app_nil_r. reflexivity.
  - cbn [length seq traces]. rewrite ofold_cons. unfold gen_path_loop1_step at 1. cbv zeta.
    rewrite gen__trace_eq. rewrite E at 1. rewrite nth_middle.
    destruct (trace nxt mask maxlen _ fuel s 0) as [[p Dd]|]; [|reflexivity].
    rewrite (upd_app_at A) by auto. cbn [repeat upd].
    change (A ++ Dd :: repeat 0 (length t)) with (A ++ [Dd] ++ repeat 0 (length t)). rewrite app_assoc.
    replace (S (length pre)) with (length (pre ++ [s])) by (rewrite app_length; cbn [length]; lia).
    rewrite (IH (pre ++ [s]) (ps ++ [p]) (A ++ [Dd])).
    + destruct (traces nxt mask maxlen _ fuel t) as [rs|]; [|reflexivity]. cbn [map fst snd]. rewrite <- !app_assoc. reflexivity.
    + rewrite <- app_assoc. exact E.
    + rewrite !app_length. cbn [length]. lia.
Qed.

Lemma snap_loop : forall starts pre I A, idxs0 = pre ++ starts -> length A = length pre -> length I = length pre ->
  ofold (gen_snap_loop1_step idxs0 nxt g mask maxlen rl fuel steplen) (seq (length pre) (length starts))
        (I ++ repeat (length nxt) (length starts), A ++ repeat 0 (length starts)) =
  match traces nxt mask maxlen len fuel starts with
  | None => None
  | Some rs => Some (I ++ map (fun r => last (fst r) (length nxt)) rs, A ++ map snd rs)
  end.
Proof.
  induction starts as [|s t IH]; intros pre I A E HA HI.
  - cbn [length seq traces map repeat]. rewrite ofold_nil, !app_nil_r. reflexivity.
  - cbn [length seq traces]. rewrite ofold_cons. unfold gen_snap_loop1_step at 1. cbv zeta.
    rewrite gen__trace_eq. rewrite E at 1. rewrite nth_middle.
    destruct (trace nxt mask maxlen _ fuel s 0) as [[p Dd]|]; [|reflexivity].
    rewrite (upd_app_at I) by auto. rewrite (upd_app_at A) by auto. cbn [repeat upd].
    change (A ++ Dd :: repeat 0 (length t)) with (A ++ [Dd] ++ repeat 0 (length t)).
    change (I ++ last p (length nxt) :: repeat (length nxt) (length t)) with (I ++ [last p (length nxt)] ++ repeat (length nxt) (length t)).
    rewrite !app_assoc.
    replace (S (length pre)) with (length (pre ++ [s])) by (rewrite app_length; cbn [length]; lia).
    rewrite (IH (pre ++ [s]) (I ++ [last p (length nxt)]) (A ++ [Dd])).
    + destruct (traces nxt mask maxlen _ fuel t) as [rs|]; [|reflexivity]. cbn [map fst snd]. rewrite <- !app_assoc. reflexivity.
    + rewrite <- app_assoc. exact E.
    + rewrite !app_length. cbn [length]. lia.
    + rewrite !app_length. cbn [length]. lia.
Qed.
End Loops.

Theorem gen_path_eq : forall fuel idxs0 nxt ncol_given mask maxlen real_length steplen,
  gen_path fuel idxs0 nxt ncol_given mask maxlen real_length steplen =
  path_model nxt mask maxlen (fun a b => if real_length && ncol_given then steplen a b else 1) fuel idxs0.
Proof.
  intros. unfold gen_path, path_model. cbv zeta.
  pose proof (path_loop idxs0 nxt ncol_given mask maxlen real_length fuel steplen idxs0 [] [] [] eq_refl eq_refl) as H.
  cbn [length app] in H. rewrite H. destruct (traces _ _ _ _ _ _); reflexivity.
Qed.

Theorem gen_snap_eq : forall fuel idxs0 nxt ncol_given mask maxlen real_length steplen,
  gen_snap fuel idxs0 nxt ncol_given mask maxlen real_length steplen =
  snap_model nxt mask maxlen (fun a b => if real_length && ncol_given then steplen a b else 1) fuel idxs0.
Proof.
  intros. unfold gen_snap, snap_model. cbv zeta.
  pose proof (snap_loop idxs0 nxt ncol_given mask maxlen real_length fuel steplen idxs0 [] [] [] eq_refl eq_refl eq_refl) as H.
  cbn [length app] in H. rewrite H. destruct (traces _ _ _ _ _ _); reflexivity.
Qed.

(* the models are what they are meant to be: one Trace.trace per start cell *)
Theorem path_model_spec : forall nxt mask maxlen len fuel starts ps Ds,
  path_model nxt mask maxlen len fuel starts = Some (ps, Ds) ->
  length ps = length starts /\ length Ds = length starts /\
  forall i, (i < length starts)%nat ->
    trace nxt mask maxlen len fuel (nth i starts 0%nat) 0 = Some (nth i ps [], nth i Ds 0).
Proof.
  intros nxt mask maxlen len fuel. unfold path_model.
  induction starts as [|s t IH]; intros ps Ds H; cbn [traces] in H.
  - inversion H; subst. cbn. repeat split; auto. intros i Hi. lia.
  - destruct (trace nxt mask maxlen len fuel s 0) as [[p Dd]|] eqn:Et; [|discriminate].
    destruct (traces nxt mask maxlen len fuel t) as [rs|]; [|discriminate].
    inversion H; subst. clear H. destruct (IH _ _ eq_refl) as (H1 & H2 & H3). cbn [map length fst snd].
    repeat split; try lia. intros [|i] Hi; cbn [nth]; [exact Et|]. apply H3. cbn [length] in Hi. lia.
Qed.

Theorem snap_model_spec : forall nxt mask maxlen len fuel starts,
  snap_model nxt mask maxlen len fuel starts =
  match path_model nxt mask maxlen len fuel starts with
  | None => None
  | Some (ps, Ds) => Some (map (fun p => last p (length nxt)) ps, Ds)
  end.
Proof.
  intros. unfold snap_model, path_model. destruct (traces _ _ _ _ _ _) as [rs|]; [|reflexivity].
  rewrite map_map. reflexivity.
Qed.

Print Assumptions gen_path_eq.
Print Assumptions gen_snap_eq.
Print Assumptions path_model_spec.
Print Assumptions snap_model_spec.
