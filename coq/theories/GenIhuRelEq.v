(* ihu_relocate_outlets: the generated gen_ihu_ihu_relocate_outlets (GenIhu.v) equals the hand model (GenIhuRelModel.v:
   rl_one_pf / relocate_pf, i.e. Ihu.rl_one / Ihu.relocate with the fuel of the passes loop as a parameter; the generated text
   corresponds to pf = S (length sds)).  The pieces: GenIhuRelTrace (trace, tributaries), GenIhuRelConn (connections),
   GenIhuRelTrib / GenIhuRelStep / GenIhuRelPass (the passes), GenIhuRelAux (the un-rolling). *)
From Coq Require Import List Arith ZArith Bool Lia.
Import ListNotations.
From PF Require Import Arr Upscale D8Idx Ihu GenUpscaleBaseEq GenIhuBaseEq GenIhuOptEq GenIhuRelDefs GenIhuRelAux GenIhuRelTrib
  GenIhuRelTrace GenIhuRelConn GenIhuRelStep GenIhuRelPass GenIhuRelModel.
From PFG Require Import GenUpscale GenIhu.

(* ---------- (1) the trace appends to both lists in lock step ---------- *)
Lemma rl_trace_len sds subncol cs nrow ncol : forall fuel cds out subidx idx0 idx_ds0 il sl il' sl' se,
  length il = length sl ->
  rl_trace sds subncol cs nrow ncol fuel cds out subidx idx0 idx_ds0 il sl = Some (il', sl', se) -> length il' = length sl'.
Proof.
  induction fuel as [|f IH]; intros cds out subidx idx0 idx_ds0 il sl il' sl' se Hl; cbn [rl_trace]; [discriminate|].
  cbv zeta.
  destruct (_ || _).
  - match goal with |- (if ?b then _ else _) = _ -> _ => destruct b end.
    + intros E. injection E as <- <- _. destruct (negb _); [rewrite !app_length; cbn [length]; lia|exact Hl].
    + apply IH. destruct (negb _); [rewrite !app_length; cbn [length]; lia|exact Hl].
  - apply IH. exact Hl.
Qed.

(* ---------- (2) small facts ---------- *)
Lemma forallb_map' {X Y : Type} (p : Y -> bool) (f : X -> Y) : forall l, forallb p (map f l) = forallb (fun x => p (f x)) l.
Proof. induction l as [|x l IH]; cbn [map forallb]; [reflexivity|rewrite IH; reflexivity]. Qed.

Lemma map_nth_Z (l : list nat) (sq : list nat) :
  map (fun i_ => nth i_ (map Z.of_nat l) 0%Z) sq = map Z.of_nat (map (fun i => nth i l 0%nat) sq).
Proof. rewrite map_map. apply map_ext. intros i. apply nth_map_Z. Qed.

(* no alternative outlet pixel: the passes loop at the call site, for any connection lists *)
Lemma pass_nil_gen fuel sds shape csz nsub nc sncol ncl idx00 il zc us0 sds0 zc1 f c o nx g1 g2 z b nb :
  match gen_ihu_ihu_relocate_outlets_walk8_body fuel sds shape csz nsub nc sncol ncl idx00 il [] 0 zc us0 sds0 zc1
          (c, o, nx, g1, g2, z, b, nb) with
  | None => None
  | Some (c', o', n', g1', g2', z', b', nb', so, io, dd, d0) =>
      gen_ihu_ihu_relocate_outlets_walk8 fuel sds shape csz nsub nc sncol ncl idx00 il [] 0 zc us0 sds0 zc1 (S f)
        (c', o', n', g1', g2', z', b', nb') (so, io, dd, d0)
  end = Some (c, o, false, g1, g2, z, b, Z.of_nat (length b), [], [], [], []).
Proof.
  change (gen_ihu_ihu_relocate_outlets_walk8_body fuel sds shape csz nsub nc sncol ncl idx00 il [] 0 zc us0 sds0 zc1
            (c, o, nx, g1, g2, z, b, nb))
    with (Some (c, o, false, g1, g2, z, b, Z.of_nat (length b), @nil nat, @nil nat, @nil nat, @nil nat)).
  cbv beta iota. cbn [gen_ihu_ihu_relocate_outlets_walk8].
  rewrite zgtb_nat', Nat.ltb_irrefl. reflexivity.
Qed.

(* ---------- (3) one cell of the outer loop ---------- *)
Definition prj2 (t : list nat * list nat * list nat) : list nat * list nat := let '(c, o, _) := t in (c, o).

Theorem rel_one_eq : forall sds subncol cs nrow ncol fixl a fo i0, a_err a = 0%nat ->
  option_map (fun t => let '(c, o, _) := t in (c, o))
    (gen_ihu_ihu_relocate_outlets_step1 (S (length sds)) sds (Z.of_nat nrow, Z.of_nat ncol) (Z.of_nat cs) (length sds) (nrow * ncol)
       (Z.of_nat subncol) (Z.of_nat ncol) fixl (a_cds a, a_out a, fo) i0)
  = (let a' := rl_one_pf (S (length sds)) sds subncol cs nrow ncol a (nth i0 fixl (nrow * ncol)) in
     if (a_err a' =? 0)%nat then Some (a_cds a', a_out a') else None).
Proof.
  intros sds subncol cs nrow ncol fixl a fo i0 Ha.
  unfold gen_ihu_ihu_relocate_outlets_step1, rl_one_pf. cbv zeta.
  set (idx00 := nth i0 fixl (nrow * ncol)).
  set (cds := a_cds a). set (out := a_out a).
  rewrite gen_up_subidx_2_idx_eq. unfold sd.
  set (subidx := nth (nth idx00 out (length sds)) sds (length sds)).
  pose proof (rel_trace_eq sds subncol cs nrow ncol (S (length sds)) cds out subidx (sub2idx subidx subncol cs ncol)
                (nth idx00 cds (nrow * ncol)) [] []) as HT.
  destruct (gen_ihu_ihu_relocate_outlets_walk2 _ _ _ _ _ _ _ _ _ _ _ _ _ _ _) as [[[[[[[il sl] stop] g1] se] g2] g3]|].
  2:{ rewrite HT. unfold set_err. cbn [a_err option_map]. rewrite Ha. reflexivity. }
  destruct HT as [HT ->]. rewrite HT. cbn [andb negb].
  destruct (se =? nth (nth idx00 cds (nrow * ncol)) out (length sds))%nat.
  { cbn [option_map]. rewrite Ha. reflexivity. }
  assert (Hlen : length il = length sl) by (apply (rl_trace_len _ _ _ _ _ _ _ _ _ _ _ [] [] il sl se eq_refl HT)).
  rewrite rel_tribs_eq.
  set (tribs := rl_tribs sds nrow ncol cds out idx00 il sl).
  set (conns := map (rl_conn_of sds subncol cs ncol out sl) tribs).
  set (conn_l := map (fun c : nat * nat * bool => fst (fst c)) conns).
  set (conn1_l := map (fun c : nat * nat * bool => snd (fst c)) conns).
  set (okc := forallb (fun c : nat * nat * bool => snd c) conns).
  set (seq1 := argsort (map Z.of_nat conn_l)).
  set (us0 := map (fun i => nth i tribs (nrow * ncol)) seq1).
  set (sds0 := map (fun i => nth (nth i cds (nrow * ncol)) out (length sds)) us0).
  set (conn := map (fun i => nth i conn_l 0%nat) seq1).
  set (conn1 := map (fun i => nth i conn1_l 0%nat) seq1).
  set (s := rl_passes sds subncol cs nrow ncol il sl us0 sds0 conn conn1 (S (length sds)) cds out [] idx00 0 okc).
  assert (Hokc : okc = forallb (fun x => snd (rl_conn_of sds subncol cs ncol out sl x)) tribs)
    by (unfold okc, conns; apply forallb_map').
  destruct (Nat.eq_dec (length sl) 0) as [E0|Hpos].
  - (* no alternative outlet pixel *)
    destruct sl as [|s0 sl0]; [clear E0|discriminate E0].
    destruct il as [|i1 il0]; [|discriminate Hlen].
    pose proof (rel_conn_fold_eq sds subncol cs nrow ncol out [] tribs se g3 [] []) as HC.
    assert (Hs : s = rl_init idx00 cds out [] 0 okc)
      by (apply (rel_passes_nil sds subncol cs nrow ncol [] [] us0 sds0 conn conn1 idx00 eq_refl (S (length sds)) cds out [] 0 okc
                   0%Z false 0%Z 0%nat 0%Z)).
    assert (Hokc' : okc = forallb (fun x => match rel_raw sds subncol cs ncol out [] x with None => false | Some _ => true end) tribs).
    { rewrite Hokc. clear. induction tribs as [|x t IH]; cbn [forallb]; [reflexivity|]. rewrite IH, rel_conn_of_ok. reflexivity. }
    rewrite <- Hokc' in HC.
    destruct (ofold _ _ _) as [[[[sb z1] l] l1]|].
    + destruct HC as (HC & _ & _).
      cbn [length]. change (Z.of_nat 0 >? -1)%Z with true.
      rewrite pass_nil_gen. cbv beta iota. cbn [memb orb option_map].
      rewrite Hs. unfold rl_init, in_out. cbn [s_chg_out map memb s_cds s_out s_ok a_err a_cds a_out].
      rewrite HC, Ha. reflexivity.
    + cbn [option_map]. rewrite Hs. unfold rl_init, in_out. cbn [s_chg_out map memb s_cds s_out s_ok a_err a_cds a_out].
      rewrite HC, Ha. reflexivity.
  - assert (Hpos' : 0 < length sl) by lia. clear Hpos.
    pose proof (rel_conn_fold_of sds subncol cs nrow ncol out sl tribs se g3 [] [] Hpos') as HC. rewrite <- Hokc in HC.
    destruct (ofold _ _ _) as [[[[sb z1] l] l1]|].
    + destruct HC as (HC & -> & ->). cbn [app].
      replace (map (fun x => Z.of_nat (fst (fst (rl_conn_of sds subncol cs ncol out sl x)))) tribs) with (map Z.of_nat conn_l)
        by (unfold conn_l, conns; rewrite !map_map; reflexivity).
      replace (map (fun x => Z.of_nat (snd (fst (rl_conn_of sds subncol cs ncol out sl x)))) tribs) with (map Z.of_nat conn1_l)
        by (unfold conn1_l, conns; rewrite !map_map; reflexivity).
      fold seq1. fold us0.
      replace (map (fun i_ => nth i_ out (length sds)) (map (fun i_ => nth i_ cds (nrow * ncol)) us0)) with sds0
        by (unfold sds0; rewrite map_map; reflexivity).
      rewrite !map_nth_Z. fold conn conn1.
      assert (Hs : s = rl_passes sds subncol cs nrow ncol il sl us0 sds0 conn conn1 (S (length sds)) cds out [] idx00 0 true)
        by (unfold s; rewrite HC; reflexivity).
      pose proof (rel_passes_spec sds subncol cs nrow ncol il sl us0 sds0 conn conn1 idx00 Hpos' Hlen (S (length sds)) cds out [] 0
                    z1 false g1 sb (-1)%Z) as HP.
      cbv zeta in HP. rewrite <- Hs in HP. destruct HP as [HN HS].
      rewrite (rel_call_site sds subncol cs nrow ncol il sl us0 sds0 conn conn1 idx00 (S (length sds)) cds out false g1 sb z1).
      destruct (s_ok s) eqn:Eok.
      * destruct (HS eq_refl) as (g1' & g2' & nb' & HG). rewrite HG. unfold outW. cbv beta iota. rewrite Nat2Z.id.
        fold (in_out s (nth (s_idx1 s) (s_cds s) (nrow * ncol))).
        destruct (in_out s (nth (s_idx1 s) (s_cds s) (nrow * ncol))) eqn:EIO.
        -- cbn [orb option_map]. unfold s4_unroll. cbn [s_cds s_out s_ok a_err a_cds a_out]. rewrite Eok, Ha. cbn [Nat.eqb].
           rewrite rel_unroll_ds_eq16, rel_unroll_out_eq17. reflexivity.
        -- rewrite orb_false_r. destruct (s_next s); cbn [option_map a_err a_cds a_out]; rewrite Eok, Ha; reflexivity.
      * rewrite (HN eq_refl). cbn [option_map].
        destruct (in_out s _); unfold s4_unroll; cbn [s_ok a_err]; rewrite Eok, Ha; reflexivity.
    + cbn [option_map].
      assert (Eok : s_ok s = false) by (unfold s; rewrite HC; apply rl_passes_ok_false).
      destruct (in_out s _); unfold s4_unroll; cbn [s_ok a_err]; rewrite Eok, Ha; reflexivity.
Qed.

(* ---------- (4) the error flag is sticky, the streams are untouched ---------- *)
Lemma rl_one_pf_sticky pf sds subncol cs nrow ncol a idx00 :
  a_err a <> 0%nat -> a_err (rl_one_pf pf sds subncol cs nrow ncol a idx00) <> 0%nat.
Proof.
  intros H. apply Nat.eqb_neq in H. unfold rl_one_pf. cbv zeta.
  destruct (rl_trace _ _ _ _ _ _ _ _ _ _ _ _ _) as [[[il sl] se]|].
  - destruct (se =? _)%nat; [apply Nat.eqb_neq; exact H|].
    cbn [a_err]. rewrite H. destruct (s_ok _); apply Nat.eqb_neq; exact H.
  - unfold set_err. cbn [a_err]. rewrite H. apply Nat.eqb_neq; exact H.
Qed.

Lemma rl_one_pf_st pf sds subncol cs nrow ncol a idx00 : a_st (rl_one_pf pf sds subncol cs nrow ncol a idx00) = a_st a.
Proof.
  unfold rl_one_pf. cbv zeta.
  destruct (rl_trace _ _ _ _ _ _ _ _ _ _ _ _ _) as [[[il sl] se]|]; [|reflexivity].
  destruct (se =? _)%nat; reflexivity.
Qed.

(* ---------- (5) the outer loop ---------- *)
Section Outer.
Variable sds : list nat.
Variables subncol cs nrow ncol : nat.
Variable fixl : list nat.
Notation nsub := (length sds).
Notation nc := (nrow * ncol)%nat.
Notation step1 := (gen_ihu_ihu_relocate_outlets_step1 (S nsub) sds (Z.of_nat nrow, Z.of_nat ncol) (Z.of_nat cs) nsub nc
                     (Z.of_nat subncol) (Z.of_nat ncol) fixl).
Notation ostep := (fun a i0 => rl_one_pf (S nsub) sds subncol cs nrow ncol a (nth i0 fixl nc)).

Definition enc2 (a : A) : option (list nat * list nat) := if (a_err a =? 0)%nat then Some (a_cds a, a_out a) else None.

Lemma outer_sticky : forall l a, a_err a <> 0%nat -> a_err (fold_left ostep l a) <> 0%nat.
Proof.
  induction l as [|x l IH]; intros a H; cbn [fold_left]; [exact H|]. apply IH, rl_one_pf_sticky, H.
Qed.

Lemma outer_st : forall l a, a_st (fold_left ostep l a) = a_st a.
Proof.
  induction l as [|x l IH]; intros a; cbn [fold_left]; [reflexivity|]. rewrite IH. apply rl_one_pf_st.
Qed.

Lemma outer_eq : forall l a fo, a_err a = 0%nat ->
  option_map prj2 (ofold step1 l (a_cds a, a_out a, fo)) = enc2 (fold_left ostep l a).
Proof.
  induction l as [|x l IH]; intros a fo Ha.
  - rewrite ofold_nil. cbn [fold_left option_map prj2]. unfold enc2. rewrite Ha. reflexivity.
  - rewrite ofold_cons. cbn [fold_left].
    pose proof (rel_one_eq sds subncol cs nrow ncol fixl a fo x Ha) as H. cbv zeta in H.
    set (a' := rl_one_pf (S nsub) sds subncol cs nrow ncol a (nth x fixl nc)) in *.
    destruct (step1 (a_cds a, a_out a, fo) x) as [[[c o] f']|]; cbn [option_map] in H;
      destruct (a_err a' =? 0)%nat eqn:E; try discriminate H.
    + injection H as -> ->. apply IH. apply Nat.eqb_eq. exact E.
    + cbn [option_map]. unfold enc2.
      assert (HE : a_err (fold_left ostep l a') <> 0%nat) by (apply outer_sticky; apply Nat.eqb_neq; exact E).
      apply Nat.eqb_neq in HE. rewrite HE. reflexivity.
Qed.
End Outer.

(* ---------- (6) the function ---------- *)
Definition rel_fix3 sds upa (subnrow : Z) subncol cs nrow ncol fixl cds out : list nat :=
  match gen_ihu_ihu_relocate_outlets (S (length sds)) fixl cds out sds upa (subnrow, Z.of_nat subncol) (Z.of_nat nrow, Z.of_nat ncol)
          (Z.of_nat cs) with
  | Some (_, _, f) => f
  | None => []
  end.

(* the first two components agree, and the generated value is None exactly when the model's error flag is set *)
Theorem gen_ihu_relocate_outlets_pf_prj : forall sds upa (subnrow : Z) subncol cs nrow ncol fixl cds out,
  length cds = (nrow * ncol)%nat ->
  option_map prj2
    (gen_ihu_ihu_relocate_outlets (S (length sds)) fixl cds out sds upa (subnrow, Z.of_nat subncol) (Z.of_nat nrow, Z.of_nat ncol)
       (Z.of_nat cs))
  = (let a' := relocate_pf (S (length sds)) sds upa subncol cs nrow ncol fixl (mkA cds out [] 0) in
     if (a_err a' =? 0)%nat then Some (a_cds a', a_out a') else None).
Proof.
  intros sds upa subnrow subncol cs nrow ncol fixl cds out Hlen.
  unfold gen_ihu_ihu_relocate_outlets, relocate_pf. cbv zeta. cbv beta iota. rewrite Hlen, map_map.
  cbn [a_out].
  pose proof (outer_eq sds subncol cs nrow ncol fixl
                (argsort (map (fun x => nth (nth x out (length sds)) upa 0%Z) fixl)) (mkA cds out [] 0) [] eq_refl) as H.
  cbn [a_cds a_out] in H. unfold enc2 in H. rewrite <- H.
  destruct (ofold _ _ _) as [[[c o] f]|]; reflexivity.
Qed.

Theorem gen_ihu_relocate_outlets_pf_eq : forall sds upa (subnrow : Z) subncol cs nrow ncol fixl cds out,
  length cds = (nrow * ncol)%nat ->
  gen_ihu_ihu_relocate_outlets (S (length sds)) fixl cds out sds upa (subnrow, Z.of_nat subncol) (Z.of_nat nrow, Z.of_nat ncol)
    (Z.of_nat cs)
  = (let a' := relocate_pf (S (length sds)) sds upa subncol cs nrow ncol fixl (mkA cds out [] 0) in
     if (a_err a' =? 0)%nat
     then Some (a_cds a', a_out a', rel_fix3 sds upa subnrow subncol cs nrow ncol fixl cds out) else None).
Proof.
  intros sds upa subnrow subncol cs nrow ncol fixl cds out Hlen.
  pose proof (gen_ihu_relocate_outlets_pf_prj sds upa subnrow subncol cs nrow ncol fixl cds out Hlen) as H.
  unfold rel_fix3. cbv zeta in *.
  destruct (gen_ihu_ihu_relocate_outlets _ _ _ _ _ _ _ _ _) as [[[c o] f]|]; cbn [option_map prj2] in H;
    destruct (a_err _ =? 0)%nat; try discriminate H; [|reflexivity].
  injection H as <- <-. reflexivity.
Qed.

(* the error flag of the model is the only way to None; with the model's own fuel for the passes (S (S (S nc))) the
   model is Ihu.relocate (GenIhuRelModel.relocate_pf_model) *)
Print Assumptions rel_one_eq.
Print Assumptions rl_one_pf_sticky.
Print Assumptions rl_one_pf_st.
Print Assumptions gen_ihu_relocate_outlets_pf_prj.
Print Assumptions gen_ihu_relocate_outlets_pf_eq.
